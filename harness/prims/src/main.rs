// Primitive server for the extracted Coq model: thin wrappers over bls12_381_plus /
// elliptic_curve. Does not link zkryptium. One request per line on stdin, one answer per
// line on stdout. All values are lowercase hex; points are canonical compressed encodings.
use bls12_381_plus::{
    multi_miller_loop, G1Affine, G1Projective, G2Affine, G2Prepared, G2Projective, Scalar,
};
use elliptic_curve::group::Curve;
use elliptic_curve::Group;
use elliptic_curve::hash2curve::{ExpandMsgXmd, ExpandMsgXof};
use std::io::{BufRead, Write};

fn g1(h: &str) -> Result<G1Projective, String> {
    let b = hex::decode(h).map_err(|e| e.to_string())?;
    let a: [u8; 48] = b.as_slice().try_into().map_err(|_| "len".to_string())?;
    let p = G1Affine::from_compressed(&a);
    if bool::from(p.is_none()) {
        return Err("g1".into());
    }
    let p = p.unwrap();
    if p.to_compressed() != a {
        return Err("noncanonical".into());
    }
    Ok(G1Projective::from(p))
}
fn g2(h: &str) -> Result<G2Projective, String> {
    let b = hex::decode(h).map_err(|e| e.to_string())?;
    let a: [u8; 96] = b.as_slice().try_into().map_err(|_| "len".to_string())?;
    let p = G2Affine::from_compressed(&a);
    if bool::from(p.is_none()) {
        return Err("g2".into());
    }
    let p = p.unwrap();
    if p.to_compressed() != a {
        return Err("noncanonical".into());
    }
    Ok(G2Projective::from(p))
}
fn sc(h: &str) -> Result<Scalar, String> {
    let b = hex::decode(h).map_err(|e| e.to_string())?;
    let a: [u8; 32] = b.as_slice().try_into().map_err(|_| "len".to_string())?;
    let s = Scalar::from_be_bytes(&a);
    if bool::from(s.is_none()) {
        return Err("scalar".into());
    }
    Ok(s.unwrap())
}
fn e1(p: G1Projective) -> String {
    hex::encode(p.to_affine().to_compressed())
}
fn e2(p: G2Projective) -> String {
    hex::encode(p.to_affine().to_compressed())
}

fn handle(line: &str) -> Result<String, String> {
    let t: Vec<&str> = line.split(' ').collect();
    let arg = |i: usize| -> Result<&str, String> {
        t.get(i).copied().map(|s| if s == "-" { "" } else { s }).ok_or("arity".to_string())
    };
    match t[0] {
        "g1add" => Ok(e1(g1(arg(1)?)? + g1(arg(2)?)?)),
        "g1neg" => Ok(e1(-g1(arg(1)?)?)),
        "g1mul" => Ok(e1(g1(arg(2)?)? * sc(arg(1)?)?)),
        "g1dec" => Ok(match g1(arg(1)?) {
            Ok(_) => "ok".into(),
            Err(e) => format!("no {}", e),
        }),
        "h2c" => {
            let msg = hex::decode(arg(2)?).map_err(|e| e.to_string())?;
            let dst = hex::decode(arg(3)?).map_err(|e| e.to_string())?;
            match arg(1)? {
                "sha" => Ok(e1(G1Projective::hash::<ExpandMsgXmd<sha2::Sha256>>(&msg, &dst))),
                "shake" => Ok(e1(G1Projective::hash::<ExpandMsgXof<sha3::Shake256>>(&msg, &dst))),
                _ => Err("suite".into()),
            }
        }
        "g2mulgen" => Ok(e2(G2Projective::GENERATOR * sc(arg(1)?)?)),
        "g2add" => Ok(e2(g2(arg(1)?)? + g2(arg(2)?)?)),
        "g2dec" => Ok(match g2(arg(1)?) {
            Ok(_) => "ok".into(),
            Err(e) => format!("no {}", e),
        }),
        "g2unc" => {
            // compressed -> uncompressed
            Ok(hex::encode(g2(arg(1)?)?.to_affine().to_uncompressed()))
        }
        "g2cmp" => {
            // uncompressed (192 bytes) -> compressed, or "no"
            let b = hex::decode(arg(1)?).map_err(|e| e.to_string())?;
            let a: Result<[u8; 192], _> = b.as_slice().try_into();
            match a {
                Err(_) => Ok("no len".into()),
                Ok(a) => {
                    let p = G2Affine::from_uncompressed(&a);
                    if bool::from(p.is_none()) {
                        Ok("no g2".into())
                    } else if p.unwrap().to_uncompressed() != a {
                        Ok("no noncanonical".into())
                    } else {
                        Ok(hex::encode(p.unwrap().to_compressed()))
                    }
                }
            }
        }
        "pair" => {
            // e(a, x) == e(b, y)
            let a = g1(arg(1)?)?.to_affine();
            let x = g2(arg(2)?)?.to_affine();
            let b = g1(arg(3)?)?.to_affine();
            let y = g2(arg(4)?)?.to_affine();
            let r = multi_miller_loop(&[
                (&a, &G2Prepared::from(x)),
                (&b, &G2Prepared::from(-y)),
            ])
            .final_exponentiation();
            Ok(if bool::from(r.is_identity()) { "1".into() } else { "0".into() })
        }
        _ => Err(format!("unknown {}", t[0])),
    }
}

fn main() {
    let stdin = std::io::stdin();
    let stdout = std::io::stdout();
    let mut out = stdout.lock();
    for line in stdin.lock().lines() {
        let line = line.unwrap();
        let line = line.trim_end();
        if line.is_empty() {
            continue;
        }
        let r = match handle(line) {
            Ok(s) => s,
            Err(e) => format!("ERROR {}", e),
        };
        writeln!(out, "{}", r).unwrap();
        out.flush().unwrap();
    }
}
