use crate::tok::*;
use crate::Out;
use elliptic_curve::group::Curve;
use elliptic_curve::hash2curve::ExpandMsg;
use zkryptium::bbsplus::ciphersuites::{BbsCiphersuite, Bls12381Sha256, Bls12381Shake256};
use zkryptium::bbsplus::commitment::{BBSplusCommitment, BlindFactor};
use zkryptium::bbsplus::generators::Generators;
use zkryptium::bbsplus::keys::{BBSplusPublicKey, BBSplusSecretKey};
use zkryptium::bbsplus::proof::{BBSplusPoKSignature, BBSplusZKPoK};
use zkryptium::bbsplus::signature::BBSplusSignature;
use zkryptium::keys::pair::KeyPair;
use zkryptium::schemes::algorithms::BBSplus;
use zkryptium::schemes::generics::{BlindSignature, Commitment, PoKSignature, Signature};
use zkryptium::utils::message::bbsplus_message::BBSplusMessage;
use zkryptium::utils::util::bbsplus_utils::{hash_to_scalar, ScalarExt};

fn h(b: impl AsRef<[u8]>) -> String {
    hex::encode(b)
}
fn ok1(b: impl AsRef<[u8]>) -> Out {
    Out::Ok(vec![h(b)])
}
macro_rules! tr {
    ($e:expr) => {
        match $e {
            Ok(v) => v,
            Err(_) => return Out::Err,
        }
    };
}

pub fn dispatch(op: &str, t: &[&str]) -> Option<Out> {
    // suite-independent ops
    match op {
        "dec" => return Some(dec(t)),
        "json" => return Some(json_rt(t)),
        "jsonapi" => return Some(json_api(t)),
        "jsondec" => return Some(json_dec(t)),
        "blindfactor_random" => {
            let b = BlindFactor::random();
            return Some(ok1(b.to_bytes()));
        }
        _ => {}
    }
    if t.is_empty() {
        return None;
    }
    match t[0] {
        "sha" => run::<Bls12381Sha256>(op, &t[1..]),
        "shake" => run::<Bls12381Shake256>(op, &t[1..]),
        _ => None,
    }
}

fn sig80(b: &[u8]) -> Result<&[u8; 80], ()> {
    <&[u8; 80]>::try_from(b).map_err(|_| ())
}

const OPS: &[&str] = &[
    "keygen", "keyrandom", "sk2pk", "gens", "h2s", "m2s", "ms2s", "sign", "verify", "update", "proofgen",
    "proofverify", "proofverifyraw", "commit", "dvc", "blindsign", "blindverify", "blindproofgen", "blindproofverify",
    "prep",
];

fn run<CS: BbsCiphersuite>(op: &str, t: &[&str]) -> Option<Out>
where
    CS::Expander: for<'a> ExpandMsg<'a>,
{
    if OPS.contains(&op) {
        Some(run_op::<CS>(op, t))
    } else {
        None
    }
}

fn run_op<CS: BbsCiphersuite>(op: &str, t: &[&str]) -> Out
where
    CS::Expander: for<'a> ExpandMsg<'a>,
{
    match op {
        "keygen" => {
            let ikm = bytes(t[0]);
            let ki = opt_bytes(t[1]);
            let kd = opt_bytes(t[2]);
            let kp = tr!(KeyPair::<BBSplus<CS>>::generate(&ikm, ki.as_deref(), kd.as_deref()));
            Out::Ok(vec![h(kp.private_key().to_bytes()), h(kp.public_key().to_bytes())])
        }
        "keyrandom" => {
            let kp = tr!(KeyPair::<BBSplus<CS>>::random());
            Out::Ok(vec![h(kp.private_key().to_bytes()), h(kp.public_key().to_bytes())])
        }
        "sk2pk" => {
            let sk = tr!(BBSplusSecretKey::from_bytes(&bytes(t[0])));
            ok1(sk.public_key().to_bytes())
        }
        "gens" => {
            let count = usize_(t[0]);
            let api = opt_bytes(t[1]);
            let g = Generators::create::<CS>(count, api.as_deref());
            let mut all = Vec::new();
            for p in &g.values {
                all.extend_from_slice(&p.to_affine().to_compressed());
            }
            Out::Ok(vec![h(g.g1_base_point.to_affine().to_compressed()), h(all)])
        }
        "h2s" => {
            let s = tr!(hash_to_scalar::<CS>(&bytes(t[0]), &bytes(t[1])));
            ok1(s.to_bytes_be())
        }
        "m2s" => {
            let s = tr!(BBSplusMessage::map_message_to_scalar_as_hash::<CS>(&bytes(t[0]), &bytes(t[1])));
            ok1(s.to_bytes_be())
        }
        "ms2s" => {
            let v = tr!(BBSplusMessage::messages_to_scalar::<CS>(&list(t[0]), &bytes(t[1])));
            let mut all = Vec::new();
            for m in v {
                all.extend_from_slice(&m.to_bytes_be());
            }
            ok1(all)
        }
        "sign" => {
            let sk = tr!(BBSplusSecretKey::from_bytes(&bytes(t[0])));
            let pk = tr!(BBSplusPublicKey::from_bytes(&bytes(t[1])));
            let hd = opt_bytes(t[2]);
            let ms = opt_list(t[3]);
            let s = tr!(Signature::<BBSplus<CS>>::sign(ms.as_deref(), &sk, &pk, hd.as_deref()));
            ok1(s.to_bytes())
        }
        "verify" => {
            let pk = tr!(BBSplusPublicKey::from_bytes(&bytes(t[0])));
            let sb = bytes(t[1]);
            let s = tr!(Signature::<BBSplus<CS>>::from_bytes(tr!(sig80(&sb))));
            let hd = opt_bytes(t[2]);
            let ms = opt_list(t[3]);
            tr!(s.verify(&pk, ms.as_deref(), hd.as_deref()));
            Out::Ok(vec![])
        }
        "update" => {
            let sk = tr!(BBSplusSecretKey::from_bytes(&bytes(t[0])));
            let sb = bytes(t[1]);
            let s = tr!(Signature::<BBSplus<CS>>::from_bytes(tr!(sig80(&sb))));
            let old = bytes(t[2]);
            let new = bytes(t[3]);
            let r = tr!(s.update_signature(&sk, &old, &new, usize_(t[4]), usize_(t[5])));
            ok1(r.to_bytes())
        }
        "proofgen" => {
            let pk = tr!(BBSplusPublicKey::from_bytes(&bytes(t[0])));
            let sb = bytes(t[1]);
            let hd = opt_bytes(t[2]);
            let ph = opt_bytes(t[3]);
            let ms = opt_list(t[4]);
            let ix = opt_idx(t[5]);
            let p = tr!(PoKSignature::<BBSplus<CS>>::proof_gen(
                &pk,
                &sb,
                hd.as_deref(),
                ph.as_deref(),
                ms.as_deref(),
                ix.as_deref()
            ));
            ok1(p.to_bytes())
        }
        "proofverify" => {
            let pk = tr!(BBSplusPublicKey::from_bytes(&bytes(t[0])));
            let p = tr!(PoKSignature::<BBSplus<CS>>::from_bytes(&bytes(t[1])));
            let dm = opt_list(t[2]);
            let ix = opt_idx(t[3]);
            let hd = opt_bytes(t[4]);
            let ph = opt_bytes(t[5]);
            tr!(p.proof_verify(&pk, dm.as_deref(), ix.as_deref(), hd.as_deref(), ph.as_deref()));
            Out::Ok(vec![])
        }
        // proof_verify with a public key built directly from a (possibly identity) G2 point and the proof taken
        // from its JSON / octet form: the verifier's own checks, not the key decoder's, must refuse degenerate input
        "proofverifyraw" => {
            let kb = bytes(t[0]);
            let arr = match <[u8; 96]>::try_from(kb.as_slice()) { Ok(a) => a, Err(_) => return Out::Err };
            let aff = bls12_381_plus::G2Affine::from_compressed(&arr);
            if bool::from(aff.is_none()) { return Out::Err; }
            let pk = BBSplusPublicKey(bls12_381_plus::G2Projective::from(aff.unwrap()));
            let p = tr!(PoKSignature::<BBSplus<CS>>::from_bytes(&bytes(t[1])));
            let dm = opt_list(t[2]);
            let ix = opt_idx(t[3]);
            let hd = opt_bytes(t[4]);
            let ph = opt_bytes(t[5]);
            tr!(p.proof_verify(&pk, dm.as_deref(), ix.as_deref(), hd.as_deref(), ph.as_deref()));
            Out::Ok(vec![])
        }
        "commit" => {
            let cm = opt_list(t[0]);
            let (c, b) = tr!(Commitment::<BBSplus<CS>>::commit(cm.as_deref()));
            Out::Ok(vec![h(c.to_bytes()), h(b.to_bytes())])
        }
        "dvc" => {
            // deserialize_and_validate_commit against create(count, "BLIND_"+API_ID_BLIND)
            let cwp = opt_bytes(t[0]);
            let count = usize_(t[1]);
            let g = Generators::create::<CS>(count, Some(&[b"BLIND_", CS::API_ID_BLIND].concat()));
            let c = tr!(Commitment::<BBSplus<CS>>::deserialize_and_validate_commit(
                cwp.as_deref(),
                &g,
                Some(CS::API_ID_BLIND)
            ));
            ok1(c.to_affine().to_compressed())
        }
        "blindsign" => {
            let sk = tr!(BBSplusSecretKey::from_bytes(&bytes(t[0])));
            let pk = tr!(BBSplusPublicKey::from_bytes(&bytes(t[1])));
            let cwp = opt_bytes(t[2]);
            let hd = opt_bytes(t[3]);
            let ms = opt_list(t[4]);
            let s = tr!(BlindSignature::<BBSplus<CS>>::blind_sign(
                &sk,
                &pk,
                cwp.as_deref(),
                hd.as_deref(),
                ms.as_deref()
            ));
            ok1(s.to_bytes())
        }
        "blindverify" => {
            let pk = tr!(BBSplusPublicKey::from_bytes(&bytes(t[0])));
            let sb = bytes(t[1]);
            let s = tr!(BlindSignature::<BBSplus<CS>>::from_bytes(tr!(sig80(&sb))));
            let hd = opt_bytes(t[2]);
            let ms = opt_list(t[3]);
            let cm = opt_list(t[4]);
            let bf = match opt_bytes(t[5]) {
                None => None,
                Some(b) => {
                    let a: [u8; 32] = tr!(b.as_slice().try_into());
                    Some(tr!(BlindFactor::from_bytes(&a)))
                }
            };
            tr!(s.verify_blind_sign(&pk, hd.as_deref(), ms.as_deref(), cm.as_deref(), bf.as_ref()));
            Out::Ok(vec![])
        }
        "prep" => {
            let ms = opt_list(t[0]);
            let cm = opt_list(t[1]);
            let gn = usize_(t[2]);
            let bn = usize_(t[3]);
            let bf = match opt_bytes(t[4]) {
                None => None,
                Some(b) => {
                    let a: [u8; 32] = tr!(b.as_slice().try_into());
                    Some(tr!(BlindFactor::from_bytes(&a)))
                }
            };
            let api = opt_bytes(t[5]);
            let (sc, g) = tr!(zkryptium::bbsplus::blind::prepare_parameters::<CS>(
                ms.as_deref(), cm.as_deref(), gn, bn, bf.as_ref(), api.as_deref()));
            let mut scs = Vec::new();
            for m in &sc {
                scs.extend_from_slice(&m.to_bytes_be());
            }
            let mut all = Vec::new();
            for p in &g.values {
                all.extend_from_slice(&p.to_affine().to_compressed());
            }
            Out::Ok(vec![h(scs), h(g.g1_base_point.to_affine().to_compressed()), h(all)])
        }
        "blindproofgen" => {
            let pk = tr!(BBSplusPublicKey::from_bytes(&bytes(t[0])));
            let sb = bytes(t[1]);
            let hd = opt_bytes(t[2]);
            let ph = opt_bytes(t[3]);
            let ms = opt_list(t[4]);
            let cm = opt_list(t[5]);
            let ix = opt_idx(t[6]);
            let cix = opt_idx(t[7]);
            let bf = match opt_bytes(t[8]) {
                None => None,
                Some(b) => {
                    let a: [u8; 32] = tr!(b.as_slice().try_into());
                    Some(tr!(BlindFactor::from_bytes(&a)))
                }
            };
            let p = tr!(PoKSignature::<BBSplus<CS>>::blind_proof_gen(
                &pk,
                &sb,
                hd.as_deref(),
                ph.as_deref(),
                ms.as_deref(),
                cm.as_deref(),
                ix.as_deref(),
                cix.as_deref(),
                bf.as_ref()
            ));
            ok1(p.to_bytes())
        }
        "blindproofverify" => {
            let pk = tr!(BBSplusPublicKey::from_bytes(&bytes(t[0])));
            let p = tr!(PoKSignature::<BBSplus<CS>>::from_bytes(&bytes(t[1])));
            let hd = opt_bytes(t[2]);
            let ph = opt_bytes(t[3]);
            let l = opt_usize(t[4]);
            let dm = opt_list(t[5]);
            let dcm = opt_list(t[6]);
            let ix = opt_idx(t[7]);
            let cix = opt_idx(t[8]);
            tr!(p.blind_proof_verify(
                &pk,
                hd.as_deref(),
                ph.as_deref(),
                l,
                dm.as_deref(),
                dcm.as_deref(),
                ix.as_deref(),
                cix.as_deref()
            ));
            Out::Ok(vec![])
        }
        _ => unreachable!(),
    }
}

// decoders: OK <re-encoding> | ERR | (panic caught by caller)
fn dec(t: &[&str]) -> Out {
    let b = bytes(t[1]);
    match t[0] {
        "pk" => ok1(tr!(BBSplusPublicKey::from_bytes(&b)).to_bytes()),
        "sk" => ok1(tr!(BBSplusSecretKey::from_bytes(&b)).to_bytes()),
        // the same keys through the scheme-generic traits (PrivateKey / PublicKey): to_bytes and the hex form `encode`
        "sktrait" => ok1(<BBSplusSecretKey as zkryptium::keys::traits::PrivateKey>::to_bytes(&tr!(BBSplusSecretKey::from_bytes(&b)))),
        "skenc" => ok1(tr!(hex::decode(<BBSplusSecretKey as zkryptium::keys::traits::PrivateKey>::encode(&tr!(BBSplusSecretKey::from_bytes(&b)))))),
        "skinhenc" => ok1(tr!(hex::decode(tr!(BBSplusSecretKey::from_bytes(&b)).encode()))),
        "pktrait" => ok1(<BBSplusPublicKey as zkryptium::keys::traits::PublicKey>::to_bytes(&tr!(BBSplusPublicKey::from_bytes(&b)))),
        "pkenc" => ok1(tr!(hex::decode(<BBSplusPublicKey as zkryptium::keys::traits::PublicKey>::encode(&tr!(BBSplusPublicKey::from_bytes(&b)))))),
        "pkinhenc" => ok1(tr!(hex::decode(tr!(BBSplusPublicKey::from_bytes(&b)).encode()))),
        "sig" => ok1(tr!(BBSplusSignature::from_bytes(tr!(sig80(&b)))).to_bytes()),
        "proof" => ok1(tr!(BBSplusPoKSignature::from_bytes(&b)).to_bytes()),
        "zkpok" => ok1(tr!(BBSplusZKPoK::from_bytes(&b)).to_bytes()),
        "commit" => ok1(tr!(BBSplusCommitment::from_bytes(&b)).to_bytes()),
        "blind" => {
            let a: [u8; 32] = tr!(b.as_slice().try_into());
            ok1(tr!(BlindFactor::from_bytes(&a)).to_bytes())
        }
        "msg" => {
            let a: [u8; 32] = tr!(b.as_slice().try_into());
            ok1(tr!(BBSplusMessage::from_bytes_be(&a)).to_bytes_be())
        }
        "pkxy" => {
            // 192 bytes: x || y
            if b.len() != 192 {
                return Out::Err;
            }
            let x: [u8; 96] = b[..96].try_into().unwrap();
            let y: [u8; 96] = b[96..].try_into().unwrap();
            ok1(tr!(BBSplusPublicKey::from_coordinates(&x, &y)).to_bytes())
        }
        "pk2xy" => {
            let pk = tr!(BBSplusPublicKey::from_bytes(&b));
            let (x, y) = pk.to_coordinates();
            ok1([x, y].concat())
        }
        _ => panic!("dec kind"),
    }
}

// arbitrary JSON text -> the scheme-generic API type (an enum over the schemes) -> its verification entry point, under a fixed key and
// with every optional argument absent: OK / ERR (a panic is caught by the caller)
fn json_api(t: &[&str]) -> Out {
    type S = BBSplus<Bls12381Sha256>;
    let s = match String::from_utf8(bytes(t[1])) {
        Ok(s) => s,
        Err(_) => return Out::Err,
    };
    let kp = tr!(KeyPair::<S>::generate(&[7u8; 32], None, None));
    let pk = kp.public_key();
    match t[0] {
        "sig" => {
            let v: Signature<S> = tr!(serde_json::from_str(&s));
            tr!(v.verify(pk, None, None));
            Out::Ok(vec![])
        }
        "proof" => {
            let v: PoKSignature<S> = tr!(serde_json::from_str(&s));
            tr!(v.proof_verify(pk, None, None, None, None));
            Out::Ok(vec![])
        }
        "blindsig" => {
            let v: BlindSignature<S> = tr!(serde_json::from_str(&s));
            tr!(v.verify_blind_sign(pk, None, None, None, None));
            Out::Ok(vec![])
        }
        "commit" => {
            let v: Commitment<S> = tr!(serde_json::from_str(&s));
            ok1(v.to_bytes())
        }
        _ => panic!("jsonapi kind"),
    }
}

// bytes -> object -> JSON -> object -> bytes
fn json_rt(t: &[&str]) -> Out {
    let b = bytes(t[1]);
    macro_rules! rt {
        ($ty:ty, $v:expr, $enc:expr) => {{
            let v: $ty = $v;
            let j = serde_json::to_string(&v).unwrap();
            let w: $ty = tr!(serde_json::from_str(&j));
            if w != v {
                return Out::Ok(vec!["MISMATCH".into()]);
            }
            ok1($enc(&w))
        }};
    }
    match t[0] {
        "pk" => rt!(BBSplusPublicKey, tr!(BBSplusPublicKey::from_bytes(&b)), |w: &BBSplusPublicKey| w.to_bytes()),
        "sk" => rt!(BBSplusSecretKey, tr!(BBSplusSecretKey::from_bytes(&b)), |w: &BBSplusSecretKey| w.to_bytes()),
        "sig" => rt!(
            BBSplusSignature,
            tr!(BBSplusSignature::from_bytes(tr!(sig80(&b)))),
            |w: &BBSplusSignature| w.to_bytes()
        ),
        "proof" => rt!(
            BBSplusPoKSignature,
            tr!(BBSplusPoKSignature::from_bytes(&b)),
            |w: &BBSplusPoKSignature| w.to_bytes()
        ),
        "commit" => rt!(
            BBSplusCommitment,
            tr!(BBSplusCommitment::from_bytes(&b)),
            |w: &BBSplusCommitment| w.to_bytes()
        ),
        _ => panic!("json kind"),
    }
}

// arbitrary JSON text -> decode; OK re-encoded bytes | ERR
fn json_dec(t: &[&str]) -> Out {
    let b = bytes(t[1]);
    let s = match String::from_utf8(b) {
        Ok(s) => s,
        Err(_) => return Out::Err,
    };
    match t[0] {
        "pk" => ok1(tr!(serde_json::from_str::<BBSplusPublicKey>(&s)).to_bytes()),
        "sk" => ok1(tr!(serde_json::from_str::<BBSplusSecretKey>(&s)).to_bytes()),
        "sig" => ok1(tr!(serde_json::from_str::<BBSplusSignature>(&s)).to_bytes()),
        "proof" => ok1(tr!(serde_json::from_str::<BBSplusPoKSignature>(&s)).to_bytes()),
        "zkpok" => ok1(tr!(serde_json::from_str::<BBSplusZKPoK>(&s)).to_bytes()),
        "commit" => ok1(tr!(serde_json::from_str::<BBSplusCommitment>(&s)).to_bytes()),
        _ => panic!("jsondec kind"),
    }
}
