// Runs zkryptium (built from /repo's working tree with feature verif_hooks) on a case file and
// prints one canonical line per case:   <idx> OK tok..|ERR|PANIC|TIMEOUT [D:..] [G:..]
// Usage: implrun <casefile> [--threads N] [--shuffle SEED] [--timeout SECS]
mod bbs;
#[cfg(feature = "cl03")]
mod cl;
mod tok;

use std::sync::{Arc, Mutex};
use std::time::{Duration, Instant};

pub enum Out {
    Ok(Vec<String>),
    Err,
}

fn run_case(line: &str) -> String {
    use zkryptium::utils::verif_hooks as vh;
    vh::reset();
    let mut toks: Vec<&str> = line.split(' ').collect();
    // optional replay queue prefix  Q,hex,hex
    if let Some(first) = toks.first() {
        if first.starts_with('Q') && (first.len() == 1 || first.as_bytes()[1] == b',') {
            for h in first[1..].split(',').skip(1) {
                vh::push_queue(hex::decode(h).unwrap());
            }
            toks.remove(0);
        }
    }
    let toks_owned: Vec<String> = toks.iter().map(|s| s.to_string()).collect();
    let r = std::panic::catch_unwind(move || {
        let t: Vec<&str> = toks_owned.iter().map(|s| s.as_str()).collect();
        dispatch(&t)
    });
    let mut s = match r {
        Ok(Out::Ok(v)) => {
            let mut s = String::from("OK");
            for x in v {
                s.push(' ');
                if x.is_empty() {
                    s.push('-');
                } else {
                    s.push_str(&x);
                }
            }
            s
        }
        Ok(Out::Err) => "ERR".to_string(),
        Err(_) => "PANIC".to_string(),
    };
    let log = vh::take_log();
    if !log.is_empty() {
        s.push_str(" D:");
        let parts: Vec<String> = log
            .iter()
            .map(|d| {
                let v = if d.kind == "scalar" || d.kind == "secret" {
                    hex::encode(&d.value)
                } else {
                    String::from_utf8(d.value.clone()).unwrap()
                };
                if d.params.is_empty() {
                    format!("{}={}", d.kind, v)
                } else {
                    format!("{}({})={}", d.kind, d.params.join(";"), v)
                }
            })
            .collect();
        s.push_str(&parts.join(","));
    }
    let gc = vh::take_gen_counts();
    if !gc.is_empty() {
        s.push_str(" G:");
        s.push_str(&gc.iter().map(|c| c.to_string()).collect::<Vec<_>>().join(","));
    }
    vh::reset();
    s
}

fn dispatch(t: &[&str]) -> Out {
    let op = t[0];
    if let Some(o) = bbs::dispatch(op, &t[1..]) {
        return o;
    }
    #[cfg(feature = "cl03")]
    if let Some(o) = cl::dispatch(op, &t[1..]) {
        return o;
    }
    panic!("implrun: unknown op {}", op);
}

fn main() {
    let args: Vec<String> = std::env::args().collect();
    let file = &args[1];
    let mut threads = 1usize;
    let mut shuffle: Option<u64> = None;
    let mut timeout = 20u64;
    let mut i = 2;
    while i < args.len() {
        match args[i].as_str() {
            "--threads" => {
                threads = args[i + 1].parse().unwrap();
                i += 2;
            }
            "--shuffle" => {
                shuffle = Some(args[i + 1].parse().unwrap());
                i += 2;
            }
            "--timeout" => {
                timeout = args[i + 1].parse().unwrap();
                i += 2;
            }
            _ => panic!("bad arg"),
        }
    }
    std::panic::set_hook(Box::new(|_| {}));
    let content = std::fs::read_to_string(file).unwrap();
    let cases: Vec<String> = content.lines().filter(|l| !l.is_empty()).map(|l| l.to_string()).collect();
    let n = cases.len();
    let mut order: Vec<usize> = (0..n).collect();
    if let Some(seed) = shuffle {
        let mut s = seed.wrapping_mul(6364136223846793005).wrapping_add(1442695040888963407);
        for i in (1..n).rev() {
            s = s.wrapping_mul(6364136223846793005).wrapping_add(1442695040888963407);
            let j = ((s >> 33) as usize) % (i + 1);
            order.swap(i, j);
        }
    }
    let cases = Arc::new(cases);
    let order = Arc::new(order);
    let next = Arc::new(Mutex::new(0usize));
    let results: Arc<Mutex<Vec<Option<String>>>> = Arc::new(Mutex::new(vec![None; n]));
    // running[worker] = Some((case idx, start))
    let running: Arc<Mutex<Vec<Option<(usize, Instant)>>>> = Arc::new(Mutex::new(Vec::new()));

    let spawn_worker = |wid: usize| {
        let cases = cases.clone();
        let order = order.clone();
        let next = next.clone();
        let results = results.clone();
        let running = running.clone();
        std::thread::Builder::new()
            .stack_size(64 << 20)
            .spawn(move || loop {
                let k = {
                    let mut g = next.lock().unwrap();
                    if *g >= order.len() {
                        running.lock().unwrap()[wid] = None;
                        return;
                    }
                    let k = *g;
                    *g += 1;
                    k
                };
                let idx = order[k];
                running.lock().unwrap()[wid] = Some((idx, Instant::now()));
                let r = run_case(&cases[idx]);
                let mut res = results.lock().unwrap();
                if res[idx].is_none() {
                    res[idx] = Some(r);
                } else {
                    // timed out meanwhile: this worker was abandoned
                    return;
                }
            })
            .unwrap();
    };
    {
        let mut r = running.lock().unwrap();
        for _ in 0..threads {
            r.push(None);
        }
    }
    for w in 0..threads {
        spawn_worker(w);
    }
    loop {
        std::thread::sleep(Duration::from_millis(20));
        let done = results.lock().unwrap().iter().all(|r| r.is_some());
        if done {
            break;
        }
        let mut respawn = Vec::new();
        {
            let mut run = running.lock().unwrap();
            for w in 0..run.len() {
                if let Some((idx, st)) = run[w] {
                    if st.elapsed() > Duration::from_secs(timeout) {
                        let mut res = results.lock().unwrap();
                        if res[idx].is_none() {
                            res[idx] = Some("TIMEOUT".to_string());
                            run[w] = None;
                            run.push(None);
                            respawn.push(run.len() - 1);
                        }
                    }
                }
            }
        }
        for w in respawn {
            spawn_worker(w);
        }
    }
    let res = results.lock().unwrap();
    let mut out = String::new();
    for (i, r) in res.iter().enumerate() {
        out.push_str(&format!("{} {}\n", i, r.as_ref().unwrap()));
    }
    use std::io::Write;
    std::io::stdout().write_all(out.as_bytes()).unwrap();
    std::io::stdout().flush().unwrap();
    std::process::exit(0);
}
