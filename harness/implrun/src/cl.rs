// CL03 half of the implementation runner.  Tokens: integers are decimal ("-5"), integer lists are
// "Z,1,2,3" ("Z" = empty), index lists "I,0,2", optional values "N" or the value, JSON documents "J<hex>".
#![allow(non_upper_case_globals, non_snake_case, non_camel_case_types)]
use crate::Out;
use rug::Integer;
use serde::{Deserialize, Serialize};
use zkryptium::{
    cl03::{
        bases::Bases,
        ciphersuites::{CL1024Sha256, CL2048Sha256, CL3072Sha256, CLCiphersuite},
        commitment::CL03Commitment,
        keys::{CL03CommitmentPublicKey, CL03PublicKey, CL03SecretKey},
        range_proof::{Boudot2000RangeProof, RangeProof},
        signature::CL03Signature,
    },
    keys::pair::KeyPair,
    schemes::{
        algorithms::{Ciphersuite, CL03},
        generics::{BlindSignature, Commitment, PoKSignature, Signature, ZKPoK},
    },
    utils::message::cl03_message::CL03Message,
    utils::random::{rand_int, random_bits, random_number, random_prime, random_qr},
};

// A small ciphersuite (same shape as the shipped ones) so that whole flows run in well under a second.
#[derive(Clone, PartialEq, Eq, Debug, Serialize, Deserialize)]
pub struct Toy {}
impl Ciphersuite for Toy {
    type HashAlg = sha2::Sha256;
}
impl CLCiphersuite for Toy {
    const SECPARAM: u32 = 192;
    const QSEC: u32 = 19;
    const ln: u32 = 2 * Self::SECPARAM;
    const lm: u32 = 256;
    const lin: u32 = 256;
    const le: u32 = Self::lm + 2;
    const ls: u32 = Self::ln + Self::lm + Self::lin;
    const RANGEPROOF_ALG: RangeProof = RangeProof::Boudot2000;
    const t: u32 = 128;
    const l: u32 = 40;
    const s: u32 = 40;
    const s1: u32 = 40;
    const s2: u32 = 552;
}

// A second small suite whose modulus length is NOT twice the security parameter (ln is only an upper bound in the trait):
// code that derives the prime length from ln instead of SECPARAM behaves differently here.
#[derive(Clone, PartialEq, Eq, Debug, Serialize, Deserialize)]
pub struct Toy2 {}
impl Ciphersuite for Toy2 {
    type HashAlg = sha2::Sha256;
}
impl CLCiphersuite for Toy2 {
    const SECPARAM: u32 = 192;
    const QSEC: u32 = 19;
    const ln: u32 = 448;
    const lm: u32 = 256;
    const lin: u32 = 256;
    const le: u32 = Self::lm + 2;
    const ls: u32 = Self::ln + Self::lm + Self::lin;
    const RANGEPROOF_ALG: RangeProof = RangeProof::Boudot2000;
    const t: u32 = 128;
    const l: u32 = 40;
    const s: u32 = 40;
    const s1: u32 = 40;
    const s2: u32 = 552;
}

// A third small suite whose exponent length le is a multiple of 8 (the shipped suites have le = 258): octet-length arithmetic written as
// bits / 8 + 1 and as (bits + 7) / 8 agrees only when the bit length is NOT byte-aligned.
#[derive(Clone, PartialEq, Eq, Debug, Serialize, Deserialize)]
pub struct Toy3 {}
impl Ciphersuite for Toy3 {
    type HashAlg = sha2::Sha256;
}
impl CLCiphersuite for Toy3 {
    const SECPARAM: u32 = 192;
    const QSEC: u32 = 19;
    const ln: u32 = 2 * Self::SECPARAM;
    const lm: u32 = 256;
    const lin: u32 = 256;
    const le: u32 = Self::lm + 8;
    const ls: u32 = Self::ln + Self::lm + Self::lin;
    const RANGEPROOF_ALG: RangeProof = RangeProof::Boudot2000;
    const t: u32 = 128;
    const l: u32 = 40;
    const s: u32 = 40;
    const s1: u32 = 40;
    const s2: u32 = 552;
}

// A very small suite (17-bit primes): whole flows are cheap enough to be re-evaluated INSIDE Coq with vm_compute on the logged
// draws, so that model, extraction and implementation are compared three ways on complete protocol runs.
#[derive(Clone, PartialEq, Eq, Debug, Serialize, Deserialize)]
pub struct Micro {}
impl Ciphersuite for Micro {
    type HashAlg = sha2::Sha256;
}
impl CLCiphersuite for Micro {
    const SECPARAM: u32 = 16;
    const QSEC: u32 = 4;
    const ln: u32 = 40;
    const lm: u32 = 8;
    const lin: u32 = 8;
    const le: u32 = Self::lm + 2;
    const ls: u32 = Self::ln + Self::lm + Self::lin;
    const RANGEPROOF_ALG: RangeProof = RangeProof::Boudot2000;
    const t: u32 = 128;
    const l: u32 = 40;
    const s: u32 = 40;
    const s1: u32 = 40;
    const s2: u32 = 552;
}

fn z(t: &str) -> Integer {
    Integer::from_str_radix(t, 10).expect("integer")
}
fn zl(t: &str) -> Vec<Integer> {
    assert!(t.starts_with('Z'), "integer list expected: {}", t);
    t[1..].split(',').skip(1).map(z).collect()
}
fn opt_zl(t: &str) -> Option<Vec<Integer>> {
    if t == "N" {
        None
    } else {
        Some(zl(t))
    }
}
fn idx(t: &str) -> Vec<usize> {
    assert!(t.starts_with('I'));
    t[1..].split(',').skip(1).map(|h| h.parse::<usize>().expect("dec")).collect()
}
fn opt_idx(t: &str) -> Option<Vec<usize>> {
    if t == "N" {
        None
    } else {
        Some(idx(t))
    }
}
fn js(t: &str) -> String {
    assert!(t.starts_with('J'));
    String::from_utf8(hex::decode(&t[1..]).expect("hex")).expect("utf8")
}
fn msgs(v: &[Integer]) -> Vec<CL03Message> {
    v.iter().map(|x| CL03Message::new(x.clone())).collect()
}
fn ok_ints(v: &[&Integer]) -> Out {
    Out::Ok(v.iter().map(|x| x.to_string()).collect())
}
fn okb(b: bool) -> Out {
    Out::Ok(vec![if b { "1".into() } else { "0".into() }])
}
fn zlist(v: &[Integer]) -> String {
    let mut s = String::from("Z");
    for x in v {
        s.push(',');
        s.push_str(&x.to_string());
    }
    s
}
fn jtok<T: Serialize>(x: &T) -> String {
    format!("J{}", hex::encode(serde_json::to_string(x).unwrap()))
}
fn sig_of(e: &Integer, s: &Integer, v: &Integer) -> CL03Signature {
    serde_json::from_value(serde_json::json!({"e": e, "s": s, "v": v})).unwrap()
}
fn sig_parts(s: &CL03Signature) -> (Integer, Integer, Integer) {
    let j = serde_json::to_value(s).unwrap();
    (
        serde_json::from_value(j["e"].clone()).unwrap(),
        serde_json::from_value(j["s"].clone()).unwrap(),
        serde_json::from_value(j["v"].clone()).unwrap(),
    )
}
fn com(t: &str) -> CL03Commitment {
    let v = zl(t);
    CL03Commitment { value: v[0].clone(), randomness: v[1].clone() }
}
fn opt_com(t: &str) -> Option<CL03Commitment> {
    if t == "N" {
        None
    } else {
        Some(com(t))
    }
}
fn cpk(t: &str) -> CL03CommitmentPublicKey {
    // Z,N,h,g0,g1,...
    let v = zl(t);
    CL03CommitmentPublicKey { N: v[0].clone(), h: v[1].clone(), g_bases: v[2..].to_vec() }
}
fn opt_cpk(t: &str) -> Option<CL03CommitmentPublicKey> {
    if t == "N" {
        None
    } else {
        Some(cpk(t))
    }
}
fn pk(t: &str) -> CL03PublicKey {
    let v = zl(t);
    CL03PublicKey::new(v[0].clone(), v[1].clone(), v[2].clone())
}
fn sk(t: &str) -> CL03SecretKey {
    let v = zl(t);
    CL03SecretKey::new(v[0].clone(), v[1].clone())
}

pub fn dispatch(op: &str, t: &[&str]) -> Option<Out> {
    if !op.starts_with("cl") {
        return None;
    }
    match op {
        "clrandbits" => {
            let v = random_bits(t[0].parse().unwrap());
            return Some(ok_ints(&[&v]));
        }
        "clrandint" => {
            let v = rand_int(z(t[0]), z(t[1]));
            return Some(ok_ints(&[&v]));
        }
        "clrandnumber" => {
            let v = random_number(z(t[0]));
            return Some(ok_ints(&[&v]));
        }
        "clrandprime" => {
            let v = random_prime(t[0].parse().unwrap());
            return Some(ok_ints(&[&v]));
        }
        "clrandqr" => {
            let v = random_qr(&z(t[0]));
            return Some(ok_ints(&[&v]));
        }
        // the big-integer primitives the Gallina model re-implements, evaluated by rug / GMP / zkryptium's divm
        "clprim" => {
            use rug::ops::DivRounding;
            let a = zl(t[1]);
            let r: Integer = match t[0] {
                "0" => Integer::from(a[0].pow_mod_ref(&a[1], &a[2]).unwrap()),
                "1" => match a[0].invert_ref(&a[1]) { Some(x) => Integer::from(x), None => return Some(Out::Err) },
                "2" => zkryptium::utils::util::cl03_utils::divm(&a[0], &a[1], &a[2]),
                "3" => Integer::from(&a[0] % &a[1]),
                "4" => { use digest::Digest; Integer::from_digits(sha2::Sha256::digest(a[0].to_string()).as_slice(), rug::integer::Order::MsfBe) }
                "5" => Integer::from(a[0].significant_bits()),
                "6" => Integer::from(a[0].sqrt_ref()),
                "7" => Integer::from(a[0].gcd_ref(&a[1])),
                "8" => Integer::from(if a[0].is_probably_prime(30) != rug::integer::IsPrime::No { 1 } else { 0 }),
                "9" => a[0].clone().div_floor(&a[1]),
                _ => panic!("clprim: unknown primitive"),
            };
            return Some(ok_ints(&[&r]));
        }
        _ => {}
    }
    if t.is_empty() {
        return None;
    }
    Some(match t[0] {
        "toy" => run::<Toy>(op, &t[1..]),
        "toy2" => run::<Toy2>(op, &t[1..]),
        "toy3" => run::<Toy3>(op, &t[1..]),
        "micro" => run::<Micro>(op, &t[1..]),
        "cl1024" => run::<CL1024Sha256>(op, &t[1..]),
        "cl2048" => run::<CL2048Sha256>(op, &t[1..]),
        "cl3072" => run::<CL3072Sha256>(op, &t[1..]),
        _ => return None,
    })
}

fn run<CS: CLCiphersuite>(op: &str, t: &[&str]) -> Out
where
    CS::HashAlg: digest::Digest,
{
    match op {
        "clparams" => Out::Ok(
            [CS::SECPARAM, CS::ln, CS::lm, CS::lin, CS::le, CS::ls].iter().map(|x| x.to_string()).collect(),
        ),
        "clmap" => {
            let m = CL03Message::map_message_to_integer_as_hash::<CS>(&crate::tok::bytes(t[0]));
            ok_ints(&[&m.value])
        }
        "clkeygen" => {
            let kp = KeyPair::<CL03<CS>>::generate();
            let (s, p) = kp.into_parts();
            ok_ints(&[&p.N, &p.b, &p.c, &s.p, &s.q])
        }
        "clbases" => {
            let p = CL03PublicKey::new(z(t[0]), Integer::from(0), Integer::from(0));
            let b = Bases::generate(&p, t[1].parse().unwrap());
            Out::Ok(vec![zlist(&b.0)])
        }
        // clcpkjson N|n nb: a commitment key with nb bases through its JSON encoding: 1 when it comes back unchanged
        "clcpkjson" => {
            let n = if t[0] == "N" { None } else { Some(z(t[0])) };
            let k = if t[1] == "N" { None } else { Some(t[1].parse::<usize>().unwrap()) };
            let c = CL03CommitmentPublicKey::generate::<CS>(n, k);
            let j = serde_json::to_string(&c).unwrap();
            let c2: Result<CL03CommitmentPublicKey, _> = serde_json::from_str(&j);
            match c2 {
                Ok(c2) => okb(c2 == c),
                Err(_) => Out::Err,
            }
        }
        "clcpk" => {
            let n = if t[0] == "N" { None } else { Some(z(t[0])) };
            let k = if t[1] == "N" { None } else { Some(t[1].parse::<usize>().unwrap()) };
            let c = CL03CommitmentPublicKey::generate::<CS>(n, k);
            let mut v = vec![c.N.clone(), c.h.clone()];
            v.extend(c.g_bases.iter().cloned());
            Out::Ok(vec![zlist(&v)])
        }
        // clsign pk sk bases msgs
        "clsign" => {
            let s = Signature::<CL03<CS>>::sign_multiattr(&pk(t[0]), &sk(t[1]), &Bases(zl(t[2])), &msgs(&zl(t[3])));
            let (e, s_, v) = sig_parts(s.cl03Signature());
            ok_ints(&[&e, &s_, &v])
        }
        "clsign1" => {
            let s = Signature::<CL03<CS>>::sign(&pk(t[0]), &sk(t[1]), &Bases(zl(t[2])), &CL03Message::new(z(t[3])));
            let (e, s_, v) = sig_parts(s.cl03Signature());
            ok_ints(&[&e, &s_, &v])
        }
        // clverify pk bases msgs sig(Z,e,s,v)
        "clverify" => {
            let sv = zl(t[3]);
            let s = Signature::<CL03<CS>>::CL03(sig_of(&sv[0], &sv[1], &sv[2]));
            okb(s.verify_multiattr(&pk(t[0]), &Bases(zl(t[1])), &msgs(&zl(t[2]))))
        }
        "clverify1" => {
            let sv = zl(t[3]);
            let s = Signature::<CL03<CS>>::CL03(sig_of(&sv[0], &sv[1], &sv[2]));
            okb(s.verify(&pk(t[0]), &Bases(zl(t[1])), &CL03Message::new(z(t[2]))))
        }
        // cldisclose pk bases msgs sig U  -> msgs' bases'
        "cldisclose" => {
            let sv = zl(t[3]);
            let s = Signature::<CL03<CS>>::CL03(sig_of(&sv[0], &sv[1], &sv[2]));
            let (m2, b2) = s.disclose_selectively(&msgs(&zl(t[2])), Bases(zl(t[1])), &pk(t[0]), &idx(t[4]));
            let mv: Vec<Integer> = m2.iter().map(|m| m.value.clone()).collect();
            Out::Ok(vec![zlist(&mv), zlist(&b2.0)])
        }
        // codecs: to_bytes then from_bytes
        "clsigcodec" => {
            let sv = zl(t[0]);
            let s = Signature::<CL03<CS>>::CL03(sig_of(&sv[0], &sv[1], &sv[2]));
            let b = s.to_bytes();
            let s2 = Signature::<CL03<CS>>::from_bytes(&b);
            let (e, s_, v) = sig_parts(s2.cl03Signature());
            let j = serde_json::to_string(&s).unwrap();
            let s3: Signature<CL03<CS>> = serde_json::from_str(&j).unwrap();
            let same_json = s3 == s;
            Out::Ok(vec![hex::encode(&b), e.to_string(), s_.to_string(), v.to_string(), if same_json { "1".into() } else { "0".into() }])
        }
        "clsigfrombytes" => {
            let s2 = Signature::<CL03<CS>>::from_bytes(&crate::tok::bytes(t[0]));
            let (e, s_, v) = sig_parts(s2.cl03Signature());
            ok_ints(&[&e, &s_, &v])
        }
        "clpkcodec" => {
            let p = pk(t[0]);
            let b = p.to_bytes::<CL03<CS>>();
            let p2 = CL03PublicKey::from_bytes::<CL03<CS>>(&b);
            let j = serde_json::to_string(&p).unwrap();
            let p3: CL03PublicKey = serde_json::from_str(&j).unwrap();
            Out::Ok(vec![hex::encode(&b), p2.N.to_string(), p2.b.to_string(), p2.c.to_string(), if p3 == p { "1".into() } else { "0".into() }])
        }
        "clpkfrombytes" => {
            let p2 = CL03PublicKey::from_bytes::<CL03<CS>>(&crate::tok::bytes(t[0]));
            ok_ints(&[&p2.N, &p2.b, &p2.c])
        }
        "clskcodec" => {
            let s = sk(t[0]);
            let b = s.to_bytes::<CL03<CS>>();
            let s2 = CL03SecretKey::from_bytes::<CL03<CS>>(&b);
            let j = serde_json::to_string(&s).unwrap();
            let s3: CL03SecretKey = serde_json::from_str(&j).unwrap();
            Out::Ok(vec![hex::encode(&b), s2.p.to_string(), s2.q.to_string(), if s3 == s { "1".into() } else { "0".into() }])
        }
        // clcommit pk bases msgs U|N -> value randomness
        "clcommit" => {
            let u = opt_idx(t[3]);
            let c = Commitment::<CL03<CS>>::commit_with_pk(&msgs(&zl(t[2])), &pk(t[0]), &Bases(zl(t[1])), u.as_deref());
            ok_ints(&[c.value(), c.randomness()])
        }
        "clcommitcpk" => {
            let u = opt_idx(t[2]);
            let c = Commitment::<CL03<CS>>::commit_with_commitment_pk(&msgs(&zl(t[1])), &cpk(t[0]), u.as_deref());
            ok_ints(&[c.value(), c.randomness()])
        }
        // clextend C revealed pk bases ridx|N -> value randomness
        "clextend" => {
            let mut c = Commitment::<CL03<CS>>::CL03(com(t[0]));
            let r = opt_idx(t[4]);
            c.extend_commitment_with_pk(&msgs(&zl(t[1])), &pk(t[2]), &Bases(zl(t[3])), r.as_deref());
            ok_ints(&[c.value(), c.randomness()])
        }
        // clzkgen msgs C Ct|N pk bases cpk|N U -> J
        "clzkgen" => {
            let ct = opt_com(t[2]);
            let cp = opt_cpk(t[5]);
            let zk = ZKPoK::<CL03<CS>>::generate_proof(&msgs(&zl(t[0])), &com(t[1]), ct.as_ref(), &pk(t[3]), &Bases(zl(t[4])), cp.as_ref(), &idx(t[6]));
            Out::Ok(vec![jtok(&zk)])
        }
        // clzkver J C Ct|N pk bases cpk|N U -> bool
        "clzkver" => {
            let zk: ZKPoK<CL03<CS>> = match serde_json::from_str(&js(t[0])) { Ok(x) => x, Err(_) => return Out::Err };
            let ct = opt_com(t[2]);
            let cp = opt_cpk(t[5]);
            okb(zk.verify_proof(&com(t[1]), ct.as_ref(), &pk(t[3]), &Bases(zl(t[4])), cp.as_ref(), &idx(t[6])))
        }
        // clblindsign pk sk bases J revealed|N C Ct|N cpk|N U ridx|N -> e rprime v
        "clblindsign" => {
            let zk: ZKPoK<CL03<CS>> = match serde_json::from_str(&js(t[3])) { Ok(x) => x, Err(_) => return Out::Err };
            let rev = opt_zl(t[4]).map(|v| msgs(&v));
            let ct = opt_com(t[6]);
            let cp = opt_cpk(t[7]);
            let ri = opt_idx(t[9]);
            let bs = BlindSignature::<CL03<CS>>::blind_sign(&pk(t[0]), &sk(t[1]), &Bases(zl(t[2])), &zk, rev.as_deref(), &com(t[5]), ct.as_ref(), cp.as_ref(), &idx(t[8]), ri.as_deref());
            ok_ints(&[bs.e(), bs.rprime(), bs.v()])
        }
        // clunblind bsig(Z,e,rprime,v) C -> e s v
        "clunblind" => {
            let b = zl(t[0]);
            let bs: BlindSignature<CL03<CS>> = serde_json::from_value(serde_json::json!({"CL03": {"e": b[0], "rprime": b[1], "v": b[2]}})).unwrap();
            let s = bs.unblind_sign(&Commitment::<CL03<CS>>::CL03(com(t[1])));
            let (e, s_, v) = sig_parts(s.cl03Signature());
            ok_ints(&[&e, &s_, &v])
        }
        // clupdate bsig revealed|N C sk pk bases ridx|N -> e rprime v
        "clupdate" => {
            let b = zl(t[0]);
            let bs: BlindSignature<CL03<CS>> = serde_json::from_value(serde_json::json!({"CL03": {"e": b[0], "rprime": b[1], "v": b[2]}})).unwrap();
            let rev = opt_zl(t[1]).map(|v| msgs(&v));
            let ri = opt_idx(t[6]);
            let u = bs.update_signature(rev.as_deref(), &com(t[2]), &sk(t[3]), &pk(t[4]), &Bases(zl(t[5])), ri.as_deref());
            ok_ints(&[u.e(), u.rprime(), u.v()])
        }
        // clspokgen sig cpk pk bases msgs U -> J
        "clspokgen" => {
            let sv = zl(t[0]);
            let p = PoKSignature::<CL03<CS>>::proof_gen(&sig_of(&sv[0], &sv[1], &sv[2]), &cpk(t[1]), &pk(t[2]), &Bases(zl(t[3])), &msgs(&zl(t[4])), &idx(t[5]));
            Out::Ok(vec![jtok(&p)])
        }
        // clspokver J cpk pk bases revealed U n -> bool
        "clspokver" => {
            let p: PoKSignature<CL03<CS>> = match serde_json::from_str(&js(t[0])) { Ok(x) => x, Err(_) => return Out::Err };
            okb(p.proof_verify(&cpk(t[1]), &pk(t[2]), &Bases(zl(t[3])), &msgs(&zl(t[4])), &idx(t[5]), t[6].parse().unwrap()))
        }
        // clrpprove value C g h n rmin rmax -> J
        "clrpprove" => {
            let p = Boudot2000RangeProof::prove::<CS::HashAlg>(&z(t[0]), &com(t[1]), &z(t[2]), &z(t[3]), &z(t[4]), &z(t[5]), &z(t[6]));
            Out::Ok(vec![jtok(&p)])
        }
        // clrpverify J g h n rmin rmax -> bool
        "clrpverify" => {
            let p: Boudot2000RangeProof = match serde_json::from_str(&js(t[0])) { Ok(x) => x, Err(_) => return Out::Err };
            okb(p.verify::<CS::HashAlg>(&z(t[1]), &z(t[2]), &z(t[3]), &z(t[4]), &z(t[5])))
        }
        _ => panic!("implrun: unknown cl op {}", op),
    }
}
