// Token grammar of case files (shared with the OCaml model driver):
//   bytes      : hex, "-" for the empty string
//   opt bytes  : "N" | "S"hex
//   list       : "L"(","hex)*          opt list : "N" | list
//   index list : "I"(","dec)*          opt      : "N" | index list
//   usize      : dec                   opt usize: "N" | "U"dec
pub fn bytes(t: &str) -> Vec<u8> {
    if t == "-" {
        Vec::new()
    } else {
        hex::decode(t).expect("hex")
    }
}
pub fn opt_bytes(t: &str) -> Option<Vec<u8>> {
    if t == "N" {
        None
    } else {
        assert!(t.starts_with('S'));
        Some(hex::decode(&t[1..]).expect("hex"))
    }
}
pub fn list(t: &str) -> Vec<Vec<u8>> {
    assert!(t.starts_with('L'));
    t[1..].split(',').skip(1).map(|h| hex::decode(h).expect("hex")).collect()
}
pub fn opt_list(t: &str) -> Option<Vec<Vec<u8>>> {
    if t == "N" {
        None
    } else {
        Some(list(t))
    }
}
pub fn idx(t: &str) -> Vec<usize> {
    assert!(t.starts_with('I'));
    t[1..].split(',').skip(1).map(|h| h.parse::<usize>().expect("dec")).collect()
}
pub fn opt_idx(t: &str) -> Option<Vec<usize>> {
    if t == "N" {
        None
    } else {
        Some(idx(t))
    }
}
pub fn usize_(t: &str) -> usize {
    t.parse::<usize>().expect("dec")
}
pub fn opt_usize(t: &str) -> Option<usize> {
    if t == "N" {
        None
    } else {
        assert!(t.starts_with('U'));
        Some(t[1..].parse::<usize>().expect("dec"))
    }
}
