#!/usr/bin/env python3
"""Expands a compact spec (name / lemma / statement triples) into a Properties/Cxx.v file in the pinned
form  Theorem .. Proof. exact lemma. Qed.  Check (.. : ..).  Print Assumptions ...  Run by hand; the
generated .v file is what is committed and compiled."""
import sys, re
spec = open(sys.argv[1]).read()
head, _, body = spec.partition("\n====\n")
out = [head.rstrip(), ""]
for blk in body.split("\n----\n"):
    blk = blk.strip()
    if not blk: continue
    lines = blk.split("\n")
    comment = []
    while lines and lines[0].startswith("#"):
        comment.append(lines.pop(0)[1:].strip())
    name, lemma = lines[0].split()
    stmt = "\n".join(lines[1:]).strip()
    if comment: out.append("(* " + "\n   ".join(comment) + " *)")
    out.append("Theorem %s :\n  %s.\nProof. exact %s. Qed." % (name, stmt, lemma))
    out.append("Check (%s :\n  %s)." % (name, stmt))
    out.append("Print Assumptions %s.\n" % name)
open(sys.argv[2], "w").write("\n".join(out))
