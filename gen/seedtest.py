#!/usr/bin/env python3
"""seedtest.py confirm <mutdir>            -- confirm a seeded change in a scratch worktree: suite passes, demo fails with / passes without
   seedtest.py detect <mutdir> <pid>...    -- apply it to /repo, run the given checks (quick), undo; prints which raise VIOLATION"""
import sys, os, subprocess, json, shutil
WT = "/tmp/mutcheck/wt"
ENV = dict(os.environ, CARGO_NET_OFFLINE="true", CARGO_TARGET_DIR="/tmp/mutcheck/target")
def sh(cmd, cwd=None, env=None):
    p = subprocess.run(cmd, shell=True, cwd=cwd, env=env or ENV, stdout=subprocess.PIPE, stderr=subprocess.STDOUT, text=True)
    return p.returncode, p.stdout
def confirm(d):
    if not os.path.exists(WT):
        os.makedirs("/tmp/mutcheck", exist_ok=True)
        sh("git -C /repo worktree add -q --detach %s HEAD" % WT)
    sh("git checkout -q --detach $(git -C /repo rev-parse HEAD) && git checkout -- . && git clean -fdq tests", cwd=WT)
    rc, out = sh("git apply %s/patch.diff" % d, cwd=WT)
    if rc: return {"ok": False, "why": "patch does not apply: " + out}
    feat = ""
    meta = json.load(open(os.path.join(d, "meta.json"))) if os.path.exists(os.path.join(d, "meta.json")) else {}
    if meta.get("features"): feat = " --features " + meta["features"]
    rc, out = sh("cargo test --offline --lib 2>&1 | grep 'test result' | head -1", cwd=WT)
    suite = out.strip()
    os.makedirs(os.path.join(WT, "tests"), exist_ok=True)
    shutil.copy(os.path.join(d, "demo.rs"), os.path.join(WT, "tests", "demo.rs"))
    rc1, out1 = sh("cargo test --offline --test demo%s" % feat, cwd=WT)
    sh("git apply -R %s/patch.diff" % d, cwd=WT)
    rc2, out2 = sh("cargo test --offline --test demo%s" % feat, cwd=WT)
    os.remove(os.path.join(WT, "tests", "demo.rs"))
    ok = ("98 passed" in suite and "0 failed" in suite) and rc1 != 0 and rc2 == 0
    return {"ok": ok, "suite": suite, "demo_with_patch_rc": rc1, "demo_without_patch_rc": rc2, "demo_with_patch_tail": out1[-600:]}
def detect(d, pids):
    rc, out = sh("git -C /repo status --porcelain")
    if out.strip(): print("refusing: /repo is dirty"); sys.exit(2)
    rc, out = sh("git -C /repo apply %s/patch.diff" % d)
    if rc: print("patch does not apply to /repo:", out); sys.exit(2)
    res = {}
    try:
        for pid in pids:
            rc, out = sh("bin/check %s --tier quick" % pid, cwd="/verif", env=dict(os.environ))
            v = [l for l in out.split("\n") if l.startswith("VIOLATION") or l.startswith("[")]
            res[pid] = {"rc": rc, "lines": v}
    finally:
        sh("git -C /repo checkout -- .")
    return res
if __name__ == "__main__":
    if sys.argv[1] == "confirm": print(json.dumps(confirm(sys.argv[2]), indent=1))
    else: print(json.dumps(detect(sys.argv[2], sys.argv[3:]), indent=1))
