#!/usr/bin/env python3
"""Records the token-normalised bodies of the RNG call sites (run by hand when the model's RngSpec is reviewed)."""
import sys, os, json
sys.path.insert(0, os.path.dirname(os.path.dirname(os.path.abspath(__file__))))
from vlib.props2 import rng_shapes
json.dump(rng_shapes(), open(os.path.join(os.path.dirname(os.path.abspath(__file__)), "rng_shapes.json"), "w"), indent=1, sort_keys=True)
