#!/usr/bin/env python3
"""Writes /verif/MANIFEST.json from the table below (run by hand after a property is added)."""
import json, os
V = os.path.dirname(os.path.dirname(os.path.abspath(__file__)))

TECH = "machine-checked proof in Coq 8.16 over an executable Gallina model + checked correspondence (extraction to OCaml, differential run against zkryptium with logged randomness) + implementation-side sweep for replays"
NOTE_BBS = ("Premises: Laws E (prime-order bilinear group in discrete-log form, field laws, canonical codecs) -- true of BLS12-381, not proved for "
            "bls12_381_plus; curve / pairing / hash_to_curve delegated to the same crates the implementation uses; hand-written model tied to the code by "
            "differential testing (generator quality bounds it) and by constants regenerated from ciphersuites.rs; extraction via ExtrOcamlBasic / "
            "ExtrOcamlZBigInt + 3 bitwise Extract Constants; Print Assumptions of every pinned theorem: closed under the global context.")
NOTE_CL = ("Premises are explicit hypotheses of each theorem (modulus positive, bases invertible mod N, Euler-type premise x^phi = 1 where used); rug/GMP big-integer "
           "arithmetic is modelled by Coq's Z and tied to the code by differential runs with logged randomness on a toy ciphersuite and on CL1024; primality of generated "
           "primes is GMP's (re-tested, not proved); extraction via ExtrOcamlBasic / ExtrOcamlZBigInt; Print Assumptions: closed under the global context.")

P = {}
def prop(pid, cat, text, ref, note=NOTE_BBS, tech=TECH):
    P[pid] = dict(cat=cat, text=text, ref=ref, note=note, tech=tech)

prop("C01", "proof",
     "Coq theorems for every environment satisfying Laws: sign then verify is Ok for all keys, headers, message lists (any L, any lengths); signing is total outside "
     "sk+e=0 / B=O; 80-byte codec round trip; None = empty; key generation total. Tied to the code by constants regenerated from ciphersuites.rs and a byte-for-byte "
     "correspondence run of the extracted model against zkryptium.", "DESIGN.md §10 C01")
prop("C02", "proof",
     "Unconditional theorems: for an accepted (A,e) every other A' (same e) and every other e' (same A) is rejected on the same inputs, hence every edit confined to one "
     "of the two fields of the 80-byte encoding -- in particular all 640 single-bit flips -- is Err at decoding or verification (with codec canonicity, C09). Reduction theorem "
     "verify_binding: one signature accepted for two different (messages, header) of the same length (byte change, swap, replacement; header change, None = empty) constructs a "
     "collision of the message hash on two explicit different messages, a collision of the domain hash on explicit different octets, or a non-trivial discrete-log relation among "
     "Q1, H_1..H_L (no injectivity hypothesis on any hash); verify_binding_lengths: the same for two message lists of DIFFERENT lengths (insert / delete / truncate / extend): "
     "the shorter statement's generators are a prefix of the longer one's (create_prefix), so acceptance of both constructs a non-trivial relation among Q1, H_1..H_L' or a "
     "collision of the domain hash on two explicit inputs that carry different counts. PARTIAL: other public key and cross-suite / cross-interface "
     "clauses are decided by correspondence + sweep on every mutation class the property lists.", "DESIGN.md §10 C02")
prop("C03", "proof",
     "Coq theorem proof_complete: for every environment with Laws, every valid signature, every message list (any L), every index list (unsorted, duplicates allowed, "
     "entries < L), every header / presentation header and all draws outside {r1 = 0, r2 = 0}: proof_gen = Ok p, proof_verify with exactly the disclosed messages at their "
     "positions = Ok, |to_bytes p| = 272 + 32 U, from_bytes(to_bytes p) = Ok p; index lemmas (complement, U + R = L, sort/dedup) by induction. Tied to the code by byte-for-byte "
     "correspondence of proof_gen under the production RNG (draws logged and replayed into the model) over all 2^L subsets for small L and sampled subsets up to L = 300.",
     "DESIGN.md §10 C03")
prop("C04", "proof",
     "Proved: every proof with an identity among Abar, Bbar, D is rejected both by the decoder and by the verifier itself (the F1 universal-forgery family, repaired by "
     "commit fc846b8), only 272 + 32 k octets decode, and an accepted proof pins its challenge to the hash of the recomputed (T1, T2, domain, disclosed data, ph) and satisfies "
     "the pairing equation with non-identity points; proof_statement_binding: one proof accepted for two statements constructs an explicit collision of the challenge hash unless "
     "disclosed positions, disclosed scalars, presentation header and domain agree (challenge_octets_inj: the encoding is injective); proof_special_soundness: two accepted transcripts with the "
     "same Abar, Bbar, D, T1, T2 and different challenges determine e, r1, r3 and the hidden scalars by explicit formulas with Bbar = D r1 - Abar e, B = D r3 and "
     "(sk + e) r3 Abar = r1 B (a signature on the disclosed + extracted messages; r1 = 0 gives sk = -e, r3 = 0 gives B = O); proof_response_edit_reduces: a second accepted proof differing from an accepted one only in e^, only in r1^ or only in r3^ exhibits an explicit collision of the challenge hash (Abar, D are not the identity). PARTIAL: bit flips of the points and of the challenge field are "
     "decided by correspondence (the model's decision on every mutated instance equals zkryptium's) + sweep: all single-bit flips of proofs, whole-scalar truncation / extension, "
     "statement edits, and forgeries built without a signature (identity / Bv / P1 / Q1 families, torsion pairs outside the subgroup that cancel).", "DESIGN.md §10 C04")
prop("C05", "proof",
     "Coq theorems for all M, L >= 0: commit_valid (Schnorr completeness, 112 + 32 M octets, accepted by the signer-side validation over any extending blind-generator set), "
     "blind_sign_verify_complete and blind_sign_no_commit_complete (signer's (len-80)/32 = M+1 and get(1..len-1) of M+2 blind generators are the verifier's J_1..J_M: same domain, "
     "same B), blind_proof_complete for every pair of disclosure lists (index translation j -> j+L+1 sorted / deduplicated, M recomputed from U, R1, R2, L). Correspondence: all "
     "2^L x 2^M pairs for small shapes, byte for byte with logged randomness.", "DESIGN.md §10 C05")
prop("C06", "proof",
     "Proved: gating (blind_sign returns a signature only if the commitment is absent or core_commit_verify accepted it against this suite's blind generators), strict framing "
     "(only 112 + 32 k octets decode; canonical re-encoding), accepted commitment proofs pin the challenge to the hash of (M, generators, C, recomputed Cbar); commit_special_soundness: two accepted "
     "transcripts with the same Cbar and different challenges give an opening of C over the blind generators by explicit formulas; blind_verify_binding: one blind signature accepted for two different (messages, committed messages, blinding factor, header) constructs a hash collision or a DL relation among Q1, H_i, Q2, J_j. PARTIAL: rejection "
     "of bit-flipped / transplanted / cross-suite commitments and binding of blind signatures and blind proofs rest on collision resistance: correspondence + sweep (all "
     "single-bit flips of commitments and blind proofs, scalar- and byte-granular resizing, cross-suite, edits of every input), history pass for state-dependent acceptance.",
     "DESIGN.md §10 C06")
prop("C07", "proof",
     "Proved (algebra of how the draws are used): the witness holder's recomputation of every blinding scalar of a proof / commitment returns exactly the draws; reusing the "
     "draws under two challenges reveals e and every hidden message by division. Tied to the code by byte-for-byte correspondence of proof_gen / commit / blind_proof_gen / "
     "KeyPair::random against the logged production draws and a source-shape tie of the RNG call sites. PARTIAL: that thread_rng delivers fresh independent values lives in the "
     "runtime: a statistical monitor (distinctness across runs, threads and processes; magnitude; window scan of proofs for hidden scalars) supports it, does not prove it.",
     "DESIGN.md §10 C07")
prop("C08", "proof",
     "no_panic theorems for ALL byte strings / index lists / counts for every decoder and every verifier, signer and holder entry point of the Rust-semantics model "
     "(slices, checked/unchecked usize arithmetic, unwrap), plus work bounds on the number of generators requested; tied to the code by outcome-class (Ok/Err/Panic/timeout) "
     "correspondence on every length 0..1024 and boundary counts, with the generator-count hook.", "DESIGN.md §10 C08")
prop("C09", "proof",
     "Codec theorems for every BBS codec: dec(enc x) = Ok x, dec b = Ok x -> enc x = b (so no two octet strings decode to one object), strict lengths, identity / zero "
     "exponent rejected; scalar codec proved on N mod r; point codec facts from the codec laws. Correspondence + sweep over all single-bit flips, extensions, truncations, "
     "non-canonical scalars and point patterns.", "DESIGN.md §10 C09")
prop("C10", "translation_validation",
     "The extracted Coq model (hashing and all glue in Gallina, curve arithmetic delegated to the primitive server) is the independent reference: it must reproduce every "
     "fixture, then equal zkryptium byte for byte / decision for decision on generated inputs at length-prefix boundaries, on 16 threads in shuffled order; the input-limit "
     "clauses are Coq theorems.", "DESIGN.md §10 C10")

prop("C11", "proof",
     "Finite-table theorem interface_ids_separated recomputed by vm_compute over constants regenerated from ciphersuites.rs on every run (6 interface ids pairwise "
     "prefix-free, 36 derived DSTs / seeds pairwise distinct and <= 255 bytes, P1 per suite); create_prefix for any expander and any count (induction over the seed chain); "
     "reductions: a repeated generator, or one shared between two interface ids, is a collision of expand_message / hash_to_curve on explicit distinct inputs. Identity- / "
     "P1-freeness are pre-image events: scanned over all created points, not proved. Cross-suite / cross-interface rejection of artefacts: correspondence + sweep (every honest "
     "artefact replayed under every other suite / interface), history pass for state-dependent derivations.", "DESIGN.md §10 C11")
prop("C12", "proof",
     "update_history_inv by induction on the update list: from a valid signature, after any sequence of updates (stating the current value as old) the returned signature "
     "verifies for the current vector with the same exponent and equals B(msgs_k)/(sk+e) (update_is_signers_signature); update_step_total: a step fails only with Err and only "
     "when the new B is the identity; update_oob: position >= n is Err for all values (no panic: C08); update_wrong_old: a wrong old value never verifies for the intended "
     "vector unless the two values collide under the message hash or H_i = O. Rejection of earlier vectors rests on C02's binding (sweep). Correspondence: every intermediate "
     "signature of generated histories byte for byte.", "DESIGN.md §10 C12")

prop("C13", "proof",
     "Coq theorems over Z (model's modexp proved equal to b^e mod n): cl_sign_verify_complete -- every signature sign_multiattr returns verifies, for any number of attributes, "
     "any bases coprime to N, any draws (premise: Euler's theorem for N, true for N = p q); e leaves the loop with exactly le bits and coprime to phi; disclose_verify_complete -- for every list of hidden positions (any order, repetitions) disclose_selectively succeeds and the signature verifies on the disclosed (bases', msgs'); shift_forgery_rejected "
     "(m_i + k e is refused whatever v: F7, repaired by c3225ee) with the pinned tree's acceptance kept as a machine-checked finding; non-canonical v refused (F14, 222458b); both bounds on e in verify_multiattr (F18, 72cfca4: (e + k phi, s, v) verified before). "
     "Tied to the code by integer-for-integer correspondence of sign / verify / disclose / codecs under the production RNG (draw kinds and bit lengths included) on a toy suite "
     "and CL1024, and a sweep of every negative class the property lists. PARTIAL: 'other attribute vector / other bases / other key is rejected' rests on the strong RSA "
     "assumption (sweep + correspondence only).", "DESIGN.md §10 C13", NOTE_CL)
prop("C14", "proof",
     "Proved end to end: blind_issuance_valid -- for every attribute vector, every strictly increasing list U of hidden positions and every logged randomness (random_bits "
     "values >= 0), whatever blind_sign returns for the honest holder's commitment and the revealed attributes at the complementary positions unblinds to a signature that "
     "verify_multiattr accepts on the WHOLE vector (honest_extension_commits_to_all: hidden product * revealed product = product over all positions, F6 repaired by 0fe18d8; "
     "blind_issue_complete: e-th root under the key premises good_key, which the harness checks on every run); zkpok_complete / honest_issuance_proof_accepted -- the whole "
     "issuance proof the holder generates (trusted-party proof, multi-secret proof, per-attribute opening and range proofs, opening and range proof of r) is accepted for every U "
     "(attribute count other than one); gating (blind_sign returns only when verify_proof returned true; a false proof is a panic = refusal); cl_update_complete (re-issuing after a revealed attribute changed verifies on the updated vector; verify_two_vectors_reduces: acceptance on the old vector too would make the two products of powers congruent); consumes: every generator only "
     "takes draws from the front of the log. Soundness core (ClSound2.v): nispm / nisp2 acceptance equations, special soundness (nisp2: the SAME exponents under the issuer's bases and the commitment key) and rigidity. PARTIAL: rejection of mismatching / edited proofs is decided by correspondence (proofs equal integer for integer with logged draws; "
     "decisions equal on every mutated instance) + sweep over ALL non-empty U for n <= 3 (thorough 5), with and without trusted commitment, update_signature, field edits. "
     "Known findings F9 (unused randomness leaves) and F15 (sub-proof pairs not tied to C; zkpok_subproofs_untied) reported, not hidden; F15a repaired by 56a5ca8 (zkpok_loop_ties_range_proofs), F17 by 386b611 (zkpok_accepts_lengths).",
     "DESIGN.md §10 C14", NOTE_CL)
prop("C15", "proof",
     "Proved: spok_complete -- COMPLETENESS of the whole proof of knowledge: for every modulus, every number of attributes, every strictly increasing list U of hidden positions, "
     "every signature the issuer's check accepts and every sequence of logged draws whose random_bits values are not negative, whatever spok_gen returns passes spok_verify "
     "(nine-response protocol nisp5_complete with its five congruences; per-attribute opening proofs nisp2sec_complete_u; all range proofs boudot_complete; premises: commitment "
     "key over the issuer modulus, invertible bases -- each checked against the implementation's run by the harness); an accepted proof has its range proof on e made for the "
     "sigma protocol's commitment Ce and passes the five-equation check; the per-attribute opening proofs are specially sound and rigid (nisp2sec_special_soundness, nisp2sec_rigid) and so is the nine-response protocol (nisp5_special_soundness: the five relations an extractor divides by the challenge difference). PARTIAL: rejection of mismatching statements / edited fields is decided by correspondence "
     "(integer for integer, logged draws) + sweep over ALL U for n <= 3 (thorough 5). Known findings F9 (unused randomness leaves) and F15 (per-attribute sub-proof pairs not tied to the signature; spok_subproofs_untied) reported; F15a (range proof not tied to its opening proof) repaired by 56a5ca8 (spok_loop_ties_range_proofs), F17 (extra trailing list entries ignored) by 386b611 (spok_accepts_lengths).", "DESIGN.md §10 C15", NOTE_CL)
prop("C16", "proof",
     "Proved: boudot_prove_below_fails / boudot_prove_above_fails -- for a value outside [rmin, rmax] the honest prover returns no proof, whatever the modulus, bases, randomness and draws (tolerance < 2^T); boudot_complete -- every proof the honest prover returns verifies, for every modulus, every pair of invertible bases, every interval, every value and every "
     "sequence of draws incl. negative randomness (all ten algorithms: same-secret, square, larger-interval, tolerance, square-decomposition; exponent arithmetic with negative "
     "exponents and completeness of the model's modular inverse proved from scratch); what an accepted proof pins: E' = E^(2^T) and the square proofs are about E_a_1 / E_b_1 "
     "themselves (F8 transplant, repaired by 291caf1); li_bounds_tied: prover and verifier use the same bound on D_1 (F11, repaired by ff66daa; source tie regenerated each run). "
     "Soundness core (ClSound.v): same-secret, square and larger-interval sub-proofs are specially sound (two challenge/response tuples for one first message: g^dD h^dD1 == E^dc, ONE dD for both commitments) and rigid (same challenge, other responses: a relation between the bases or a hash collision). "
     "PARTIAL: rejection of edited proofs / other bounds, bases, modulus is decided by correspondence (proofs equal integer for integer, rejection loops included) + sweep "
     "(widths 1, 2, 3, 2^k, 2^256-1, endpoints, out-of-range provers, transplant forgeries, forced-gap replay). Known findings F13 (prove panics for rmax <= 0) and F19b (n - E / n - F accepted when only even powers are taken) reported; F19 (E + n, -E, F + n accepted) found by the residue edits and repaired by ce9f533 (boudot_accepts_canonical, square_accepts_canonical).",
     "DESIGN.md §10 C16", NOTE_CL)
prop("C17", "proof",
     "The property is VIOLATED by the code (finding F9): machine-checked on the faithful model -- the signature proof embeds Cv = {value, randomness} with value = v g_0^randomness "
     "mod N for every run (spok_carries_opening_of_v), so v is recomputable by the recipient. The sweep runs the property's own attacker on the serialized proofs of the real code "
     "(opening recomputation, dictionary test, v recovery, response differences, and the square-root recomputation from the range proofs) and reports the known-finding classes "
     "(F9 x 3); F16 (every Boudot range proof handed over the value it was about) was found through this property, repaired by ba36c2c and stays in the sweep as a regression case (same_secret_response_pins_x states the window the response leaves); anything outside the listed classes is a violation.", "DESIGN.md §10 C17", NOTE_CL)
prop("C18", "proof",
     "Construction invariants proved for every sequence of draws: keygen returns N = p q, p <> q, p = 2p'+1, q = 2q'+1 passing the primality test, b and c squares mod N, > 1, "
     "coprime to N (hence squares modulo both factors: qr_mod_factor); bases likewise; commitment-key bases are powers of h, > 1, coprime; public-key byte codec round trip. "
     "PARTIAL: primality itself is GMP's (re-tested by an independent Miller-Rabin in the sweep), random_bits / rand_int ranges are observed. Correspondence: identical keys from "
     "logged draws including the safe-prime search decisions.", "DESIGN.md §10 C18", NOTE_CL)
prop("C19", "proof",
     "Arithmetic theorems: (r + c x)/c = x + r/c; mask_ok: a k-bit blinding with k >= 321 and c < 2^256 keeps floor(s/c) at least 2^64 from the secret for EVERY draw; leak_old: the "
     "pinned lengths leak (F10, repaired by d61047a). requests_tied: the random_bits arguments of sigma_protocols.rs, regenerated on every run, are the model's, and every one is "
     ">= 321 bits for the three shipped suites (finite table). The draw-request correspondence checks the bit length of every logged draw against the model; the sweep runs the "
     "property's attacker (every response / challenge / ordered pair of responses / secret) on real proofs. nisp5_hidden_responses_masked: END TO END on the generator of the signature proof -- for every "
     "list of hidden positions (any order, repeated, beyond a machine word) every response about a hidden attribute is r + m c with r >= 2^(lm + MASK - 1), given random_bits' contract (checked on every run).", "DESIGN.md §10 C19", NOTE_CL)

WIP = "check not yet registered in this commit (machinery under construction; see DESIGN.md §10)"
ALL = ["C%02d" % i for i in range(1, 20)]

def main():
    checks = []
    for pid in ALL:
        if pid not in P: continue
        p = P[pid]
        checks.append({
            "property_id": pid,
            "quick_cmd": "bin/check %s --tier quick" % pid,
            "thorough_cmd": "bin/check %s --tier thorough" % pid,
            "evidence_file": "evidence/%s.json" % pid,
            "replay_cmd_template": "bin/check %s --replay {path}" % pid,
            "engine": "coq-model",
            "level_claimed": {"category": p["cat"], "text": p["text"], "design_ref": p["ref"]},
            "level_note": p["note"],
            "technique": p["tech"],
        })
    claimed = [c["property_id"] for c in checks]
    m = {
        "version": 1,
        "setup_cmd": "bin/setup",
        "hooks": {
            "guard": "cargo feature verif_hooks",
            "enable": "harness crate depends on zkryptium = { path = \"/repo\", features = [\"verif_hooks\", ...] } (cargo build --offline --release in /verif/harness)",
            "baseline_off_cmd": "cd /repo && cargo test --workspace --no-fail-fast --offline",
            "source_commits": ["42a12b3"],
            "add_only": True,
        },
        "engines": [
            {"name": "coq-model", "path": "coq/", "serves_properties": claimed,
             "kind_free_text": "Gallina model + theorems (Coq 8.16.1), constants regenerated from source, extracted to OCaml"},
            {"name": "correspondence", "path": "bin/check", "serves_properties": claimed,
             "kind_free_text": "differential run of extracted model vs zkryptium (Rust harness with hooks) on generated cases, plus implementation-side sweep"},
        ],
        "checks": checks,
        "not_applicable": [{"property_id": pid, "reason": WIP} for pid in ALL if pid not in P],
        "notes": "See DESIGN.md. known_findings.txt lists fixed / known findings; seeded/ holds the breaking changes the checks were tried against.",
    }
    json.dump(m, open(os.path.join(V, "MANIFEST.json"), "w"), indent=1)
    print("claimed:", claimed)

if __name__ == "__main__":
    main()
