(* Driver for the extracted BBS model: reads a case file (same grammar as harness/implrun/src/tok.rs,
   with the implementation's logged draws appended as a last token "D:..."), evaluates each case
   with the extracted Coq functions, and prints "<idx> OK tok..|ERR|PANIC|NODRAW".
   Group operations are answered by the primitive server (harness/prims) over pipes. *)
open Model

let bi = Big_int_Z.big_int_of_int
let hexdig = "0123456789abcdef"

let bytes_of_hex (h : string) : bytes =
  let n = String.length h / 2 in
  let v c = match c with
    | '0'..'9' -> Char.code c - 48 | 'a'..'f' -> Char.code c - 87 | 'A'..'F' -> Char.code c - 55
    | _ -> failwith ("bad hex: " ^ h) in
  if String.length h mod 2 <> 0 then failwith ("odd hex: " ^ h);
  List.init n (fun i -> bi (v h.[2*i] * 16 + v h.[2*i+1]))

let hex_of_bytes (b : bytes) : string =
  let buf = Buffer.create 64 in
  List.iter (fun x -> let x = Big_int_Z.int_of_big_int x in
              if x < 0 || x > 255 then failwith "model produced a non-byte";
              Buffer.add_char buf hexdig.[x lsr 4]; Buffer.add_char buf hexdig.[x land 15]) b;
  Buffer.contents buf

(* ---- primitive server ---- *)
let prims_in, prims_out =
  let path = Sys.argv.(1) in
  Unix.open_process path

let call (s : string) : string =
  output_string prims_out s; output_char prims_out '\n'; flush prims_out;
  let r = input_line prims_in in
  if String.length r >= 5 && String.sub r 0 5 = "ERROR" then failwith ("prims: " ^ r ^ " on " ^ s);
  r

let hx b = let h = hex_of_bytes b in if h = "" then "-" else h
let suite_name = ref "sha"
let p_g1add a b = bytes_of_hex (call (Printf.sprintf "g1add %s %s" (hx a) (hx b)))
let p_g1neg a = bytes_of_hex (call (Printf.sprintf "g1neg %s" (hx a)))
let p_g1mul s p = bytes_of_hex (call (Printf.sprintf "g1mul %s %s" (hx s) (hx p)))
let p_g1dec b = (call (Printf.sprintf "g1dec %s" (hx b))) = "ok"
let p_h2c m d = bytes_of_hex (call (Printf.sprintf "h2c %s %s %s" !suite_name (hx m) (hx d)))
let p_g2mulgen s = bytes_of_hex (call (Printf.sprintf "g2mulgen %s" (hx s)))
let p_g2add a b = bytes_of_hex (call (Printf.sprintf "g2add %s %s" (hx a) (hx b)))
let p_g2dec b = (call (Printf.sprintf "g2dec %s" (hx b))) = "ok"
let p_g2unc a = bytes_of_hex (call (Printf.sprintf "g2unc %s" (hx a)))
let p_g2cmp a = let r = call (Printf.sprintf "g2cmp %s" (hx a)) in
  if String.length r >= 2 && String.sub r 0 2 = "no" then None else Some (bytes_of_hex r)
let p_pair a x b y = (call (Printf.sprintf "pair %s %s %s %s" (hx a) (hx x) (hx b) (hx y))) = "1"

(* apply an extracted entry point to the primitives and the suite selector *)
let w f shake = f p_g1add p_g1neg p_g1mul p_g1dec p_h2c p_g2mulgen p_g2add p_g2dec p_g2unc p_g2cmp p_pair shake

(* ---- token grammar ---- *)
let t_bytes t = if t = "-" then [] else bytes_of_hex t
let t_opt_bytes t = if t = "N" then None else Some (bytes_of_hex (String.sub t 1 (String.length t - 1)))
let split_list t = match String.split_on_char ',' (String.sub t 1 (String.length t - 1)) with
  | _ :: r -> r | [] -> []
let t_list t = List.map bytes_of_hex (split_list t)
let t_opt_list t = if t = "N" then None else Some (t_list t)
let t_idx t = List.map Big_int_Z.big_int_of_string (split_list t)
let t_opt_idx t = if t = "N" then None else Some (t_idx t)
let t_n t = Big_int_Z.big_int_of_string t
let t_opt_n t = if t = "N" then None else Some (Big_int_Z.big_int_of_string (String.sub t 1 (String.length t - 1)))
let rec nat_of_int n = if n <= 0 then O else S (nat_of_int (n - 1))

(* draws: "D:kind=val,kind(params)=val" *)
let parse_draws (t : string) : (string * string) list =
  let body = String.sub t 2 (String.length t - 2) in
  List.map (fun d -> match String.index_opt d '=' with
      | Some i -> (String.sub d 0 i, String.sub d (i+1) (String.length d - i - 1))
      | None -> failwith "draw") (String.split_on_char ',' body)

let scalar_draws draws =
  List.filter_map (fun (k, v) -> if k = "scalar" then
                      (match scalar_of_be (bytes_of_hex v) with Some s -> Some s | None -> failwith "draw not canonical")
                    else None) draws


(* ---------------------------------------------------------------- CL03 *)
(* minimal JSON reader: flattens a serde_json document of a CL03 proof into the integer list the model's readers
   expect: fields in document order, {"radix":r,"value":"..."} = one integer, a list is preceded by its length,
   the optional member "proof_C_Ctrusted" by 0 (null) or 1 *)
type json = JNull | JBool of bool | JNum of string | JStr of string | JArr of json list | JObj of (string * json) list

let parse_json (s : string) : json =
  let n = String.length s in
  let pos = ref 0 in
  let peek () = if !pos < n then s.[!pos] else '\000' in
  let adv () = incr pos in
  let rec ws () = if !pos < n && (match s.[!pos] with ' ' | '\n' | '\t' | '\r' -> true | _ -> false) then (adv (); ws ()) in
  let expect c = ws (); if peek () <> c then failwith (Printf.sprintf "json: expected %c at %d" c !pos); adv () in
  let str () =
    expect '"';
    let b = Buffer.create 16 in
    let rec go () =
      if !pos >= n then failwith "json: unterminated string";
      let c = s.[!pos] in
      adv ();
      if c = '"' then ()
      else if c = '\\' then begin
        (if !pos >= n then failwith "json: bad escape");
        let e = s.[!pos] in adv ();
        (match e with
         | 'n' -> Buffer.add_char b '\n' | 't' -> Buffer.add_char b '\t' | 'r' -> Buffer.add_char b '\r'
         | 'u' -> pos := !pos + 4; Buffer.add_char b '?'
         | c -> Buffer.add_char b c);
        go () end
      else (Buffer.add_char b c; go ()) in
    go (); Buffer.contents b in
  let rec value () : json =
    ws ();
    match peek () with
    | '{' -> adv (); ws ();
      if peek () = '}' then (adv (); JObj []) else begin
        let rec members acc =
          ws (); let k = str () in expect ':'; let v = value () in ws ();
          if peek () = ',' then (adv (); members ((k, v) :: acc))
          else (expect '}'; List.rev ((k, v) :: acc)) in
        JObj (members []) end
    | '[' -> adv (); ws ();
      if peek () = ']' then (adv (); JArr []) else begin
        let rec items acc =
          let v = value () in ws ();
          if peek () = ',' then (adv (); items (v :: acc)) else (expect ']'; List.rev (v :: acc)) in
        JArr (items []) end
    | '"' -> JStr (str ())
    | 'n' -> pos := !pos + 4; JNull
    | 't' -> pos := !pos + 4; JBool true
    | 'f' -> pos := !pos + 5; JBool false
    | _ ->
      let st = !pos in
      while !pos < n && (match s.[!pos] with '0'..'9' | '-' | '+' | '.' | 'e' | 'E' -> true | _ -> false) do adv () done;
      if !pos = st then failwith "json: bad value";
      JNum (String.sub s st (!pos - st)) in
  let v = value () in ws ();
  if !pos <> n then failwith "json: trailing characters";
  v

let big_of_radix (radix : int) (v : string) : Big_int_Z.big_int =
  if radix = 10 then Big_int_Z.big_int_of_string v
  else begin
    let neg = String.length v > 0 && v.[0] = '-' in
    let body = if neg then String.sub v 1 (String.length v - 1) else v in
    let acc = ref Big_int_Z.zero_big_int in
    String.iter (fun c ->
        let d = match c with '0'..'9' -> Char.code c - 48 | 'a'..'z' -> Char.code c - 87 | 'A'..'Z' -> Char.code c - 55 | _ -> failwith "digit" in
        if d >= radix then failwith "digit out of radix";
        acc := Big_int_Z.add_int_big_int d (Big_int_Z.mult_int_big_int radix !acc)) body;
    if neg then Big_int_Z.minus_big_int !acc else !acc
  end

let rec flatten (key : string) (j : json) : Big_int_Z.big_int list =
  let opt = (key = "proof_C_Ctrusted") in
  match j with
  | JNull -> if opt then [Big_int_Z.zero_big_int] else failwith "json: unexpected null"
  | JObj [("radix", JNum r); ("value", JStr v)] -> big_of_radix (int_of_string r) v
                                                   |> fun x -> [x]
  | JObj members ->
    let body = List.concat_map (fun (k, v) -> flatten k v) members in
    if opt then Big_int_Z.unit_big_int :: body else body
  | JArr items -> Big_int_Z.big_int_of_int (List.length items) :: List.concat_map (flatten "") items
  | JNum s -> [Big_int_Z.big_int_of_string s]
  | _ -> failwith "json: unexpected leaf"

let string_of_hex h =
  let b = Bytes.create (String.length h / 2) in
  for i = 0 to String.length h / 2 - 1 do
    Bytes.set b i (Char.chr (int_of_string ("0x" ^ String.sub h (2*i) 2)))
  done; Bytes.to_string b

let t_z t = Big_int_Z.big_int_of_string t
let t_zl t = List.map Big_int_Z.big_int_of_string (split_list t)
let t_opt_zl t = if t = "N" then None else Some (t_zl t)
let t_opt_z t = if t = "N" then None else Some (t_z t)
let t_doc t = flatten "" (parse_json (string_of_hex (String.sub t 1 (String.length t - 1))))

(* CL draws: "bits(192)=123", "int(-5;5)=3" *)
let cl_draws (draws : (string * string) list) : draw list =
  List.map (fun (k, v) ->
      let name, params =
        match String.index_opt k '(' with
        | Some i -> (String.sub k 0 i,
                     List.map Big_int_Z.big_int_of_string (String.split_on_char ';' (String.sub k (i+1) (String.length k - i - 2))))
        | None -> (k, []) in
      let kind = match name with "bits" -> 0 | "number" -> 1 | "prime" -> 2 | "int" -> 3 | _ -> failwith ("draw kind " ^ name) in
      { d_kind = bi kind; d_params = params; d_val = Big_int_Z.big_int_of_string v }) draws

let print_tok = function
  | TI z -> Big_int_Z.string_of_big_int z
  | TL l -> String.concat "," ("Z" :: List.map Big_int_Z.string_of_big_int l)
  | TB b -> hx b

let cl_suite_id = function "toy" -> bi 0 | "toy2" -> bi 4 | "micro" -> bi 5 | "toy3" -> bi 6 | "cl1024" -> bi 1 | "cl2048" -> bi 2 | "cl3072" -> bi 3 | s -> failwith ("cl suite " ^ s)

let run_cl (op : string) (args : string array) (draws : (string * string) list) : tokv list outcome =
  let a i = args.(i) in
  let ds = cl_draws draws in
  match op with
  | "clrandbits" -> c_randbits (t_z (a 0)) ds
  | "clrandint" -> c_randint (t_z (a 0)) (t_z (a 1)) ds
  | "clrandnumber" -> c_randnumber (t_z (a 0)) ds
  | "clrandprime" -> c_randprime (t_z (a 0)) ds
  | "clrandqr" -> c_randqr (t_z (a 0)) ds
  | "clprim" -> c_prim (t_z (a 0)) (t_zl (a 1))
  | _ ->
    let k = cl_suite_id (a 0) in
    (match op with
     | "clparams" -> c_params k
     | "clmap" -> c_map (t_bytes (a 1))
     | "clkeygen" -> c_keygen k ds
     | "clbases" -> c_bases (t_z (a 1)) (nat_of_int (int_of_string (a 2))) ds
     | "clcpk" -> c_cpk k (t_opt_z (a 1)) (if a 2 = "N" then None else Some (nat_of_int (int_of_string (a 2)))) ds
     | "clsign" -> c_sign k (t_zl (a 1)) (t_zl (a 2)) (t_zl (a 3)) (t_zl (a 4)) ds
     | "clsign1" -> c_sign1 k (t_zl (a 1)) (t_zl (a 2)) (t_zl (a 3)) (t_z (a 4)) ds
     | "clverify" -> c_verify k (t_zl (a 1)) (t_zl (a 2)) (t_zl (a 3)) (t_zl (a 4))
     | "clverify1" -> c_verify1 k (t_zl (a 1)) (t_zl (a 2)) (t_z (a 3)) (t_zl (a 4))
     | "cldisclose" -> c_disclose (t_zl (a 1)) (t_zl (a 2)) (t_zl (a 3)) (t_idx (a 5))
     | "clsigcodec" -> c_sigcodec k (t_zl (a 1))
     | "clsigfrombytes" -> c_sigfrombytes k (t_bytes (a 1))
     | "clpkcodec" -> c_pkcodec k (t_zl (a 1))
     | "clpkfrombytes" -> c_pkfrombytes k (t_bytes (a 1))
     | "clskcodec" -> c_skcodec k (t_zl (a 1))
     | "clcommit" -> c_commit k (t_zl (a 1)) (t_zl (a 2)) (t_zl (a 3)) (t_opt_idx (a 4)) ds
     | "clcommitcpk" -> c_commitcpk k (t_zl (a 1)) (t_zl (a 2)) (t_opt_idx (a 3)) ds
     | "clextend" -> c_extend (t_zl (a 1)) (t_zl (a 2)) (t_zl (a 3)) (t_zl (a 4)) (t_opt_idx (a 5))
     | "clzkgen" -> c_zkgen k (t_zl (a 1)) (t_zl (a 2)) (t_opt_zl (a 3)) (t_zl (a 4)) (t_zl (a 5)) (t_opt_zl (a 6)) (t_idx (a 7)) ds
     | "clzkver" -> c_zkver k (t_doc (a 1)) (t_zl (a 2)) (t_opt_zl (a 3)) (t_zl (a 4)) (t_zl (a 5)) (t_opt_zl (a 6)) (t_idx (a 7))
     | "clblindsign" -> c_blindsign k (t_zl (a 1)) (t_zl (a 2)) (t_zl (a 3)) (t_doc (a 4)) (t_opt_zl (a 5)) (t_zl (a 6))
                          (t_opt_zl (a 7)) (t_opt_zl (a 8)) (t_idx (a 9)) (t_opt_idx (a 10)) ds
     | "clunblind" -> c_unblind (t_zl (a 1)) (t_zl (a 2))
     | "clupdate" -> c_update (t_zl (a 1)) (t_opt_zl (a 2)) (t_zl (a 3)) (t_zl (a 4)) (t_zl (a 5)) (t_zl (a 6)) (t_opt_idx (a 7))
     | "clspokgen" -> c_spokgen k (t_zl (a 1)) (t_zl (a 2)) (t_zl (a 3)) (t_zl (a 4)) (t_zl (a 5)) (t_idx (a 6)) ds
     | "clspokver" -> c_spokver k (t_doc (a 1)) (t_zl (a 2)) (t_zl (a 3)) (t_zl (a 4)) (t_zl (a 5)) (t_idx (a 6)) (nat_of_int (int_of_string (a 7)))
     | "clrpprove" -> c_rpprove (t_z (a 1)) (t_zl (a 2)) (t_z (a 3)) (t_z (a 4)) (t_z (a 5)) (t_z (a 6)) (t_z (a 7)) ds
     | "clrpverify" -> c_rpverify (t_doc (a 1)) (t_z (a 2)) (t_z (a 3)) (t_z (a 4)) (t_z (a 5)) (t_z (a 6))
     | _ -> failwith ("unknown cl op " ^ op))

let run_case (toks : string list) : string =
  (* strip queue prefix and draw suffix *)
  let toks = match toks with q :: r when String.length q >= 1 && q.[0] = 'Q' && (String.length q = 1 || q.[1] = ',') -> r | _ -> toks in
  let draws, toks =
    match List.rev toks with
    | d :: r when String.length d >= 2 && String.sub d 0 2 = "D:" -> (parse_draws d, List.rev r)
    | _ -> ([], toks) in
  let op, args = match toks with o :: a -> (o, Array.of_list a) | [] -> failwith "empty" in
  let shake_of s = (match s with "sha" -> suite_name := "sha"; false | "shake" -> suite_name := "shake"; true | _ -> failwith ("suite " ^ s)) in
  let a i = args.(i) in
  if String.length op >= 2 && String.sub op 0 2 = "cl" then begin
    match run_cl op args draws with
    | Ok l -> String.concat " " ("OK" :: List.map print_tok l)
    | Err -> "ERR" | Panic -> "PANIC" | NoDraw -> "NODRAW"
  end else
  let res : bytes list outcome =
    match op with
    | "dec" ->
      suite_name := "sha";
      let b = t_bytes (a 1) in
      (match a 0 with
       | "pk" | "pktrait" | "pkenc" | "pkinhenc" -> w r_dec_pk false b
       | "sk" | "sktrait" | "skenc" | "skinhenc" -> w r_dec_sk false b | "sig" -> w r_dec_sig false b
       | "proof" -> w r_dec_proof false b | "zkpok" -> w r_dec_zkpok false b
       | "commit" -> w r_dec_commit false b | "blind" -> w r_dec_blind false b
       | "msg" -> w r_dec_blind false b
       | "pkxy" -> w r_dec_pkxy false b | "pk2xy" -> w r_dec_pk2xy false b
       | k -> failwith ("dec kind " ^ k))
    | "json" ->
      (* JSON is modelled as a faithful container of the same bytes: decode + re-encode *)
      suite_name := "sha";
      let b = t_bytes (a 1) in
      (match a 0 with
       | "pk" -> w r_dec_pk false b | "sk" -> w r_dec_sk false b | "sig" -> w r_dec_sig false b
       | "proof" -> w r_dec_proof false b | "commit" -> w r_dec_commit false b
       | k -> failwith ("json kind " ^ k))
    | "blindfactor_random" ->
      (match draws with [("scalar", v)] -> Ok [bytes_of_hex v] | _ -> NoDraw)
    | _ ->
      let sh = shake_of (a 0) in
      (match op with
       | "keygen" -> w r_keygen sh (t_bytes (a 1)) (t_opt_bytes (a 2)) (t_opt_bytes (a 3))
       | "keyrandom" ->
         (match draws with
          | [(k, v)] when String.length k >= 6 && String.sub k 0 6 = "secret" -> w r_keyrandom sh (bytes_of_hex v)
          | _ -> NoDraw)
       | "sk2pk" -> w r_sk2pk sh (t_bytes (a 1))
       | "gens" -> w r_gens sh (nat_of_int (int_of_string (a 1))) (t_opt_bytes (a 2))
       | "h2s" -> w r_h2s sh (t_bytes (a 1)) (t_bytes (a 2))
       | "m2s" -> w r_m2s sh (t_bytes (a 1)) (t_bytes (a 2))
       | "ms2s" -> w r_ms2s sh (t_list (a 1)) (t_bytes (a 2))
       | "sign" -> w r_sign sh (t_bytes (a 1)) (t_bytes (a 2)) (t_opt_bytes (a 3)) (t_opt_list (a 4))
       | "verify" -> w r_verify sh (t_bytes (a 1)) (t_bytes (a 2)) (t_opt_bytes (a 3)) (t_opt_list (a 4))
       | "update" -> w r_update sh (t_bytes (a 1)) (t_bytes (a 2)) (t_bytes (a 3)) (t_bytes (a 4)) (t_n (a 5)) (t_n (a 6))
       | "proofgen" -> w r_proofgen sh (t_bytes (a 1)) (t_bytes (a 2)) (t_opt_bytes (a 3)) (t_opt_bytes (a 4))
                         (t_opt_list (a 5)) (t_opt_idx (a 6)) (scalar_draws draws)
       | "proofverify" -> w r_proofverify sh (t_bytes (a 1)) (t_bytes (a 2)) (t_opt_list (a 3)) (t_opt_idx (a 4))
                            (t_opt_bytes (a 5)) (t_opt_bytes (a 6))
       | "proofverifyraw" -> w r_proofverify_raw sh (t_bytes (a 1)) (t_bytes (a 2)) (t_opt_list (a 3)) (t_opt_idx (a 4))
                            (t_opt_bytes (a 5)) (t_opt_bytes (a 6))
       | "commit" -> w r_commit sh (t_opt_list (a 1)) (scalar_draws draws)
       | "dvc" -> w r_dvc sh (t_opt_bytes (a 1)) (nat_of_int (int_of_string (a 2)))
       | "blindsign" -> w r_blindsign sh (t_bytes (a 1)) (t_bytes (a 2)) (t_opt_bytes (a 3)) (t_opt_bytes (a 4)) (t_opt_list (a 5))
       | "prep" -> w r_prep sh (t_opt_list (a 1)) (t_opt_list (a 2)) (nat_of_int (int_of_string (a 3)))
                    (nat_of_int (int_of_string (a 4))) (t_opt_bytes (a 5)) (t_opt_bytes (a 6))
       | "blindverify" -> w r_blindverify sh (t_bytes (a 1)) (t_bytes (a 2)) (t_opt_bytes (a 3)) (t_opt_list (a 4))
                            (t_opt_list (a 5)) (t_opt_bytes (a 6))
       | "blindproofgen" -> w r_blindproofgen sh (t_bytes (a 1)) (t_bytes (a 2)) (t_opt_bytes (a 3)) (t_opt_bytes (a 4))
                              (t_opt_list (a 5)) (t_opt_list (a 6)) (t_opt_idx (a 7)) (t_opt_idx (a 8))
                              (t_opt_bytes (a 9)) (scalar_draws draws)
       | "blindproofverify" -> w r_blindproofverify sh (t_bytes (a 1)) (t_bytes (a 2)) (t_opt_bytes (a 3)) (t_opt_bytes (a 4))
                                 (t_opt_n (a 5)) (t_opt_list (a 6)) (t_opt_list (a 7)) (t_opt_idx (a 8)) (t_opt_idx (a 9))
       | _ -> failwith ("unknown op " ^ op))
  in
  match res with
  | Ok l -> String.concat " " ("OK" :: List.map hx l)
  | Err -> "ERR"
  | Panic -> "PANIC"
  | NoDraw -> "NODRAW"

let () =
  let file = Sys.argv.(2) in
  let ic = open_in file in
  let idx = ref 0 in
  (try
     while true do
       let line = input_line ic in
       if line <> "" then begin
         let toks = String.split_on_char ' ' line in
         let r = (try run_case toks with
             | Failure m -> "MODELFAIL " ^ m
             | Stack_overflow -> "MODELFAIL stack overflow"
             | Invalid_argument m -> "MODELFAIL invalid_arg " ^ m
             | Not_found -> "MODELFAIL not_found") in
         Printf.printf "%d %s\n" !idx r;
         incr idx
       end
     done
   with End_of_file -> ());
  flush stdout;
  ignore (Unix.close_process (prims_in, prims_out))
