"""Small Python-side helpers for building adversarial inputs: RFC 9380 expand_message, hash_to_scalar,
scalar arithmetic, and a client of the primitive server for group operations.  Used only to
*construct* test inputs (forgeries); never as an oracle."""
import hashlib, subprocess
from . import common as C

R = 0x73eda753299d7d483339d80809a1d80553bda402fffe5bfeffffffff00000001
SALT = b"H2C-OVERSIZE-DST-"

def expand_xmd(msg, dst, n):
    if len(dst) > 255: dst = hashlib.sha256(SALT + dst).digest()
    ell = (n + 31) // 32
    dstp = dst + bytes([len(dst)])
    b0 = hashlib.sha256(b"\0" * 64 + msg + n.to_bytes(2, "big") + b"\0" + dstp).digest()
    b = [hashlib.sha256(b0 + b"\x01" + dstp).digest()]
    for i in range(2, ell + 1):
        b.append(hashlib.sha256(bytes(x ^ y for x, y in zip(b0, b[-1])) + bytes([i]) + dstp).digest())
    return b"".join(b)[:n]

def expand_xof(msg, dst, n):
    if len(dst) > 255: dst = hashlib.shake_256(SALT + dst).digest(32)
    return hashlib.shake_256(msg + n.to_bytes(2, "big") + dst + bytes([len(dst)])).digest(n)

def h2s(suite, msg, dst):
    f = expand_xmd if suite == "sha" else expand_xof
    return int.from_bytes(f(msg, dst, 48), "big") % R

API = {"sha": b"BBS_BLS12381G1_XMD:SHA-256_SSWU_RO_H2G_HM2S_", "shake": b"BBS_BLS12381G1_XOF:SHAKE-256_SSWU_RO_H2G_HM2S_"}
API_BLIND = {"sha": b"BBS_BLS12381G1_XMD:SHA-256_SSWU_RO_BLIND_H2G_HM2S_", "shake": b"BBS_BLS12381G1_XOF:SHAKE-256_SSWU_RO_BLIND_H2G_HM2S_"}
G1_ID = bytes([0xc0]) + bytes(47)
G2_ID = bytes([0xc0]) + bytes(95)

def sc(x): return (x % R).to_bytes(32, "big")
def i8(x): return x.to_bytes(8, "big")

class Prims:
    def __init__(self):
        self.p = subprocess.Popen([C.PRIMS], stdin=subprocess.PIPE, stdout=subprocess.PIPE, text=True, bufsize=1)
    def call(self, s):
        self.p.stdin.write(s + "\n"); self.p.stdin.flush()
        r = self.p.stdout.readline().strip()
        if r.startswith("ERROR"): raise RuntimeError(r + " on " + s)
        return r
    def add(self, a, b): return bytes.fromhex(self.call("g1add %s %s" % (a.hex(), b.hex())))
    def neg(self, a): return bytes.fromhex(self.call("g1neg %s" % a.hex()))
    def mul(self, s, p): return bytes.fromhex(self.call("g1mul %s %s" % (sc(s).hex(), p.hex())))
    def g2mulgen(self, s): return bytes.fromhex(self.call("g2mulgen %s" % sc(s).hex()))
    def close(self):
        self.p.stdin.close(); self.p.wait()

# ---- BLS12-381 base-field helpers (only to build on-curve points OUTSIDE the prime-order subgroup)
FP = 0x1a0111ea397fe69a4b1ba7b6434bacd764774b84f38512bf6730d2a0f6b0f6241eabfffeb153ffffb9feffffffffaaab
def fp_sqrt(a):
    a %= FP
    s = pow(a, (FP + 1) // 4, FP)
    return s if s * s % FP == a else None
def fp2_mul(a, b): return ((a[0]*b[0] - a[1]*b[1]) % FP, (a[0]*b[1] + a[1]*b[0]) % FP)
def fp2_add(a, b): return ((a[0]+b[0]) % FP, (a[1]+b[1]) % FP)
def fp2_sqrt(a):
    a0, a1 = a
    if a1 == 0:
        s = fp_sqrt(a0)
        if s is not None: return (s, 0)
        s = fp_sqrt(-a0 % FP)
        return (0, s) if s is not None else None
    n = fp_sqrt((a0*a0 + a1*a1) % FP)
    if n is None: return None
    inv2 = pow(2, -1, FP)
    for sgn in (1, -1):
        t = (a0 + sgn*n) * inv2 % FP
        x0 = fp_sqrt(t)
        if x0 is None or x0 == 0: continue
        x1 = a1 * pow(2*x0, -1, FP) % FP
        if fp2_mul((x0, x1), (x0, x1)) == (a0 % FP, a1 % FP): return (x0, x1)
    return None
def g2_uncompressed_on_curve(rng):
    """a random point of E'(Fp2): y^2 = x^3 + 4(1+u); almost surely not in the order-r subgroup"""
    while True:
        x = (rng.randrange(FP), rng.randrange(FP))
        rhs = fp2_add(fp2_mul(fp2_mul(x, x), x), (4, 4))
        y = fp2_sqrt(rhs)
        if y is None: continue
        return x[1].to_bytes(48, "big") + x[0].to_bytes(48, "big") + y[1].to_bytes(48, "big") + y[0].to_bytes(48, "big")
def g1_uncompressed_on_curve(rng):
    while True:
        x = rng.randrange(FP); y = fp_sqrt((x*x*x + 4) % FP)
        if y is not None: return x, y

def g1_compress(x, y):
    b = bytearray(x.to_bytes(48, "big")); b[0] |= 0x80 | (0x20 if y > (FP - 1) // 2 else 0)
    return bytes(b)
def g1_torsion_pairs(rng, n):
    """pairs (T, -T) of on-curve points OUTSIDE the prime-order subgroup (compressed encodings); the first pair is the
    order-3 point (0, 2) and its negative, then random curve points.  T + (-T) is the identity, so a decoder that
    checks the subgroup only on a sum of points accepts them."""
    out = [(g1_compress(0, 2), g1_compress(0, FP - 2))]
    for _ in range(n):
        x, y = g1_uncompressed_on_curve(rng)
        out.append((g1_compress(x, y), g1_compress(x, FP - y)))
    return out

def g1_decompress(b):
    """(x, y) of a compressed non-identity G1 encoding (no subgroup check)"""
    x = int.from_bytes(bytes([b[0] & 0x1f]) + b[1:], "big"); y = fp_sqrt((x * x * x + 4) % FP)
    if y is None: return None
    big = y > (FP - 1) // 2
    if bool(b[0] & 0x20) != big: y = FP - y
    return x, y
def g1_add_affine(p, q):
    """affine addition on y^2 = x^3 + 4 over Fp (p != -q)"""
    (x1, y1), (x2, y2) = p, q
    if x1 == x2 and (y1 + y2) % FP == 0: return None
    lam = (3 * x1 * x1) * pow(2 * y1, -1, FP) % FP if (x1, y1) == (x2, y2) else (y2 - y1) * pow(x2 - x1, -1, FP) % FP
    x3 = (lam * lam - x1 - x2) % FP
    return x3, (lam * (x1 - x3) - y1) % FP
def g1_plus_torsion(enc, k=1):
    """the compressed encoding of P + k*T for the order-3 point T = (0, 2): the same element of the quotient by the cofactor torsion, outside G1"""
    pt = g1_decompress(enc)
    if pt is None: return None
    r = g1_add_affine(pt, (0, 2 if k == 1 else FP - 2))
    return None if r is None else g1_compress(*r)
