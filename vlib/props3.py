"""Generators / sweeps for the CL03 half: C13..C19."""
import os, json, itertools, math
from . import common as C
from . import clj
from .clj import zl, oz, il, oil

def _p():
    from . import props
    return props

SUITE_P = {"toy": dict(SECPARAM=192, ln=384, lm=256, le=258, ls=896),
           "toy2": dict(SECPARAM=192, ln=448, lm=256, le=258, ls=960),
           "micro": dict(SECPARAM=16, ln=40, lm=8, le=10, ls=56),
           "toy3": dict(SECPARAM=192, ln=384, lm=256, le=264, ls=896),
           "cl1024": dict(SECPARAM=512, ln=1024, lm=256, le=258, ls=1536),
           "cl2048": dict(SECPARAM=1024, ln=2048, lm=256, le=258, ls=2560),
           "cl3072": dict(SECPARAM=1536, ln=3072, lm=256, le=258, ls=3584)}
MASK = 336

def is_probable_prime(n, rounds=24):
    if n < 2: return False
    for p in (2, 3, 5, 7, 11, 13, 17, 19, 23, 29, 31, 37):
        if n % p == 0: return n == p
    d, s = n - 1, 0
    while d % 2 == 0: d //= 2; s += 1
    import random as _r
    rng = _r.Random(n & 0xffffffff)
    for _ in range(rounds):
        a = rng.randrange(2, n - 1); x = pow(a, d, n)
        if x in (1, n - 1): continue
        for _ in range(s - 1):
            x = x * x % n
            if x == n - 1: break
        else:
            return False
    return True

def jacobi(a, n):
    a %= n; r = 1
    while a:
        while a % 2 == 0:
            a //= 2
            if n % 8 in (3, 5): r = -r
        a, n = n, a
        if a % 4 == 3 and n % 4 == 3: r = -r
        a %= n
    return r if n == 1 else 0

def rmsg(rng): return rng.getrandbits(256)

class Ctx:
    """one issuer: key pair, attribute bases, a commitment key over the issuer modulus"""
    pass

FIXTURES = os.path.join(C.VERIF, "corpus", "cl_keys.json")

def fixture_key(suite):
    if os.path.exists(FIXTURES):
        j = json.load(open(FIXTURES))
        if suite in j:
            k = j[suite]; p, q = int(k["p"]), int(k["q"])
            # validated on load: the file is an input, not an oracle
            assert is_probable_prime(p) and is_probable_prime(q) and is_probable_prime((p - 1) // 2) and is_probable_prime((q - 1) // 2) and p != q
            return p, q
    return None

def make_ctx(S, suite, n, label="triv:clsetup", use_fixture=False):
    """keygen (or a committed fixture modulus for the big suites, with b, c drawn fresh), bases, commitment key"""
    x = Ctx(); x.suite = suite; x.n = n; x.P = SUITE_P[suite]
    fx = fixture_key(suite) if use_fixture else None
    if fx:
        p, q = fx; N = p * q
        r = S.run(["clrandqr %d" % N, "clrandqr %d" % N], expect="ok", label=label)
        x.pk = [N, r[0].z(0), r[1].z(0)]; x.sk = [p, q]
    else:
        r = S.run(["clkeygen %s" % suite], expect="ok", label=label)[0]
        if r.status != "OK": return None
        x.pk = [r.z(0), r.z(1), r.z(2)]; x.sk = [r.z(3), r.z(4)]
    r = S.run(["clbases %s %d %d" % (suite, x.pk[0], n)], expect="ok", label=label)[0]
    if r.status != "OK": return None
    x.bases = r.zl(0)
    r = S.run(["clcpk %s %d %d" % (suite, x.pk[0], n)], expect="ok", label=label)[0]
    if r.status != "OK": return None
    x.cpk = r.zl(0)
    return x

def sign(S, x, msgs, label="triv:clsign"):
    r = S.run(["clsign %s %s %s %s %s" % (x.suite, zl(x.pk), zl(x.sk), zl(x.bases[:len(msgs)] if False else x.bases), zl(msgs))], expect="ok", label=label)[0]
    return [r.z(0), r.z(1), r.z(2)] if r.status == "OK" else None

def vline(x, msgs, sig, pk=None, bases=None):
    return "clverify %s %s %s %s %s" % (x.suite, zl(pk or x.pk), zl(bases or x.bases), zl(msgs), zl(sig))

def expect_bool(v):
    return lambda r: r.status == "OK" and r.toks[0] == ("1" if v else "0")
def reject(r):
    """a refusal: false, or a panic / error (the property counts a refusal by panic as not verifying)"""
    return (r.status == "OK" and r.toks[0] == "0") or r.status in ("PANIC", "ERR")

def all_subsets(n, nonempty=False):
    for k in range(1 if nonempty else 0, n + 1):
        for c in itertools.combinations(range(n), k): yield list(c)

def suites_for(tier):
    return [("toy", False)] + ([("cl1024", True)] if tier != "quick" or os.path.exists(FIXTURES) else [])

# ---------------------------------------------------------------------------------------------- arithmetic primitives
def prims_pass(S, tier, label="prim"):
    """the big-integer primitives the model re-implements (pow_mod with negative exponents, invert, divm, truncated remainder,
    decimal printing + SHA-256, bit length, integer square root, gcd, primality, floor division) on random and corner inputs,
    compared three ways: rug/GMP (implementation side), extracted OCaml, and vm_compute inside Coq (a sample)"""
    rng = S.rng
    def rz(bits, neg=True):
        v = rng.getrandbits(rng.choice([1, 8, 32, 64, bits]))
        return -v if (neg and rng.random() < 0.3) else v
    n_each = 12 if tier == "quick" else 120
    lines = []
    for _ in range(n_each):
        bits = rng.choice([16, 64, 128, 400])
        n = rz(bits, False) | 1
        lines.append("clprim 0 " + zl([rz(bits), rz(bits // 2), n + 2]))              # pow_mod, exponent may be negative (inverse or panic)
        lines.append("clprim 0 " + zl([rz(bits), -rz(8, False) - 1, (n + 2) * 3]))   # negative exponent, modulus with a small factor
        lines.append("clprim 1 " + zl([rz(bits), n + 1]))                               # invert
        lines.append("clprim 2 " + zl([rz(bits), rz(bits), n + 2]))                     # divm
        lines.append("clprim 2 " + zl([6 * rz(16, False), 4 * rz(16, False) + 2, 2 * (n + 2)]))   # divm through the gcd fallback
        lines.append("clprim 3 " + zl([rz(bits), rz(bits // 2) or 1]))                  # truncated remainder, any signs
        lines.append("clprim 4 " + zl([rz(bits)]))                                      # to_string + sha256
        lines.append("clprim 5 " + zl([rz(bits)]))                                      # significant_bits
        lines.append("clprim 6 " + zl([rz(bits, False)]))                               # sqrt
        lines.append("clprim 7 " + zl([rz(bits), rz(bits)]))                            # gcd
        lines.append("clprim 8 " + zl([rz(rng.choice([8, 16, 64]), False)]))            # primality
        lines.append("clprim 9 " + zl([rz(bits), rz(bits // 2) or 3]))                  # floor division
    for corner in ([0, 0, 5], [0, 1, 1], [2, -1, 4], [7, -3, 15], [-7, 3, 15], [1, 0, 1], [3, 5, 2]):
        lines.append("clprim 0 " + zl(corner))
    for corner in ([0], [1], [-1], [10**40], [-(10**40)], [2**256 - 1], [2**256]):
        lines += ["clprim 4 " + zl(corner), "clprim 5 " + zl(corner)]
    lines += ["clprim 6 " + zl([v]) for v in (0, 1, 2, 3, 4, 15, 16, 17, -1, 2**200, 2**200 - 1)]
    lines += ["clprim 8 " + zl([v]) for v in (0, 1, 2, 3, 4, 9, 25, 561, 1105, 2047, 3215031751, 2**61 - 1, 2**89 - 1, (2**31 - 1) * (2**61 - 1))]
    lines += ["clprim 1 " + zl(c) for c in ([0, 1], [0, 7], [3, 1], [6, 9], [-3, 7], [10, 7])]
    S.run(lines, label=label)
    return len(lines)

def prim_coq_terms(S, limit=60):
    out = []
    for i, c in enumerate(S.cases):
        t = c[0].split(" ")
        if t[0] == "clprim" and len(out) < limit:
            args = [int(x) for x in t[2].split(",")[1:]]
            if all(abs(a) < 2**130 for a in args):
                out.append((i, "o_prim %s%%N %s" % (t[1], C.coq_zl(args))))
    return out

# ---------------------------------------------------------------------------------------------- whole flows inside Coq
KIND = {"bits": 0, "number": 1, "prime": 2, "int": 3}
def coq_draws(dstr):
    """the logged draws 'D:bits(40)=12,int(1;5)=3' as a Gallina list of draw records"""
    if not dstr: return "[]"
    out = []
    for d in dstr[2:].split(","):
        k, _, v = d.partition("=")
        name, _, params = k.partition("(")
        ps = [int(x) for x in params.rstrip(")").split(";")] if params else []
        out.append("{| d_kind := %d%%N; d_params := %s; d_val := (%s)%%Z |}" % (KIND[name], C.coq_zl(ps), v))
    return "[" + ";".join(out) + "]"

def _cz(t): return C.coq_zl([int(x) for x in t.split(",")[1:]])
def _coz(t): return "None" if t == "N" else "(Some %s)" % _cz(t)
def _cn(t): return C.coq_nl([int(x) for x in t.split(",")[1:]])
def _con(t): return "None" if t == "N" else "(Some %s)" % _cn(t)
def _cdoc(t): return C.coq_zl(clj.flatten(clj.untok(t)))

def micro_coq_term(line, draws):
    """the Gallina term that the OCaml driver evaluates for this case line (suite micro only), with the logged draws"""
    t = line.split(" ")
    if len(t) < 2 or t[1] != "micro": return None
    op, a = t[0], t[1:]
    ds = coq_draws(draws)
    S_ = "micro_suite"; BP = "boudot_params"
    if op == "clsign": return "o_sign %s %s %s %s %s %s" % (S_, _cz(a[1]), _cz(a[2]), _cz(a[3]), _cz(a[4]), ds)
    if op == "clverify": return "o_verify %s %s %s %s %s" % (S_, _cz(a[1]), _cz(a[2]), _cz(a[3]), _cz(a[4]))
    if op == "clcommit": return "o_commit %s %s %s %s %s %s" % (S_, _cz(a[1]), _cz(a[2]), _cz(a[3]), _con(a[4]), ds)
    if op == "clzkgen": return "o_zkgen %s %s %s %s %s %s %s %s %s %s" % (S_, BP, _cz(a[1]), _cz(a[2]), _coz(a[3]), _cz(a[4]), _cz(a[5]), _coz(a[6]), _cn(a[7]), ds)
    if op == "clzkver": return "o_zkver %s %s %s %s %s %s %s %s %s" % (S_, BP, _cdoc(a[1]), _cz(a[2]), _coz(a[3]), _cz(a[4]), _cz(a[5]), _coz(a[6]), _cn(a[7]))
    if op == "clblindsign": return "o_blindsign %s %s %s %s %s %s %s %s %s %s %s %s %s" % (S_, BP, _cz(a[1]), _cz(a[2]), _cz(a[3]), _cdoc(a[4]), _coz(a[5]), _cz(a[6]), _coz(a[7]), _coz(a[8]), _cn(a[9]), _con(a[10]), ds)
    if op == "clunblind": return "o_unblind %s %s" % (_cz(a[1]), _cz(a[2]))
    if op == "clspokgen": return "o_spokgen %s %s %s %s %s %s %s %s %s" % (S_, BP, _cz(a[1]), _cz(a[2]), _cz(a[3]), _cz(a[4]), _cz(a[5]), _cn(a[6]), ds)
    if op == "clspokver": return "o_spokver %s %s %s %s %s %s %s %s %s%%nat" % (S_, BP, _cdoc(a[1]), _cz(a[2]), _cz(a[3]), _cz(a[4]), _cz(a[5]), _cn(a[6]), a[7])
    return None

def micro_coq_terms(S, limit=24):
    out = []
    for i, c in enumerate(S.cases):
        if len(out) >= limit: break
        if c[1].status != "OK" or not c[4]: continue
        t = micro_coq_term(c[0], c[1].draws)
        if t: out.append((i, t))
    return out

# ====================================================================================== C13
class C13:
    LEVEL = "proof"
    CL03 = True
    RULE = ("toy suite (SECPARAM 192, same shape as the shipped ones) with fresh keys, CL1024 with a committed fixture modulus: sign / sign_multiattr with the production RNG "
            "(draws logged and replayed into the model: identical (e, s, v)), verify / verify_multiattr, disclose_selectively for ALL subsets, byte and JSON codecs; e checked to be an "
            "le-bit probable prime coprime to phi; negative cases: single attribute changed, m_i +- k*e with v*a_i^(+-k), m_i >= 2^lm, negative m_i, swapped positions, +-1 / zero on "
            "e, s, v, v + N, other bases, other key => verify must be false; model and implementation must agree on every decision")
    @staticmethod
    def coq_eval_terms(S): return prim_coq_terms(S)
    @staticmethod
    def generate(S, tier):
        P = _p(); rng = S.rng
        stats = {"signatures": 0, "negatives": {}, "disclosures": 0}
        stats["primitive_cases"] = prims_pass(S, tier)
        def cnt(k): stats["negatives"][k] = stats["negatives"].get(k, 0) + 1
        # toy3: the exponent length le is a multiple of 8 -- sign, verify and the byte / JSON codec of the signature
        x3 = make_ctx(S, "toy3", 2)
        if x3 is not None:
            for _ in range(2 if tier == "quick" else 8):
                m3 = [rmsg(rng), rmsg(rng)]
                s3 = sign(S, x3, m3, label="clsign(toy3)")
                if s3 is None: continue
                stats["signatures"] += 1
                if not (2 ** (x3.P["le"] - 1) < s3[0] < 2 ** x3.P["le"]): P.fail(S, "e-shape", "toy3: e is not an le-bit number", [str(s3[0])])
                S.run([vline(x3, m3, s3)], expect=expect_bool(True), label="verify(sign):toy3")
                rc3 = S.run(["clsigcodec toy3 %s" % zl(s3)], expect="ok", label="sig-codec(toy3)")[0]
                if rc3.status == "OK" and ([rc3.z(1), rc3.z(2), rc3.z(3)] != s3 or rc3.toks[4] != "1"):
                    P.fail(S, "sig-codec", "toy3 (le a multiple of 8): signature changed by its byte / JSON codec", [zl(s3)])
        for suite, fx in suites_for(tier):
            ns = [1, 2, 3, 4, 6] if suite == "toy" else [1, 3]
            reps = (2 if tier == "quick" else 6) if suite == "toy" else 1
            for n in ns:
                for _ in range(reps):
                    x = make_ctx(S, suite, n, use_fixture=fx)
                    if x is None: continue
                    le, lm = x.P["le"], x.P["lm"]
                    msgs = [rmsg(rng) for _ in range(n)]
                    if n >= 2: msgs[0] = rng.choice([0, 1, 2**256 - 1])
                    sig = sign(S, x, msgs, label="clsign")
                    if sig is None: continue
                    stats["signatures"] += 1
                    e, s, v = sig; N = x.pk[0]; phi = (x.sk[0] - 1) * (x.sk[1] - 1)
                    if not (2**(le - 1) < e < 2**le and is_probable_prime(e) and math.gcd(e, phi) == 1):
                        P.fail(S, "e-shape", "e is not an le-bit prime coprime to phi", [str(e)])
                    S.run([vline(x, msgs, sig)], expect=expect_bool(True), label="verify(sign)")
                    # "for every base set": bases the CALLER supplies need not be quadratic residues -- N - a_i is a non-residue (Jacobi symbol +1);
                    # with odd attributes a signature whose e-th root was taken modulo the order of the residues only would be rejected half of the time
                    if stats["signatures"] <= 3 and suite == "toy":
                        nb = [N - b_ if k_ % 2 == 0 else b_ for k_, b_ in enumerate(x.bases)]
                        for _rep in range(4 if tier == "quick" else 16):
                            mo = [rmsg(rng) | 1 for _ in range(n)]
                            rn = S.run(["clsign %s %s %s %s %s" % (suite, zl(x.pk), zl(x.sk), zl(nb), zl(mo))], expect="ok", label="clsign(non-residue bases)")[0]
                            if rn.status == "OK":
                                S.run([vline(x, mo, [rn.z(0), rn.z(1), rn.z(2)], bases=nb)], expect=expect_bool(True), label="verify(sign):non-residue-bases")
                            r1n = S.run(["clsign1 %s %s %s %s %d" % (suite, zl(x.pk), zl(x.sk), zl(nb), mo[0])], expect="ok", label="clsign1(non-residue base)")[0]
                            if r1n.status == "OK":
                                S.run(["clverify1 %s %s %s %d %s" % (suite, zl(x.pk), zl(nb), mo[0], zl([r1n.z(0), r1n.z(1), r1n.z(2)]))], expect=expect_bool(True), label="verify1(sign1):non-residue-base")
                    # the prime search for e started just below 2^le (first draw forced): the prime that follows has le + 1 bits and
                    # must be refused by the signer's own bounds; the signature returned must again carry an le-bit e
                    if stats["signatures"] <= 2:
                        for api, extra in (("clsign", zl(msgs)), ("clsign1", "%d" % msgs[0])):
                            for start in ((1 << le) - 1, (1 << le) - 2):
                                rf = S.run(["Q,%s %s %s %s %s %s %s" % (str(start).encode().hex(), api, suite, zl(x.pk), zl(x.sk), zl(x.bases), extra)], expect="ok", label="forced-e-start")[0]
                                if rf.status == "OK" and not (2**(le - 1) < rf.z(0) < 2**le):
                                    P.fail(S, "e-shape", "%s issued an exponent of %d bits after a prime search started at 2^le - %d" % (api, rf.z(0).bit_length(), (1 << le) - start), [str(rf.z(0))])
                    # single attribute API
                    r1 = S.run(["clsign1 %s %s %s %s %d" % (suite, zl(x.pk), zl(x.sk), zl(x.bases), msgs[0])], expect="ok", label="clsign1")[0]
                    if r1.status == "OK":
                        s1 = [r1.z(0), r1.z(1), r1.z(2)]
                        S.run(["clverify1 %s %s %s %d %s" % (suite, zl(x.pk), zl(x.bases), msgs[0], zl(s1))], expect=expect_bool(True), label="verify1(sign1)")
                        S.run(["clverify1 %s %s %s %d %s" % (suite, zl(x.pk), zl(x.bases), msgs[0] ^ 1, zl(s1))], expect=expect_bool(False), label="neg1:other-attribute")
                        S.run(["clverify1 %s %s %s %d %s" % (suite, zl(x.pk), zl(x.bases), msgs[0] + s1[0], zl([s1[0], s1[1], s1[2] * x.bases[0] % N]))], expect=expect_bool(False), label="neg1:shift-by-e")
                    # codecs
                    if stats["signatures"] <= 2:
                        # components with LEADING ZERO octets (v below 2^(ln - 8), a short s): the byte codec returns what it was given
                        ln_ = x.P["ln"]
                        for v_ in (1, 255, 2 ** (ln_ - 16), 2 ** (ln_ - 8) - 1, 2 ** (ln_ - 9) + 12345, sig[2] >> 9, sig[2] >> 17):
                            for s_ in (sig[1], sig[1] >> 20, 3):
                                rz = S.run(["clsigcodec %s %s" % (suite, zl([sig[0], s_, v_]))], expect="ok", label="sig-codec(leading zero octets)")[0]
                                if rz.status == "OK" and ([rz.z(1), rz.z(2), rz.z(3)] != [sig[0], s_, v_] or rz.toks[4] != "1"):
                                    P.fail(S, "sig-codec", "signature with leading zero octets changed by its byte / JSON codec", [zl([sig[0], s_, v_])])
                    rc = S.run(["clsigcodec %s %s" % (suite, zl(sig))], expect="ok", label="sig-codec")[0]
                    if rc.status == "OK" and ([rc.z(1), rc.z(2), rc.z(3)] != sig or rc.toks[4] != "1"):
                        P.fail(S, "sig-codec", "signature changed by its byte / JSON codec", [zl(sig)])
                    # selective disclosure of bases: all subsets
                    subs = list(all_subsets(n)) if n <= 4 else [[], [0], list(range(n)), [n - 1, 1]]
                    for U in subs:
                        rd = S.run(["cldisclose %s %s %s %s %s %s" % (suite, zl(x.pk), zl(x.bases), zl(msgs), zl(sig), il(U))], expect="ok", label="disclose")[0]
                        if rd.status == "OK":
                            stats["disclosures"] += 1
                            S.run([vline(x, rd.zl(0), sig, bases=rd.zl(1))], expect=expect_bool(True), label="verify(disclose)")
                    # negatives
                    lines = []; labs = []
                    def neg(l, k): lines.append(l); labs.append("neg:" + k); cnt(k)
                    # a NEGATIVE exponent with the inverse of v (no secret key needed: (v^-1)^(-e) = v^e), and negated components one at a time
                    try: vinv = pow(sig[2], -1, N)
                    except ValueError: vinv = None
                    if vinv is not None:
                        neg(vline(x, msgs, [-sig[0], sig[1], vinv]), "negated-e-inverted-v")
                    neg(vline(x, msgs, [-sig[0], sig[1], sig[2]]), "negated-e"); neg(vline(x, msgs, [sig[0], -sig[1], sig[2]]), "negated-s"); neg(vline(x, msgs, [sig[0], sig[1], -sig[2]]), "negated-v")
                    for i in range(n):
                        m2 = list(msgs); m2[i] ^= 1 << rng.randrange(256); neg(vline(x, m2, sig), "attribute-changed")
                        for k in (1, -1, 2):
                            m3 = list(msgs); m3[i] += k * e
                            v3 = v * pow(x.bases[i], k, N) % N
                            neg(vline(x, m3, [e, s, v3]), "shift-by-%d-e" % k)
                        m4 = list(msgs); m4[i] += 2**lm; neg(vline(x, m4, sig), "attribute-oversized")
                        m5 = list(msgs); m5[i] = -msgs[i] - 1; neg(vline(x, m5, sig), "attribute-negative")
                    if n >= 2 and msgs[0] != msgs[1]:
                        m6 = list(msgs); m6[0], m6[1] = m6[1], m6[0]; neg(vline(x, m6, sig), "swapped")
                        b6 = list(x.bases); b6[0], b6[1] = b6[1], b6[0]; neg(vline(x, msgs, sig, bases=b6), "other-bases")
                    neg(vline(x, msgs[:-1], sig) if n > 1 else vline(x, [msgs[0] + 1], sig), "dropped-attribute")
                    for d in (1, -1):
                        neg(vline(x, msgs, [e + d, s, v]), "e+-1"); neg(vline(x, msgs, [e, s + d, v]), "s+-1"); neg(vline(x, msgs, [e, s, (v + d)]), "v+-1")
                    neg(vline(x, msgs, [0, s, v]), "e=0"); neg(vline(x, msgs, [e, s, 0]), "v=0"); neg(vline(x, msgs, [e, 0, v]), "s=0")
                    neg(vline(x, msgs, [e, s, v + N]), "v+N"); neg(vline(x, msgs, [e, s, v - N]), "v-N")
                    # the exponent shifted by multiples of the group order (the key holder's edit): v^(e + k phi) = v^e, so only the
                    # bound e < 2^le stands between this edit and acceptance -- in BOTH verifiers
                    for k_ in (1, 2, 7):
                        neg(vline(x, msgs, [e + k_ * phi, s, v]), "e+k*phi")
                    neg("clverify1 %s %s %s %d %s" % (suite, zl(x.pk), zl(x.bases), msgs[0], zl([s1[0] + phi, s1[1], s1[2]])), "e+k*phi(single)") if r1.status == "OK" else None
                    neg(vline(x, msgs, [e + 2**le, s, v]), "e+2^le"); neg(vline(x, msgs, [-e, s, v]), "-e")
                    neg(vline(x, msgs, sig, pk=[N, x.pk[2], x.pk[1]]), "other-key(b<->c)")
                    S.run(lines, expect=reject, label=labs)
        return stats

from .props4 import C14, C15, C16, C17, C18, C19   # noqa: E402
PROPS = {"C13": C13, "C14": C14, "C15": C15, "C16": C16, "C17": C17, "C18": C18, "C19": C19}
