"""JSON <-> flat integer list for CL03 proof documents (same rule as the OCaml driver and coq/Model/ClOps.v):
members in document order, {"radix":r,"value":s} = one integer, a list is preceded by its length, the optional
member proof_C_Ctrusted by 0 (null) or 1.  Also: rebuilding a document from a (mutated) leaf list."""
import json

def is_int(j): return isinstance(j, dict) and list(j.keys()) == ["radix", "value"]

def flatten(j, key=""):
    opt = key == "proof_C_Ctrusted"
    if j is None:
        if opt: return [0]
        raise ValueError("unexpected null")
    if is_int(j): return [int(j["value"], j["radix"])]
    if isinstance(j, dict):
        body = []
        for k, v in j.items(): body += flatten(v, k)
        return ([1] + body) if opt else body
    if isinstance(j, list):
        out = [len(j)]
        for v in j: out += flatten(v)
        return out
    if isinstance(j, int): return [j]
    raise ValueError("unexpected leaf %r" % (j,))

def leaves(j, path=()):
    """[(path, value)] of every integer leaf, document order"""
    if is_int(j): return [(path, int(j["value"], j["radix"]))]
    out = []
    if isinstance(j, dict):
        for k, v in j.items(): out += leaves(v, path + (k,))
    elif isinstance(j, list):
        for i, v in enumerate(j): out += leaves(v, path + (i,))
    return out

def set_leaf(j, path, value):
    """a deep copy of j with the integer leaf at `path` replaced"""
    j = json.loads(json.dumps(j))
    cur = j
    for p in path[:-1]: cur = cur[p]
    cur[path[-1]] = {"radix": 10, "value": str(value)}
    return j

def get(j, path):
    for p in path: j = j[p]
    return int(j["value"], j["radix"]) if is_int(j) else j

def tok(j): return "J" + json.dumps(j, separators=(",", ":")).encode().hex()
def untok(t): return json.loads(bytes.fromhex(t[1:]).decode())
def flat_tok(j): return "Z" + "".join(",%d" % x for x in flatten(j))
def zl(l): return "Z" + "".join(",%d" % x for x in l)
def oz(l): return "N" if l is None else zl(l)
def il(l): return "I" + "".join(",%d" % x for x in l)
def oil(l): return "N" if l is None else il(l)
