"""Per-property case generators and sweeps (implementation-side oracles)."""
import json
from . import common as C
from .common import tb, tob, tl, tol, ti, toi, tou

SUITES = ["sha", "shake"]

def rb(rng, n):
    return bytes(rng.getrandbits(8) for _ in range(n))

def fail(S, label, detail, lines):
    if not hasattr(S, "extra_failures"): S.extra_failures = []
    S.extra_failures.append({"label": label, "detail": detail, "case": " ;; ".join(lines)[:1500], "impl": "", "expected": "relation"})

MSG_LENS = [0, 1, 31, 32, 33, 47, 48, 49, 63, 64, 65, 255, 256, 257, 1000]

def rand_msgs(rng, L, big=False):
    out = []
    for _ in range(L):
        n = rng.choice(MSG_LENS) if rng.random() < 0.7 else rng.randrange(0, 80)
        if L > 40: n = min(n, 64)
        out.append(rb(rng, n))
    return out

def make_keys(S, suite, n, label="keygen"):
    rng = S.rng; lines = []
    infos = [None, b"", b"\x01", rb(rng, 255), rb(rng, 256)]
    for i in range(n):
        ikm = rb(rng, rng.choice([32, 33, 48, 64, 100, 128]))
        ki = infos[i % len(infos)]
        lines.append("keygen %s %s %s N" % (suite, tb(ikm), tob(ki)))
    res = S.run(lines, expect="ok", label=label)
    return [(r.b(0), r.b(1)) for r in res if r.status == "OK"]

class C01:
    LEVEL = "proof"
    RULE = ("structured honest flows: both suites; keys from random ikm (32..128 bytes, key_info None/empty/1/255/256 bytes); "
            "L over boundary shapes; header in {None, empty, 16, 300 bytes}; message lengths around 0,1,31-33,47-49,63-65,255-257,1000; "
            "each flow = sign, verify, 80-byte decode/re-encode, None-vs-empty equality; every case is run on the implementation and on "
            "the extracted Coq model and compared byte for byte; non-trivial = distinct case line that reaches the operation under test")
    @staticmethod
    def generate(S, tier):
        rng = S.rng
        Ls = [0, 1, 2, 3, 5, 10, 17, 32, 64] if tier == "quick" else [0, 1, 2, 3, 4, 5, 7, 10, 15, 16, 17, 31, 32, 33, 63, 64, 65, 100, 128, 257, 300, 1000]
        stats = {"L": Ls, "flows": 0, "none_vs_empty_pairs": 0}
        for suite in SUITES:
            keys = make_keys(S, suite, 5 if tier == "quick" else 12)
            flows = []
            for L in Ls:
                for hv in range(4):
                    header = [None, b"", rb(rng, 16), rb(rng, 300)][hv]
                    sk, pk = keys[rng.randrange(len(keys))]
                    msgs = rand_msgs(rng, L)
                    flows.append((sk, pk, header, msgs if (L > 0 or hv % 2 == 0) else None))
            sign_lines = ["sign %s %s %s %s %s" % (suite, tb(sk), tb(pk), tob(h), tol(m)) for sk, pk, h, m in flows]
            sres = S.run(sign_lines, expect="ok", label="sign")
            vlines = []; dlines = []; sigs = []
            for (sk, pk, h, m), r in zip(flows, sres):
                if r.status != "OK": continue
                sig = r.b(0); sigs.append(sig)
                vlines.append("verify %s %s %s %s %s" % (suite, tb(pk), tb(sig), tob(h), tol(m)))
                dlines.append("dec sig %s" % tb(sig))
            S.run(vlines, expect="ok", label="verify(sign)")
            dres = S.run(dlines, expect="ok", label="sig-roundtrip")
            for sig, r in zip(sigs, dres):
                if r.status == "OK" and r.b(0) != sig:
                    fail(S, "sig-roundtrip", "re-encoding differs", ["dec sig " + sig.hex()])
                if len(sig) != 80:
                    fail(S, "sig-length", "signature is not 80 bytes", [sig.hex()])
            stats["flows"] += len(flows)
            # None vs empty (header and message list), pairwise equal signatures and cross verification
            sk, pk = keys[0]
            msgs = rand_msgs(rng, 3)
            variants = [("N", "N"), ("S", "N"), ("N", "L"), ("S", "L")]
            r1 = S.run(["sign %s %s %s %s %s" % (suite, tb(sk), tb(pk), hv, mv) for hv, mv in variants], expect="ok", label="none-vs-empty")
            if len({r.core() for r in r1}) != 1:
                fail(S, "none-vs-empty", "sign differs between None and empty", [r.raw for r in r1])
            r2 = S.run(["sign %s %s %s %s %s" % (suite, tb(sk), tb(pk), hv, tl(msgs)) for hv in ("N", "S")], expect="ok", label="none-vs-empty")
            if len({r.core() for r in r2}) != 1:
                fail(S, "none-vs-empty", "sign differs between header None and empty", [r.raw for r in r2])
            if r1[0].status == "OK":
                S.run(["verify %s %s %s %s %s" % (suite, tb(pk), tb(r1[0].b(0)), hv, mv) for hv, mv in variants], expect="ok", label="none-vs-empty")
            stats["none_vs_empty_pairs"] += 6
        return stats

PROPS = {"C01": C01}

def replay(pid, path):
    """Re-run the cases stored in a replay file against the current implementation and model."""
    obj = json.load(open(path))
    S = C.Session(pid, 0)
    C.build_harness(); C.build_model()
    lines = [f["case"] for f in obj.get("failures", []) + obj.get("correspondence_disagreements", []) if " ;; " not in f["case"]]
    res = S.run(lines)
    mod = S.run_model()
    bad = 0
    for l, r, m in zip(lines, res, mod):
        print("case:", l[:300]); print("  impl :", r.raw[:300]); print("  model:", m.raw[:300] if m else None)
    return 0
