"""Per-property case generators and sweeps (implementation-side oracles) -- BBS half."""
import json, itertools
from . import common as C
from .common import tb, tob, tl, tol, ti, toi, tou
from . import pyc

SUITES = ["sha", "shake"]

def rb(rng, n):
    return bytes(rng.getrandbits(8) for _ in range(n))

def fail(S, label, detail, lines):
    if not hasattr(S, "extra_failures"): S.extra_failures = []
    S.extra_failures.append({"label": label, "detail": detail, "case": " ;; ".join(lines)[:1500], "impl": "", "expected": "relation"})

MSG_LENS = [0, 1, 31, 32, 33, 47, 48, 49, 63, 64, 65, 255, 256, 257, 1000]

def rand_msgs(rng, L):
    out = []
    for _ in range(L):
        n = rng.choice(MSG_LENS) if rng.random() < 0.7 else rng.randrange(0, 80)
        if L > 40: n = min(n, 64)
        out.append(rb(rng, n))
    return out

def rand_header(rng):
    return rng.choice([None, b"", rb(rng, 1), rb(rng, 16), rb(rng, 32), rb(rng, 255), rb(rng, 256), rb(rng, 300)])

def make_keys(S, suite, n, label="triv:keygen"):
    rng = S.rng; lines = []
    infos = [None, b"", b"\x01", rb(rng, 255), rb(rng, 256)]
    # C01's own keys: also the largest key_info the 2-octet length prefix admits (65535 octets) and the one below: a key pair exists and signs
    if label == "keygen": infos = [rb(rng, 65535), rb(rng, 65534)] + infos
    for i in range(n):
        ikm = rb(rng, rng.choice([32, 33, 48, 64, 100, 128]))
        ki = infos[i % len(infos)]
        lines.append("keygen %s %s %s N" % (suite, tb(ikm), tob(ki)))
    res = S.run(lines, expect="ok", label=label)
    return [(r.b(0), r.b(1)) for r in res if r.status == "OK"]

def honest_sigs(S, suite, keys, shapes, label="triv:sign"):
    """shapes: list of (L, header or 'rand').  Returns list of dicts."""
    rng = S.rng; flows = []
    for L, header in shapes:
        sk, pk = keys[rng.randrange(len(keys))]
        h = rand_header(rng) if header == "rand" else header
        flows.append({"suite": suite, "sk": sk, "pk": pk, "header": h, "msgs": rand_msgs(rng, L)})
    res = S.run(["sign %s %s %s %s %s" % (suite, tb(f["sk"]), tb(f["pk"]), tob(f["header"]), tl(f["msgs"])) for f in flows],
                expect="ok", label=label)
    out = []
    for f, r in zip(flows, res):
        if r.status == "OK":
            f["sig"] = r.b(0); out.append(f)
    return out

def sorted_dedup(idx): return sorted(set(idx))
def pick(msgs, idx): return [msgs[i] for i in idx]

def honest_proofs(S, flows_idx, label="triv:proofgen"):
    """flows_idx: list of (sigflow, idx list (maybe unsorted), ph).  Returns list of dicts with 'proof'."""
    lines = []
    for f, idx, ph in flows_idx:
        lines.append("proofgen %s %s %s %s %s %s %s" % (f["suite"], tb(f["pk"]), tb(f["sig"]), tob(f["header"]), tob(ph), tl(f["msgs"]), ti(idx)))
    res = S.run(lines, expect="ok", label=label)
    out = []
    for (f, idx, ph), r in zip(flows_idx, res):
        if r.status == "OK":
            d = dict(f); d["idx"] = idx; d["ph"] = ph; d["proof"] = r.b(0); d["D"] = sorted_dedup(idx); out.append(d)
    return out

def pv_line(p, **kw):
    q = dict(p); q.update(kw)
    D = q.get("D")
    dm = q["dmsgs"] if "dmsgs" in q else pick(q["msgs"], D)
    return "proofverify %s %s %s %s %s %s %s" % (q["suite"], tb(q["pk"]), tb(q["proof"]), tl(dm), ti(D), tob(q["header"]), tob(q["ph"]))

def norm(h): return b"" if h is None else h

# ====================================================================================== C01
class C01:
    LEVEL = "proof"
    RULE = ("structured honest flows: both suites; keys from random ikm (32..128 bytes, key_info None/empty/1/255/256 bytes); "
            "L over boundary shapes; header in {None, empty, 16, 300 bytes}; message lengths around 0,1,31-33,47-49,63-65,255-257,1000; "
            "each flow = sign, verify, 80-byte decode/re-encode, None-vs-empty equality; every case is run on the implementation and on "
            "the extracted Coq model and compared byte for byte; non-trivial = distinct case line that reaches the operation under test")
    @staticmethod
    def generate(S, tier):
        rng = S.rng
        Ls = [0, 1, 2, 3, 5, 10, 17, 32, 64] if tier == "quick" else [0, 1, 2, 3, 4, 5, 7, 10, 15, 16, 17, 31, 32, 33, 63, 64, 65, 100, 128, 257, 300, 1000]
        stats = {"L": Ls, "flows": 0, "none_vs_empty_pairs": 0}
        for suite in SUITES:
            keys = make_keys(S, suite, 5 if tier == "quick" else 12, label="keygen")
            shapes = [(L, h) for L in Ls for h in (None, b"", rb(rng, 16), rb(rng, 300))]
            flows = honest_sigs(S, suite, keys, shapes, label="sign")
            # EVERY header length 0..64 (quick: 0..40) at 16 and 17 messages, and 800..840 at no message: the length of the domain input
            # (public key, L + 1 generators, api id, header) then sweeps a window around 1024 octets octet by octet
            hs_ = [(L_, rb(rng, hl_)) for L_ in (16, 17) for hl_ in range(0, 41 if tier == "quick" else 65)] + [(0, rb(rng, hl_)) for hl_ in range(800, 841, 1 if tier != "quick" else 2)]
            flows += honest_sigs(S, suite, keys, hs_, label="sign(header-length sweep)")
            # very long messages / header and thousands of messages (hashed inputs beyond 2^16 bytes)
            sk_, pk_ = keys[0]
            big = [{"suite": suite, "sk": sk_, "pk": pk_, "header": b"h", "msgs": [rb(rng, 65536), b"x"]},
                   {"suite": suite, "sk": sk_, "pk": pk_, "header": rb(rng, 70000), "msgs": [b"a", rb(rng, 65535)]},
                   {"suite": suite, "sk": sk_, "pk": pk_, "header": None, "msgs": [bytes([i % 251]) * (i % 3) for i in range(1400 if tier == "quick" else 4100)]}]
            rbig = S.run(["sign %s %s %s %s %s" % (suite, tb(f["sk"]), tb(f["pk"]), tob(f["header"]), tl(f["msgs"])) for f in big], expect="ok", label="sign-large")
            for f, r in zip(big, rbig):
                if r.status == "OK": f["sig"] = r.b(0); flows.append(f)
            S.run(["verify %s %s %s %s %s" % (suite, tb(f["pk"]), tb(f["sig"]), tob(f["header"]), tl(f["msgs"])) for f in flows],
                  expect="ok", label="verify(sign)")
            dres = S.run(["dec sig %s" % tb(f["sig"]) for f in flows], expect="ok", label="sig-roundtrip")
            for f, r in zip(flows, dres):
                if r.status == "OK" and r.b(0) != f["sig"]:
                    fail(S, "sig-roundtrip", "re-encoding differs", ["dec sig " + f["sig"].hex()])
                if len(f["sig"]) != 80:
                    fail(S, "sig-length", "signature is not 80 bytes", [f["sig"].hex()])
            stats["flows"] += len(flows)
            sk, pk = keys[0]
            msgs = rand_msgs(rng, 3)
            variants = [("N", "N"), ("S", "N"), ("N", "L"), ("S", "L")]
            r1 = S.run(["sign %s %s %s %s %s" % (suite, tb(sk), tb(pk), hv, mv) for hv, mv in variants], expect="ok", label="none-vs-empty")
            if len({r.core() for r in r1}) != 1:
                fail(S, "none-vs-empty", "sign differs between None and empty", [r.raw for r in r1])
            r2 = S.run(["sign %s %s %s %s %s" % (suite, tb(sk), tb(pk), hv, tl(msgs)) for hv in ("N", "S")], expect="ok", label="none-vs-empty")
            if len({r.core() for r in r2}) != 1:
                fail(S, "none-vs-empty", "sign differs between header None and empty", [r.raw for r in r2])
            if r1[0].status == "OK":
                S.run(["verify %s %s %s %s %s" % (suite, tb(pk), tb(r1[0].b(0)), hv, mv) for hv, mv in variants], expect="ok", label="none-vs-empty")
            stats["none_vs_empty_pairs"] += 6
            # volume: many signatures over short inputs through the 80-byte round trip (a fault that depends on a pattern of the
            # octets of A or e shows up only at some rate; 1200 signatures hit a 1-in-256 pattern with probability 0.99)
            nb = 1200 if tier == "quick" else 6000
            bl = ["sign %s %s %s %s %s" % (suite, tb(sk), tb(pk), tob(rb(rng, 4)), tl([rb(rng, 3)])) for _ in range(nb)]
            rs = S.run(bl, expect="ok", label="triv:bulk-sign", model=False)
            dl = ["dec sig %s" % tb(r_.b(0)) for r_ in rs if r_.status == "OK"]
            rd = S.run(dl, expect="ok", label="bulk:from_bytes(to_bytes(sign))", model=False)
            for l_, r_ in zip(dl, rd):
                if r_.status == "OK" and r_.b(0) != bytes.fromhex(l_.split(" ")[2]):
                    fail(S, "roundtrip", "from_bytes(to_bytes(signature)) re-encodes differently", [l_])
            stats["bulk_roundtrips"] = stats.get("bulk_roundtrips", 0) + len(dl)
        return stats

# ====================================================================================== C02
def msg_mutations(rng, msgs):
    """single edits of the message list; never returns a list equal to the original"""
    out = []
    L = len(msgs)
    if L:
        i = rng.randrange(L); m = bytearray(msgs[i])
        if m:
            j = rng.randrange(len(m)); m[j] ^= 1 << rng.randrange(8)
            out.append(("byte-change", msgs[:i] + [bytes(m)] + msgs[i+1:]))
            out.append(("msg-truncate-byte", msgs[:i] + [msgs[i][:-1]] + msgs[i+1:]))
        out.append(("msg-extend-byte", msgs[:i] + [msgs[i] + b"\0"] + msgs[i+1:]))
        out.append(("delete", msgs[:i] + msgs[i+1:]))
        out.append(("truncate", msgs[:-1]))
        if L >= 2:
            a, b = rng.sample(range(L), 2)
            if msgs[a] != msgs[b]:
                sw = list(msgs); sw[a], sw[b] = sw[b], sw[a]; out.append(("swap", sw))
            rot = msgs[1:] + msgs[:1]
            if rot != msgs: out.append(("rotate", rot))
        out.append(("duplicate-last", msgs + [msgs[-1]]))
    i = rng.randrange(L + 1)
    out.append(("insert", msgs[:i] + [rb(rng, rng.choice([0, 1, 32]))] + msgs[i:]))
    out.append(("extend", msgs + [b""]))
    return [(k, m) for k, m in out if m != msgs]

def header_mutations(rng, header):
    h = norm(header); out = []
    if h:
        m = bytearray(h); m[rng.randrange(len(m))] ^= 1 << rng.randrange(8)
        out += [bytes(m), h[:-1], b""]
    out += [h + b"\0", rb(rng, 16)]
    return [x for x in out if x != h]

class C02:
    LEVEL = "proof"
    RULE = ("honest signatures (both suites, L in boundary shapes) then single edits of every class the property lists: message byte change / "
            "insert / delete / swap / truncate / extend, header', pk', all 640 single-bit flips of the 80 signature bytes, cross-suite and "
            "cross-interface (plain<->blind) re-interpretation; every mutated instance must be Err and model and implementation must agree; "
            "mutations equal to the original after normalisation (None = empty) are filtered; non-trivial = distinct mutated case")
    @staticmethod
    def generate(S, tier):
        rng = S.rng
        Ls = [0, 1, 2, 3, 10, 35] if tier == "quick" else [0, 1, 2, 3, 4, 5, 10, 17, 32, 33, 35, 63, 64, 65, 70, 100]
        nflip = 2 if tier == "quick" else 8
        stats = {"L": Ls, "mutations": {}, "bitflip_sigs": 0}
        def cnt(k, n=1): stats["mutations"][k] = stats["mutations"].get(k, 0) + n
        for suite in SUITES:
            other = "shake" if suite == "sha" else "sha"
            keys = make_keys(S, suite, 3)
            okeys = make_keys(S, other, 1)
            reps = 2 if tier == "quick" else 4
            flows = honest_sigs(S, suite, keys, [(L, "rand") for L in Ls for _ in range(reps)])
            # headers around 4096 octets and a very long one: every edit of them is rejected like any other header edit
            flows += honest_sigs(S, suite, keys, [(2, rb(rng, hl_)) for hl_ in (4095, 4096, 4097, 10000)], label="sign(long header)")
            # one signature over a vector holding a message of MORE than 65535 octets (the length fields of expand_message have 16 bits) and one of exactly 65535
            sk_, pk_ = keys[0]; big_ = [rb(rng, 65536 + rng.randrange(5000)), b"other", rb(rng, 65535)]
            rbig = S.run(["sign %s %s %s %s %s" % (suite, tb(sk_), tb(pk_), "N", tl(big_))], expect="ok", label="sign(large message)")[0]
            if rbig.status == "OK": flows.append({"suite": suite, "sk": sk_, "pk": pk_, "header": None, "msgs": big_, "sig": rbig.b(0)})
            # ... and one of MORE than 2^20 octets (implementation only: the extracted hash is too slow for it): removed / moved / altered / added => Err
            huge = rb(rng, (1 << 20) + 1 + rng.randrange(64)); hv = [b"a", huge, b"b"]
            rh = S.run(["sign %s %s %s N %s" % (suite, tb(sk_), tb(pk_), tl(hv))], expect="ok", label="sign(message above 2^20 octets)", model=False)[0]
            if rh.status == "OK":
                S.run(["verify %s %s %s N %s" % (suite, tb(pk_), tb(rh.b(0)), tl(hv))], expect="ok", label="verify(sign(message above 2^20 octets))", model=False)
                h2 = bytearray(huge); h2[len(h2) // 2] ^= 1
                S.run(["verify %s %s %s N %s" % (suite, tb(pk_), tb(rh.b(0)), tl(v_)) for v_ in ([b"a", b"b"], [huge, b"a", b"b"], [b"a", bytes(h2), b"b"], [b"a", huge[:-1], b"b"])],
                      expect="err", label=["msgs:huge-removed", "msgs:huge-moved", "msgs:huge-altered", "msgs:huge-truncated"], model=False)
            lines = []; labels = []
            for f in flows:
                base = (suite, tb(f["pk"]), tb(f["sig"]))
                for kind, m2 in msg_mutations(rng, f["msgs"]):
                    lines.append("verify %s %s %s %s %s" % (base + (tob(f["header"]), tl(m2)))); labels.append("msgs:" + kind); cnt("msgs:" + kind)
                # EVERY position is bound: a byte change at each index, and a swap of each pair of distinct neighbours
                # (a summation that batches / chunks the terms may leave a tail or a boundary element out)
                if len(f["msgs"]) >= 4 and (suite, len(f["msgs"])) not in stats.setdefault("_pos_done", set()):
                    stats["_pos_done"].add((suite, len(f["msgs"])))
                    ms = f["msgs"]
                    for i in range(len(ms)):
                        m2 = list(ms); m2[i] = ms[i] + b"\x01"
                        lines.append("verify %s %s %s %s %s" % (base + (tob(f["header"]), tl(m2)))); labels.append("msgs:byte-change@every-position"); cnt("msgs:every-position")
                        if i + 1 < len(ms) and ms[i] != ms[i + 1]:
                            m3 = list(ms); m3[i], m3[i + 1] = m3[i + 1], m3[i]
                            lines.append("verify %s %s %s %s %s" % (base + (tob(f["header"]), tl(m3)))); labels.append("msgs:swap@every-position"); cnt("msgs:every-position")
                for h2 in header_mutations(rng, f["header"]):
                    lines.append("verify %s %s %s %s %s" % (base + (tob(h2), tl(f["msgs"])))); labels.append("header"); cnt("header")
                for sk2, pk2 in keys + okeys:
                    if pk2 != f["pk"]:
                        lines.append("verify %s %s %s %s %s" % (suite, tb(pk2), tb(f["sig"]), tob(f["header"]), tl(f["msgs"]))); labels.append("pk"); cnt("pk")
                # cross suite (same key bytes are a valid key in both suites)
                lines.append("verify %s %s %s %s %s" % (other, tb(f["pk"]), tb(f["sig"]), tob(f["header"]), tl(f["msgs"]))); labels.append("cross-suite"); cnt("cross-suite")
                # plain signature through the blind interface
                lines.append("blindverify %s %s %s %s %s N N" % (suite, tb(f["pk"]), tb(f["sig"]), tob(f["header"]), tl(f["msgs"]))); labels.append("cross-interface:plain->blind"); cnt("cross-interface")
                if len(f["msgs"]) >= 1:
                    lines.append("blindverify %s %s %s %s %s %s N" % (suite, tb(f["pk"]), tb(f["sig"]), tob(f["header"]), tl(f["msgs"][:-1]), tl(f["msgs"][-1:]))); labels.append("cross-interface:plain->blind-split"); cnt("cross-interface")
            # blind signature through the plain interface
            bl = S.run(["blindsign %s %s %s N %s %s" % (suite, tb(f["sk"]), tb(f["pk"]), tob(f["header"]), tl(f["msgs"])) for f in flows[:6]], expect="ok", label="triv:blindsign")
            for f, r in zip(flows[:6], bl):
                if r.status == "OK":
                    lines.append("verify %s %s %s %s %s" % (suite, tb(f["pk"]), tb(r.b(0)), tob(f["header"]), tl(f["msgs"]))); labels.append("cross-interface:blind->plain"); cnt("cross-interface")
            # all 640 single-bit flips
            for f in rng.sample(flows, min(nflip, len(flows))):
                stats["bitflip_sigs"] += 1
                for bit in range(640):
                    s2 = bytearray(f["sig"]); s2[bit // 8] ^= 1 << (bit % 8)
                    lines.append("verify %s %s %s %s %s" % (suite, tb(f["pk"]), tb(bytes(s2)), tob(f["header"]), tl(f["msgs"]))); labels.append("bitflip"); cnt("bitflip")
            S.run(lines, expect="err", label=labels)
        stats.pop("_pos_done", None)
        return stats

# ====================================================================================== C03
def all_subsets(L):
    for r in range(L + 1):
        for c in itertools.combinations(range(L), r):
            yield list(c)

class C03:
    LEVEL = "proof"
    RULE = ("honest signatures then proof_gen with the production RNG (draws logged through the hook and replayed into the model: proofs compared "
            "byte for byte) for ALL 2^L disclosure subsets for small L and random subsets for larger L, header/ph in {None, empty, bytes}; "
            "proof_verify with exactly the disclosed messages and positions must be Ok, also after decode/re-encode; length must be 272+32*U; "
            "unsorted / duplicated index lists included; non-trivial = distinct case reaching proof_gen / proof_verify")
    @staticmethod
    def generate(S, tier):
        rng = S.rng
        exh = 5 if tier == "quick" else 8
        # 258: more than 255 undisclosed messages (a response count kept in one octet would stop there)
        big = [10, 17, 33, 64, 258] if tier == "quick" else [10, 16, 17, 31, 32, 33, 64, 100, 128, 258, 300, 515]
        nrand = 4 if tier == "quick" else 20
        stats = {"exhaustive_L_up_to": exh, "sampled_L": big, "subsets": 0, "U_hist": {}}
        for suite in SUITES:
            keys = make_keys(S, suite, 3)
            flows = honest_sigs(S, suite, keys, [(L, "rand") for L in range(exh + 1)] + [(L, "rand") for L in big])
            fi = []
            for f in flows:
                L = len(f["msgs"])
                if L <= exh:
                    subs = list(all_subsets(L))
                elif L > 200:
                    subs = [[], [0, L - 1], list(range(L - 256)), list(range(L - 255))]      # U = L, L - 2, 256, 255
                else:
                    subs = [[], list(range(L)), [0], [L - 1]] + [sorted(rng.sample(range(L), rng.randrange(L + 1))) for _ in range(nrand)]
                for D in subs:
                    ph = rng.choice([None, b"", rb(rng, 8), rb(rng, 100)])
                    fi.append((f, D, ph))
                # unsorted with duplicates
                if L >= 2:
                    D = [rng.randrange(L) for _ in range(L + 2)]
                    fi.append((f, D, rb(rng, 4)))
            proofs = honest_proofs(S, fi, label="proofgen")
            stats["subsets"] += len(fi)
            for p in proofs:
                U = len(p["msgs"]) - len(p["D"])
                stats["U_hist"][str(U)] = stats["U_hist"].get(str(U), 0) + 1
                if len(p["proof"]) != 272 + 32 * U:
                    fail(S, "proof-length", "len=%d U=%d" % (len(p["proof"]), U), [p["proof"].hex()])
            S.run([pv_line(p) for p in proofs], expect="ok", label="proofverify(proofgen)")
            # "disclose nothing" spelled as an ABSENT index list (messages present): the same proof shape as the empty list
            ab_ = [f for f in flows if 1 <= len(f["msgs"]) <= 10][:4]
            ra_ = S.run(["proofgen %s %s %s %s N %s N" % (f["suite"], tb(f["pk"]), tb(f["sig"]), tob(f["header"]), tl(f["msgs"])) for f in ab_], expect="ok", label="proofgen(absent index list)")
            for f, r in zip(ab_, ra_):
                if r.status != "OK": continue
                if len(r.b(0)) != 272 + 32 * len(f["msgs"]): fail(S, "proof-length", "absent index list: len=%d for L=%d hidden messages" % (len(r.b(0)), len(f["msgs"])), [r.b(0).hex()])
                S.run(["proofverify %s %s %s N N %s N" % (f["suite"], tb(f["pk"]), tb(r.b(0)), tob(f["header"])),
                       "proofverify %s %s %s L I %s N" % (f["suite"], tb(f["pk"]), tb(r.b(0)), tob(f["header"]))], expect="ok", label="proofverify(proofgen(absent index list))")
            dres = S.run(["dec proof %s" % tb(p["proof"]) for p in proofs], expect="ok", label="proof-roundtrip")
            for p, r in zip(proofs, dres):
                if r.status == "OK" and r.b(0) != p["proof"]:
                    fail(S, "proof-roundtrip", "re-encoding differs", [p["proof"].hex()])
            # the serde (JSON) form: every proof -- all-disclosed and all-hidden ones included -- comes back as the same octets
            jres = S.run(["json proof %s" % tb(p["proof"]) for p in proofs], expect="ok", label="proof-json-roundtrip")
            for p, r in zip(proofs, jres):
                if r.status == "OK" and (r.toks[0] == "MISMATCH" or r.b(0) != p["proof"]):
                    fail(S, "proof-json-roundtrip", "the JSON round trip changed the proof", [p["proof"].hex()])
        return stats

# ====================================================================================== C04
def build_forgeries(suite, pk, header, ph, msgs_claimed, D, U, rng, P):
    """Degenerate-element forgery families built WITHOUT a signature (Python + primitive server)."""
    api = pyc.API[suite]
    L = U + len(D)
    # generators and message scalars through the hash definitions
    gens = create_gens(suite, L + 1, api, P)
    Q1, H = gens[0], gens[1:]
    p1 = bytes.fromhex({"sha": "a8ce256102840821a3e94ea9025e4662b205762f9776b3a766c872b948f1fd225e7c59698588e70d11406d161b4e28c9",
                        "shake": "8929dfbc7e6642c4ed9cba0856e493f8b9d7d5fcb0c31ef8fdcd34d50648a56c795e106e9eada6e0bda386b414150755"}[suite])
    h = norm(header)
    dom_in = pk + pyc.i8(L) + Q1 + b"".join(H) + api + pyc.i8(len(h)) + h
    dom = pyc.h2s(suite, dom_in, api + b"H2S_")
    ms = [pyc.h2s(suite, m, api + b"MAP_MSG_TO_SCALAR_AS_HASH_") for m in msgs_claimed]
    Bv = P.add(p1, P.mul(dom, Q1))
    for i, m in zip(D, ms): Bv = P.add(Bv, P.mul(m, H[i]))
    und = [i for i in range(L) if i not in D]
    out = []
    O = pyc.G1_ID
    cands = {"O": O, "Bv": Bv, "P1": p1, "Q1": Q1, "-Bv": P.neg(Bv)}
    fams = [("O", "O", "Bv"), ("O", "O", "O"), ("O", "O", "P1"), ("O", "O", "-Bv"), ("O", "Bv", "Bv"), ("Bv", "O", "Bv"),
            ("P1", "O", "Bv"), ("Bv", "Bv", "O"), ("O", "O", "Q1"), ("Q1", "O", "O"), ("O", "P1", "Bv")]
    for (a, b, d) in fams:
        Abar, Bbar, Dp = cands[a], cands[b], cands[d]
        e_c, r1_c = rng.randrange(pyc.R), rng.randrange(pyc.R)
        m_c = [rng.randrange(pyc.R) for _ in und]
        # responses solving T2 when D = +-Bv : T2 = Bv*c + D*r3 + sum H m^ ; choose r3 = -c (D=Bv) or +c (D=-Bv) so that T2 is c-free
        def T12(c, r3):
            T1 = P.add(P.add(P.mul(c, Bbar), P.mul(e_c, Abar)), P.mul(r1_c, Dp))
            T2 = P.add(P.mul(c, Bv), P.mul(r3, Dp))
            for j, mc in zip(und, m_c): T2 = P.add(T2, P.mul(mc, H[j]))
            return T1, T2
        if d in ("Bv", "-Bv") and b == "O":
            T1, T2 = T12(0, 0)    # c-independent
            carr = pyc.i8(len(D)) + b"".join(pyc.i8(i) + pyc.sc(m) for i, m in zip(D, ms)) + Abar + Bbar + Dp + T1 + T2 + pyc.sc(dom) + pyc.i8(len(norm(ph))) + norm(ph)
            c = pyc.h2s(suite, carr, api + b"H2S_")
            r3 = (-c) % pyc.R if d == "Bv" else c
        else:
            c = rng.randrange(pyc.R); r3 = rng.randrange(pyc.R)
            # fixed-point attempt: compute T with guessed c, then recompute c (will not match unless degenerate)
            T1, T2 = T12(c, r3)
            carr = pyc.i8(len(D)) + b"".join(pyc.i8(i) + pyc.sc(m) for i, m in zip(D, ms)) + Abar + Bbar + Dp + T1 + T2 + pyc.sc(dom) + pyc.i8(len(norm(ph))) + norm(ph)
            c2 = pyc.h2s(suite, carr, api + b"H2S_")
            if a == "O" and b == "O":
                c = c2 if d == "O" else c   # with D=O: T1=O, T2 = Bv*c + .. depends on c
        proof = Abar + Bbar + Dp + pyc.sc(e_c) + pyc.sc(r1_c) + pyc.sc(r3) + b"".join(pyc.sc(x) for x in m_c) + pyc.sc(c)
        out.append(("%s/%s/%s" % (a, b, d), proof))
    # points outside the prime-order subgroup that cancel: Abar = T, Bbar = -T, D = Bv, e^ = c, r3^ = -c.  Then
    # T1 = Bbar*c + Abar*e^ + D*r1^ = D*r1^ and T2 = sum H_j m^_j do not depend on c (no arithmetic on T needed).
    for k, (T, Tn) in enumerate(pyc.g1_torsion_pairs(rng, 2)):
        r1_c = rng.randrange(pyc.R); m_c = [rng.randrange(pyc.R) for _ in und]
        T1 = P.mul(r1_c, Bv); T2 = O
        for j, mc in zip(und, m_c): T2 = P.add(T2, P.mul(mc, H[j]))
        carr = pyc.i8(len(D)) + b"".join(pyc.i8(i) + pyc.sc(m) for i, m in zip(D, ms)) + T + Tn + Bv + T1 + T2 + pyc.sc(dom) + pyc.i8(len(norm(ph))) + norm(ph)
        c = pyc.h2s(suite, carr, api + b"H2S_")
        proof = T + Tn + Bv + pyc.sc(c) + pyc.sc(r1_c) + pyc.sc(-c) + b"".join(pyc.sc(x) for x in m_c) + pyc.sc(c)
        out.append(("torsion-cancel-%d" % k, proof))
    return out

def create_gens(suite, count, api, P):
    f = pyc.expand_xmd if suite == "sha" else pyc.expand_xof
    seed_dst = api + b"SIG_GENERATOR_SEED_"; gen_dst = api + b"SIG_GENERATOR_DST_"
    v = f(api + b"MESSAGE_GENERATOR_SEED", seed_dst, 48)
    out = []
    for i in range(1, count + 1):
        v = f(v + pyc.i8(i), seed_dst, 48)
        out.append(bytes.fromhex(P.call("h2c %s %s %s" % (suite, v.hex(), gen_dst.hex()))))
    return out

class C04:
    LEVEL = "proof"
    RULE = ("honest proofs (both suites, several L and disclosure sets) then single edits of the statement (disclosed message byte, moved index, "
            "dropped/added disclosed message, header, ph, pk), ALL single-bit flips of every proof octet, truncations/extensions by whole scalars; "
            "plus degenerate-element forgeries built WITHOUT a signature for random keys (Abar/Bbar/D in {identity, Bv, P1, Q1, -Bv}, responses "
            "chosen so that T1/T2 do not depend on the challenge); every instance must be Err on implementation and model alike")
    @staticmethod
    def generate(S, tier):
        rng = S.rng
        Ls = [1, 3, 5] if tier == "quick" else [1, 2, 3, 5, 8, 10, 17]
        nflip = 1 if tier == "quick" else 5
        stats = {"mutations": {}, "forgeries": 0, "bitflip_proofs": 0}
        def cnt(k, n=1): stats["mutations"][k] = stats["mutations"].get(k, 0) + n
        P = pyc.Prims()
        for suite in SUITES:
            other = "shake" if suite == "sha" else "sha"
            keys = make_keys(S, suite, 3)
            flows = honest_sigs(S, suite, keys, [(L, "rand") for L in Ls for _ in range(2)])
            fi = []
            for f in flows:
                L = len(f["msgs"])
                for _ in range(2):
                    D = sorted(rng.sample(range(L), rng.randrange(L + 1)))
                    fi.append((f, D, rng.choice([None, b"", rb(rng, 12)])))
                fi.append((f, list(range(L)), rb(rng, 5)))
            proofs = honest_proofs(S, fi)
            lines = []; labels = []
            def add(line, lab): lines.append(line); labels.append(lab); cnt(lab)
            for p in proofs:
                D = p["D"]; L = len(p["msgs"]); dm = pick(p["msgs"], D)
                if D:
                    k = rng.randrange(len(D)); m = bytearray(dm[k])
                    if m:
                        m[rng.randrange(len(m))] ^= 1 << rng.randrange(8)
                    else:
                        m = bytearray(b"\0")
                    add(pv_line(p, dmsgs=dm[:k] + [bytes(m)] + dm[k+1:]), "disclosed-msg")
                    und = [i for i in range(L) if i not in D]
                    if und:
                        D2 = sorted(D[:k] + [und[rng.randrange(len(und))]] + D[k+1:])
                        # same messages claimed at other positions
                        add(pv_line(p, D=D2, dmsgs=dm), "moved-index")
                    add(pv_line(p, D=D[:-1], dmsgs=dm[:-1]), "dropped-disclosed")
                    # a REPEATED disclosed index carrying one more (unsigned) message: at the end, in the middle, and a second
                    # claim for the first position (the index list is de-duplicated by the verifier, the message list is not)
                    forged = b"role: admin" + rb(rng, 3)
                    add(pv_line(p, D=D + [D[-1]], dmsgs=dm + [forged]), "repeated-index-extra-message")
                    add(pv_line(p, D=D + [D[0]], dmsgs=dm + [forged]), "repeated-index-extra-message")
                    add(pv_line(p, D=[D[0]] + D, dmsgs=[forged] + dm), "repeated-index-extra-message")
                    add(pv_line(p, D=D + [D[-1]], dmsgs=dm + [dm[-1]]), "repeated-index-repeated-message")
                    if len(D) >= 2 and dm[0] != dm[1]:
                        add(pv_line(p, dmsgs=[dm[1], dm[0]] + dm[2:]), "swapped-disclosed")
                    # the index list given in ANOTHER order (rotations, a 3-cycle needs three) with the messages rotated too: the
                    # messages are read in ascending-position order, so every rotation of them is a false statement
                    if len(D) >= 3 and len(set(dm)) == len(dm):
                        for r_ in range(1, min(len(D), 4)):
                            Dr = D[r_:] + D[:r_]
                            for s_ in range(1, min(len(D), 4)):
                                add(pv_line(p, D=Dr, dmsgs=dm[s_:] + dm[:s_]), "rotated-indexes-and-messages")
                und = [i for i in range(L) if i not in D]
                if und:
                    j = und[0]; D2 = sorted(D + [j])
                    add(pv_line(p, D=D2, dmsgs=pick(p["msgs"], D2)), "extra-disclosed")   # U no longer matches
                for h2 in header_mutations(rng, p["header"])[:2]:
                    add(pv_line(p, header=h2), "header")
                for ph2 in header_mutations(rng, p["ph"])[:2]:
                    add(pv_line(p, ph=ph2), "ph")
                # the presentation header replaced by the HEADER (and an absent one by the header): another statement
                if p["header"] and p["ph"] != p["header"]: add(pv_line(p, ph=p["header"]), "ph-is-header")
                for sk2, pk2 in keys:
                    if pk2 != p["pk"]: add(pv_line(p, pk=pk2), "pk")
                add(pv_line(p, suite=other), "cross-suite")
                # whole-scalar truncation / extension (changes U)
                pr = p["proof"]
                add(pv_line(p, proof=pr[:-32]), "truncate-scalar")
                add(pv_line(p, proof=pr + pyc.sc(rng.randrange(pyc.R))), "extend-scalar")
                add(pv_line(p, proof=pr[:240] + pyc.sc(rng.randrange(pyc.R)) + pr[240:]), "insert-scalar")
                # 32-octet blocks that are NOT canonical scalars (r, r + 1, ff..ff) inserted at 32-aligned offsets from the first response scalar to the end
                for blk in (pyc.R.to_bytes(32, "big"), (pyc.R + 1).to_bytes(32, "big"), b"\xff" * 32):
                    for off in sorted({144, 240, len(pr) - 32, len(pr)}):
                        add(pv_line(p, proof=pr[:off] + blk + pr[off:]), "insert-noncanonical-block")
                # shifting L by an index beyond range
                add(pv_line(p, D=D + [L + 5], dmsgs=dm + [b""]), "index-out-of-range")
                # exactly ONE of the two lists supplied (the other absent): a claimed message without a position, a position without a message
                forged1 = b"role: admin" + rb(rng, 2)
                und1 = [i for i in range(L) if i not in D]
                for dm1, D1 in [(dm + [forged1], None), ([forged1], None), (None, (D + und1[:1]) or [0]), (None, [0])]:
                    add("proofverify %s %s %s %s %s %s %s" % (p["suite"], tb(p["pk"]), tb(p["proof"]), tol(dm1), toi(D1), tob(p["header"]), tob(p["ph"])), "one-list-absent")
            # every FIELD of a proof replaced by the same field of a second proof for the same statement (fresh randomness):
            # the challenge ties all of them together, no recombination of two honest proofs may verify
            tp = proofs[: (4 if tier == "quick" else 24)]
            second = honest_proofs(S, [(p, p["idx"], p["ph"]) for p in tp], label="triv:proofgen-second")
            for p, p2 in zip(tp, second):
                a, b = p["proof"], p2["proof"]
                if len(a) != len(b) or a == b: continue
                cuts = [0, 48, 96, 144] + list(range(176, len(a) + 1, 32))
                for lo, hi in zip(cuts, cuts[1:]):
                    add(pv_line(p, proof=a[:lo] + b[lo:hi] + a[hi:]), "field-transplant")
                add(pv_line(p, proof=a[:144] + b[144:]), "field-transplant")           # all responses and the challenge
                add(pv_line(p, proof=b[:144] + a[144:]), "field-transplant")           # all three points
            for p in rng.sample(proofs, min(nflip, len(proofs))):
                stats["bitflip_proofs"] += 1
                pr = p["proof"]
                for bit in range(len(pr) * 8):
                    q = bytearray(pr); q[bit // 8] ^= 1 << (bit % 8)
                    add(pv_line(p, proof=bytes(q)), "bitflip")
            S.run(lines, expect="err", label=labels)
            # forgeries without a signature
            flines = []; flabels = []
            for trial in range(2 if tier == "quick" else 6):
                sk, pk = keys[rng.randrange(len(keys))]
                if trial % 2 == 1:
                    pk = P.g2mulgen(rng.randrange(1, pyc.R))       # a key nobody holds the secret of
                L = rng.choice([1, 2, 4]); U = rng.randrange(0, L + 1)
                D = sorted(rng.sample(range(L), L - U))
                claimed = [rb(rng, rng.choice([0, 5, 32])) for _ in D]
                header = rand_header(rng); ph = rng.choice([None, b"", rb(rng, 9)])
                for name, proof in build_forgeries(suite, pk, header, ph, claimed, D, U, rng, P):
                    flines.append("proofverify %s %s %s %s %s %s %s" % (suite, tb(pk), tb(proof), tl(claimed), ti(D), tob(header), tob(ph)))
                    flabels.append("F1:degenerate-forgery|" + name); stats["forgeries"] += 1
            S.run(flines, expect="err", label=flabels)
            # the same families under the IDENTITY public key, handed to proof_verify as a raw point (a key decoder would refuse
            # it; the verifier's own checks must): e(Abar, O) e(O, -BP2) = 1 holds trivially, so only the Bbar check stands
            rl = []; rlab = []
            for trial in range(2):
                L = rng.choice([1, 3]); U = rng.randrange(0, L + 1)
                D = sorted(rng.sample(range(L), L - U)); claimed = [rb(rng, 4) for _ in D]
                header = rand_header(rng); ph = rng.choice([None, rb(rng, 9)])
                for name, proof in build_forgeries(suite, pyc.G2_ID, header, ph, claimed, D, U, rng, P):
                    rl.append("proofverifyraw %s %s %s %s %s %s %s" % (suite, tb(pyc.G2_ID), tb(proof), tl(claimed), ti(D), tob(header), tob(ph)))
                    rlab.append("F1:degenerate-forgery-identity-pk|" + name); stats["forgeries"] += 1
            S.run(rl, expect="err", label=rlab)
        P.close()
        return stats

# ====================================================================================== C05 / C06 helpers
def blind_flows(S, suite, keys, shapes, label="triv:blind"):
    """shapes: list of (L, M or None(no commitment), header).  Runs commit + blindsign.  Returns dicts."""
    rng = S.rng; fl = []
    for L, M, header in shapes:
        sk, pk = keys[rng.randrange(len(keys))]
        h = rand_header(rng) if header == "rand" else header
        if header == "same":    # one key and one header for a family of shapes: only (L, M) differs between these issuances
            sk, pk = keys[0]; h = b"same-header"
        if M == "absent":       # a commitment made with the committed-message list ABSENT (not empty): same as the empty list everywhere
            fl.append({"suite": suite, "sk": sk, "pk": pk, "header": h, "msgs": rand_msgs(rng, L), "cm": [], "commit_absent": True})
            continue
        fl.append({"suite": suite, "sk": sk, "pk": pk, "header": h, "msgs": rand_msgs(rng, L), "cm": (None if M is None else rand_msgs(rng, M))})
    cl = [f for f in fl if f["cm"] is not None]
    res = S.run(["commit %s %s" % (suite, "N" if f.get("commit_absent") else tl(f["cm"])) for f in cl], expect="ok", label=label + ":commit")
    for f, r in zip(cl, res):
        if r.status == "OK":
            f["cwp"] = r.b(0); f["blind"] = r.b(1)
    fl = [f for f in fl if f["cm"] is None or "cwp" in f]
    res = S.run(["blindsign %s %s %s %s %s %s" % (suite, tb(f["sk"]), tb(f["pk"]), tob(f.get("cwp")), tob(f["header"]), tl(f["msgs"])) for f in fl],
                expect="ok", label=label + ":blindsign")
    out = []
    for f, r in zip(fl, res):
        if r.status == "OK":
            f["sig"] = r.b(0); out.append(f)
    return out

def bv_line(f, **kw):
    q = dict(f); q.update(kw)
    return "blindverify %s %s %s %s %s %s %s" % (q["suite"], tb(q["pk"]), tb(q["sig"]), tob(q["header"]), tl(q["msgs"]), tol(q["cm"]), tob(q.get("blind")))

def bpg_line(f, D, Dc, ph):
    return "blindproofgen %s %s %s %s %s %s %s %s %s %s" % (f["suite"], tb(f["pk"]), tb(f["sig"]), tob(f["header"]), tob(ph), tl(f["msgs"]),
                                                           tol(f["cm"]), ti(D), ti(Dc), tob(f.get("blind")))

def bpv_line(p, **kw):
    q = dict(p); q.update(kw)
    cm = q["cm"] or []
    dm = q["dmsgs"] if "dmsgs" in q else pick(q["msgs"], q["D"])
    dcm = q["dcmsgs"] if "dcmsgs" in q else pick(cm, q["Dc"])
    Lv = q["Lv"] if "Lv" in q else len(q["msgs"])
    return "blindproofverify %s %s %s %s %s %s %s %s %s %s" % (q["suite"], tb(q["pk"]), tb(q["proof"]), tob(q["header"]), tob(q["ph"]), tou(Lv),
                                                               tl(dm), tl(dcm), ti(q["D"]), ti(q["Dc"]))

def blind_proofs(S, triples, label="triv:blindproofgen"):
    res = S.run([bpg_line(f, D, Dc, ph) for f, D, Dc, ph in triples], expect="ok", label=label)
    out = []
    for (f, D, Dc, ph), r in zip(triples, res):
        if r.status == "OK":
            d = dict(f); d.update({"D": sorted_dedup(D), "Dc": sorted_dedup(Dc), "ph": ph, "proof": r.b(0)}); out.append(d)
    return out

class C05:
    LEVEL = "proof"
    RULE = ("blind flows on both suites: commit (production RNG, draws replayed into the model) for M committed messages incl. M=0 and no commitment, "
            "blind_sign over the serialized commitment, verify_blind_sign with the returned blinding factor; then blind_proof_gen / blind_proof_verify for "
            "ALL 2^L x 2^M disclosure pairs for small (L,M) and samples for larger shapes; everything must be Ok and byte-identical between model and implementation")
    @staticmethod
    def generate(S, tier):
        rng = S.rng
        small = 2 if tier == "quick" else 3
        shapes = [(L, M, "rand") for L in range(small + 1) for M in range(small + 1)]
        shapes += [(0, None, "rand"), (2, None, None), (5, None, b""), (2, "absent", "rand"), (0, "absent", None)]
        # signer-message counts on both sides of 16 and 32 (a multi-scalar fast path switched on by the count would sit there)
        shapes += [(5, 4, "rand"), (10, 1, "rand"), (1, 10, "rand"), (15, 1, "rand"), (16, 1, "rand"), (17, None, "rand"), (33, 0, "rand"), (60, 5, "rand")] + ([(17, 17, "rand"), (31, 2, "rand"), (32, 2, "rand"), (33, 8, "rand"), (64, 64, "rand"), (65, 1, "rand"), (129, 3, "rand")] if tier != "quick" else [])
        # issuances that differ ONLY in the split of the same total L + M (one key, one header): anything the signer keeps between
        # calls and keys by (key, header, total count) shows up here, in the first run or in the single-thread history pass
        shapes += [(2, 1, "same"), (1, 2, "same"), (0, 3, "same"), (3, 0, "same"), (3, None, "same"), (0, 1, "same"), (1, 0, "same"), (1, None, "same")]
        stats = {"shapes": len(shapes), "pairs": 0}
        for suite in SUITES:
            keys = make_keys(S, suite, 3)
            flows = blind_flows(S, suite, keys, shapes, label="blind")
            S.run([bv_line(f) for f in flows], expect="ok", label="verify_blind_sign(blind_sign)")
            # a commitment to ZERO messages still carries the blinding factor: the committed list given as ABSENT (with the blind)
            # and the signer messages given as absent when there are none must verify exactly like the empty lists
            ab0 = [bv_line(f, cm=None) for f in flows if f["cm"] == [] and f.get("blind")]
            ab0 += ["blindverify %s %s %s %s N %s %s" % (f["suite"], tb(f["pk"]), tb(f["sig"]), tob(f["header"]), tol(f["cm"]), tob(f.get("blind"))) for f in flows if not f["msgs"]]
            if ab0: S.run(ab0, expect="ok", label="verify_blind_sign(absent lists)")
            tr = []
            for f in flows:
                L = len(f["msgs"]); M = len(f["cm"] or [])
                if L <= small and M <= small:
                    pairs = [(D, Dc) for D in all_subsets(L) for Dc in all_subsets(M)]
                else:
                    pairs = [([], []), (list(range(L)), list(range(M)))] + [
                        (sorted(rng.sample(range(L), rng.randrange(L + 1))), sorted(rng.sample(range(M), rng.randrange(M + 1)))) for _ in range(3)]
                for D, Dc in pairs:
                    tr.append((f, D, Dc, rng.choice([None, b"", rb(rng, 7)])))
            stats["pairs"] += len(tr)
            proofs = blind_proofs(S, tr, label="blindproofgen")
            S.run([bpv_line(p) for p in proofs], expect="ok", label="blind_proof_verify(blind_proof_gen)")
            # absent arguments mean their defaults: L absent = 0, absent disclosed lists = empty lists
            ab = []
            for p in proofs:
                if len(p["msgs"]) == 0 and not p["D"] and not p["Dc"]:
                    ab.append("blindproofverify %s %s %s %s %s N N N N N" % (p["suite"], tb(p["pk"]), tb(p["proof"]), tob(p["header"]), tob(p["ph"])))
                elif len(p["msgs"]) == 0 and not p["D"]:
                    ab.append("blindproofverify %s %s %s %s %s N N %s N %s" % (p["suite"], tb(p["pk"]), tb(p["proof"]), tob(p["header"]), tob(p["ph"]), tl(pick(p["cm"] or [], p["Dc"])), ti(p["Dc"])))
            if ab: S.run(ab, expect="ok", label="blind_proof_verify(absent arguments)")
            for p in proofs:
                U = len(p["msgs"]) - len(p["D"]) + 1 + len(p["cm"] or []) - len(p["Dc"])
                if len(p["proof"]) != 272 + 32 * U:
                    fail(S, "blind-proof-length", "len=%d U=%d" % (len(p["proof"]), U), [p["proof"].hex()])
        return stats

class C06:
    LEVEL = "proof"
    RULE = ("honest blind runs then: ALL single-bit flips of every commitment-with-proof octet, cross-suite replay, truncation/extension by whole scalars and by "
            "bytes, proofs for other committed messages => blind_sign must be Err; single edits of (committed msgs, signer msgs, blinding factor, header, pk) => "
            "verify_blind_sign Err; single edits of (disclosed data, L, ph, header, pk, proof bits) => blind_proof_verify Err; model and implementation must agree")
    @staticmethod
    def generate(S, tier):
        rng = S.rng
        stats = {"mutations": {}}
        def cnt(k, n=1): stats["mutations"][k] = stats["mutations"].get(k, 0) + n
        shapes = [(2, 2, "rand"), (0, 1, "rand"), (3, 0, "rand"), (1, 3, "rand")] + ([(5, 5, "rand"), (0, 0, None), (8, 2, "rand")] if tier != "quick" else [])
        for suite in SUITES:
            other = "shake" if suite == "sha" else "sha"
            keys = make_keys(S, suite, 3)
            flows = blind_flows(S, suite, keys, shapes)
            lines = []; labels = []
            def add(line, lab): lines.append(line); labels.append(lab); cnt(lab)
            def bs(f, cwp, suite_=None): return "blindsign %s %s %s %s %s %s" % (suite_ or f["suite"], tb(f["sk"]), tb(f["pk"]), tob(cwp), tob(f["header"]), tl(f["msgs"]))
            for k, f in enumerate(flows):
                cwp = f["cwp"]
                if k < (2 if tier == "quick" else 4):
                    for bit in range(len(cwp) * 8):
                        q = bytearray(cwp); q[bit // 8] ^= 1 << (bit % 8)
                        add(bs(f, bytes(q)), "commit-bitflip")
                add(bs(f, cwp, other), "commit-cross-suite")
                add(bs(f, cwp[:-32]), "commit-truncate-scalar")
                add(bs(f, cwp + pyc.sc(rng.randrange(pyc.R))), "commit-extend-scalar")
                add(bs(f, cwp[:80] + pyc.sc(rng.randrange(pyc.R)) + cwp[80:]), "commit-insert-scalar")
                # ZERO scalars (and the scalar 1) inserted at every scalar boundary, once and twice: a verifier that skips "neutral" responses
                # must not thereby forget how many responses the proof carries
                for cut in range(48, len(cwp) + 1, 32):
                    for z in (bytes(32), bytes(64), pyc.sc(1)):
                        add(bs(f, cwp[:cut] + z + cwp[cut:]), "commit-insert-neutral-scalar")
                # a response REPLACED by zero
                for cut in range(48, len(cwp) - 32, 32):
                    add(bs(f, cwp[:cut] + bytes(32) + cwp[cut + 32:]), "commit-zero-response")
                for n in (1, 7, 31): add(bs(f, cwp + bytes(n)), "commit-trailing-bytes")
                for n in (1, 31, 33): add(bs(f, cwp[:-n]), "commit-truncate-bytes")
                # every field of the commitment-with-proof replaced by the same field of a SECOND commitment to the same messages
                if f["cm"] is not None and not f.get("_second_done"):
                    r2 = S.run(["commit %s %s" % (f["suite"], tl(f["cm"]))], expect="ok", label="triv:commit-second")[0]
                    if r2.status == "OK" and len(r2.b(0)) == len(cwp):
                        b2_ = r2.b(0); cuts = [0, 48] + list(range(80, len(cwp) + 1, 32))
                        for lo, hi in zip(cuts, cuts[1:]):
                            if cwp[lo:hi] != b2_[lo:hi]: add(bs(f, cwp[:lo] + b2_[lo:hi] + cwp[hi:]), "commit-field-transplant")
                # SPECIAL group elements in the place of the commitment point -- the identity ("no commitment"), P1, the negated point --
                # with the honest proof scalars, and the identity followed by any 2 + k canonical scalars: nothing of this carries a valid proof
                add(bs(f, pyc.G1_ID + cwp[48:]), "commit-identity-point")
                add(bs(f, pyc.G1_ID + cwp[48:-32]), "commit-identity-point")
                for k_ in range(0, 4):
                    add(bs(f, pyc.G1_ID + b"".join(pyc.sc(1 + rng.randrange(pyc.R - 1)) for _ in range(2 + k_))), "commit-identity-point-any-scalars")
                add(bs(f, pyc.G1_ID + bytes(31) + b"\1" + bytes(31) + b"\1"), "commit-identity-point-any-scalars")
                if k == 0:
                    PP_ = pyc.Prims()
                    add(bs(f, PP_.neg(cwp[:48]) + cwp[48:]), "commit-negated-point")
                    g_ = S.run(["gens %s 2 S%s" % (f["suite"], pyc.API_BLIND[f["suite"]].hex())], expect="ok", label="triv:gens")[0]
                    if g_.status == "OK":
                        add(bs(f, g_.b(0) + cwp[48:]), "commit-P1-point"); add(bs(f, g_.b(1)[:48] + cwp[48:]), "commit-Q1-point")
                # proof made for other committed messages, transplanted onto this commitment point
                o = [g for g in flows if g is not f and len(g["cm"]) == len(f["cm"])]
                for g in o[:1]:
                    add(bs(f, f["cwp"][:48] + g["cwp"][48:]), "commit-proof-for-other-messages")
                # verify_blind_sign edits
                for kind, m2 in msg_mutations(rng, f["cm"])[:4]: add(bv_line(f, cm=m2), "bv:committed-" + kind)
                for kind, m2 in msg_mutations(rng, f["msgs"])[:4]: add(bv_line(f, msgs=m2), "bv:signer-" + kind)
                b2 = pyc.sc((int.from_bytes(f["blind"], "big") + 1) % pyc.R)
                add(bv_line(f, blind=b2), "bv:blind"); add(bv_line(f, blind=None), "bv:blind-absent")
                # the same factor as a NON-CANONICAL octet string (value + r, when it fits 32 octets) is not the factor
                bi_ = int.from_bytes(f["blind"], "big")
                for k_ in (1, 2):
                    if bi_ + k_ * pyc.R < 2 ** 256: add(bv_line(f, blind=(bi_ + k_ * pyc.R).to_bytes(32, "big")), "bv:blind-plus-r")
                for h2 in header_mutations(rng, f["header"])[:2]: add(bv_line(f, header=h2), "bv:header")
                for sk2, pk2 in keys:
                    if pk2 != f["pk"]: add(bv_line(f, pk=pk2), "bv:pk")
                add(bv_line(f, suite=other), "bv:cross-suite")
                if f["msgs"] and f["cm"]:
                    add(bv_line(f, msgs=f["msgs"] + f["cm"][:1], cm=f["cm"][1:]), "bv:moved-boundary")
                # committed messages claimed WITHOUT the blinding factor (absent blind): never the committed ones' signature
                if f["cm"]:
                    add(bv_line(f, blind=None, cm=[]), "bv:blind-absent-no-committed"); add(bv_line(f, blind=None, cm=None), "bv:blind-absent-no-committed")
            # signatures issued WITHOUT a commitment: they verify with nothing committed and no blind, never with a committed list
            for f0 in blind_flows(S, suite, keys, [(2, None, "rand"), (0, None, None)], label="triv:blind-no-commitment"):
                for cm_ in ([b"never committed"], [b"", b"x"], [b""]):
                    for bl_ in (None, bytes(31) + b"\1"):
                        add(bv_line(f0, cm=cm_, blind=bl_), "bv:no-commitment-signature-with-committed-list")
                # ... nor with a blinding-factor string that is zero modulo r (r itself, 2r): only the canonical strings are factors
                for bl_ in (pyc.R.to_bytes(32, "big"), (2 * pyc.R).to_bytes(32, "big"), b"\xff" * 32):
                    add(bv_line(f0, cm=[], blind=bl_), "bv:no-commitment-signature-with-noncanonical-blind")
            S.run(lines, expect="err", label=labels)
            # blind proofs
            tr = []
            for f in flows:
                L = len(f["msgs"]); M = len(f["cm"])
                tr.append((f, sorted(rng.sample(range(L), rng.randrange(L + 1))), sorted(rng.sample(range(M), rng.randrange(M + 1))), rng.choice([None, rb(rng, 6)])))
                tr.append((f, list(range(L)), list(range(M)), b"x"))
            proofs = blind_proofs(S, tr)
            lines = []; labels = []
            for k, p in enumerate(proofs):
                L = len(p["msgs"]); M = len(p["cm"]); D = p["D"]; Dc = p["Dc"]
                dm = pick(p["msgs"], D); dcm = pick(p["cm"], Dc)
                if D:
                    add(bpv_line(p, dmsgs=[dm[0] + b"\1"] + dm[1:]), "bpv:disclosed-msg")
                    add(bpv_line(p, D=D[1:], dmsgs=dm[1:]), "bpv:dropped-disclosed")
                    # a repeated disclosed index carrying one more, never-signed message (after, and in front of, the genuine one)
                    forged = b"role: admin" + rb(rng, 2)
                    add(bpv_line(p, D=D + [D[-1]], dmsgs=dm + [forged]), "bpv:repeated-index-extra-message")
                    add(bpv_line(p, D=D + [D[0]], dmsgs=dm + [forged]), "bpv:repeated-index-extra-message")
                    add(bpv_line(p, D=[D[0]] + D, dmsgs=[forged] + dm), "bpv:repeated-index-extra-message")
                if Dc:
                    add(bpv_line(p, dcmsgs=[dcm[0] + b"\1"] + dcm[1:]), "bpv:disclosed-committed-msg")
                    add(bpv_line(p, Dc=Dc[1:], dcmsgs=dcm[1:]), "bpv:dropped-committed")
                    forged = b"never committed" + rb(rng, 2)
                    add(bpv_line(p, Dc=Dc + [Dc[-1]], dcmsgs=dcm + [forged]), "bpv:repeated-committed-index-extra-message")
                    add(bpv_line(p, Dc=[Dc[0]] + Dc, dcmsgs=[forged] + dcm), "bpv:repeated-committed-index-extra-message")
                for dl in (1, -1, 2, 1000, 2**63, 2**64 - 1 - L):
                    if L + dl >= 0: add(bpv_line(p, Lv=L + dl), "bpv:L")
                if L > 0: add(bpv_line(p, Lv=None), "bpv:L-absent")
                for ph2 in header_mutations(rng, p["ph"])[:2]: add(bpv_line(p, ph=ph2), "bpv:ph")
                for h2 in header_mutations(rng, p["header"])[:2]: add(bpv_line(p, header=h2), "bpv:header")
                for sk2, pk2 in keys:
                    if pk2 != p["pk"]: add(bpv_line(p, pk=pk2), "bpv:pk")
                add(bpv_line(p, suite=other), "bpv:cross-suite")
                # through the plain interface
                add("proofverify %s %s %s %s %s %s %s" % (p["suite"], tb(p["pk"]), tb(p["proof"]), tl(dm + dcm), ti(D + [j + L + 1 for j in Dc]), tob(p["header"]), tob(p["ph"])), "bpv:plain-interface")
                pr = p["proof"]
                add(bpv_line(p, proof=pr[:-32]), "bpv:truncate-scalar"); add(bpv_line(p, proof=pr + pyc.sc(5)), "bpv:extend-scalar")
                if k < (1 if tier == "quick" else 3):
                    for bit in range(len(pr) * 8):
                        q = bytearray(pr); q[bit // 8] ^= 1 << (bit % 8)
                        add(bpv_line(p, proof=bytes(q)), "bpv:bitflip")
            S.run(lines, expect="err", label=labels)
        return stats

from .props2 import C07, C08, C09, C10, C11, C12   # noqa: E402

PROPS = {"C01": C01, "C02": C02, "C03": C03, "C04": C04, "C05": C05, "C06": C06,
         "C07": C07, "C08": C08, "C09": C09, "C10": C10, "C11": C11, "C12": C12}

def replay(pid, path):
    """Re-run the cases stored in a replay file against the current implementation and model."""
    obj = json.load(open(path))
    S = C.Session(pid, 0)
    C.build_harness(); C.build_model()
    lines = [f["case"] for f in obj.get("failures", []) + obj.get("correspondence_disagreements", []) if " ;; " not in f["case"]]
    res = S.run(lines)
    mod = S.run_model()
    for l, r, m in zip(lines, res, mod):
        print("case:", l[:300]); print("  impl :", r.raw[:300]); print("  model:", m.raw[:300] if m else None)
    return 0
