"""Generators / sweeps for C14..C19 (CL03 blind issuance, proofs of knowledge, range proofs, keys)."""
class _Todo:
    LEVEL = "proof"; CL03 = True; RULE = "under construction"
    @staticmethod
    def generate(S, tier): return {}
C14 = C15 = C16 = C17 = C18 = C19 = _Todo
