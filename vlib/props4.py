"""Generators / sweeps for C14..C19 (CL03 blind issuance, proofs of knowledge, range proofs, keys, masking)."""
import os, json, itertools, math, hashlib
from . import common as C
from . import clj
from .clj import zl, oz, il, oil

def _p():
    from . import props
    return props
def _q():
    from . import props3
    return props3

def parse_draws(r):
    out = []
    if r.draws:
        for d in r.draws[2:].split(","):
            k, _, v = d.partition("=")
            name, _, params = k.partition("(")
            out.append((name, [int(x) for x in params.rstrip(")").split(";")] if params else [], int(v)))
    return out

def sha_int(s): return int.from_bytes(hashlib.sha256(s.encode()).digest(), "big")

def complement(n, U): return [i for i in range(n) if i not in U]

# ---------------------------------------------------------------------------------------------- flows
def issue(S, x, msgs, U, trusted, label="triv:issue"):
    """commitment to the hidden attributes, optional trusted-party commitment, ZKPoK.  Returns a dict or None."""
    f = {"msgs": msgs, "U": U, "trusted": trusted}
    r = S.run(["clcommit %s %s %s %s %s" % (x.suite, zl(x.pk), zl(x.bases), zl(msgs), il(U))], expect="ok", label=label)[0]
    if r.status != "OK": return None
    f["C"] = [r.z(0), r.z(1)]
    f["Ct"] = None
    if trusted:
        r = S.run(["clcommitcpk %s %s %s %s" % (x.suite, zl(x.cpk), zl(msgs), il(U))], expect="ok", label=label)[0]
        if r.status != "OK": return None
        f["Ct"] = [r.z(0), r.z(1)]
    r = S.run([zkgen_line(x, f)], expect="ok", label=label.replace("triv:", "") + ":zkgen")[0]
    if r.status != "OK": return None
    f["zk"] = r.json(0); f["zk_draws"] = parse_draws(r)
    return f

def zkgen_line(x, f):
    return "clzkgen %s %s %s %s %s %s %s %s" % (x.suite, zl(f["msgs"]), zl(f["C"]), oz(f["Ct"]), zl(x.pk), zl(x.bases),
                                              oz(x.cpk if f["Ct"] else None), il(f["U"]))
def zkver_line(x, f, zk=None, C_=None, Ct="same", pk=None, bases=None, cpk="same", U=None):
    Ct = f["Ct"] if Ct == "same" else Ct
    cpk = (x.cpk if f["Ct"] else None) if cpk == "same" else cpk
    return "clzkver %s %s %s %s %s %s %s %s" % (x.suite, clj.tok(zk or f["zk"]), zl(C_ or f["C"]), oz(Ct), zl(pk or x.pk),
                                              zl(bases or x.bases), oz(cpk), il(f["U"] if U is None else U))
def blindsign_line(x, f, zk=None, C_=None, Ct="same", pk=None, bases=None, U=None, revealed="same", ridx="same"):
    n = len(f["msgs"]); Ux = f["U"] if U is None else U
    rid = complement(n, f["U"]) if ridx == "same" else ridx
    rev = [f["msgs"][i] for i in complement(n, f["U"])] if revealed == "same" else revealed
    Ct = f["Ct"] if Ct == "same" else Ct
    return "clblindsign %s %s %s %s %s %s %s %s %s %s %s" % (x.suite, zl(pk or x.pk), zl(x.sk), zl(bases or x.bases), clj.tok(zk or f["zk"]),
                                                            oz(rev), zl(C_ or f["C"]), oz(Ct), oz(x.cpk if Ct else None), il(Ux), oil(rid))

true_ = lambda r: r.status == "OK" and r.toks[0] == "1"
def reject(r): return (r.status == "OK" and r.toks[0] == "0") or r.status in ("PANIC", "ERR")
refused = lambda r: r.status in ("PANIC", "ERR")

def leaf_edits(doc, rng, per_leaf=("+1", "-1", "0"), limit=None, modulus=None):
    """[(label, mutated doc)] single-field perturbations of every integer leaf (+-1, zero) and swaps of neighbours; with a modulus also
    the other REPRESENTATIVES of the same residue (x + N, x - N), its negation as an integer (- x) and modulo N (N - x)"""
    lv = clj.leaves(doc); out = []
    idxs = list(range(len(lv)))
    if limit and len(idxs) > limit: idxs = sorted(rng.sample(idxs, limit))
    for k in idxs:
        path, v = lv[k]
        name = ".".join(str(p) for p in path if not isinstance(p, int) and p != "CL03")
        for e in tuple(per_leaf) + ("+2^128", "+2^200"):
            # the high edits leave every low-order window of the value unchanged (a comparison on a truncated value misses them)
            nv = v + 1 if e == "+1" else v - 1 if e == "-1" else v + (1 << 128) if e == "+2^128" else v + (1 << 200) if e == "+2^200" else 0
            if nv == v: continue
            out.append((name, e, clj.set_leaf(doc, path, nv)))
        if modulus:
            for e, nv in (("+N", v + modulus), ("-N", v - modulus), ("neg", -v), ("N-x", modulus - v)):
                if nv != v: out.append((name, e, clj.set_leaf(doc, path, nv)))
        if k + 1 < len(lv) and lv[k + 1][1] != v:
            d2 = clj.set_leaf(clj.set_leaf(doc, path, lv[k + 1][1]), lv[k + 1][0], v)
            out.append((name, "swap", d2))
    return out

def list_edits(doc):
    """structural edits of every list in the document: last element removed, list emptied, last element duplicated"""
    import copy
    out = []
    def walk(t, path):
        if isinstance(t, dict):
            if clj.is_int(t): return
            for k, v in t.items(): walk(v, path + (k,))
        elif isinstance(t, list):
            for kind in ("drop-last", "empty", "dup-last"):
                if not t: continue
                d = copy.deepcopy(doc); u = d
                for p in path[:-1]: u = u[p]
                u[path[-1]] = t[:-1] if kind == "drop-last" else [] if kind == "empty" else t + [t[-1]]
                out.append((".".join(str(p) for p in path if p != "CL03"), kind, d))
            for i, v in enumerate(t): walk(v, path + (i,))
    walk(doc, ())
    return out

def subtree_transplants(A, B):
    """A with ONE sub-document replaced by the corresponding sub-document of B (another honest proof of the same shape):
    every member of the proof object, every element of its lists, every member of its members.  Integer leaves are left to
    leaf_edits.  Yields (dotted path, document)."""
    import copy
    def is_leaf(v): return clj.is_int(v) if hasattr(clj, "is_int") else (isinstance(v, dict) and set(v) == {"radix", "value"})
    out = []
    def walk(a, b, path, depth):
        if a == b or is_leaf(a) or depth > 3: return
        if [p for p in path if p != "CL03"]:      # not the whole document
            d = copy.deepcopy(A); t = d
            for p in path[:-1]: t = t[p]
            t[path[-1]] = copy.deepcopy(b)
            out.append((".".join(str(p) for p in path if p != "CL03"), d))
        if isinstance(a, dict) and isinstance(b, dict):
            for k in a:
                if k in b: walk(a[k], b[k], path + (k,), depth + 1)
        elif isinstance(a, list) and isinstance(b, list):
            for i in range(min(len(a), len(b))): walk(a[i], b[i], path + (i,), depth + 1)
    walk(A, B, (), 0)
    return out

def pair_transplants(A, B, opening_key, range_key):
    """A with the k-th opening proof AND the k-th range proof both taken from B (a consistent pair about another commitment)"""
    import copy
    out = []
    for k in range(min(len(A["CL03"][opening_key]), len(B["CL03"][opening_key]))):
        d = copy.deepcopy(A)
        d["CL03"][opening_key][k] = copy.deepcopy(B["CL03"][opening_key][k]); d["CL03"][range_key][k] = copy.deepcopy(B["CL03"][range_key][k])
        out.append(("%s[%d]+%s[%d]" % (opening_key, k, range_key, k), d))
    return out

def residue_edits(doc, modulus):
    """every integer leaf replaced by another representative of the same residue (x + N, x - N), by - x and by N - x"""
    out = []
    for path, v in clj.leaves(doc):
        name = ".".join(str(p) for p in path if not isinstance(p, int) and p != "CL03")
        for e, nv in (("+N", v + modulus), ("-N", v - modulus), ("neg", -v), ("N-x", modulus - v)):
            if nv != v: out.append((name, e, clj.set_leaf(doc, path, nv)))
    return out

def edit_label(prefix, name, e):
    """known-finding classes are keyed by the label prefix before '|'"""
    if name.endswith("randomness"): return "F9:unused-randomness-leaf|%s:%s%s" % (prefix, name, e)
    # the verifier raises these group elements to the challenge (or to 2^T) only: for an even exponent it cannot see their sign
    if e == "N-x" and (name.endswith(("Cx.value", "Cv.value", "Cw.value", ".F")) or name == "E"):
        return "F19b:negated-residue|%s:%s" % (prefix, name)
    return "%s:field-edit|%s%s" % (prefix, name, e)

# ====================================================================================== C14
class C14:
    LEVEL = "proof"
    CL03 = True
    @staticmethod
    def coq_eval_terms(S): return _q().micro_coq_terms(S, limit=16)
    RULE = ("toy suite: n in 1..4 attributes and ALL non-empty hidden-position sets U, with and without a trusted-party commitment: commit, ZKPoK generate (production RNG, draws "
            "replayed into the model: proofs equal integer for integer), verify_proof, blind_sign, unblind, verify_multiattr on the full vector; update_signature after changing a "
            "revealed attribute verifies on the new vector and not on the old one; mismatches (commitment to other attributes, other U, other bases / pk, other or missing trusted "
            "commitment) and +-1 / zero / swap on every integer of the serialized ZKPoK => verify_proof false and blind_sign refuses (panic); CL1024 sampled with a fixture modulus")
    @staticmethod
    def generate(S, tier):
        P = _p(); Q = _q(); rng = S.rng
        stats = {"flows": 0, "subsets": 0, "field_edits": 0, "mismatches": 0, "premise_checks": 0, "draws_seen": 0}
        # whole issuance flows on the micro suite (17-bit primes): ALSO evaluated inside Coq (vm_compute, no extraction)
        xm = Q.make_ctx(S, "micro", 2)
        if xm is not None:
            mm_ = [rng.getrandbits(8) for _ in range(2)]
            for Um in ([1], [0, 1]):
                fm = issue(S, xm, mm_, Um, False, label="micro:issue")
                if fm is None: continue
                S.run([zkver_line(xm, fm)], expect=true_, label="micro:verify_proof")
                rbm = S.run([blindsign_line(xm, fm)], expect="ok", label="micro:blind_sign")[0]
                if rbm.status == "OK":
                    rum = S.run(["clunblind micro %s %s" % (zl([rbm.z(0), rbm.z(1), rbm.z(2)]), zl(fm["C"]))], expect="ok", label="micro:unblind")[0]
                    S.run([Q.vline(xm, mm_, [rum.z(0), rum.z(1), rum.z(2)])], expect=true_, label="micro:verify(unblind(blind_sign))")
                    stats["micro_flows"] = stats.get("micro_flows", 0) + 1
        for suite, fx in Q.suites_for(tier):
            ns = ([1, 2, 3] if tier == "quick" else [1, 2, 3, 4, 5]) if suite == "toy" else [2]
            for n in ns:
                x = Q.make_ctx(S, suite, n, use_fixture=fx)
                if x is None: continue
                N = x.pk[0]
                subsets = list(Q.all_subsets(n, nonempty=True)) if suite == "toy" else [[1], [0, 1]]
                for U in subsets:
                    for trusted in ((False, True) if (len(U) <= 2 or tier != "quick") else (False,)):
                        msgs = [Q.rmsg(rng) for _ in range(n)]
                        # hidden attributes sitting exactly on the end points of their range [0, 2^lm - 1]
                        if (stats["flows"] + len(U)) % 3 == 0: msgs[U[0]] = 0
                        if (stats["flows"] + len(U)) % 3 == 1: msgs[U[-1]] = 2 ** x.P["lm"] - 1
                        # REVEALED attributes equal to 0 (first / middle of the revealed list) and to the top of the range
                        rev0 = complement(n, U)
                        if len(rev0) >= 2 and not trusted: msgs[rev0[0]] = 0
                        if len(rev0) >= 3 and trusted: msgs[rev0[1]] = 0
                        if len(rev0) == 1 and trusted: msgs[rev0[0]] = 0
                        f = issue(S, x, msgs, U, trusted, label="issue")
                        if f is None: continue
                        stats["flows"] += 1; stats["subsets"] += 1
                        # premises of C14_zkpok_complete / C14_blind_issuance_valid checked on this run: logged random_bits
                        # values >= 0, invertible bases, and Euler's relation x^phi = 1 for the key pair (good_key)
                        bad = [d for d in f["zk_draws"] if d[0] == "bits" and d[2] < 0]
                        p_, q_ = x.sk; phi = (p_ - 1) * (q_ - 1)
                        units = all(math.gcd(b % N, N) == 1 for b in list(x.bases) + [x.pk[1], x.pk[2]])
                        euler = p_ * q_ == N and all(pow(b, phi, N) == 1 for b in list(x.bases) + [x.pk[1], x.pk[2]])
                        stats["premise_checks"] += 1; stats["draws_seen"] += len(f["zk_draws"])
                        if bad or not units or not euler:
                            P.fail(S, "theorem-premise|zkpok_complete/blind_issuance_valid", "a premise of the issuance theorems does not hold on this run (negative random_bits draw %s, units %s, euler %s)" % (bad[:1], units, euler), [zkgen_line(x, f)])
                        S.run([zkver_line(x, f)], expect=true_, label="verify_proof(generate_proof)")
                        rb = S.run([blindsign_line(x, f)], expect="ok", label="blind_sign")[0]
                        if rb.status != "OK": continue
                        bs = [rb.z(0), rb.z(1), rb.z(2)]
                        ru = S.run(["clunblind %s %s %s" % (suite, zl(bs), zl(f["C"]))], expect="ok", label="unblind")[0]
                        sig = [ru.z(0), ru.z(1), ru.z(2)]
                        S.run([Q.vline(x, msgs, sig)], expect=true_, label="verify(unblind(blind_sign))")
                        # the revealed positions listed in DESCENDING order (values in the same order): the same signed vector
                        rvx = complement(n, U)
                        if len(rvx) >= 2:
                            rd_ = list(reversed(rvx))
                            rbd = S.run([blindsign_line(x, f, ridx=rd_, revealed=[msgs[i] for i in rd_])], expect="ok", label="blind_sign(revealed positions descending)")[0]
                            if rbd.status == "OK":
                                rud = S.run(["clunblind %s %s %s" % (suite, zl([rbd.z(0), rbd.z(1), rbd.z(2)]), zl(f["C"]))], expect="ok", label="unblind")[0]
                                S.run([Q.vline(x, msgs, [rud.z(0), rud.z(1), rud.z(2)])], expect=true_, label="verify(unblind(blind_sign)):revealed-descending")
                        # re-issuing after a revealed attribute changed
                        rev_idx = complement(n, U)
                        for upd0 in ([False, True] if len(rev_idx) >= 2 else [False]) if rev_idx else []:
                            m2 = list(msgs); m2[rev_idx[0]] = 0 if upd0 else Q.rmsg(rng)      # ... also updated TO zero
                            if upd0 and m2[rev_idx[1]] == 0: m2[rev_idx[1]] = Q.rmsg(rng)
                            if m2 == msgs: continue
                            r2 = S.run(["clupdate %s %s %s %s %s %s %s %s" % (suite, zl(bs), zl([m2[i] for i in rev_idx]), zl(f["C"]), zl(x.sk), zl(x.pk), zl(x.bases), il(rev_idx))],
                                       expect="ok", label="update_signature")[0]
                            if r2.status == "OK":
                                ru2 = S.run(["clunblind %s %s %s" % (suite, zl([r2.z(0), r2.z(1), r2.z(2)]), zl(f["C"]))], expect="ok", label="unblind")[0]
                                s2 = [ru2.z(0), ru2.z(1), ru2.z(2)]
                                S.run([Q.vline(x, m2, s2)], expect=true_, label="verify(update):new-vector")
                                S.run([Q.vline(x, msgs, s2)], expect=reject, label="verify(update):old-vector")
                        # mismatches
                        lines = []; labs = []
                        def mm(kw, lab):
                            lines.append(zkver_line(x, f, **kw)); labs.append("mismatch:" + lab)
                            lines.append(blindsign_line(x, f, **{k: v for k, v in kw.items() if k != "cpk"})); labs.append("gate:" + lab)
                        ro = S.run(["clcommit %s %s %s %s %s" % (suite, zl(x.pk), zl(x.bases), zl([m ^ 1 for m in msgs]), il(U))], expect="ok", label="triv:othercommit")[0]
                        mm({"C_": [ro.z(0), ro.z(1)]}, "commitment-to-other-attributes")
                        mm({"C_": [f["C"][0] * x.bases[0] % N, f["C"][1]]}, "commitment-shifted")
                        others = [u for u in Q.all_subsets(n, nonempty=True) if u != U and len(u) == len(U)]
                        if others: mm({"U": others[0]}, "other-U")
                        if len(U) >= 2: mm({"U": U[::-1]}, "reordered-U")
                        if n >= 2:
                            b2 = list(x.bases); b2[U[0]] = x.bases[(U[0] + 1) % n] if x.bases[(U[0] + 1) % n] != x.bases[U[0]] else b2[U[0]] + 1
                            mm({"bases": b2}, "other-bases")
                        mm({"pk": [N, x.pk[2], x.pk[1]]}, "other-pk")
                        if trusted:
                            rt = S.run(["clcommitcpk %s %s %s %s" % (suite, zl(x.cpk), zl([m ^ 2 for m in msgs]), il(U))], expect="ok", label="triv:othercommit")[0]
                            mm({"Ct": [rt.z(0), rt.z(1)]}, "other-trusted-commitment")
                        else:
                            # the holder made NO proof for a trusted commitment, the issuer demands one (trusted commitment and
                            # commitment key supplied): the missing sub-proof must not count as a passed check
                            rt = S.run(["clcommitcpk %s %s %s %s" % (suite, zl(x.cpk), zl(msgs), il(U))], expect="ok", label="triv:othercommit")[0]
                            if rt.status == "OK":
                                Ctm = [rt.z(0), rt.z(1)]
                                lines.append(zkver_line(x, f, Ct=Ctm, cpk=x.cpk)); labs.append("mismatch:trusted-commitment-demanded-but-no-sub-proof")
                                lines.append(blindsign_line(x, f, Ct=Ctm)); labs.append("gate:trusted-commitment-demanded-but-no-sub-proof")
                        stats["mismatches"] += len(lines)
                        S.run(lines, expect=[reject if l.startswith("mismatch") else refused for l in labs], label=labs)
                        # field-wise edits of the serialized proof
                        if stats["field_edits"] < (400 if tier == "quick" else 6000) and suite == "toy":
                            el = leaf_edits(f["zk"], rng, limit=(40 if tier == "quick" else None))
                            lines = [zkver_line(x, f, zk=d) for _, _, d in el]
                            labs = [edit_label("zkpok", nm, e) for nm, e, _ in el]
                            stats["field_edits"] += len(lines)
                            S.run(lines, expect=reject, label=labs)
                            if not stats.get("residue_edits"):
                                el = residue_edits(f["zk"], N); stats["residue_edits"] = len(el)
                                S.run([zkver_line(x, f, zk=d) for _, _, d in el], expect=reject, label=[edit_label("zkpok", nm, e) for nm, e, _ in el])
                        # sub-documents transplanted from a SECOND issuance proof for the same commitment: the two whole sigma proofs
                        # about C (proof_commited_msgs, proof_C_Ctrusted) and consistent (opening, range) pairs are what the honest prover
                        # could have drawn => accepted; every other single sub-document breaks a tie => rejected
                        if suite == "toy" and stats.get("transplants", 0) < (80 if tier == "quick" else 3000):
                            r2 = S.run([zkgen_line(x, f)], expect="ok", label="triv:zkgen")[0]
                            if r2.status == "OK":
                                doc2 = r2.json(0)
                                tp = subtree_transplants(f["zk"], doc2)
                                stats["transplants"] = stats.get("transplants", 0) + len(tp)
                                whole = ("proof_commited_msgs", "proof_C_Ctrusted")
                                S.run([zkver_line(x, f, zk=d) for _, d in tp], expect=[true_ if nm in whole else reject for nm, _ in tp],
                                      label=[("recombination:zkpok." if nm in whole else "transplant:zkpok.") + nm for nm, _ in tp])
                                import copy as _cp
                                pp = pair_transplants(f["zk"], doc2, "proofs_commited_mi", "range_proofs_mi")
                                dr_ = _cp.deepcopy(f["zk"]); dr_["CL03"]["proof_r"] = _cp.deepcopy(doc2["CL03"]["proof_r"]); dr_["CL03"]["range_proof_r"] = _cp.deepcopy(doc2["CL03"]["range_proof_r"])
                                pp.append(("proof_r+range_proof_r", dr_))
                                S.run([zkver_line(x, f, zk=d) for _, d in pp], expect=true_, label=["recombination:zkpok." + nm for nm, _ in pp])
                                le_ = list_edits(f["zk"])
                                lines_ = []; labs_ = []
                                for nm, kd, d in le_:
                                    lines_.append(zkver_line(x, f, zk=d)); labs_.append("list-edit:zkpok.%s:%s" % (nm, kd))
                                    lines_.append(blindsign_line(x, f, zk=d)); labs_.append("gate:list-edit:zkpok.%s:%s" % (nm, kd))
                                S.run(lines_, expect=[refused if l.startswith("gate") else reject for l in labs_], label=labs_)
                            # pairs from an issuance proof about OTHER attribute values (another commitment, same keys): F15
                            if stats.get("foreign_pairs", 0) < (6 if tier == "quick" else 200):
                                f3 = issue(S, x, [Q.rmsg(rng) for _ in range(n)], U, trusted, label="triv:issue")
                                if f3:
                                    pp = pair_transplants(f["zk"], f3["zk"], "proofs_commited_mi", "range_proofs_mi")
                                    dr_ = _cp.deepcopy(f["zk"]); dr_["CL03"]["proof_r"] = _cp.deepcopy(f3["zk"]["CL03"]["proof_r"]); dr_["CL03"]["range_proof_r"] = _cp.deepcopy(f3["zk"]["CL03"]["range_proof_r"])
                                    pp.append(("proof_r+range_proof_r", dr_))
                                    stats["foreign_pairs"] = stats.get("foreign_pairs", 0) + len(pp)
                                    S.run([zkver_line(x, f, zk=d) for _, d in pp], expect=reject, label=["F15:untied-sub-proofs|zkpok." + nm for nm, _ in pp])
        return stats

# ====================================================================================== C15
def spokgen_line(x, sig, msgs, U):
    return "clspokgen %s %s %s %s %s %s %s" % (x.suite, zl(sig), zl(x.cpk), zl(x.pk), zl(x.bases), zl(msgs), il(U))
def spokver_line(x, doc, msgs, U, n=None, cpk=None, pk=None, bases=None, revealed=None):
    n_ = len(msgs) if n is None else n
    rev = [msgs[i] for i in range(len(msgs)) if i not in U] if revealed is None else revealed
    return "clspokver %s %s %s %s %s %s %s %d" % (x.suite, clj.tok(doc), zl(cpk or x.cpk), zl(pk or x.pk), zl(bases or x.bases), zl(rev), il(U), n_)

class C15:
    LEVEL = "proof"
    CL03 = True
    @staticmethod
    def coq_eval_terms(S): return _q().micro_coq_terms(S, limit=16)
    RULE = ("toy suite: n in 1..4 attributes, ALL subsets U of hidden positions (none, some, all), commitment key over the issuer modulus: proof_gen with the production RNG "
            "(draws replayed into the model: proofs equal integer for integer), proof_verify with the revealed attributes = true; single edits of revealed attributes, pk, bases, "
            "commitment key, U, n and +-1 / zero / swap on every integer of the serialized proof => false (a refusal by panic counts); CL1024 sampled with a fixture modulus")
    @staticmethod
    def generate(S, tier):
        P = _p(); Q = _q(); rng = S.rng
        stats = {"proofs": 0, "field_edits": 0, "mismatches": 0, "premise_checks": 0, "draws_seen": 0}
        many_attribute_proofs(S, tier)
        # whole flows on the micro suite (17-bit primes): these cases are ALSO evaluated inside Coq (vm_compute, no extraction)
        xm = Q.make_ctx(S, "micro", 2)
        if xm is not None:
            mm_ = [rng.getrandbits(8) for _ in range(2)]
            sgm = Q.sign(S, xm, mm_, label="micro:sign")
            if sgm is not None:
                S.run([Q.vline(xm, mm_, sgm)], expect=true_, label="micro:verify")
                for Um in ([1], [0, 1]):
                    rm = S.run([spokgen_line(xm, sgm, mm_, Um)], expect="ok", label="micro:proof_gen")[0]
                    if rm.status == "OK":
                        S.run([spokver_line(xm, rm.json(0), mm_, Um)], expect=true_, label="micro:proof_verify")
                        stats["micro_flows"] = stats.get("micro_flows", 0) + 1
        for suite, fx in Q.suites_for(tier):
            ns = ([1, 2, 3] if tier == "quick" else [1, 2, 3, 4, 5]) if suite == "toy" else [2]
            for n in ns:
                x = Q.make_ctx(S, suite, n, use_fixture=fx)
                if x is None: continue
                N = x.pk[0]
                msgs = [Q.rmsg(rng) for _ in range(n)]
                # attributes on the end points of their range (hidden in some of the subsets below)
                if n >= 2: msgs[0] = 0
                if n >= 3: msgs[n - 1] = 2 ** x.P["lm"] - 1
                sig = Q.sign(S, x, msgs)
                if sig is None: continue
                if suite == "toy": repeated_hidden_index_proofs(S, x, sig, msgs)
                if suite == "toy" and n == 3: equal_value_proofs(S, x)
                subsets = list(Q.all_subsets(n)) if suite == "toy" else [[0], [0, 1]]
                for U in subsets:
                    r = S.run([spokgen_line(x, sig, msgs, U)], expect="ok", label="proof_gen")[0]
                    if r.status != "OK": continue
                    doc = r.json(0); stats["proofs"] += 1
                    # premises of C15_spok_complete, checked on what the implementation actually did: every logged
                    # random_bits value is >= 0, every base is invertible modulo N, U is strictly increasing
                    bad = [d for d in parse_draws(r) if d[0] == "bits" and d[2] < 0]
                    units = all(math.gcd(b % N, N) == 1 for b in list(x.bases) + list(x.cpk[1:]) + [x.pk[1], x.pk[2]])
                    stats["premise_checks"] += 1; stats["draws_seen"] += len(parse_draws(r))
                    if bad or not units or x.cpk[0] != N or any(U[i] >= U[i + 1] for i in range(len(U) - 1)):
                        P.fail(S, "theorem-premise|spok_complete", "a premise of the completeness theorem does not hold on this run (negative random_bits draw %s, units %s)" % (bad[:1], units), [spokgen_line(x, sig, msgs, U)])
                    S.run([spokver_line(x, doc, msgs, U)], expect=true_, label="proof_verify(proof_gen)")
                    lines = []; labs = []
                    def mm(lab, **kw): lines.append(spokver_line(x, doc, msgs, U, **kw)); labs.append("mismatch:" + lab)
                    rev = [msgs[i] for i in range(n) if i not in U]
                    if rev:
                        mm("revealed-attribute", revealed=[rev[0] ^ 1] + rev[1:])
                        mm("revealed-dropped", revealed=rev[1:])
                        if len(rev) >= 2 and rev[0] != rev[1]: mm("revealed-swapped", revealed=[rev[1], rev[0]] + rev[2:])
                    mm("other-pk", pk=[N, x.pk[2], x.pk[1]])
                    mm("other-pk-c", pk=[N, x.pk[1], x.pk[2] * x.pk[2] % N])
                    if n >= 2:
                        b2 = list(x.bases); b2[0], b2[1] = b2[1], b2[0]; mm("other-bases", bases=b2)
                    mm("other-commitment-key-h", cpk=[x.cpk[0], x.cpk[1] * x.cpk[1] % N] + x.cpk[2:])
                    for dN in (1, -1, 2):
                        mm("other-commitment-key-N", cpk=[x.cpk[0] + dN] + x.cpk[1:])
                    mm("other-commitment-key-N", cpk=[x.cpk[1]] + x.cpk[1:])
                    mm("other-commitment-key-g0", cpk=x.cpk[:2] + [x.cpk[2] * x.cpk[1] % N] + x.cpk[3:])
                    # every base of the commitment key is read -- at hidden AND at revealed positions
                    for j_ in range(1, n):
                        c2_ = list(x.cpk); c2_[2 + j_] = c2_[2 + j_] * 4 % N; mm("other-commitment-key-g%d%s" % (j_, "(revealed)" if j_ not in U else "(hidden)"), cpk=c2_)
                        c3_ = list(x.cpk); c3_[2 + j_] = c3_[2 + j_] + 1; mm("other-commitment-key-g%d%s" % (j_, "(revealed)" if j_ not in U else "(hidden)"), cpk=c3_)
                    if n >= 3:
                        c4_ = list(x.cpk); c4_[3], c4_[4] = c4_[4], c4_[3]; mm("other-commitment-key-g1-g2-swapped", cpk=c4_)
                    others = [u for u in Q.all_subsets(n) if u != U and len(u) == len(U)]
                    if others:
                        U2 = others[0]
                        lines.append(spokver_line(x, doc, msgs, U2, revealed=rev)); labs.append("mismatch:other-U")
                    if len(U) < n:
                        U3 = sorted(U + [complement(n, U)[0]])
                        lines.append(spokver_line(x, doc, msgs, U3)); labs.append("mismatch:larger-U")
                    mm("other-n+1", n=n + 1);
                    if n > 1: mm("other-n-1", n=n - 1)
                    stats["mismatches"] += len(lines)
                    S.run(lines, expect=reject, label=labs)
                    if stats["field_edits"] < (400 if tier == "quick" else 8000) and suite == "toy":
                        el = leaf_edits(doc, rng, limit=(40 if tier == "quick" else None))
                        stats["field_edits"] += len(el)
                        S.run([spokver_line(x, d, msgs, U) for _, _, d in el], expect=reject, label=[edit_label("spok", nm, e) for nm, e, _ in el])
                        if stats.get("residue_edits", 0) < 2 and U:
                            el = residue_edits(doc, N); stats["residue_edits"] = stats.get("residue_edits", 0) + 1; stats["field_edits"] += len(el)
                            S.run([spokver_line(x, d, msgs, U) for _, _, d in el], expect=reject, label=[edit_label("spok", nm, e) for nm, e, _ in el])
                    # sub-documents transplanted from a SECOND presentation of the same signature (same statement, fresh randomness):
                    # a single sub-document breaks a tie (challenge, Ce = range_proof_e.E, commitment_k = range_proof_k.E) => rejected;
                    # a CONSISTENT (opening proof, range proof) pair is what the honest prover could have drawn => accepted
                    if suite == "toy" and stats.get("transplants", 0) < (60 if tier == "quick" else 2000) and (len(U) >= 1 or stats["proofs"] % 3 == 1):
                        r2 = S.run([spokgen_line(x, sig, msgs, U)], expect="ok", label="triv:proof_gen")[0]
                        if r2.status == "OK":
                            doc2 = r2.json(0)
                            tp = subtree_transplants(doc, doc2)
                            stats["transplants"] = stats.get("transplants", 0) + len(tp)
                            S.run([spokver_line(x, d, msgs, U) for _, d in tp], expect=reject, label=["transplant:spok." + nm for nm, _ in tp])
                            pp = pair_transplants(doc, doc2, "proofs_commited_mi", "range_proofs_commited_mi")
                            S.run([spokver_line(x, d, msgs, U) for _, d in pp], expect=true_, label=["recombination:spok." + nm for nm, _ in pp])
                            le_ = list_edits(doc)
                            S.run([spokver_line(x, d, msgs, U) for _, _, d in le_], expect=reject, label=["list-edit:spok.%s:%s" % (nm, kd) for nm, kd, _ in le_])
                        # ... the same pair taken from a proof about ANOTHER attribute vector (another signature, same keys): the pair
                        # says nothing about the attributes of THIS signature (F15)
                        if U and stats.get("foreign_pairs", 0) < (6 if tier == "quick" else 200):
                            msgs3 = [Q.rmsg(rng) for _ in range(n)]
                            sig3 = Q.sign(S, x, msgs3)
                            r3 = S.run([spokgen_line(x, sig3, msgs3, U)], expect="ok", label="triv:proof_gen")[0] if sig3 else None
                            if r3 is not None and r3.status == "OK":
                                pp = pair_transplants(doc, r3.json(0), "proofs_commited_mi", "range_proofs_commited_mi")
                                stats["foreign_pairs"] = stats.get("foreign_pairs", 0) + len(pp)
                                S.run([spokver_line(x, d, msgs, U) for _, d in pp], expect=reject, label=["F15:untied-sub-proofs|spok." + nm for nm, _ in pp])
        return stats

# ====================================================================================== C16
BT, BL, BS = 128, 40, 40
def range_T(a, b): return 2 * (BT + BL + 1) + (b - a).bit_length()

def forge_transplant(honest, g, h, n, a, b, y, ry, rng):
    """F8: keep the two square proofs of an honest proof, choose E_?_1 freely so that E_?_2 = E_? / E_?_1 commits to a small
    value, and make fresh larger-interval proofs for that small value: a 'proof' for a commitment to y, any y."""
    T = range_T(a, b)
    sq = math.isqrt(b - a)
    aa = (1 << T) * a - (1 << (BL + BT + T // 2 + 1)) * sq
    bb = (1 << T) * b + (1 << (BL + BT + T // 2 + 1)) * sq
    com = lambda x, r: pow(g, x, n) * pow(h, r, n) % n
    Ey = com(y, ry); yp = (1 << T) * y; rp = (1 << T) * ry
    x2 = 1
    za = yp - aa - x2; zb = bb - yp - x2
    ra1, rb1 = rng.getrandbits(100), rng.getrandbits(100)
    ra2 = rp - ra1; rb2 = -rp - rb1
    def li(x2_, r2_):
        while True:
            w = rng.randrange((1 << T) * (1 << (BT + BL)) * b); nu = rng.randrange((1 << T) * (1 << (BT + BL + BS)) * n)
            omega = com(w, nu); Cc = sha_int(str(omega)); c = Cc % (1 << BT)
            d1 = w + x2_ * c; d2 = nu + r2_ * c
            if c * b <= d1 <= (1 << T) * ((1 << (BT + BL)) * b - 1): return {"C": Cc, "D_1": d1, "D_2": d2}
    I = lambda v: {"radix": 10, "value": str(v)}
    doc = json.loads(json.dumps(honest))
    doc["E"] = I(Ey); doc["E_prime"] = I(pow(Ey, 1 << T, n))
    pt = doc["proof_of_tolerance"]
    pt["E_a_1"] = I(com(za, ra1)); pt["E_a_2"] = I(com(x2, ra2)); pt["E_b_1"] = I(com(zb, rb1)); pt["E_b_2"] = I(com(x2, rb2))
    for k, v in li(x2, ra2).items(): pt["proof_large_i_a"][k] = I(v)
    for k, v in li(x2, rb2).items(): pt["proof_large_i_b"][k] = I(v)
    return doc

class C16:
    LEVEL = "proof"
    CL03 = True
    @staticmethod
    def coq_eval_terms(S): return _q().prim_coq_terms(S)
    RULE = ("Boudot range proofs over toy and fixture moduli with bases (g_0, h) of a commitment key: intervals [a, b] with b - a in {1, 2, 3, 2^k, 2^256 - 1, ...} (a >= 0 and a < 0 < b), "
            "x in {a, a+1, mid, b-1, b, random}: prove with the production RNG (draws replayed into the model: proofs equal integer for integer), verify = true; x outside [a, b]: the "
            "honest prover panics or its proof is rejected; other bounds / bases / modulus, +-1 / zero / swap on every integer of the proof, and the transplant forgery (honest square "
            "proofs kept, E_?_1 chosen freely, commitment to b + 1000, a - 1, a - 2^k) => rejected")
    @staticmethod
    def generate(S, tier):
        P = _p(); Q = _q(); rng = S.rng
        stats = {"proofs": 0, "out_of_range": 0, "field_edits": 0, "transplants": 0, "widths": []}
        stats["primitive_cases"] = Q.prims_pass(S, tier)
        for suite, fx in Q.suites_for(tier):
            x = Q.make_ctx(S, suite, 1, use_fixture=fx)
            if x is None: continue
            n = x.cpk[0]; h = x.cpk[1]; g = x.cpk[2]
            com = lambda v, r: pow(g, v, n) * pow(h, r, n) % n
            widths = [1, 2, 3, 4, 255, 256, 2**16 - 1, 2**64, 2**256 - 1] if suite == "toy" else [3, 2**256 - 1]
            if tier != "quick" and suite == "toy": widths += [5, 7, 2**32 + 1, 2**128, 2**300]
            stats["widths"] = [w.bit_length() for w in widths]
            def prove_line(v, r, a, b): return "clrpprove %s %d %s %d %d %d %d %d" % (suite, v, zl([com(v, r) if v >= 0 else com(v % (n * n), r), r]), g, h, n, a, b)
            def ver_line(doc, a, b, g_=None, h_=None, n_=None): return "clrpverify %s %s %d %d %d %d %d" % (suite, clj.tok(doc), g_ or g, h_ or h, n_ or n, a, b)
            for w in widths:
                for a in ([0, 7, 2**255] if w > 3 else [0, 5]) + ([-(w // 2) - 1] if w >= 4 else []):
                    b = a + w
                    if b <= 0: continue
                    xs = sorted({a, a + 1, (a + b) // 2, b - 1, b, rng.randrange(a, b + 1)})
                    if tier == "quick" and w > 4: xs = [a, (a + b) // 2, b]
                    for v in xs:
                        r = rng.getrandbits(x.P["ln"]) | (1 << (x.P["ln"] - 1))
                        E = pow(g, v, n) * pow(h, r, n) % n if v >= 0 else pow(pow(g, -1, n), -v, n) * pow(h, r, n) % n
                        line = "clrpprove %s %d %s %d %d %d %d %d" % (suite, v, zl([E, r]), g, h, n, a, b)
                        rp = S.run([line], expect="ok", label="prove")[0]
                        if rp.status != "OK": continue
                        doc = rp.json(0); stats["proofs"] += 1
                        S.run([ver_line(doc, a, b)], expect=true_, label="verify(prove)")
                        if stats["proofs"] % 7 == 1:
                            lines = [ver_line(doc, a, b + 1), ver_line(doc, a - 1, b), ver_line(doc, a + 1, b) if b - a > 1 else ver_line(doc, a, b + 2),
                                     ver_line(doc, a, b, g_=h, h_=g), ver_line(doc, a, b, g_=g * g % n), ver_line(doc, a, b, h_=h * g % n), ver_line(doc, a, b, n_=n + 2)]
                            S.run(lines, expect=reject, label=["mismatch:bounds", "mismatch:bounds", "mismatch:bounds", "mismatch:bases", "mismatch:bases", "mismatch:bases", "mismatch:modulus"])
                        if stats["field_edits"] < (300 if tier == "quick" else 5000) and suite == "toy" and stats["proofs"] % 5 == 1:
                            el = leaf_edits(doc, rng, limit=(24 if tier == "quick" else None))
                            stats["field_edits"] += len(el)
                            S.run([ver_line(d, a, b) for _, _, d in el], expect=reject, label=[edit_label("range", nm, e) for nm, e, _ in el])
                            if stats.get("residue_edits", 0) < 3:
                                el = residue_edits(doc, n); stats["residue_edits"] = stats.get("residue_edits", 0) + 1; stats["field_edits"] += len(el)
                                S.run([ver_line(d, a, b) for _, _, d in el], expect=reject, label=[edit_label("range", nm, e) for nm, e, _ in el])
                        # sub-documents of a SECOND honest proof for the same commitment and interval: no single one may be moved over
                        if suite == "toy" and stats.get("subdoc_transplants", 0) < (40 if tier == "quick" else 1500) and stats["proofs"] % 4 == 1:
                            rp2 = S.run([line], expect="ok", label="triv:prove-second")[0]
                            if rp2.status == "OK":
                                tp = subtree_transplants({"CL03": doc}, {"CL03": rp2.json(0)})
                                stats["subdoc_transplants"] = stats.get("subdoc_transplants", 0) + len(tp)
                                # (the whole proof_of_tolerance is a self-contained proof about E' = E^(2^T): a recombination, accepted)
                                S.run([ver_line(d["CL03"], a, b) for _, d in tp], expect=[true_ if nm == "proof_of_tolerance" else reject for nm, _ in tp],
                                      label=[("recombination:range." if nm == "proof_of_tolerance" else "transplant:range.") + nm for nm, _ in tp])
                        # the SAME interval width elsewhere (bounds shifted together), and the sub-proofs of this proof presented for ANOTHER
                        # commitment (an honest proof about another value in the interval: its E and E' kept, its proof_of_tolerance replaced)
                        if stats["proofs"] % 4 == 1:
                            sh = [ver_line(doc, a + d_, b + d_) for d_ in (1, -1, 5, b - a + 1) if b + d_ > 0]
                            S.run(sh, expect=reject, label="mismatch:bounds-shifted-together")
                            v2 = next((u for u in (a, b, (a + b) // 2, a + 1) if u != v), None)
                            if v2 is not None and suite == "toy":
                                r2_ = rng.getrandbits(x.P["ln"]) | (1 << (x.P["ln"] - 1))
                                E2 = pow(g, v2, n) * pow(h, r2_, n) % n if v2 >= 0 else pow(pow(g, -1, n), -v2, n) * pow(h, r2_, n) % n
                                rp3 = S.run(["clrpprove %s %d %s %d %d %d %d %d" % (suite, v2, zl([E2, r2_]), g, h, n, a, b)], expect="ok", label="triv:prove-other-value")[0]
                                if rp3.status == "OK":
                                    import copy
                                    d3 = copy.deepcopy(rp3.json(0)); d3["proof_of_tolerance"] = copy.deepcopy(doc["proof_of_tolerance"])
                                    S.run([ver_line(d3, a, b)], expect=reject, label="transplant:range.proof_of_tolerance-onto-another-commitment")
                        # transplant forgeries built from this honest proof
                        if a >= 0 and stats["transplants"] < (12 if tier == "quick" else 200) and stats["proofs"] % 3 == 1:
                            for y in (b + 1000, b + 1, a - 1, a - 2**40, rng.getrandbits(300)):
                                if a <= y <= b or y < 0: continue
                                fd = forge_transplant(doc, g, h, n, a, b, y, rng.getrandbits(200), rng)
                                stats["transplants"] += 1
                                S.run([ver_line(fd, a, b)], expect=reject, label="F8:transplant-onto-out-of-range-commitment|y-b=%d" % (y - b))
                    # honest prover outside the interval
                    for v in (a - 1, b + 1, a - 2**20, b + 2**70):
                        r = rng.getrandbits(x.P["ln"]) | (1 << (x.P["ln"] - 1))
                        E = pow(g, v, n) * pow(h, r, n) % n if v >= 0 else pow(pow(g, -1, n), -v, n) * pow(h, r, n) % n
                        rp = S.run(["clrpprove %s %d %s %d %d %d %d %d" % (suite, v, zl([E, r]), g, h, n, a, b)], label="prove-out-of-range")[0]
                        stats["out_of_range"] += 1
                        if rp.status == "OK":
                            S.run([ver_line(rp.json(0), a, b)], expect=reject, label="out-of-range-proof-rejected")
                        elif rp.status not in ("PANIC",):
                            P.fail(S, "out-of-range-prover", "unexpected outcome " + rp.status, [str(v)])
            # BULK completeness on the implementation alone: events of probability about 1/128 per proof -- a Fiat-Shamir digest of a square proof
            # with a leading zero octet, a response with a leading zero octet -- must not make an honest proof fail
            if suite == "toy":
                nb_ = 400 if tier == "quick" else 4000; short = 0; a_, b_ = 1000, 1000 + 2**16
                for _batch in range(nb_ // 100):
                    vals = [rng.randrange(a_, b_ + 1) for _ in range(100)]; rs_ = [rng.getrandbits(x.P["ln"]) | (1 << (x.P["ln"] - 1)) for _ in vals]
                    pl = ["clrpprove %s %d %s %d %d %d %d %d" % (suite, v_, zl([pow(g, v_, n) * pow(h, r_, n) % n, r_]), g, h, n, a_, b_) for v_, r_ in zip(vals, rs_)]
                    pr_ = S.run(pl, expect="ok", label="bulk:prove", model=False)
                    docs_ = [r_.json(0) for r_ in pr_ if r_.status == "OK"]
                    for d_ in docs_:
                        for sq_ in ("proof_of_square_a", "proof_of_square_b"):
                            if clj.get(d_["proof_of_tolerance"][sq_], ("proof_ss", "challenge")) < 2**248: short += 1
                    S.run([ver_line(d_, a_, b_) for d_ in docs_], expect=true_, label="bulk:verify(prove)", model=False)
                stats["bulk_proofs"] = nb_; stats["bulk_short_square_challenges"] = short
            # one-sided transplant: an honest proof for the interval widened by one on ONE side, moved onto the narrower interval by
            # shifting only E_a_1 (resp. E_b_1) by g^(-2^T): the other half stays genuinely valid, one square proof is stale
            for (a, b) in ((1000, 1020), (7, 47), (2**64, 2**64 + 2**20 + 5)):
                w = b - a
                if math.isqrt(w) != math.isqrt(w + 1) or w.bit_length() != (w + 1).bit_length(): continue
                T = range_T(a, b); gi = pow(g, -1, n); shift = pow(gi, 1 << T, n)
                for side, (y, lo, hi) in (("a", (a - 1, a - 1, b)), ("b", (b + 1, a, b + 1))):
                    if lo < 0: continue
                    r = rng.getrandbits(x.P["ln"]) | (1 << (x.P["ln"] - 1))
                    E = pow(g, y, n) * pow(h, r, n) % n
                    rp = S.run(["clrpprove %s %d %s %d %d %d %d %d" % (suite, y, zl([E, r]), g, h, n, lo, hi)], expect="ok", label="triv:prove-wider")[0]
                    if rp.status != "OK": continue
                    fd = json.loads(json.dumps(rp.json(0)))
                    leaf = fd["proof_of_tolerance"]["E_%s_1" % side]
                    leaf["value"] = format(int(leaf["value"], int(leaf["radix"])) * shift % n, "x"); leaf["radix"] = 16
                    stats["transplants"] += 1
                    S.run([ver_line(fd, a, b)], expect=reject, label="F8:one-sided-transplant|side=%s width=%d" % (side, w))
            # F11: drive the prover into the gap between the old prover bound 2^(T+t+l) b - 1 and the verifier's bound: replay an
            # honest run's draws with w of proof_large_i_a forced to 2^(T+t+l) b - 2^(T-1); the proof returned must still verify
            a, b = 0, 2**256 - 1; v = 12345; T = range_T(a, b)
            r = rng.getrandbits(x.P["ln"]) | (1 << (x.P["ln"] - 1))
            E = pow(g, v, n) * pow(h, r, n) % n
            base = "clrpprove %s %d %s %d %d %d %d %d" % (suite, v, zl([E, r]), g, h, n, a, b)
            r0 = S.run([base], expect="ok", label="triv:prove")[0]
            dr = parse_draws(r0)
            if r0.status == "OK" and len(dr) >= 12 and all(k == "int" for k, _, _ in dr[:12]):
                vals = [d[2] for d in dr]
                vals[10] = (1 << (T + BT + BL)) * b - (1 << (T - 1))
                q = "Q" + "".join("," + str(z).encode().hex() for z in vals[:12])
                rf = S.run([q + " " + base], expect="ok", label="F11:forced-gap-prove")[0]
                if rf.status == "OK":
                    S.run([ver_line(rf.json(0), a, b)], expect=true_, label="F11:forced-gap-verify")
                    stats["forced_gap"] = stats.get("forced_gap", 0) + 1
            # intervals with a non-positive upper bound (F13)
            for (a, b, v) in ((-10, -5, -7), (-1, 0, 0)):
                r = rng.getrandbits(100)
                E = pow(pow(g, -1, n), -v, n) * pow(h, r, n) % n
                S.run(["clrpprove %s %d %s %d %d %d %d %d" % (suite, v, zl([E, r]), g, h, n, a, b)], expect="ok", label="F13:prove-panics-for-nonpositive-rmax|[%d,%d]" % (a, b))
        return stats

# ====================================================================================== C17
def commitment_objects(doc, path=()):
    """every {value, randomness}-shaped object in a proof document"""
    out = []
    if isinstance(doc, dict):
        if set(doc.keys()) == {"value", "randomness"} and clj.is_int(doc["value"]) and clj.is_int(doc["randomness"]):
            out.append((path, int(doc["value"]["value"], doc["value"]["radix"]), int(doc["randomness"]["value"], doc["randomness"]["radix"])))
        else:
            for k, v in doc.items(): out += commitment_objects(v, path + (k,))
    elif isinstance(doc, list):
        for i, v in enumerate(doc): out += commitment_objects(v, path + (i,))
    return out

def opening_attacks(S, doc, N, pairs, secrets, v_sig, candidates, what):
    """the property's own attacker: recompute embedded commitments from fields of the proof"""
    P = _p(); n_checked = 0
    for path, val, rnd in commitment_objects(doc):
        name = ".".join(str(p) for p in path if p != "CL03")
        for (gname, g, h) in pairs:
            try: hr = pow(h, rnd, N)
            except ValueError: continue
            for (sname, xsec) in secrets:
                n_checked += 1
                if val % N == pow(g, xsec, N) * hr % N:
                    P.fail(S, "F9:opening-in-proof|%s:%s" % (what, name), "value = %s^%s * h^randomness: the proof carries the opening of a commitment to %s" % (gname, sname, sname), [name])
            # dictionary attack with two candidate attribute values
            hits = [c for c in candidates if val % N == pow(g, c, N) * hr % N]
            if len(hits) == 1:
                P.fail(S, "F9:dictionary-attack|%s:%s" % (what, name), "a guessed attribute value is confirmed from the proof alone", [name])
            if v_sig is not None:
                try:
                    if val * pow(g, -rnd, N) % N == v_sig % N:
                        P.fail(S, "F9:v-recovered|%s:%s" % (what, name), "value * %s^(-randomness) = v: the signature component v is recovered" % gname, [name])
                except ValueError: pass
    return n_checked

def response_vectors(doc, path=()):
    """every list of integer leaves in a proof document (the per-attribute response vectors s1, s_5, d)"""
    out = []
    if isinstance(doc, dict):
        for k, v in doc.items(): out += response_vectors(v, path + (k,))
    elif isinstance(doc, list):
        if doc and all(clj.is_int(x) for x in doc):
            out.append((path, [int(x["value"], x["radix"]) for x in doc]))
        else:
            for i, v in enumerate(doc): out += response_vectors(v, path + (i,))
    return out

def difference_attack(S, doc, challenges, hidden, what):
    """linear attack on a response vector: with independent blindings (s_a - s_b) is not a multiple of the challenge; if it is,
    the quotient is m_a - m_b exactly -- a guessed pair of hidden attributes is confirmed, one known attribute gives the other"""
    P = _p(); n = 0
    for path, vec in response_vectors(doc):
        name = ".".join(str(p) for p in path if p != "CL03")
        for a in range(len(vec)):
            for b in range(a + 1, len(vec)):
                for cname, c in challenges:
                    if c <= 0: continue
                    n += 1
                    d = vec[a] - vec[b]
                    if d % c == 0:
                        q = d // c
                        hit = [(i, j) for (i, mi) in hidden for (j, mj) in hidden if i != j and mi - mj == q]
                        P.fail(S, "response-difference-reveals-attributes|%s:%s[%d]-[%d]" % (what, name, a, b),
                               "(s[%d] - s[%d]) / %s = %s: the two responses share their blinding" % (a, b, cname, ("m_%d - m_%d" % hit[0]) if hit else str(q)[:40]), [name])
    return n

def cross_vector_attack(S, doc, challenges, hidden_in_order, what):
    """two response vectors of the same length answered under DIFFERENT challenges (e.g. s1 of the multi-secret proof and d of
    the two-commitment proof): with independent blindings (v[k] - w[k]) / (c - c') is meaningless; if the two protocols share their
    nonces it is the hidden attribute itself.  hidden_in_order: the hidden attributes in the order of the vectors."""
    P = _p(); n = 0
    vecs = [(".".join(str(p) for p in path if p != "CL03"), v) for path, v in response_vectors(doc)]
    for ia in range(len(vecs)):
        for ib in range(len(vecs)):
            if ia == ib or len(vecs[ia][1]) != len(vecs[ib][1]): continue
            for (c1n, c1) in challenges:
                for (c2n, c2) in challenges:
                    if c1 == c2: continue
                    for k in range(len(vecs[ia][1])):
                        n += 1
                        num = vecs[ia][1][k] - vecs[ib][1][k]
                        if num % (c1 - c2) == 0 and k < len(hidden_in_order) and num // (c1 - c2) == hidden_in_order[k]:
                            P.fail(S, "shared-nonce-across-protocols|%s:%s[%d]-%s[%d]" % (what, vecs[ia][0], k, vecs[ib][0], k),
                                   "(%s[%d] - %s[%d]) / (%s - %s) is the hidden attribute: the two protocols answer with the same blinding" % (vecs[ia][0], k, vecs[ib][0], k, c1n, c2n), [what])
    return n

def sqrt_leak_attack(S, rp, a, b, secret, what, tol=4):
    """the property's attacker on ONE Boudot range proof: the same-secret sub-proofs answer d = omega + c x_1 with the full 256-bit
    challenge and a blinding omega far smaller than c x_1, so floor(d / c) ~ x_1 = floor(sqrt(2^T (x - a) + theta)) and
    x ~ (floor(d / c)^2 + aa) / 2^T (resp. (bb - floor(d / c)^2) / 2^T from the upper half).  Returns the number of recomputations."""
    P = _p(); n = 0
    T = range_T(a, b); sq = math.isqrt(b - a)
    aa = (1 << T) * a - (1 << (BL + BT + T // 2 + 1)) * sq
    bb = (1 << T) * b + (1 << (BL + BT + T // 2 + 1)) * sq
    pt = rp["proof_of_tolerance"]
    for half, rec in (("a", lambda xh: ((xh * xh) + aa) >> T), ("b", lambda xh: (bb - xh * xh) >> T)):
        ss = pt["proof_of_square_" + half]["proof_ss"]
        d = clj.get(ss, ("d",)); c = clj.get(ss, ("challenge",))
        if c <= 0: continue
        est = rec(d // c); n += 1
        if abs(est - secret) <= tol:
            P.fail(S, "F16:range-proof-square-root-leak|%s:proof_of_square_%s" % (what, half),
                   "(floor(d / challenge))^2 rescaled = secret %+d: the range proof hands over the value it is about" % (est - secret), [what])
    return n

class C17:
    LEVEL = "proof"
    CL03 = True
    RULE = ("toy suite (and CL1024 with a fixture modulus): honest issuance proofs and signature proofs for all hidden-position subsets of n <= 3 attributes; the property's attacker: every "
            "(value, randomness)-shaped object of the serialized proof x every public base pair (a_i, b), (g_i, h) x every secret the prover holds (hidden m_i, e, v, w, r): "
            "value = g^x h^randomness, value * g^(-randomness) = v, and a two-candidate dictionary test must all fail")
    @staticmethod
    def generate(S, tier):
        P = _p(); Q = _q(); rng = S.rng
        stats = {"proofs": 0, "recomputations": 0}
        for suite, fx in Q.suites_for(tier):
            for n in ([2, 3] if suite == "toy" else [2]):
                x = Q.make_ctx(S, suite, n, use_fixture=fx)
                if x is None: continue
                N = x.pk[0]; b = x.pk[1]
                pairs = [("a_%d" % i, x.bases[i], b) for i in range(n)] + [("g_%d" % i, x.cpk[2 + i], x.cpk[1]) for i in range(n)]
                msgs = [Q.rmsg(rng) for _ in range(n)]
                sig = Q.sign(S, x, msgs)
                if suite == "toy" and sig is not None: stats["recomputations"] += repeated_hidden_index_proofs(S, x, sig, msgs)
                if suite == "toy" and n == 2: stats["recomputations"] += length_distinguisher(S, x, tier)
                if suite == "toy" and n == 2: stats["recomputations"] += many_attribute_proofs(S, tier)
                if suite == "toy" and n == 3: stats["recomputations"] += equal_value_proofs(S, x)
                if suite == "toy" and n == 3: stats["recomputations"] += unordered_trusted_issuance(S, x)
                subsets = list(Q.all_subsets(n, nonempty=True)) if (suite == "toy" and tier != "quick") else [[0], list(range(n))]
                for U in subsets:
                  for trusted in (False, True):
                    f = issue(S, x, msgs, U, trusted, label="triv:issue")
                    if f:
                        if trusted and f["zk"]["CL03"]["proof_C_Ctrusted"]:
                            pm_ = f["zk"]["CL03"]["proof_commited_msgs"]
                            ch2 = [("c(multi-secret)", sha_int("".join(str(x.bases[i]) for i in (U if n > 1 else [0])) + str(b) + str(f["C"][0]) + str(clj.get(pm_, ("t",))))),
                                   ("c(trusted)", clj.get(f["zk"]["CL03"]["proof_C_Ctrusted"], ("challenge",)))]
                            stats["recomputations"] += cross_vector_attack(S, f["zk"], ch2, [msgs[i] for i in U], "zkpok")
                        secrets = [("m_%d" % i, msgs[i]) for i in U] + [("r", f["C"][1])]
                        cands = [msgs[U[0]], msgs[U[0]] ^ 1]
                        stats["recomputations"] += opening_attacks(S, f["zk"], N, pairs, secrets, None, cands, "zkpok")
                        pm = f["zk"]["CL03"]["proof_commited_msgs"]
                        chal = [("c(multi-secret)", sha_int("".join(str(x.bases[i]) for i in (U if n > 1 else [0])) + str(b) + str(f["C"][0]) + str(clj.get(pm, ("t",)))))]
                        stats["recomputations"] += difference_attack(S, f["zk"], chal, [(i, msgs[i]) for i in U], "zkpok")
                        for k, i_ in enumerate(U):
                            stats["recomputations"] += sqrt_leak_attack(S, f["zk"]["CL03"]["range_proofs_mi"][k], 0, 2 ** x.P["lm"] - 1, msgs[i_], "zkpok.range_proofs_mi[m_%d]" % i_)
                        stats["recomputations"] += sqrt_leak_attack(S, f["zk"]["CL03"]["range_proof_r"], 0, 2 ** x.P["ln"] - 1, f["C"][1], "zkpok.range_proof_r[r]")
                        stats["proofs"] += 1
                    r = S.run([spokgen_line(x, sig, msgs, U)], expect="ok", label="triv:proof_gen")[0]
                    if r.status == "OK":
                        doc = r.json(0); dr = parse_draws(r)
                        for k, i_ in enumerate(U):
                            stats["recomputations"] += sqrt_leak_attack(S, doc["CL03"]["range_proofs_commited_mi"][k], 0, 2 ** x.P["lm"] - 1, msgs[i_], "spok.range_proofs_commited_mi[m_%d]" % i_)
                        le_ = x.P["le"]
                        stats["recomputations"] += sqrt_leak_attack(S, doc["CL03"]["range_proof_e"], 2 ** (le_ - 1) + 1, 2 ** le_ - 1, sig[0], "spok.range_proof_e[e]")
                        secrets = [("m_%d" % i, msgs[i]) for i in U] + [("e", sig[0]), ("v", sig[2])] + [("draw_%d" % k, v) for k, (kd, pr, v) in enumerate(dr) if kd == "bits" and pr == [x.P["ln"]]][:6]
                        cands = [msgs[U[0]], msgs[U[0]] ^ 1]
                        stats["recomputations"] += opening_attacks(S, doc, N, pairs, secrets, sig[2], cands, "spok")
                        stats["recomputations"] += difference_attack(S, doc, [("c(spok)", clj.get(doc["CL03"]["spok"], ("challenge",)))], [(i, msgs[i]) for i in U], "spok")
                        stats["proofs"] += 1
        return stats

# ====================================================================================== C18
class C18:
    LEVEL = "proof"
    CL03 = True
    RULE = ("toy suite: freshly generated key pairs, bases and commitment keys (own modulus and issuer modulus) with the production RNG, every draw replayed into the model (identical keys, "
            "including the safe-prime search decisions); independent structural check in Python: N = p q, p != q, p, q, (p-1)/2, (q-1)/2 probable primes of SECPARAM+1 bits, every base "
            "b, c, a_i, h, g_i in (1, N), coprime to N, Jacobi symbol +1 modulo p and q; byte and JSON codecs of pk / sk / signature; random_bits(n) has bit n-1 set and rand_int(a, b) in "
            "[a, b]; CL1024 in the thorough tier")
    @staticmethod
    def generate(S, tier):
        P = _p(); Q = _q(); rng = S.rng
        stats = {"keys": 0, "bases_checked": 0, "random_calls": 0}
        # toy2: a suite whose ln is not 2 * SECPARAM (the prime length must come from SECPARAM)
        plan = [("toy", 6 if tier == "quick" else 60), ("toy2", 2 if tier == "quick" else 12), ("toy3", 1 if tier == "quick" else 4)] + ([("cl1024", 1)] if tier != "quick" else [])
        for suite, nkeys in plan:
            sp = Q.SUITE_P[suite]["SECPARAM"]
            for k in range(nkeys):
                r = S.run(["clkeygen %s" % suite], expect="ok", label="keygen")[0]
                if r.status != "OK": continue
                N, b, c, p, q = [r.z(i) for i in range(5)]
                stats["keys"] += 1
                bad = []
                if N != p * q: bad.append("N != p*q")
                if p == q: bad.append("p == q")
                for nm, v in (("p", p), ("q", q), ("(p-1)/2", (p - 1) // 2), ("(q-1)/2", (q - 1) // 2)):
                    if not Q.is_probable_prime(v): bad.append(nm + " not prime")
                if p.bit_length() != sp + 1 or q.bit_length() != sp + 1: bad.append("|p|,|q| = %d,%d" % (p.bit_length(), q.bit_length()))
                if k == 0:
                    # the search for p' started just below 2^SECPARAM (first draw forced): whatever the generator does next, the
                    # factors it returns must still have SECPARAM + 1 bits
                    for start in ((1 << sp) - 1, (1 << sp) - 3):
                        rf = S.run(["Q,%s clkeygen %s" % (str(start).encode().hex(), suite)], expect="ok", label="keygen-forced-start")[0]
                        if rf.status == "OK" and (rf.z(3).bit_length() != sp + 1 or rf.z(4).bit_length() != sp + 1):
                            P.fail(S, "key-structure", "|p|,|q| = %d,%d after a prime search started at 2^SECPARAM - %d" % (rf.z(3).bit_length(), rf.z(4).bit_length(), (1 << sp) - start), [str(rf.z(0))])
                if k == 0:
                    # the SAME prime drawn twice in a row (random_bits and next_prime of both calls forced to p' = (p - 1) / 2): the two factors must still differ
                    hp = str((p - 1) // 2).encode().hex()
                    rf = S.run(["Q,%s,%s,%s,%s clkeygen %s" % (hp, hp, hp, hp, suite)], expect="ok", label="keygen-forced-equal-primes")[0]
                    if rf.status == "OK" and (rf.z(3) == rf.z(4) or math.isqrt(rf.z(0)) ** 2 == rf.z(0)):
                        P.fail(S, "key-structure", "p == q (N is a square) when the prime search returns the same prime twice", [str(rf.z(0))])
                    if suite in ("toy", "toy2"):
                        rf = S.run(["Q,%s,%s,%s,%s clcpk %s N 1" % (hp, hp, hp, hp, suite)], expect="ok", label="cpk-forced-equal-primes")[0]
                        if rf.status == "OK" and math.isqrt(rf.zl(0)[0]) ** 2 == rf.zl(0)[0]:
                            P.fail(S, "cpk-structure", "the own modulus of the commitment key is a square when the prime search returns the same prime twice", [str(rf.zl(0)[0])])
                if k == 0 and suite in ("toy", "toy2"):
                    # commitment keys through their JSON encoding: zero, one and several bases, issuer modulus and own modulus
                    S.run(["clcpkjson %s %s %d" % (suite, nn_, nb_) for nn_ in (str(N), "N") for nb_ in (0, 1, 3)], expect=true_, label="cpk-json-roundtrip", model=False)
                    # the exponent draw of a commitment-key base forced to 0 (g = h^0 = 1): the base must be drawn again
                    r0 = S.run(["clcpk %s %d 2" % (suite, N)], expect="ok", label="triv:cpk")[0]
                    dr0 = parse_draws(r0) if r0.status == "OK" else []
                    nums = [v for kd, prm, v in dr0 if kd == "number"]
                    if len(nums) >= 2:
                        for pos in range(1, len(nums)):
                            q_ = list(nums); q_[pos] = 0
                            rz = S.run(["Q,%s clcpk %s %d 2" % (",".join(str(v).encode().hex() for v in q_[:pos + 1]), suite, N)], expect="ok", label="cpk-forced-zero-exponent")[0]
                            if rz.status == "OK" and any(v <= 1 for v in rz.zl(0)[1:]):
                                P.fail(S, "cpk-structure", "a commitment-key element equals 1 (or 0) after an exponent draw of 0", [str(N)])
                nb = 1 + k % 3
                rb = S.run(["clbases %s %d %d" % (suite, N, nb)], expect="ok", label="bases")[0]
                rc = S.run(["clcpk %s %d %d" % (suite, N, nb)], expect="ok", label="cpk(issuer modulus)")[0]
                els = [("b", b), ("c", c)] + [("a_%d" % i, v) for i, v in enumerate(rb.zl(0))] + [("h", rc.zl(0)[1])] + [("g_%d" % i, v) for i, v in enumerate(rc.zl(0)[2:])]
                for nm, v in els:
                    stats["bases_checked"] += 1
                    if not (1 < v < N): bad.append(nm + " outside (1, N)")
                    if math.gcd(v, N) != 1: bad.append(nm + " not coprime to N")
                    if Q.jacobi(v, p) != 1 or Q.jacobi(v, q) != 1: bad.append(nm + " is not a quadratic residue")
                if bad: P.fail(S, "key-structure", "; ".join(bad[:6]), [str(N)])
                if k == 0:
                    # byte / JSON codec of signatures under this key, components with LEADING ZERO octets included (v below 2^(ln - 8))
                    ln_ = Q.SUITE_P[suite]["ln"]; le_ = Q.SUITE_P[suite]["le"]; ls_ = Q.SUITE_P[suite]["ls"]
                    e_ = (1 << (le_ - 1)) + 12345; s0_ = rng.getrandbits(ls_ - 1) | (1 << (ls_ - 2))
                    for v_ in (1, 255, 2 ** (ln_ - 16), 2 ** (ln_ - 8) - 1, rng.getrandbits(ln_ - 9), rng.randrange(N)):
                        for s_ in (s0_, s0_ >> 20):
                            rz = S.run(["clsigcodec %s %s" % (suite, zl([e_, s_, v_]))], expect="ok", label="sig-codec(leading zero octets)")[0]
                            if rz.status == "OK" and ([rz.z(1), rz.z(2), rz.z(3)] != [e_, s_, v_] or rz.toks[4] != "1"):
                                P.fail(S, "sig-codec", "signature with leading zero octets changed by its byte / JSON codec", [zl([e_, s_, v_])])
                # corner draws of random_qr forced through the replay queue: 0, 1, N-1, the non-trivial square roots of 1, multiples of
                # p and q; whatever the first draw, the value returned must be a square in (1, N) coprime to N
                if k < 3:
                    inv = pow(p, -1, q); root = (1 + p * ((-2 * inv) % q)) % N      # = 1 mod p, = -1 mod q
                    forced = [0, 1, N - 1, root, N - root, p, 2 * q, N - p, 2, N - 2]
                    rq = S.run(["Q,%s clrandqr %d" % (str(f).encode().hex(), N) for f in forced], expect="ok", label="random_qr-forced-draw")
                    for f, r_ in zip(forced, rq):
                        if r_.status == "OK":
                            v = r_.z(0)
                            if not (1 < v < N) or math.gcd(v, N) != 1 or Q.jacobi(v, p) != 1 or Q.jacobi(v, q) != 1:
                                P.fail(S, "random_qr-corner", "random_qr returned %d after a first draw of %d" % (v, f), [str(N)])
                # codecs
                rk = S.run(["clpkcodec %s %s" % (suite, zl([N, b, c]))], expect="ok", label="pk-codec")[0]
                if rk.status == "OK" and ([rk.z(1), rk.z(2), rk.z(3)] != [N, b, c] or rk.toks[4] != "1"): P.fail(S, "pk-codec", "public key changed by a codec", [str(N)])
                rs = S.run(["clskcodec %s %s" % (suite, zl([p, q]))], expect="ok", label="sk-codec")[0]
                if rs.status == "OK" and ([rs.z(1), rs.z(2)] != [p, q] or rs.toks[3] != "1"): P.fail(S, "sk-codec", "secret key changed by a codec", [str(N)])
                if k < 2 and suite in ("toy", "toy2"):
                    # a commitment key with its own modulus
                    ro = S.run(["clcpk %s N 2" % suite], expect="ok", label="cpk(own modulus)")[0]
                    if ro.status == "OK":
                        N2, h2 = ro.zl(0)[0], ro.zl(0)[1]
                        if N2.bit_length() not in (2 * sp + 1, 2 * sp + 2): P.fail(S, "cpk-structure", "own modulus of the commitment key has %d bits: not a product of two (SECPARAM+1)-bit primes" % N2.bit_length(), [str(N2)])
                        for v in [h2] + ro.zl(0)[2:]:
                            if not (1 < v < N2) or math.gcd(v, N2) != 1: P.fail(S, "cpk-structure", "commitment-key element outside (1, N) or not coprime", [str(N2)])
            # malformed key octets: only lengths 3*ln + k*ln are accepted, anything else is refused (panic)
            if suite == "toy":
                w = Q.SUITE_P[suite]["ln"]
                for ln_ in (0, 1, w, 3 * w - 1, 3 * w, 3 * w + 1, 4 * w):
                    S.run(["clpkfrombytes %s %s" % (suite, C.tb(bytes([7]) * ln_))], label="pk-from-bytes-len")
        for nbits in [1, 2, 8, 63, 64, 65, 256, 258, 384, 1024] + ([2048, 3072] if tier != "quick" else []):
            for _ in range(3 if tier == "quick" else 30):
                r = S.run(["clrandbits %d" % nbits], expect="ok", label="random_bits")[0]
                stats["random_calls"] += 1
                if r.status == "OK" and r.z(0).bit_length() != nbits: P.fail(S, "random_bits", "random_bits(%d) returned a %d-bit value" % (nbits, r.z(0).bit_length()), [])
        for (a, b) in [(0, 0), (0, 1), (-5, 5), (1, 2**64), (-2**100, -2**100 + 3), (2**255, 2**256)]:
            for _ in range(4 if tier == "quick" else 40):
                r = S.run(["clrandint %d %d" % (a, b)], expect="ok", label="rand_int")[0]
                stats["random_calls"] += 1
                if r.status == "OK" and not (a <= r.z(0) <= b): P.fail(S, "rand_int", "rand_int(%d, %d) = %d" % (a, b, r.z(0)), [])
        return stats

# ====================================================================================== C19
RESPONSE_KEYS = {"s1", "s2", "s_1", "s_2", "s_3", "s_4", "s_5", "s_6", "s_7", "s_8", "s_9", "d", "d_1", "d_2", "D_1", "D_2"}
SIGMA_RESPONSE_KEYS = {"s1", "s2", "s_1", "s_2", "s_3", "s_4", "s_5", "s_6", "s_7", "s_8", "s_9"}

def repeated_hidden_index_proofs(S, x, sig, msgs):
    """signature proofs whose hidden-index list NAMES A POSITION TWICE ([0,0], [n-1,n-1], [0,n-1,n-1]): the verifier reads one response per
    hidden position and ignores the others, so such proofs verify; every response they carry must still be masked"""
    n = len(msgs); cnt = 0
    lists = [[0, 0]] + ([[n - 1, n - 1], [0, n - 1, n - 1]] if n >= 2 else [])
    for U in lists:
        r = S.run([spokgen_line(x, sig, msgs, U)], expect="ok", label="proof_gen(repeated hidden index)")[0]
        if r.status != "OK": continue
        doc = r.json(0); sp = doc["CL03"]["spok"]; dr = parse_draws(r)
        S.run([spokver_line(x, doc, msgs, U)], label="proof_verify(repeated hidden index)")
        secrets = [("m_%d" % i, msgs[i]) for i in sorted(set(U))] + [("e", sig[0]), ("s", sig[1]), ("v", sig[2])]
        q_, r_ = masking_attack(S, doc, [("c(spok)", clj.get(sp, ("challenge",)))], secrets, "spok[repeated hidden index %s]" % U); cnt += q_
    return cnt

def unordered_trusted_issuance(S, x):
    """issuance with a trusted-party commitment and the hidden positions listed in a NON-ascending order ([2, 0], [0, 2, 1]): the proof verifies and
    every response stays masked (challenge of the trusted-party proof, challenge of the multi-secret proof)"""
    Q = _q(); rng = S.rng; cnt = 0
    if len(x.bases) < 3: return 0
    N = x.pk[0]; b = x.pk[1]
    for U in ([2, 0], [0, 2, 1], [1, 0]):
        msgs = [Q.rmsg(rng) for _ in range(3)]
        f = issue(S, x, msgs, U, True, label="issue(unordered hidden positions)")
        if not f: continue
        S.run([zkver_line(x, f)], expect=true_, label="verify_proof(generate_proof):unordered-hidden-positions")
        zk = f["zk"]["CL03"]; pm = zk["proof_commited_msgs"]
        chal = [("c(multi-secret)", sha_int("".join(str(x.bases[i]) for i in U) + str(b) + str(f["C"][0]) + str(clj.get(pm, ("t",)))))]
        if zk["proof_C_Ctrusted"]: chal.append(("c(trusted)", clj.get(zk["proof_C_Ctrusted"], ("challenge",))))
        secrets = [("m_%d" % i, msgs[i]) for i in U] + [("r", f["C"][1])] + ([("r_trusted", f["Ct"][1])] if f["Ct"] else [])
        q_, r_ = masking_attack(S, f["zk"], chal, secrets, "zkpok[hidden positions %s]" % U); cnt += q_
    return cnt

def equal_value_proofs(S, x):
    """two positions holding the SAME attribute value, one hidden and one revealed: hidden is decided by position, the response stays masked"""
    Q = _q(); rng = S.rng; cnt = 0
    a_, b_ = Q.rmsg(rng), Q.rmsg(rng)
    for msgs, U in (([a_, a_, b_], [0]), ([a_, a_, b_], [1]), ([a_, b_, a_], [2]), ([a_, a_, a_], [1])):
        if len(x.bases) < len(msgs): return cnt
        sig = Q.sign(S, x, msgs)
        if sig is None: continue
        r = S.run([spokgen_line(x, sig, msgs, U)], expect="ok", label="proof_gen(equal hidden and revealed values)")[0]
        if r.status != "OK": continue
        doc = r.json(0); sp = doc["CL03"]["spok"]
        S.run([spokver_line(x, doc, msgs, U)], expect=true_, label="proof_verify(equal hidden and revealed values)")
        secrets = [("m_%d" % i, msgs[i]) for i in U] + [("e", sig[0]), ("s", sig[1]), ("v", sig[2])]
        q_, r_ = masking_attack(S, doc, [("c(spok)", clj.get(sp, ("challenge",)))], secrets, "spok[equal values %s]" % U); cnt += q_
    return cnt

def many_attribute_proofs(S, tier):
    """credentials with MORE THAN 64 (thorough: 128, 256) attributes and hidden positions on both sides of the word boundary: the proof verifies and
    every response is masked (position sets kept in machine words would lose the high positions)"""
    Q = _q(); rng = S.rng; cnt = 0
    for n in ([66] if tier == "quick" else [66, 130, 258]):
        x = Q.make_ctx(S, "toy", n)
        if x is None: continue
        msgs = [Q.rmsg(rng) for _ in range(n)]
        sig = Q.sign(S, x, msgs)
        if sig is None: continue
        for U in ([2, n - 1], [63, 64], [n - 2]):
            r = S.run([spokgen_line(x, sig, msgs, U)], expect="ok", label="proof_gen(many attributes)")[0]
            if r.status != "OK": continue
            doc = r.json(0); sp = doc["CL03"]["spok"]
            S.run([spokver_line(x, doc, msgs, U)], expect=true_, label="proof_verify(many attributes)")
            secrets = [("m_%d" % i, msgs[i]) for i in U] + [("e", sig[0]), ("s", sig[1]), ("v", sig[2])]
            q_, r_ = masking_attack(S, doc, [("c(spok)", clj.get(sp, ("challenge",)))], secrets, "spok[%d attributes, hidden %s]" % (n, U)); cnt += q_
    return cnt

def length_distinguisher(S, x, tier):
    """the two-candidate attack by LENGTH: proofs about a hidden attribute 0 and about a hidden attribute 2^lm - 1 (everything else alike): no integer
    of the serialized proof may have a bit length that tells them apart (uniform draws vary by a few bits; 40 bits is out of reach for them)"""
    Q = _q(); rng = S.rng; cnt = 0
    n = 2; U = [1]; lm = x.P["lm"]
    docs = {"spok": [], "zkpok": []}
    for m1 in (0, 2 ** lm - 1):
        msgs = [Q.rmsg(rng), m1]
        sig = Q.sign(S, x, msgs)
        if sig is None: return 0
        r = S.run([spokgen_line(x, sig, msgs, U)], expect="ok", label="triv:proof_gen(end-point attribute)")[0]
        if r.status == "OK": docs["spok"].append(r.json(0))
        f = issue(S, x, msgs, U, False, label="triv:issue(end-point attribute)")
        if f: docs["zkpok"].append(f["zk"])
    for what, dd in docs.items():
        if len(dd) != 2: continue
        la, lb = clj.leaves(dd[0]), clj.leaves(dd[1])
        for (pa, va), (pb, vb) in zip(la, lb):
            if pa != pb: continue
            cnt += 1
            if abs(abs(va).bit_length() - abs(vb).bit_length()) > 40:
                name = ".".join(str(p_) for p_ in pa if p_ != "CL03")
                _p().fail(S, "length-of-field-reveals-hidden-attribute|%s:%s" % (what, name), "bit lengths %d (attribute 0) and %d (attribute 2^lm - 1)" % (abs(va).bit_length(), abs(vb).bit_length()), [name])
    return cnt

def masking_attack(S, doc, challenges, secrets, what, sigma_only=True):
    """every response leaf / every recomputable challenge / every ordered pair of responses against every secret"""
    P = _p(); n = 0
    resp = []
    for path, v in clj.leaves(doc):
        keys = [p for p in path if isinstance(p, str)]
        if not keys: continue
        k = keys[-1]
        in_range_proof = any(p in ("range_proof_e", "range_proofs_commited_mi", "range_proofs_mi", "range_proof_r", "proof_of_tolerance") for p in keys)
        if k in (SIGMA_RESPONSE_KEYS if sigma_only else RESPONSE_KEYS) and not in_range_proof or (k in ("d", "d_1", "d_2") and "proof_C_Ctrusted" in keys):
            resp.append((".".join(str(p) for p in path if p != "CL03"), v))
    B = 1 << 64
    for name, s in resp:
        for cname, c in challenges:
            if c <= 0: continue
            q = s // c
            for sname, xs in secrets:
                n += 1
                if abs(q - xs) < B:
                    P.fail(S, "F10:response-over-challenge-reveals-secret|%s:%s" % (what, name), "floor(%s / %s) - %s = %d" % (name, cname, sname, q - xs), [name])
        for name2, s2 in resp:
            if name2 == name or s2 <= 0: continue
            q = s // s2
            for sname, xs in secrets:
                n += 1
                if abs(q - xs) < B and xs > B:
                    P.fail(S, "F10:ratio-of-responses-reveals-secret|%s:%s/%s" % (what, name, name2), "floor(%s / %s) - %s = %d" % (name, name2, sname, q - xs), [name])
    return n, len(resp)

class C19:
    LEVEL = "proof"
    CL03 = True
    RULE = ("toy suite (and CL1024 with a fixture modulus): honest issuance proofs and signature proofs for all hidden-position subsets of n <= 3 attributes; the property's attacker: every "
            "sigma-protocol response leaf s of the serialized proof x every Fiat-Shamir challenge recomputable from public data (and every ordered pair of responses s, s') x every secret "
            "the prover holds (hidden m_i, e, s, v and every commitment randomness, read from the logged draws): |floor(s/c) - x| >= 2^64 and |floor(s/s') - x| >= 2^64; the bit length of "
            "every blinding draw is compared with the model's request (draw-kind / parameter correspondence)")
    @staticmethod
    def generate(S, tier):
        P = _p(); Q = _q(); rng = S.rng
        stats = {"proofs": 0, "quotients": 0, "responses": 0}
        stats["quotients"] += many_attribute_proofs(S, tier)
        for suite, fx in Q.suites_for(tier):
            for n in ([1, 2, 3] if suite == "toy" else [2]):
                x = Q.make_ctx(S, suite, n, use_fixture=fx)
                if x is None: continue
                N = x.pk[0]; b = x.pk[1]; ln = x.P["ln"]
                msgs = [Q.rmsg(rng) for _ in range(n)]
                sig = Q.sign(S, x, msgs)
                if suite == "toy" and sig is not None: stats["quotients"] += repeated_hidden_index_proofs(S, x, sig, msgs)
                if suite == "toy" and n == 3: stats["quotients"] += equal_value_proofs(S, x)
                if suite == "toy" and n == 3: stats["quotients"] += unordered_trusted_issuance(S, x)
                if sig is not None:
                    # NOTHING hidden: the responses about e, s, v and the commitment randomness are masked all the same
                    r0 = S.run([spokgen_line(x, sig, msgs, [])], expect="ok", label="triv:proof_gen(nothing hidden)")[0]
                    if r0.status == "OK":
                        doc0 = r0.json(0); dr0 = parse_draws(r0)
                        sec0 = [("e", sig[0]), ("s", sig[1]), ("v", sig[2])] + [("randomness_%d" % k, v) for k, (kd, prm, v) in enumerate(dr0) if kd == "bits" and prm == [ln]]
                        q_, r_ = masking_attack(S, doc0, [("c(spok)", clj.get(doc0["CL03"]["spok"], ("challenge",)))], sec0, "spok[nothing hidden]"); stats["quotients"] += q_; stats["responses"] += r_; stats["proofs"] += 1
                # ALL non-empty subsets (non-prefix hidden sets such as [1], [0, 2] index the blinding vectors differently)
                subsets = list(Q.all_subsets(n, nonempty=True)) if suite == "toy" else [[1], list(range(n))]
                for U in subsets:
                    for trusted in (False, True):
                        # without the trusted party the LAST hidden attribute is 0, with it the first one: a hidden zero is blinded like any other value
                        mi_ = list(msgs); mi_[U[0] if trusted else U[-1]] = 0
                        f = issue(S, x, mi_, U, trusted, label="triv:issue")
                        if not f: continue
                        zk = f["zk"]["CL03"]
                        pm = zk["proof_commited_msgs"]
                        chal = [("c(multi-secret)", sha_int("".join(str(x.bases[i]) for i in (U if n > 1 else [0])) + str(b) + str(f["C"][0]) + str(clj.get(pm, ("t",)))))]
                        for k, pv in enumerate(zk["proofs_commited_mi"]):
                            chal.append(("c(m_%d)" % U[k], sha_int(str(x.bases[U[k]]) + str(b) + str(clj.get(pv, ("commitment", "value"))) + str(clj.get(pv, ("value", "t"))))))
                        pr = zk["proof_r"]
                        chal.append(("c(r)", sha_int(str(x.bases[0]) + str(b) + str(clj.get(pr, ("commitment", "value"))) + str(clj.get(pr, ("value", "t"))))))
                        if zk["proof_C_Ctrusted"]: chal.append(("c(trusted)", clj.get(zk["proof_C_Ctrusted"], ("challenge",))))
                        secrets = [("m_%d" % i, mi_[i]) for i in U] + [("r", f["C"][1])] + ([("r_trusted", f["Ct"][1])] if f["Ct"] else [])
                        secrets += [("randomness_%d" % k, v) for k, (kd, prm, v) in enumerate(f["zk_draws"]) if kd == "bits" and prm == [ln]]
                        q_, r_ = masking_attack(S, f["zk"], chal, secrets, "zkpok"); stats["quotients"] += q_; stats["responses"] += r_; stats["proofs"] += 1
                        stats["quotients"] += difference_attack(S, f["zk"], chal[:1] + chal[-1:], [(i, mi_[i]) for i in U], "zkpok")
                        if zk["proof_C_Ctrusted"]:
                            stats["quotients"] += cross_vector_attack(S, f["zk"], chal[:1] + chal[-1:], [mi_[i] for i in U], "zkpok")
                    r = S.run([spokgen_line(x, sig, msgs, U)], expect="ok", label="triv:proof_gen")[0]
                    if r.status == "OK":
                        doc = r.json(0); dr = parse_draws(r); sp = doc["CL03"]["spok"]
                        # premise of C19_nisp5_hidden_responses_masked on this run: random_bits(k) returned a value with bit k - 1 set
                        badtop = [(prm, v) for kd, prm, v in dr if kd == "bits" and len(prm) == 1 and v.bit_length() != prm[0]]
                        stats["premise_checks"] = stats.get("premise_checks", 0) + 1
                        if badtop or not (0 < clj.get(sp, ("challenge",)) < 2 ** 256):
                            P.fail(S, "theorem-premise|nisp5_hidden_responses_masked", "random_bits(k) returned a value without bit k - 1, or the challenge is outside (0, 2^256): %s" % str(badtop[:1])[:200], [spokgen_line(x, sig, msgs, U)])
                        chal = [("c(spok)", clj.get(sp, ("challenge",)))]
                        for k, pv in enumerate(doc["CL03"]["proofs_commited_mi"]):
                            chal.append(("c(m_%d)" % U[k], sha_int(str(x.cpk[2 + U[k]]) + str(x.cpk[1]) + str(clj.get(pv, ("commitment", "value"))) + str(clj.get(pv, ("value", "t"))))))
                        secrets = [("m_%d" % i, msgs[i]) for i in U] + [("e", sig[0]), ("s", sig[1]), ("v", sig[2])]
                        secrets += [("randomness_%d" % k, v) for k, (kd, prm, v) in enumerate(dr) if kd == "bits" and prm == [ln]]
                        q_, r_ = masking_attack(S, doc, chal, secrets, "spok"); stats["quotients"] += q_; stats["responses"] += r_; stats["proofs"] += 1
                        stats["quotients"] += difference_attack(S, doc, chal[:1], [(i, msgs[i]) for i in U], "spok")
                        # the responses INSIDE the range proofs (quotient by the stored challenge, squared and rescaled): e and the hidden attributes
                        le_ = x.P["le"]
                        stats["quotients"] += sqrt_leak_attack(S, doc["CL03"]["range_proof_e"], 2 ** (le_ - 1) + 1, 2 ** le_ - 1, sig[0], "spok.range_proof_e[e]")
                        for k, i_ in enumerate(U):
                            stats["quotients"] += sqrt_leak_attack(S, doc["CL03"]["range_proofs_commited_mi"][k], 0, 2 ** x.P["lm"] - 1, msgs[i_], "spok.range_proofs_commited_mi[m_%d]" % i_)
        return stats
