"""Generators / sweeps for C07..C12."""
import os, re, json, hashlib, glob
from . import common as C
from .common import tb, tob, tl, tol, ti, toi, tou
from . import pyc

def _p():
    from . import props
    return props

# ====================================================================================== C07
RNG_FUNCS = [("src/utils/util.rs", "generate_random_secret"), ("src/utils/util.rs", "get_random"),
             ("src/utils/util.rs", "calculate_random_scalars"), ("src/bbsplus/commitment.rs", "random"),
             ("src/bbsplus/keys.rs", "random")]

def fn_body(src, name):
    m = re.search(r"fn\s+%s\s*(<[^>]*>)?\s*\(" % re.escape(name), src)
    if not m: return None
    i = src.index("{", m.end()); d = 0; j = i
    while True:
        if src[j] == "{": d += 1
        elif src[j] == "}":
            d -= 1
            if d == 0: break
        j += 1
    body = src[m.start():j + 1]
    # drop the verification hook block and comments, normalise whitespace
    body = re.sub(r'#\[cfg\(feature = "verif_hooks"\)\]\s*if [^{]*\{(?:[^{}]|\{[^{}]*\})*\}', "", body)
    body = re.sub(r"//[^\n]*", "", body)
    return re.sub(r"\s+", " ", body).strip()

def rng_shapes():
    out = {}
    for path, name in RNG_FUNCS:
        src = open(os.path.join(C.REPO, path)).read()
        out[path + "::" + name] = fn_body(src, name)
    return out

class C07:
    LEVEL = "proof"
    RULE = ("(a) correspondence: proof_gen, commit, blind_proof_gen, BlindFactor::random, KeyPair::random run with the production RNG; logged draws are replayed into "
            "the model and outputs compared byte for byte (a draw used twice, skipped or swapped is a disagreement); (b) runtime monitor (statistical, supports but does "
            "not prove): n generations on identical and on different inputs, on 16 threads and in two processes: all draws, Abar/Bbar/D, commitments, blinding factors, "
            "secret keys pairwise distinct, non-zero, >= 2^128, no two within 2^64; witness-side recomputation of the blinding scalars equals the logged draws; no 32/48-byte "
            "window of a proof equals a hidden message scalar, A or e; (c) source-shape tie of the RNG call sites")
    EXTRA_TRUST = ["freshness/uniformity of rand::thread_rng (ChaCha) itself is observed by the monitor, not proved",
                   "source-shape table gen/rng_shapes.json pins the bodies of get_random, calculate_random_scalars, generate_random_secret, BlindFactor::random, KeyPair::random"]
    @staticmethod
    def generate(S, tier):
        P = _p(); rng = S.rng
        n_rep = 12 if tier == "quick" else 120
        stats = {"draws": 0, "generations": 0, "windows_checked": 0}
        # (c) source shapes
        want = json.load(open(os.path.join(C.VERIF, "gen", "rng_shapes.json")))
        have = rng_shapes()
        for k in want:
            if have.get(k) != want[k]:
                S.broken = getattr(S, "broken", []) + ["RNG call-site shape changed: %s (the model's assumption that it returns a fresh thread_rng draw is no longer tied to the source)" % k]
        all_draws = []; elems = {"Abar": [], "Bbar": [], "D": [], "C": [], "blind": [], "sk": []}
        def note_draws(r):
            if r.draws:
                for d in r.draws[2:].split(","):
                    k, _, v = d.partition("=")
                    if k == "scalar": all_draws.append(int(v, 16))
                    elif k.startswith("secret"): all_draws.append(int(v, 16))
        for suite in P.SUITES:
            keys = P.make_keys(S, suite, 2)
            flows = P.honest_sigs(S, suite, keys, [(3, b"h"), (5, None), (1, b""), (45, b"L"), (300, b"XL")])
            # message scalars for the window scan
            for f in flows:
                r = S.run(["ms2s %s %s %s" % (suite, tl(f["msgs"]), tb(pyc.API[suite]))], expect="ok", label="triv:ms2s")[0]
                f["scalars"] = [r.b(0)[i:i+32] for i in range(0, len(r.b(0)), 32)]
            # identical inputs, many times (one batch => spread over 16 threads)
            f = flows[0]; D = [1]
            # the last flow hides 44 messages: more blinding scalars in ONE transcript than any batch size a generator might use
            # (the 300-message flow hides 299: more scalars than two blocks of any expander-based generation)
            fi = [(f, D, b"ph")] * n_rep + [(g, [0], None) for g in flows[1:3] for _ in range(n_rep // 3)] + [(flows[3], [0], None)] * 2 + [(flows[4], [7], None)]
            proofs = P.honest_proofs(S, fi, label="proofgen-repeat")
            res_lines = [c for c in S.cases[-len(fi):]]
            for c in res_lines: note_draws(c[1])
            stats["generations"] += len(proofs)
            for p, c in zip(proofs, res_lines):
                pr = p["proof"]
                elems["Abar"].append(pr[0:48]); elems["Bbar"].append(pr[48:96]); elems["D"].append(pr[96:144])
                hidden = [p["scalars"][i] for i in range(len(p["msgs"])) if i not in p["D"]] + [p["sig"][:48], p["sig"][48:]]
                for h in hidden:
                    stats["windows_checked"] += 1
                    if h in pr:
                        P.fail(S, "proof-exposes-secret", "a hidden scalar / A / e appears verbatim in the proof", [pr.hex(), h.hex()])
                # witness-side recomputation of the blindings from responses and challenge
                dr = [int(d.partition("=")[2], 16) for d in c[1].draws[2:].split(",")] if c[1].draws else []
                U = len(p["msgs"]) - len(p["D"])
                if len(dr) != 5 + U:
                    P.fail(S, "draw-log-shape", "proof_gen logged %d random draws for a proof with %d hidden messages (5 + U expected): the blindings are not one fresh draw each" % (len(dr), U), [c[0][:300]])
                    dr = dr + [1] * (5 + U - len(dr))
                e = int.from_bytes(p["sig"][48:], "big")
                sc = [int.from_bytes(pr[144 + 32*i:176 + 32*i], "big") for i in range(3 + U + 1)]
                ch = sc[-1]; e_cap, r1_cap, r3_cap = sc[0], sc[1], sc[2]
                e_t = (e_cap - e * ch) % pyc.R
                r1_t = (r1_cap + dr[0] * ch) % pyc.R
                r3_t = (r3_cap + pow(dr[1], -1, pyc.R) * ch) % pyc.R
                und = [i for i in range(len(p["msgs"])) if i not in p["D"]]
                m_t = [(sc[3 + j] - int.from_bytes(p["scalars"][i], "big") * ch) % pyc.R for j, i in enumerate(und)]
                rec = [e_t, r1_t, r3_t] + m_t
                if rec != dr[2:5 + U]:
                    P.fail(S, "blinding-recompute", "recomputed blindings differ from the logged draws", [c[0]])
                if 0 in rec or len(set(rec)) != len(rec):
                    P.fail(S, "blinding-zero-or-repeated", "zero or repeated blinding within one transcript", [c[0]])
            # commitments
            cm = P.rand_msgs(rng, 2)
            # ... to two messages, to the EMPTY list and with the list ABSENT: the blinding factor is drawn in every case
            lines = ["commit %s %s" % (suite, tl(cm))] * n_rep + ["commit %s L" % suite] * (n_rep // 3) + ["commit %s N" % suite] * (n_rep // 3)
            res = S.run(lines, expect="ok", label="commit-repeat")
            for r, l_ in zip(res, lines):
                note_draws(r)
                if r.status == "OK":
                    elems["C"].append(r.b(0)[:48]); elems["blind"].append(r.b(1))
                    if r.b(1) == bytes(32) or r.b(0)[:48] == pyc.G1_ID:
                        P.fail(S, "blinding-zero-or-repeated", "zero blinding factor / identity commitment", [l_])
            # one commitment to 40 messages: witness-side recomputation of s~, m~_1..m~_40 from the responses
            cmL = P.rand_msgs(rng, 40)
            rs = S.run(["ms2s %s %s %s" % (suite, tl(cmL), tb(pyc.API_BLIND[suite]))], expect="ok", label="triv:ms2s")[0]
            msc = [int.from_bytes(rs.b(0)[i:i+32], "big") for i in range(0, len(rs.b(0)), 32)]
            for r in S.run(["commit %s %s" % (suite, tl(cmL))] * 2, expect="ok", label="commit-large"):
                note_draws(r)
                if r.status != "OK": continue
                cw = r.b(0); blind = int.from_bytes(r.b(1), "big")
                sc = [int.from_bytes(cw[48 + 32*i:80 + 32*i], "big") for i in range(len(msc) + 2)]
                ch = sc[-1]
                rec = [(sc[0] - blind * ch) % pyc.R] + [(sc[1 + i] - msc[i] * ch) % pyc.R for i in range(len(msc))]
                dr = [int(d.partition("=")[2], 16) for d in r.draws[2:].split(",")] if r.draws else []
                if sorted(rec + [blind]) != sorted(dr): P.fail(S, "blinding-recompute", "recomputed commitment blindings differ from the logged draws", ["commit %s <40 messages>" % suite])
                if 0 in rec or len(set(rec + [blind])) != len(rec) + 1:
                    P.fail(S, "blinding-zero-or-repeated", "zero or repeated blinding within one commitment transcript", ["commit %s <40 messages>" % suite])
            # blind proofs for a signature issued WITHOUT a commitment (no prover blind): every response scalar of every proof is fresh and non-zero
            nb_ = P.blind_flows(S, suite, keys, [(2, None, b"h")], label="triv:blind-no-commitment")
            if nb_:
                seen_ = set()
                for r in S.run([P.bpg_line(nb_[0], [0], [], b"p")] * max(4, n_rep // 2), expect="ok", label="blindproofgen(no commitment)-repeat"):
                    note_draws(r)
                    if r.status != "OK": continue
                    pr_ = r.b(0); sc_ = [pr_[i:i+32] for i in range(144, len(pr_) - 32, 32)]
                    if any(x_ == bytes(32) for x_ in sc_) or any(x_ in seen_ for x_ in sc_) or len(set(sc_)) != len(sc_):
                        P.fail(S, "blinding-zero-or-repeated", "zero or repeated response scalar in a blind proof for a signature issued without a commitment", [pr_.hex()])
                    seen_.update(sc_)
            res = S.run(["keyrandom %s" % suite] * n_rep, expect="ok", label="keyrandom-repeat")
            for r in res:
                note_draws(r)
                if r.status == "OK": elems["sk"].append(r.b(0))
            res = S.run(["blindfactor_random"] * n_rep, expect="ok", label="blindfactor-repeat")
            for r in res:
                note_draws(r)
                if r.status == "OK": elems["blind"].append(r.b(0))
            # a second process
            res = S.run(["commit %s %s" % (suite, tl(cm))] * 4 + ["keyrandom %s" % suite] * 4, expect="ok", label="second-process")
            for r in res:
                note_draws(r)
                if r.status == "OK" and len(r.toks) == 2 and len(r.b(0)) > 48: elems["C"].append(r.b(0)[:48]); elems["blind"].append(r.b(1))
                elif r.status == "OK": elems["sk"].append(r.b(0))
            # blind proofs
            bf = P.blind_flows(S, suite, keys, [(2, 2, b"")])
            tr = [(bf[0], [0], [1], b"n")] * (n_rep // 2)
            bp = P.blind_proofs(S, tr, label="blindproofgen-repeat")
            for c in S.cases[-len(tr):]: note_draws(c[1])
            for p in bp:
                pr = p["proof"]; elems["Abar"].append(pr[0:48]); elems["Bbar"].append(pr[48:96]); elems["D"].append(pr[96:144])
                if p["blind"] in pr: P.fail(S, "proof-exposes-secret", "blinding factor appears in blind proof", [pr.hex()])
        stats["draws"] = len(all_draws)
        # distinctness / size monitors
        for k, v in elems.items():
            if len(set(v)) != len(v):
                P.fail(S, "repeated-" + k, "%s repeated across runs (%d distinct of %d)" % (k, len(set(v)), len(v)), [x.hex() for x in v[:4]])
        if len(set(all_draws)) != len(all_draws):
            P.fail(S, "repeated-draw", "a random draw repeated (%d distinct of %d)" % (len(set(all_draws)), len(all_draws)), [])
        if any(d == 0 for d in all_draws): P.fail(S, "zero-draw", "a random draw is zero", [])
        small = [d for d in all_draws if d < 2**128]
        if small: P.fail(S, "small-draw", "draw below 2^128", [hex(small[0])])
        sd = sorted(all_draws)
        close = [(a, b) for a, b in zip(sd, sd[1:]) if b - a < 2**64]
        if close: P.fail(S, "close-draws", "two draws within 2^64 of each other", [hex(close[0][0]), hex(close[0][1])])
        if len(all_draws) >= 64:
            # monobit over the low 248 bits of every draw
            ones = sum(bin(d & ((1 << 248) - 1)).count("1") for d in all_draws); n = 248 * len(all_draws)
            if abs(ones - n / 2) > 6 * (n ** 0.5) / 2: P.fail(S, "monobit", "bit balance off by more than 6 sigma", [str(ones), str(n)])
        stats["elements"] = {k: len(v) for k, v in elems.items()}
        return stats

# ====================================================================================== C08
class C08:
    LEVEL = "proof"
    RULE = ("every decoder on EVERY length 0..1024 x content classes {zeros, 0xff, valid prefix + garbage, honest artefact truncated/extended, random}; the verifier / signer / "
            "holder entry points on malformed artefacts, index lists with 0, L-1, L, L+1, 2^32, 2^63, usize::MAX and counts likewise; serde_json decoding of mutated JSON "
            "(implementation only); outcome class must be Ok/Err (never PANIC / TIMEOUT), must equal the model's outcome, and the number of generators created (hook log) "
            "must stay within 2*(bytes/32 + list lengths + in-range counts) + 8")
    @staticmethod
    def generate(S, tier):
        P = _p(); rng = S.rng
        maxlen = 1024
        step = 1
        stats = {"decoder_cases": 0, "frontend_cases": 0, "json_cases": 0, "max_gens_per_case": 0}
        suite = "sha"
        keys = P.make_keys(S, suite, 2)
        sk, pk = keys[0]
        flows = P.honest_sigs(S, suite, keys, [(4, b"hd")])
        f = flows[0]
        proofs = P.honest_proofs(S, [(f, [0, 2], b"ph")])
        pr = proofs[0]["proof"]
        bfl = P.blind_flows(S, suite, keys, [(2, 2, b"")])
        bf = bfl[0]
        cwp = bf["cwp"]
        bproofs = P.blind_proofs(S, [(bf, [0], [1], b"p")])
        honest = {"pk": pk, "sk": sk, "sig": f["sig"], "proof": pr, "zkpok": cwp[48:], "commit": cwp, "blind": bf["blind"], "pkxy": None}
        r = S.run(["dec pk2xy %s" % tb(pk)], expect="ok", label="triv")[0]
        honest["pkxy"] = r.b(0)
        lines = []; labels = []
        for kind in ("pk", "sk", "sig", "proof", "zkpok", "commit", "blind", "pkxy"):
            h = honest[kind]
            for n in range(0, maxlen + 1, step):
                cls = n % 5
                if cls == 0: b = bytes(n)
                elif cls == 1: b = b"\xff" * n
                elif cls == 2: b = (h + P.rb(rng, max(0, n - len(h))))[:n]          # valid prefix + garbage / truncated honest
                elif cls == 3: b = P.rb(rng, n)
                else: b = (h * (n // max(1, len(h)) + 1))[:n]
                lines.append("dec %s %s" % (kind, tb(b))); labels.append("dec:" + kind)
            # every truncation and small extension of the honest artefact
            for n in list(range(0, len(h))) + [len(h) + k for k in (1, 2, 31, 32, 33, 64)]:
                b = (h + bytes(64))[:n]
                lines.append("dec %s %s" % (kind, tb(b))); labels.append("dec-trunc:" + kind)
        stats["decoder_cases"] = len(lines)
        S.run(lines, expect="nopanic", label=labels)
        # front ends
        lines = []; labels = []
        def add(l, lab): lines.append(l); labels.append(lab)
        BIG = [0, 1, 3, 4, 5, 2**32, 2**63, 2**64 - 1]
        L = len(f["msgs"])
        for idx in ([i] for i in BIG):
            add("proofgen %s %s %s %s %s %s %s" % (suite, tb(pk), tb(f["sig"]), tob(f["header"]), "N", tl(f["msgs"]), ti(idx)), "fe:proofgen-idx")
            add("proofverify %s %s %s %s %s %s %s" % (suite, tb(pk), tb(pr), tl([b"m"]), ti(idx), tob(f["header"]), tob(b"ph")), "fe:proofverify-idx")
            add("blindproofgen %s %s %s %s N %s %s %s %s %s" % (suite, tb(bf["pk"]), tb(bf["sig"]), tob(bf["header"]), tl(bf["msgs"]), tl(bf["cm"]), ti(idx), "I", tob(bf["blind"])), "fe:blindproofgen-idx")
            add("blindproofgen %s %s %s %s N %s %s %s %s %s" % (suite, tb(bf["pk"]), tb(bf["sig"]), tob(bf["header"]), tl(bf["msgs"]), tl(bf["cm"]), "I", ti(idx), tob(bf["blind"])), "fe:blindproofgen-cidx")
            bp = bproofs[0]
            add(P.bpv_line(bp, D=idx, dmsgs=[b"x"]), "fe:blindproofverify-idx")
            add(P.bpv_line(bp, Dc=idx, dcmsgs=[b"x"]), "fe:blindproofverify-cidx")
            add(P.bpv_line(bp, Lv=idx[0]), "fe:blindproofverify-L")
            add(P.bpv_line(bp, Lv=idx[0], D=[], Dc=[], dmsgs=[], dcmsgs=[]), "fe:blindproofverify-L-empty")
        for ui in BIG:
            for n in [0, 1, 4, 5, 2**64 - 1]:
                add("update %s %s %s %s %s %d %d" % (suite, tb(sk), tb(f["sig"]), tb(f["msgs"][0]), tb(b"new"), ui, n), "fe:update")
                add("update %s %s %s %s %s %d %d" % (suite, tb(sk), tb(f["sig"]), tb(b"same"), tb(b"same"), ui, n), "fe:update-noop")
        # duplicate / unsorted index lists, mismatching list lengths
        add("proofverify %s %s %s %s %s N N" % (suite, tb(pk), tb(pr), tl([b"a", b"b", b"c"]), ti([0, 0, 2])), "fe:proofverify-dup")
        add("proofverify %s %s %s %s %s N N" % (suite, tb(pk), tb(pr), tl([]), ti([0, 2])), "fe:proofverify-len")
        add("proofverify %s %s %s N N N N" % (suite, tb(pk), tb(pr)), "fe:proofverify-none")
        add("proofgen %s %s %s N N N %s" % (suite, tb(pk), tb(f["sig"]), ti([0])), "fe:proofgen-nomsgs")
        # index lists of every ORDER shape (ascending, descending, repeated, with huge entries) against message lists of every length
        # 0 .. len + 1: whatever a verifier or prover does to bring the two lists into order must come after (or survive) the length check
        IDXS = [[], [0], [0, 2], [2, 0], [1, 1], [0, 0, 2], [2, 1, 0], [3, 0, 3, 1], [2**64 - 1, 0], [0, 2**64 - 1], [1, 0, 1, 0, 1]]
        for idx in IDXS:
            for k in range(0, len(idx) + 2):
                ms = [b"m%d" % j for j in range(k)]
                add("proofverify %s %s %s %s %s %s %s" % (suite, tb(pk), tb(pr), tl(ms), ti(idx), tob(f["header"]), tob(b"ph")), "fe:proofverify-order-len")
                add(P.bpv_line(bproofs[0], D=idx, dmsgs=ms), "fe:blindproofverify-order-len")
                add(P.bpv_line(bproofs[0], Dc=idx, dcmsgs=ms), "fe:blindproofverify-corder-len")
                add(P.bpv_line(bproofs[0], D=idx, dmsgs=ms, Dc=list(reversed(idx)), dcmsgs=ms[:1]), "fe:blindproofverify-both-order-len")
            add("proofgen %s %s %s %s %s %s %s" % (suite, tb(pk), tb(f["sig"]), tob(f["header"]), "N", tl(f["msgs"]), ti(idx)), "fe:proofgen-order")
            add("blindproofgen %s %s %s %s N %s %s %s %s %s" % (suite, tb(bf["pk"]), tb(bf["sig"]), tob(bf["header"]), tl(bf["msgs"]), tl(bf["cm"]), ti(idx), ti(list(reversed(idx))), tob(bf["blind"])), "fe:blindproofgen-order")
        # malformed artefacts into the front ends: every truncation of proof / commitment, garbage
        for n in range(0, len(pr) + 40, 1 if tier != "quick" else 3):
            b = (pr + P.rb(rng, 40))[:n]
            add("proofverify %s %s %s %s %s %s %s" % (suite, tb(pk), tb(b), tl(P.pick(f["msgs"], [0, 2])), ti([0, 2]), tob(f["header"]), tob(b"ph")), "fe:proofverify-trunc")
            add(P.bpv_line(bproofs[0], proof=b), "fe:blindproofverify-trunc")
        for n in range(0, len(cwp) + 70, 1 if tier != "quick" else 3):
            b = (cwp + P.rb(rng, 70))[:n]
            add("blindsign %s %s %s %s N L" % (suite, tb(sk), tb(pk), tob(b)), "fe:blindsign-trunc")
            add("dvc %s %s %d" % (suite, tob(b), 4), "fe:dvc-trunc")
        for cnt in (0, 1, 2, 3, 4, 10):
            add("dvc %s %s %d" % (suite, tob(cwp), cnt), "fe:dvc-count")
        add("dvc %s N 0" % suite, "fe:dvc-none")
        for n in (0, 1, 79, 80, 81, 160):
            b = (f["sig"] + bytes(100))[:n]
            add("verify %s %s %s N L" % (suite, tb(pk), tb(b)), "fe:verify-siglen")
            add("blindverify %s %s %s N L N N" % (suite, tb(pk), tb(b)), "fe:blindverify-siglen")
            add("proofgen %s %s %s N N L I" % (suite, tb(pk), tb(b)), "fe:proofgen-siglen")
        for n in (0, 31, 32, 33):
            add("blindverify %s %s %s N L L %s" % (suite, tb(pk), tb(bf["sig"]), tob(bytes(n))), "fe:blindverify-blindlen")
        stats["frontend_cases"] = len(lines)
        res = S.run(lines, expect="nopanic", label=labels)
        # work bound from the generator-count log
        for line, r in zip(lines, res):
            if r.gens:
                total = sum(int(x) for x in r.gens[2:].split(","))
                toks = line.split(" ")
                size = 0
                for t in toks[2:]:
                    if t[:1] in ("L", "I"): size += t.count(",")
                    elif re.fullmatch(r"[0-9a-f]+", t) and len(t) > 20: size += len(t) // 64
                    elif t[:1] == "S": size += len(t) // 64
                    elif re.fullmatch(r"U?\d+", t):
                        v = int(t.lstrip("U"))
                        if toks[0] == "update": size += v if v < 2**20 else 0
                        elif toks[0] == "dvc": size += v
                stats["max_gens_per_case"] = max(stats["max_gens_per_case"], total)
                if total > 2 * size + 8:
                    P.fail(S, "work-bound", "created %d generators for an input of size %d" % (total, size), [line])
        # serde_json decoding of mutated JSON (implementation only)
        jl = []
        for kind in ("pk", "sk", "sig", "proof", "commit"):
            r = S.run(["json %s %s" % (kind, tb(honest[kind]))], expect="ok", label="triv:json")[0]
        templates = {
            "pk": '"%s"' % pk.hex(), "sk": '"%s"' % sk.hex(),
        }
        junk = ['', 'null', '[]', '{}', '0', '"', '"zz"', '"00"', '[1,2,3]', '{"A":null,"e":null}', '{"A":"00","e":"00"}',
                '"' + "00" * 95 + '"', '"' + "ff" * 96 + '"', '"' + "c0" + "00" * 95 + '"', '{"commitment":"00","proof":{"s_cap":"00","m_cap":[],"challenge":"00"}}',
                '{"Abar":"","Bbar":"","D":"","e_cap":"","r1_cap":"","r3_cap":"","m_cap":[],"challenge":""}',
                '{"s_cap":"%s","m_cap":["%s"],"challenge":"%s"}' % ("ff" * 32, "00" * 31, "11" * 33), '[' * 200, '{"A":' * 50]
        for kind in ("pk", "sk", "sig", "proof", "zkpok", "commit"):
            for j in junk:
                jl.append("jsondec %s %s" % (kind, tb(j.encode())))
            for _ in range(20 if tier == "quick" else 200):
                jl.append("jsondec %s %s" % (kind, tb(bytes(rng.choice(b'{}[]",:0123456789abcdefAe_ \\nulltrue') for _ in range(rng.randrange(1, 120))))))
        # update_signature with n = usize::MAX - 1 (n + 1 generators = usize::MAX: a loop bound written count + 1 overflows): the call may take time
        # proportional to n (it is cut off after 3 s), it may not panic
        # a signature whose exponent is - SK modulo r (SK + e = 0: nothing to invert): an error, not a panic
        e_bad = (pyc.R - int.from_bytes(sk, "big")) % pyc.R
        S.run(["update %s %s %s %s %s 0 %d" % (suite, tb(sk), tb(f["sig"][:48] + pyc.sc(e_bad)), tb(f["msgs"][0]), tb(b"new"), len(f["msgs"]))], expect="err", label="fe:update-e-is-minus-sk")
        old_to = S.timeout; S.timeout = 3
        ru = S.run(["update %s %s %s %s %s 0 %d" % (suite, tb(sk), tb(f["sig"]), tb(f["msgs"][0]), tb(b"new"), 2**64 - 2)], label="fe:update-n-max-minus-1", model=False)
        S.timeout = old_to
        if ru and ru[0].status == "PANIC": P.fail(S, "update-n-max-minus-1", "update_signature panics for n = usize::MAX - 1", ["update ... 0 %d" % (2**64 - 2)])
        # the scheme-generic API types (enums over the schemes): whatever serde accepts for them, their verification entry points return
        for kind in ("sig", "proof", "blindsig", "commit"):
            for j in ['{"_Unreachable":null}', '{"_Unreachable":[]}', '{"BBSplus":null}', '{"CL03":null}', '{"CL03":{}}', '"_Unreachable"', '"BBSplus"', '{}', 'null',
                      '{"BBSplus":{"A":"%s","e":"%s"}}' % ("00" * 48, "00" * 32), '{"BBSplus":{"commitment":"%s","proof":{"s_cap":"%s","m_cap":[],"challenge":"%s"}}}' % ("c0" + "00" * 47, "00" * 32, "00" * 32)]:
                jl.append("jsonapi %s %s" % (kind, tb(j.encode())))
        stats["json_cases"] = len(jl)
        S.run(jl, expect="nopanic", label="json", model=False)
        return stats

# ====================================================================================== C09
def bad_scalars():
    return [pyc.R.to_bytes(32, "big"), (pyc.R + 1).to_bytes(32, "big"), b"\xff" * 32, (2**255).to_bytes(32, "big")]

class C09:
    LEVEL = "proof"
    RULE = ("objects produced by the API through every codec (octets, coordinates, JSON): decode(encode(x)) = x; octet strings from honest encodings, ALL their single-bit flips, "
            "extensions by 1..64 bytes, truncations, non-canonical scalars (r, r+1, 2^256-1), random / flag-mangled point encodings, identity points, zero exponent: accepted => "
            "re-encodes to the same string, forbidden class => Err; implementation and model must agree on every case")
    @staticmethod
    def generate(S, tier):
        P = _p(); rng = S.rng
        stats = {"roundtrips": 0, "strict": 0, "accepted_mutants": 0}
        for suite in P.SUITES:
            keys = P.make_keys(S, suite, 3)
            flows = P.honest_sigs(S, suite, keys, [(3, b"h"), (0, None)])
            proofs = P.honest_proofs(S, [(flows[0], [1], b"ph"), (flows[0], [0, 1, 2], None), (flows[1], [], None)])
            # ... and one proof with MORE than 255 undisclosed messages (its encoding has 272 + 32 * 258 octets)
            proofs += P.honest_proofs(S, [(f_, [], None) for f_ in P.honest_sigs(S, suite, keys, [(258, b"h")], label="triv:sign-large")], label="triv:proofgen-large")
            bfl = P.blind_flows(S, suite, keys, [(1, 2, b""), (0, 0, None)])
            objs = []
            for sk, pk in keys: objs += [("pk", pk), ("sk", sk)]
            # every encoder of a key: inherent to_bytes / encode (hex) and the same two through the scheme-generic traits
            for sk, pk in keys: objs += [("pktrait", pk), ("pkenc", pk), ("pkinhenc", pk), ("sktrait", sk), ("skenc", sk), ("skinhenc", sk)]
            for f in flows: objs.append(("sig", f["sig"]))
            for p in proofs: objs.append(("proof", p["proof"]))
            for b in bfl: objs += [("commit", b["cwp"]), ("zkpok", b["cwp"][48:]), ("blind", b["blind"]), ("sig", b["sig"])]
            # round trips
            lines = ["dec %s %s" % (k, tb(v)) for k, v in objs]
            res = S.run(lines, expect="ok", label="roundtrip")
            for (k, v), r in zip(objs, res):
                stats["roundtrips"] += 1
                if r.status == "OK" and r.b(0) != v: P.fail(S, "roundtrip", "decode(encode(x)) re-encodes differently", [k, v.hex()])
            # the decoders EMBEDDED in operations: proof_gen / blind_proof_gen take the signature as octets -- exactly 80, no trailing octets, no prefix of a longer string
            f0_ = flows[0]; el_ = []
            for junk_ in (b"\0", b"\1" * 32, f0_["sig"]):
                el_.append("proofgen %s %s %s %s N %s %s" % (suite, tb(f0_["pk"]), tb(f0_["sig"] + junk_), tob(f0_["header"]), tl(f0_["msgs"]), ti([0])))
            el_.append("proofgen %s %s %s %s N %s %s" % (suite, tb(f0_["pk"]), tb(f0_["sig"][:79]), tob(f0_["header"]), tl(f0_["msgs"]), ti([0])))
            if bfl:
                b0_ = bfl[0]
                for junk_ in (b"\0", b"\1" * 32):
                    el_.append("blindproofgen %s %s %s %s N %s %s I I %s" % (suite, tb(b0_["pk"]), tb(b0_["sig"] + junk_), tob(b0_["header"]), tl(b0_["msgs"]), tol(b0_["cm"]), tob(b0_.get("blind"))))
            S.run(el_, expect="err", label="embedded-signature-decoder")
            jl = [(k, v) for k, v in objs if k in ("pk", "sk", "sig", "proof", "commit")]
            res = S.run(["json %s %s" % (k, tb(v)) for k, v in jl], expect="ok", label="json-roundtrip")
            for (k, v), r in zip(jl, res):
                stats["roundtrips"] += 1
                if r.status == "OK" and (r.toks[0] == "MISMATCH" or r.b(0) != v): P.fail(S, "json-roundtrip", "JSON round trip changed the object", [k, v.hex()])
            for sk, pk in keys:
                r = S.run(["dec pk2xy %s" % tb(pk)], expect="ok", label="coords")[0]
                r2 = S.run(["dec pkxy %s" % tb(r.b(0))], expect="ok", label="coords")[0]
                stats["roundtrips"] += 1
                if r2.status == "OK" and r2.b(0) != pk: P.fail(S, "coords-roundtrip", "coordinates round trip changed the key", [pk.hex()])
            # strictness: mutants
            lines = []; meta = []
            def add(kind, b, forbidden, lab):
                lines.append("dec %s %s" % (kind, tb(b))); meta.append((kind, b, forbidden, lab))
            seen_kinds = set()
            for k, v in objs:
                full = k not in seen_kinds or tier != "quick"
                seen_kinds.add(k)
                if full:
                    # every bit of the object; for a very large object (the 258-hidden-message proof) the first 272 octets, the last 64 and a sample
                    bits_ = range(len(v) * 8) if len(v) <= 1024 else sorted(set(list(range(272 * 8)) + list(range((len(v) - 64) * 8, len(v) * 8)) + rng.sample(range(len(v) * 8), 512)))
                    for bit in bits_:
                        q = bytearray(v); q[bit // 8] ^= 1 << (bit % 8)
                        add(k, bytes(q), False, "bitflip")
                for n in list(range(1, 65)):
                    add(k, v + P.rb(rng, n), True if k in ("pk", "sk", "sig", "blind") or n % 32 else False, "extend")
                for n in range(1, min(len(v), 80) + 1):
                    add(k, v[:-n], True if k in ("pk", "sk", "sig", "blind") or n % 32 else False, "truncate")
            # forbidden classes
            sk, pk = keys[0]; sig = flows[0]["sig"]; pr = proofs[0]["proof"]; cwp = bfl[0]["cwp"]
            for bs in bad_scalars():
                add("sk", bs, True, "scalar>=r"); add("blind", bs, True, "scalar>=r"); add("sig", sig[:48] + bs, True, "scalar>=r")
                for off in (144, 176, 208, 240, len(pr) - 32): add("proof", pr[:off] + bs + pr[off + 32:], True, "scalar>=r")
                for off in (48, 80, len(cwp) - 32): add("commit", cwp[:off] + bs + cwp[off + 32:], True, "scalar>=r")
            add("pk", pyc.G2_ID, True, "identity-pk"); add("sig", pyc.G1_ID + sig[48:], True, "identity-A"); add("sig", sig[:48] + bytes(32), True, "zero-e")
            for off in (0, 48, 96): add("proof", pr[:off] + pyc.G1_ID + pr[off + 48:], True, "identity-proof-point")
            r = S.run(["dec pk2xy %s" % tb(pk)], label="triv")[0]
            xy = r.b(0)
            add("pkxy", bytes([0x40]) + bytes(191), True, "identity-pk-xy")
            # exponents / scalars with special OCTET patterns are ordinary values: octets that XOR or sum to zero, equal octets,
            # a single low octet -- a decoder that screens the raw octets must not mistake them for the zero scalar
            pats = [bytes(30) + b"\x01\x01", bytes([0x55]) * 32, bytes(29) + b"\x01\x02\x03", bytes(31) + b"\x01", bytes(16) + bytes([0x40]) * 16,
                    b"\x01" + bytes(30) + b"\x01", bytes(28) + b"\xff\x01\xff\x01"]
            okl = []
            for pt_ in pats:
                okl += ["dec sig %s" % tb(sig[:48] + pt_), "dec sk %s" % tb(pt_), "dec blind %s" % tb(pt_),
                        "dec proof %s" % tb(pr[:144] + pt_ + pr[176:]), "dec commit %s" % tb(cwp[:48] + pt_ + cwp[80:])]
            ro = S.run(okl, expect="ok", label="special-octet-pattern-scalar")
            for l_, r_ in zip(okl, ro):
                if r_.status == "OK" and r_.b(0) != bytes.fromhex(l_.split(" ")[2]):
                    P.fail(S, "roundtrip", "a scalar with a special octet pattern re-encodes differently", [l_[:120]])
            # the OTHER serialisation of the same object handed to the octet decoders: a second octet string for one object
            for sk_, pk_ in keys:
                rxy = S.run(["dec pk2xy %s" % tb(pk_)], label="triv")[0]
                if rxy.status == "OK": add("pk", rxy.b(0), True, "uncompressed-form-of-the-same-object")
            def g1_unc(cb):
                x = int.from_bytes(bytes([cb[0] & 0x1f]) + cb[1:48], "big"); y = pyc.fp_sqrt((x * x * x + 4) % pyc.FP)
                if y is None: return None
                if (y > (pyc.FP - 1) // 2) != bool(cb[0] & 0x20): y = pyc.FP - y
                return x.to_bytes(48, "big") + y.to_bytes(48, "big")
            ua = g1_unc(sig[:48])
            if ua:
                add("sig", ua + sig[48:], True, "uncompressed-form-of-the-same-object")
                add("proof", ua + pr[48:], True, "uncompressed-form-of-the-same-object")
            uc = g1_unc(cwp[:48])
            if uc: add("commit", uc + cwp[48:], True, "uncompressed-form-of-the-same-object")
            for _ in range(20 if tier == "quick" else 200):
                # random point encodings: compressed flag set, random x (off curve or outside the subgroup)
                x = bytearray(P.rb(rng, 48)); x[0] = (x[0] & 0x1f) | 0x80 | (rng.getrandbits(1) << 5)
                add("sig", bytes(x) + sig[48:], None, "random-point"); add("proof", bytes(x) + pr[48:], None, "random-point"); add("commit", bytes(x) + cwp[48:], None, "random-point")
                y = bytearray(P.rb(rng, 96)); y[0] = (y[0] & 0x1f) | 0x80 | (rng.getrandbits(1) << 5)
                add("pk", bytes(y), None, "random-point")
                z = bytearray(xy); z[rng.randrange(192)] ^= 1 << rng.randrange(8)
                add("pkxy", bytes(z), None, "xy-flip")
                add("pkxy", pyc.g2_uncompressed_on_curve(rng), True, "on-curve-outside-subgroup")
                gx, gy = pyc.g1_uncompressed_on_curve(rng)
                cx = bytearray(gx.to_bytes(48, "big")); cx[0] |= 0x80 | (0x20 if gy > (pyc.FP - 1) // 2 else 0)
                add("sig", bytes(cx) + sig[48:], True, "on-curve-outside-subgroup"); add("commit", bytes(cx) + cwp[48:], True, "on-curve-outside-subgroup")
                add("proof", pr[:48] + bytes(cx) + pr[96:], True, "on-curve-outside-subgroup")
            # several points outside the subgroup whose sum is inside it (T, -T; T, T, T of order 3)
            for T, Tn in pyc.g1_torsion_pairs(rng, 3 if tier == "quick" else 20):
                add("proof", T + Tn + pr[96:], True, "outside-subgroup-cancelling"); add("proof", pr[:48] + T + Tn + pr[144:], True, "outside-subgroup-cancelling")
                add("proof", T + pr[48:96] + Tn + pr[144:], True, "outside-subgroup-cancelling")
            T3 = pyc.g1_torsion_pairs(rng, 0)[0][0]
            add("proof", T3 + T3 + T3 + pr[144:], True, "outside-subgroup-cancelling")
            for flag in (0x00, 0x20, 0x40, 0x60, 0xe0, 0xa0):
                add("sig", bytes([(sig[0] & 0x1f) | flag]) + sig[1:], None, "flag-mangle")
                add("pk", bytes([(pk[0] & 0x1f) | flag]) + pk[1:], None, "flag-mangle")
                add("sig", bytes([flag | 0xc0]) + bytes(46) + b"\x01" + sig[48:], True, "nonzero-infinity")
            res = S.run(lines, label="strict")
            for (k, b, forbidden, lab), r in zip(meta, res):
                stats["strict"] += 1
                if r.status == "PANIC" or r.status == "TIMEOUT":
                    P.fail(S, "strict-panic", "decoder panicked", ["dec %s %s" % (k, b.hex())])
                elif r.status == "OK":
                    stats["accepted_mutants"] += 1
                    if r.b(0) != b:
                        P.fail(S, "F4:non-canonical-accepted|" + lab, "accepted octet string re-encodes differently (two strings decode to one object)", ["dec %s %s" % (k, b.hex())])
                    elif forbidden:
                        P.fail(S, "F4:forbidden-accepted|" + lab, "forbidden class accepted", ["dec %s %s" % (k, b.hex())])
        return stats

# ====================================================================================== C10
def mocked_scalars(suite, count, dst):
    f = pyc.expand_xmd if suite == "sha" else pyc.expand_xof
    seed = b"3.141592653589793238462643383279"
    # expand_message limits: len <= 65535 and (xmd) ell <= 255
    out = f(seed, dst, 48 * count)
    return [int.from_bytes(out[48*i:48*i+48], "big") % pyc.R for i in range(count)]

def fx(s): return bytes.fromhex(s)

class C10:
    LEVEL = "translation_validation"
    DISAGREEMENT_IS_VIOLATION = True    # the property IS equality with the reference: a disagreeing input is the failing input
    RULE = ("the reference is the extracted Coq model (hashing and all glue in Gallina, curve arithmetic delegated); it must first reproduce EVERY file under fixture_data/ and "
            "fixture_data_blind/ (checked against the fixture values on both sides, proofs and commitments through the replay queue with the draft's mocked scalars); then "
            "KeyGen/SkToPk, create_generators (counts 0..N, arbitrary api_id incl. oversize DST), messages_to_scalars, hash_to_scalar, sign and every accept/reject decision of the "
            "verifiers on honest and mutated artefacts, at length-prefix boundaries (255/256, 65535/65536), run on 16 threads in shuffled order: outputs and decisions must be equal")
    @staticmethod
    def generate(S, tier):
        P = _p(); rng = S.rng
        stats = {"fixture_files": 0, "fixture_checks": 0, "differential": 0, "shuffles": 0}
        root = C.REPO
        def expect_eq(*vals):
            want = [v for v in vals]
            return lambda r: r.status == "OK" and [r.b(i) for i in range(len(want))] == want
        for suite, d in (("sha", "bls12-381-sha-256"), ("shake", "bls12-381-shake-256")):
            base = os.path.join(root, "fixture_data", d)
            lines = []; exps = []; labs = []
            def add(l, e, lab): lines.append(l); exps.append(e); labs.append("fixture:" + lab)
            j = json.load(open(os.path.join(base, "keypair.json"))); stats["fixture_files"] += 1
            add("keygen %s %s %s %s" % (suite, tb(fx(j["keyMaterial"])), tob(fx(j["keyInfo"])), tob(fx(j["keyDst"])) if "keyDst" in j else "N"),
                expect_eq(fx(j["keyPair"]["secretKey"]), fx(j["keyPair"]["publicKey"])), "keypair")
            j = json.load(open(os.path.join(base, "generators.json"))); stats["fixture_files"] += 1
            gens = [fx(j["Q1"])] + [fx(x) for x in j["MsgGenerators"]]
            add("gens %s %d S%s" % (suite, len(gens), pyc.API[suite].hex()), expect_eq(fx(j["P1"]), b"".join(gens)), "generators")
            j = json.load(open(os.path.join(base, "h2s.json"))); stats["fixture_files"] += 1
            add("h2s %s %s %s" % (suite, tb(fx(j["message"])), tb(fx(j["dst"]))), expect_eq(fx(j["scalar"])), "h2s")
            j = json.load(open(os.path.join(base, "MapMessageToScalarAsHash.json"))); stats["fixture_files"] += 1
            for c in j["cases"]:
                add("m2s %s %s %s" % (suite, tb(fx(c["message"])), tb(pyc.API[suite])), expect_eq(fx(c["scalar"])), "m2s")
            for fn in sorted(glob.glob(os.path.join(base, "signature", "*.json"))):
                j = json.load(open(fn)); stats["fixture_files"] += 1
                sk = fx(j["signerKeyPair"]["secretKey"]); pk = fx(j["signerKeyPair"]["publicKey"])
                msgs = [fx(m) for m in j["messages"]]; hdr = fx(j["header"]); sig = fx(j["signature"])
                if j["result"]["valid"]:
                    add("sign %s %s %s %s %s" % (suite, tb(sk), tb(pk), tob(hdr), tl(msgs)), expect_eq(sig), "sign")
                    add("verify %s %s %s %s %s" % (suite, tb(pk), tb(sig), tob(hdr), tl(msgs)), "ok", "verify")
                    if hdr == b"":      # the draft's "no header" vector: an ABSENT header must give the same octets / decision
                        add("sign %s %s %s N %s" % (suite, tb(sk), tb(pk), tl(msgs)), expect_eq(sig), "sign-absent-header")
                        add("verify %s %s %s N %s" % (suite, tb(pk), tb(sig), tl(msgs)), "ok", "verify-absent-header")
                    if not msgs:
                        add("sign %s %s %s %s N" % (suite, tb(sk), tb(pk), tob(hdr)), expect_eq(sig), "sign-absent-messages")
                        add("verify %s %s %s %s N" % (suite, tb(pk), tb(sig), tob(hdr)), "ok", "verify-absent-messages")
                else:
                    add("verify %s %s %s %s %s" % (suite, tb(pk), tb(sig), tob(hdr), tl(msgs)), "err", "verify-invalid")
            for fn in sorted(glob.glob(os.path.join(base, "proof", "*.json"))):
                j = json.load(open(fn)); stats["fixture_files"] += 1
                pk = fx(j["signerPublicKey"]); sig = fx(j["signature"]); hdr = fx(j["header"]); ph = fx(j["presentationHeader"])
                msgs = [fx(m) for m in j["messages"]]; D = j["disclosedIndexes"]; proof = fx(j["proof"])
                if j["result"]["valid"]:
                    U = len(msgs) - len(set(D))
                    sc = mocked_scalars(suite, 5 + U, pyc.API[suite] + b"MOCK_RANDOM_SCALARS_DST_")
                    add("Q%s proofgen %s %s %s %s %s %s %s" % ("".join("," + pyc.sc(x).hex() for x in sc), suite, tb(pk), tb(sig), tob(hdr), tob(ph), tl(msgs), ti(D)),
                        expect_eq(proof), "proofgen-mocked")
                    add("proofverify %s %s %s %s %s %s %s" % (suite, tb(pk), tb(proof), tl([msgs[i] for i in sorted(set(D))]), ti(D), tob(hdr), tob(ph)), "ok", "proofverify")
                    if hdr == b"" or ph == b"":
                        add("proofverify %s %s %s %s %s %s %s" % (suite, tb(pk), tb(proof), tl([msgs[i] for i in sorted(set(D))]), ti(D), "N" if hdr == b"" else tob(hdr), "N" if ph == b"" else tob(ph)), "ok", "proofverify-absent-header")
                else:
                    add("proofverify %s %s %s %s %s %s %s" % (suite, tb(pk), tb(proof), tl([msgs[i] for i in sorted(set(D))]), ti(D), tob(hdr), tob(ph)), "err", "proofverify-invalid")
            # blind fixtures
            bbase = os.path.join(root, "fixture_data_blind", d)
            for fn in sorted(glob.glob(os.path.join(bbase, "commit", "*.json"))):
                j = json.load(open(fn)); stats["fixture_files"] += 1
                cm = [fx(m) for m in j["committedMessages"]]
                sc = mocked_scalars(suite, len(cm) + 2, pyc.API[suite] + b"COMMIT_MOCK_RANDOM_SCALARS_DST_")
                add("Q%s commit %s %s" % ("".join("," + pyc.sc(x).hex() for x in sc), suite, tl(cm)),
                    expect_eq(fx(j["commitmentWithProof"]), fx(j["proverBlind"])), "commit-mocked")
            for fn in sorted(glob.glob(os.path.join(bbase, "signature", "*.json"))):
                j = json.load(open(fn)); stats["fixture_files"] += 1
                sk = fx(j["signerKeyPair"]["secretKey"]); pk = fx(j["signerKeyPair"]["publicKey"]); hdr = fx(j["header"])
                msgs = [fx(m) for m in j["messages"]]; cm = [fx(m) for m in j["committedMessages"]] if j.get("committedMessages") is not None else None
                cwp = fx(j["commitmentWithProof"]) if j.get("commitmentWithProof") else None
                blind = fx(j["proverBlind"]) if j.get("proverBlind") else None
                sig = fx(j["signature"])
                if j["result"]["valid"]:
                    add("blindsign %s %s %s %s %s %s" % (suite, tb(sk), tb(pk), tob(cwp), tob(hdr), tl(msgs)), expect_eq(sig), "blindsign")
                    add("blindverify %s %s %s %s %s %s %s" % (suite, tb(pk), tb(sig), tob(hdr), tl(msgs), tol(cm), tob(blind)), "ok", "blindverify")
                    if hdr == b"":
                        add("blindsign %s %s %s %s N %s" % (suite, tb(sk), tb(pk), tob(cwp), tl(msgs)), expect_eq(sig), "blindsign-absent-header")
                        add("blindverify %s %s %s N %s %s %s" % (suite, tb(pk), tb(sig), tl(msgs), tol(cm), tob(blind)), "ok", "blindverify-absent-header")
            mj = json.load(open(os.path.join(root, "fixture_data_blind", "messages.json")))
            all_msgs = [fx(m) for m in mj["messages"]]; all_cm = [fx(m) for m in mj["committedMessages"]]
            for fn in sorted(glob.glob(os.path.join(bbase, "proof", "*.json"))):
                j = json.load(open(fn)); stats["fixture_files"] += 1
                pk = fx(j["signerPublicKey"]); sig = fx(j["signature"]); hdr = fx(j["header"]); ph = fx(j["presentationHeader"])
                rm = j.get("revealedMessages"); rcm = j.get("revealedCommittedMessages")
                D = sorted(int(k) for k in rm) if rm is not None else None
                Dc = sorted(int(k) for k in rcm) if rcm is not None else None
                dm = [fx(rm[str(i)]) for i in D] if D is not None else None
                dcm = [fx(rcm[str(i)]) for i in Dc] if Dc is not None else None
                msgs = all_msgs; cm = all_cm if Dc is not None else None
                blind = fx(j["proverBlind"]) if j.get("proverBlind") else None
                proof = fx(j["proof"])
                if j["result"]["valid"]:
                    U = len(msgs) - len(D or []) + 1 + len(cm or []) - len(Dc or [])
                    sc = mocked_scalars(suite, 5 + U, pyc.API[suite] + b"PROOF_MOCK_RANDOM_SCALARS_DST_")
                    add("Q%s blindproofgen %s %s %s %s %s %s %s %s %s %s" % ("".join("," + pyc.sc(x).hex() for x in sc), suite, tb(pk), tb(sig), tob(hdr), tob(ph), tl(msgs), tol(cm), toi(D), toi(Dc), tob(blind)),
                        expect_eq(proof), "blindproofgen-mocked")
                    add("blindproofverify %s %s %s %s %s %s %s %s %s %s" % (suite, tb(pk), tb(proof), tob(hdr), tob(ph), tou(len(msgs)), tol(dm), tol(dcm), toi(D), toi(Dc)), "ok", "blindproofverify")
            stats["fixture_checks"] += len(lines)
            S.run(lines, expect=exps, label=labs)
        # ---- broad differential
        lines = []; labs = []
        def add(l, lab): lines.append(l); labs.append(lab)
        for suite in P.SUITES:
            for n in (0, 1, 31, 32, 33, 64, 1000):
                add("keygen %s %s N N" % (suite, tb(P.rb(rng, n))), "keygen-ikm-len")
            ikm = P.rb(rng, 32)
            for n in (0, 1, 255, 256, 65535, 65536, 70000):
                add("keygen %s %s %s N" % (suite, tb(ikm), tob(P.rb(rng, n))), "keygen-keyinfo-len")
            for n in (0, 1, 254, 255, 256, 300):
                add("keygen %s %s N %s" % (suite, tb(ikm), tob(P.rb(rng, n))), "keygen-dst-len")
                add("h2s %s %s %s" % (suite, tb(P.rb(rng, 20)), tb(P.rb(rng, n))), "h2s-dst-len")
                add("m2s %s %s %s" % (suite, tb(P.rb(rng, 20)), tb(P.rb(rng, max(0, n - 26)))), "m2s-dst-len")
            for n in ([0, 1, 2, 3, 17, 100] if tier == "quick" else list(range(0, 40)) + [100, 300, 1000]):
                add("gens %s %d S%s" % (suite, n, pyc.API[suite].hex()), "gens-count")
            for api in (None, b"", b"x", P.rb(rng, 200), P.rb(rng, 236), P.rb(rng, 237), P.rb(rng, 300)):
                add("gens %s 3 %s" % (suite, tob(api)), "gens-apiid")
            for n in MSG_BOUND:
                add("h2s %s %s %s" % (suite, tb(P.rb(rng, n)), tb(b"dst")), "h2s-msg-len")
            add("ms2s %s %s %s" % (suite, tl([P.rb(rng, n) for n in (0, 1, 32, 64, 200)]), tb(pyc.API[suite])), "ms2s")
            for n in (255, 256, 65535, 65536, 66000, 131072):
                add("m2s %s %s %s" % (suite, tb(P.rb(rng, n)), tb(pyc.API[suite])), "m2s-msg-len")
            add("ms2s %s %s %s" % (suite, tl([P.rb(rng, n) for n in (65535, 65536, 3)]), tb(pyc.API[suite])), "ms2s-msg-len")
            add("sk2pk %s %s" % (suite, tb(pyc.sc(rng.randrange(1, pyc.R)))), "sk2pk")
            add("sk2pk %s %s" % (suite, tb(bytes(32))), "sk2pk-zero")
            # sign at message counts around every power of two up to 128 (a fast path switched on by the count would sit there) and at
            # the counts of the fixtures: octets equal to the reference's; the decisions on them follow below
            skd = pyc.sc(rng.randrange(1, pyc.R)); 
            rk = S.run(["sk2pk %s %s" % (suite, tb(skd))], expect="ok", label="triv:sk2pk")[0]
            if rk.status == "OK":
                for Lc in ([0, 1, 2, 3, 4, 5, 7, 8, 9, 10, 11, 15, 16, 17, 31, 32, 33, 63, 64, 65, 127, 128, 129] if tier == "quick" else list(range(0, 70)) + [127, 128, 129, 255, 256, 257, 511, 512, 513, 1000]):
                    ms_ = [P.rb(rng, rng.choice([0, 1, 7, 32])) for _ in range(Lc)]
                    hd_ = rng.choice(["N", "S", "S" + P.rb(rng, 5).hex()])
                    add("sign %s %s %s %s %s" % (suite, tb(skd), tb(rk.b(0)), hd_, tl(ms_)), "sign-count")
                for hl_ in (255, 256, 4095, 4096, 4097, 10000, 65535, 65536):
                    add("sign %s %s %s S%s %s" % (suite, tb(skd), tb(rk.b(0)), P.rb(rng, hl_).hex(), tl([b"m"])), "sign-header-len")
        stats["differential"] = len(lines)
        res_d = S.run(lines, label=labs)
        # ... and the verifier's decision on each of those signatures and on the same signature with its LAST / FIRST message replaced
        vl = []; vlab = []
        for l_, lab_, r_ in zip(lines, labs, res_d):
            if lab_ == "sign-count" and r_.status == "OK":
                t_ = l_.split(" ")
                vl.append("verify %s %s %s %s %s" % (t_[1], t_[3], tb(r_.b(0)), t_[4], t_[5])); vlab.append("verify(sign-count)")
                if t_[5] not in ("L", "N") and len(t_[5]) > 1:
                    vl.append("verify %s %s %s %s %s" % (t_[1], t_[3], tb(r_.b(0)), t_[4], t_[5] + "ff")); vlab.append("verify(sign-count):last-message-extended")
        stats["differential"] += len(vl)
        if vl: S.run(vl, label=vlab)
        # decisions on honest and mutated artefacts, shuffled over 16 threads
        for suite in P.SUITES:
            keys = P.make_keys(S, suite, 2)
            flows = P.honest_sigs(S, suite, keys, [(L, "rand") for L in (0, 1, 3, 7)])
            dl = []
            for f in flows:
                dl.append("verify %s %s %s %s %s" % (suite, tb(f["pk"]), tb(f["sig"]), tob(f["header"]), tl(f["msgs"])))
                for kind, m2 in P.msg_mutations(rng, f["msgs"])[:3]:
                    dl.append("verify %s %s %s %s %s" % (suite, tb(f["pk"]), tb(f["sig"]), tob(f["header"]), tl(m2)))
                for _ in range(3):
                    q = bytearray(f["sig"]); q[rng.randrange(80)] ^= 1 << rng.randrange(8)
                    dl.append("verify %s %s %s %s %s" % (suite, tb(f["pk"]), tb(bytes(q)), tob(f["header"]), tl(f["msgs"])))
                # A moved out of the prime-order subgroup by a point of order 3 (the pairing does not see the difference): octets_to_signature refuses it
                for k_ in (1, 2):
                    at = pyc.g1_plus_torsion(f["sig"][:48], k_)
                    if at: dl += ["verify %s %s %s %s %s" % (suite, tb(f["pk"]), tb(at + f["sig"][48:]), tob(f["header"]), tl(f["msgs"])), "dec sig %s" % tb(at + f["sig"][48:])]
            # proof verifier: index lists that are not strictly ascending (descending, repeated), messages in either order
            for pp_ in P.honest_proofs(S, [(f_, [0, 2], b"p") for f_ in flows if len(f_["msgs"]) >= 3][:2]):
                m0_, m2_ = pp_["msgs"][0], pp_["msgs"][2]
                for D_, dm_ in (([2, 0], [m2_, m0_]), ([2, 0], [m0_, m2_]), ([0, 0, 2], [m0_, m0_, m2_]), ([0, 0, 2], [m0_, m2_]), ([0, 2, 2], [m0_, m2_, m2_]), ([0, 2], [m0_, m2_])):
                    dl.append(P.pv_line(pp_, D=D_, dmsgs=dm_))
            bfl_ = P.blind_flows(S, suite, keys, [(3, 2, b"h")])
            for bp_ in P.blind_proofs(S, [(b_, [0], [1], b"p") for b_ in bfl_]):
                dl.append(P.bpv_line(bp_))
                Lt_ = len(bp_["msgs"]) + 1 + len(bp_["cm"])
                for bad_ in (Lt_, Lt_ + 1, 7, 2**32):
                    dl.append(P.bpv_line(bp_, D=[0, bad_], dmsgs=[bp_["msgs"][0], b"x"]))          # out-of-range SIGNER index, a committed message disclosed
                    dl.append(P.bpv_line(bp_, D=[bad_], dmsgs=[b"x"]))
                dl.append(P.bpv_line(bp_, Dc=[1, 9], dcmsgs=[bp_["cm"][1], b"x"]))
            for b_ in bfl_:
                M_ = len(b_["cm"])
                for cnt_ in (M_ + 1, M_ + 2, M_ + 6, M_, 0):
                    dl.append("dvc %s %s %d" % (suite, tob(b_["cwp"]), cnt_))      # exactly M + 1, SURPLUS (the first M + 1 are used), too few
            nsh = 2 if tier == "quick" else 50
            base = None
            for k in range(nsh):
                res = S.run(dl, label="decision-shuffle", shuffle=S.seed * 1000 + k, model=(k == 0))
                cur = [r.core() for r in res]
                if base is None: base = cur
                elif cur != base: P.fail(S, "interleaving", "results depend on the schedule", [dl[i] for i in range(len(dl)) if cur[i] != base[i]][:3])
                stats["shuffles"] += 1
        return stats

MSG_BOUND = [0, 1, 55, 56, 63, 64, 65, 119, 120, 135, 136, 137, 255, 256, 1000, 65535, 65536]

# ====================================================================================== C11
class C11:
    LEVEL = "proof"
    RULE = ("constants regenerated from ciphersuites.rs and the separation table re-proved by computation; Generators::create vs the model for n up to 300 (thorough 2000) for all "
            "6 interface ids and arbitrary api_ids; prefix consistency create(n)[..k] = create(k); duplicate / identity / P1 / cross-id disjointness scan over all created points; every "
            "honest artefact (signature, proof, commitment, blind signature, blind proof) replayed under every other (suite, interface) must be Err")
    @staticmethod
    def generate(S, tier):
        P = _p(); rng = S.rng
        N = 120 if tier == "quick" else 2000
        stats = {"N": N, "points": 0, "cross_replays": 0}
        ids = []
        for s in P.SUITES:
            ids += [(s, pyc.API[s]), (s, pyc.API_BLIND[s]), (s, b"BLIND_" + pyc.API_BLIND[s])]
        shared = P.rb(rng, 24)
        ids += [("sha", b""), ("shake", b""), ("shake", b"x"), ("sha", b"x"), ("sha", shared), ("shake", shared), ("sha", P.rb(rng, 40))]
        # api_ids are OCTET strings: pairs that differ only in octets that are not valid UTF-8 (0xff / 0xfe, a lone continuation octet,
        # the replacement character itself), in letter case, or by a trailing NUL must give disjoint generator sets like any other pair
        for s in P.SUITES:
            ids += [(s, pyc.API[s][:-9] + b"\xff" + pyc.API[s][-9:]), (s, pyc.API[s][:-9] + b"\xfe" + pyc.API[s][-9:]),
                    (s, pyc.API[s][:-9] + b"\xef\xbf\xbd" + pyc.API[s][-9:])]
        ids += [("sha", b"\x80"), ("sha", b"\xef\xbf\xbd"), ("sha", b"\xc0"), ("sha", b"X"), ("sha", b"x\x00"), ("sha", b"\x00")]
        # an ABSENT api_id is the empty one: same generators as Some(b""), disjoint from every interface's
        absent = {}
        for s_ in P.SUITES:
            ra = S.run(["gens %s 6 N" % s_, "gens %s 6 S" % s_], expect="ok", label="gens-absent-api-id")
            if ra[0].status == "OK" and ra[1].status == "OK":
                if ra[0].b(1) != ra[1].b(1): P.fail(S, "gens-absent", "create(n, absent api_id) differs from create(n, empty api_id)", [s_])
                absent[s_] = [ra[0].b(1)[i:i+48] for i in range(0, len(ra[0].b(1)), 48)]
        # long interface ids that differ only in their LAST octets (a tag built by truncating the id would merge them)
        small = {}
        for Lid in ([100, 237, 238, 240] if tier == "quick" else [64, 100, 180, 200, 230, 236, 237, 238, 239, 240, 250]):
            base = P.rb(rng, Lid - 1)
            for s in P.SUITES:
                for last in (b"\x01", b"\x02"):
                    ids.append((s, base + last)); small[(s, base + last)] = 6
        stats["long_ids"] = len(small)
        allpts = {}
        p1s = {}
        N0 = N
        for s, api in ids:
            N = small.get((s, api), N0)
            r = S.run(["gens %s %d S%s" % (s, N, api.hex())], expect="ok", label="gens")[0]
            pts = [r.b(1)[i:i+48] for i in range(0, len(r.b(1)), 48)]
            p1s[s] = r.b(0)
            stats["points"] += len(pts)
            if len(set(pts)) != len(pts): P.fail(S, "gens-duplicate", "repeated generator", [api.hex()])
            if pyc.G1_ID in pts: P.fail(S, "gens-identity", "identity among generators", [api.hex()])
            if r.b(0) in pts: P.fail(S, "gens-p1", "P1 among generators", [api.hex()])
            for k in sorted(set(k for k in ([0, 1, 2, 5, N // 2] if tier == "quick" else [0, 1, 2, 3, 5, 17, 100, N // 2, N - 1]) if k <= N)):
                r2 = S.run(["gens %s %d S%s" % (s, k, api.hex())], expect="ok", label="gens-prefix")[0]
                if r2.b(1) != b"".join(pts[:k]): P.fail(S, "gens-prefix", "first %d generators depend on the count" % k, [api.hex()])
            for q in pts:
                if q in allpts and allpts[q] != (s, api): P.fail(S, "gens-shared", "generator shared between (suite, interface id) pairs", [s, api.hex(), allpts[q][0], allpts[q][1].hex()])
                allpts[q] = (s, api)
                if api and q in absent.get(s, []): P.fail(S, "gens-shared", "a generator of the ABSENT api_id belongs to interface id " + api.hex(), [s])
        # blind::prepare_parameters (a public function of its own): the combined set is create(n, id) ++ create(m, "BLIND_" || id) for every
        # api_id -- present, empty and ABSENT -- without a repeated point, the identity or P1
        stats["prepare_parameters"] = 0
        for s_ in P.SUITES:
            for api_t, api_b in [("N", b""), ("S", b""), ("S" + pyc.API_BLIND[s_].hex(), pyc.API_BLIND[s_]), ("S" + shared.hex(), shared),
                                 ("S" + b"BLIND_".hex(), b"BLIND_"), ("S" + (b"BLIND_" + shared[:5]).hex(), b"BLIND_" + shared[:5]), ("S" + (b"BLIND_BLIND_").hex(), b"BLIND_BLIND_")]:
                for (gn, bn) in ([(1, 1), (3, 2), (2, 5)] if tier == "quick" else [(0, 0), (1, 0), (0, 1), (1, 1), (3, 2), (2, 5), (17, 9)]):
                    spb = rng.choice(["N", "S" + (1 + rng.randrange(2**200)).to_bytes(32, "big").hex()])
                    rp = S.run(["prep %s %s %s %d %d %s %s" % (s_, tl([b"m%d" % i for i in range(max(gn - 1, 0))]), tl([b"c"] * max(bn - 1, 0)), gn, bn, spb, api_t),
                                "gens %s %d S%s" % (s_, gn, api_b.hex()), "gens %s %d S%s" % (s_, bn, (b"BLIND_" + api_b).hex())], expect="ok", label="prepare-parameters")
                    stats["prepare_parameters"] += 1
                    if all(x.status == "OK" for x in rp):
                        pts = [rp[0].b(2)[i:i+48] for i in range(0, len(rp[0].b(2)), 48)]
                        if rp[0].b(2) != rp[1].b(1) + rp[2].b(1):
                            P.fail(S, "prepare-parameters-set", "prepare_parameters does not return create(n, id) ++ create(m, BLIND_ || id)", [s_, api_t, str(gn), str(bn)])
                        if len(set(pts)) != len(pts): P.fail(S, "prepare-parameters-duplicate", "repeated point in the combined generator set", [s_, api_t, str(gn), str(bn)])
                        if pyc.G1_ID in pts or rp[0].b(1) in pts: P.fail(S, "prepare-parameters-identity", "identity / P1 in the combined generator set", [s_, api_t])
        # cross (suite, interface) replays
        lines = []; labs = []
        def add(l, lab): lines.append(l); labs.append(lab)
        for suite in P.SUITES:
            other = "shake" if suite == "sha" else "sha"
            keys = P.make_keys(S, suite, 2)
            flows = P.honest_sigs(S, suite, keys, [(2, b"h"), (0, None), (4, "rand")])
            proofs = P.honest_proofs(S, [(f, [0] if f["msgs"] else [], b"p") for f in flows])
            bfl = P.blind_flows(S, suite, keys, [(2, 1, b"h"), (0, 0, None), (1, 2, "rand")])
            bproofs = P.blind_proofs(S, [(b, [0] if b["msgs"] else [], [0] if b["cm"] else [], b"p") for b in bfl])
            for f in flows:
                add("verify %s %s %s %s %s" % (other, tb(f["pk"]), tb(f["sig"]), tob(f["header"]), tl(f["msgs"])), "sig:other-suite")
                for st in (suite, other):
                    add("blindverify %s %s %s %s %s N N" % (st, tb(f["pk"]), tb(f["sig"]), tob(f["header"]), tl(f["msgs"])), "sig:blind-interface")
            for p in proofs:
                add(P.pv_line(p, suite=other), "proof:other-suite")
                for st in (suite, other):
                    add("blindproofverify %s %s %s %s %s %s %s L %s I" % (st, tb(p["pk"]), tb(p["proof"]), tob(p["header"]), tob(p["ph"]), tou(len(p["msgs"])), tl(P.pick(p["msgs"], p["D"])), ti(p["D"])), "proof:blind-interface")
                    # ... and with every blind-specific argument ABSENT (L, committed messages, their indexes): still the blind interface
                    add("blindproofverify %s %s %s %s %s N %s N %s N" % (st, tb(p["pk"]), tb(p["proof"]), tob(p["header"]), tob(p["ph"]), tl(P.pick(p["msgs"], p["D"])), ti(p["D"])), "proof:blind-interface-absent-args")
                    add("blindproofverify %s %s %s %s %s N %s N %s N" % (st, tb(p["pk"]), tb(p["proof"]), tob(p["header"]), tob(p["ph"]), tol(P.pick(p["msgs"], p["D"]) or None), toi(p["D"] or None)), "proof:blind-interface-absent-args")
            for b in bfl:
                add("blindsign %s %s %s %s %s %s" % (other, tb(b["sk"]), tb(b["pk"]), tob(b["cwp"]), tob(b["header"]), tl(b["msgs"])), "commit:other-suite")
                add(P.bv_line(b, suite=other), "blindsig:other-suite")
                add("verify %s %s %s %s %s" % (suite, tb(b["pk"]), tb(b["sig"]), tob(b["header"]), tl(b["msgs"] + [b"\0" * 32] + b["cm"])), "blindsig:plain-interface")
                add("verify %s %s %s %s %s" % (suite, tb(b["pk"]), tb(b["sig"]), tob(b["header"]), tl(b["msgs"])), "blindsig:plain-interface")
            for p in bproofs:
                add(P.bpv_line(p, suite=other), "blindproof:other-suite")
                L = len(p["msgs"])
                add("proofverify %s %s %s %s %s %s %s" % (suite, tb(p["pk"]), tb(p["proof"]), tl(P.pick(p["msgs"], p["D"]) + P.pick(p["cm"], p["Dc"])), ti(p["D"] + [j + L + 1 for j in p["Dc"]]), tob(p["header"]), tob(p["ph"])), "blindproof:plain-interface")
        stats["cross_replays"] = len(lines)
        S.run(lines, expect="err", label=labs)
        return stats

# ====================================================================================== C12
class C12:
    LEVEL = "proof"
    RULE = ("update histories on both suites: from a valid signature, sequences (i_1,v_1)...(i_k,v_k) over ALL positions for small L and random ones for larger L, values incl. empty / long / "
            "repeated; after every step: the updated signature verifies for the current vector, equals (byte for byte) the signature with the same exponent computed by the model, "
            "and does not verify for any earlier different vector; i in {L, L+1, 2^63, usize::MAX} and n in {0, usize::MAX} => Err; a wrong old value never verifies for the intended vector")
    @staticmethod
    def generate(S, tier):
        P = _p(); rng = S.rng
        Ls = [1, 2, 3, 5] if tier == "quick" else [1, 2, 3, 4, 5, 8, 17, 33]
        K = 8 if tier == "quick" else 32
        stats = {"histories": 0, "steps": 0}
        for suite in P.SUITES:
            keys = P.make_keys(S, suite, 2)
            flows = P.honest_sigs(S, suite, keys, [(L, "rand") for L in Ls])
            # a vector with MORE than 256 messages, updated at positions on both sides of 255 / 256 (a generator index kept in one octet would wrap there)
            for fb in P.honest_sigs(S, suite, keys, [(260 if tier == "quick" else 520, b"h")], label="triv:sign-large"):
                Lb = len(fb["msgs"]); curb = list(fb["msgs"]); sigb = fb["sig"]
                for i in ([0, 3, 253, 254, 255, 256, 259] if tier == "quick" else [0, 3, 127, 128, 253, 254, 255, 256, 257, 259, 263, 511, 512, 519]):
                    v = P.rb(rng, 9)
                    r = S.run(["update %s %s %s %s %s %d %d" % (suite, tb(fb["sk"]), tb(sigb), tb(curb[i]), tb(v), i, Lb)], expect="ok", label="update(large vector)")[0]
                    if r.status != "OK": break
                    sigb = r.b(0); curb[i] = v; stats["steps"] += 1
                    S.run(["verify %s %s %s %s %s" % (suite, tb(fb["pk"]), tb(sigb), tob(fb["header"]), tl(curb))], expect="ok", label="verify(update(large vector))")
                stats["histories"] += 1
            for f in flows:
                L = len(f["msgs"]); cur = list(f["msgs"]); sig = f["sig"]; hist = [list(cur)]
                stats["histories"] += 1
                order = list(range(L)) * 2 + [rng.randrange(L) for _ in range(K)]
                for step in range(min(K, len(order))):
                    i = order[step]
                    v = rng.choice([b"", P.rb(rng, 1), P.rb(rng, 32), P.rb(rng, 300), cur[i] + b"\1"])
                    if v == cur[i]: v = v + b"\2"
                    r = S.run(["update %s %s %s %s %s %d %d" % (suite, tb(f["sk"]), tb(sig), tb(cur[i]), tb(v), i, L)], expect="ok", label="update")[0]
                    if r.status != "OK": break
                    # wrong old value (stated old != actual old): result must not verify for the intended vector
                    wrong_old = cur[i] + b"\7"
                    rw = S.run(["update %s %s %s %s %s %d %d" % (suite, tb(f["sk"]), tb(sig), tb(wrong_old), tb(v), i, L)], label="update-wrong-old")[0]
                    nxt = list(cur); nxt[i] = v
                    if rw.status == "OK":
                        S.run(["verify %s %s %s %s %s" % (suite, tb(f["pk"]), tb(rw.b(0)), tob(f["header"]), tl(nxt))], expect="err", label="wrong-old-rejected")
                    sig = r.b(0); cur = nxt; stats["steps"] += 1
                    if sig[48:] != f["sig"][48:]: P.fail(S, "update-exponent", "exponent changed by update", [sig.hex()])
                    S.run(["verify %s %s %s %s %s" % (suite, tb(f["pk"]), tb(sig), tob(f["header"]), tl(cur))], expect="ok", label="verify(update)")
                    # the key holder's signature for the current vector with the same exponent: re-sign is deterministic in (sk, msgs, header) and
                    # generally has another e, so equality of A is checked by the model comparison of `update`; earlier vectors must be rejected
                    old = [h for h in hist if h != cur]
                    for h in old[-3:]:
                        S.run(["verify %s %s %s %s %s" % (suite, tb(f["pk"]), tb(sig), tob(f["header"]), tl(h))], expect="err", label="old-vector-rejected")
                    hist.append(list(cur))
                for i in (L, L + 1, 2**32, 2**63, 2**64 - 1):
                    S.run(["update %s %s %s %s %s %d %d" % (suite, tb(f["sk"]), tb(f["sig"]), tb(f["msgs"][0]), tb(b"v"), i, L)], expect="err", label="update-oob")
                    # same, with a no-op value (old = new) and with an empty old value: the position check must not depend on the values
                    S.run(["update %s %s %s %s %s %d %d" % (suite, tb(f["sk"]), tb(f["sig"]), tb(v0), tb(v0), i, L) for v0 in (f["msgs"][0], b"", b"v")], expect="err", label="update-oob-noop")
                # an in-range no-op update returns the same signature
                r0 = S.run(["update %s %s %s %s %s %d %d" % (suite, tb(f["sk"]), tb(f["sig"]), tb(f["msgs"][0]), tb(f["msgs"][0]), 0, L)], expect="ok", label="update-noop")[0]
                if r0.status == "OK" and r0.b(0) != f["sig"]: P.fail(S, "update-noop", "no-op update changed the signature", [f["sig"].hex()])
                S.run(["update %s %s %s %s %s %d %d" % (suite, tb(f["sk"]), tb(f["sig"]), tb(f["msgs"][0]), tb(b"v"), 0, n) for n in (0, 2**64 - 1)], expect="err", label="update-bad-n")
        return stats
