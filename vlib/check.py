"""Generic check driver: proofs + constants + correspondence + implementation-side sweep -> verdict."""
import os, sys, time, json, hashlib, re
from . import common as C

ALLOWED_AXIOMS = set()   # Print Assumptions must report "Closed under the global context"

EXPECT = {
    "ok": lambda r: r.status == "OK",
    "err": lambda r: r.status == "ERR",
    "reject": lambda r: r.status in ("ERR", "PANIC"),
    "nopanic": lambda r: r.status in ("OK", "ERR"),
    None: lambda r: True,
}

TRUSTED_BASE = [
    "Coq 8.16.1 kernel; vm_compute (finite-table obligations, Examples); no native_compute",
    "Print Assumptions of every pinned theorem must be 'Closed under the global context' (checked each run)",
    "premises Laws E (Proofs/Laws.v): prime-order bilinear group in discrete-log form, field laws for scalars, canonical point/scalar codecs -- true of BLS12-381, not proved for bls12_381_plus",
    "translator gen/consts.py (ciphersuites.rs -> Generated/Consts.v)",
    "extraction: ExtrOcamlBasic, ExtrOcamlZBigInt (positive/N/Z -> zarith, its Extract Constant Pos.*/N.*/Z.* directives) plus Extract Constant N.land/N.lor/N.lxor -> Big_int_Z.and/or/xor_big_int",
    "OCaml driver ocaml/driver.ml, zarith, pipe protocol; primitive server harness/prims (bls12_381_plus, elliptic_curve: curve, pairing, hash_to_curve, point (de)compression are modelled, not verified)",
    "Rust harness harness/implrun and hooks (feature verif_hooks) in /repo",
    "hand-written Gallina model coq/Model/*.v: tied to the code only by the correspondence check (differential, generator quality bounds it)",
]

TRUSTED_BASE_CL = [
    "Coq 8.16.1 kernel; vm_compute (finite-table obligations, concrete finding witnesses); no native_compute",
    "Print Assumptions of every pinned theorem must be 'Closed under the global context' (checked each run)",
    "explicit premises of the theorems: good_key (1 < N, 1 < phi, Euler's theorem for N, b and c coprime to N), bases coprime to / invertible modulo N, random_bits draws non-negative (bits_ok) -- checked on the implementation's runs by the harness where a theorem is claimed for them; primality of generated primes is GMP's (probable primes), re-tested not proved",
    "rug::Integer / GMP arithmetic modelled by Coq's Z (pow_mod, invert, gcd, sqrt, `%` = Z.rem, to_string, from_digits); GMP's next_prime / is_probably_prime replaced by logged results and a 12-base Miller-Rabin",
    "translator gen/consts.py (cl03/ciphersuites.rs, range_proof.rs constants, random_bits arguments of sigma_protocols.rs -> Generated/ClConsts.v)",
    "extraction: ExtrOcamlBasic, ExtrOcamlZBigInt (positive/N/Z -> zarith with its Extract Constant Pos.*/N.*/Z.* directives) plus Extract Constant N.land/N.lor/N.lxor",
    "OCaml driver ocaml/driver.ml (incl. its JSON flattener), zarith; Python flattener vlib/clj.py; Rust harness harness/implrun/src/cl.rs (ciphersuites toy, toy2 (ln != 2 SECPARAM) and micro defined there) and hooks (feature verif_hooks) in /repo",
    "extraction and driver are cross-checked, not only trusted: arithmetic primitives (C13, C16) and whole protocol runs on the micro suite (C14, C15) are re-evaluated inside Coq by vm_compute on the Gallina definitions and must print what the extracted model printed",
    "hand-written Gallina model coq/Model/Cl.v: tied to the code only by the correspondence check (differential with logged randomness; generator quality bounds it)",
]

def run_check(pid, prop, tier, seed):
    t0 = time.time()
    ev = {"property_id": pid, "tier": tier, "seed": seed, "level": prop.LEVEL, "coverage": {}, "assumptions": [], "violations": 0}
    cov = ev["coverage"]
    broken = []      # broken proof obligations / ties (strings)
    rd = os.path.join(C.VERIF, "replays")
    if os.path.isdir(rd):
        for f in os.listdir(rd):
            if f.startswith(pid + "_"): os.remove(os.path.join(rd, f))
    # ---- 1. constants, hygiene, proofs
    okc, outc = C.regen_consts()
    if not okc: broken.append("constants translator failed: " + outc.strip()[-300:])
    hyg = C.coq_hygiene()
    if hyg: broken.append("forbidden vernacular: " + "; ".join(hyg[:5]))
    st = C.source_state_scan()
    if st: broken.append("library source now holds mutable global / thread-local state the pure model does not represent: " + "; ".join(st[:4]))
    okp, plog, pinned = C.coq_property(pid)
    closed, axioms = C.parse_assumptions(plog)
    if not okp:
        m = re.search(r'File "([^"]+)", line (\d+)[^\n]*\n(?:.*\n)?Error:?\s*((?:.|\n){0,400})', plog)
        broken.append("Coq build of Properties/%s.v failed: %s" % (pid, (m.group(1) + ":" + m.group(2) + " " + m.group(3).strip()) if m else plog[-400:]))
    bad_ax = [a for a in axioms if a not in ALLOWED_AXIOMS]
    if bad_ax: broken.append("unexpected axioms: " + ", ".join(bad_ax))
    n_pa = len(re.findall(r"^\s*Print Assumptions", open(os.path.join(C.COQ, "Properties", pid + ".v")).read(), flags=re.M))
    if okp and closed != n_pa:
        broken.append("Print Assumptions: %d of %d closed" % (closed, n_pa))
    cov["obligations"] = max(1, len(pinned))
    cov["discharged"] = len(pinned) if (okp and not bad_ax and not hyg and okc) else 0
    cov["pinned_theorems"] = pinned
    cov["print_assumptions"] = {"closed_under_global_context": closed, "axioms": axioms}
    cov["checker_cmd"] = "make -C coq Properties/%s.vo (coqc 8.16.1, full .vo build) + Print Assumptions + vernacular grep" % pid
    if tier == "thorough" and okp:
        # independent re-check of the compiled property file and everything it depends on
        okall, _ = C.coq_make()
        rc, out = C.sh(["timeout", "3000", "coqchk", "-silent", "-o"] + sum([["-Q", d, "ZK"] for d in ("Base", "Hash", "Model", "Proofs", "Generated", "Properties")], []) + ["ZK." + pid], cwd=C.COQ)
        m = re.search(r"\* Axioms:\s*(.*?)\n\s*\n", out, re.S)
        cov["coqchk"] = {"exit": rc, "axioms": (m.group(1).strip() if m else "?")}
        if rc != 0 or not m or m.group(1).strip() != "<none>":
            broken.append("coqchk on ZK.%s: exit %d, axioms %s" % (pid, rc, cov["coqchk"]["axioms"][:200]))
    cov["trusted_base"] = (TRUSTED_BASE_CL if getattr(prop, "CL03", False) else TRUSTED_BASE) + getattr(prop, "EXTRA_TRUST", [])
    # ---- 2. builds
    okh, outh = C.build_harness(cl03=True)
    if not okh:
        return finish(pid, ev, t0, fatal="harness/zkryptium does not build from /repo's working tree:\n" + outh[-1500:])
    okm, outm = C.build_model()
    if not okm and "Generated/" in outm:
        # the constants regenerated from the source do not fit the model any more: the tie is broken.  The search for a failing input goes
        # on with the constants as committed (what the source said when the theorems were last checked against it)
        broken.append("constants regenerated from the source no longer compile with the model: " + outm.strip()[-300:])
        cov["discharged"] = 0
        for gf in ("Consts.v", "ClConsts.v"):
            rc_, txt = C.sh(["git", "-C", C.VERIF, "show", "HEAD:coq/Generated/" + gf])
            if rc_ == 0: open(os.path.join(C.COQ, "Generated", gf), "w").write(txt)
        okm, outm = C.build_model()
    if not okm:
        return finish(pid, ev, t0, fatal="model extraction/driver build failed:\n" + outm[-1500:])
    # ---- 3. cases: corpus first, then generated
    S = C.Session(pid, seed)
    corpus = os.path.join(C.VERIF, "corpus", pid + ".cases")
    if os.path.exists(corpus):
        rows = [l.rstrip("\n").split("\t") for l in open(corpus) if l.strip() and not l.startswith("#")]
        if rows:
            S.run([r[2] for r in rows], expect=[None if r[0] == "any" else r[0] for r in rows], label=["corpus:" + r[1] for r in rows])
    try:
        stats = prop.generate(S, tier) or {}
    except Exception as ex:      # the generator could not interpret what the implementation returned: the tie is broken, not the check
        import traceback
        stats = {"generator_exception": repr(ex)[:300]}
        S.broken = getattr(S, "broken", []) + ["the harness could not interpret the implementation's output (%s): %s" % (type(ex).__name__, traceback.format_exc()[-600:])]
    broken += getattr(S, "broken", [])
    # ---- 3b. history independence (single thread, other orders)
    hn, hfails = S.history_pass(1500 if tier == "quick" else 6000)
    cov["history_pass_evaluations"] = hn
    # ---- 4. model on the same cases
    model = S.run_model()
    disagreements = []; sweep_fail = []; seen = set(); nontrivial = set()
    status_hist = {}
    for i, (line, r, exp, label, usemodel) in enumerate(S.cases):
        status_hist[r.status] = status_hist.get(r.status, 0) + 1
        h = hashlib.sha1(line.encode()).hexdigest()
        seen.add(h)
        if not label.startswith("triv"): nontrivial.add(h)
        if usemodel:
            m = model[i]
            if m is None or m.core() != r.core():
                disagreements.append({"case": line, "impl": r.raw[:600], "model": (m.raw[:600] if m else None), "label": label})
        f = exp if callable(exp) else EXPECT[exp]
        if not f(r):
            sweep_fail.append({"case": line, "impl": r.raw[:600], "expected": exp if not callable(exp) else "predicate", "label": label})
    for f in getattr(S, "extra_failures", []):
        sweep_fail.append(f)
    if getattr(prop, "DISAGREEMENT_IS_VIOLATION", False):
        for d in disagreements:
            sweep_fail.append({"label": "differs-from-reference|" + d["label"], "case": d["case"], "impl": d["impl"], "expected": "reference (extracted Coq model): " + str(d["model"])})
    sweep_fail += hfails
    # ---- 4b. a sample of the cases re-evaluated inside Coq (vm_compute on the Gallina definitions, no extraction)
    ce = getattr(prop, "coq_eval_terms", None)
    if ce:
        picks = ce(S)      # [(case index, Gallina term)]
        if picks:
            vals, clog = C.coq_eval(pid, [t for _, t in picks])
            n_ok = 0
            if vals is None:
                broken.append("in-Coq re-evaluation failed to compile: " + clog[-300:])
            else:
                for (i, term), v in zip(picks, vals):
                    want = C.show_model_result(model[i].core()) if model[i] else None
                    got = (v or "").replace("%Z", "").replace("%N", "")
                    if want is None or got != want:
                        broken.append("extracted model and in-Coq evaluation differ on case %r: Coq %s, OCaml %s" % (S.cases[i][0][:120], (got or "")[:120], (want or "")[:120]))
                    else: n_ok += 1
            cov["in_coq_reevaluations"] = {"cases": len(picks), "agree": n_ok}
    cov["evaluations"] = len(S.cases)
    cov["distinct_nontrivial"] = len(nontrivial)
    cov["rule"] = prop.RULE
    cov["traces_validated_against_impl"] = sum(1 for c in S.cases if c[4])
    cov["impl_status_histogram"] = status_hist
    cov["distribution"] = stats
    cov["samples"] = [c[0][:400] for c in S.cases[:: max(1, len(S.cases) // 5)]][:6]
    cov["disagreements"] = len(disagreements)
    cov["sweep_failures"] = len(sweep_fail)
    cov["exhaustive"] = False
    ev["assumptions"] = cov["trusted_base"]
    # ---- 5. verdict
    known = [(k, d) for (p, k, d) in C.known_findings() if p == pid]
    unlisted = []
    reported_known = set()
    for f in sweep_fail:
        key = f["label"].split("|")[0]
        hit = [k for k, d in known if k == key]
        if hit:
            reported_known.add(hit[0])
        else:
            unlisted.append(f)
    for k, d in known:
        if k in reported_known:
            print("KNOWN-FINDING: property=%s %s %s" % (pid, k, d))
    rc = 0
    if unlisted:
        path = C.write_replay(pid, "sweep", {"property": pid, "kind": "implementation violates the property on this input",
                                             "failures": unlisted[:20], "seed": seed, "tier": tier})
        print("VIOLATION property=%s replay=%s" % (pid, path)); rc = 1
        ev["violations"] = len(unlisted)
    elif broken or disagreements:
        # broken proof obligation or correspondence without a failing property instance: the
        # property-specific extended search already ran as part of generate(); report
        path = C.write_replay(pid, "broken", {"property": pid, "broken_obligations": broken,
                                              "correspondence_disagreements": disagreements[:20], "seed": seed, "tier": tier,
                                              "note": "no input on which the property itself fails was found by the sweep"})
        print("VIOLATION property=%s replay=%s no-failing-input-found" % (pid, path)); rc = 1
        ev["violations"] = len(broken) + len(disagreements)
    return finish(pid, ev, t0, rc=rc)

def finish(pid, ev, t0, rc=0, fatal=None):
    ev["wall_s"] = round(time.time() - t0, 2)
    if fatal:
        cov = ev["coverage"]
        cov.setdefault("obligations", 1); cov.setdefault("discharged", 0)
        cov.setdefault("checker_cmd", "n/a"); cov.setdefault("trusted_base", [])
        cov["fatal"] = fatal[:2000]
        path = C.write_replay(pid, "build", {"property": pid, "fatal": fatal})
        print("VIOLATION property=%s replay=%s no-failing-input-found" % (pid, path))
        ev["violations"] = 1; rc = 1
    C.write_evidence(pid, ev)
    C.log("[%s] %s in %.1fs: evaluations=%s disagreements=%s sweep_failures=%s discharged=%s/%s" % (
        pid, "FAIL" if rc else "ok", ev["wall_s"], ev["coverage"].get("evaluations"), ev["coverage"].get("disagreements"),
        ev["coverage"].get("sweep_failures"), ev["coverage"].get("discharged"), ev["coverage"].get("obligations")))
    return rc
