"""Shared plumbing for the checks: paths, builds (Coq, OCaml driver, Rust harness), running the
implementation and the extracted model on a case list, comparing, evidence and verdicts."""
import os, sys, subprocess, json, time, hashlib, fcntl, re, shutil, random

VERIF = os.path.dirname(os.path.dirname(os.path.abspath(__file__)))
REPO = os.environ.get("VERIF_REPO") or os.environ.get("VP_RUN_REPO") or "/repo"   # vp run --with-repo hands over a snapshot of /repo
CACHE = os.path.join(VERIF, ".cache")
TARGET = os.path.join(CACHE, "target")
COQ = os.path.join(VERIF, "coq")
OCAML_SRC = os.path.join(VERIF, "ocaml")
OCAML_BUILD = os.path.join(CACHE, "ocaml")
HARNESS = os.path.join(VERIF, "harness")
WORK = os.path.join(CACHE, "work")
NPROC = 16

def log(*a):
    print(*a, file=sys.stderr, flush=True)

def sh(cmd, cwd=None, env=None, timeout=None, check=False):
    e = dict(os.environ)
    if env: e.update(env)
    p = subprocess.run(cmd, cwd=cwd, env=e, shell=isinstance(cmd, str), stdout=subprocess.PIPE,
                       stderr=subprocess.STDOUT, timeout=timeout, text=True)
    if check and p.returncode != 0:
        raise RuntimeError("command failed (%d): %s\n%s" % (p.returncode, cmd, p.stdout[-4000:]))
    return p.returncode, p.stdout

class Lock:
    def __init__(self, name):
        os.makedirs(CACHE, exist_ok=True)
        self.path = os.path.join(CACHE, name + ".lock")
    def __enter__(self):
        self.f = open(self.path, "w"); fcntl.flock(self.f, fcntl.LOCK_EX); return self
    def __exit__(self, *a):
        fcntl.flock(self.f, fcntl.LOCK_UN); self.f.close()

# ------------------------------------------------------------------------------------------ Coq
FORBIDDEN = re.compile(r"\b(Admitted|admit|Axiom|Axioms|Parameter|Parameters|Conjecture|Hypothesis|Variable|"
                       r"Unset\s+Guard|bypass_check|Admit\s+Obligations|type-in-type|impredicative-set)\b")

def coq_sources():
    out = []
    for root, _, files in os.walk(COQ):
        for f in files:
            if f.endswith(".v"): out.append(os.path.join(root, f))
    return sorted(out)

def strip_coq_comments(s):
    out = []; depth = 0; i = 0
    while i < len(s):
        if s.startswith("(*", i): depth += 1; i += 2; continue
        if s.startswith("*)", i) and depth > 0: depth -= 1; i += 2; continue
        if depth == 0: out.append(s[i])
        i += 1
    return "".join(out)

def coq_hygiene():
    """No Admitted/admit/Axiom/Parameter/... anywhere; Variable/Hypothesis only inside Sections."""
    problems = []
    for path in coq_sources():
        txt = strip_coq_comments(open(path).read())
        depth = 0
        for ln, line in enumerate(txt.split("\n"), 1):
            if re.match(r"\s*Section\b", line): depth += 1
            if re.match(r"\s*End\b", line) and depth > 0: depth -= 1
            for m in FORBIDDEN.finditer(line):
                w = m.group(1)
                if w in ("Variable", "Hypothesis") and depth > 0: continue
                if w in ("Variable", "Hypothesis") and re.match(r"\s*Section\b", line): continue
                problems.append("%s:%d: %s" % (os.path.relpath(path, VERIF), ln, w))
    return problems

def regen_consts():
    rc, out = sh([sys.executable, os.path.join(VERIF, "gen", "consts.py"),
                  os.path.join(COQ, "Generated", "Consts.v")])
    return rc == 0, out

def coq_make(targets=None, timeout=1500):
    """Full .vo build of the development (or of some targets).  Returns (ok, log)."""
    with Lock("coq"):
        if not os.path.exists(os.path.join(COQ, "Makefile")) or \
           os.path.getmtime(os.path.join(COQ, "_CoqProject")) > os.path.getmtime(os.path.join(COQ, "Makefile")):
            sh("coq_makefile -f _CoqProject -o Makefile", cwd=COQ, check=True)
        cmd = ["timeout", str(timeout), "make", "-j%d" % NPROC] + (targets or [])
        rc, out = sh(cmd, cwd=COQ)
        return rc == 0, out

def coq_property(pid, timeout=1500):
    """(Re)compile Properties/<pid>.v and return (ok, log, pinned theorem names, assumptions text)."""
    vo = "Properties/%s.vo" % pid
    src = os.path.join(COQ, "Properties", pid + ".v")
    # force recompilation of the property file itself so that Print Assumptions output is fresh
    for ext in (".vo", ".glob", ".vok", ".vos"):
        p = os.path.join(COQ, "Properties", pid + ext)
        if os.path.exists(p): os.remove(p)
    ok, out = coq_make([vo], timeout)
    pinned = re.findall(r"^\s*Check\s+\(?@?([A-Za-z0-9_']+)", open(src).read(), flags=re.M) if os.path.exists(src) else []
    return ok, out, pinned

def parse_assumptions(out):
    """Collect the answers of Print Assumptions: 'Closed under the global context' or axiom lists."""
    closed = len(re.findall(r"Closed under the global context", out))
    axioms = []
    for m in re.finditer(r"Axioms:\n((?:.+\n?)+?)(?=\n\S|\Z)", out):
        for line in m.group(1).split("\n"):
            mm = re.match(r"^([A-Za-z0-9_.']+)\s*:", line)
            if mm: axioms.append(mm.group(1))
    return closed, sorted(set(axioms))

# ------------------------------------------------------------------------------------------ builds
def cargo_env():
    return {"CARGO_NET_OFFLINE": "true", "CARGO_TARGET_DIR": TARGET,
            "M4": os.path.join(HARNESS, "gmp", "fakem4"),
            "CONFIG_SITE": os.path.join(HARNESS, "gmp", "config.site"),
            "GMP_MPFR_SYS_CACHE": os.path.join(CACHE, "gmp")}

def build_harness(cl03=True, timeout=1800):
    with Lock("cargo"):
        lock = os.path.join(HARNESS, "Cargo.lock")
        if not os.path.exists(lock):
            shutil.copy(os.path.join(REPO, "Cargo.lock"), lock)
        cmd = ["timeout", str(timeout), "cargo", "build", "--offline", "--release", "-q"]
        if cl03: cmd += ["--features", "implrun/cl03"]
        if REPO != "/repo": cmd += ["--config", 'paths=["%s"]' % REPO]     # the harness names /repo; a snapshot overrides it by path
        rc, out = sh(cmd, cwd=HARNESS, env=cargo_env())
        return rc == 0, out

def build_model(timeout=900):
    """Extract the model (coq/Extract.v) and build the OCaml driver; cached on the extracted text."""
    with Lock("ocaml"):
        gen = os.path.join(OCAML_SRC, "gen"); os.makedirs(gen, exist_ok=True); os.makedirs(OCAML_BUILD, exist_ok=True)
        ok, out = coq_make(["Model/RealEnv.vo", "Generated/Consts.vo", "Model/ClOps.vo", "Generated/ClConsts.vo"])
        if not ok: return False, out
        qs = []
        for d in ("Base", "Hash", "Model", "Generated"):
            qs += ["-Q", os.path.join(COQ, d), "ZK"]
        rc, out = sh(["timeout", str(timeout), "coqc"] + qs + [os.path.join(COQ, "Extract.v")], cwd=gen)
        if rc != 0: return False, out
        h = hashlib.sha256()
        for f in (os.path.join(gen, "model.ml"), os.path.join(gen, "model.mli"), os.path.join(OCAML_SRC, "driver.ml")):
            h.update(open(f, "rb").read())
        stamp = os.path.join(OCAML_BUILD, "stamp")
        exe = os.path.join(OCAML_BUILD, "model_bbs")
        if os.path.exists(exe) and os.path.exists(stamp) and open(stamp).read() == h.hexdigest():
            return True, "cached"
        for f in ("model.ml", "model.mli"): shutil.copy(os.path.join(gen, f), OCAML_BUILD)
        shutil.copy(os.path.join(OCAML_SRC, "driver.ml"), OCAML_BUILD)
        rc, out = sh(["timeout", str(timeout), "ocamlfind", "ocamlopt", "-O2", "-package", "zarith,unix", "-linkpkg",
                      "-w", "-a", "model.mli", "model.ml", "driver.ml", "-o", "model_bbs"], cwd=OCAML_BUILD)
        if rc != 0: return False, out
        open(stamp, "w").write(h.hexdigest())
        return True, out

IMPLRUN = os.path.join(TARGET, "release", "implrun")
PRIMS = os.path.join(TARGET, "release", "prims")
MODEL = os.path.join(OCAML_BUILD, "model_bbs")

# ------------------------------------------------------------------------------------------ tokens
def tb(b): return b.hex() if len(b) else "-"
def tob(b): return "N" if b is None else "S" + b.hex()
def tl(l): return "L" + "".join("," + m.hex() for m in l)
def tol(l): return "N" if l is None else tl(l)
def ti(l): return "I" + "".join(",%d" % i for i in l)
def toi(l): return "N" if l is None else ti(l)
def tou(n): return "N" if n is None else "U%d" % n

class Result:
    __slots__ = ("status", "toks", "draws", "gens", "raw")
    def __init__(self, raw):
        self.raw = raw; self.draws = None; self.gens = None
        parts = raw.split(" ")
        self.status = parts[0]; toks = []
        for p in parts[1:]:
            if p.startswith("D:"): self.draws = p
            elif p.startswith("G:"): self.gens = p
            else: toks.append(p)
        self.toks = toks
    def core(self):
        # JSON documents (CL03 proofs) are compared in their flat integer form
        from . import clj
        return " ".join([self.status] + [clj.flat_tok(clj.untok(t)) if t[:1] == "J" and len(t) > 1 else t for t in self.toks])
    def json(self, i):
        from . import clj
        return clj.untok(self.toks[i])
    def z(self, i): return int(self.toks[i])
    def zl(self, i): return [int(x) for x in self.toks[i].split(",")[1:]]
    def b(self, i):
        t = self.toks[i]; return b"" if t == "-" else bytes.fromhex(t)

def _parse_out(text, n):
    res = [None] * n
    pat = re.compile(r"^(\d+) ((?:OK|ERR|PANIC|TIMEOUT|NODRAW|MODELFAIL)(?: .*)?)$")
    for line in text.split("\n"):
        m = pat.match(line)      # the library prints diagnostics of its own on stdout: ignored
        if m: res[int(m.group(1))] = Result(m.group(2))
    return res

class Session:
    """Collects every case run against the implementation so that the model can be run on the
    same cases (with the logged draws) afterwards."""
    def __init__(self, pid, seed, threads=NPROC, timeout=20):
        self.pid = pid; self.seed = seed; self.threads = threads; self.timeout = timeout
        self.cases = []      # (line, impl Result, expect, label, model?:bool)
        self.rng = random.Random(seed)
        os.makedirs(WORK, exist_ok=True)
        self.batch = 0
    def run(self, lines, expect=None, label="", model=True, shuffle=None):
        """Run a batch on the implementation; expect in {None,'ok','err','nopanic', callable}."""
        if not lines: return []
        self.batch += 1
        f = os.path.join(WORK, "%s_%d_%d.cases" % (self.pid, os.getpid(), self.batch))
        open(f, "w").write("\n".join(lines) + "\n")
        cmd = [IMPLRUN, f, "--threads", str(self.threads), "--timeout", str(self.timeout)]
        if shuffle is not None: cmd += ["--shuffle", str(shuffle)]
        p = subprocess.run(cmd, stdout=subprocess.PIPE, stderr=subprocess.PIPE, text=True)
        os.remove(f)
        if p.returncode != 0:
            raise RuntimeError("implrun failed: " + p.stderr[-2000:])
        res = _parse_out(p.stdout, len(lines))
        exps = expect if isinstance(expect, list) else [expect] * len(lines)
        labs = label if isinstance(label, list) else [label] * len(lines)
        for l, r, e, lb in zip(lines, res, exps, labs):
            self.cases.append([l, r, e, lb, model])
        return res
    def history_pass(self, limit):
        """Re-run a sample of the deterministic cases sequentially on ONE thread in a shuffled order and in
        reverse order: every result must equal the result of the first (multi-threaded) run.  Finds behaviour
        that depends on what the thread or process did before (caches, stale state)."""
        idx = [i for i, c in enumerate(self.cases) if c[1].draws is None and c[1].status in ("OK", "ERR")]
        if len(idx) > limit:
            keep = set(idx[:: max(1, len(idx) // limit)][:limit])
            # honest (expected-Ok) operations are what fills caches: keep them
            keep |= set([i for i in idx if self.cases[i][2] == "ok"][:limit])
            # generator requests are cheap and are where caches live: keep them all
            keep |= {i for i in idx if self.cases[i][0].split(" ")[0].lstrip("Q") in ("gens",)}
            idx = sorted(keep)
        fails = []; n = 0
        for mode in ("shuffle", "reverse", "forward"):
            order = list(idx)
            if mode == "reverse": order.reverse()
            lines = [self.cases[i][0] for i in order]
            if not lines: continue
            self.batch += 1
            f = os.path.join(WORK, "%s_%d_h%d.cases" % (self.pid, os.getpid(), self.batch))
            open(f, "w").write("\n".join(lines) + "\n")
            cmd = [IMPLRUN, f, "--threads", "1", "--timeout", str(self.timeout)]
            if mode == "shuffle": cmd += ["--shuffle", str(self.seed + 7)]
            p = subprocess.run(cmd, stdout=subprocess.PIPE, stderr=subprocess.PIPE, text=True)
            os.remove(f)
            if p.returncode != 0: raise RuntimeError("implrun failed: " + p.stderr[-2000:])
            res = _parse_out(p.stdout, len(lines))
            n += len(lines)
            for i, r in zip(order, res):
                if r.core() != self.cases[i][1].core():
                    fails.append({"label": "history|" + mode, "case": self.cases[i][0], "impl": r.raw[:400],
                                  "expected": "same result as in the first run: " + self.cases[i][1].raw[:400],
                                  "detail": "result depends on the calls made before on the same thread (order: %s, single thread)" % mode})
        return n, fails
    def run_model(self):
        """Run the extracted model on every recorded case (sharded); returns list of Result or None."""
        idx = [i for i, c in enumerate(self.cases) if c[4]]
        shards = [idx[k::NPROC] for k in range(NPROC)]
        procs = []
        for k, sh_ in enumerate(shards):
            if not sh_: continue
            f = os.path.join(WORK, "%s_%d_m%d.cases" % (self.pid, os.getpid(), k))
            with open(f, "w") as fh:
                for i in sh_:
                    line, r = self.cases[i][0], self.cases[i][1]
                    fh.write(line + ((" " + r.draws) if r.draws else "") + "\n")
            procs.append((sh_, f, subprocess.Popen([MODEL, PRIMS, f], stdout=subprocess.PIPE, stderr=subprocess.PIPE, text=True)))
        out = [None] * len(self.cases)
        for sh_, f, p in procs:
            so, se = p.communicate()
            os.remove(f)
            if p.returncode != 0:
                raise RuntimeError("model driver failed: " + se[-2000:])
            rs = _parse_out(so, len(sh_))
            for i, r in zip(sh_, rs): out[i] = r
        return out

STATE_PAT = re.compile(r"\b(thread_local!|lazy_static!|static\s+mut\b|OnceCell|OnceLock|once_cell|static\s+[A-Z_0-9]+\s*:\s*[^=;]*(Mutex|RwLock|Atomic|RefCell|Cell)\b)")

def source_state_scan():
    """The model is a family of pure functions.  Any process-wide or thread-local mutable state in the
    library (outside the verification hooks) is something the model does not represent: reported as a
    broken tie (the history pass then looks for an input sequence on which it matters)."""
    hits = []
    src = os.path.join(REPO, "src")
    for root, _, files in os.walk(src):
        for f in files:
            if not f.endswith(".rs") or f == "verif_hooks.rs": continue
            p = os.path.join(root, f)
            txt = re.sub(r"//[^\n]*", "", open(p, errors="replace").read())
            for ln, line in enumerate(txt.split("\n"), 1):
                if STATE_PAT.search(line):
                    hits.append("%s:%d: %s" % (os.path.relpath(p, REPO), ln, line.strip()[:100]))
    return hits

# ------------------------------------------------------------------------------------------ in-Coq re-evaluation
def coq_bytes(b): return "[" + ";".join(str(x) for x in b) + "]%N"
def coq_zl(l): return "[" + ";".join("(%d)" % x for x in l) + "]%Z"
def coq_nl(l): return "[" + ";".join("%d" % x for x in l) + "]%N"

def coq_eval(pid, terms, timeout=600):
    """Evaluate Gallina terms with vm_compute INSIDE Coq (no extraction involved) and return the printed values, whitespace
    removed.  Guards the extraction mapping (ExtrOcamlZBigInt, the bitwise Extract Constants) and the OCaml driver: the same
    cases must give the same answers as the extracted model."""
    os.makedirs(WORK, exist_ok=True)
    f = os.path.join(WORK, "cases_%s_%d.v" % (pid, os.getpid()))
    with open(f, "w") as fh:
        fh.write("From ZK Require Import RealEnv Consts ClOps ClConsts.\nFrom Coq Require Import ZArith List.\nImport ListNotations.\n")
        fh.write("Definition dummy_env (kind : N) (s : suite) : env := real_env (fun a b => a) (fun a => a) (fun a b => a) (fun _ => false) "
                 "(fun a b => a) (fun a => a) (fun a b => a) (fun _ => false) (fun a => a) (fun _ => None) (fun _ _ _ _ => false) kind s.\n")
        for k, t in enumerate(terms):
            fh.write("Definition case_%d := %s.\nEval vm_compute in (%d%%nat, case_%d).\n" % (k, t, k, k))
    qs = []
    for d in ("Base", "Hash", "Model", "Generated"):
        qs += ["-Q", os.path.join(COQ, d), "ZK"]
    rc, out = sh(["timeout", str(timeout), "coqc", "-noglob"] + qs + [f], cwd=WORK)
    for ext in ("", "o", "ok", "os"):
        try: os.remove(f + ext if ext else f)
        except OSError: pass
    try: os.remove(f[:-2] + ".vo"); os.remove(f[:-2] + ".vok"); os.remove(f[:-2] + ".vos")
    except OSError: pass
    if rc != 0: return None, out[-1500:]
    vals = {}
    for m in re.finditer(r"=\s*\((\d+)%nat,\s*((?:.|\n)*?)\)\s*\n\s*:", out):
        vals[int(m.group(1))] = re.sub(r"\s+", "", m.group(2))
    return [vals.get(k) for k in range(len(terms))], out[-500:]

def show_model_result(core):
    """the driver's line 'OK 1 Z,2,3 <hex>' in the shape Coq prints tokv lists (integers only)"""
    parts = core.split(" ")
    if parts[0] != "OK": return {"ERR": "Err", "PANIC": "Panic", "NODRAW": "NoDraw"}.get(parts[0], parts[0])
    toks = []
    for t in parts[1:]:
        if t.startswith("Z"): toks.append("TL[" + ";".join(t.split(",")[1:]) + "]")      # Coq prints [1; -2] without parentheses
        elif re.fullmatch(r"-?\d+", t): toks.append("TI" + (t if not t.startswith("-") else "(" + t + ")"))
        else: return None
    return "Ok[" + ";".join(toks) + "]"

def write_evidence(pid, data):
    os.makedirs(os.path.join(VERIF, "evidence"), exist_ok=True)
    p = os.path.join(VERIF, "evidence", pid + ".json")
    with open(p + ".tmp", "w") as f: json.dump(data, f, indent=1, sort_keys=True)
    os.replace(p + ".tmp", p)

def write_replay(pid, name, obj):
    d = os.path.join(VERIF, "replays"); os.makedirs(d, exist_ok=True)
    p = os.path.join(d, "%s_%s.json" % (pid, name))
    with open(p, "w") as f: json.dump(obj, f, indent=1)
    return p

def known_findings():
    known = []; p = os.path.join(VERIF, "known_findings.txt")
    if os.path.exists(p):
        for line in open(p):
            line = line.strip()
            if line.startswith("known:"):
                m = re.match(r"known:\s+property=(\S+)\s+key=(\S+)\s+(.*)", line)
                if m: known.append((m.group(1), m.group(2), m.group(3)))
    return known
