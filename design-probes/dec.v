Require Import Arith NArith List Lia Bool. Import ListNotations. Open Scope nat_scope.
(* Rust-semantics monad *)
Inductive outcome (A : Type) := Ok (a : A) | Err | Panic.
Arguments Ok {A}. Arguments Err {A}. Arguments Panic {A}.
Definition bind {A B} (x : outcome A) (f : A -> outcome B) : outcome B :=
  match x with Ok a => f a | Err => Err | Panic => Panic end.
Notation "x <- e ;; k" := (bind e (fun x => k)) (at level 61, e at next level, right associativity).

Section Dec.
  Variable byte : Type.
  Definition bytes := list byte.
  Variables (G1 Fr : Type).
  Variable g1_dec : bytes -> option G1.      (* total: None on wrong length / invalid *)
  Variable fr_dec : bytes -> option Fr.
  Hypothesis g1_dec_len : forall b p, g1_dec b = Some p -> length b = 48.
  Hypothesis fr_dec_len : forall b s, fr_dec b = Some s -> length b = 32.

  (* &bytes[a..b] *)
  Definition slice (l : bytes) (a b : nat) : outcome bytes :=
    if (a <=? b) && (b <=? length l) then Ok (firstn (b - a) (skipn a l)) else Panic.
  (* &bytes[a..] *)
  Definition slice_from (l : bytes) (a : nat) : outcome bytes :=
    if a <=? length l then Ok (skipn a l) else Panic.
  Definition lift {A} (o : option A) : outcome A := match o with Some a => Ok a | None => Err end.

  (* chunks_exact(32): drops the remainder *)
  Fixpoint chunks32 (fuel : nat) (l : bytes) : list bytes :=
    match fuel with O => [] | S f => if 32 <=? length l then firstn 32 l :: chunks32 f (skipn 32 l) else [] end.
  Fixpoint mapM {A B} (f : A -> outcome B) (l : list A) : outcome (list B) :=
    match l with [] => Ok [] | x :: r => y <- f x ;; ys <- mapM f r ;; Ok (y :: ys) end.

  Record proof := { Abar : G1; Bbar : G1; Dp : G1; ecap : Fr; r1cap : Fr; r3cap : Fr; mcap : list Fr; chal : Fr }.

  (* transcription of BBSplusPoKSignature::from_bytes on the pinned tree *)
  Definition proof_from_bytes_old (b : bytes) : outcome proof :=
    s0 <- slice b 0 48 ;; A <- lift (g1_dec s0) ;;
    s1 <- slice b 48 96 ;; B <- lift (g1_dec s1) ;;
    s2 <- slice b 96 144 ;; D <- lift (g1_dec s2) ;;
    s3 <- slice b 144 176 ;; e <- lift (fr_dec s3) ;;
    s4 <- slice b 176 208 ;; r1 <- lift (fr_dec s4) ;;
    s5 <- slice b 208 240 ;; r3 <- lift (fr_dec s5) ;;
    rest <- slice_from b 240 ;;
    ms <- mapM (fun c => lift (fr_dec c)) (chunks32 (length rest) rest) ;;
    match rev ms with
    | [] => Err
    | c :: m' => Ok {| Abar := A; Bbar := B; Dp := D; ecap := e; r1cap := r1; r3cap := r3; mcap := rev m'; chal := c |}
    end.

  (* repaired: exact framing first *)
  Definition proof_from_bytes (b : bytes) : outcome proof :=
    if (272 <=? length b) && (Nat.eqb ((length b - 272) mod 32) 0) then proof_from_bytes_old b else Err.

  Lemma slice_ok : forall l a b, a <= b -> b <= length l -> exists s, slice l a b = Ok s.
  Proof. intros l a b H1 H2. unfold slice. apply Nat.leb_le in H1. apply Nat.leb_le in H2. rewrite H1, H2. simpl. eexists; reflexivity. Qed.

  Lemma mapM_lift_no_panic : forall A B (f : A -> option B) l, mapM (fun c => lift (f c)) l <> Panic.
  Proof. induction l as [|x r IH]; simpl; [discriminate|]. destruct (f x); simpl; [|discriminate].
         destruct (mapM _ r); simpl; try discriminate. congruence. Qed.

  Theorem proof_from_bytes_no_panic : forall b, proof_from_bytes b <> Panic.
  Proof.
    intros b. unfold proof_from_bytes.
    destruct ((272 <=? length b) && _) eqn:E; [|discriminate].
    apply andb_true_iff in E. destruct E as [E _]. apply Nat.leb_le in E.
    unfold proof_from_bytes_old.
    repeat match goal with
    | |- bind (slice b ?x ?y) _ <> Panic =>
        let s := fresh "s" in let Hs := fresh "Hs" in
        destruct (slice_ok b x y ltac:(lia) ltac:(lia)) as [s Hs]; rewrite Hs; cbn [bind]
    | |- bind (lift ?o) _ <> Panic => destruct o; cbn [bind lift]; [|discriminate]
    end.
    unfold slice_from. assert (H240 : (240 <=? length b) = true) by (apply Nat.leb_le; lia). rewrite H240. cbn [bind].
    pose proof (mapM_lift_no_panic _ _ fr_dec (chunks32 (length (skipn 240 b)) (skipn 240 b))) as HM.
    destruct (mapM _ _); cbn [bind]; try discriminate; [|congruence].
    destruct (rev a); discriminate.
  Qed.

  (* refutation for the pinned decoder: needs one decodable 48-byte string *)
  Theorem proof_from_bytes_old_panics : forall p0 pt, g1_dec p0 = Some pt -> proof_from_bytes_old p0 = Panic.
  Proof.
    intros p0 pt H. pose proof (g1_dec_len _ _ H) as L. unfold proof_from_bytes_old, slice.
    rewrite L. cbn [Nat.leb andb bind]. rewrite Nat.sub_0_r. cbn [skipn].
    rewrite <- L at 1. rewrite firstn_all, H. reflexivity.
  Qed.
End Dec.
Print Assumptions proof_from_bytes_no_panic.
Print Assumptions proof_from_bytes_old_panics.
