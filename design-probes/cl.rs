#![allow(non_upper_case_globals, non_snake_case)]
use rug::{Integer, ops::Pow};
use serde::{Serialize, Deserialize};
use std::panic::catch_unwind;
use zkryptium::{
    cl03::{bases::Bases, ciphersuites::CLCiphersuite, keys::CL03CommitmentPublicKey, range_proof::{RangeProof, Boudot2000RangeProof}, commitment::CL03Commitment},
    keys::pair::KeyPair,
    schemes::{algorithms::{Ciphersuite, CL03}, generics::{BlindSignature, Commitment, PoKSignature, Signature, ZKPoK}},
    utils::message::cl03_message::CL03Message,
};
#[derive(Clone, PartialEq, Eq, Debug, Serialize, Deserialize)]
pub struct Toy {}
impl Ciphersuite for Toy { type HashAlg = sha2::Sha256; }
impl CLCiphersuite for Toy {
    const SECPARAM: u32 = 192; const QSEC: u32 = 19; const ln: u32 = 384; const lm: u32 = 256; const lin: u32 = 256;
    const le: u32 = 258; const ls: u32 = 384 + 512; const RANGEPROOF_ALG: RangeProof = RangeProof::Boudot2000;
    const t: u32 = 128; const l: u32 = 40; const s: u32 = 40; const s1: u32 = 40; const s2: u32 = 552;
}
type S = CL03<Toy>;
fn m(i: u64) -> CL03Message { CL03Message::map_message_to_integer_as_hash::<Toy>(&i.to_be_bytes()) }
fn sha_int(s: String) -> Integer { use sha2::Digest; Integer::from_digits(sha2::Sha256::digest(s).as_slice(), rug::integer::Order::MsfBe) }

fn main() {
    std::panic::set_hook(Box::new(|_| {}));
    let t0 = std::time::Instant::now();
    let kp = KeyPair::<S>::generate();
    let pk = kp.public_key(); let sk = kp.private_key();
    println!("keygen {:?}; N bits {}", t0.elapsed(), pk.N.significant_bits());
    let n = 3usize;
    let bases = Bases::generate(pk, n);
    let msgs: Vec<CL03Message> = (0..n as u64).map(m).collect();
    let sig = Signature::<S>::sign_multiattr(pk, sk, &bases, &msgs);
    println!("sign/verify ok: {}", sig.verify_multiattr(pk, &bases, &msgs));
    // F7: shift by e
    let s = sig.cl03Signature();
    let sj = serde_json::to_value(s).unwrap();
    let e: Integer = serde_json::from_value(sj["e"].clone()).unwrap();
    let v: Integer = serde_json::from_value(sj["v"].clone()).unwrap();
    let v2 = (v.clone() * &bases.0[1]) % &pk.N;
    let mut sj2 = sj.clone(); sj2["v"] = serde_json::to_value(&v2).unwrap();
    let forged: zkryptium::cl03::signature::CL03Signature = serde_json::from_value(sj2).unwrap();
    let mut msgs2 = msgs.clone(); msgs2[1] = CL03Message::new(msgs[1].value.clone() + &e);
    println!("F7 forged (v*a1, m1+e) verifies: {}  (m1+e bits {})", Signature::<S>::CL03(forged).verify_multiattr(pk, &bases, &msgs2), msgs2[1].value.significant_bits());
    // F6: blind issuance for each hidden singleton
    for hid in 0..n {
        let unrev = [hid];
        let c = Commitment::<S>::commit_with_pk(&msgs, pk, &bases, Some(&unrev));
        let zk = ZKPoK::<S>::generate_proof(&msgs, c.cl03Commitment(), None, pk, &bases, None, &unrev);
        let ok = catch_unwind(|| zk.verify_proof(c.cl03Commitment(), None, pk, &bases, None, &unrev));
        println!("F6 hidden={{{}}} zkpok verify -> {:?}", hid, ok.map_err(|_| "panic"));
        if hid == 0 {
            // F9/F10 on issuance proof: recover m0 from s1 / c
            let j = serde_json::to_value(&zk).unwrap();
            let z = &j["CL03"];
            let pm = &z["proof_commited_msgs"];
            let t: Integer = serde_json::from_value(pm["t"].clone()).unwrap();
            let s1: Integer = serde_json::from_value(pm["s1"][0].clone()).unwrap();
            let ch = sha_int(bases.0[0].to_string() + &pk.b.to_string() + &c.value().to_string() + &t.to_string());
            let rec = Integer::from(&s1 / &ch);
            println!("F10 issuance: floor(s1/c) - m0 = {}", Integer::from(&rec - &msgs[0].value));
            let cm = &z["proofs_commited_mi"][0]["commitment"];
            println!("F9 issuance: embedded commitment has randomness field: {}", cm.get("randomness").is_some());
            let cv: Integer = serde_json::from_value(cm["value"].clone()).unwrap();
            let cr: Integer = serde_json::from_value(cm["randomness"].clone()).unwrap();
            let guess = |g: &Integer| (Integer::from(bases.0[0].pow_mod_ref(g, &pk.N).unwrap()) * Integer::from(pk.b.pow_mod_ref(&cr, &pk.N).unwrap())) % &pk.N == cv;
            println!("F9 dictionary test: right guess {} wrong guess {}", guess(&msgs[0].value), guess(&msgs[1].value));
        }
    }
    // PoK of signature: F9 recover v, F10 recover e
    let cpk = CL03CommitmentPublicKey::generate::<Toy>(Some(pk.N.clone()), Some(n));
    let unrev = [0usize, 2usize];
    let pok = PoKSignature::<S>::proof_gen(sig.cl03Signature(), &cpk, pk, &bases, &msgs, &unrev);
    let revealed = vec![msgs[1].clone()];
    println!("spok verify: {}", pok.proof_verify(&cpk, pk, &bases, &revealed, &unrev, n));
    let j = serde_json::to_value(&pok).unwrap();
    let sp = &j["CL03"]["spok"];
    let cvv: Integer = serde_json::from_value(sp["Cv"]["value"].clone()).unwrap();
    let w: Integer = serde_json::from_value(sp["Cv"]["randomness"].clone()).unwrap();
    let ginvw = Integer::from(cpk.g_bases[0].pow_mod_ref(&(-w), &pk.N).unwrap());
    println!("F9 spok: recovered v == v: {}", (cvv * ginvw) % &pk.N == v);
    let s1: Integer = serde_json::from_value(sp["s_1"].clone()).unwrap();
    let s2: Integer = serde_json::from_value(sp["s_2"].clone()).unwrap();
    println!("F10 spok: floor(s_2/s_1) - e = {}", Integer::from(&s2 / &s1) - &e);
    let s5: Integer = serde_json::from_value(sp["s_5"][0].clone()).unwrap();
    let ch: Integer = serde_json::from_value(sp["challenge"].clone()).unwrap();
    println!("F10 spok: floor(s_5[0]/c) - m0 bits = {}", (Integer::from(&s5 / &ch) - &msgs[0].value).significant_bits());
    // F8: transplant: honest range proof for x in [0, 2^16-1]; target commitment to value out of range
    let (g, h, N) = (&cpk.g_bases[0], &cpk.h, &cpk.N);
    let lo = Integer::from(0); let hi = Integer::from(2).pow(16) - 1u32;
    let x = Integer::from(1234);
    let r = Integer::from(987654321u64);
    let E = (Integer::from(g.pow_mod_ref(&x, N).unwrap()) * Integer::from(h.pow_mod_ref(&r, N).unwrap())) % N;
    let com = CL03Commitment { value: E.clone(), randomness: r.clone() };
    let rp = Boudot2000RangeProof::prove::<sha2::Sha256>(&x, &com, g, h, N, &lo, &hi);
    println!("honest range proof verifies: {}", rp.verify::<sha2::Sha256>(g, h, N, &lo, &hi));
    println!("range proof against other bounds: {}", rp.verify::<sha2::Sha256>(g, h, N, &lo, &(hi.clone()*2u32)));
    // P7: malleability of unused randomness leaves
    let mut j2 = j.clone();
    let old: Integer = serde_json::from_value(j2["CL03"]["spok"]["Cx"]["randomness"].clone()).unwrap();
    j2["CL03"]["spok"]["Cx"]["randomness"] = serde_json::to_value(&(old + 1u32)).unwrap();
    let pok2: PoKSignature<S> = serde_json::from_value(j2).unwrap();
    println!("P7 spok with Cx.randomness+1 verifies: {}", pok2.proof_verify(&cpk, pk, &bases, &revealed, &unrev, n));
    // F8 transplant: target commitment to y = hi + 1000 (out of range)
    use rug::rand::RandState; let mut rs = RandState::new();
    let y = Integer::from(&hi + 1000u32); let ry = Integer::from(55555u64);
    let Ey = (Integer::from(g.pow_mod_ref(&y, N).unwrap()) * Integer::from(h.pow_mod_ref(&ry, N).unwrap())) % N;
    let (t, l, sp) = (128u32, 40u32, 40u32);
    let T = 2 * (t + l + 1) + Integer::from(&hi - &lo).significant_bits();
    let two = |k: u32| Integer::from(2).pow(k);
    let sq = Integer::from(Integer::from(&hi - &lo).sqrt_ref());
    let aa = two(T) * &lo - two(l + t + T / 2 + 1) * &sq;
    let bb = two(T) * &hi + two(l + t + T / 2 + 1) * &sq;
    let yp = two(T) * &y; let rp_ = two(T) * &ry;
    let li = |x2: &Integer, r2: &Integer, rs: &mut RandState| -> serde_json::Value {
        loop {
            let w = Integer::from((two(T) * two(t + l) * &hi).random_below_ref(rs));
            let nu = Integer::from((two(T) * two(t + l + sp) * N).random_below_ref(rs));
            let omega = (Integer::from(g.pow_mod_ref(&w, N).unwrap()) * Integer::from(h.pow_mod_ref(&nu, N).unwrap())) % N;
            let C = sha_int(omega.to_string());
            let c = Integer::from(&C % two(t));
            let d1 = w + x2 * &c; let d2 = nu + r2 * &c;
            if Integer::from(&c * &hi) <= d1 && d1 <= two(T) * (two(t + l) * &hi - 1u32) {
                return serde_json::json!({"C": C, "D_1": d1, "D_2": d2});
            }
        }
    };
    // choose small parts x2 = 1, E_?_1 absorbs the rest (not a square, may be negative)
    let x2 = Integer::from(1);
    let za = Integer::from(&yp - &aa) - &x2; let zb = Integer::from(&bb - &yp) - &x2;
    println!("F8 target: x_b = bb - 2^T*y is negative: {}", Integer::from(&bb - &yp) < 0);
    let (ra1, rb1) = (Integer::from(777), Integer::from(888));
    let com = |x: &Integer, r: &Integer| (Integer::from(g.pow_mod_ref(x, N).unwrap()) * Integer::from(h.pow_mod_ref(r, N).unwrap())) % N;
    let (Ea1, Eb1) = (com(&za, &ra1), com(&zb, &rb1));
    let ra2 = Integer::from(&rp_ - &ra1); let rb2 = Integer::from(-&rp_) - &rb1;
    let (Ea2, Eb2) = (com(&x2, &ra2), com(&x2, &rb2));
    let mut fj = serde_json::to_value(&rp).unwrap();
    fj["E"] = serde_json::to_value(&Ey).unwrap();
    fj["E_prime"] = serde_json::to_value(&Integer::from(Ey.pow_mod_ref(&two(T), N).unwrap())).unwrap();
    fj["proof_of_tolerance"]["E_a_1"] = serde_json::to_value(&Ea1).unwrap();
    fj["proof_of_tolerance"]["E_a_2"] = serde_json::to_value(&Ea2).unwrap();
    fj["proof_of_tolerance"]["E_b_1"] = serde_json::to_value(&Eb1).unwrap();
    fj["proof_of_tolerance"]["E_b_2"] = serde_json::to_value(&Eb2).unwrap();
    fj["proof_of_tolerance"]["proof_large_i_a"] = li(&x2, &ra2, &mut rs);
    fj["proof_of_tolerance"]["proof_large_i_b"] = li(&x2, &rb2, &mut rs);
    // proof_of_square_a / _b are kept from the honest proof (transplanted)
    let forged: Boudot2000RangeProof = serde_json::from_value(fj).unwrap();
    println!("F8 transplanted proof for y = max+1000 verifies: {}", forged.verify::<sha2::Sha256>(g, h, N, &lo, &hi));
    // interval shapes
    for (a, b) in [(0i64,1i64),(5,6),(1000,1001),(0,3),(-5,5),(-10,-5),(-1,0),(7,7+65536)] {
        for x in [a, b, (a+b)/2] {
            let (lo, hi, xv) = (Integer::from(a), Integer::from(b), Integer::from(x));
            let r = Integer::from(4242u64);
            let E = if x >= 0 { (Integer::from(g.pow_mod_ref(&xv, N).unwrap()) * Integer::from(h.pow_mod_ref(&r, N).unwrap())) % N }
                    else { (Integer::from(g.pow_mod_ref(&xv, N).unwrap()) * Integer::from(h.pow_mod_ref(&r, N).unwrap())) % N };
            let com = CL03Commitment { value: E, randomness: r };
            let (g2, h2, n2) = (g.clone(), h.clone(), N.clone());
            let res = catch_unwind(move || { let p = Boudot2000RangeProof::prove::<sha2::Sha256>(&xv, &com, &g2, &h2, &n2, &lo, &hi); p.verify::<sha2::Sha256>(&g2, &h2, &n2, &lo, &hi) });
            println!("range [{},{}] x={} -> {:?}", a, b, x, res.map_err(|_| "PANIC"));
        }
    }
    println!("elapsed {:?}", t0.elapsed());
}
