Require Import List Field Ring Setoid Lia Bool.
Import ListNotations.
Section SS.
  Variable F : Type.
  Variables (f0 f1 : F) (fadd fmul fsub : F -> F -> F) (fopp finv : F -> F) (fdiv : F -> F -> F).
  Hypothesis Fth : field_theory f0 f1 fadd fmul fsub fopp fdiv finv (@eq F).
  Add Field Ffield : Fth.
  Infix "+" := fadd. Infix "*" := fmul. Infix "-" := fsub. Infix "/" := fdiv.
  Notation "0" := f0. Notation "1" := f1. Notation "- x" := (fopp x).

  Fixpoint msm (gs ms : list F) : F :=
    match gs, ms with g :: gs', m :: ms' => g * m + msm gs' ms' | _, _ => 0 end.
  Fixpoint vsub (a b : list F) : list F :=
    match a, b with x :: a', y :: b' => (x - y) :: vsub a' b' | _, _ => [] end.
  Lemma msm_vsub : forall gs a b, length a = length b -> msm gs a - msm gs b = msm gs (vsub a b).
  Proof. induction gs as [|g gs IH]; intros a b Hab; destruct a, b; simpl in *; try lia; try ring.
         rewrite <- (IH a b) by lia. ring. Qed.
  Lemma msm_scale : forall k gs v, msm gs (map (fmul k) v) = k * msm gs v.
  Proof. intros k gs. induction gs; intros [|x v]; simpl; try ring. rewrite IHgs. ring. Qed.

  (* verifier equations in dlog form *)
  Definition T1 (abar bbar d c ecap r1cap : F) := bbar * c + abar * ecap + d * r1cap.
  Definition T2 (bv d c r3cap : F) (hs mcap : list F) := bv * c + d * r3cap + msm hs mcap.

  Theorem special_soundness :
    forall w abar bbar d bv hs c ec r1c r3c mc c' ec' r1c' r3c' mc',
      abar * w = bbar ->                                   (* pairing check *)
      T1 abar bbar d c ec r1c = T1 abar bbar d c' ec' r1c' ->
      T2 bv d c r3c hs mc = T2 bv d c' r3c' hs mc' ->
      length mc = length mc' -> c - c' <> 0 ->
      let dl := finv (c - c') in
      let e := (ec - ec') * dl in
      let rho1 := (r1c - r1c') * dl in
      let rho3 := (r3c - r3c') * dl in
      let mu := map (fmul dl) (vsub mc mc') in
      let Bstar := bv + msm hs mu in
      rho1 <> 0 ->
      let Astar := abar * rho3 * finv rho1 in
      Astar * (w + e) = Bstar.
  Proof.
    intros w abar bbar d bv hs c ec r1c r3c mc c' ec' r1c' r3c' mc' Hp H1 H2 HL Hc dl e rho1 rho3 mu Bstar Hr Astar.
    unfold T1, T2 in *.
    assert (E2 : msm hs mc - msm hs mc' = (c' - c) * bv + d * (r3c' - r3c)).
    { transitivity ((bv * c + d * r3c + msm hs mc) - (bv * c' + d * r3c' + msm hs mc') + ((c' - c) * bv + d * (r3c' - r3c))); [ring|rewrite H2; ring]. }
    rewrite msm_vsub in E2 by exact HL.
    subst Bstar mu. rewrite msm_scale, E2.
    assert (E1 : d * (r1c - r1c') = bbar * (c' - c) + abar * (ec' - ec)).
    { transitivity ((bbar * c + abar * ec + d * r1c) - (bbar * c' + abar * ec' + d * r1c') + (bbar * (c' - c) + abar * (ec' - ec))); [ring|rewrite H1; ring]. }
    subst bbar.
    (* d = (abar*w*(c'-c) + abar*(ec'-ec)) / (r1c - r1c') *)
    assert (Hr' : r1c - r1c' <> 0).
    { intro Z. apply Hr. subst rho1. rewrite Z. ring. }
    assert (Ed : d = (abar * w * (c' - c) + abar * (ec' - ec)) * finv (r1c - r1c')).
    { rewrite <- E1. field. exact Hr'. }
    subst Astar e rho1 rho3 dl. rewrite Ed. field. split; assumption.
  Qed.
End SS.
Print Assumptions special_soundness.
