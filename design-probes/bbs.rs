use bls12_381_plus::{G1Projective, G2Projective, Scalar, group::Curve};
use std::panic::catch_unwind;
use zkryptium::{
    bbsplus::{ciphersuites::{BbsCiphersuite, Bls12381Sha256}, generators::Generators, keys::{BBSplusPublicKey, BBSplusSecretKey}, commitment::BlindFactor},
    keys::pair::KeyPair,
    schemes::{algorithms::{BBSplus, BbsBls12381Sha256}, generics::{PoKSignature, Signature, Commitment, BlindSignature}},
    utils::{message::bbsplus_message::BBSplusMessage, util::bbsplus_utils::{hash_to_scalar, i2osp}},
};
type CS = Bls12381Sha256;
type S = BBSplus<CS>;

fn domain(pk: &BBSplusPublicKey, gens: &Generators, header: &[u8], api_id: &[u8]) -> Scalar {
    let l = gens.values.len() - 1;
    let mut v = Vec::new();
    v.extend_from_slice(&pk.to_bytes());
    v.extend_from_slice(&i2osp::<8>(l));
    for g in &gens.values { v.extend_from_slice(&g.to_affine().to_compressed()); }
    v.extend_from_slice(api_id);
    v.extend_from_slice(&i2osp::<8>(header.len()));
    v.extend_from_slice(header);
    hash_to_scalar::<CS>(&v, &[api_id, CS::H2S].concat()).unwrap()
}

fn main() {
    std::panic::set_hook(Box::new(|_| {}));
    // ---- F1: forgery without any signature, for an arbitrary public key
    let pk = BBSplusPublicKey(G2Projective::GENERATOR * Scalar::from(123456789u64)); // nobody needs sk
    let msgs: Vec<Vec<u8>> = vec![b"I am root".to_vec(), b"balance=1000000".to_vec(), b"hidden?".to_vec()];
    let disclosed = [0usize, 1usize];
    let header = b"hdr".to_vec(); let ph = b"nonce".to_vec();
    let l = 3usize; let u = 1usize;
    let gens = Generators::create::<CS>(l + 1, Some(CS::API_ID));
    let dom = domain(&pk, &gens, &header, CS::API_ID);
    let ms = BBSplusMessage::messages_to_scalar::<CS>(&msgs[..2], CS::API_ID).unwrap();
    let mut bv = gens.g1_base_point + gens.values[0] * dom;
    for (k, &i) in disclosed.iter().enumerate() { bv += gens.values[1 + i] * ms[k].value; }
    let d = bv;
    let r1cap = Scalar::from(7u64); let ecap = Scalar::from(9u64);
    let mcap = vec![Scalar::from(11u64); u];
    let t1 = d * r1cap; // Abar=Bbar=0
    let mut t2 = G1Projective::IDENTITY; // Bv*c + D*(-c) cancels
    t2 += gens.values[1 + 2] * mcap[0];
    let id = G1Projective::IDENTITY;
    let mut c_arr = Vec::new();
    c_arr.extend_from_slice(&i2osp::<8>(2));
    for (k, &i) in disclosed.iter().enumerate() { c_arr.extend_from_slice(&i2osp::<8>(i)); c_arr.extend_from_slice(&ms[k].value.to_be_bytes()); }
    for p in [id, id, d, t1, t2] { c_arr.extend_from_slice(&p.to_affine().to_compressed()); }
    c_arr.extend_from_slice(&dom.to_be_bytes());
    c_arr.extend_from_slice(&i2osp::<8>(ph.len())); c_arr.extend_from_slice(&ph);
    let c = hash_to_scalar::<CS>(&c_arr, &[CS::API_ID, CS::H2S].concat()).unwrap();
    let r3cap = -c;
    let mut pb = Vec::new();
    for p in [id, id, d] { pb.extend_from_slice(&p.to_affine().to_compressed()); }
    for s in [ecap, r1cap, r3cap] { pb.extend_from_slice(&s.to_be_bytes()); }
    for s in &mcap { pb.extend_from_slice(&s.to_be_bytes()); }
    pb.extend_from_slice(&c.to_be_bytes());
    let proof = PoKSignature::<S>::from_bytes(&pb);
    println!("F1 decode forged proof: {:?}", proof.as_ref().map(|_| "ok"));
    let r = proof.unwrap().proof_verify(&pk, Some(&msgs[..2]), Some(&disclosed), Some(&header), Some(&ph));
    println!("F1 forged proof verifies: {:?}", r);

    // ---- F2: short inputs panic
    for (name, n) in [("pk", 95usize), ("proof", 239), ("commitment", 47), ("commitment", 79), ("zkpok",31)] {
        let b = vec![0u8; n];
        let r = match name {
            "pk" => catch_unwind(|| BBSplusPublicKey::from_bytes(&b).is_ok()),
            "proof" => catch_unwind(|| PoKSignature::<S>::from_bytes(&b).is_ok()),
            "commitment" => catch_unwind(|| Commitment::<S>::from_bytes(&b).is_ok()),
            _ => catch_unwind(|| zkryptium::bbsplus::proof::BBSplusZKPoK::from_bytes(&b).is_ok()),
        };
        println!("F2 {} len {} -> {}", name, n, match r { Ok(v) => format!("returned ok={}", v), Err(_) => "PANIC".into() });
    }
    // ---- F3: blind_proof_verify with large L
    let kp = KeyPair::<S>::generate(&[7u8; 32], None, None).unwrap();
    let sig = Signature::<S>::sign(Some(&msgs), kp.private_key(), kp.public_key(), Some(&header)).unwrap();
    let honest = PoKSignature::<S>::proof_gen(kp.public_key(), &sig.to_bytes(), Some(&header), Some(&ph), Some(&msgs), Some(&disclosed)).unwrap();
    let hb = honest.to_bytes();
    println!("proof len {} (expect {})", hb.len(), 272 + 32 * 1);
    let r = catch_unwind(|| honest.blind_proof_verify(kp.public_key(), Some(&header), Some(&ph), Some(10), None, None, None, None).is_ok());
    println!("F3 blind_proof_verify L=10 on U=1 proof -> {}", match r { Ok(v) => format!("returned ok={}", v), Err(_) => "PANIC".into() });
    // ---- F4: trailing bytes
    let mut ext = hb.clone(); ext.extend_from_slice(&[0xAA; 17]);
    let p2 = PoKSignature::<S>::from_bytes(&ext).unwrap();
    println!("F4 proof+17 bytes decodes, equal object: {}, re-encodes to original: {}", p2 == honest, p2.to_bytes() == hb);
    let mut pkb = kp.public_key().to_bytes().to_vec(); pkb.push(1);
    println!("F4 pk+1 byte decodes: {}", BBSplusPublicKey::from_bytes(&pkb).is_ok());
    let (cm, _bf) = Commitment::<S>::commit(Some(&msgs)).unwrap();
    let mut cb = cm.to_bytes(); cb.extend_from_slice(&[1,2,3]);
    println!("F4 commitment+3 bytes decodes: {}, blind_sign accepts: {}", Commitment::<S>::from_bytes(&cb).is_ok(),
        BlindSignature::<S>::blind_sign(kp.private_key(), kp.public_key(), Some(&cb), None, None).is_ok());
    // identity in signature / pk / zero e
    let mut sb = [0u8; 80]; sb[0] = 0xc0; sb[79] = 1;
    println!("F4 signature with A=identity decodes: {}", Signature::<S>::from_bytes(&sb).is_ok());
    let mut sb2 = sig.to_bytes(); for i in 48..80 { sb2[i] = 0; }
    println!("F4 signature with e=0 decodes: {}", Signature::<S>::from_bytes(&sb2).is_ok());
    let mut idpk = [0u8; 96]; idpk[0] = 0xc0;
    println!("F4 pk=identity decodes: {}", BBSplusPublicKey::from_bytes(&idpk).is_ok());
    // identity pk: signature A=identity verifies?
    let idk = BBSplusPublicKey::from_bytes(&idpk).unwrap();
    let _ = idk; let _ = BlindFactor::random(); let _ = BBSplusSecretKey::from_bytes(&[0u8;32]).is_ok();
    println!("sk=0 decodes: {}", BBSplusSecretKey::from_bytes(&[0u8;32]).is_ok());
}
