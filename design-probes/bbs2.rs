use std::panic::catch_unwind;
use zkryptium::{
    bbsplus::{ciphersuites::{Bls12381Sha256, Bls12381Shake256, BbsCiphersuite}},
    keys::pair::KeyPair,
    schemes::{algorithms::{BBSplus}, generics::{PoKSignature, Signature, Commitment, BlindSignature}},
};
use elliptic_curve::hash2curve::ExpandMsg;
fn run<CS: BbsCiphersuite>(name: &str) where CS::Expander: for<'a> ExpandMsg<'a> {
    let kp = KeyPair::<BBSplus<CS>>::generate(&[9u8; 40], Some(b"info"), None).unwrap();
    let (sk, pk) = (kp.private_key(), kp.public_key());
    // L = 0, header None vs empty
    let s1 = Signature::<BBSplus<CS>>::sign(None, sk, pk, None).unwrap();
    let s2 = Signature::<BBSplus<CS>>::sign(Some(&[]), sk, pk, Some(b"")).unwrap();
    println!("{name}: L=0 None==empty: {}, verify {:?}", s1.to_bytes() == s2.to_bytes(), s1.verify(pk, None, Some(b"")));
    let p0 = PoKSignature::<BBSplus<CS>>::proof_gen(pk, &s1.to_bytes(), None, None, None, None).unwrap();
    println!("{name}: L=0 proof len {} verify {:?}", p0.to_bytes().len(), p0.proof_verify(pk, None, None, None, Some(b"")));
    // larger L, unsorted/dup indexes on prover side
    let msgs: Vec<Vec<u8>> = (0..300u32).map(|i| vec![i as u8; (i % 70) as usize]).collect();
    let s = Signature::<BBSplus<CS>>::sign(Some(&msgs), sk, pk, Some(&vec![7u8; 300])).unwrap();
    println!("{name}: L=300 verify {:?}", s.verify(pk, Some(&msgs), Some(&vec![7u8; 300])));
    let idx = [299usize, 0, 256, 0, 255];
    let p = PoKSignature::<BBSplus<CS>>::proof_gen(pk, &s.to_bytes(), Some(&vec![7u8; 300]), Some(b"ph"), Some(&msgs), Some(&idx)).unwrap();
    let sorted = [0usize, 255, 256, 299];
    let dm: Vec<Vec<u8>> = sorted.iter().map(|&i| msgs[i].clone()).collect();
    println!("{name}: L=300 proof len {} (expect {}), verify sorted {:?}", p.to_bytes().len(), 272 + 32 * 296, p.proof_verify(pk, Some(&dm), Some(&sorted), Some(&vec![7u8; 300]), Some(b"ph")));
    let uns = [299usize, 0, 255, 256]; let dmu: Vec<Vec<u8>> = uns.iter().map(|&i| msgs[i].clone()).collect();
    println!("{name}: verify with unsorted indexes+matching msgs {:?}", p.proof_verify(pk, Some(&dmu), Some(&uns), Some(&vec![7u8; 300]), Some(b"ph")).is_ok());
    // update boundaries
    let m3: Vec<Vec<u8>> = vec![b"a".to_vec(), b"b".to_vec(), b"c".to_vec()];
    let s3 = Signature::<BBSplus<CS>>::sign(Some(&m3), sk, pk, None).unwrap();
    for i in [0usize, 2, 3, 4] {
        let r = catch_unwind(std::panic::AssertUnwindSafe(|| s3.update_signature(sk, &m3.get(i).cloned().unwrap_or_default(), b"new", i, 3).map(|u| { let mut m = m3.clone(); if i < 3 { m[i] = b"new".to_vec(); } u.verify(pk, Some(&m), None).is_ok() })));
        println!("{name}: update i={} -> {:?}", i, r.map(|x| x.map_err(|_| "Err")).map_err(|_| "PANIC"));
    }
    let r = catch_unwind(std::panic::AssertUnwindSafe(|| s3.update_signature(sk, b"a", b"new", usize::MAX, 3).is_ok())); println!("{name}: update i=MAX -> {:?}", r.map_err(|_| "PANIC"));
    let r = catch_unwind(std::panic::AssertUnwindSafe(|| s3.update_signature(sk, b"a", b"new", 0, usize::MAX).is_ok())); println!("{name}: update n=MAX -> {:?}", r.map_err(|_| "PANIC"));
    // blind shapes
    for (l, m) in [(0usize, 0usize), (0, 2), (2, 0), (2, 3)] {
        let ms: Vec<Vec<u8>> = (0..l).map(|i| vec![i as u8; 3]).collect(); let cm: Vec<Vec<u8>> = (0..m).map(|i| vec![0x80 + i as u8; 5]).collect();
        let (c, bf) = Commitment::<BBSplus<CS>>::commit(Some(&cm)).unwrap();
        let bs = BlindSignature::<BBSplus<CS>>::blind_sign(sk, pk, Some(&c.to_bytes()), Some(b"h"), Some(&ms)).unwrap();
        let v = bs.verify_blind_sign(pk, Some(b"h"), Some(&ms), Some(&cm), Some(&bf));
        let d: Vec<usize> = (0..l).step_by(2).collect(); let dc: Vec<usize> = (0..m).skip(1).collect();
        let bp = PoKSignature::<BBSplus<CS>>::blind_proof_gen(pk, &bs.to_bytes(), Some(b"h"), Some(b"p"), Some(&ms), Some(&cm), Some(&d), Some(&dc), Some(&bf)).unwrap();
        let dm: Vec<Vec<u8>> = d.iter().map(|&i| ms[i].clone()).collect(); let dcm: Vec<Vec<u8>> = dc.iter().map(|&i| cm[i].clone()).collect();
        let pv = bp.blind_proof_verify(pk, Some(b"h"), Some(b"p"), Some(l), Some(&dm), Some(&dcm), Some(&d), Some(&dc));
        println!("{name}: blind (L={l},M={m}) commit len {} verify {:?} proof {:?}", c.to_bytes().len(), v.is_ok(), pv.is_ok());
    }
    let bs = BlindSignature::<BBSplus<CS>>::blind_sign(sk, pk, None, None, Some(&m3)).unwrap();
    println!("{name}: blind no-commitment verify {:?}", bs.verify_blind_sign(pk, None, Some(&m3), None, None).is_ok());
    // plain signature through blind interface / vice versa
    println!("{name}: plain sig via blind verify {:?}; blind sig via plain verify {:?}", BlindSignature::<BBSplus<CS>>::from_bytes(&s3.to_bytes()).unwrap().verify_blind_sign(pk, None, Some(&m3), None, None).is_ok(), Signature::<BBSplus<CS>>::from_bytes(&bs.to_bytes()).unwrap().verify(pk, Some(&m3), None).is_ok());
}
fn main() { std::panic::set_hook(Box::new(|_| {})); run::<Bls12381Sha256>("sha"); run::<Bls12381Shake256>("shake"); }
