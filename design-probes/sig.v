Require Import ZArith Lia Zpow_facts. Open Scope Z_scope.
Definition pm (b e n : Z) := (b ^ e) mod n.     (* pow_mod for e >= 0 *)

Lemma pm_add b e1 e2 n : 0 <= e1 -> 0 <= e2 -> n <> 0 -> pm b (e1 + e2) n = (pm b e1 n * pm b e2 n) mod n.
Proof. intros. unfold pm. rewrite Z.pow_add_r by assumption. apply Zmult_mod. Qed.
Lemma pm_mul b e c n : 0 <= e -> 0 <= c -> 0 < n -> pm b (c * e) n = pm (pm b e n) c n.
Proof. intros. unfold pm. rewrite Z.mul_comm, Z.pow_mul_r by assumption. apply Zpower_mod. assumption. Qed.
Lemma mulmod_pow a b c n : 0 <= c -> 0 < n -> ((a * b) mod n) ^ c mod n = ((a ^ c mod n) * (b ^ c mod n)) mod n.
Proof. intros. rewrite <- Zpower_mod by assumption. rewrite Z.pow_mul_l. apply Zmult_mod. Qed.

(* nisp2sec completeness: commitment C = g^m h^r, t = g^r1 h^r2, s1 = r1 + c m, s2 = r2 + c r *)
Theorem nisp2sec_complete : forall g h n m r r1 r2 c,
  0 < n -> 0 <= m -> 0 <= r -> 0 <= r1 -> 0 <= r2 -> 0 <= c ->
  let C := (pm g m n * pm h r n) mod n in
  let t := (pm g r1 n * pm h r2 n) mod n in
  let s1 := r1 + c * m in let s2 := r2 + c * r in
  (pm g s1 n * pm h s2 n) mod n = (t * pm C c n) mod n.
Proof.
  intros g h n m r r1 r2 c Hn Hm Hr Hr1 Hr2 Hc C t s1 s2.
  subst s1 s2 t C.
  rewrite !pm_add by nia. rewrite !pm_mul by lia.
  assert (HC : pm ((pm g m n * pm h r n) mod n) c n = (pm (pm g m n) c n * pm (pm h r n) c n) mod n).
  { unfold pm at 1. rewrite mulmod_pow by lia. reflexivity. }
  rewrite HC.
  set (a := pm g r1 n). set (b := pm (pm g m n) c n). set (x := pm h r2 n). set (y := pm (pm h r n) c n).
  rewrite <- !Zmult_mod. f_equal. ring.
Qed.
Print Assumptions nisp2sec_complete.
