Require Import List Field Ring Setoid Lia.
Import ListNotations.

Section Alg.
  Variable F : Type.
  Variables (f0 f1 : F) (fadd fmul fsub : F -> F -> F) (fopp finv : F -> F) (fdiv : F -> F -> F).
  Hypothesis Fth : field_theory f0 f1 fadd fmul fsub fopp fdiv finv (@eq F).
  Variable feqb : F -> F -> bool.
  Hypothesis feqb_spec : forall x y, feqb x y = true <-> x = y.
  Add Field Ffield : Fth.
  Infix "+" := fadd. Infix "*" := fmul. Infix "-" := fsub. Infix "/" := fdiv.
  Notation "0" := f0. Notation "1" := f1.

  (* dlog model: points are field elements *)
  Fixpoint msm (gs ms : list F) : F :=
    match gs, ms with
    | g :: gs', m :: ms' => g * m + msm gs' ms'
    | _, _ => 0
    end.

  Variable p1 : F.
  Variable gens : nat -> F.           (* dlogs of Q1, H1, ... *)
  Variable Hdom : list F -> F.        (* domain hash, abstract *)
  Variable He : F -> list F -> F -> F.

  Definition genlist (n : nat) := map gens (seq 0 n).

  Definition Bval (dom : F) (ms : list F) : F :=
    p1 + gens 0%nat * dom + msm (map gens (seq 1 (length ms))) ms.

  Definition sign (sk : F) (ms : list F) : option (F * F) :=
    let dom := Hdom (genlist (S (length ms))) in
    let e := He sk ms dom in
    if feqb (sk + e) 0 then None else
    let A := Bval dom ms * finv (sk + e) in
    if feqb A 0 then None else Some (A, e).

  (* e(A, W + e*BP2) = e(B, BP2), with W = sk*1 in dlog form *)
  Definition verify (w : F) (sig : F * F) (ms : list F) : bool :=
    let dom := Hdom (genlist (S (length ms))) in
    let '(A, e) := sig in
    feqb (A * (w + e * 1)) (Bval dom ms * 1).

  Theorem sign_verify : forall sk ms sig, sign sk ms = Some sig -> verify sk sig ms = true.
  Proof.
    intros sk ms sig. unfold sign, verify.
    set (dom := Hdom (genlist (S (length ms)))). set (e := He sk ms dom).
    destruct (feqb (sk + e) 0) eqn:E1; [discriminate|].
    destruct (feqb (Bval dom ms * finv (sk + e)) 0) eqn:E2; [discriminate|].
    intros H; inversion H; subst; clear H.
    apply feqb_spec.
    assert (Hne : sk + e <> 0).
    { intro C. apply feqb_spec in C. congruence. }
    field. exact Hne.
  Qed.

  (* other e never verifies *)
  Theorem other_e_rejected : forall sk ms A e e', sign sk ms = Some (A, e) -> e' <> e -> verify sk (A, e') ms = false.
  Proof.
    intros sk ms A e e' Hs Hne.
    pose proof (sign_verify _ _ _ Hs) as Hv. unfold verify in *.
    apply feqb_spec in Hv.
    destruct (feqb (A * (sk + e' * 1)) _) eqn:E; [|reflexivity].
    apply feqb_spec in E. exfalso.
    unfold sign in Hs.
    set (dom := Hdom (genlist (S (length ms)))) in *.
    destruct (feqb (sk + He sk ms dom) 0); [discriminate|].
    destruct (feqb (Bval dom ms * finv (sk + He sk ms dom)) 0) eqn:EA; [discriminate|].
    inversion Hs; subst. clear Hs.
    assert (HA : Bval dom ms * finv (sk + He sk ms dom) <> 0).
    { intro C. apply feqb_spec in C. congruence. }
    set (A := Bval _ ms * finv _) in *.
    set (e := He sk ms _) in *.
    assert (A * (e' - e) = 0) by (transitivity (A * (sk + e' * 1) - A * (sk + e * 1)); [ring| rewrite E, Hv; ring]).
    (* integral domain *)
    assert (e' - e <> 0) by (intro C; apply Hne; transitivity (e' - e + e); [ring| rewrite C; ring]).
    apply HA.
    transitivity (A * (e' - e) * finv (e' - e)); [field; assumption| rewrite H; ring].
  Qed.
End Alg.
Print Assumptions other_e_rejected.
