Require Import List Field Ring Setoid Lia Bool.
Import ListNotations.

Section Bind.
  Variable F : Type.
  Variables (f0 f1 : F) (fadd fmul fsub : F -> F -> F) (fopp finv : F -> F) (fdiv : F -> F -> F).
  Hypothesis Fth : field_theory f0 f1 fadd fmul fsub fopp fdiv finv (@eq F).
  Variable feqb : F -> F -> bool.
  Hypothesis feqb_spec : forall x y, feqb x y = true <-> x = y.
  Add Field Ffield : Fth.
  Infix "+" := fadd. Infix "*" := fmul. Infix "-" := fsub.
  Notation "0" := f0. Notation "1" := f1.

  Fixpoint msm (gs ms : list F) : F :=
    match gs, ms with
    | g :: gs', m :: ms' => g * m + msm gs' ms'
    | _, _ => 0
    end.

  Fixpoint vsub (a b : list F) : list F :=
    match a, b with
    | x :: a', y :: b' => (x - y) :: vsub a' b'
    | _, _ => []
    end.

  Definition allzero (v : list F) : bool := forallb (fun x => feqb x 0) v.

  Lemma msm_vsub : forall gs a b, length a = length b ->
    msm gs a - msm gs b = msm gs (vsub a b).
  Proof.
    induction gs as [|g gs IH]; intros a b Hab.
    - destruct a, b; simpl in *; try lia; ring.
    - destruct a as [|x a], b as [|y b]; simpl in *; try lia.
      + ring.
      + rewrite <- (IH a b) by lia. ring.
  Qed.

  Lemma vsub_length : forall a b, length a = length b -> length (vsub a b) = length a.
  Proof. induction a; destruct b; simpl; intros; try lia. rewrite IHa; lia. Qed.

  Lemma allzero_vsub_eq : forall a b, length a = length b -> allzero (vsub a b) = true -> a = b.
  Proof.
    induction a as [|x a IH]; destruct b as [|y b]; simpl; intros HL HZ; try discriminate; auto.
    apply andb_true_iff in HZ. destruct HZ as [H1 H2]. apply feqb_spec in H1.
    f_equal; [| apply IH; [lia|exact H2]].
    transitivity (x - y + y); [ring | rewrite H1; ring].
  Qed.

  (* A non-trivial discrete-log relation among the generator dlogs gs *)
  Definition DLRelation (gs cs : list F) : Prop :=
    (length cs <= length gs)%nat /\ allzero cs = false /\ msm gs cs = 0.

  (* B = p1*1 + q1*dom + sum h_i m_i  is  msm (p1::q1::hs) (1::dom::ms) *)
  Definition Bvec (dom : F) (ms : list F) := 1 :: dom :: ms.

  Theorem same_sig_two_vectors :
    forall gs sk e A dom ms dom' ms',
      (length (Bvec dom ms) <= length gs)%nat ->
      A * (sk + e) = msm gs (Bvec dom ms) ->
      A * (sk + e) = msm gs (Bvec dom' ms') ->
      length ms = length ms' ->
      (dom, ms) <> (dom', ms') ->
      DLRelation gs (vsub (Bvec dom ms) (Bvec dom' ms')).
  Proof.
    intros gs sk e A dom ms dom' ms' L1 H1 H2 HL Hne.
    assert (HLB : length (Bvec dom ms) = length (Bvec dom' ms')) by (unfold Bvec; simpl; lia).
    unfold DLRelation. repeat split.
    - rewrite vsub_length by exact HLB. exact L1.
    - destruct (allzero _) eqn:E; [|reflexivity]. exfalso. apply Hne.
      apply allzero_vsub_eq in E; [| exact HLB].
      unfold Bvec in E. inversion E. reflexivity.
    - rewrite <- msm_vsub by exact HLB. rewrite <- H1, <- H2. ring.
  Qed.

  (* other public key: coefficient of p1 is sk - sk' <> 0 *)
  Theorem other_key_relation :
    forall gs sk sk' e A dom ms dom' ms',
      (length (Bvec dom ms) <= length gs)%nat ->
      A * (sk + e) = msm gs (Bvec dom ms) ->
      A * (sk' + e) = msm gs (Bvec dom' ms') ->
      length ms = length ms' -> sk <> sk' ->
      DLRelation gs (vsub (map (fmul (sk' + e)) (Bvec dom ms)) (map (fmul (sk + e)) (Bvec dom' ms'))).
  Proof.
    intros gs sk sk' e A dom ms dom' ms' L1 H1 H2 HL Hne.
    assert (msm_scale : forall k gs v, msm gs (map (fmul k) v) = k * msm gs v).
    { intros k gs0. induction gs0; intros [|x v]; simpl; try ring. rewrite IHgs0. ring. }
    assert (HLB : length (map (fmul (sk' + e)) (Bvec dom ms)) = length (map (fmul (sk + e)) (Bvec dom' ms')))
      by (rewrite !map_length; unfold Bvec; simpl; lia).
    unfold DLRelation. repeat split.
    - rewrite vsub_length by exact HLB. rewrite map_length. exact L1.
    - simpl. destruct (feqb ((sk' + e) * 1 - (sk + e) * 1) 0) eqn:E; [|reflexivity].
      exfalso. apply feqb_spec in E. apply Hne.
      transitivity (sk' - ((sk' + e) * 1 - (sk + e) * 1)); [ring| rewrite E; ring].
    - rewrite <- msm_vsub by exact HLB. rewrite !msm_scale, <- H1, <- H2. ring.
  Qed.
End Bind.
Print Assumptions same_sig_two_vectors.
Print Assumptions other_key_relation.
