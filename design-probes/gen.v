Require Import Arith List Lia. Import ListNotations.
Section Gen.
  Variables (bytes G1 : Type).
  Variable expand : bytes -> bytes.            (* expand_message(v || i2osp(i), seed_dst, 48), i folded in below *)
  Variable step : bytes -> nat -> bytes.        (* v, i |-> expand(v || I2OSP(i,8)) *)
  Variable h2c : bytes -> G1.
  (* for i in 1..count+1 { v = step v i; push h2c v } *)
  Fixpoint gens_from (v : bytes) (i n : nat) : list G1 :=
    match n with O => [] | S n' => let v' := step v i in h2c v' :: gens_from v' (S i) n' end.
  Definition create (v0 : bytes) (n : nat) := gens_from v0 1 n.
  Lemma gens_prefix : forall n k v i, k <= n -> firstn k (gens_from v i n) = gens_from v i k.
  Proof. induction n as [|n IH]; intros k v i H.
    - assert (k = 0) by lia; subst; reflexivity.
    - destruct k as [|k]; [reflexivity|]. simpl. f_equal. apply IH. lia. Qed.
  Theorem create_prefix : forall n k v0, k <= n -> firstn k (create v0 n) = create v0 k.
  Proof. intros. apply gens_prefix. assumption. Qed.
  Theorem create_length : forall n v0, length (create v0 n) = n.
  Proof. unfold create. intros n. generalize 1. induction n; intros; simpl; auto. Qed.
End Gen.
Print Assumptions create_prefix.
