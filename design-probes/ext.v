Require Import ZArith List. Import ListNotations.
Require Import ExtrOcamlBasic ExtrOcamlZBigInt.
Definition bytes := list N.
Record scalar_ops := { F : Type; fadd : F -> F -> F; fmul : F -> F -> F; finv : F -> F; feqb : F -> F -> bool; f0 : F;
                       f_of_okm : bytes -> F; f_to_be : F -> bytes }.
Record prims (S : scalar_ops) := { G1 : Type; g1_add : G1 -> G1 -> G1; g1_mul : F S -> G1 -> G1; g1_enc : G1 -> bytes;
                                   h2c : bytes -> bytes -> G1 }.
Arguments G1 {S}. Arguments g1_add {S}. Arguments g1_mul {S}. Arguments g1_enc {S}. Arguments h2c {S}.
Section M.
  Context (S : scalar_ops) (P : prims S) (expand : bytes -> bytes -> nat -> bytes).
  Definition h2s (m d : bytes) : F S := f_of_okm S (expand m d 48).
  Fixpoint msm (gs : list (G1 P)) (ms : list (F S)) (acc : G1 P) : G1 P :=
    match gs, ms with g :: gs', m :: ms' => msm gs' ms' (g1_add P acc (g1_mul P m g)) | _, _ => acc end.
  Definition sign (sk : F S) (p1 : G1 P) (gs : list (G1 P)) (ms : list bytes) : option (bytes * bytes) :=
    let sc := map (fun m => h2s m [1%N]) ms in
    let e := h2s (flat_map (f_to_be S) (sk :: sc)) [2%N] in
    if feqb S (fadd S sk e) (f0 S) then None else
    let A := g1_mul P (finv S (fadd S sk e)) (msm gs sc p1) in Some (g1_enc P A, f_to_be S e).
End M.
Extraction "ext.ml" sign.
