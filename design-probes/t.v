Require Import ZArith List.
Require Import ExtrOcamlBasic ExtrOcamlZBigInt.
Open Scope Z_scope.
Fixpoint modexp_pos (b : Z) (e : positive) (n : Z) : Z :=
  match e with
  | xH => b mod n
  | xO e' => let r := modexp_pos b e' n in (r * r) mod n
  | xI e' => let r := modexp_pos b e' n in (((r * r) mod n) * b) mod n
  end.
Definition modexp (b e n : Z) : Z := match e with Z0 => 1 mod n | Zpos p => modexp_pos b p n | Zneg _ => 0 end.
Extraction "t.ml" modexp Z.gcd Z.sqrt.
