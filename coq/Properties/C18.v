(* C18 -- CL03 keys and parameters: construction invariants of the generators (for every sequence of draws) and codecs.
   Primality of p, q, (p-1)/2, (q-1)/2 is decided by GMP (probable primes): re-tested by the sweep, not proved. *)
From ZK Require Import Cl ClArith ClSig ClMore.
From ZK Require Import ClCodec.

Theorem C18_keygen_shape :
  forall CS ds pk sk ds', keygen CS ds = Ok ((pk, sk), ds') ->
  pk_N pk = (sk_p sk * sk_q sk)%Z /\ sk_p sk <> sk_q sk /\
  (exists p' q', sk_p sk = (2 * p' + 1)%Z /\ sk_q sk = (2 * q' + 1)%Z) /\
  probably_prime (sk_p sk) = true /\ probably_prime (sk_q sk) = true /\
  (exists r, pk_b pk = ((r * r) mod pk_N pk)%Z /\ (1 < pk_b pk)%Z /\ Z.gcd (pk_b pk) (pk_N pk) = 1%Z) /\
  (exists r, pk_c pk = ((r * r) mod pk_N pk)%Z /\ (1 < pk_c pk)%Z /\ Z.gcd (pk_c pk) (pk_N pk) = 1%Z).
Proof. exact keygen_shape. Qed.
Check (C18_keygen_shape :
  forall CS ds pk sk ds', keygen CS ds = Ok ((pk, sk), ds') ->
  pk_N pk = (sk_p sk * sk_q sk)%Z /\ sk_p sk <> sk_q sk /\
  (exists p' q', sk_p sk = (2 * p' + 1)%Z /\ sk_q sk = (2 * q' + 1)%Z) /\
  probably_prime (sk_p sk) = true /\ probably_prime (sk_q sk) = true /\
  (exists r, pk_b pk = ((r * r) mod pk_N pk)%Z /\ (1 < pk_b pk)%Z /\ Z.gcd (pk_b pk) (pk_N pk) = 1%Z) /\
  (exists r, pk_c pk = ((r * r) mod pk_N pk)%Z /\ (1 < pk_c pk)%Z /\ Z.gcd (pk_c pk) (pk_N pk) = 1%Z)).
Print Assumptions C18_keygen_shape.

Theorem C18_random_qr_spec :
  forall n ds qr ds', random_qr n ds = Ok (qr, ds') ->
  exists r, qr = ((r * r) mod n)%Z /\ (1 < qr)%Z /\ Z.gcd qr n = 1%Z /\ (0 < n)%Z.
Proof. exact random_qr_spec. Qed.
Check (C18_random_qr_spec :
  forall n ds qr ds', random_qr n ds = Ok (qr, ds') ->
  exists r, qr = ((r * r) mod n)%Z /\ (1 < qr)%Z /\ Z.gcd qr n = 1%Z /\ (0 < n)%Z).
Print Assumptions C18_random_qr_spec.

Theorem C18_qr_mod_factor :
  forall r p q, (0 < p)%Z -> (0 < q)%Z -> (((r * r) mod (p * q)) mod p = ((r mod p) * (r mod p)) mod p)%Z.
Proof. exact qr_mod_factor. Qed.
Check (C18_qr_mod_factor :
  forall r p q, (0 < p)%Z -> (0 < q)%Z -> (((r * r) mod (p * q)) mod p = ((r mod p) * (r mod p)) mod p)%Z).
Print Assumptions C18_qr_mod_factor.

Theorem C18_bases_generate_spec :
  forall N n ds bs ds', bases_generate N n ds = Ok (bs, ds') ->
  length bs = n /\ Forall (fun a => exists r, a = ((r * r) mod N)%Z /\ (1 < a)%Z /\ Z.gcd a N = 1%Z) bs.
Proof. exact bases_generate_spec. Qed.
Check (C18_bases_generate_spec :
  forall N n ds bs ds', bases_generate N n ds = Ok (bs, ds') ->
  length bs = n /\ Forall (fun a => exists r, a = ((r * r) mod N)%Z /\ (1 < a)%Z /\ Z.gcd a N = 1%Z) bs).
Print Assumptions C18_bases_generate_spec.

Theorem C18_cpk_gbase_spec :
  forall h N ds g ds', cpk_gbase h N ds = Ok (g, ds') ->
  exists f, pow_mod h f N = Ok g /\ (1 < g)%Z /\ Z.gcd g N = 1%Z.
Proof. exact cpk_gbase_spec. Qed.
Check (C18_cpk_gbase_spec :
  forall h N ds g ds', cpk_gbase h N ds = Ok (g, ds') ->
  exists f, pow_mod h f N = Ok g /\ (1 < g)%Z /\ Z.gcd g N = 1%Z).
Print Assumptions C18_cpk_gbase_spec.

Theorem C18_pk_codec_roundtrip :
  forall CS pk b, pk_to_bytes CS pk = Ok b -> pk_from_bytes CS b = Ok pk.
Proof. exact pk_codec_roundtrip. Qed.
Check (C18_pk_codec_roundtrip :
  forall CS pk b, pk_to_bytes CS pk = Ok b -> pk_from_bytes CS b = Ok pk).
Print Assumptions C18_pk_codec_roundtrip.

(* secret-key byte codec round trip *)
Theorem C18_sk_codec_roundtrip :
  forall CS sk b, sk_to_bytes CS sk = Ok b -> sk_from_bytes CS b = Ok sk.
Proof. exact sk_codec_roundtrip. Qed.
Check (C18_sk_codec_roundtrip :
  forall CS sk b, sk_to_bytes CS sk = Ok b -> sk_from_bytes CS b = Ok sk).
Print Assumptions C18_sk_codec_roundtrip.
