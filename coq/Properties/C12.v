(* C12 -- theorems are being added *)
From ZK Require Import Laws.
