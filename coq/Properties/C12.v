(* C12 -- signature update over any history of updates.  upd_nth i v l replaces position i; run_updates folds
   update_signature over a list of (position, new value) pairs, stating the current value as the old one. *)
From ZK Require Import Laws BaseLemmas ModelLemmas SignProofs UpdateProofs Separation Binding.

(* invariant over histories (induction on the update list): whenever the run returns, the current signature verifies for
   the current vector, with the exponent of the original signature *)
Theorem C12_update_history_inv :
  forall (E : env) (LW : Laws E) sk header ups s msgs sk' msgs',
  suite_ok E ->
  verify E s (sk_to_pk E sk) (Some msgs) header = Ok tt ->
  run_updates E s sk msgs ups = Ok (sk', msgs') ->
  msgs' = apply_updates msgs ups /\ length msgs' = length msgs /\
  sig_e E sk' = sig_e E s /\
  verify E sk' (sk_to_pk E sk) (Some msgs') header = Ok tt.
Proof. exact update_history_inv. Qed.
Check (C12_update_history_inv :
  forall (E : env) (LW : Laws E) sk header ups s msgs sk' msgs',
  suite_ok E ->
  verify E s (sk_to_pk E sk) (Some msgs) header = Ok tt ->
  run_updates E s sk msgs ups = Ok (sk', msgs') ->
  msgs' = apply_updates msgs ups /\ length msgs' = length msgs /\
  sig_e E sk' = sig_e E s /\
  verify E sk' (sk_to_pk E sk) (Some msgs') header = Ok tt).
Print Assumptions C12_update_history_inv.

Theorem C12_update_step_valid :
  forall (E : env) (LW : Laws E) sk s msgs header i v s',
  suite_ok E ->
  verify E s (sk_to_pk E sk) (Some msgs) header = Ok tt ->
  update_signature E s sk (nth (N.to_nat i) msgs []) v i (len msgs) = Ok s' ->
  verify E s' (sk_to_pk E sk) (Some (upd_nth (N.to_nat i) v msgs)) header = Ok tt /\
  sig_e E s' = sig_e E s /\ sig_A E s' <> g1_zero (PR E).
Proof. exact update_step_valid. Qed.
Check (C12_update_step_valid :
  forall (E : env) (LW : Laws E) sk s msgs header i v s',
  suite_ok E ->
  verify E s (sk_to_pk E sk) (Some msgs) header = Ok tt ->
  update_signature E s sk (nth (N.to_nat i) msgs []) v i (len msgs) = Ok s' ->
  verify E s' (sk_to_pk E sk) (Some (upd_nth (N.to_nat i) v msgs)) header = Ok tt /\
  sig_e E s' = sig_e E s /\ sig_A E s' <> g1_zero (PR E)).
Print Assumptions C12_update_step_valid.

(* a step returns a signature except on the negligible set where the new B is the identity (then Err) *)
Theorem C12_update_step_total :
  forall (E : env) (LW : Laws E) sk s msgs header i v,
  suite_ok E ->
  verify E s (sk_to_pk E sk) (Some msgs) header = Ok tt ->
  (i < len msgs)%N -> (len msgs < usize_max - 1)%N -> fadd (SO E) sk (sig_e E s) <> f0 (SO E) ->
  (exists s', update_signature E s sk (nth (N.to_nat i) msgs []) v i (len msgs) = Ok s') \/
  (update_signature E s sk (nth (N.to_nat i) msgs []) v i (len msgs) = Err /\
   forall e' B, sign_eB E (Some (upd_nth (N.to_nat i) v msgs)) sk (sk_to_pk E sk) header = Ok (e', B) -> B = g1_zero (PR E)).
Proof. exact update_step_total. Qed.
Check (C12_update_step_total :
  forall (E : env) (LW : Laws E) sk s msgs header i v,
  suite_ok E ->
  verify E s (sk_to_pk E sk) (Some msgs) header = Ok tt ->
  (i < len msgs)%N -> (len msgs < usize_max - 1)%N -> fadd (SO E) sk (sig_e E s) <> f0 (SO E) ->
  (exists s', update_signature E s sk (nth (N.to_nat i) msgs []) v i (len msgs) = Ok s') \/
  (update_signature E s sk (nth (N.to_nat i) msgs []) v i (len msgs) = Err /\
   forall e' B, sign_eB E (Some (upd_nth (N.to_nat i) v msgs)) sk (sk_to_pk E sk) header = Ok (e', B) -> B = g1_zero (PR E))).
Print Assumptions C12_update_step_total.

(* the current signature equals the one the key holder obtains for the current vector with the same exponent *)
Theorem C12_update_is_signers_signature :
  forall (E : env) (LW : Laws E) sk pk header s msgs e' B,
  pk = sk_to_pk E sk ->
  verify E s pk (Some msgs) header = Ok tt ->
  sign_eB E (Some msgs) sk pk header = Ok (e', B) ->
  fadd (SO E) sk (sig_e E s) <> f0 (SO E) ->
  sig_A E s = g1_mul (PR E) (finv (SO E) (fadd (SO E) sk (sig_e E s))) B.
Proof. exact update_is_signers_signature. Qed.
Check (C12_update_is_signers_signature :
  forall (E : env) (LW : Laws E) sk pk header s msgs e' B,
  pk = sk_to_pk E sk ->
  verify E s pk (Some msgs) header = Ok tt ->
  sign_eB E (Some msgs) sk pk header = Ok (e', B) ->
  fadd (SO E) sk (sig_e E s) <> f0 (SO E) ->
  sig_A E s = g1_mul (PR E) (finv (SO E) (fadd (SO E) sk (sig_e E s))) B).
Print Assumptions C12_update_is_signers_signature.

(* out-of-range position: refused with an error, whatever the values (no panic: C08) *)
Theorem C12_update_oob :
  forall (E : env) s sk old_m new_m ui n, (n <= ui)%N -> update_signature E s sk old_m new_m ui n = Err.
Proof. exact update_oob. Qed.
Check (C12_update_oob :
  forall (E : env) s sk old_m new_m ui n, (n <= ui)%N -> update_signature E s sk old_m new_m ui n = Err).
Print Assumptions C12_update_oob.

(* a wrong old value never verifies for the intended vector, unless the two old values collide under the
   message-to-scalar hash or the generator at that position is the identity *)
Theorem C12_update_wrong_old :
  forall (E : env) (LW : Laws E) sk s msgs header i v old' s',
  suite_ok E ->
  verify E s (sk_to_pk E sk) (Some msgs) header = Ok tt ->
  update_signature E s sk old' v i (len msgs) = Ok s' ->
  hm E old' <> hm E (nth (N.to_nat i) msgs []) ->
  (forall g, gens_create E (length msgs + 1) (c_api_id (cs E)) = Ok g ->
             nth (N.to_nat i) (skipn 1 (g_values E g)) (g1_zero (PR E)) <> g1_zero (PR E)) ->
  verify E s' (sk_to_pk E sk) (Some (upd_nth (N.to_nat i) v msgs)) header = Err.
Proof. exact update_wrong_old. Qed.
Check (C12_update_wrong_old :
  forall (E : env) (LW : Laws E) sk s msgs header i v old' s',
  suite_ok E ->
  verify E s (sk_to_pk E sk) (Some msgs) header = Ok tt ->
  update_signature E s sk old' v i (len msgs) = Ok s' ->
  hm E old' <> hm E (nth (N.to_nat i) msgs []) ->
  (forall g, gens_create E (length msgs + 1) (c_api_id (cs E)) = Ok g ->
             nth (N.to_nat i) (skipn 1 (g_values E g)) (g1_zero (PR E)) <> g1_zero (PR E)) ->
  verify E s' (sk_to_pk E sk) (Some (upd_nth (N.to_nat i) v msgs)) header = Err).
Print Assumptions C12_update_wrong_old.

(* the current signature does not verify for an earlier, different vector -- unless that acceptance constructs a collision of
   the message hash or a non-trivial discrete-log relation among the generators (reduction, instance of C02's verify_binding) *)
Theorem C12_update_old_vector_reduces :
  forall (E : env) (LW : Laws E) s pk cur old header,
  suite_ok E ->
  verify E s pk (Some cur) header = Ok tt ->
  verify E s pk (Some old) header = Ok tt ->
  length cur = length old -> cur <> old ->
  (len (option_default [] header) <= usize_max)%N ->
  (exists i, (i < length cur)%nat /\ nth i cur [] <> nth i old [] /\ hm E (nth i cur []) = hm E (nth i old [])) \/
  (exists Q1 H dm dm',
     DLRelation E LW (Q1 :: H) (fsub (SO E) dm dm' :: zip_sub E (map (hm E) cur) (map (hm E) old)) \/
     Collision (fun x => f_of_okm (SO E) (expand E x (c_api_id (cs E) ++ c_h2s (cs E)) 48))
               (dom_input E pk Q1 H header (c_api_id (cs E))) (dom_input E pk Q1 H header (c_api_id (cs E)))).
Proof. exact update_old_vector_reduces. Qed.
Check (C12_update_old_vector_reduces :
  forall (E : env) (LW : Laws E) s pk cur old header,
  suite_ok E ->
  verify E s pk (Some cur) header = Ok tt ->
  verify E s pk (Some old) header = Ok tt ->
  length cur = length old -> cur <> old ->
  (len (option_default [] header) <= usize_max)%N ->
  (exists i, (i < length cur)%nat /\ nth i cur [] <> nth i old [] /\ hm E (nth i cur []) = hm E (nth i old [])) \/
  (exists Q1 H dm dm',
     DLRelation E LW (Q1 :: H) (fsub (SO E) dm dm' :: zip_sub E (map (hm E) cur) (map (hm E) old)) \/
     Collision (fun x => f_of_okm (SO E) (expand E x (c_api_id (cs E) ++ c_h2s (cs E)) 48))
               (dom_input E pk Q1 H header (c_api_id (cs E))) (dom_input E pk Q1 H header (c_api_id (cs E))))).
Print Assumptions C12_update_old_vector_reduces.

(* two signatures with the same exponent that verify for the same key, vector and header have the same point *)
Theorem C12_verify_same_e_same_A :
  forall (E : env) (LW : Laws E) sk header msgs s1 s2,
  verify E s1 (sk_to_pk E sk) (Some msgs) header = Ok tt ->
  verify E s2 (sk_to_pk E sk) (Some msgs) header = Ok tt ->
  sig_e E s1 = sig_e E s2 ->
  fadd (SO E) sk (sig_e E s1) <> f0 (SO E) ->
  sig_A E s1 = sig_A E s2.
Proof. exact verify_same_e_same_A. Qed.
Check (C12_verify_same_e_same_A :
  forall (E : env) (LW : Laws E) sk header msgs s1 s2,
  verify E s1 (sk_to_pk E sk) (Some msgs) header = Ok tt ->
  verify E s2 (sk_to_pk E sk) (Some msgs) header = Ok tt ->
  sig_e E s1 = sig_e E s2 ->
  fadd (SO E) sk (sig_e E s1) <> f0 (SO E) ->
  sig_A E s1 = sig_A E s2).
Print Assumptions C12_verify_same_e_same_A.

(* path independence: two update histories from the same valid signature that end in the same vector end in the same signature *)
Theorem C12_update_path_independent :
  forall (E : env) (LW : Laws E) sk header s msgs ups1 ups2 sa ma sb mb,
  suite_ok E ->
  verify E s (sk_to_pk E sk) (Some msgs) header = Ok tt ->
  run_updates E s sk msgs ups1 = Ok (sa, ma) ->
  run_updates E s sk msgs ups2 = Ok (sb, mb) ->
  apply_updates msgs ups1 = apply_updates msgs ups2 ->
  fadd (SO E) sk (sig_e E s) <> f0 (SO E) ->
  sig_A E sa = sig_A E sb /\ sig_e E sa = sig_e E sb.
Proof. exact update_path_independent. Qed.
Check (C12_update_path_independent :
  forall (E : env) (LW : Laws E) sk header s msgs ups1 ups2 sa ma sb mb,
  suite_ok E ->
  verify E s (sk_to_pk E sk) (Some msgs) header = Ok tt ->
  run_updates E s sk msgs ups1 = Ok (sa, ma) ->
  run_updates E s sk msgs ups2 = Ok (sb, mb) ->
  apply_updates msgs ups1 = apply_updates msgs ups2 ->
  fadd (SO E) sk (sig_e E s) <> f0 (SO E) ->
  sig_A E sa = sig_A E sb /\ sig_e E sa = sig_e E sb).
Print Assumptions C12_update_path_independent.

(* undoing: a history that ends in the original vector returns the original signature *)
Theorem C12_update_undo :
  forall (E : env) (LW : Laws E) sk header s msgs ups sa ma,
  suite_ok E ->
  verify E s (sk_to_pk E sk) (Some msgs) header = Ok tt ->
  run_updates E s sk msgs ups = Ok (sa, ma) ->
  apply_updates msgs ups = msgs ->
  fadd (SO E) sk (sig_e E s) <> f0 (SO E) ->
  sig_A E sa = sig_A E s /\ sig_e E sa = sig_e E s.
Proof. exact update_undo. Qed.
Check (C12_update_undo :
  forall (E : env) (LW : Laws E) sk header s msgs ups sa ma,
  suite_ok E ->
  verify E s (sk_to_pk E sk) (Some msgs) header = Ok tt ->
  run_updates E s sk msgs ups = Ok (sa, ma) ->
  apply_updates msgs ups = msgs ->
  fadd (SO E) sk (sig_e E s) <> f0 (SO E) ->
  sig_A E sa = sig_A E s /\ sig_e E sa = sig_e E s).
Print Assumptions C12_update_undo.

(* histories never get stuck: a history of in-range updates returns a signature -- unless at some step the signer's own B for the
   vector reached there is the identity (the negligible event on which signing that vector fails as well); never a panic (C08) *)
Theorem C12_update_history_total :
  forall (E : env) (LW : Laws E) sk header ups s msgs,
  suite_ok E ->
  verify E s (sk_to_pk E sk) (Some msgs) header = Ok tt ->
  Forall (fun u : N * bytes => (fst u < len msgs)%N) ups ->
  (len msgs < usize_max - 1)%N -> fadd (SO E) sk (sig_e E s) <> f0 (SO E) ->
  (exists s' msgs', run_updates E s sk msgs ups = Ok (s', msgs')) \/
  (run_updates E s sk msgs ups = Err /\
   exists k, (k < length ups)%nat /\
     forall e' B, sign_eB E (Some (apply_updates msgs (firstn (S k) ups))) sk (sk_to_pk E sk) header = Ok (e', B) -> B = g1_zero (PR E)).
Proof. exact update_history_total. Qed.
Check (C12_update_history_total :
  forall (E : env) (LW : Laws E) sk header ups s msgs,
  suite_ok E ->
  verify E s (sk_to_pk E sk) (Some msgs) header = Ok tt ->
  Forall (fun u : N * bytes => (fst u < len msgs)%N) ups ->
  (len msgs < usize_max - 1)%N -> fadd (SO E) sk (sig_e E s) <> f0 (SO E) ->
  (exists s' msgs', run_updates E s sk msgs ups = Ok (s', msgs')) \/
  (run_updates E s sk msgs ups = Err /\
   exists k, (k < length ups)%nat /\
     forall e' B, sign_eB E (Some (apply_updates msgs (firstn (S k) ups))) sk (sk_to_pk E sk) header = Ok (e', B) -> B = g1_zero (PR E))).
Print Assumptions C12_update_history_total.
