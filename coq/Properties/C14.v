(* C14 -- CL03 blind issuance.  Proved end to end: (1) blind_issuance_valid -- for every attribute vector, every strictly
   increasing list U of hidden positions and every logged randomness (random_bits values >= 0), whatever blind_sign returns
   for the honest holder's commitment and the revealed attributes at the complementary positions unblinds to a signature
   that verify_multiattr accepts on the WHOLE vector (honest_extension_commits_to_all: hidden product * revealed product =
   product over all positions; blind_issue_complete: e-th root under the key premises good_key); (2) zkpok_complete /
   honest_issuance_proof_accepted -- the whole issuance proof (trusted-party proof, multi-secret proof, per-attribute opening
   and range proofs, opening and range proof of the randomness) that the holder generates is accepted, for every U;
   (3) gating: blind_sign returns only if verify_proof returned true (otherwise the Rust code panics = refusal).
   (4) soundness core of the issuance sigma protocols (ClSound2.v): what acceptance of nispm / nisp2 says about the responses,
   their SPECIAL SOUNDNESS (nisp2: the same exponents under the issuer's bases and under the commitment key) and RIGIDITY.
   Rejection of mismatching / edited proofs beyond that: correspondence + sweep (all non-empty U for n <= 3 / 5). *)
From ZK Require Import Cl ClArith ClSig ClMore ClGroup ClBoudot ModelLemmas ClSpok ClSpok2 ClSpok3 ClDraws ClZk.
From ZK Require Import ClTies.
From ZK Require Import ClUpdate.
From ZK Require Import ClSound ClSound2 ClOrder.
From Coq Require Import Permutation.
From Coq Require Import List. Import ListNotations.

Theorem C14_cl_blind_sign_gated :
  forall CS BP pk sk bases zk revealed C Ct ck U ridx ds b ds',
  blind_sign CS BP pk sk bases zk revealed C Ct ck U ridx ds = Ok (b, ds') ->
  zkpok_verify CS BP zk C Ct pk bases ck U = Ok true.
Proof. exact cl_blind_sign_gated. Qed.
Check (C14_cl_blind_sign_gated :
  forall CS BP pk sk bases zk revealed C Ct ck U ridx ds b ds',
  blind_sign CS BP pk sk bases zk revealed C Ct ck U ridx ds = Ok (b, ds') ->
  zkpok_verify CS BP zk C Ct pk bases ck U = Ok true).
Print Assumptions C14_cl_blind_sign_gated.

Theorem C14_unblind_sign_s :
  forall b C, s_s (unblind_sign b C) = (c_rand C + bs_rprime b)%Z /\ s_e (unblind_sign b C) = bs_e b /\ s_v (unblind_sign b C) = bs_v b.
Proof. exact unblind_sign_s. Qed.
Check (C14_unblind_sign_s :
  forall b C, s_s (unblind_sign b C) = (c_rand C + bs_rprime b)%Z /\ s_e (unblind_sign b C) = bs_e b /\ s_v (unblind_sign b C) = bs_v b).
Print Assumptions C14_unblind_sign_s.

Theorem C14_nisp2sec_complete :
  forall CS m c g h n ds p ds',
  (0 < n)%Z -> (0 <= m)%Z -> (0 <= c_rand c)%Z -> c_value c = ((g ^ m * h ^ c_rand c) mod n)%Z ->
  Forall bits_ok ds ->
  nisp2sec_gen CS m c g h n ds = Ok (p, ds') ->
  nisp2sec_verify p c g h n = Ok true.
Proof. exact nisp2sec_complete. Qed.
Check (C14_nisp2sec_complete :
  forall CS m c g h n ds p ds',
  (0 < n)%Z -> (0 <= m)%Z -> (0 <= c_rand c)%Z -> c_value c = ((g ^ m * h ^ c_rand c) mod n)%Z ->
  Forall bits_ok ds ->
  nisp2sec_gen CS m c g h n ds = Ok (p, ds') ->
  nisp2sec_verify p c g h n = Ok true).
Print Assumptions C14_nisp2sec_complete.

(* proof_commited_msgs: for C = prod_{i in U} a_i^{m_i} * b^r mod N the multi-secret proof verifies (every U, any draws >= 0) *)
Theorem C14_nispm_complete :
  forall CS msgs c pk bases U ds p ds',
  (0 < pk_N pk)%Z -> (length msgs <> 1)%nat -> (0 <= c_rand c)%Z ->
  (forall i, In i U -> (0 <= nth (N.to_nat i) msgs 1)%Z) ->
  c_value c = ((pprod bases (map (fun i => nth (N.to_nat i) msgs 1%Z) U) U * pk_b pk ^ c_rand c) mod pk_N pk)%Z ->
  Forall bits_ok ds ->
  nispm_gen CS msgs c pk bases (Some U) ds = Ok (p, ds') ->
  nispm_verify p c pk bases (Some U) = Ok true.
Proof. exact nispm_complete. Qed.
Check (C14_nispm_complete :
  forall CS msgs c pk bases U ds p ds',
  (0 < pk_N pk)%Z -> (length msgs <> 1)%nat -> (0 <= c_rand c)%Z ->
  (forall i, In i U -> (0 <= nth (N.to_nat i) msgs 1)%Z) ->
  c_value c = ((pprod bases (map (fun i => nth (N.to_nat i) msgs 1%Z) U) U * pk_b pk ^ c_rand c) mod pk_N pk)%Z ->
  Forall bits_ok ds ->
  nispm_gen CS msgs c pk bases (Some U) ds = Ok (p, ds') ->
  nispm_verify p c pk bases (Some U) = Ok true).
Print Assumptions C14_nispm_complete.

(* proof_C_Ctrusted: C (signer's bases) and C_trusted (trusted party's bases) commit to the same hidden attributes *)
Theorem C14_nisp2_complete :
  forall CS msgs c1 c2 pk bases ck U ds p ds',
  (0 < pk_N pk)%Z -> (0 < ck_N ck)%Z -> (0 <= c_rand c1)%Z -> (0 <= c_rand c2)%Z ->
  (forall j, In j U -> (0 <= nth (N.to_nat j) msgs 1)%Z) ->
  (c_value c1 mod pk_N pk = (pprod bases (map (fun j => nth (N.to_nat j) msgs 1%Z) U) U * pk_b pk ^ c_rand c1) mod pk_N pk)%Z ->
  (c_value c2 mod ck_N ck = (pprod (ck_g ck) (map (fun j => nth (N.to_nat j) msgs 1%Z) U) U * ck_h ck ^ c_rand c2) mod ck_N ck)%Z ->
  Forall bits_ok ds ->
  nisp2_gen CS msgs c1 c2 pk bases ck U ds = Ok (p, ds') ->
  invert (c_value c1) (pk_N pk) <> None -> invert (c_value c2) (ck_N ck) <> None ->
  nisp2_verify p c1 c2 pk bases ck U = Ok true.
Proof. exact nisp2_complete. Qed.
Check (C14_nisp2_complete :
  forall CS msgs c1 c2 pk bases ck U ds p ds',
  (0 < pk_N pk)%Z -> (0 < ck_N ck)%Z -> (0 <= c_rand c1)%Z -> (0 <= c_rand c2)%Z ->
  (forall j, In j U -> (0 <= nth (N.to_nat j) msgs 1)%Z) ->
  (c_value c1 mod pk_N pk = (pprod bases (map (fun j => nth (N.to_nat j) msgs 1%Z) U) U * pk_b pk ^ c_rand c1) mod pk_N pk)%Z ->
  (c_value c2 mod ck_N ck = (pprod (ck_g ck) (map (fun j => nth (N.to_nat j) msgs 1%Z) U) U * ck_h ck ^ c_rand c2) mod ck_N ck)%Z ->
  Forall bits_ok ds ->
  nisp2_gen CS msgs c1 c2 pk bases ck U ds = Ok (p, ds') ->
  invert (c_value c1) (pk_N pk) <> None -> invert (c_value c2) (ck_N ck) <> None ->
  nisp2_verify p c1 c2 pk bases ck U = Ok true).
Print Assumptions C14_nisp2_complete.

(* the whole issuance proof verifies (every U; trusted-party part under the premises of nisp2_complete) *)
Theorem C14_zkpok_complete :
  forall CS BP msgs C Ct pk bases ck U ds p ds',
  (0 <= b_t BP)%Z -> (0 < pk_N pk)%Z ->
  Forall (unit (pk_N pk)) bases -> unit (pk_N pk) (pk_b pk) ->
  (length msgs <> 1)%nat -> (0 <= c_rand C)%Z ->
  (forall i, In i U -> (0 <= nth (N.to_nat i) msgs 1)%Z) ->
  c_value C = ((pprod bases (map (fun i => nth (N.to_nat i) msgs 1%Z) U) U * pk_b pk ^ c_rand C) mod pk_N pk)%Z ->
  trusted_ok msgs C Ct pk ck U ->
  Forall bits_ok ds ->
  zkpok_gen CS BP msgs C Ct pk bases ck U ds = Ok (p, ds') ->
  zkpok_verify CS BP p C Ct pk bases ck U = Ok true.
Proof. exact zkpok_complete. Qed.
Check (C14_zkpok_complete :
  forall CS BP msgs C Ct pk bases ck U ds p ds',
  (0 <= b_t BP)%Z -> (0 < pk_N pk)%Z ->
  Forall (unit (pk_N pk)) bases -> unit (pk_N pk) (pk_b pk) ->
  (length msgs <> 1)%nat -> (0 <= c_rand C)%Z ->
  (forall i, In i U -> (0 <= nth (N.to_nat i) msgs 1)%Z) ->
  c_value C = ((pprod bases (map (fun i => nth (N.to_nat i) msgs 1%Z) U) U * pk_b pk ^ c_rand C) mod pk_N pk)%Z ->
  trusted_ok msgs C Ct pk ck U ->
  Forall bits_ok ds ->
  zkpok_gen CS BP msgs C Ct pk bases ck U ds = Ok (p, ds') ->
  zkpok_verify CS BP p C Ct pk bases ck U = Ok true).
Print Assumptions C14_zkpok_complete.

(* holder's commitment, then holder's proof: accepted by the issuer *)
Theorem C14_honest_issuance_proof_accepted :
  forall CS BP pk bases msgs U ds C d1 p ds',
  (0 <= b_t BP)%Z -> (0 < pk_N pk)%Z ->
  Forall (unit (pk_N pk)) bases -> unit (pk_N pk) (pk_b pk) ->
  (length msgs <> 1)%nat -> (length msgs <= length bases)%nat -> Forall (fun m => (0 <= m)%Z) msgs ->
  Forall (fun j => (N.to_nat j < length msgs)%nat) U ->
  Forall bits_ok ds ->
  commit_with_pk CS msgs pk bases (Some U) ds = Ok (C, d1) ->
  zkpok_gen CS BP msgs C None pk bases None U d1 = Ok (p, ds') ->
  zkpok_verify CS BP p C None pk bases None U = Ok true.
Proof. exact honest_issuance_proof_accepted. Qed.
Check (C14_honest_issuance_proof_accepted :
  forall CS BP pk bases msgs U ds C d1 p ds',
  (0 <= b_t BP)%Z -> (0 < pk_N pk)%Z ->
  Forall (unit (pk_N pk)) bases -> unit (pk_N pk) (pk_b pk) ->
  (length msgs <> 1)%nat -> (length msgs <= length bases)%nat -> Forall (fun m => (0 <= m)%Z) msgs ->
  Forall (fun j => (N.to_nat j < length msgs)%nat) U ->
  Forall bits_ok ds ->
  commit_with_pk CS msgs pk bases (Some U) ds = Ok (C, d1) ->
  zkpok_gen CS BP msgs C None pk bases None U d1 = Ok (p, ds') ->
  zkpok_verify CS BP p C None pk bases None U = Ok true).
Print Assumptions C14_honest_issuance_proof_accepted.

(* hidden product * revealed product = product over all positions, for every U *)
Theorem C14_honest_extension_commits_to_all :
  forall CS pk bases msgs U ds C ds',
  (0 < pk_N pk)%Z -> (length msgs <= length bases)%nat -> Forall (fun m => (0 <= m)%Z) msgs ->
  strictly_sorted U -> Forall (fun j => (N.to_nat j < length msgs)%nat) U ->
  Forall bits_ok ds ->
  commit_with_pk CS msgs pk bases (Some U) ds = Ok (C, ds') ->
  (0 <= c_rand C)%Z /\
  exists ext, extend_commitment_with_pk C (map (at_ msgs) (revealed_of U 0 (length msgs))) pk bases
                (Some (revealed_of U 0 (length msgs))) = Ok ext /\
    (0 <= c_value ext)%Z /\ c_rand ext = c_rand C /\
    (c_value ext mod pk_N pk = (PP bases msgs * pk_b pk ^ c_rand C) mod pk_N pk)%Z.
Proof. exact honest_extension_commits_to_all. Qed.
Check (C14_honest_extension_commits_to_all :
  forall CS pk bases msgs U ds C ds',
  (0 < pk_N pk)%Z -> (length msgs <= length bases)%nat -> Forall (fun m => (0 <= m)%Z) msgs ->
  strictly_sorted U -> Forall (fun j => (N.to_nat j < length msgs)%nat) U ->
  Forall bits_ok ds ->
  commit_with_pk CS msgs pk bases (Some U) ds = Ok (C, ds') ->
  (0 <= c_rand C)%Z /\
  exists ext, extend_commitment_with_pk C (map (at_ msgs) (revealed_of U 0 (length msgs))) pk bases
                (Some (revealed_of U 0 (length msgs))) = Ok ext /\
    (0 <= c_value ext)%Z /\ c_rand ext = c_rand C /\
    (c_value ext mod pk_N pk = (PP bases msgs * pk_b pk ^ c_rand C) mod pk_N pk)%Z).
Print Assumptions C14_honest_extension_commits_to_all.

(* end to end: the unblinded signature verifies on the whole attribute vector *)
Theorem C14_blind_issuance_valid :
  forall CS BP pk sk bases msgs U ds0 C ds0' zk Ct ck ds b ds',
  good_key pk sk ->
  Forall (fun a => Z.gcd a (pk_N pk) = 1%Z) bases ->
  forallb (msg_in_range CS) msgs = true -> (length msgs <= length bases)%nat ->
  strictly_sorted U -> Forall (fun j => (N.to_nat j < length msgs)%nat) U ->
  Forall bits_ok ds0 -> commit_with_pk CS msgs pk bases (Some U) ds0 = Ok (C, ds0') ->
  Forall bits_ok ds ->
  blind_sign CS BP pk sk bases zk (Some (map (at_ msgs) (revealed_of U 0 (length msgs)))) C Ct ck U
             (Some (revealed_of U 0 (length msgs))) ds = Ok (b, ds') ->
  verify_multiattr CS (unblind_sign b C) pk bases msgs = Ok true.
Proof. exact blind_issuance_valid. Qed.
Check (C14_blind_issuance_valid :
  forall CS BP pk sk bases msgs U ds0 C ds0' zk Ct ck ds b ds',
  good_key pk sk ->
  Forall (fun a => Z.gcd a (pk_N pk) = 1%Z) bases ->
  forallb (msg_in_range CS) msgs = true -> (length msgs <= length bases)%nat ->
  strictly_sorted U -> Forall (fun j => (N.to_nat j < length msgs)%nat) U ->
  Forall bits_ok ds0 -> commit_with_pk CS msgs pk bases (Some U) ds0 = Ok (C, ds0') ->
  Forall bits_ok ds ->
  blind_sign CS BP pk sk bases zk (Some (map (at_ msgs) (revealed_of U 0 (length msgs)))) C Ct ck U
             (Some (revealed_of U 0 (length msgs))) ds = Ok (b, ds') ->
  verify_multiattr CS (unblind_sign b C) pk bases msgs = Ok true).
Print Assumptions C14_blind_issuance_valid.

(* re-issuing after a revealed attribute changed: the updated signature verifies on the updated vector *)
Theorem C14_cl_update_complete :
  forall CS b revealed C sk pk bases ridx b' msgs ext,
  good_key pk sk ->
  Forall (fun a => Z.gcd a (pk_N pk) = 1%Z) bases ->
  forallb (msg_in_range CS) msgs = true -> (length msgs <= length bases)%nat ->
  (0 <= c_rand C)%Z -> (0 <= bs_rprime b)%Z -> (two (le CS - 1) < bs_e b < two (le CS))%Z ->
  (match revealed, ridx with
   | Some rm, Some _ => extend_commitment_with_pk C rm pk bases ridx
   | _, _ => Ok C
   end) = Ok ext ->
  (0 <= c_value ext)%Z ->
  (c_value ext mod pk_N pk = (PP bases msgs * pk_b pk ^ c_rand C) mod pk_N pk)%Z ->
  update_signature b revealed C sk pk bases ridx = Ok b' ->
  bs_e b' = bs_e b /\ bs_rprime b' = bs_rprime b /\
  verify_multiattr CS (unblind_sign b' C) pk bases msgs = Ok true.
Proof. exact cl_update_complete. Qed.
Check (C14_cl_update_complete :
  forall CS b revealed C sk pk bases ridx b' msgs ext,
  good_key pk sk ->
  Forall (fun a => Z.gcd a (pk_N pk) = 1%Z) bases ->
  forallb (msg_in_range CS) msgs = true -> (length msgs <= length bases)%nat ->
  (0 <= c_rand C)%Z -> (0 <= bs_rprime b)%Z -> (two (le CS - 1) < bs_e b < two (le CS))%Z ->
  (match revealed, ridx with
   | Some rm, Some _ => extend_commitment_with_pk C rm pk bases ridx
   | _, _ => Ok C
   end) = Ok ext ->
  (0 <= c_value ext)%Z ->
  (c_value ext mod pk_N pk = (PP bases msgs * pk_b pk ^ c_rand C) mod pk_N pk)%Z ->
  update_signature b revealed C sk pk bases ridx = Ok b' ->
  bs_e b' = bs_e b /\ bs_rprime b' = bs_rprime b /\
  verify_multiattr CS (unblind_sign b' C) pk bases msgs = Ok true).
Print Assumptions C14_cl_update_complete.

(* ... and if it also verified on the old vector the two products of powers of the bases would be congruent *)
Theorem C14_verify_two_vectors_reduces :
  forall CS sg pk bases msgs msgs',
  (0 < pk_N pk)%Z -> Z.gcd (pk_b pk) (pk_N pk) = 1%Z -> Z.gcd (pk_c pk) (pk_N pk) = 1%Z -> (0 <= pk_c pk)%Z -> (0 <= s_s sg)%Z ->
  verify_multiattr CS sg pk bases msgs = Ok true ->
  verify_multiattr CS sg pk bases msgs' = Ok true ->
  eqm (pk_N pk) (PP bases msgs) (PP bases msgs').
Proof. exact verify_two_vectors_reduces. Qed.
Check (C14_verify_two_vectors_reduces :
  forall CS sg pk bases msgs msgs',
  (0 < pk_N pk)%Z -> Z.gcd (pk_b pk) (pk_N pk) = 1%Z -> Z.gcd (pk_c pk) (pk_N pk) = 1%Z -> (0 <= pk_c pk)%Z -> (0 <= s_s sg)%Z ->
  verify_multiattr CS sg pk bases msgs = Ok true ->
  verify_multiattr CS sg pk bases msgs' = Ok true ->
  eqm (pk_N pk) (PP bases msgs) (PP bases msgs')).
Print Assumptions C14_verify_two_vectors_reduces.

(* fix 56a5ca8: in an accepted issuance proof every per-attribute range proof is about the commitment of its opening proof *)
Theorem C14_zkpok_loop_ties_range_proofs :
  forall CS BP pk bases U pmi rpmi,
  zkpok_verify_loop CS BP pk bases U pmi rpmi = Ok true ->
  Forall2 (fun pv rp => c_value (pv_com pv) = bd_E rp) (firstn (length U) pmi) (firstn (length U) rpmi).
Proof. exact zkpok_loop_ties_range_proofs. Qed.
Check (C14_zkpok_loop_ties_range_proofs :
  forall CS BP pk bases U pmi rpmi,
  zkpok_verify_loop CS BP pk bases U pmi rpmi = Ok true ->
  Forall2 (fun pv rp => c_value (pv_com pv) = bd_E rp) (firstn (length U) pmi) (firstn (length U) rpmi)).
Print Assumptions C14_zkpok_loop_ties_range_proofs.

(* finding F15 on the faithful model: the per-attribute pairs and (proof_r, range_proof_r) of ANY other accepted issuance proof
   under the same key, bases and hidden positions -- made for any other commitment -- are accepted in place of the proof's own *)
Theorem C14_zkpok_subproofs_untied :
  forall CS BP p C Ct pk bases ck U q,
  zkpok_verify CS BP p C Ct pk bases ck U = Ok true ->
  forall C' Ct' ck', zkpok_verify CS BP q C' Ct' pk bases ck' U = Ok true ->
  zkpok_verify CS BP (zk_with_subproofs p (zk_pmi q) (zk_rpmi q) (zk_pr q) (zk_rpr q)) C Ct pk bases ck U = Ok true.
Proof. exact zkpok_subproofs_untied. Qed.
Check (C14_zkpok_subproofs_untied :
  forall CS BP p C Ct pk bases ck U q,
  zkpok_verify CS BP p C Ct pk bases ck U = Ok true ->
  forall C' Ct' ck', zkpok_verify CS BP q C' Ct' pk bases ck' U = Ok true ->
  zkpok_verify CS BP (zk_with_subproofs p (zk_pmi q) (zk_rpmi q) (zk_pr q) (zk_rpr q)) C Ct pk bases ck U = Ok true).
Print Assumptions C14_zkpok_subproofs_untied.

(* fix F17: an accepted issuance proof carries exactly one opening proof and one range proof per hidden attribute *)
Theorem C14_zkpok_accepts_lengths :
  forall CS BP p C Ct pk bases ck U,
  zkpok_verify CS BP p C Ct pk bases ck U = Ok true ->
  length (zk_pmi p) = length U /\ length (zk_rpmi p) = length U.
Proof. exact zkpok_accepts_lengths. Qed.
Check (C14_zkpok_accepts_lengths :
  forall CS BP p C Ct pk bases ck U,
  zkpok_verify CS BP p C Ct pk bases ck U = Ok true ->
  length (zk_pmi p) = length U /\ length (zk_rpmi p) = length U).
Print Assumptions C14_zkpok_accepts_lengths.

(* acceptance of the multi-secret proof: its first message is the one recomputed from the responses *)
Theorem C14_nispm_accepts :
  (forall n : Z,
0 < n ->
forall (p : nispm) (c : commitment) (pk : pubkey) 
  (bases : list Z) (U : option (list N)) (sel : list (Z * Z))
  (bi Ci : Z),
pk_N pk = n ->
mapM (nthZ bases) (option_default [0%N] U) = Ok (map fst sel) ->
units n sel ->
invert (pk_b pk) n = Some bi ->
invert (c_value c) n = Some Ci ->
nispm_verify p c pk bases U = Ok true ->
length (nm_s1 p) = length sel /\
vW n sel (pk_b pk) bi (c_value c) Ci (nm_s1 p) 
  (nm_s2 p) (nm_chal sel (pk_b pk) p c) = nm_t p mod n)%Z.
Proof. exact nispm_accepts. Qed.
Check (C14_nispm_accepts :
  (forall n : Z,
0 < n ->
forall (p : nispm) (c : commitment) (pk : pubkey) 
  (bases : list Z) (U : option (list N)) (sel : list (Z * Z))
  (bi Ci : Z),
pk_N pk = n ->
mapM (nthZ bases) (option_default [0%N] U) = Ok (map fst sel) ->
units n sel ->
invert (pk_b pk) n = Some bi ->
invert (c_value c) n = Some Ci ->
nispm_verify p c pk bases U = Ok true ->
length (nm_s1 p) = length sel /\
vW n sel (pk_b pk) bi (c_value c) Ci (nm_s1 p) 
  (nm_s2 p) (nm_chal sel (pk_b pk) p c) = nm_t p mod n)%Z).
Print Assumptions C14_nispm_accepts.

(* one first message answered for two challenges: prod a_i^(ds_i) b^(dr) == C^(dc) *)
Theorem C14_nispm_special_soundness :
  (forall n : Z,
0 < n ->
forall (sel : list (Z * Z)) (b bi C Ci : Z) 
  (s1 : list Z) (s2 c : Z) (s1' : list Z) (s2' c' : Z),
units n sel ->
invert b n = Some bi ->
invert C n = Some Ci ->
length s1 = length sel ->
length s1' = length sel ->
vW n sel b bi C Ci s1 s2 c = vW n sel b bi C Ci s1' s2' c' ->
Zdiv.eqm n (gprod n sel (vsub s1 s1') * gp n b bi (s2 - s2'))
  (gp n C Ci (c - c')))%Z.
Proof. exact nispm_special_soundness. Qed.
Check (C14_nispm_special_soundness :
  (forall n : Z,
0 < n ->
forall (sel : list (Z * Z)) (b bi C Ci : Z) 
  (s1 : list Z) (s2 c : Z) (s1' : list Z) (s2' c' : Z),
units n sel ->
invert b n = Some bi ->
invert C n = Some Ci ->
length s1 = length sel ->
length s1' = length sel ->
vW n sel b bi C Ci s1 s2 c = vW n sel b bi C Ci s1' s2' c' ->
Zdiv.eqm n (gprod n sel (vsub s1 s1') * gp n b bi (s2 - s2'))
  (gp n C Ci (c - c')))%Z).
Print Assumptions C14_nispm_special_soundness.

(* two accepted proofs with the same first message differ by a relation between the bases *)
Theorem C14_nispm_rigid :
  (forall n : Z,
0 < n ->
forall (p p' : nispm) (c : commitment) (pk : pubkey) 
  (bases : list Z) (U : option (list N)) (sel : list (Z * Z))
  (bi Ci : Z),
pk_N pk = n ->
mapM (nthZ bases) (option_default [0%N] U) = Ok (map fst sel) ->
units n sel ->
invert (pk_b pk) n = Some bi ->
invert (c_value c) n = Some Ci ->
nispm_verify p c pk bases U = Ok true ->
nispm_verify p' c pk bases U = Ok true ->
nm_t p = nm_t p' ->
Zdiv.eqm n
  (gprod n sel (vsub (nm_s1 p) (nm_s1 p')) *
   gp n (pk_b pk) bi (nm_s2 p - nm_s2 p')) 1)%Z.
Proof. exact nispm_rigid. Qed.
Check (C14_nispm_rigid :
  (forall n : Z,
0 < n ->
forall (p p' : nispm) (c : commitment) (pk : pubkey) 
  (bases : list Z) (U : option (list N)) (sel : list (Z * Z))
  (bi Ci : Z),
pk_N pk = n ->
mapM (nthZ bases) (option_default [0%N] U) = Ok (map fst sel) ->
units n sel ->
invert (pk_b pk) n = Some bi ->
invert (c_value c) n = Some Ci ->
nispm_verify p c pk bases U = Ok true ->
nispm_verify p' c pk bases U = Ok true ->
nm_t p = nm_t p' ->
Zdiv.eqm n
  (gprod n sel (vsub (nm_s1 p) (nm_s1 p')) *
   gp n (pk_b pk) bi (nm_s2 p - nm_s2 p')) 1)%Z).
Print Assumptions C14_nispm_rigid.

(* the trusted-party proof: the two first messages the verifier recomputes and hashes *)
Theorem C14_nisp2_verify_spec :
  (forall n1 n2 : Z,
0 < n1 ->
0 < n2 ->
forall (p : nisp2) (c1 c2 : commitment) (pk : pubkey) 
  (bases : list Z) (ck : cpubkey) (U : list N)
  (sel1 sel2 : list (Z * Z)) (bi hi C1i C2i : Z),
pk_N pk = n1 ->
ck_N ck = n2 ->
mapM (nthZ bases) U = Ok (map fst sel1) ->
units n1 sel1 ->
mapM (nthZ (ck_g ck)) U = Ok (map fst sel2) ->
units n2 sel2 ->
invert (pk_b pk) n1 = Some bi ->
invert (ck_h ck) n2 = Some hi ->
invert (c_value c1) n1 = Some C1i ->
invert (c_value c2) n2 = Some C2i ->
length (n2_d p) = length U ->
nisp2_verify p c1 c2 pk bases ck U =
Ok
  (n2_chal p =?
   hash_int
     (str_cat
        [n2_W1 n1 sel1 (pk_b pk) bi (c_value c1) C1i p;
         n2_W2 n2 sel2 (ck_h ck) hi (c_value c2) C2i p])))%Z.
Proof. exact nisp2_verify_spec. Qed.
Check (C14_nisp2_verify_spec :
  (forall n1 n2 : Z,
0 < n1 ->
0 < n2 ->
forall (p : nisp2) (c1 c2 : commitment) (pk : pubkey) 
  (bases : list Z) (ck : cpubkey) (U : list N)
  (sel1 sel2 : list (Z * Z)) (bi hi C1i C2i : Z),
pk_N pk = n1 ->
ck_N ck = n2 ->
mapM (nthZ bases) U = Ok (map fst sel1) ->
units n1 sel1 ->
mapM (nthZ (ck_g ck)) U = Ok (map fst sel2) ->
units n2 sel2 ->
invert (pk_b pk) n1 = Some bi ->
invert (ck_h ck) n2 = Some hi ->
invert (c_value c1) n1 = Some C1i ->
invert (c_value c2) n2 = Some C2i ->
length (n2_d p) = length U ->
nisp2_verify p c1 c2 pk bases ck U =
Ok
  (n2_chal p =?
   hash_int
     (str_cat
        [n2_W1 n1 sel1 (pk_b pk) bi (c_value c1) C1i p;
         n2_W2 n2 sel2 (ck_h ck) hi (c_value c2) C2i p])))%Z).
Print Assumptions C14_nisp2_verify_spec.

(* ... specially sound with the SAME exponents under both families of bases (the commitment under the commitment key hides the attributes the issuer signs) *)
Theorem C14_nisp2_special_soundness :
  (forall n1 n2 : Z,
0 < n1 ->
0 < n2 ->
forall (sel1 sel2 : list (Z * Z)) (b bi h hi C1 C1i C2 C2i : Z)
  (p p' : nisp2),
units n1 sel1 ->
units n2 sel2 ->
invert b n1 = Some bi ->
invert h n2 = Some hi ->
invert C1 n1 = Some C1i ->
invert C2 n2 = Some C2i ->
length (n2_d p) = length sel1 ->
length (n2_d p') = length sel1 ->
length sel2 = length sel1 ->
n2_W1 n1 sel1 b bi C1 C1i p = n2_W1 n1 sel1 b bi C1 C1i p' ->
n2_W2 n2 sel2 h hi C2 C2i p = n2_W2 n2 sel2 h hi C2 C2i p' ->
Zdiv.eqm n1
  (gprod n1 sel1 (vsub (n2_d p) (n2_d p')) *
   gp n1 b bi (n2_d1 p - n2_d1 p'))
  (gp n1 C1 C1i (n2_chal p - n2_chal p')) /\
Zdiv.eqm n2
  (gprod n2 sel2 (vsub (n2_d p) (n2_d p')) *
   gp n2 h hi (n2_d2 p - n2_d2 p'))
  (gp n2 C2 C2i (n2_chal p - n2_chal p')))%Z.
Proof. exact nisp2_special_soundness. Qed.
Check (C14_nisp2_special_soundness :
  (forall n1 n2 : Z,
0 < n1 ->
0 < n2 ->
forall (sel1 sel2 : list (Z * Z)) (b bi h hi C1 C1i C2 C2i : Z)
  (p p' : nisp2),
units n1 sel1 ->
units n2 sel2 ->
invert b n1 = Some bi ->
invert h n2 = Some hi ->
invert C1 n1 = Some C1i ->
invert C2 n2 = Some C2i ->
length (n2_d p) = length sel1 ->
length (n2_d p') = length sel1 ->
length sel2 = length sel1 ->
n2_W1 n1 sel1 b bi C1 C1i p = n2_W1 n1 sel1 b bi C1 C1i p' ->
n2_W2 n2 sel2 h hi C2 C2i p = n2_W2 n2 sel2 h hi C2 C2i p' ->
Zdiv.eqm n1
  (gprod n1 sel1 (vsub (n2_d p) (n2_d p')) *
   gp n1 b bi (n2_d1 p - n2_d1 p'))
  (gp n1 C1 C1i (n2_chal p - n2_chal p')) /\
Zdiv.eqm n2
  (gprod n2 sel2 (vsub (n2_d p) (n2_d p')) *
   gp n2 h hi (n2_d2 p - n2_d2 p'))
  (gp n2 C2 C2i (n2_chal p - n2_chal p')))%Z).
Print Assumptions C14_nisp2_special_soundness.

Theorem C14_nisp2_rigid :
  (forall n1 n2 : Z,
0 < n1 ->
0 < n2 ->
forall (p p' : nisp2) (c1 c2 : commitment) 
  (pk : pubkey) (bases : list Z) (ck : cpubkey) 
  (U : list N) (sel1 sel2 : list (Z * Z)) (bi hi C1i C2i : Z),
pk_N pk = n1 ->
ck_N ck = n2 ->
mapM (nthZ bases) U = Ok (map fst sel1) ->
units n1 sel1 ->
mapM (nthZ (ck_g ck)) U = Ok (map fst sel2) ->
units n2 sel2 ->
invert (pk_b pk) n1 = Some bi ->
invert (ck_h ck) n2 = Some hi ->
invert (c_value c1) n1 = Some C1i ->
invert (c_value c2) n2 = Some C2i ->
nisp2_verify p c1 c2 pk bases ck U = Ok true ->
nisp2_verify p' c1 c2 pk bases ck U = Ok true ->
n2_chal p = n2_chal p' ->
Zdiv.eqm n1
  (gprod n1 sel1 (vsub (n2_d p) (n2_d p')) *
   gp n1 (pk_b pk) bi (n2_d1 p - n2_d1 p')) 1 /\
Zdiv.eqm n2
  (gprod n2 sel2 (vsub (n2_d p) (n2_d p')) *
   gp n2 (ck_h ck) hi (n2_d2 p - n2_d2 p')) 1 \/
(exists a b : list Z,
   a <> b /\ hash_int (str_cat a) = hash_int (str_cat b)))%Z.
Proof. exact nisp2_rigid. Qed.
Check (C14_nisp2_rigid :
  (forall n1 n2 : Z,
0 < n1 ->
0 < n2 ->
forall (p p' : nisp2) (c1 c2 : commitment) 
  (pk : pubkey) (bases : list Z) (ck : cpubkey) 
  (U : list N) (sel1 sel2 : list (Z * Z)) (bi hi C1i C2i : Z),
pk_N pk = n1 ->
ck_N ck = n2 ->
mapM (nthZ bases) U = Ok (map fst sel1) ->
units n1 sel1 ->
mapM (nthZ (ck_g ck)) U = Ok (map fst sel2) ->
units n2 sel2 ->
invert (pk_b pk) n1 = Some bi ->
invert (ck_h ck) n2 = Some hi ->
invert (c_value c1) n1 = Some C1i ->
invert (c_value c2) n2 = Some C2i ->
nisp2_verify p c1 c2 pk bases ck U = Ok true ->
nisp2_verify p' c1 c2 pk bases ck U = Ok true ->
n2_chal p = n2_chal p' ->
Zdiv.eqm n1
  (gprod n1 sel1 (vsub (n2_d p) (n2_d p')) *
   gp n1 (pk_b pk) bi (n2_d1 p - n2_d1 p')) 1 /\
Zdiv.eqm n2
  (gprod n2 sel2 (vsub (n2_d p) (n2_d p')) *
   gp n2 (ck_h ck) hi (n2_d2 p - n2_d2 p')) 1 \/
(exists a b : list Z,
   a <> b /\ hash_int (str_cat a) = hash_int (str_cat b)))%Z).
Print Assumptions C14_nisp2_rigid.

(* the issuer's extension pairs the k-th revealed position with the k-th revealed value: any other listing order extends to the same residue *)
Theorem C14_extension_order_irrelevant :
  forall n bases msgs l l' v,
  (0 < n)%Z -> (0 <= v)%Z -> Permutation l l' ->
  Forall (fun j => (N.to_nat j < length bases)%nat /\ (N.to_nat j < length msgs)%nat /\ (0 <= at_ msgs j)%Z) l ->
  exists r r', extend_loop v bases n l (map (at_ msgs) l) = Ok r /\
               extend_loop v bases n l' (map (at_ msgs) l') = Ok r' /\ (r mod n = r' mod n)%Z.
Proof. exact extension_order_irrelevant. Qed.
Check (C14_extension_order_irrelevant :
  forall n bases msgs l l' v,
  (0 < n)%Z -> (0 <= v)%Z -> Permutation l l' ->
  Forall (fun j => (N.to_nat j < length bases)%nat /\ (N.to_nat j < length msgs)%nat /\ (0 <= at_ msgs j)%Z) l ->
  exists r r', extend_loop v bases n l (map (at_ msgs) l) = Ok r /\
               extend_loop v bases n l' (map (at_ msgs) l') = Ok r' /\ (r mod n = r' mod n)%Z).
Print Assumptions C14_extension_order_irrelevant.
