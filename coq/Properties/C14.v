(* C14 -- CL03 blind issuance.  Proved: gating (blind_sign returns only if verify_proof returned true; otherwise the Rust
   code panics = refusal), the unblinded signature's components, and completeness of the two-secret sigma protocol that
   carries each hidden attribute and the commitment randomness, of the multi-secret protocol (proof_commited_msgs) for every
   hidden set U, and of the two-commitment protocol (trusted-party commitment).  The Boudot range proofs inside the issuance
   proof and rejection of mismatching / edited proofs: correspondence + sweep (all non-empty U for n <= 3 / 5). *)
From ZK Require Import Cl ClArith ClSig ClMore.

Theorem C14_cl_blind_sign_gated :
  forall CS BP pk sk bases zk revealed C Ct ck U ridx ds b ds',
  blind_sign CS BP pk sk bases zk revealed C Ct ck U ridx ds = Ok (b, ds') ->
  zkpok_verify CS BP zk C Ct pk bases ck U = Ok true.
Proof. exact cl_blind_sign_gated. Qed.
Check (C14_cl_blind_sign_gated :
  forall CS BP pk sk bases zk revealed C Ct ck U ridx ds b ds',
  blind_sign CS BP pk sk bases zk revealed C Ct ck U ridx ds = Ok (b, ds') ->
  zkpok_verify CS BP zk C Ct pk bases ck U = Ok true).
Print Assumptions C14_cl_blind_sign_gated.

Theorem C14_unblind_sign_s :
  forall b C, s_s (unblind_sign b C) = (c_rand C + bs_rprime b)%Z /\ s_e (unblind_sign b C) = bs_e b /\ s_v (unblind_sign b C) = bs_v b.
Proof. exact unblind_sign_s. Qed.
Check (C14_unblind_sign_s :
  forall b C, s_s (unblind_sign b C) = (c_rand C + bs_rprime b)%Z /\ s_e (unblind_sign b C) = bs_e b /\ s_v (unblind_sign b C) = bs_v b).
Print Assumptions C14_unblind_sign_s.

Theorem C14_nisp2sec_complete :
  forall CS m c g h n ds p ds',
  (0 < n)%Z -> (0 <= m)%Z -> (0 <= c_rand c)%Z -> c_value c = ((g ^ m * h ^ c_rand c) mod n)%Z ->
  Forall (fun d => (0 <= d_val d)%Z) ds ->
  nisp2sec_gen CS m c g h n ds = Ok (p, ds') ->
  nisp2sec_verify p c g h n = Ok true.
Proof. exact nisp2sec_complete. Qed.
Check (C14_nisp2sec_complete :
  forall CS m c g h n ds p ds',
  (0 < n)%Z -> (0 <= m)%Z -> (0 <= c_rand c)%Z -> c_value c = ((g ^ m * h ^ c_rand c) mod n)%Z ->
  Forall (fun d => (0 <= d_val d)%Z) ds ->
  nisp2sec_gen CS m c g h n ds = Ok (p, ds') ->
  nisp2sec_verify p c g h n = Ok true).
Print Assumptions C14_nisp2sec_complete.

(* proof_commited_msgs: for C = prod_{i in U} a_i^{m_i} * b^r mod N the multi-secret proof verifies (every U, any draws >= 0) *)
Theorem C14_nispm_complete :
  forall CS msgs c pk bases U ds p ds',
  (0 < pk_N pk)%Z -> (length msgs <> 1)%nat -> (0 <= c_rand c)%Z ->
  (forall i, In i U -> (0 <= nth (N.to_nat i) msgs 1)%Z) ->
  c_value c = ((pprod bases (map (fun i => nth (N.to_nat i) msgs 1%Z) U) U * pk_b pk ^ c_rand c) mod pk_N pk)%Z ->
  Forall (fun d => (0 <= d_val d)%Z) ds ->
  nispm_gen CS msgs c pk bases (Some U) ds = Ok (p, ds') ->
  nispm_verify p c pk bases (Some U) = Ok true.
Proof. exact nispm_complete. Qed.
Check (C14_nispm_complete :
  forall CS msgs c pk bases U ds p ds',
  (0 < pk_N pk)%Z -> (length msgs <> 1)%nat -> (0 <= c_rand c)%Z ->
  (forall i, In i U -> (0 <= nth (N.to_nat i) msgs 1)%Z) ->
  c_value c = ((pprod bases (map (fun i => nth (N.to_nat i) msgs 1%Z) U) U * pk_b pk ^ c_rand c) mod pk_N pk)%Z ->
  Forall (fun d => (0 <= d_val d)%Z) ds ->
  nispm_gen CS msgs c pk bases (Some U) ds = Ok (p, ds') ->
  nispm_verify p c pk bases (Some U) = Ok true).
Print Assumptions C14_nispm_complete.

(* proof_C_Ctrusted: C (signer's bases) and C_trusted (trusted party's bases) commit to the same hidden attributes *)
Theorem C14_nisp2_complete :
  forall CS msgs c1 c2 pk bases ck U ds p ds',
  (0 < pk_N pk)%Z -> (0 < ck_N ck)%Z -> (0 <= c_rand c1)%Z -> (0 <= c_rand c2)%Z ->
  (forall j, In j U -> (0 <= nth (N.to_nat j) msgs 1)%Z) ->
  (c_value c1 mod pk_N pk = (pprod bases (map (fun j => nth (N.to_nat j) msgs 1%Z) U) U * pk_b pk ^ c_rand c1) mod pk_N pk)%Z ->
  (c_value c2 mod ck_N ck = (pprod (ck_g ck) (map (fun j => nth (N.to_nat j) msgs 1%Z) U) U * ck_h ck ^ c_rand c2) mod ck_N ck)%Z ->
  Forall (fun d => (0 <= d_val d)%Z) ds ->
  nisp2_gen CS msgs c1 c2 pk bases ck U ds = Ok (p, ds') ->
  invert (c_value c1) (pk_N pk) <> None -> invert (c_value c2) (ck_N ck) <> None ->
  nisp2_verify p c1 c2 pk bases ck U = Ok true.
Proof. exact nisp2_complete. Qed.
Check (C14_nisp2_complete :
  forall CS msgs c1 c2 pk bases ck U ds p ds',
  (0 < pk_N pk)%Z -> (0 < ck_N ck)%Z -> (0 <= c_rand c1)%Z -> (0 <= c_rand c2)%Z ->
  (forall j, In j U -> (0 <= nth (N.to_nat j) msgs 1)%Z) ->
  (c_value c1 mod pk_N pk = (pprod bases (map (fun j => nth (N.to_nat j) msgs 1%Z) U) U * pk_b pk ^ c_rand c1) mod pk_N pk)%Z ->
  (c_value c2 mod ck_N ck = (pprod (ck_g ck) (map (fun j => nth (N.to_nat j) msgs 1%Z) U) U * ck_h ck ^ c_rand c2) mod ck_N ck)%Z ->
  Forall (fun d => (0 <= d_val d)%Z) ds ->
  nisp2_gen CS msgs c1 c2 pk bases ck U ds = Ok (p, ds') ->
  invert (c_value c1) (pk_N pk) <> None -> invert (c_value c2) (ck_N ck) <> None ->
  nisp2_verify p c1 c2 pk bases ck U = Ok true).
Print Assumptions C14_nisp2_complete.
