(* C14 -- CL03 blind issuance.  Proved: gating (blind_sign returns only if verify_proof returned true; otherwise the Rust
   code panics = refusal), the unblinded signature's components, and completeness of the two-secret sigma protocol that
   carries each hidden attribute and the commitment randomness.  Completeness of the whole issuance flow for every hidden
   set, and rejection of mismatching / edited proofs: correspondence + sweep (all non-empty U for n <= 3 / 5). *)
From ZK Require Import Cl ClArith ClSig ClMore.

Theorem C14_cl_blind_sign_gated :
  forall CS BP pk sk bases zk revealed C Ct ck U ridx ds b ds',
  blind_sign CS BP pk sk bases zk revealed C Ct ck U ridx ds = Ok (b, ds') ->
  zkpok_verify CS BP zk C Ct pk bases ck U = Ok true.
Proof. exact cl_blind_sign_gated. Qed.
Check (C14_cl_blind_sign_gated :
  forall CS BP pk sk bases zk revealed C Ct ck U ridx ds b ds',
  blind_sign CS BP pk sk bases zk revealed C Ct ck U ridx ds = Ok (b, ds') ->
  zkpok_verify CS BP zk C Ct pk bases ck U = Ok true).
Print Assumptions C14_cl_blind_sign_gated.

Theorem C14_unblind_sign_s :
  forall b C, s_s (unblind_sign b C) = (c_rand C + bs_rprime b)%Z /\ s_e (unblind_sign b C) = bs_e b /\ s_v (unblind_sign b C) = bs_v b.
Proof. exact unblind_sign_s. Qed.
Check (C14_unblind_sign_s :
  forall b C, s_s (unblind_sign b C) = (c_rand C + bs_rprime b)%Z /\ s_e (unblind_sign b C) = bs_e b /\ s_v (unblind_sign b C) = bs_v b).
Print Assumptions C14_unblind_sign_s.

Theorem C14_nisp2sec_complete :
  forall CS m c g h n ds p ds',
  (0 < n)%Z -> (0 <= m)%Z -> (0 <= c_rand c)%Z -> c_value c = ((g ^ m * h ^ c_rand c) mod n)%Z ->
  Forall (fun d => (0 <= d_val d)%Z) ds ->
  nisp2sec_gen CS m c g h n ds = Ok (p, ds') ->
  nisp2sec_verify p c g h n = Ok true.
Proof. exact nisp2sec_complete. Qed.
Check (C14_nisp2sec_complete :
  forall CS m c g h n ds p ds',
  (0 < n)%Z -> (0 <= m)%Z -> (0 <= c_rand c)%Z -> c_value c = ((g ^ m * h ^ c_rand c) mod n)%Z ->
  Forall (fun d => (0 <= d_val d)%Z) ds ->
  nisp2sec_gen CS m c g h n ds = Ok (p, ds') ->
  nisp2sec_verify p c g h n = Ok true).
Print Assumptions C14_nisp2sec_complete.
