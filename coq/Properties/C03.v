(* C03 -- BBS proof completeness for every disclosure choice.  For every environment with Laws, every valid
   signature, every message list (any L), every index list (unsorted, duplicates allowed, entries < L), every header /
   presentation header and all draws outside the negligible set {r1 = 0, r2 = 0} (and pk = O, sk + e = 0, which a
   decoded key / honest signature exclude): proof_gen succeeds, the proof verifies with exactly the disclosed
   messages at their positions, has length 272 + 32 * U and survives its codec. *)
From ZK Require Import Laws BaseLemmas ModelLemmas SignProofs Codec ProofComplete Toy.

Theorem C03_proof_complete :
  forall (E : env) (LW : Laws E) pk sigb s header ph msgs idx rho,
  suite_ok E ->
  sig_from_bytes E sigb = Ok s ->
  verify E s pk msgs header = Ok tt ->
  let ml := option_default [] msgs in
  let D := sort_dedup (option_default [] idx) in
  (forall i, In i (option_default [] idx) -> (i < N.of_nat (length ml))%N) ->
  length rho = (5 + (length ml - length D))%nat ->
  nth 0 rho (f0 (SO E)) <> f0 (SO E) -> nth 1 rho (f0 (SO E)) <> f0 (SO E) ->
  dl2 E LW pk <> f0 (SO E) -> fadd (SO E) (dl2 E LW pk) (sig_e E s) <> f0 (SO E) ->
  exists p,
    proof_gen E pk sigb header ph msgs idx rho = Ok p /\
    proof_verify E p pk (Some (pick ml D)) (Some D) header ph = Ok tt /\
    length (pok_to_bytes E p) = (272 + 32 * (length ml - length D))%nat /\
    pok_from_bytes E (pok_to_bytes E p) = Ok p.
Proof. exact proof_complete. Qed.
Check (C03_proof_complete :
  forall (E : env) (LW : Laws E) pk sigb s header ph msgs idx rho,
  suite_ok E ->
  sig_from_bytes E sigb = Ok s ->
  verify E s pk msgs header = Ok tt ->
  let ml := option_default [] msgs in
  let D := sort_dedup (option_default [] idx) in
  (forall i, In i (option_default [] idx) -> (i < N.of_nat (length ml))%N) ->
  length rho = (5 + (length ml - length D))%nat ->
  nth 0 rho (f0 (SO E)) <> f0 (SO E) -> nth 1 rho (f0 (SO E)) <> f0 (SO E) ->
  dl2 E LW pk <> f0 (SO E) -> fadd (SO E) (dl2 E LW pk) (sig_e E s) <> f0 (SO E) ->
  exists p,
    proof_gen E pk sigb header ph msgs idx rho = Ok p /\
    proof_verify E p pk (Some (pick ml D)) (Some D) header ph = Ok tt /\
    length (pok_to_bytes E p) = (272 + 32 * (length ml - length D))%nat /\
    pok_from_bytes E (pok_to_bytes E p) = Ok p).
Print Assumptions C03_proof_complete.

(* core level: any generator set of the right size, any api_id whose H2S DST fits (plain and blind interfaces) *)
Theorem C03_core_proof_complete :
  forall (E : env) (LW : Laws E) pk s g ms idx header ph api rho,
  core_verify E pk s ms g header api = Ok tt ->
  (forall i, In i idx -> (i < N.of_nat (length ms))%N) ->
  length rho = (5 + (length ms - length (sort_dedup idx)))%nat ->
  nth 0 rho (f0 (SO E)) <> f0 (SO E) -> nth 1 rho (f0 (SO E)) <> f0 (SO E) ->
  sig_A E s <> g1_zero (PR E) -> dl2 E LW pk <> f0 (SO E) ->
  fadd (SO E) (dl2 E LW pk) (sig_e E s) <> f0 (SO E) ->
  (length (api ++ c_h2s (cs E)) <= 255)%nat ->
  exists p,
    core_proof_gen E pk s g ms idx header ph api rho = Ok p /\
    length (p_m_cap E p) = (length ms - length (sort_dedup idx))%nat /\
    pok_points_ok E p /\
    core_proof_verify E pk p g header ph
      (map (nthF E ms) (sort_dedup idx)) (sort_dedup idx) api = Ok tt.
Proof. exact core_proof_complete. Qed.
Check (C03_core_proof_complete :
  forall (E : env) (LW : Laws E) pk s g ms idx header ph api rho,
  core_verify E pk s ms g header api = Ok tt ->
  (forall i, In i idx -> (i < N.of_nat (length ms))%N) ->
  length rho = (5 + (length ms - length (sort_dedup idx)))%nat ->
  nth 0 rho (f0 (SO E)) <> f0 (SO E) -> nth 1 rho (f0 (SO E)) <> f0 (SO E) ->
  sig_A E s <> g1_zero (PR E) -> dl2 E LW pk <> f0 (SO E) ->
  fadd (SO E) (dl2 E LW pk) (sig_e E s) <> f0 (SO E) ->
  (length (api ++ c_h2s (cs E)) <= 255)%nat ->
  exists p,
    core_proof_gen E pk s g ms idx header ph api rho = Ok p /\
    length (p_m_cap E p) = (length ms - length (sort_dedup idx))%nat /\
    pok_points_ok E p /\
    core_proof_verify E pk p g header ph
      (map (nthF E ms) (sort_dedup idx)) (sort_dedup idx) api = Ok tt).
Print Assumptions C03_core_proof_complete.

(* the undisclosed index set is the complement of the sorted, de-duplicated disclosed set: U + R = L *)
Theorem C03_remaining_length :
  forall n idx, NoDup idx -> (forall y, In y idx -> (y < N.of_nat n)%N) ->
  (length (remaining n idx) + length idx = n)%nat.
Proof. exact remaining_length. Qed.
Check (C03_remaining_length :
  forall n idx, NoDup idx -> (forall y, In y idx -> (y < N.of_nat n)%N) ->
  (length (remaining n idx) + length idx = n)%nat).
Print Assumptions C03_remaining_length.

Theorem C03_remaining_In :
  forall n idx y, In y (remaining n idx) <-> ((y < N.of_nat n)%N /\ ~ In y idx).
Proof. exact remaining_In. Qed.
Check (C03_remaining_In :
  forall n idx y, In y (remaining n idx) <-> ((y < N.of_nat n)%N /\ ~ In y idx)).
Print Assumptions C03_remaining_In.

Theorem C03_sort_dedup_sorted :
  forall l, strictly_sorted (sort_dedup l).
Proof. exact sort_dedup_sorted. Qed.
Check (C03_sort_dedup_sorted :
  forall l, strictly_sorted (sort_dedup l)).
Print Assumptions C03_sort_dedup_sorted.

Theorem C03_sort_dedup_In :
  forall y l, In y (sort_dedup l) <-> In y l.
Proof. exact sort_dedup_In. Qed.
Check (C03_sort_dedup_In :
  forall y l, In y (sort_dedup l) <-> In y l).
Print Assumptions C03_sort_dedup_In.

(* the proof length depends on the number of undisclosed messages only *)
Theorem C03_pok_to_bytes_length :
  forall (E : env) (LW : Laws E) p, length (pok_to_bytes E p) = (272 + 32 * length (p_m_cap E p))%nat.
Proof. exact pok_to_bytes_length. Qed.
Check (C03_pok_to_bytes_length :
  forall (E : env) (LW : Laws E) p, length (pok_to_bytes E p) = (272 + 32 * length (p_m_cap E p))%nat).
Print Assumptions C03_pok_to_bytes_length.

(* non-vacuity: the premises (Laws, suite_ok, a valid signature, draws with r1, r2 <> 0, pk <> O, sk + e <> 0) are met by a
   concrete instance in the toy environment Z_251 (3 messages, disclosed {0, 2} given as [2; 0; 2]); the theorem applies to it *)
Theorem C03_toy_proof_complete_applies :
  exists p, proof_gen toyE t_pk t_sigb t_hdr t_ph (Some t_msgs) t_idx t_rho = Ok p /\
  proof_verify toyE p t_pk (Some (pick t_msgs [0%N; 2%N])) (Some [0%N; 2%N]) t_hdr t_ph = Ok tt /\
  length (pok_to_bytes toyE p) = (272 + 32 * 1)%nat.
Proof. exact toy_proof_complete_applies. Qed.
Check (C03_toy_proof_complete_applies :
  exists p, proof_gen toyE t_pk t_sigb t_hdr t_ph (Some t_msgs) t_idx t_rho = Ok p /\
  proof_verify toyE p t_pk (Some (pick t_msgs [0%N; 2%N])) (Some [0%N; 2%N]) t_hdr t_ph = Ok tt /\
  length (pok_to_bytes toyE p) = (272 + 32 * 1)%nat).
Print Assumptions C03_toy_proof_complete_applies.
