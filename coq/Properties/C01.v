(* C01 -- BBS signature completeness.  Statements are pinned with [Check]; nothing else here. *)
From ZK Require Import Laws SignProofs Toy.

Theorem C01_sign_verify_complete : forall (E : env) (LW : Laws E) sk header msgs sig,
  sign E msgs sk (sk_to_pk E sk) header = Ok sig ->
  verify E sig (sk_to_pk E sk) msgs header = Ok tt.
Proof. exact sign_verify_complete. Qed.
Check (C01_sign_verify_complete : forall (E : env) (LW : Laws E) sk header msgs sig,
  sign E msgs sk (sk_to_pk E sk) header = Ok sig ->
  verify E sig (sk_to_pk E sk) msgs header = Ok tt).
Print Assumptions C01_sign_verify_complete.

(* signing succeeds: the deterministic prefix is total, and the result is a signature except on the
   negligible set sk + e = 0 (Panic: `.invert().unwrap()`) or B = O (Err) *)
Theorem C01_sign_eB_total : forall (E : env) msgs sk pk header,
  suite_ok E -> exists e B, sign_eB E msgs sk pk header = Ok (e, B).
Proof. exact sign_eB_total. Qed.
Check (C01_sign_eB_total : forall (E : env) msgs sk pk header,
  suite_ok E -> exists e B, sign_eB E msgs sk pk header = Ok (e, B)).
Print Assumptions C01_sign_eB_total.

Theorem C01_sign_outcome : forall (E : env) (LW : Laws E) msgs sk pk header e B,
  sign_eB E msgs sk pk header = Ok (e, B) ->
  (fadd (SO E) sk e = f0 (SO E) -> sign E msgs sk pk header = Panic) /\
  (fadd (SO E) sk e <> f0 (SO E) -> B = g1_zero (PR E) -> sign E msgs sk pk header = Err) /\
  (fadd (SO E) sk e <> f0 (SO E) -> B <> g1_zero (PR E) ->
     sign E msgs sk pk header =
     Ok {| sig_A := g1_mul (PR E) (finv (SO E) (fadd (SO E) sk e)) B; sig_e := e |}).
Proof. exact sign_outcome. Qed.
Check (C01_sign_outcome : forall (E : env) (LW : Laws E) msgs sk pk header e B,
  sign_eB E msgs sk pk header = Ok (e, B) ->
  (fadd (SO E) sk e = f0 (SO E) -> sign E msgs sk pk header = Panic) /\
  (fadd (SO E) sk e <> f0 (SO E) -> B = g1_zero (PR E) -> sign E msgs sk pk header = Err) /\
  (fadd (SO E) sk e <> f0 (SO E) -> B <> g1_zero (PR E) ->
     sign E msgs sk pk header =
     Ok {| sig_A := g1_mul (PR E) (finv (SO E) (fadd (SO E) sk e)) B; sig_e := e |})).
Print Assumptions C01_sign_outcome.

Theorem C01_sig_codec_roundtrip : forall (E : env) (LW : Laws E) s,
  sig_A E s <> g1_zero (PR E) -> sig_e E s <> f0 (SO E) ->
  sig_from_bytes E (sig_to_bytes E s) = Ok s /\ length (sig_to_bytes E s) = 80%nat.
Proof. exact sig_codec_roundtrip. Qed.
Check (C01_sig_codec_roundtrip : forall (E : env) (LW : Laws E) s,
  sig_A E s <> g1_zero (PR E) -> sig_e E s <> f0 (SO E) ->
  sig_from_bytes E (sig_to_bytes E s) = Ok s /\ length (sig_to_bytes E s) = 80%nat).
Print Assumptions C01_sig_codec_roundtrip.

Theorem C01_none_is_empty : forall (E : env) sk pk s,
  (forall msgs, sign E None sk pk None = sign E (Some []) sk pk None /\
                sign E msgs sk pk None = sign E msgs sk pk (Some [])) /\
  sign E None sk pk None = sign E (Some []) sk pk (Some []) /\
  (forall msgs, verify E s pk msgs None = verify E s pk msgs (Some [])) /\
  (forall header, verify E s pk None header = verify E s pk (Some []) header) /\
  (forall header, sign E None sk pk header = sign E (Some []) sk pk header).
Proof. exact none_is_empty. Qed.
Check (C01_none_is_empty : forall (E : env) sk pk s,
  (forall msgs, sign E None sk pk None = sign E (Some []) sk pk None /\
                sign E msgs sk pk None = sign E msgs sk pk (Some [])) /\
  sign E None sk pk None = sign E (Some []) sk pk (Some []) /\
  (forall msgs, verify E s pk msgs None = verify E s pk msgs (Some [])) /\
  (forall header, verify E s pk None header = verify E s pk (Some []) header) /\
  (forall header, sign E None sk pk header = sign E (Some []) sk pk header)).
Print Assumptions C01_none_is_empty.

Theorem C01_keygen_total : forall (E : env) ikm ki kd,
  (c_ikm_len (cs E) <= len ikm)%N -> (len (option_default [] ki) <= 65535)%N ->
  (length (option_default (c_api_id (cs E) ++ c_keygen_dst (cs E)) kd) <= 255)%nat ->
  exists sk, key_gen E ikm ki kd = Ok sk.
Proof. exact keygen_total. Qed.
Check (C01_keygen_total : forall (E : env) ikm ki kd,
  (c_ikm_len (cs E) <= len ikm)%N -> (len (option_default [] ki) <= 65535)%N ->
  (length (option_default (c_api_id (cs E) ++ c_keygen_dst (cs E)) kd) <= 255)%nat ->
  exists sk, key_gen E ikm ki kd = Ok sk).
Print Assumptions C01_keygen_total.

(* non-vacuity: the premises of every "forall E, Laws E -> ..." theorem are satisfiable: a concrete environment (scalars and
   both groups = Z_251, pairing check a*x = b*y, small hash functions) satisfies Laws and suite_ok, and signing in it succeeds *)
Theorem C01_laws_inhabited : Laws toyE.
Proof. exact toy_laws. Qed.
Check (C01_laws_inhabited : Laws toyE).
Print Assumptions C01_laws_inhabited.

Theorem C01_toy_suite_ok : suite_ok toyE.
Proof. exact toy_suite_ok. Qed.
Check (C01_toy_suite_ok : suite_ok toyE).
Print Assumptions C01_toy_suite_ok.

Theorem C01_toy_sign_verifies :
  exists sg, sign toyE (Some t_msgs) t_sk (sk_to_pk toyE t_sk) t_hdr = Ok sg /\
             verify toyE sg (sk_to_pk toyE t_sk) (Some t_msgs) t_hdr = Ok tt.
Proof. exact toy_sign_verifies. Qed.
Check (C01_toy_sign_verifies :
  exists sg, sign toyE (Some t_msgs) t_sk (sk_to_pk toyE t_sk) t_hdr = Ok sg /\
             verify toyE sg (sk_to_pk toyE t_sk) (Some t_msgs) t_hdr = Ok tt).
Print Assumptions C01_toy_sign_verifies.
