(* C09 -- encodings are canonical and strict.  For each codec: dec (enc x) = Ok x; dec b = Ok x -> enc x = b
   (so no two octet strings decode to one object); wrong lengths / trailing bytes, identity where the drafts forbid it
   and a zero exponent are rejected.  Point-level facts (off-curve, outside the subgroup) are the codec premises of
   Laws; the scalar codec is proved for the concrete 32-byte big-endian encoding below r. *)
From ZK Require Import Laws SignProofs Codec RealEnv RealScalars.

Theorem C09_sk_codec :
  forall (E : env) (LW : Laws E) x b,
  sk_from_bytes E (sk_to_bytes E x) = Ok x /\
  (sk_from_bytes E b = Ok x -> sk_to_bytes E x = b) /\
  (length b <> 32%nat -> sk_from_bytes E b = Err).
Proof. exact sk_codec. Qed.
Check (C09_sk_codec :
  forall (E : env) (LW : Laws E) x b,
  sk_from_bytes E (sk_to_bytes E x) = Ok x /\
  (sk_from_bytes E b = Ok x -> sk_to_bytes E x = b) /\
  (length b <> 32%nat -> sk_from_bytes E b = Err)).
Print Assumptions C09_sk_codec.

Theorem C09_blind_codec :
  forall (E : env) (LW : Laws E) x b,
  blind_from_bytes E (f_to_be (SO E) x) = Ok x /\
  (blind_from_bytes E b = Ok x -> f_to_be (SO E) x = b) /\
  (length b <> 32%nat -> blind_from_bytes E b = Err).
Proof. exact blind_codec. Qed.
Check (C09_blind_codec :
  forall (E : env) (LW : Laws E) x b,
  blind_from_bytes E (f_to_be (SO E) x) = Ok x /\
  (blind_from_bytes E b = Ok x -> f_to_be (SO E) x = b) /\
  (length b <> 32%nat -> blind_from_bytes E b = Err)).
Print Assumptions C09_blind_codec.

Theorem C09_pk_codec :
  forall (E : env) (LW : Laws E) pk b,
  (pk <> g2_zero (PR E) -> pk_from_bytes E (pk_to_bytes E pk) = Ok pk) /\
  (pk_from_bytes E b = Ok pk -> pk_to_bytes E pk = b /\ pk <> g2_zero (PR E)) /\
  (length b <> 96%nat -> pk_from_bytes E b = Err) /\
  pk_from_bytes E (pk_to_bytes E (g2_zero (PR E))) = Err.
Proof. exact pk_codec. Qed.
Check (C09_pk_codec :
  forall (E : env) (LW : Laws E) pk b,
  (pk <> g2_zero (PR E) -> pk_from_bytes E (pk_to_bytes E pk) = Ok pk) /\
  (pk_from_bytes E b = Ok pk -> pk_to_bytes E pk = b /\ pk <> g2_zero (PR E)) /\
  (length b <> 96%nat -> pk_from_bytes E b = Err) /\
  pk_from_bytes E (pk_to_bytes E (g2_zero (PR E))) = Err).
Print Assumptions C09_pk_codec.

Theorem C09_pk_xy_codec :
  forall (E : env) (LW : Laws E) pk x y,
  (pk <> g2_zero (PR E) -> pk_from_xy E (fst (pk_to_xy E pk)) (snd (pk_to_xy E pk)) = Ok pk) /\
  (pk_from_xy E x y = Ok pk -> pk_to_xy E pk = (x, y)).
Proof. exact pk_xy_codec. Qed.
Check (C09_pk_xy_codec :
  forall (E : env) (LW : Laws E) pk x y,
  (pk <> g2_zero (PR E) -> pk_from_xy E (fst (pk_to_xy E pk)) (snd (pk_to_xy E pk)) = Ok pk) /\
  (pk_from_xy E x y = Ok pk -> pk_to_xy E pk = (x, y))).
Print Assumptions C09_pk_xy_codec.

Theorem C09_sig_codec_roundtrip :
  forall (E : env) (LW : Laws E) s,
  sig_A E s <> g1_zero (PR E) -> sig_e E s <> f0 (SO E) ->
  sig_from_bytes E (sig_to_bytes E s) = Ok s /\ length (sig_to_bytes E s) = 80%nat.
Proof. exact sig_codec_roundtrip. Qed.
Check (C09_sig_codec_roundtrip :
  forall (E : env) (LW : Laws E) s,
  sig_A E s <> g1_zero (PR E) -> sig_e E s <> f0 (SO E) ->
  sig_from_bytes E (sig_to_bytes E s) = Ok s /\ length (sig_to_bytes E s) = 80%nat).
Print Assumptions C09_sig_codec_roundtrip.

Theorem C09_sig_codec_canonical :
  forall (E : env) (LW : Laws E) b s, sig_from_bytes E b = Ok s -> sig_to_bytes E s = b.
Proof. exact sig_codec_canonical. Qed.
Check (C09_sig_codec_canonical :
  forall (E : env) (LW : Laws E) b s, sig_from_bytes E b = Ok s -> sig_to_bytes E s = b).
Print Assumptions C09_sig_codec_canonical.

Theorem C09_sig_strict :
  forall (E : env) (LW : Laws E) b A e,
  (length b <> 80%nat -> sig_from_bytes E b = Err) /\
  sig_from_bytes E (sig_to_bytes E {| sig_A := g1_zero (PR E); sig_e := e |}) = Err /\
  sig_from_bytes E (sig_to_bytes E {| sig_A := A; sig_e := f0 (SO E) |}) = Err.
Proof. exact sig_strict. Qed.
Check (C09_sig_strict :
  forall (E : env) (LW : Laws E) b A e,
  (length b <> 80%nat -> sig_from_bytes E b = Err) /\
  sig_from_bytes E (sig_to_bytes E {| sig_A := g1_zero (PR E); sig_e := e |}) = Err /\
  sig_from_bytes E (sig_to_bytes E {| sig_A := A; sig_e := f0 (SO E) |}) = Err).
Print Assumptions C09_sig_strict.

Theorem C09_pok_codec_roundtrip :
  forall (E : env) (LW : Laws E) p, pok_points_ok E p ->
  pok_from_bytes E (pok_to_bytes E p) = Ok p /\
  length (pok_to_bytes E p) = (272 + 32 * length (p_m_cap E p))%nat.
Proof. exact pok_codec_roundtrip. Qed.
Check (C09_pok_codec_roundtrip :
  forall (E : env) (LW : Laws E) p, pok_points_ok E p ->
  pok_from_bytes E (pok_to_bytes E p) = Ok p /\
  length (pok_to_bytes E p) = (272 + 32 * length (p_m_cap E p))%nat).
Print Assumptions C09_pok_codec_roundtrip.

Theorem C09_pok_codec_canonical :
  forall (E : env) (LW : Laws E) b p,
  pok_from_bytes E b = Ok p -> pok_to_bytes E p = b /\ pok_points_ok E p.
Proof. exact pok_codec_canonical. Qed.
Check (C09_pok_codec_canonical :
  forall (E : env) (LW : Laws E) b p,
  pok_from_bytes E b = Ok p -> pok_to_bytes E p = b /\ pok_points_ok E p).
Print Assumptions C09_pok_codec_canonical.

Theorem C09_pok_strict :
  forall (E : env) b, (forall k, length b <> (272 + 32 * k)%nat) -> pok_from_bytes E b = Err.
Proof. exact pok_strict. Qed.
Check (C09_pok_strict :
  forall (E : env) b, (forall k, length b <> (272 + 32 * k)%nat) -> pok_from_bytes E b = Err).
Print Assumptions C09_pok_strict.

Theorem C09_zkpok_codec_roundtrip :
  forall (E : env) (LW : Laws E) z, zkpok_from_bytes E (zkpok_to_bytes E z) = Ok z.
Proof. exact zkpok_codec_roundtrip. Qed.
Check (C09_zkpok_codec_roundtrip :
  forall (E : env) (LW : Laws E) z, zkpok_from_bytes E (zkpok_to_bytes E z) = Ok z).
Print Assumptions C09_zkpok_codec_roundtrip.

Theorem C09_zkpok_codec_canonical :
  forall (E : env) (LW : Laws E) b z, zkpok_from_bytes E b = Ok z -> zkpok_to_bytes E z = b.
Proof. exact zkpok_codec_canonical. Qed.
Check (C09_zkpok_codec_canonical :
  forall (E : env) (LW : Laws E) b z, zkpok_from_bytes E b = Ok z -> zkpok_to_bytes E z = b).
Print Assumptions C09_zkpok_codec_canonical.

Theorem C09_zkpok_strict :
  forall (E : env) b, (forall k, length b <> (64 + 32 * k)%nat) -> zkpok_from_bytes E b = Err.
Proof. exact zkpok_strict. Qed.
Check (C09_zkpok_strict :
  forall (E : env) b, (forall k, length b <> (64 + 32 * k)%nat) -> zkpok_from_bytes E b = Err).
Print Assumptions C09_zkpok_strict.

Theorem C09_commitment_codec_roundtrip :
  forall (E : env) (LW : Laws E) x,
  commitment_from_bytes E (commitment_to_bytes E x) = Ok x /\
  length (commitment_to_bytes E x) = (112 + 32 * length (z_m_cap E (cm_proof E x)))%nat.
Proof. exact commitment_codec_roundtrip. Qed.
Check (C09_commitment_codec_roundtrip :
  forall (E : env) (LW : Laws E) x,
  commitment_from_bytes E (commitment_to_bytes E x) = Ok x /\
  length (commitment_to_bytes E x) = (112 + 32 * length (z_m_cap E (cm_proof E x)))%nat).
Print Assumptions C09_commitment_codec_roundtrip.

Theorem C09_commitment_codec_canonical :
  forall (E : env) (LW : Laws E) b x, commitment_from_bytes E b = Ok x -> commitment_to_bytes E x = b.
Proof. exact commitment_codec_canonical. Qed.
Check (C09_commitment_codec_canonical :
  forall (E : env) (LW : Laws E) b x, commitment_from_bytes E b = Ok x -> commitment_to_bytes E x = b).
Print Assumptions C09_commitment_codec_canonical.

Theorem C09_commitment_strict_len :
  forall (E : env) (LW : Laws E) b x,
  commitment_from_bytes E b = Ok x -> exists k, length b = (112 + 32 * k)%nat.
Proof. exact commitment_strict_len. Qed.
Check (C09_commitment_strict_len :
  forall (E : env) (LW : Laws E) b x,
  commitment_from_bytes E b = Ok x -> exists k, length b = (112 + 32 * k)%nat).
Print Assumptions C09_commitment_strict_len.

(* the concrete scalar codec of the real environment (these discharge the scalar-codec premises of Laws) *)
Theorem C09_fr_dec_enc :
  forall x, (x < r_order)%N -> fr_of_be (be_bytes_nat 32 x) = Some x.
Proof. exact fr_dec_enc. Qed.
Check (C09_fr_dec_enc :
  forall x, (x < r_order)%N -> fr_of_be (be_bytes_nat 32 x) = Some x).
Print Assumptions C09_fr_dec_enc.

Theorem C09_fr_enc_dec :
  forall b x, fr_of_be b = Some x -> be_bytes_nat 32 x = b /\ (x < r_order)%N.
Proof. exact fr_enc_dec. Qed.
Check (C09_fr_enc_dec :
  forall b x, fr_of_be b = Some x -> be_bytes_nat 32 x = b /\ (x < r_order)%N).
Print Assumptions C09_fr_enc_dec.

Theorem C09_fr_strict :
  forall b, (length b <> 32%nat \/ (r_order <= os2ip b)%N) -> fr_of_be b = None.
Proof. exact fr_strict. Qed.
Check (C09_fr_strict :
  forall b, (length b <> 32%nat \/ (r_order <= os2ip b)%N) -> fr_of_be b = None).
Print Assumptions C09_fr_strict.
