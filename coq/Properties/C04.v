(* C04 -- BBS proof soundness.  Proved here: every proof with an identity among Abar, Bbar, D is rejected by the decoder
   AND by the verifier itself (the F1 forgery family); an accepted proof pins its challenge to the hash of the recomputed
   commitments and satisfies the pairing equation with non-identity points (the starting point of the extractor).
   Statement binding: one proof accepted for two statements CONSTRUCTS an explicit collision of the challenge hash unless the
   statements agree (reduction, no injectivity hypothesis).  Special soundness (proof_special_soundness): two accepted transcripts
   with the same commitments and different challenges determine e, r1, r3 and the hidden scalars, by explicit formulas, with
   Bbar = D r1 - Abar e, B = D r3 and (sk + e) r3 Abar = r1 B -- a signature on the disclosed + extracted messages.
   Response scalars are not malleable (proof_response_edit_reduces): a second accepted proof that differs from an accepted one only
   in e^, only in r1^ or only in r3^ exhibits a collision of the challenge hash on two explicit different inputs.
   Bit flips of the points and of the challenge field: correspondence + sweep. *)
From ZK Require Import Laws BaseLemmas ModelLemmas SignProofs Codec Soundness UpdateProofs Separation Binding Extractor Malleability.
From ZK Require Import Blind Options.
From Coq Require Import List. Import ListNotations.

Theorem C04_core_proof_verify_degenerate :
  forall (E : env) (LW : Laws E) pk p g header ph dm di api,
  p_Abar E p = g1_zero (PR E) \/ p_Bbar E p = g1_zero (PR E) \/ p_D E p = g1_zero (PR E) ->
  core_proof_verify E pk p g header ph dm di api = Err.
Proof. exact core_proof_verify_degenerate. Qed.
Check (C04_core_proof_verify_degenerate :
  forall (E : env) (LW : Laws E) pk p g header ph dm di api,
  p_Abar E p = g1_zero (PR E) \/ p_Bbar E p = g1_zero (PR E) \/ p_D E p = g1_zero (PR E) ->
  core_proof_verify E pk p g header ph dm di api = Err).
Print Assumptions C04_core_proof_verify_degenerate.

Theorem C04_proof_verify_degenerate :
  forall (E : env) (LW : Laws E) p pk dmsgs idx header ph,
  suite_ok E ->
  p_Abar E p = g1_zero (PR E) \/ p_Bbar E p = g1_zero (PR E) \/ p_D E p = g1_zero (PR E) ->
  proof_verify E p pk dmsgs idx header ph = Err.
Proof. exact proof_verify_degenerate. Qed.
Check (C04_proof_verify_degenerate :
  forall (E : env) (LW : Laws E) p pk dmsgs idx header ph,
  suite_ok E ->
  p_Abar E p = g1_zero (PR E) \/ p_Bbar E p = g1_zero (PR E) \/ p_D E p = g1_zero (PR E) ->
  proof_verify E p pk dmsgs idx header ph = Err).
Print Assumptions C04_proof_verify_degenerate.

Theorem C04_pok_identity_rejected :
  forall (E : env) (LW : Laws E) b p, pok_from_bytes E b = Ok p -> pok_points_ok E p.
Proof. exact pok_identity_rejected. Qed.
Check (C04_pok_identity_rejected :
  forall (E : env) (LW : Laws E) b p, pok_from_bytes E b = Ok p -> pok_points_ok E p).
Print Assumptions C04_pok_identity_rejected.

Theorem C04_core_proof_verify_accepts :
  forall (E : env) (LW : Laws E) pk p g header ph dm di api,
  core_proof_verify E pk p g header ph dm di api = Ok tt ->
  exists ir, proof_verify_init E pk p g header dm di api = Ok ir /\
    proof_challenge_calculate E ir di dm ph api = Ok (p_chal E p) /\
    fmul (SO E) (dl1 E LW (p_Abar E p)) (dl2 E LW pk) = dl1 E LW (p_Bbar E p) /\
    p_Abar E p <> g1_zero (PR E) /\ p_Bbar E p <> g1_zero (PR E) /\ p_D E p <> g1_zero (PR E).
Proof. exact core_proof_verify_accepts. Qed.
Check (C04_core_proof_verify_accepts :
  forall (E : env) (LW : Laws E) pk p g header ph dm di api,
  core_proof_verify E pk p g header ph dm di api = Ok tt ->
  exists ir, proof_verify_init E pk p g header dm di api = Ok ir /\
    proof_challenge_calculate E ir di dm ph api = Ok (p_chal E p) /\
    fmul (SO E) (dl1 E LW (p_Abar E p)) (dl2 E LW pk) = dl1 E LW (p_Bbar E p) /\
    p_Abar E p <> g1_zero (PR E) /\ p_Bbar E p <> g1_zero (PR E) /\ p_D E p <> g1_zero (PR E)).
Print Assumptions C04_core_proof_verify_accepts.

(* truncation / extension by anything but whole scalars is a decoding error *)
Theorem C04_pok_strict :
  forall (E : env) b, (forall k, length b <> (272 + 32 * k)%nat) -> pok_from_bytes E b = Err.
Proof. exact pok_strict. Qed.
Check (C04_pok_strict :
  forall (E : env) b, (forall k, length b <> (272 + 32 * k)%nat) -> pok_from_bytes E b = Err).
Print Assumptions C04_pok_strict.

(* one proof object accepted for two statements (disclosed positions, disclosed message scalars, presentation header, and --
   through the domain -- header / key / generators): the statements agree, or the two challenge inputs are an explicit collision *)
Theorem C04_proof_statement_binding :
  forall (E : env) (LW : Laws E) pk p g header header' ph ph' dm dm' di di' api,
  core_proof_verify E pk p g header ph dm di api = Ok tt ->
  core_proof_verify E pk p g header' ph' dm' di' api = Ok tt ->
  (len (option_default [] ph) <= usize_max)%N -> (len (option_default [] ph') <= usize_max)%N ->
  (N.of_nat (length (p_m_cap E p) + length di) <= usize_max)%N -> (N.of_nat (length (p_m_cap E p) + length di') <= usize_max)%N ->
  exists ir ir',
    proof_verify_init E pk p g header dm di api = Ok ir /\ proof_verify_init E pk p g header' dm' di' api = Ok ir' /\
    ((di = di' /\ dm = dm' /\ option_default [] ph = option_default [] ph' /\ i_domain E ir = i_domain E ir') \/
     Collision (fun x => f_of_okm (SO E) (expand E x (api ++ c_h2s (cs E)) 48))
               (challenge_octets E ir di dm ph) (challenge_octets E ir' di' dm' ph')).
Proof. exact proof_statement_binding. Qed.
Check (C04_proof_statement_binding :
  forall (E : env) (LW : Laws E) pk p g header header' ph ph' dm dm' di di' api,
  core_proof_verify E pk p g header ph dm di api = Ok tt ->
  core_proof_verify E pk p g header' ph' dm' di' api = Ok tt ->
  (len (option_default [] ph) <= usize_max)%N -> (len (option_default [] ph') <= usize_max)%N ->
  (N.of_nat (length (p_m_cap E p) + length di) <= usize_max)%N -> (N.of_nat (length (p_m_cap E p) + length di') <= usize_max)%N ->
  exists ir ir',
    proof_verify_init E pk p g header dm di api = Ok ir /\ proof_verify_init E pk p g header' dm' di' api = Ok ir' /\
    ((di = di' /\ dm = dm' /\ option_default [] ph = option_default [] ph' /\ i_domain E ir = i_domain E ir') \/
     Collision (fun x => f_of_okm (SO E) (expand E x (api ++ c_h2s (cs E)) 48))
               (challenge_octets E ir di dm ph) (challenge_octets E ir' di' dm' ph'))).
Print Assumptions C04_proof_statement_binding.

(* the challenge octets are an injective encoding of (positions, scalars, T1, T2, domain, presentation header) *)
Theorem C04_challenge_octets_inj :
  forall (E : env) (LW : Laws E) ir ir' di di' dm dm' ph ph',
  length dm = length di -> length dm' = length di' ->
  Forall (fun i => (i <= usize_max)%N) di -> Forall (fun i => (i <= usize_max)%N) di' ->
  (len di <= usize_max)%N -> (len di' <= usize_max)%N ->
  (len (option_default [] ph) <= usize_max)%N -> (len (option_default [] ph') <= usize_max)%N ->
  challenge_octets E ir di dm ph = challenge_octets E ir' di' dm' ph' ->
  di = di' /\ dm = dm' /\ i_domain E ir = i_domain E ir' /\ option_default [] ph = option_default [] ph' /\
  i_T1 E ir = i_T1 E ir' /\ i_T2 E ir = i_T2 E ir'.
Proof. exact challenge_octets_inj. Qed.
Check (C04_challenge_octets_inj :
  forall (E : env) (LW : Laws E) ir ir' di di' dm dm' ph ph',
  length dm = length di -> length dm' = length di' ->
  Forall (fun i => (i <= usize_max)%N) di -> Forall (fun i => (i <= usize_max)%N) di' ->
  (len di <= usize_max)%N -> (len di' <= usize_max)%N ->
  (len (option_default [] ph) <= usize_max)%N -> (len (option_default [] ph') <= usize_max)%N ->
  challenge_octets E ir di dm ph = challenge_octets E ir' di' dm' ph' ->
  di = di' /\ dm = dm' /\ i_domain E ir = i_domain E ir' /\ option_default [] ph = option_default [] ph' /\
  i_T1 E ir = i_T1 E ir' /\ i_T2 E ir = i_T2 E ir').
Print Assumptions C04_challenge_octets_inj.

(* special soundness: the extractor *)
Theorem C04_proof_special_soundness :
  forall (E : env) (LW : Laws E) pk p p' g header dm di api ir ir',
  proof_verify_init E pk p g header dm di api = Ok ir ->
  proof_verify_init E pk p' g header dm di api = Ok ir' ->
  p_Abar E p = p_Abar E p' -> p_Bbar E p = p_Bbar E p' -> p_D E p = p_D E p' ->
  length (p_m_cap E p) = length (p_m_cap E p') ->
  i_T1 E ir = i_T1 E ir' -> i_T2 E ir = i_T2 E ir' ->
  p_chal E p <> p_chal E p' ->
  fmul (SO E) (dl1 E LW (p_Abar E p)) (dl2 E LW pk) = dl1 E LW (p_Bbar E p) ->
  let k := fsub (SO E) (p_chal E p) (p_chal E p') in
  let e := fdiv (SO E) (fsub (SO E) (p_e_cap E p) (p_e_cap E p')) k in
  let r1 := fopp (SO E) (fdiv (SO E) (fsub (SO E) (p_r1_cap E p) (p_r1_cap E p')) k) in
  let r3 := fopp (SO E) (fdiv (SO E) (fsub (SO E) (p_r3_cap E p) (p_r3_cap E p')) k) in
  let mu := quot E (p_m_cap E p) (p_m_cap E p') k in
  exists Q1 Hd Hu,
    index (g_values E g) 0 = Ok Q1 /\
    get_at (skipn 1 (g_values E g)) di = Ok Hd /\
    (exists ui, slice (remaining (length (p_m_cap E p) + length di) di) 0 (length (p_m_cap E p)) = Ok ui /\
                get_at (skipn 1 (g_values E g)) ui = Ok Hu) /\
    length mu = length (p_m_cap E p) /\
    let dB := fadd (SO E) (dl1 E LW (msm_acc E (g1_add (PR E) (g_p1 E g) (g1_mul (PR E) (i_domain E ir) Q1)) Hd dm)) (dot E LW Hu mu) in
    dl1 E LW (p_Bbar E p) = fsub (SO E) (fmul (SO E) r1 (dl1 E LW (p_D E p))) (fmul (SO E) e (dl1 E LW (p_Abar E p))) /\
    dB = fmul (SO E) r3 (dl1 E LW (p_D E p)) /\
    fmul (SO E) (fadd (SO E) (dl2 E LW pk) e) (fmul (SO E) r3 (dl1 E LW (p_Abar E p))) = fmul (SO E) r1 dB.
Proof. exact proof_special_soundness. Qed.
Check (C04_proof_special_soundness :
  forall (E : env) (LW : Laws E) pk p p' g header dm di api ir ir',
  proof_verify_init E pk p g header dm di api = Ok ir ->
  proof_verify_init E pk p' g header dm di api = Ok ir' ->
  p_Abar E p = p_Abar E p' -> p_Bbar E p = p_Bbar E p' -> p_D E p = p_D E p' ->
  length (p_m_cap E p) = length (p_m_cap E p') ->
  i_T1 E ir = i_T1 E ir' -> i_T2 E ir = i_T2 E ir' ->
  p_chal E p <> p_chal E p' ->
  fmul (SO E) (dl1 E LW (p_Abar E p)) (dl2 E LW pk) = dl1 E LW (p_Bbar E p) ->
  let k := fsub (SO E) (p_chal E p) (p_chal E p') in
  let e := fdiv (SO E) (fsub (SO E) (p_e_cap E p) (p_e_cap E p')) k in
  let r1 := fopp (SO E) (fdiv (SO E) (fsub (SO E) (p_r1_cap E p) (p_r1_cap E p')) k) in
  let r3 := fopp (SO E) (fdiv (SO E) (fsub (SO E) (p_r3_cap E p) (p_r3_cap E p')) k) in
  let mu := quot E (p_m_cap E p) (p_m_cap E p') k in
  exists Q1 Hd Hu,
    index (g_values E g) 0 = Ok Q1 /\
    get_at (skipn 1 (g_values E g)) di = Ok Hd /\
    (exists ui, slice (remaining (length (p_m_cap E p) + length di) di) 0 (length (p_m_cap E p)) = Ok ui /\
                get_at (skipn 1 (g_values E g)) ui = Ok Hu) /\
    length mu = length (p_m_cap E p) /\
    let dB := fadd (SO E) (dl1 E LW (msm_acc E (g1_add (PR E) (g_p1 E g) (g1_mul (PR E) (i_domain E ir) Q1)) Hd dm)) (dot E LW Hu mu) in
    dl1 E LW (p_Bbar E p) = fsub (SO E) (fmul (SO E) r1 (dl1 E LW (p_D E p))) (fmul (SO E) e (dl1 E LW (p_Abar E p))) /\
    dB = fmul (SO E) r3 (dl1 E LW (p_D E p)) /\
    fmul (SO E) (fadd (SO E) (dl2 E LW pk) e) (fmul (SO E) r3 (dl1 E LW (p_Abar E p))) = fmul (SO E) r1 dB).
Print Assumptions C04_proof_special_soundness.

(* same statement, same challenge field: same recomputed commitments or an explicit collision *)
Theorem C04_proof_same_challenge_same_commitments :
  forall (E : env) (LW : Laws E) pk p p' g header ph dm di api,
  core_proof_verify E pk p g header ph dm di api = Ok tt ->
  core_proof_verify E pk p' g header ph dm di api = Ok tt ->
  p_chal E p = p_chal E p' -> length (p_m_cap E p) = length (p_m_cap E p') ->
  (len (option_default [] ph) <= usize_max)%N ->
  (N.of_nat (length (p_m_cap E p) + length di) <= usize_max)%N ->
  exists ir ir',
    proof_verify_init E pk p g header dm di api = Ok ir /\ proof_verify_init E pk p' g header dm di api = Ok ir' /\
    ((i_T1 E ir = i_T1 E ir' /\ i_T2 E ir = i_T2 E ir') \/
     Collision (fun x => f_of_okm (SO E) (expand E x (api ++ c_h2s (cs E)) 48))
               (challenge_octets E ir di dm ph) (challenge_octets E ir' di dm ph)).
Proof. exact proof_same_challenge_same_commitments. Qed.
Check (C04_proof_same_challenge_same_commitments :
  forall (E : env) (LW : Laws E) pk p p' g header ph dm di api,
  core_proof_verify E pk p g header ph dm di api = Ok tt ->
  core_proof_verify E pk p' g header ph dm di api = Ok tt ->
  p_chal E p = p_chal E p' -> length (p_m_cap E p) = length (p_m_cap E p') ->
  (len (option_default [] ph) <= usize_max)%N ->
  (N.of_nat (length (p_m_cap E p) + length di) <= usize_max)%N ->
  exists ir ir',
    proof_verify_init E pk p g header dm di api = Ok ir /\ proof_verify_init E pk p' g header dm di api = Ok ir' /\
    ((i_T1 E ir = i_T1 E ir' /\ i_T2 E ir = i_T2 E ir') \/
     Collision (fun x => f_of_okm (SO E) (expand E x (api ++ c_h2s (cs E)) 48))
               (challenge_octets E ir di dm ph) (challenge_octets E ir' di dm ph))).
Print Assumptions C04_proof_same_challenge_same_commitments.

(* an edit of one response scalar of an accepted proof is accepted only with a collision of the challenge hash *)
Theorem C04_proof_response_edit_reduces :
  forall (E : env) (LW : Laws E) pk p p' g header ph dm di api,
  core_proof_verify E pk p g header ph dm di api = Ok tt ->
  core_proof_verify E pk p' g header ph dm di api = Ok tt ->
  only_one_response_differs E p p' ->
  (len (option_default [] ph) <= usize_max)%N ->
  (N.of_nat (length (p_m_cap E p) + length di) <= usize_max)%N ->
  exists ir ir',
    proof_verify_init E pk p g header dm di api = Ok ir /\ proof_verify_init E pk p' g header dm di api = Ok ir' /\
    Collision (fun x => f_of_okm (SO E) (expand E x (api ++ c_h2s (cs E)) 48))
              (challenge_octets E ir di dm ph) (challenge_octets E ir' di dm ph).
Proof. exact proof_response_edit_reduces. Qed.
Check (C04_proof_response_edit_reduces :
  forall (E : env) (LW : Laws E) pk p p' g header ph dm di api,
  core_proof_verify E pk p g header ph dm di api = Ok tt ->
  core_proof_verify E pk p' g header ph dm di api = Ok tt ->
  only_one_response_differs E p p' ->
  (len (option_default [] ph) <= usize_max)%N ->
  (N.of_nat (length (p_m_cap E p) + length di) <= usize_max)%N ->
  exists ir ir',
    proof_verify_init E pk p g header dm di api = Ok ir /\ proof_verify_init E pk p' g header dm di api = Ok ir' /\
    Collision (fun x => f_of_okm (SO E) (expand E x (api ++ c_h2s (cs E)) 48))
              (challenge_octets E ir di dm ph) (challenge_octets E ir' di dm ph)).
Print Assumptions C04_proof_response_edit_reduces.

(* the verifier never accepts when the number of disclosed messages differs from the number of distinct disclosed indexes (any proof, any key) *)
Theorem C04_proof_verify_lists_disagree :
  forall (E : env) p pk dmsgs idx header ph,
  length (option_default [] dmsgs) <> length (sort_dedup (option_default [] idx)) ->
  proof_verify E p pk dmsgs idx header ph <> Ok tt.
Proof. exact proof_verify_lists_disagree. Qed.
Check (C04_proof_verify_lists_disagree :
  forall (E : env) p pk dmsgs idx header ph,
  length (option_default [] dmsgs) <> length (sort_dedup (option_default [] idx)) ->
  proof_verify E p pk dmsgs idx header ph <> Ok tt).
Print Assumptions C04_proof_verify_lists_disagree.

(* ... in particular a claimed message without a position, or a position without a message, is refused *)
Theorem C04_proof_verify_messages_without_indexes :
  forall (E : env) p pk m ms header ph, proof_verify E p pk (Some (m :: ms)) None header ph <> Ok tt.
Proof. exact proof_verify_messages_without_indexes. Qed.
Check (C04_proof_verify_messages_without_indexes :
  forall (E : env) p pk m ms header ph, proof_verify E p pk (Some (m :: ms)) None header ph <> Ok tt).
Print Assumptions C04_proof_verify_messages_without_indexes.

Theorem C04_proof_verify_indexes_without_messages :
  forall (E : env) p pk i idx header ph, proof_verify E p pk None (Some (i :: idx)) header ph <> Ok tt.
Proof. exact proof_verify_indexes_without_messages. Qed.
Check (C04_proof_verify_indexes_without_messages :
  forall (E : env) p pk i idx header ph, proof_verify E p pk None (Some (i :: idx)) header ph <> Ok tt).
Print Assumptions C04_proof_verify_indexes_without_messages.
