(* C04 -- BBS proof soundness.  Proved here: every proof with an identity among Abar, Bbar, D is rejected by the decoder
   AND by the verifier itself (the F1 forgery family); an accepted proof pins its challenge to the hash of the recomputed
   commitments and satisfies the pairing equation with non-identity points (the starting point of the extractor).
   The statement-binding / bit-flip clauses rest on collision resistance: covered by correspondence + sweep. *)
From ZK Require Import Laws BaseLemmas ModelLemmas SignProofs Codec Soundness.

Theorem C04_core_proof_verify_degenerate :
  forall (E : env) (LW : Laws E) pk p g header ph dm di api,
  p_Abar E p = g1_zero (PR E) \/ p_Bbar E p = g1_zero (PR E) \/ p_D E p = g1_zero (PR E) ->
  core_proof_verify E pk p g header ph dm di api = Err.
Proof. exact core_proof_verify_degenerate. Qed.
Check (C04_core_proof_verify_degenerate :
  forall (E : env) (LW : Laws E) pk p g header ph dm di api,
  p_Abar E p = g1_zero (PR E) \/ p_Bbar E p = g1_zero (PR E) \/ p_D E p = g1_zero (PR E) ->
  core_proof_verify E pk p g header ph dm di api = Err).
Print Assumptions C04_core_proof_verify_degenerate.

Theorem C04_proof_verify_degenerate :
  forall (E : env) (LW : Laws E) p pk dmsgs idx header ph,
  suite_ok E ->
  p_Abar E p = g1_zero (PR E) \/ p_Bbar E p = g1_zero (PR E) \/ p_D E p = g1_zero (PR E) ->
  proof_verify E p pk dmsgs idx header ph = Err.
Proof. exact proof_verify_degenerate. Qed.
Check (C04_proof_verify_degenerate :
  forall (E : env) (LW : Laws E) p pk dmsgs idx header ph,
  suite_ok E ->
  p_Abar E p = g1_zero (PR E) \/ p_Bbar E p = g1_zero (PR E) \/ p_D E p = g1_zero (PR E) ->
  proof_verify E p pk dmsgs idx header ph = Err).
Print Assumptions C04_proof_verify_degenerate.

Theorem C04_pok_identity_rejected :
  forall (E : env) (LW : Laws E) b p, pok_from_bytes E b = Ok p -> pok_points_ok E p.
Proof. exact pok_identity_rejected. Qed.
Check (C04_pok_identity_rejected :
  forall (E : env) (LW : Laws E) b p, pok_from_bytes E b = Ok p -> pok_points_ok E p).
Print Assumptions C04_pok_identity_rejected.

Theorem C04_core_proof_verify_accepts :
  forall (E : env) (LW : Laws E) pk p g header ph dm di api,
  core_proof_verify E pk p g header ph dm di api = Ok tt ->
  exists ir, proof_verify_init E pk p g header dm di api = Ok ir /\
    proof_challenge_calculate E ir di dm ph api = Ok (p_chal E p) /\
    fmul (SO E) (dl1 E LW (p_Abar E p)) (dl2 E LW pk) = dl1 E LW (p_Bbar E p) /\
    p_Abar E p <> g1_zero (PR E) /\ p_Bbar E p <> g1_zero (PR E) /\ p_D E p <> g1_zero (PR E).
Proof. exact core_proof_verify_accepts. Qed.
Check (C04_core_proof_verify_accepts :
  forall (E : env) (LW : Laws E) pk p g header ph dm di api,
  core_proof_verify E pk p g header ph dm di api = Ok tt ->
  exists ir, proof_verify_init E pk p g header dm di api = Ok ir /\
    proof_challenge_calculate E ir di dm ph api = Ok (p_chal E p) /\
    fmul (SO E) (dl1 E LW (p_Abar E p)) (dl2 E LW pk) = dl1 E LW (p_Bbar E p) /\
    p_Abar E p <> g1_zero (PR E) /\ p_Bbar E p <> g1_zero (PR E) /\ p_D E p <> g1_zero (PR E)).
Print Assumptions C04_core_proof_verify_accepts.

(* truncation / extension by anything but whole scalars is a decoding error *)
Theorem C04_pok_strict :
  forall (E : env) b, (forall k, length b <> (272 + 32 * k)%nat) -> pok_from_bytes E b = Err.
Proof. exact pok_strict. Qed.
Check (C04_pok_strict :
  forall (E : env) b, (forall k, length b <> (272 + 32 * k)%nat) -> pok_from_bytes E b = Err).
Print Assumptions C04_pok_strict.
