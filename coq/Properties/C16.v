(* C16 -- Boudot range proof.  Proved: COMPLETENESS of all ten algorithms (boudot_complete: every proof the honest prover
   returns verifies -- for every modulus n > 0, every pair of invertible bases, every interval, every value, every sequence of
   draws incl. negative randomness; Cm n g gi h hi x r = g^x h^r mod n with negative exponents through the inverse) and what an
   accepted proof pins -- E' = E^(2^T), and (F8, repaired by 291caf1) the two
   square proofs are about E_a_1 / E_b_1 themselves, so sub-proofs cannot be transplanted onto a freely chosen E_?_1.
   Rejection of edited proofs / other bounds, bases, modulus: correspondence + sweep. *)
From ZK Require Import Cl ClArith ClSig ClMore ClConsts ClMask ClGroup ClBoudot.
From ZK Require Import ClRange.

Theorem C16_boudot_accepts :
  forall BP p g h n rmin rmax,
  boudot_verify BP p g h n rmin rmax = Ok true ->
  (rmin < rmax)%Z /\ pow_mod (bd_E p) (two (range_T BP rmin rmax)) n = Ok (bd_Eprime p) /\
  sq_E (wt_sqa (bd_wt p)) = wt_Ea1 (bd_wt p) /\ sq_E (wt_sqb (bd_wt p)) = wt_Eb1 (bd_wt p).
Proof. exact boudot_accepts. Qed.
Check (C16_boudot_accepts :
  forall BP p g h n rmin rmax,
  boudot_verify BP p g h n rmin rmax = Ok true ->
  (rmin < rmax)%Z /\ pow_mod (bd_E p) (two (range_T BP rmin rmax)) n = Ok (bd_Eprime p) /\
  sq_E (wt_sqa (bd_wt p)) = wt_Ea1 (bd_wt p) /\ sq_E (wt_sqb (bd_wt p)) = wt_Eb1 (bd_wt p)).
Print Assumptions C16_boudot_accepts.

Theorem C16_tolerance_accepts_ties_squares :
  forall BP p g h E n a b T,
  verify_of_tolerance BP p g h E n a b T = Ok true ->
  sq_E (wt_sqa p) = wt_Ea1 p /\ sq_E (wt_sqb p) = wt_Eb1 p.
Proof. exact tolerance_accepts_ties_squares. Qed.
Check (C16_tolerance_accepts_ties_squares :
  forall BP p g h E n a b T,
  verify_of_tolerance BP p g h E n a b T = Ok true ->
  sq_E (wt_sqa p) = wt_Ea1 p /\ sq_E (wt_sqb p) = wt_Eb1 p).
Print Assumptions C16_tolerance_accepts_ties_squares.

(* F11: prover and verifier of the larger-interval proof use the same upper bound on D_1 (source tie, regenerated each run) *)
Theorem C16_li_bounds_tied :
  li_bounds_agree = true.
Proof. exact li_bounds_tied. Qed.
Check (C16_li_bounds_tied :
  li_bounds_agree = true).
Print Assumptions C16_li_bounds_tied.

(* completeness: every proof returned by prove verifies (the prover returns at all exactly when the value is in the interval,
   up to the tolerance arithmetic: it panics on a negative square root otherwise) *)
Theorem C16_boudot_complete :
  forall n : Z, (0 < n)%Z -> forall g gi h hi : Z, invert g n = Some gi -> invert h n = Some hi ->
  forall (BP : bparams) (value : Z) (c : commitment) (rmin rmax : Z) (ds : list draw) (p : boudot) (ds' : list draw),
  (0 <= b_t BP)%Z -> c_value c = Cm n g gi h hi value (c_rand c) ->
  boudot_prove BP value c g h n rmin rmax ds = Ok (p, ds') ->
  boudot_verify BP p g h n rmin rmax = Ok true.
Proof. exact boudot_complete. Qed.
Check (C16_boudot_complete :
  forall n : Z, (0 < n)%Z -> forall g gi h hi : Z, invert g n = Some gi -> invert h n = Some hi ->
  forall (BP : bparams) (value : Z) (c : commitment) (rmin rmax : Z) (ds : list draw) (p : boudot) (ds' : list draw),
  (0 <= b_t BP)%Z -> c_value c = Cm n g gi h hi value (c_rand c) ->
  boudot_prove BP value c g h n rmin rmax ds = Ok (p, ds') ->
  boudot_verify BP p g h n rmin rmax = Ok true).
Print Assumptions C16_boudot_complete.

Theorem C16_tolerance_complete :
  forall n : Z, (0 < n)%Z -> forall g gi h hi : Z, invert g n = Some gi -> invert h n = Some hi ->
  forall (BP : bparams) (x r a b T : Z) (ds : list draw) (p : proof_wt) (ds' : list draw),
  (0 <= b_t BP)%Z ->
  proof_of_tolerance BP x r g h n a b T ds = Ok (p, ds') ->
  verify_of_tolerance BP p g h (Cm n g gi h hi x r) n a b T = Ok true.
Proof. exact tolerance_complete. Qed.
Check (C16_tolerance_complete :
  forall n : Z, (0 < n)%Z -> forall g gi h hi : Z, invert g n = Some gi -> invert h n = Some hi ->
  forall (BP : bparams) (x r a b T : Z) (ds : list draw) (p : proof_wt) (ds' : list draw),
  (0 <= b_t BP)%Z ->
  proof_of_tolerance BP x r g h n a b T ds = Ok (p, ds') ->
  verify_of_tolerance BP p g h (Cm n g gi h hi x r) n a b T = Ok true).
Print Assumptions C16_tolerance_complete.

(* the model's modular inverse (extended Euclid with fuel 2 log2 m + 4) finds an inverse whenever one exists *)
Theorem C16_invert_complete :
  forall a m y : Z, (0 < m)%Z -> ((a * y) mod m = 1 mod m)%Z -> exists x : Z, invert a m = Some x.
Proof. exact invert_complete. Qed.
Check (C16_invert_complete :
  forall a m y : Z, (0 < m)%Z -> ((a * y) mod m = 1 mod m)%Z -> exists x : Z, invert a m = Some x).
Print Assumptions C16_invert_complete.

(* exponent arithmetic with negative exponents: gp is a homomorphism *)
Theorem C16_gp_add :
  forall n : Z, (0 < n)%Z -> forall h hi : Z, Zdiv.eqm n (h * hi) 1 ->
  forall e1 e2 : Z, Zdiv.eqm n (gp n h hi (e1 + e2)) (gp n h hi e1 * gp n h hi e2).
Proof. exact gp_add. Qed.
Check (C16_gp_add :
  forall n : Z, (0 < n)%Z -> forall h hi : Z, Zdiv.eqm n (h * hi) 1 ->
  forall e1 e2 : Z, Zdiv.eqm n (gp n h hi (e1 + e2)) (gp n h hi e1 * gp n h hi e2)).
Print Assumptions C16_gp_add.

(* the honest prover cannot produce a proof for a value below the interval ... *)
Theorem C16_boudot_prove_below_fails :
  forall BP, (0 <= b_l BP + b_t BP)%Z -> forall value c g h n rmin rmax ds p ds',
  (value < rmin)%Z -> boudot_prove BP value c g h n rmin rmax ds <> Ok (p, ds').
Proof. exact boudot_prove_below_fails. Qed.
Check (C16_boudot_prove_below_fails :
  forall BP, (0 <= b_l BP + b_t BP)%Z -> forall value c g h n rmin rmax ds p ds',
  (value < rmin)%Z -> boudot_prove BP value c g h n rmin rmax ds <> Ok (p, ds')).
Print Assumptions C16_boudot_prove_below_fails.

(* ... nor above it (for every modulus, bases, randomness and draws) *)
Theorem C16_boudot_prove_above_fails :
  forall BP, (0 <= b_l BP + b_t BP)%Z -> forall value c g h n rmin rmax ds p ds',
  (rmax < value)%Z -> boudot_prove BP value c g h n rmin rmax ds <> Ok (p, ds').
Proof. exact boudot_prove_above_fails. Qed.
Check (C16_boudot_prove_above_fails :
  forall BP, (0 <= b_l BP + b_t BP)%Z -> forall value c g h n rmin rmax ds p ds',
  (rmax < value)%Z -> boudot_prove BP value c g h n rmin rmax ds <> Ok (p, ds')).
Print Assumptions C16_boudot_prove_above_fails.
