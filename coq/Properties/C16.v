(* C16 -- theorems are being added *)
From ZK Require Import Cl.
