(* C16 -- Boudot range proof.  Proved: what an accepted proof pins -- E' = E^(2^T), and (F8, repaired by 291caf1) the two
   square proofs are about E_a_1 / E_b_1 themselves, so sub-proofs cannot be transplanted onto a freely chosen E_?_1.
   Completeness for every interval and rejection of edited proofs: correspondence + sweep. *)
From ZK Require Import Cl ClArith ClSig ClMore ClConsts ClMask.

Theorem C16_boudot_accepts :
  forall BP p g h n rmin rmax,
  boudot_verify BP p g h n rmin rmax = Ok true ->
  (rmin < rmax)%Z /\ pow_mod (bd_E p) (two (range_T BP rmin rmax)) n = Ok (bd_Eprime p) /\
  sq_E (wt_sqa (bd_wt p)) = wt_Ea1 (bd_wt p) /\ sq_E (wt_sqb (bd_wt p)) = wt_Eb1 (bd_wt p).
Proof. exact boudot_accepts. Qed.
Check (C16_boudot_accepts :
  forall BP p g h n rmin rmax,
  boudot_verify BP p g h n rmin rmax = Ok true ->
  (rmin < rmax)%Z /\ pow_mod (bd_E p) (two (range_T BP rmin rmax)) n = Ok (bd_Eprime p) /\
  sq_E (wt_sqa (bd_wt p)) = wt_Ea1 (bd_wt p) /\ sq_E (wt_sqb (bd_wt p)) = wt_Eb1 (bd_wt p)).
Print Assumptions C16_boudot_accepts.

Theorem C16_tolerance_accepts_ties_squares :
  forall BP p g h E n a b T,
  verify_of_tolerance BP p g h E n a b T = Ok true ->
  sq_E (wt_sqa p) = wt_Ea1 p /\ sq_E (wt_sqb p) = wt_Eb1 p.
Proof. exact tolerance_accepts_ties_squares. Qed.
Check (C16_tolerance_accepts_ties_squares :
  forall BP p g h E n a b T,
  verify_of_tolerance BP p g h E n a b T = Ok true ->
  sq_E (wt_sqa p) = wt_Ea1 p /\ sq_E (wt_sqb p) = wt_Eb1 p).
Print Assumptions C16_tolerance_accepts_ties_squares.

(* F11: prover and verifier of the larger-interval proof use the same upper bound on D_1 (source tie, regenerated each run) *)
Theorem C16_li_bounds_tied :
  li_bounds_agree = true.
Proof. exact li_bounds_tied. Qed.
Check (C16_li_bounds_tied :
  li_bounds_agree = true).
Print Assumptions C16_li_bounds_tied.
