(* C16 -- Boudot range proof.  Proved: COMPLETENESS of all ten algorithms (boudot_complete: every proof the honest prover
   returns verifies -- for every modulus n > 0, every pair of invertible bases, every interval, every value, every sequence of
   draws incl. negative randomness; Cm n g gi h hi x r = g^x h^r mod n with negative exponents through the inverse) and what an
   accepted proof pins -- E' = E^(2^T), and (F8, repaired by 291caf1) the two
   square proofs are about E_a_1 / E_b_1 themselves, so sub-proofs cannot be transplanted onto a freely chosen E_?_1.
   Soundness core (ClSound.v): the three sigma protocols are SPECIALLY SOUND (two challenge/response triples recomputing to the
   same commitments give g^dD h^dD1 == E^dc -- with ONE dD for both commitments of the same-secret proof) and accepted proofs
   are RIGID (same challenge, other responses: a relation between the bases or a collision of the challenge hash).
   Rejection of edited proofs / other bounds, bases, modulus beyond that: correspondence + sweep. *)
From ZK Require Import Cl ClArith ClSig ClMore ClConsts ClMask ClGroup ClBoudot.
From ZK Require Import ClRange ClSound ClSound4 ClCanon.

Theorem C16_boudot_accepts :
  forall BP p g h n rmin rmax,
  boudot_verify BP p g h n rmin rmax = Ok true ->
  (rmin < rmax)%Z /\ pow_mod (bd_E p) (two (range_T BP rmin rmax)) n = Ok (bd_Eprime p) /\
  sq_E (wt_sqa (bd_wt p)) = wt_Ea1 (bd_wt p) /\ sq_E (wt_sqb (bd_wt p)) = wt_Eb1 (bd_wt p).
Proof. exact boudot_accepts. Qed.
Check (C16_boudot_accepts :
  forall BP p g h n rmin rmax,
  boudot_verify BP p g h n rmin rmax = Ok true ->
  (rmin < rmax)%Z /\ pow_mod (bd_E p) (two (range_T BP rmin rmax)) n = Ok (bd_Eprime p) /\
  sq_E (wt_sqa (bd_wt p)) = wt_Ea1 (bd_wt p) /\ sq_E (wt_sqb (bd_wt p)) = wt_Eb1 (bd_wt p)).
Print Assumptions C16_boudot_accepts.

Theorem C16_tolerance_accepts_ties_squares :
  forall BP p g h E n a b T,
  verify_of_tolerance BP p g h E n a b T = Ok true ->
  sq_E (wt_sqa p) = wt_Ea1 p /\ sq_E (wt_sqb p) = wt_Eb1 p.
Proof. exact tolerance_accepts_ties_squares. Qed.
Check (C16_tolerance_accepts_ties_squares :
  forall BP p g h E n a b T,
  verify_of_tolerance BP p g h E n a b T = Ok true ->
  sq_E (wt_sqa p) = wt_Ea1 p /\ sq_E (wt_sqb p) = wt_Eb1 p).
Print Assumptions C16_tolerance_accepts_ties_squares.

(* F11: prover and verifier of the larger-interval proof use the same upper bound on D_1 (source tie, regenerated each run) *)
Theorem C16_li_bounds_tied :
  li_bounds_agree = true.
Proof. exact li_bounds_tied. Qed.
Check (C16_li_bounds_tied :
  li_bounds_agree = true).
Print Assumptions C16_li_bounds_tied.

(* completeness: every proof returned by prove verifies (the prover returns at all exactly when the value is in the interval,
   up to the tolerance arithmetic: it panics on a negative square root otherwise) *)
Theorem C16_boudot_complete :
  forall n : Z, (0 < n)%Z -> forall g gi h hi : Z, invert g n = Some gi -> invert h n = Some hi ->
  forall (BP : bparams) (value : Z) (c : commitment) (rmin rmax : Z) (ds : list draw) (p : boudot) (ds' : list draw),
  (0 <= b_t BP)%Z -> c_value c = Cm n g gi h hi value (c_rand c) ->
  boudot_prove BP value c g h n rmin rmax ds = Ok (p, ds') ->
  boudot_verify BP p g h n rmin rmax = Ok true.
Proof. exact boudot_complete. Qed.
Check (C16_boudot_complete :
  forall n : Z, (0 < n)%Z -> forall g gi h hi : Z, invert g n = Some gi -> invert h n = Some hi ->
  forall (BP : bparams) (value : Z) (c : commitment) (rmin rmax : Z) (ds : list draw) (p : boudot) (ds' : list draw),
  (0 <= b_t BP)%Z -> c_value c = Cm n g gi h hi value (c_rand c) ->
  boudot_prove BP value c g h n rmin rmax ds = Ok (p, ds') ->
  boudot_verify BP p g h n rmin rmax = Ok true).
Print Assumptions C16_boudot_complete.

Theorem C16_tolerance_complete :
  forall n : Z, (0 < n)%Z -> forall g gi h hi : Z, invert g n = Some gi -> invert h n = Some hi ->
  forall (BP : bparams) (x r a b T : Z) (ds : list draw) (p : proof_wt) (ds' : list draw),
  (0 <= b_t BP)%Z ->
  proof_of_tolerance BP x r g h n a b T ds = Ok (p, ds') ->
  verify_of_tolerance BP p g h (Cm n g gi h hi x r) n a b T = Ok true.
Proof. exact tolerance_complete. Qed.
Check (C16_tolerance_complete :
  forall n : Z, (0 < n)%Z -> forall g gi h hi : Z, invert g n = Some gi -> invert h n = Some hi ->
  forall (BP : bparams) (x r a b T : Z) (ds : list draw) (p : proof_wt) (ds' : list draw),
  (0 <= b_t BP)%Z ->
  proof_of_tolerance BP x r g h n a b T ds = Ok (p, ds') ->
  verify_of_tolerance BP p g h (Cm n g gi h hi x r) n a b T = Ok true).
Print Assumptions C16_tolerance_complete.

(* the model's modular inverse (extended Euclid with fuel 2 log2 m + 4) finds an inverse whenever one exists *)
Theorem C16_invert_complete :
  forall a m y : Z, (0 < m)%Z -> ((a * y) mod m = 1 mod m)%Z -> exists x : Z, invert a m = Some x.
Proof. exact invert_complete. Qed.
Check (C16_invert_complete :
  forall a m y : Z, (0 < m)%Z -> ((a * y) mod m = 1 mod m)%Z -> exists x : Z, invert a m = Some x).
Print Assumptions C16_invert_complete.

(* exponent arithmetic with negative exponents: gp is a homomorphism *)
Theorem C16_gp_add :
  forall n : Z, (0 < n)%Z -> forall h hi : Z, Zdiv.eqm n (h * hi) 1 ->
  forall e1 e2 : Z, Zdiv.eqm n (gp n h hi (e1 + e2)) (gp n h hi e1 * gp n h hi e2).
Proof. exact gp_add. Qed.
Check (C16_gp_add :
  forall n : Z, (0 < n)%Z -> forall h hi : Z, Zdiv.eqm n (h * hi) 1 ->
  forall e1 e2 : Z, Zdiv.eqm n (gp n h hi (e1 + e2)) (gp n h hi e1 * gp n h hi e2)).
Print Assumptions C16_gp_add.

(* the honest prover cannot produce a proof for a value below the interval ... *)
Theorem C16_boudot_prove_below_fails :
  forall BP, (0 <= b_l BP + b_t BP)%Z -> forall value c g h n rmin rmax ds p ds',
  (value < rmin)%Z -> boudot_prove BP value c g h n rmin rmax ds <> Ok (p, ds').
Proof. exact boudot_prove_below_fails. Qed.
Check (C16_boudot_prove_below_fails :
  forall BP, (0 <= b_l BP + b_t BP)%Z -> forall value c g h n rmin rmax ds p ds',
  (value < rmin)%Z -> boudot_prove BP value c g h n rmin rmax ds <> Ok (p, ds')).
Print Assumptions C16_boudot_prove_below_fails.

(* ... nor above it (for every modulus, bases, randomness and draws) *)
Theorem C16_boudot_prove_above_fails :
  forall BP, (0 <= b_l BP + b_t BP)%Z -> forall value c g h n rmin rmax ds p ds',
  (rmax < value)%Z -> boudot_prove BP value c g h n rmin rmax ds <> Ok (p, ds').
Proof. exact boudot_prove_above_fails. Qed.
Check (C16_boudot_prove_above_fails :
  forall BP, (0 <= b_l BP + b_t BP)%Z -> forall value c g h n rmin rmax ds p ds',
  (rmax < value)%Z -> boudot_prove BP value c g h n rmin rmax ds <> Ok (p, ds')).
Print Assumptions C16_boudot_prove_above_fails.

(* special soundness of the same-secret proof: the two commitments are opened by the SAME exponent *)
Theorem C16_same_secret_special_soundness :
  forall n : Z, (0 < n)%Z -> forall g1 g1i h1 h1i g2 g2i h2 h2i E Ei F Fi : Z,
  invert g1 n = Some g1i -> invert h1 n = Some h1i -> invert g2 n = Some g2i -> invert h2 n = Some h2i ->
  invert E n = Some Ei -> invert F n = Some Fi ->
  forall p p' : proof_ss,
  ss_W1 n g1 g1i h1 h1i E Ei p = ss_W1 n g1 g1i h1 h1i E Ei p' ->
  ss_W2 n g2 g2i h2 h2i F Fi p = ss_W2 n g2 g2i h2 h2i F Fi p' ->
  Zdiv.eqm n (gp n g1 g1i (ss_d p - ss_d p') * gp n h1 h1i (ss_d1 p - ss_d1 p')) (gp n E Ei (ss_chal p - ss_chal p')) /\
  Zdiv.eqm n (gp n g2 g2i (ss_d p - ss_d p') * gp n h2 h2i (ss_d2 p - ss_d2 p')) (gp n F Fi (ss_chal p - ss_chal p')).
Proof. exact same_secret_special_soundness. Qed.
Check (C16_same_secret_special_soundness :
  forall n : Z, (0 < n)%Z -> forall g1 g1i h1 h1i g2 g2i h2 h2i E Ei F Fi : Z,
  invert g1 n = Some g1i -> invert h1 n = Some h1i -> invert g2 n = Some g2i -> invert h2 n = Some h2i ->
  invert E n = Some Ei -> invert F n = Some Fi ->
  forall p p' : proof_ss,
  ss_W1 n g1 g1i h1 h1i E Ei p = ss_W1 n g1 g1i h1 h1i E Ei p' ->
  ss_W2 n g2 g2i h2 h2i F Fi p = ss_W2 n g2 g2i h2 h2i F Fi p' ->
  Zdiv.eqm n (gp n g1 g1i (ss_d p - ss_d p') * gp n h1 h1i (ss_d1 p - ss_d1 p')) (gp n E Ei (ss_chal p - ss_chal p')) /\
  Zdiv.eqm n (gp n g2 g2i (ss_d p - ss_d p') * gp n h2 h2i (ss_d2 p - ss_d2 p')) (gp n F Fi (ss_chal p - ss_chal p'))).
Print Assumptions C16_same_secret_special_soundness.

(* the commitments ss_W1 / ss_W2 are what the verifier recomputes and hashes *)
Theorem C16_verify_same_secret_spec :
  forall n : Z, (0 < n)%Z -> forall g1 g1i h1 h1i g2 g2i h2 h2i E Ei F Fi : Z,
  invert g1 n = Some g1i -> invert h1 n = Some h1i -> invert g2 n = Some g2i -> invert h2 n = Some h2i ->
  invert E n = Some Ei -> invert F n = Some Fi ->
  forall p : proof_ss,
  verify_same_secret E F g1 h1 g2 h2 n p =
  Ok (ss_chal p =? hash_int (str_cat [ss_W1 n g1 g1i h1 h1i E Ei p; ss_W2 n g2 g2i h2 h2i F Fi p]))%Z.
Proof. exact verify_same_secret_spec. Qed.
Check (C16_verify_same_secret_spec :
  forall n : Z, (0 < n)%Z -> forall g1 g1i h1 h1i g2 g2i h2 h2i E Ei F Fi : Z,
  invert g1 n = Some g1i -> invert h1 n = Some h1i -> invert g2 n = Some g2i -> invert h2 n = Some h2i ->
  invert E n = Some Ei -> invert F n = Some Fi ->
  forall p : proof_ss,
  verify_same_secret E F g1 h1 g2 h2 n p =
  Ok (ss_chal p =? hash_int (str_cat [ss_W1 n g1 g1i h1 h1i E Ei p; ss_W2 n g2 g2i h2 h2i F Fi p]))%Z).
Print Assumptions C16_verify_same_secret_spec.

(* two accepted proofs, same statement, same challenge: a relation between the bases, or a collision of the challenge hash *)
Theorem C16_same_secret_rigid :
  forall n : Z, (0 < n)%Z -> forall g1 g1i h1 h1i g2 g2i h2 h2i E Ei F Fi : Z,
  invert g1 n = Some g1i -> invert h1 n = Some h1i -> invert g2 n = Some g2i -> invert h2 n = Some h2i ->
  invert E n = Some Ei -> invert F n = Some Fi ->
  forall p p' : proof_ss,
  verify_same_secret E F g1 h1 g2 h2 n p = Ok true -> verify_same_secret E F g1 h1 g2 h2 n p' = Ok true ->
  ss_chal p = ss_chal p' ->
  (Zdiv.eqm n (gp n g1 g1i (ss_d p - ss_d p') * gp n h1 h1i (ss_d1 p - ss_d1 p')) 1 /\
   Zdiv.eqm n (gp n g2 g2i (ss_d p - ss_d p') * gp n h2 h2i (ss_d2 p - ss_d2 p')) 1) \/
  ([ss_W1 n g1 g1i h1 h1i E Ei p; ss_W2 n g2 g2i h2 h2i F Fi p] <> [ss_W1 n g1 g1i h1 h1i E Ei p'; ss_W2 n g2 g2i h2 h2i F Fi p'] /\
   hash_int (str_cat [ss_W1 n g1 g1i h1 h1i E Ei p; ss_W2 n g2 g2i h2 h2i F Fi p]) =
   hash_int (str_cat [ss_W1 n g1 g1i h1 h1i E Ei p'; ss_W2 n g2 g2i h2 h2i F Fi p'])).
Proof. exact same_secret_rigid. Qed.
Check (C16_same_secret_rigid :
  forall n : Z, (0 < n)%Z -> forall g1 g1i h1 h1i g2 g2i h2 h2i E Ei F Fi : Z,
  invert g1 n = Some g1i -> invert h1 n = Some h1i -> invert g2 n = Some g2i -> invert h2 n = Some h2i ->
  invert E n = Some Ei -> invert F n = Some Fi ->
  forall p p' : proof_ss,
  verify_same_secret E F g1 h1 g2 h2 n p = Ok true -> verify_same_secret E F g1 h1 g2 h2 n p' = Ok true ->
  ss_chal p = ss_chal p' ->
  (Zdiv.eqm n (gp n g1 g1i (ss_d p - ss_d p') * gp n h1 h1i (ss_d1 p - ss_d1 p')) 1 /\
   Zdiv.eqm n (gp n g2 g2i (ss_d p - ss_d p') * gp n h2 h2i (ss_d2 p - ss_d2 p')) 1) \/
  ([ss_W1 n g1 g1i h1 h1i E Ei p; ss_W2 n g2 g2i h2 h2i F Fi p] <> [ss_W1 n g1 g1i h1 h1i E Ei p'; ss_W2 n g2 g2i h2 h2i F Fi p'] /\
   hash_int (str_cat [ss_W1 n g1 g1i h1 h1i E Ei p; ss_W2 n g2 g2i h2 h2i F Fi p]) =
   hash_int (str_cat [ss_W1 n g1 g1i h1 h1i E Ei p'; ss_W2 n g2 g2i h2 h2i F Fi p']))).
Print Assumptions C16_same_secret_rigid.

(* one response edited by delta and still accepted: h1^delta == 1, or a collision *)
Theorem C16_same_secret_d1_edit :
  forall n : Z, (0 < n)%Z -> forall g1 g1i h1 h1i g2 g2i h2 h2i E Ei F Fi : Z,
  invert g1 n = Some g1i -> invert h1 n = Some h1i -> invert g2 n = Some g2i -> invert h2 n = Some h2i ->
  invert E n = Some Ei -> invert F n = Some Fi ->
  forall (p : proof_ss) (delta : Z),
  verify_same_secret E F g1 h1 g2 h2 n p = Ok true ->
  verify_same_secret E F g1 h1 g2 h2 n {| ss_chal := ss_chal p; ss_d := ss_d p; ss_d1 := (ss_d1 p + delta)%Z; ss_d2 := ss_d2 p |} = Ok true ->
  Zdiv.eqm n (gp n h1 h1i delta) 1 \/ (exists a b : list Z, a <> b /\ hash_int (str_cat a) = hash_int (str_cat b)).
Proof. exact same_secret_d1_edit. Qed.
Check (C16_same_secret_d1_edit :
  forall n : Z, (0 < n)%Z -> forall g1 g1i h1 h1i g2 g2i h2 h2i E Ei F Fi : Z,
  invert g1 n = Some g1i -> invert h1 n = Some h1i -> invert g2 n = Some g2i -> invert h2 n = Some h2i ->
  invert E n = Some Ei -> invert F n = Some Fi ->
  forall (p : proof_ss) (delta : Z),
  verify_same_secret E F g1 h1 g2 h2 n p = Ok true ->
  verify_same_secret E F g1 h1 g2 h2 n {| ss_chal := ss_chal p; ss_d := ss_d p; ss_d1 := (ss_d1 p + delta)%Z; ss_d2 := ss_d2 p |} = Ok true ->
  Zdiv.eqm n (gp n h1 h1i delta) 1 \/ (exists a b : list Z, a <> b /\ hash_int (str_cat a) = hash_int (str_cat b))).
Print Assumptions C16_same_secret_d1_edit.

(* the square proof: F = g^x h^r2 and E = F^x h^r3 with the same x *)
Theorem C16_square_special_soundness :
  forall n : Z, (0 < n)%Z -> forall g gi h hi : Z, invert g n = Some gi -> invert h n = Some hi ->
  forall (p p' : proof_sq) (Ei Fi : Z),
  sq_E p = sq_E p' -> sq_F p = sq_F p' -> invert (sq_E p) n = Some Ei -> invert (sq_F p) n = Some Fi ->
  ss_W1 n g gi h hi (sq_F p) Fi (sq_ss p) = ss_W1 n g gi h hi (sq_F p) Fi (sq_ss p') ->
  ss_W2 n (sq_F p) Fi h hi (sq_E p) Ei (sq_ss p) = ss_W2 n (sq_F p) Fi h hi (sq_E p) Ei (sq_ss p') ->
  let dx := (ss_d (sq_ss p) - ss_d (sq_ss p'))%Z in
  let dc := (ss_chal (sq_ss p) - ss_chal (sq_ss p'))%Z in
  Zdiv.eqm n (gp n g gi dx * gp n h hi (ss_d1 (sq_ss p) - ss_d1 (sq_ss p'))) (gp n (sq_F p) Fi dc) /\
  Zdiv.eqm n (gp n (sq_F p) Fi dx * gp n h hi (ss_d2 (sq_ss p) - ss_d2 (sq_ss p'))) (gp n (sq_E p) Ei dc).
Proof. exact square_special_soundness. Qed.
Check (C16_square_special_soundness :
  forall n : Z, (0 < n)%Z -> forall g gi h hi : Z, invert g n = Some gi -> invert h n = Some hi ->
  forall (p p' : proof_sq) (Ei Fi : Z),
  sq_E p = sq_E p' -> sq_F p = sq_F p' -> invert (sq_E p) n = Some Ei -> invert (sq_F p) n = Some Fi ->
  ss_W1 n g gi h hi (sq_F p) Fi (sq_ss p) = ss_W1 n g gi h hi (sq_F p) Fi (sq_ss p') ->
  ss_W2 n (sq_F p) Fi h hi (sq_E p) Ei (sq_ss p) = ss_W2 n (sq_F p) Fi h hi (sq_E p) Ei (sq_ss p') ->
  let dx := (ss_d (sq_ss p) - ss_d (sq_ss p'))%Z in
  let dc := (ss_chal (sq_ss p) - ss_chal (sq_ss p'))%Z in
  Zdiv.eqm n (gp n g gi dx * gp n h hi (ss_d1 (sq_ss p) - ss_d1 (sq_ss p'))) (gp n (sq_F p) Fi dc) /\
  Zdiv.eqm n (gp n (sq_F p) Fi dx * gp n h hi (ss_d2 (sq_ss p) - ss_d2 (sq_ss p'))) (gp n (sq_E p) Ei dc)).
Print Assumptions C16_square_special_soundness.

Theorem C16_large_interval_special_soundness :
  forall n : Z, (0 < n)%Z -> forall g gi h hi E Ei : Z, invert g n = Some gi -> invert h n = Some hi -> invert E n = Some Ei ->
  forall (BP : bparams) (p p' : proof_li),
  li_W n g gi h hi E Ei BP p = li_W n g gi h hi E Ei BP p' ->
  Zdiv.eqm n (gp n g gi (li_D1 p - li_D1 p') * gp n h hi (li_D2 p - li_D2 p')) (gp n E Ei (li_c BP p - li_c BP p')).
Proof. exact large_interval_special_soundness. Qed.
Check (C16_large_interval_special_soundness :
  forall n : Z, (0 < n)%Z -> forall g gi h hi E Ei : Z, invert g n = Some gi -> invert h n = Some hi -> invert E n = Some Ei ->
  forall (BP : bparams) (p p' : proof_li),
  li_W n g gi h hi E Ei BP p = li_W n g gi h hi E Ei BP p' ->
  Zdiv.eqm n (gp n g gi (li_D1 p - li_D1 p') * gp n h hi (li_D2 p - li_D2 p')) (gp n E Ei (li_c BP p - li_c BP p'))).
Print Assumptions C16_large_interval_special_soundness.

Theorem C16_large_interval_rigid :
  forall n : Z, (0 < n)%Z -> forall g gi h hi E Ei : Z, invert g n = Some gi -> invert h n = Some hi -> invert E n = Some Ei ->
  forall (BP : bparams) (p p' : proof_li) (b T : Z),
  verify_large_interval BP p E g h n b T = Ok true -> verify_large_interval BP p' E g h n b T = Ok true ->
  li_C p = li_C p' ->
  Zdiv.eqm n (gp n g gi (li_D1 p - li_D1 p') * gp n h hi (li_D2 p - li_D2 p')) 1 \/
  (li_W n g gi h hi E Ei BP p <> li_W n g gi h hi E Ei BP p' /\
   hash_int (to_string (li_W n g gi h hi E Ei BP p)) = hash_int (to_string (li_W n g gi h hi E Ei BP p'))).
Proof. exact large_interval_rigid. Qed.
Check (C16_large_interval_rigid :
  forall n : Z, (0 < n)%Z -> forall g gi h hi E Ei : Z, invert g n = Some gi -> invert h n = Some hi -> invert E n = Some Ei ->
  forall (BP : bparams) (p p' : proof_li) (b T : Z),
  verify_large_interval BP p E g h n b T = Ok true -> verify_large_interval BP p' E g h n b T = Ok true ->
  li_C p = li_C p' ->
  Zdiv.eqm n (gp n g gi (li_D1 p - li_D1 p') * gp n h hi (li_D2 p - li_D2 p')) 1 \/
  (li_W n g gi h hi E Ei BP p <> li_W n g gi h hi E Ei BP p' /\
   hash_int (to_string (li_W n g gi h hi E Ei BP p)) = hash_int (to_string (li_W n g gi h hi E Ei BP p')))).
Print Assumptions C16_large_interval_rigid.

(* an accepted larger-interval proof has its first response inside [c b, 2^T (2^(t+l) b - 1)] *)
Theorem C16_large_interval_accepts_bounds :
  forall n : Z, (0 < n)%Z -> forall g gi h hi E Ei : Z, invert g n = Some gi -> invert h n = Some hi -> invert E n = Some Ei ->
  forall (BP : bparams) (p : proof_li) (b T : Z),
  verify_large_interval BP p E g h n b T = Ok true -> (li_c BP p * b <= li_D1 p <= li_upper BP T b)%Z.
Proof. exact large_interval_accepts_bounds. Qed.
Check (C16_large_interval_accepts_bounds :
  forall n : Z, (0 < n)%Z -> forall g gi h hi E Ei : Z, invert g n = Some gi -> invert h n = Some hi -> invert E n = Some Ei ->
  forall (BP : bparams) (p : proof_li) (b T : Z),
  verify_large_interval BP p E g h n b T = Ok true -> (li_c BP p * b <= li_D1 p <= li_upper BP T b)%Z).
Print Assumptions C16_large_interval_accepts_bounds.

(* an accepted tolerance proof ties its sub-commitments to the commitment and to the POSITION of the bounds (not only to their distance) *)
Theorem C16_tolerance_accepts_ties_E :
  forall n : Z, (0 < n)%Z -> forall (BP : bparams) (p : proof_wt) (g gi h E Ei a b T Ea1i Eb1i : Z),
  invert g n = Some gi -> invert E n = Some Ei -> invert (wt_Ea1 p) n = Some Ea1i -> invert (wt_Eb1 p) n = Some Eb1i ->
  verify_of_tolerance BP p g h E n a b T = Ok true ->
  exists aa bb, tol_aa BP a b T = Ok aa /\ tol_bb BP a b T = Ok bb /\
    Zdiv.eqm n (wt_Ea2 p * wt_Ea1 p * gp n g gi aa) E /\ Zdiv.eqm n (wt_Eb2 p * wt_Eb1 p * E) (gp n g gi bb).
Proof. exact tolerance_accepts_ties_E. Qed.
Check (C16_tolerance_accepts_ties_E :
  forall n : Z, (0 < n)%Z -> forall (BP : bparams) (p : proof_wt) (g gi h E Ei a b T Ea1i Eb1i : Z),
  invert g n = Some gi -> invert E n = Some Ei -> invert (wt_Ea1 p) n = Some Ea1i -> invert (wt_Eb1 p) n = Some Eb1i ->
  verify_of_tolerance BP p g h E n a b T = Ok true ->
  exists aa bb, tol_aa BP a b T = Ok aa /\ tol_bb BP a b T = Ok bb /\
    Zdiv.eqm n (wt_Ea2 p * wt_Ea1 p * gp n g gi aa) E /\ Zdiv.eqm n (wt_Eb2 p * wt_Eb1 p * E) (gp n g gi bb)).
Print Assumptions C16_tolerance_accepts_ties_E.

Theorem C16_boudot_accepts_ties_E :
  forall n : Z, (0 < n)%Z -> forall (BP : bparams) (p : boudot) (g gi h rmin rmax Epi Ea1i Eb1i : Z),
  invert g n = Some gi -> invert (bd_Eprime p) n = Some Epi ->
  invert (wt_Ea1 (bd_wt p)) n = Some Ea1i -> invert (wt_Eb1 (bd_wt p)) n = Some Eb1i ->
  boudot_verify BP p g h n rmin rmax = Ok true ->
  let T := range_T BP rmin rmax in
  pow_mod (bd_E p) (two T) n = Ok (bd_Eprime p) /\
  exists aa bb, tol_aa BP rmin rmax T = Ok aa /\ tol_bb BP rmin rmax T = Ok bb /\
    Zdiv.eqm n (wt_Ea2 (bd_wt p) * wt_Ea1 (bd_wt p) * gp n g gi aa) (bd_Eprime p) /\
    Zdiv.eqm n (wt_Eb2 (bd_wt p) * wt_Eb1 (bd_wt p) * bd_Eprime p) (gp n g gi bb).
Proof. exact boudot_accepts_ties_E. Qed.
Check (C16_boudot_accepts_ties_E :
  forall n : Z, (0 < n)%Z -> forall (BP : bparams) (p : boudot) (g gi h rmin rmax Epi Ea1i Eb1i : Z),
  invert g n = Some gi -> invert (bd_Eprime p) n = Some Epi ->
  invert (wt_Ea1 (bd_wt p)) n = Some Ea1i -> invert (wt_Eb1 (bd_wt p)) n = Some Eb1i ->
  boudot_verify BP p g h n rmin rmax = Ok true ->
  let T := range_T BP rmin rmax in
  pow_mod (bd_E p) (two T) n = Ok (bd_Eprime p) /\
  exists aa bb, tol_aa BP rmin rmax T = Ok aa /\ tol_bb BP rmin rmax T = Ok bb /\
    Zdiv.eqm n (wt_Ea2 (bd_wt p) * wt_Ea1 (bd_wt p) * gp n g gi aa) (bd_Eprime p) /\
    Zdiv.eqm n (wt_Eb2 (bd_wt p) * wt_Eb1 (bd_wt p) * bd_Eprime p) (gp n g gi bb)).
Print Assumptions C16_boudot_accepts_ties_E.

(* fix F19: the commitment an accepted range proof is about, and the auxiliary commitment of each square proof, are canonical residues *)
Theorem C16_boudot_accepts_canonical :
  forall BP p g h n rmin rmax, boudot_verify BP p g h n rmin rmax = Ok true -> (0 <= bd_E p < n)%Z.
Proof. exact boudot_accepts_canonical. Qed.
Check (C16_boudot_accepts_canonical :
  forall BP p g h n rmin rmax, boudot_verify BP p g h n rmin rmax = Ok true -> (0 <= bd_E p < n)%Z).
Print Assumptions C16_boudot_accepts_canonical.

Theorem C16_square_accepts_canonical :
  forall p g h n, verify_of_square p g h n = Ok true -> (0 <= sq_F p < n)%Z.
Proof. exact square_accepts_canonical. Qed.
Check (C16_square_accepts_canonical :
  forall p g h n, verify_of_square p g h n = Ok true -> (0 <= sq_F p < n)%Z).
Print Assumptions C16_square_accepts_canonical.
