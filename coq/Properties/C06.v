(* C06 -- Blind BBS soundness.  Proved here: gating (a blind signature is returned only if the commitment is absent or its
   proof of correctness verified against this suite's blind generators), strict framing of the commitment (only
   112 + 32 k octets decode; re-encoding is the identity), and that an accepted commitment proof pins its challenge to the
   hash of (M, blind generators, C, recomputed Cbar); special soundness (commit_special_soundness): two accepted transcripts with
   the same Cbar and different challenges give an opening of C over the blind generators by explicit formulas.
   Bit flips / other messages / cross-suite replays of accepted
   commitments and the binding of blind signatures and proofs rest on collision resistance: correspondence + sweep. *)
From ZK Require Import Laws BaseLemmas ModelLemmas SignProofs Codec Soundness Extractor.
From ZK Require Import Malleability.
From ZK Require Import UpdateProofs Separation Binding BlindComplete BlindBinding.

Theorem C06_blind_sign_gated :
  forall (E : env) sk pk cwp header msgs s,
  blind_sign E sk pk cwp header msgs = Ok s ->
  option_default [] cwp = [] \/
  exists x bg, commitment_from_bytes E (option_default [] cwp) = Ok x /\
    (exists n, gens_create E n (blind_prefix ++ c_api_id_blind (cs E)) = Ok bg) /\
    core_commit_verify E (cm_C E x) (cm_proof E x) (g_values E bg) (c_api_id_blind (cs E)) = Ok tt.
Proof. exact blind_sign_gated. Qed.
Check (C06_blind_sign_gated :
  forall (E : env) sk pk cwp header msgs s,
  blind_sign E sk pk cwp header msgs = Ok s ->
  option_default [] cwp = [] \/
  exists x bg, commitment_from_bytes E (option_default [] cwp) = Ok x /\
    (exists n, gens_create E n (blind_prefix ++ c_api_id_blind (cs E)) = Ok bg) /\
    core_commit_verify E (cm_C E x) (cm_proof E x) (g_values E bg) (c_api_id_blind (cs E)) = Ok tt).
Print Assumptions C06_blind_sign_gated.

Theorem C06_dvc_gated :
  forall (E : env) cwp bg api C,
  deserialize_and_validate_commit E cwp bg api = Ok C ->
  option_default [] cwp = [] /\ C = g1_zero (PR E) \/
  exists x, commitment_from_bytes E (option_default [] cwp) = Ok x /\ C = cm_C E x /\
            core_commit_verify E (cm_C E x) (cm_proof E x) (g_values E bg) (option_default [] api) = Ok tt.
Proof. exact dvc_gated. Qed.
Check (C06_dvc_gated :
  forall (E : env) cwp bg api C,
  deserialize_and_validate_commit E cwp bg api = Ok C ->
  option_default [] cwp = [] /\ C = g1_zero (PR E) \/
  exists x, commitment_from_bytes E (option_default [] cwp) = Ok x /\ C = cm_C E x /\
            core_commit_verify E (cm_C E x) (cm_proof E x) (g_values E bg) (option_default [] api) = Ok tt).
Print Assumptions C06_dvc_gated.

Theorem C06_core_commit_verify_accepts :
  forall (E : env) (LW : Laws E) C z bgs api,
  core_commit_verify E C z bgs api = Ok tt ->
  exists bg G2_ Js, get_range bgs 0 (length (z_m_cap E z) + 1) = Some bg /\ bg = G2_ :: Js /\
    calculate_blind_challenge E C
      (g1_add (PR E) (msm_acc E (g1_mul (PR E) (z_s_cap E z) G2_) Js (z_m_cap E z))
                     (g1_mul (PR E) (fopp (SO E) (z_chal E z)) C))
      bg api = Ok (z_chal E z).
Proof. exact core_commit_verify_accepts. Qed.
Check (C06_core_commit_verify_accepts :
  forall (E : env) (LW : Laws E) C z bgs api,
  core_commit_verify E C z bgs api = Ok tt ->
  exists bg G2_ Js, get_range bgs 0 (length (z_m_cap E z) + 1) = Some bg /\ bg = G2_ :: Js /\
    calculate_blind_challenge E C
      (g1_add (PR E) (msm_acc E (g1_mul (PR E) (z_s_cap E z) G2_) Js (z_m_cap E z))
                     (g1_mul (PR E) (fopp (SO E) (z_chal E z)) C))
      bg api = Ok (z_chal E z)).
Print Assumptions C06_core_commit_verify_accepts.

Theorem C06_commitment_strict_len :
  forall (E : env) (LW : Laws E) b x, commitment_from_bytes E b = Ok x -> exists k, length b = (112 + 32 * k)%nat.
Proof. exact commitment_strict_len. Qed.
Check (C06_commitment_strict_len :
  forall (E : env) (LW : Laws E) b x, commitment_from_bytes E b = Ok x -> exists k, length b = (112 + 32 * k)%nat).
Print Assumptions C06_commitment_strict_len.

Theorem C06_commitment_codec_canonical :
  forall (E : env) (LW : Laws E) b x, commitment_from_bytes E b = Ok x -> commitment_to_bytes E x = b.
Proof. exact commitment_codec_canonical. Qed.
Check (C06_commitment_codec_canonical :
  forall (E : env) (LW : Laws E) b x, commitment_from_bytes E b = Ok x -> commitment_to_bytes E x = b).
Print Assumptions C06_commitment_codec_canonical.

(* special soundness of the commitment proof: the committed scalars are determined by two transcripts *)
Theorem C06_commit_special_soundness :
  forall (E : env) (LW : Laws E) C G2_ Js z z',
  length (z_m_cap E z) = length (z_m_cap E z') ->
  commit_Cbar E C G2_ Js z = commit_Cbar E C G2_ Js z' ->
  z_chal E z <> z_chal E z' ->
  let k := fsub (SO E) (z_chal E z) (z_chal E z') in
  C = msm_acc E (g1_mul (PR E) (fdiv (SO E) (fsub (SO E) (z_s_cap E z) (z_s_cap E z')) k) G2_) Js (quot E (z_m_cap E z) (z_m_cap E z') k).
Proof. exact commit_special_soundness. Qed.
Check (C06_commit_special_soundness :
  forall (E : env) (LW : Laws E) C G2_ Js z z',
  length (z_m_cap E z) = length (z_m_cap E z') ->
  commit_Cbar E C G2_ Js z = commit_Cbar E C G2_ Js z' ->
  z_chal E z <> z_chal E z' ->
  let k := fsub (SO E) (z_chal E z) (z_chal E z') in
  C = msm_acc E (g1_mul (PR E) (fdiv (SO E) (fsub (SO E) (z_s_cap E z) (z_s_cap E z')) k) G2_) Js (quot E (z_m_cap E z) (z_m_cap E z') k)).
Print Assumptions C06_commit_special_soundness.

(* binding of blind signatures: one blind signature accepted for two different (messages, committed messages, blind, header) *)
Theorem C06_blind_verify_binding :
  forall (E : env) (LW : Laws E) s pk header header' msgs msgs' cm cm' spb spb',
  suite_ok E ->
  verify_blind_sign E s pk header (Some msgs) (Some cm) (Some spb) = Ok tt ->
  verify_blind_sign E s pk header' (Some msgs') (Some cm') (Some spb') = Ok tt ->
  length msgs = length msgs' -> length cm = length cm' ->
  (len (option_default [] header) <= usize_max)%N -> (len (option_default [] header') <= usize_max)%N ->
  (msgs <> msgs' \/ cm <> cm' \/ spb <> spb' \/ option_default [] header <> option_default [] header') ->
  (exists i, (i < length msgs)%nat /\ nth i msgs [] <> nth i msgs' [] /\ hmb' E (nth i msgs []) = hmb' E (nth i msgs' [])) \/
  (exists i, (i < length cm)%nat /\ nth i cm [] <> nth i cm' [] /\ hmb' E (nth i cm []) = hmb' E (nth i cm' [])) \/
  (exists Q1 H dm dm',
     DLRelation E LW (Q1 :: H) (fsub (SO E) dm dm' :: zip_sub E (map (hmb' E) msgs ++ [spb] ++ map (hmb' E) cm) (map (hmb' E) msgs' ++ [spb'] ++ map (hmb' E) cm')) \/
     Collision (fun x => f_of_okm (SO E) (expand E x (c_api_id_blind (cs E) ++ c_h2s (cs E)) 48))
               (dom_input E pk Q1 H header (c_api_id_blind (cs E))) (dom_input E pk Q1 H header' (c_api_id_blind (cs E)))).
Proof. exact blind_verify_binding. Qed.
Check (C06_blind_verify_binding :
  forall (E : env) (LW : Laws E) s pk header header' msgs msgs' cm cm' spb spb',
  suite_ok E ->
  verify_blind_sign E s pk header (Some msgs) (Some cm) (Some spb) = Ok tt ->
  verify_blind_sign E s pk header' (Some msgs') (Some cm') (Some spb') = Ok tt ->
  length msgs = length msgs' -> length cm = length cm' ->
  (len (option_default [] header) <= usize_max)%N -> (len (option_default [] header') <= usize_max)%N ->
  (msgs <> msgs' \/ cm <> cm' \/ spb <> spb' \/ option_default [] header <> option_default [] header') ->
  (exists i, (i < length msgs)%nat /\ nth i msgs [] <> nth i msgs' [] /\ hmb' E (nth i msgs []) = hmb' E (nth i msgs' [])) \/
  (exists i, (i < length cm)%nat /\ nth i cm [] <> nth i cm' [] /\ hmb' E (nth i cm []) = hmb' E (nth i cm' [])) \/
  (exists Q1 H dm dm',
     DLRelation E LW (Q1 :: H) (fsub (SO E) dm dm' :: zip_sub E (map (hmb' E) msgs ++ [spb] ++ map (hmb' E) cm) (map (hmb' E) msgs' ++ [spb'] ++ map (hmb' E) cm')) \/
     Collision (fun x => f_of_okm (SO E) (expand E x (c_api_id_blind (cs E) ++ c_h2s (cs E)) 48))
               (dom_input E pk Q1 H header (c_api_id_blind (cs E))) (dom_input E pk Q1 H header' (c_api_id_blind (cs E))))).
Print Assumptions C06_blind_verify_binding.

(* two accepted commitment proofs for the same C with the same challenge field: the same recomputed Cbar, or a collision *)
Theorem C06_commit_same_challenge_same_Cbar :
  forall (E : env) (LW : Laws E) C z z' bgs api,
  core_commit_verify E C z bgs api = Ok tt ->
  core_commit_verify E C z' bgs api = Ok tt ->
  z_chal E z = z_chal E z' -> length (z_m_cap E z) = length (z_m_cap E z') ->
  exists bg G2_ Js, get_range bgs 0 (length (z_m_cap E z) + 1) = Some bg /\ bg = G2_ :: Js /\
    (commit_Cbar E C G2_ Js z = commit_Cbar E C G2_ Js z' \/
     Collision (fun x => f_of_okm (SO E) (expand E x (api ++ c_h2s (cs E)) 48))
               (blind_challenge_octets E C (commit_Cbar E C G2_ Js z) bg) (blind_challenge_octets E C (commit_Cbar E C G2_ Js z') bg)).
Proof. exact commit_same_challenge_same_Cbar. Qed.
Check (C06_commit_same_challenge_same_Cbar :
  forall (E : env) (LW : Laws E) C z z' bgs api,
  core_commit_verify E C z bgs api = Ok tt ->
  core_commit_verify E C z' bgs api = Ok tt ->
  z_chal E z = z_chal E z' -> length (z_m_cap E z) = length (z_m_cap E z') ->
  exists bg G2_ Js, get_range bgs 0 (length (z_m_cap E z) + 1) = Some bg /\ bg = G2_ :: Js /\
    (commit_Cbar E C G2_ Js z = commit_Cbar E C G2_ Js z' \/
     Collision (fun x => f_of_okm (SO E) (expand E x (api ++ c_h2s (cs E)) 48))
               (blind_challenge_octets E C (commit_Cbar E C G2_ Js z) bg) (blind_challenge_octets E C (commit_Cbar E C G2_ Js z') bg))).
Print Assumptions C06_commit_same_challenge_same_Cbar.
