(* C07 -- fresh blinding.  What a theorem carries: HOW the draws are used.  The witness holder's recomputation of the
   blinding scalars returns exactly the draws (so distinct / non-zero recomputed blindings are distinct / non-zero draws);
   reusing the draws under two challenges reveals e and every hidden message (why reuse is fatal).  That thread_rng
   delivers fresh independent values is observed by the runtime monitor, not proved. *)
From ZK Require Import Laws BaseLemmas ModelLemmas SignProofs Codec Soundness.

Theorem C07_blinding_recompute :
  forall (E : env) (LW : Laws E) ir ch e rho um p,
  proof_finalize E ir ch e rho um = Ok p -> length rho = (5 + length um)%nat ->
  fsub (SO E) (p_e_cap E p) (fmul (SO E) e ch) = nth 2 rho (f0 (SO E)) /\
  fadd (SO E) (p_r1_cap E p) (fmul (SO E) (nth 0 rho (f0 (SO E))) ch) = nth 3 rho (f0 (SO E)) /\
  fadd (SO E) (p_r3_cap E p) (fmul (SO E) (finv (SO E) (nth 1 rho (f0 (SO E)))) ch) = nth 4 rho (f0 (SO E)) /\
  unblind E ch (p_m_cap E p) um = sub rho 5 (5 + length um) /\
  p_chal E p = ch.
Proof. exact blinding_recompute. Qed.
Check (C07_blinding_recompute :
  forall (E : env) (LW : Laws E) ir ch e rho um p,
  proof_finalize E ir ch e rho um = Ok p -> length rho = (5 + length um)%nat ->
  fsub (SO E) (p_e_cap E p) (fmul (SO E) e ch) = nth 2 rho (f0 (SO E)) /\
  fadd (SO E) (p_r1_cap E p) (fmul (SO E) (nth 0 rho (f0 (SO E))) ch) = nth 3 rho (f0 (SO E)) /\
  fadd (SO E) (p_r3_cap E p) (fmul (SO E) (finv (SO E) (nth 1 rho (f0 (SO E)))) ch) = nth 4 rho (f0 (SO E)) /\
  unblind E ch (p_m_cap E p) um = sub rho 5 (5 + length um) /\
  p_chal E p = ch).
Print Assumptions C07_blinding_recompute.

Theorem C07_commit_blinding_recompute :
  forall (E : env) (LW : Laws E) bg cms api rho x spb,
  core_commit E bg cms api rho = Ok (x, spb) ->
  let z := cm_proof E x in
  spb = nth 0 rho (f0 (SO E)) /\
  fsub (SO E) (z_s_cap E z) (fmul (SO E) spb (z_chal E z)) = nth 1 rho (f0 (SO E)) /\
  unblind E (z_chal E z) (z_m_cap E z) cms = sub rho 2 (length cms + 2).
Proof. exact commit_blinding_recompute. Qed.
Check (C07_commit_blinding_recompute :
  forall (E : env) (LW : Laws E) bg cms api rho x spb,
  core_commit E bg cms api rho = Ok (x, spb) ->
  let z := cm_proof E x in
  spb = nth 0 rho (f0 (SO E)) /\
  fsub (SO E) (z_s_cap E z) (fmul (SO E) spb (z_chal E z)) = nth 1 rho (f0 (SO E)) /\
  unblind E (z_chal E z) (z_m_cap E z) cms = sub rho 2 (length cms + 2)).
Print Assumptions C07_commit_blinding_recompute.

Theorem C07_reuse_extracts_e :
  forall (E : env) (LW : Laws E) ir ir' ch ch' e rho um p p',
  proof_finalize E ir ch e rho um = Ok p -> proof_finalize E ir' ch' e rho um = Ok p' ->
  length rho = (5 + length um)%nat -> ch <> ch' ->
  e = fdiv (SO E) (fsub (SO E) (p_e_cap E p) (p_e_cap E p')) (fsub (SO E) ch ch').
Proof. exact reuse_extracts_e. Qed.
Check (C07_reuse_extracts_e :
  forall (E : env) (LW : Laws E) ir ir' ch ch' e rho um p p',
  proof_finalize E ir ch e rho um = Ok p -> proof_finalize E ir' ch' e rho um = Ok p' ->
  length rho = (5 + length um)%nat -> ch <> ch' ->
  e = fdiv (SO E) (fsub (SO E) (p_e_cap E p) (p_e_cap E p')) (fsub (SO E) ch ch')).
Print Assumptions C07_reuse_extracts_e.

Theorem C07_reuse_extracts_message :
  forall (E : env) (LW : Laws E) ir ir' ch ch' e rho um p p' j,
  proof_finalize E ir ch e rho um = Ok p -> proof_finalize E ir' ch' e rho um = Ok p' ->
  length rho = (5 + length um)%nat -> ch <> ch' -> (j < length um)%nat ->
  nth j um (f0 (SO E)) =
  fdiv (SO E) (fsub (SO E) (nth j (p_m_cap E p) (f0 (SO E))) (nth j (p_m_cap E p') (f0 (SO E)))) (fsub (SO E) ch ch').
Proof. exact reuse_extracts_message. Qed.
Check (C07_reuse_extracts_message :
  forall (E : env) (LW : Laws E) ir ir' ch ch' e rho um p p' j,
  proof_finalize E ir ch e rho um = Ok p -> proof_finalize E ir' ch' e rho um = Ok p' ->
  length rho = (5 + length um)%nat -> ch <> ch' -> (j < length um)%nat ->
  nth j um (f0 (SO E)) =
  fdiv (SO E) (fsub (SO E) (nth j (p_m_cap E p) (f0 (SO E))) (nth j (p_m_cap E p') (f0 (SO E)))) (fsub (SO E) ch ch')).
Print Assumptions C07_reuse_extracts_message.
