(* C07 -- theorems are being added *)
From ZK Require Import Laws.
