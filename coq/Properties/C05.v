(* C05 -- Blind BBS issuance and presentation completeness, for every environment with Laws, every number of committed
   messages M >= 0 and signer messages L >= 0, every header / presentation header, all draws (outside r1 = 0, r2 = 0 for
   proofs).  bgens n = create_generators n ("BLIND_" ++ api_id_blind); hmb = message-to-scalar under the blind api_id. *)
From ZK Require Import Laws BaseLemmas ModelLemmas SignProofs Codec ProofComplete BlindComplete.

(* commit: the Schnorr proof of the commitment verifies; the serialized commitment has 112 + 32 M octets, decodes, and is
   accepted by the signer-side validation over any blind-generator set that extends the prover's (prefix independence) *)
Theorem C05_commit_valid :
  forall (E : env) (LW : Laws E) cmsgs rho p1 extra,
  suite_ok E -> g1_dec (PR E) (c_p1 (cs E)) = Some p1 ->
  let cm := option_default [] cmsgs in
  length rho = (length cm + 2)%nat ->
  exists x,
    commit E cmsgs rho = Ok (x, nth 0 rho (f0 (SO E))) /\
    length (commitment_to_bytes E x) = (112 + 32 * length cm)%nat /\
    dl1 E LW (cm_C E x) =
      fadd (SO E) (fmul (SO E) (nth 0 rho (f0 (SO E))) (dl1 E LW (nth 0 (bgens E (length cm + 1)) (g1_zero (PR E)))))
                  (dot E LW (skipn 1 (bgens E (length cm + 1))) (map (hmb E) cm)) /\
    deserialize_and_validate_commit E (Some (commitment_to_bytes E x))
      {| g_p1 := p1; g_values := bgens E (length cm + 1 + extra) |} (Some (c_api_id_blind (cs E))) = Ok (cm_C E x).
Proof. exact commit_valid. Qed.
Check (C05_commit_valid :
  forall (E : env) (LW : Laws E) cmsgs rho p1 extra,
  suite_ok E -> g1_dec (PR E) (c_p1 (cs E)) = Some p1 ->
  let cm := option_default [] cmsgs in
  length rho = (length cm + 2)%nat ->
  exists x,
    commit E cmsgs rho = Ok (x, nth 0 rho (f0 (SO E))) /\
    length (commitment_to_bytes E x) = (112 + 32 * length cm)%nat /\
    dl1 E LW (cm_C E x) =
      fadd (SO E) (fmul (SO E) (nth 0 rho (f0 (SO E))) (dl1 E LW (nth 0 (bgens E (length cm + 1)) (g1_zero (PR E)))))
                  (dot E LW (skipn 1 (bgens E (length cm + 1))) (map (hmb E) cm)) /\
    deserialize_and_validate_commit E (Some (commitment_to_bytes E x))
      {| g_p1 := p1; g_values := bgens E (length cm + 1 + extra) |} (Some (c_api_id_blind (cs E))) = Ok (cm_C E x)).
Print Assumptions C05_commit_valid.

Theorem C05_core_commit_complete :
  forall (E : env) (LW : Laws E) bg cms api rho,
  length bg = (length cms + 1)%nat -> length rho = (length cms + 2)%nat ->
  (length (api ++ c_h2s (cs E)) <= 255)%nat ->
  exists x,
    core_commit E bg cms api rho = Ok (x, nth 0 rho (f0 (SO E))) /\
    length (z_m_cap E (cm_proof E x)) = length cms /\
    dl1 E LW (cm_C E x) = fadd (SO E) (fmul (SO E) (nth 0 rho (f0 (SO E))) (dl1 E LW (nth 0 bg (g1_zero (PR E)))))
                                      (dot E LW (skipn 1 bg) cms) /\
    core_commit_verify E (cm_C E x) (cm_proof E x) bg api = Ok tt.
Proof. exact core_commit_complete. Qed.
Check (C05_core_commit_complete :
  forall (E : env) (LW : Laws E) bg cms api rho,
  length bg = (length cms + 1)%nat -> length rho = (length cms + 2)%nat ->
  (length (api ++ c_h2s (cs E)) <= 255)%nat ->
  exists x,
    core_commit E bg cms api rho = Ok (x, nth 0 rho (f0 (SO E))) /\
    length (z_m_cap E (cm_proof E x)) = length cms /\
    dl1 E LW (cm_C E x) = fadd (SO E) (fmul (SO E) (nth 0 rho (f0 (SO E))) (dl1 E LW (nth 0 bg (g1_zero (PR E)))))
                                      (dot E LW (skipn 1 bg) cms) /\
    core_commit_verify E (cm_C E x) (cm_proof E x) bg api = Ok tt).
Print Assumptions C05_core_commit_complete.

(* a blind signature over the serialized commitment verifies with the committed messages and the returned blinding factor
   (whenever blind_sign returns: it is Err only on the negligible set B = O / sk + e = 0, never a panic: C08) *)
Theorem C05_blind_sign_verify_complete :
  forall (E : env) (LW : Laws E) sk cmsgs rho header msgs p1 x s,
  suite_ok E -> g1_dec (PR E) (c_p1 (cs E)) = Some p1 ->
  let cm := option_default [] cmsgs in
  length rho = (length cm + 2)%nat ->
  commit E cmsgs rho = Ok (x, nth 0 rho (f0 (SO E))) ->
  blind_sign E sk (sk_to_pk E sk) (Some (commitment_to_bytes E x)) header msgs = Ok s ->
  verify_blind_sign E s (sk_to_pk E sk) header msgs cmsgs (Some (nth 0 rho (f0 (SO E)))) = Ok tt.
Proof. exact blind_sign_verify_complete. Qed.
Check (C05_blind_sign_verify_complete :
  forall (E : env) (LW : Laws E) sk cmsgs rho header msgs p1 x s,
  suite_ok E -> g1_dec (PR E) (c_p1 (cs E)) = Some p1 ->
  let cm := option_default [] cmsgs in
  length rho = (length cm + 2)%nat ->
  commit E cmsgs rho = Ok (x, nth 0 rho (f0 (SO E))) ->
  blind_sign E sk (sk_to_pk E sk) (Some (commitment_to_bytes E x)) header msgs = Ok s ->
  verify_blind_sign E s (sk_to_pk E sk) header msgs cmsgs (Some (nth 0 rho (f0 (SO E)))) = Ok tt).
Print Assumptions C05_blind_sign_verify_complete.

Theorem C05_blind_sign_no_commit_complete :
  forall (E : env) (LW : Laws E) sk header msgs p1 s cwp,
  suite_ok E -> g1_dec (PR E) (c_p1 (cs E)) = Some p1 ->
  option_default [] cwp = [] ->
  blind_sign E sk (sk_to_pk E sk) cwp header msgs = Ok s ->
  verify_blind_sign E s (sk_to_pk E sk) header msgs None None = Ok tt.
Proof. exact blind_sign_no_commit_complete. Qed.
Check (C05_blind_sign_no_commit_complete :
  forall (E : env) (LW : Laws E) sk header msgs p1 s cwp,
  suite_ok E -> g1_dec (PR E) (c_p1 (cs E)) = Some p1 ->
  option_default [] cwp = [] ->
  blind_sign E sk (sk_to_pk E sk) cwp header msgs = Ok s ->
  verify_blind_sign E s (sk_to_pk E sk) header msgs None None = Ok tt).
Print Assumptions C05_blind_sign_no_commit_complete.

(* the signer's `get(1..len-1)` of M+2 blind generators is the verifier's J_1..J_M *)
Theorem C05_signer_Js :
  forall (E : env) M, sub (bgens E (M + 2)) 1 (M + 1) = skipn 1 (bgens E (M + 1)).
Proof. exact signer_Js. Qed.
Check (C05_signer_Js :
  forall (E : env) M, sub (bgens E (M + 2)) 1 (M + 1) = skipn 1 (bgens E (M + 1))).
Print Assumptions C05_signer_Js.

(* the index translation: sort/dedup of (signer indexes ++ committed indexes shifted by L+1) is the concatenation of the
   two sorted lists -- position L (the blinding factor) is never disclosed *)
Theorem C05_sort_dedup_blind_indexes :
  forall L a b, (forall x, In x a -> (x < N.of_nat L)%N) ->
  sort_dedup (a ++ map (shiftN L) b) = sort_dedup a ++ map (shiftN L) (sort_dedup b).
Proof. exact sort_dedup_blind_indexes. Qed.
Check (C05_sort_dedup_blind_indexes :
  forall L a b, (forall x, In x a -> (x < N.of_nat L)%N) ->
  sort_dedup (a ++ map (shiftN L) b) = sort_dedup a ++ map (shiftN L) (sort_dedup b)).
Print Assumptions C05_sort_dedup_blind_indexes.

(* every pair of disclosure choices: blind_proof_gen succeeds and blind_proof_verify accepts with the disclosed
   messages, their positions and the signer-message count L *)
Theorem C05_blind_proof_complete :
  forall (E : env) (LW : Laws E) pk sigb s header ph msgs cmsgs idx cidx spb rho p1,
  suite_ok E -> g1_dec (PR E) (c_p1 (cs E)) = Some p1 ->
  sig_from_bytes E sigb = Ok s ->
  verify_blind_sign E s pk header msgs cmsgs spb = Ok tt ->
  let ml := option_default [] msgs in
  let cm := option_default [] cmsgs in
  let ix := option_default [] idx in
  let cx := option_default [] cidx in
  let D := sort_dedup ix in
  let Dc := sort_dedup cx in
  (forall i, In i ix -> N.lt i (N.of_nat (length ml))) -> (length ix <= length ml)%nat ->
  (forall j, In j cx -> N.lt j (N.of_nat (length cm))) -> (length cx <= length cm)%nat ->
  N.le (N.of_nat (length ml + length cm + 2)) usize_max ->
  length rho = (5 + (length ml + 1 + length cm - (length D + length Dc)))%nat ->
  nth 0 rho (f0 (SO E)) <> f0 (SO E) -> nth 1 rho (f0 (SO E)) <> f0 (SO E) ->
  dl2 E LW pk <> f0 (SO E) -> fadd (SO E) (dl2 E LW pk) (sig_e E s) <> f0 (SO E) ->
  exists p,
    blind_proof_gen E pk sigb header ph msgs cmsgs idx cidx spb rho = Ok p /\
    blind_proof_verify E p pk header ph (Some (N.of_nat (length ml))) (Some (pick ml D)) (Some (pick cm Dc))
                       (Some D) (Some Dc) = Ok tt /\
    length (pok_to_bytes E p) = (272 + 32 * (length ml + 1 + length cm - (length D + length Dc)))%nat.
Proof. exact blind_proof_complete. Qed.
Check (C05_blind_proof_complete :
  forall (E : env) (LW : Laws E) pk sigb s header ph msgs cmsgs idx cidx spb rho p1,
  suite_ok E -> g1_dec (PR E) (c_p1 (cs E)) = Some p1 ->
  sig_from_bytes E sigb = Ok s ->
  verify_blind_sign E s pk header msgs cmsgs spb = Ok tt ->
  let ml := option_default [] msgs in
  let cm := option_default [] cmsgs in
  let ix := option_default [] idx in
  let cx := option_default [] cidx in
  let D := sort_dedup ix in
  let Dc := sort_dedup cx in
  (forall i, In i ix -> N.lt i (N.of_nat (length ml))) -> (length ix <= length ml)%nat ->
  (forall j, In j cx -> N.lt j (N.of_nat (length cm))) -> (length cx <= length cm)%nat ->
  N.le (N.of_nat (length ml + length cm + 2)) usize_max ->
  length rho = (5 + (length ml + 1 + length cm - (length D + length Dc)))%nat ->
  nth 0 rho (f0 (SO E)) <> f0 (SO E) -> nth 1 rho (f0 (SO E)) <> f0 (SO E) ->
  dl2 E LW pk <> f0 (SO E) -> fadd (SO E) (dl2 E LW pk) (sig_e E s) <> f0 (SO E) ->
  exists p,
    blind_proof_gen E pk sigb header ph msgs cmsgs idx cidx spb rho = Ok p /\
    blind_proof_verify E p pk header ph (Some (N.of_nat (length ml))) (Some (pick ml D)) (Some (pick cm Dc))
                       (Some D) (Some Dc) = Ok tt /\
    length (pok_to_bytes E p) = (272 + 32 * (length ml + 1 + length cm - (length D + length Dc)))%nat).
Print Assumptions C05_blind_proof_complete.
