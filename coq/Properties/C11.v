(* C11 -- domain separation.  Finite-table obligations over the constants regenerated from ciphersuites.rs on every
   run (a source edit that merges two identifiers or DSTs breaks interface_ids_separated), prefix independence of the
   generator derivation for any expander, and reductions: a repeated generator, or one shared between two interface
   ids, is a collision of expand_message or hash_to_curve on explicit distinct inputs. *)
From ZK Require Import Laws BaseLemmas ModelLemmas Consts Separation.
From ZK Require Import Blind Options.
From Coq Require Import List. Import ListNotations.

(* 6 interface ids pairwise prefix-free; 36 derived DST / seed strings pairwise distinct, each <= 255 bytes; P1 48 bytes
   and different per suite; EXPAND_LEN 48, IKM_LEN 32, scalar length 32; expander kinds as the model assumes *)
Theorem C11_interface_ids_separated :
  consts_table_ok = true.
Proof. exact interface_ids_separated. Qed.
Check (C11_interface_ids_separated :
  consts_table_ok = true).
Print Assumptions C11_interface_ids_separated.

Theorem C11_sha_suite_dsts_ok :
  suite_dsts_ok sha_suite.
Proof. exact sha_suite_dsts_ok. Qed.
Check (C11_sha_suite_dsts_ok :
  suite_dsts_ok sha_suite).
Print Assumptions C11_sha_suite_dsts_ok.

Theorem C11_shake_suite_dsts_ok :
  suite_dsts_ok shake_suite.
Proof. exact shake_suite_dsts_ok. Qed.
Check (C11_shake_suite_dsts_ok :
  suite_dsts_ok shake_suite).
Print Assumptions C11_shake_suite_dsts_ok.

(* the first k generators do not depend on how many are requested (any expander, any hash_to_curve, any api_id) *)
Theorem C11_create_prefix :
  forall (E : env) n k api, (k <= n)%nat ->
  firstn k (create_generators E n api) = create_generators E k api.
Proof. exact create_prefix. Qed.
Check (C11_create_prefix :
  forall (E : env) n k api, (k <= n)%nat ->
  firstn k (create_generators E n api) = create_generators E k api).
Print Assumptions C11_create_prefix.

Theorem C11_generator_dup_reduces :
  forall (E : env) n api k1 k2 p,
  (N.of_nat n < usize_max)%N -> k1 <> k2 ->
  nth_error (create_generators E n api) k1 = Some p ->
  nth_error (create_generators E n api) k2 = Some p ->
  let sd := api ++ c_generator_seed_dst (cs E) in
  let gd := api ++ c_generator_dst (cs E) in
  exists x1 x2, x1 <> x2 /\
    (Collision (fun m => expand E m sd 48) x1 x2 \/
     Collision (fun m => h2c E m gd) (expand E x1 sd 48) (expand E x2 sd 48)).
Proof. exact generator_dup_reduces. Qed.
Check (C11_generator_dup_reduces :
  forall (E : env) n api k1 k2 p,
  (N.of_nat n < usize_max)%N -> k1 <> k2 ->
  nth_error (create_generators E n api) k1 = Some p ->
  nth_error (create_generators E n api) k2 = Some p ->
  let sd := api ++ c_generator_seed_dst (cs E) in
  let gd := api ++ c_generator_dst (cs E) in
  exists x1 x2, x1 <> x2 /\
    (Collision (fun m => expand E m sd 48) x1 x2 \/
     Collision (fun m => h2c E m gd) (expand E x1 sd 48) (expand E x2 sd 48))).
Print Assumptions C11_generator_dup_reduces.

Theorem C11_generator_shared_reduces :
  forall (E : env) n m api api' p,
  api <> api' ->
  In p (create_generators E n api) -> In p (create_generators E m api') ->
  exists s s', Collision (fun md : bytes * bytes => h2c E (fst md) (snd md))
                         (s, api ++ c_generator_dst (cs E)) (s', api' ++ c_generator_dst (cs E)).
Proof. exact generator_shared_reduces. Qed.
Check (C11_generator_shared_reduces :
  forall (E : env) n m api api' p,
  api <> api' ->
  In p (create_generators E n api) -> In p (create_generators E m api') ->
  exists s s', Collision (fun md : bytes * bytes => h2c E (fst md) (snd md))
                         (s, api ++ c_generator_dst (cs E)) (s', api' ++ c_generator_dst (cs E))).
Print Assumptions C11_generator_shared_reduces.

(* prepare_parameters: the combined set is create(n, id) ++ create(m, "BLIND_" || id), id empty when the api_id is ABSENT *)
Theorem C11_prepare_parameters_gens :
  forall (E : env) msgs cmsgs gen_n blind_n spb api_id ms g,
  prepare_parameters E msgs cmsgs gen_n blind_n spb api_id = Ok (ms, g) ->
  g_values E g = create_generators E gen_n (option_default [] api_id) ++
                 create_generators E blind_n (blind_prefix ++ option_default [] api_id).
Proof. exact prepare_parameters_gens. Qed.
Check (C11_prepare_parameters_gens :
  forall (E : env) msgs cmsgs gen_n blind_n spb api_id ms g,
  prepare_parameters E msgs cmsgs gen_n blind_n spb api_id = Ok (ms, g) ->
  g_values E g = create_generators E gen_n (option_default [] api_id) ++
                 create_generators E blind_n (blind_prefix ++ option_default [] api_id)).
Print Assumptions C11_prepare_parameters_gens.
