(* C15 -- CL03 proof of knowledge of a signature.  Proved: COMPLETENESS of the whole proof (spok_complete): for every
   modulus, every number of attributes, every strictly increasing list of hidden positions, every signature the issuer's
   check accepts and every sequence of logged draws whose random_bits values are not negative, whatever spok_gen returns
   passes spok_verify (nine-response protocol: nisp5_complete; per-attribute opening proofs: nisp2sec_complete_u; all range
   proofs: boudot_complete); an accepted proof has its range proof on e made for the commitment Ce of the sigma protocol
   and passes the five-equation check; the per-attribute opening proofs (nisp2sec) are specially sound and rigid (ClSound2.v);
   the nine-response protocol is specially sound (ClSound3.v: five relations sharing ds4, ds8 and the per-position exponent differences).  Rejection of mismatching statements / edited fields: correspondence + sweep
   (all subsets U for n <= 3 / 5). *)
From ZK Require Import Cl ClArith ClSig ClMore ClGroup ClBoudot ModelLemmas ClSpok ClSpok2 ClSpok3.
From ZK Require Import ClTies.
From ZK Require Import ClConsts ClExample.
From ZK Require Import ClSound ClSound2 ClSound3 ClCanon.
From Coq Require Import List. Import ListNotations.

Theorem C15_spok_accepts_ties_Ce :
  forall CS BP p ck pk bases rmsgs U nsm,
  spok_verify CS BP p ck pk bases rmsgs U nsm = Ok true ->
  c_value (sp_Ce (pk_spok p)) = bd_E (pk_rpe p) /\ nisp5_verify (pk_spok p) ck pk bases rmsgs U nsm = Ok true.
Proof. exact spok_accepts_ties_Ce. Qed.
Check (C15_spok_accepts_ties_Ce :
  forall CS BP p ck pk bases rmsgs U nsm,
  spok_verify CS BP p ck pk bases rmsgs U nsm = Ok true ->
  c_value (sp_Ce (pk_spok p)) = bd_E (pk_rpe p) /\ nisp5_verify (pk_spok p) ck pk bases rmsgs U nsm = Ok true).
Print Assumptions C15_spok_accepts_ties_Ce.

Theorem C15_nisp2sec_complete :
  forall CS m c g h n ds p ds',
  (0 < n)%Z -> (0 <= m)%Z -> (0 <= c_rand c)%Z -> c_value c = ((g ^ m * h ^ c_rand c) mod n)%Z ->
  Forall bits_ok ds ->
  nisp2sec_gen CS m c g h n ds = Ok (p, ds') ->
  nisp2sec_verify p c g h n = Ok true.
Proof. exact nisp2sec_complete. Qed.
Check (C15_nisp2sec_complete :
  forall CS m c g h n ds p ds',
  (0 < n)%Z -> (0 <= m)%Z -> (0 <= c_rand c)%Z -> c_value c = ((g ^ m * h ^ c_rand c) mod n)%Z ->
  Forall bits_ok ds ->
  nisp2sec_gen CS m c g h n ds = Ok (p, ds') ->
  nisp2sec_verify p c g h n = Ok true).
Print Assumptions C15_nisp2sec_complete.

(* completeness of the nine-response protocol for every attribute count and every hidden set *)
Theorem C15_nisp5_complete :
  forall CS sg ck pk bases msgs U ds p ds',
  (0 < pk_N pk)%Z -> ck_N ck = pk_N pk ->
  Forall (unit (pk_N pk)) bases -> Forall (unit (pk_N pk)) (ck_g ck) -> unit (pk_N pk) (ck_h ck) ->
  unit (pk_N pk) (pk_b pk) -> unit (pk_N pk) (pk_c pk) -> (0 <= pk_c pk)%Z ->
  (length msgs <= length bases)%nat -> (length msgs <= length (ck_g ck))%nat -> (1 <= length (ck_g ck))%nat ->
  (0 <= s_s sg)%Z ->
  verify_multiattr CS sg pk bases msgs = Ok true ->
  strictly_sorted U -> Forall (fun j => (N.to_nat j < length msgs)%nat) U ->
  Forall bits_ok ds ->
  nisp5_gen CS sg ck pk bases msgs U ds = Ok (p, ds') ->
  nisp5_verify p ck pk bases (map (at_ msgs) (revealed_of U 0 (length msgs))) U (length msgs) = Ok true.
Proof. exact nisp5_complete. Qed.
Check (C15_nisp5_complete :
  forall CS sg ck pk bases msgs U ds p ds',
  (0 < pk_N pk)%Z -> ck_N ck = pk_N pk ->
  Forall (unit (pk_N pk)) bases -> Forall (unit (pk_N pk)) (ck_g ck) -> unit (pk_N pk) (ck_h ck) ->
  unit (pk_N pk) (pk_b pk) -> unit (pk_N pk) (pk_c pk) -> (0 <= pk_c pk)%Z ->
  (length msgs <= length bases)%nat -> (length msgs <= length (ck_g ck))%nat -> (1 <= length (ck_g ck))%nat ->
  (0 <= s_s sg)%Z ->
  verify_multiattr CS sg pk bases msgs = Ok true ->
  strictly_sorted U -> Forall (fun j => (N.to_nat j < length msgs)%nat) U ->
  Forall bits_ok ds ->
  nisp5_gen CS sg ck pk bases msgs U ds = Ok (p, ds') ->
  nisp5_verify p ck pk bases (map (at_ msgs) (revealed_of U 0 (length msgs))) U (length msgs) = Ok true).
Print Assumptions C15_nisp5_complete.

(* the opening proof of one attribute for invertible bases: no condition on the draws *)
Theorem C15_nisp2sec_complete_units :
  forall n, (0 < n)%Z -> forall CS g gi h hi, invert g n = Some gi -> invert h n = Some hi -> forall m c ds p ds',
  c_value c = Cm n g gi h hi m (c_rand c) ->
  nisp2sec_gen CS m c g h n ds = Ok (p, ds') ->
  nisp2sec_verify p c g h n = Ok true.
Proof. exact nisp2sec_complete_u. Qed.
Check (C15_nisp2sec_complete_units :
  forall n, (0 < n)%Z -> forall CS g gi h hi, invert g n = Some gi -> invert h n = Some hi -> forall m c ds p ds',
  c_value c = Cm n g gi h hi m (c_rand c) ->
  nisp2sec_gen CS m c g h n ds = Ok (p, ds') ->
  nisp2sec_verify p c g h n = Ok true).
Print Assumptions C15_nisp2sec_complete_units.

(* completeness of the whole proof of knowledge *)
Theorem C15_spok_complete :
  forall CS BP sg ck pk bases msgs U ds p ds',
  (0 <= b_t BP)%Z ->
  (0 < pk_N pk)%Z -> ck_N ck = pk_N pk ->
  Forall (unit (pk_N pk)) bases -> Forall (unit (pk_N pk)) (ck_g ck) -> unit (pk_N pk) (ck_h ck) ->
  unit (pk_N pk) (pk_b pk) -> unit (pk_N pk) (pk_c pk) -> (0 <= pk_c pk)%Z ->
  (length msgs <= length bases)%nat -> (length msgs <= length (ck_g ck))%nat -> (1 <= length (ck_g ck))%nat ->
  (0 <= s_s sg)%Z ->
  verify_multiattr CS sg pk bases msgs = Ok true ->
  strictly_sorted U -> Forall (fun j => (N.to_nat j < length msgs)%nat) U ->
  Forall bits_ok ds ->
  spok_gen CS BP sg ck pk bases msgs U ds = Ok (p, ds') ->
  spok_verify CS BP p ck pk bases (map (at_ msgs) (revealed_of U 0 (length msgs))) U (length msgs) = Ok true.
Proof. exact spok_complete. Qed.
Check (C15_spok_complete :
  forall CS BP sg ck pk bases msgs U ds p ds',
  (0 <= b_t BP)%Z ->
  (0 < pk_N pk)%Z -> ck_N ck = pk_N pk ->
  Forall (unit (pk_N pk)) bases -> Forall (unit (pk_N pk)) (ck_g ck) -> unit (pk_N pk) (ck_h ck) ->
  unit (pk_N pk) (pk_b pk) -> unit (pk_N pk) (pk_c pk) -> (0 <= pk_c pk)%Z ->
  (length msgs <= length bases)%nat -> (length msgs <= length (ck_g ck))%nat -> (1 <= length (ck_g ck))%nat ->
  (0 <= s_s sg)%Z ->
  verify_multiattr CS sg pk bases msgs = Ok true ->
  strictly_sorted U -> Forall (fun j => (N.to_nat j < length msgs)%nat) U ->
  Forall bits_ok ds ->
  spok_gen CS BP sg ck pk bases msgs U ds = Ok (p, ds') ->
  spok_verify CS BP p ck pk bases (map (at_ msgs) (revealed_of U 0 (length msgs))) U (length msgs) = Ok true).
Print Assumptions C15_spok_complete.

(* non-vacuity: a concrete run of the implementation (micro suite; key, signature and draws copied from the harness log) meets every
   premise of spok_complete, including the dynamic one (spok_gen returns a proof) *)
Theorem C15_spok_complete_applies :
  exists p ds', spok_gen micro_suite boudot_params x_sg x_ck x_pk x_bases x_msgs x_U x_draws = Ok (p, ds') /\
  spok_verify micro_suite boudot_params p x_ck x_pk x_bases (map (at_ x_msgs) (revealed_of x_U 0 (length x_msgs))) x_U (length x_msgs) = Ok true.
Proof. exact spok_complete_applies. Qed.
Check (C15_spok_complete_applies :
  exists p ds', spok_gen micro_suite boudot_params x_sg x_ck x_pk x_bases x_msgs x_U x_draws = Ok (p, ds') /\
  spok_verify micro_suite boudot_params p x_ck x_pk x_bases (map (at_ x_msgs) (revealed_of x_U 0 (length x_msgs))) x_U (length x_msgs) = Ok true).
Print Assumptions C15_spok_complete_applies.

(* fix 56a5ca8: in an accepted proof every per-attribute range proof is about the commitment of its opening proof *)
Theorem C15_spok_loop_ties_range_proofs :
  forall CS BP ck U pmi rpmi,
  spok_verify_loop CS BP ck U pmi rpmi = Ok true ->
  Forall2 (fun pv rp => c_value (pv_com pv) = bd_E rp) (firstn (length U) pmi) (firstn (length U) rpmi).
Proof. exact spok_loop_ties_range_proofs. Qed.
Check (C15_spok_loop_ties_range_proofs :
  forall CS BP ck U pmi rpmi,
  spok_verify_loop CS BP ck U pmi rpmi = Ok true ->
  Forall2 (fun pv rp => c_value (pv_com pv) = bd_E rp) (firstn (length U) pmi) (firstn (length U) rpmi)).
Print Assumptions C15_spok_loop_ties_range_proofs.

(* finding F15 on the faithful model: the (opening proof, range proof) pairs are tied to nothing else *)
Theorem C15_spok_subproofs_untied :
  forall CS BP p ck pk bases rmsgs U nsm pmi' rpmi',
  spok_verify CS BP p ck pk bases rmsgs U nsm = Ok true ->
  length pmi' = length U -> length rpmi' = length U ->
  spok_verify_loop CS BP ck U pmi' rpmi' = Ok true ->
  spok_verify CS BP (with_subproofs p pmi' rpmi') ck pk bases rmsgs U nsm = Ok true.
Proof. exact spok_subproofs_untied. Qed.
Check (C15_spok_subproofs_untied :
  forall CS BP p ck pk bases rmsgs U nsm pmi' rpmi',
  spok_verify CS BP p ck pk bases rmsgs U nsm = Ok true ->
  length pmi' = length U -> length rpmi' = length U ->
  spok_verify_loop CS BP ck U pmi' rpmi' = Ok true ->
  spok_verify CS BP (with_subproofs p pmi' rpmi') ck pk bases rmsgs U nsm = Ok true).
Print Assumptions C15_spok_subproofs_untied.

(* fix F17: an accepted proof carries exactly one response, one opening proof and one range proof per hidden attribute *)
Theorem C15_spok_accepts_lengths :
  forall CS BP p ck pk bases rmsgs U nsm,
  spok_verify CS BP p ck pk bases rmsgs U nsm = Ok true ->
  length (sp_s5 (pk_spok p)) = length U /\ length (pk_pmi p) = length U /\ length (pk_rpmi p) = length U.
Proof. exact spok_accepts_lengths. Qed.
Check (C15_spok_accepts_lengths :
  forall CS BP p ck pk bases rmsgs U nsm,
  spok_verify CS BP p ck pk bases rmsgs U nsm = Ok true ->
  length (sp_s5 (pk_spok p)) = length U /\ length (pk_pmi p) = length U /\ length (pk_rpmi p) = length U).
Print Assumptions C15_spok_accepts_lengths.

(* acceptance of an opening proof: the first message it carries is the one recomputed from the responses *)
Theorem C15_nisp2sec_accepts :
  (forall n : Z,
0 < n ->
forall g gi h hi : Z,
invert g n = Some gi ->
invert h n = Some hi ->
forall (p : nisps) (c : commitment) (Ci : Z),
invert (c_value c) n = Some Ci ->
nisp2sec_verify p c g h n = Ok true ->
ssW n g gi h hi (c_value c) Ci (ns_s1 p) (ns_s2 p) (ns_chal g h p c) =
ns_t p mod n)%Z.
Proof. exact nisp2sec_accepts. Qed.
Check (C15_nisp2sec_accepts :
  (forall n : Z,
0 < n ->
forall g gi h hi : Z,
invert g n = Some gi ->
invert h n = Some hi ->
forall (p : nisps) (c : commitment) (Ci : Z),
invert (c_value c) n = Some Ci ->
nisp2sec_verify p c g h n = Ok true ->
ssW n g gi h hi (c_value c) Ci (ns_s1 p) (ns_s2 p) (ns_chal g h p c) =
ns_t p mod n)%Z).
Print Assumptions C15_nisp2sec_accepts.

(* one first message answered for two challenges: g^(ds1) h^(ds2) == C^(dc) *)
Theorem C15_nisp2sec_special_soundness :
  (forall n : Z,
0 < n ->
forall g gi h hi : Z,
invert g n = Some gi ->
invert h n = Some hi ->
forall C Ci s1 s2 c s1' s2' c' : Z,
invert C n = Some Ci ->
ssW n g gi h hi C Ci s1 s2 c = ssW n g gi h hi C Ci s1' s2' c' ->
Zdiv.eqm n (gp n g gi (s1 - s1') * gp n h hi (s2 - s2'))
  (gp n C Ci (c - c')))%Z.
Proof. exact nisp2sec_special_soundness. Qed.
Check (C15_nisp2sec_special_soundness :
  (forall n : Z,
0 < n ->
forall g gi h hi : Z,
invert g n = Some gi ->
invert h n = Some hi ->
forall C Ci s1 s2 c s1' s2' c' : Z,
invert C n = Some Ci ->
ssW n g gi h hi C Ci s1 s2 c = ssW n g gi h hi C Ci s1' s2' c' ->
Zdiv.eqm n (gp n g gi (s1 - s1') * gp n h hi (s2 - s2'))
  (gp n C Ci (c - c')))%Z).
Print Assumptions C15_nisp2sec_special_soundness.

(* two accepted opening proofs of one commitment with the same first message differ by a relation between g and h *)
Theorem C15_nisp2sec_rigid :
  (forall n : Z,
0 < n ->
forall g gi h hi : Z,
invert g n = Some gi ->
invert h n = Some hi ->
forall (p p' : nisps) (c : commitment) (Ci : Z),
invert (c_value c) n = Some Ci ->
nisp2sec_verify p c g h n = Ok true ->
nisp2sec_verify p' c g h n = Ok true ->
ns_t p = ns_t p' ->
Zdiv.eqm n
  (gp n g gi (ns_s1 p - ns_s1 p') * gp n h hi (ns_s2 p - ns_s2 p')) 1)%Z.
Proof. exact nisp2sec_rigid. Qed.
Check (C15_nisp2sec_rigid :
  (forall n : Z,
0 < n ->
forall g gi h hi : Z,
invert g n = Some gi ->
invert h n = Some hi ->
forall (p p' : nisps) (c : commitment) (Ci : Z),
invert (c_value c) n = Some Ci ->
nisp2sec_verify p c g h n = Ok true ->
nisp2sec_verify p' c g h n = Ok true ->
ns_t p = ns_t p' ->
Zdiv.eqm n
  (gp n g gi (ns_s1 p - ns_s1 p') * gp n h hi (ns_s2 p - ns_s2 p')) 1)%Z).
Print Assumptions C15_nisp2sec_rigid.

(* acceptance of the nine-response proof = its five recomputed first messages hash to the challenge, one response per hidden position *)
Theorem C15_nisp5_verify_firsts :
  (forall (p : spok) (ck : cpubkey) (pk : pubkey) 
  (bases rmsgs : list Z) (U : list N) (nsm : nat),
nisp5_verify p ck pk bases rmsgs U nsm = Ok true ->
exists l : list Z,
  nisp5_firsts p ck pk bases rmsgs U nsm = Ok l /\
  hash_int (str_cat l) = sp_chal p /\ length (sp_s5 p) = length U)%Z.
Proof. exact nisp5_verify_firsts. Qed.
Check (C15_nisp5_verify_firsts :
  (forall (p : spok) (ck : cpubkey) (pk : pubkey) 
  (bases rmsgs : list Z) (U : list N) (nsm : nat),
nisp5_verify p ck pk bases rmsgs U nsm = Ok true ->
exists l : list Z,
  nisp5_firsts p ck pk bases rmsgs U nsm = Ok l /\
  hash_int (str_cat l) = sp_chal p /\ length (sp_s5 p) = length U)%Z).
Print Assumptions C15_nisp5_verify_firsts.

(* the five first messages as products of powers (the walk over the attribute positions included) *)
Theorem C15_nisp5_firsts_spec :
  (forall n : Z,
0 < n ->
forall (ck : cpubkey) (pk : pubkey) (bases rmsgs : list Z)
  (U : list N) (nsm : nat) (selA selG : list (Z * Z))
  (g0 ig0 ig0i ib ibi ih ihi ci : Z),
pk_N pk = n ->
mapM (nthZ bases) (idxs 0 nsm) = Ok (map fst selA) ->
mapM (nthZ (ck_g ck)) (idxs 0 nsm) = Ok (map fst selG) ->
units n selA ->
units n selG ->
nthZ (ck_g ck) 0 = Ok g0 ->
inv_of g0 n = Ok ig0 ->
invert ig0 n = Some ig0i ->
inv_of (pk_b pk) n = Ok ib ->
invert ib n = Some ibi ->
inv_of (ck_h ck) n = Ok ih ->
invert ih n = Some ihi ->
invert (pk_c pk) n = Some ci ->
forall (p : spok) (l : list Z) (Cvi Cwi Cxi Cei : Z),
invert (c_value (sp_Cv p)) n = Some Cvi ->
invert (c_value (sp_Cw p)) n = Some Cwi ->
invert (c_value (sp_Cx p)) n = Some Cxi ->
invert (c_value (sp_Ce p)) n = Some Cei ->
nisp5_firsts p ck pk bases rmsgs U nsm = Ok l ->
exists (dA : list Z) (itcx : Z),
  wexp (sp_s5 p) rmsgs (sp_chal p) U nsm 0 = Some dA /\
  Zdiv.eqm n (gprod n selA dA * itcx) 1 /\
  l =
  [(gp n (c_value (sp_Cv p)) Cvi (sp_s4 p) * itcx *
    IB n ib ibi (sp_s6 p) * IG0 n ig0 ig0i (sp_s8 p) *
    CC n pk ci (- sp_chal p)) mod n;
   (G0 n g0 ig0 (sp_s7 p) * HH n ck ih (sp_s1 p) *
    gp n (c_value (sp_Cw p)) Cwi (- sp_chal p)) mod n;
   (gp n (c_value (sp_Cw p)) Cwi (sp_s4 p) * IG0 n ig0 ig0i (sp_s8 p) *
    IH n ih ihi (sp_s2 p)) mod n;
   (gprod n selG dA * HH n ck ih (sp_s3 p) *
    gp n (c_value (sp_Cx p)) Cxi (- sp_chal p)) mod n;
   (G0 n g0 ig0 (sp_s4 p) * HH n ck ih (sp_s9 p) *
    gp n (c_value (sp_Ce p)) Cei (- sp_chal p)) mod n])%Z.
Proof. exact nisp5_firsts_spec. Qed.
Check (C15_nisp5_firsts_spec :
  (forall n : Z,
0 < n ->
forall (ck : cpubkey) (pk : pubkey) (bases rmsgs : list Z)
  (U : list N) (nsm : nat) (selA selG : list (Z * Z))
  (g0 ig0 ig0i ib ibi ih ihi ci : Z),
pk_N pk = n ->
mapM (nthZ bases) (idxs 0 nsm) = Ok (map fst selA) ->
mapM (nthZ (ck_g ck)) (idxs 0 nsm) = Ok (map fst selG) ->
units n selA ->
units n selG ->
nthZ (ck_g ck) 0 = Ok g0 ->
inv_of g0 n = Ok ig0 ->
invert ig0 n = Some ig0i ->
inv_of (pk_b pk) n = Ok ib ->
invert ib n = Some ibi ->
inv_of (ck_h ck) n = Ok ih ->
invert ih n = Some ihi ->
invert (pk_c pk) n = Some ci ->
forall (p : spok) (l : list Z) (Cvi Cwi Cxi Cei : Z),
invert (c_value (sp_Cv p)) n = Some Cvi ->
invert (c_value (sp_Cw p)) n = Some Cwi ->
invert (c_value (sp_Cx p)) n = Some Cxi ->
invert (c_value (sp_Ce p)) n = Some Cei ->
nisp5_firsts p ck pk bases rmsgs U nsm = Ok l ->
exists (dA : list Z) (itcx : Z),
  wexp (sp_s5 p) rmsgs (sp_chal p) U nsm 0 = Some dA /\
  Zdiv.eqm n (gprod n selA dA * itcx) 1 /\
  l =
  [(gp n (c_value (sp_Cv p)) Cvi (sp_s4 p) * itcx *
    IB n ib ibi (sp_s6 p) * IG0 n ig0 ig0i (sp_s8 p) *
    CC n pk ci (- sp_chal p)) mod n;
   (G0 n g0 ig0 (sp_s7 p) * HH n ck ih (sp_s1 p) *
    gp n (c_value (sp_Cw p)) Cwi (- sp_chal p)) mod n;
   (gp n (c_value (sp_Cw p)) Cwi (sp_s4 p) * IG0 n ig0 ig0i (sp_s8 p) *
    IH n ih ihi (sp_s2 p)) mod n;
   (gprod n selG dA * HH n ck ih (sp_s3 p) *
    gp n (c_value (sp_Cx p)) Cxi (- sp_chal p)) mod n;
   (G0 n g0 ig0 (sp_s4 p) * HH n ck ih (sp_s9 p) *
    gp n (c_value (sp_Ce p)) Cei (- sp_chal p)) mod n])%Z).
Print Assumptions C15_nisp5_firsts_spec.

(* SPECIAL SOUNDNESS of the nine-response protocol: two tuples for the same five first messages give the five relations the extractor uses *)
Theorem C15_nisp5_special_soundness :
  (forall n : Z,
0 < n ->
forall (ck : cpubkey) (pk : pubkey) (bases rmsgs : list Z)
  (U : list N) (nsm : nat) (selA selG : list (Z * Z))
  (g0 ig0 ig0i ib ibi ih ihi ci : Z),
pk_N pk = n ->
mapM (nthZ bases) (idxs 0 nsm) = Ok (map fst selA) ->
mapM (nthZ (ck_g ck)) (idxs 0 nsm) = Ok (map fst selG) ->
units n selA ->
units n selG ->
nthZ (ck_g ck) 0 = Ok g0 ->
inv_of g0 n = Ok ig0 ->
invert ig0 n = Some ig0i ->
inv_of (pk_b pk) n = Ok ib ->
invert ib n = Some ibi ->
inv_of (ck_h ck) n = Ok ih ->
invert ih n = Some ihi ->
invert (pk_c pk) n = Some ci ->
forall (p p' : spok) (l : list Z) (Cvi Cwi Cxi Cei : Z),
sp_Cv p = sp_Cv p' ->
sp_Cw p = sp_Cw p' ->
sp_Cx p = sp_Cx p' ->
sp_Ce p = sp_Ce p' ->
invert (c_value (sp_Cv p)) n = Some Cvi ->
invert (c_value (sp_Cw p)) n = Some Cwi ->
invert (c_value (sp_Cx p)) n = Some Cxi ->
invert (c_value (sp_Ce p)) n = Some Cei ->
nisp5_firsts p ck pk bases rmsgs U nsm = Ok l ->
nisp5_firsts p' ck pk bases rmsgs U nsm = Ok l ->
exists dA dA' : list Z,
  wexp (sp_s5 p) rmsgs (sp_chal p) U nsm 0 = Some dA /\
  wexp (sp_s5 p') rmsgs (sp_chal p') U nsm 0 = Some dA' /\
  (let dc := sp_chal p - sp_chal p' in
   Zdiv.eqm n
     (gprod n
        ([(c_value (sp_Cv p), Cvi); (ib, ibi); (
          ig0, ig0i); (pk_c pk, ci)] ++ selA)
        ([sp_s4 p - sp_s4 p'; sp_s6 p - sp_s6 p'; 
          sp_s8 p - sp_s8 p'; - dc] ++ vsub dA' dA)) 1 /\
   Zdiv.eqm n
     (G0 n g0 ig0 (sp_s7 p - sp_s7 p') *
      HH n ck ih (sp_s1 p - sp_s1 p'))
     (gp n (c_value (sp_Cw p)) Cwi dc) /\
   Zdiv.eqm n
     (gp n (c_value (sp_Cw p)) Cwi (sp_s4 p - sp_s4 p') *
      IG0 n ig0 ig0i (sp_s8 p - sp_s8 p') *
      IH n ih ihi (sp_s2 p - sp_s2 p')) 1 /\
   Zdiv.eqm n
     (gprod n selG (vsub dA dA') * HH n ck ih (sp_s3 p - sp_s3 p'))
     (gp n (c_value (sp_Cx p)) Cxi dc) /\
   Zdiv.eqm n
     (G0 n g0 ig0 (sp_s4 p - sp_s4 p') *
      HH n ck ih (sp_s9 p - sp_s9 p'))
     (gp n (c_value (sp_Ce p)) Cei dc)))%Z.
Proof. exact nisp5_special_soundness. Qed.
Check (C15_nisp5_special_soundness :
  (forall n : Z,
0 < n ->
forall (ck : cpubkey) (pk : pubkey) (bases rmsgs : list Z)
  (U : list N) (nsm : nat) (selA selG : list (Z * Z))
  (g0 ig0 ig0i ib ibi ih ihi ci : Z),
pk_N pk = n ->
mapM (nthZ bases) (idxs 0 nsm) = Ok (map fst selA) ->
mapM (nthZ (ck_g ck)) (idxs 0 nsm) = Ok (map fst selG) ->
units n selA ->
units n selG ->
nthZ (ck_g ck) 0 = Ok g0 ->
inv_of g0 n = Ok ig0 ->
invert ig0 n = Some ig0i ->
inv_of (pk_b pk) n = Ok ib ->
invert ib n = Some ibi ->
inv_of (ck_h ck) n = Ok ih ->
invert ih n = Some ihi ->
invert (pk_c pk) n = Some ci ->
forall (p p' : spok) (l : list Z) (Cvi Cwi Cxi Cei : Z),
sp_Cv p = sp_Cv p' ->
sp_Cw p = sp_Cw p' ->
sp_Cx p = sp_Cx p' ->
sp_Ce p = sp_Ce p' ->
invert (c_value (sp_Cv p)) n = Some Cvi ->
invert (c_value (sp_Cw p)) n = Some Cwi ->
invert (c_value (sp_Cx p)) n = Some Cxi ->
invert (c_value (sp_Ce p)) n = Some Cei ->
nisp5_firsts p ck pk bases rmsgs U nsm = Ok l ->
nisp5_firsts p' ck pk bases rmsgs U nsm = Ok l ->
exists dA dA' : list Z,
  wexp (sp_s5 p) rmsgs (sp_chal p) U nsm 0 = Some dA /\
  wexp (sp_s5 p') rmsgs (sp_chal p') U nsm 0 = Some dA' /\
  (let dc := sp_chal p - sp_chal p' in
   Zdiv.eqm n
     (gprod n
        ([(c_value (sp_Cv p), Cvi); (ib, ibi); (
          ig0, ig0i); (pk_c pk, ci)] ++ selA)
        ([sp_s4 p - sp_s4 p'; sp_s6 p - sp_s6 p'; 
          sp_s8 p - sp_s8 p'; - dc] ++ vsub dA' dA)) 1 /\
   Zdiv.eqm n
     (G0 n g0 ig0 (sp_s7 p - sp_s7 p') *
      HH n ck ih (sp_s1 p - sp_s1 p'))
     (gp n (c_value (sp_Cw p)) Cwi dc) /\
   Zdiv.eqm n
     (gp n (c_value (sp_Cw p)) Cwi (sp_s4 p - sp_s4 p') *
      IG0 n ig0 ig0i (sp_s8 p - sp_s8 p') *
      IH n ih ihi (sp_s2 p - sp_s2 p')) 1 /\
   Zdiv.eqm n
     (gprod n selG (vsub dA dA') * HH n ck ih (sp_s3 p - sp_s3 p'))
     (gp n (c_value (sp_Cx p)) Cxi dc) /\
   Zdiv.eqm n
     (G0 n g0 ig0 (sp_s4 p - sp_s4 p') *
      HH n ck ih (sp_s9 p - sp_s9 p'))
     (gp n (c_value (sp_Ce p)) Cei dc)))%Z).
Print Assumptions C15_nisp5_special_soundness.

(* fix F19: an accepted signature proof carries canonical residues (C + N, C - N, - C are not further encodings of the same proof) *)
Theorem C15_nisp5_accepts_canonical :
  forall p ck pk bases rmsgs U nsm,
  nisp5_verify p ck pk bases rmsgs U nsm = Ok true ->
  Forall (fun c => (0 <= c_value c < pk_N pk)%Z) [sp_Cx p; sp_Cv p; sp_Cw p; sp_Ce p].
Proof. exact nisp5_accepts_canonical. Qed.
Check (C15_nisp5_accepts_canonical :
  forall p ck pk bases rmsgs U nsm,
  nisp5_verify p ck pk bases rmsgs U nsm = Ok true ->
  Forall (fun c => (0 <= c_value c < pk_N pk)%Z) [sp_Cx p; sp_Cv p; sp_Cw p; sp_Ce p]).
Print Assumptions C15_nisp5_accepts_canonical.
