(* C15 -- CL03 proof of knowledge of a signature.  Proved: an accepted proof has its range proof on e made for the
   commitment Ce of the sigma protocol and passes the five-equation check; completeness of the per-attribute two-secret
   protocol.  Completeness of the whole proof for every hidden set and rejection of mismatching statements / edited
   fields: correspondence + sweep (all subsets U for n <= 3 / 5). *)
From ZK Require Import Cl ClArith ClSig ClMore.

Theorem C15_spok_accepts_ties_Ce :
  forall CS BP p ck pk bases rmsgs U nsm,
  spok_verify CS BP p ck pk bases rmsgs U nsm = Ok true ->
  c_value (sp_Ce (pk_spok p)) = bd_E (pk_rpe p) /\ nisp5_verify (pk_spok p) ck pk bases rmsgs U nsm = Ok true.
Proof. exact spok_accepts_ties_Ce. Qed.
Check (C15_spok_accepts_ties_Ce :
  forall CS BP p ck pk bases rmsgs U nsm,
  spok_verify CS BP p ck pk bases rmsgs U nsm = Ok true ->
  c_value (sp_Ce (pk_spok p)) = bd_E (pk_rpe p) /\ nisp5_verify (pk_spok p) ck pk bases rmsgs U nsm = Ok true).
Print Assumptions C15_spok_accepts_ties_Ce.

Theorem C15_nisp2sec_complete :
  forall CS m c g h n ds p ds',
  (0 < n)%Z -> (0 <= m)%Z -> (0 <= c_rand c)%Z -> c_value c = ((g ^ m * h ^ c_rand c) mod n)%Z ->
  Forall (fun d => (0 <= d_val d)%Z) ds ->
  nisp2sec_gen CS m c g h n ds = Ok (p, ds') ->
  nisp2sec_verify p c g h n = Ok true.
Proof. exact nisp2sec_complete. Qed.
Check (C15_nisp2sec_complete :
  forall CS m c g h n ds p ds',
  (0 < n)%Z -> (0 <= m)%Z -> (0 <= c_rand c)%Z -> c_value c = ((g ^ m * h ^ c_rand c) mod n)%Z ->
  Forall (fun d => (0 <= d_val d)%Z) ds ->
  nisp2sec_gen CS m c g h n ds = Ok (p, ds') ->
  nisp2sec_verify p c g h n = Ok true).
Print Assumptions C15_nisp2sec_complete.
