(* C17 -- theorems are being added *)
From ZK Require Import Cl.
