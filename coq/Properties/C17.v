(* C17 -- CL03 proofs and the openings they carry.  The property is VIOLATED by the code (finding F9, recorded in
   known_findings.txt): the theorems below are the machine-checked form of the finding on the faithful model -- the
   signature proof embeds Cv = {value, randomness} with value = v * g_0^randomness mod N, so v is recomputable. *)
From ZK Require Import Cl ClArith ClSig ClMore.
From ZK Require Import ClTies.

Theorem C17_spok_carries_opening_of_v :
  forall CS sg ck pk bases msgs U ds p ds',
  nisp5_gen CS sg ck pk bases msgs U ds = Ok (p, ds') ->
  exists g0 gw, nthZ (ck_g ck) 0 = Ok g0 /\ pow_mod g0 (c_rand (sp_Cv p)) (ck_N ck) = Ok gw /\
    c_value (sp_Cv p) = Z.rem (s_v sg * gw) (ck_N ck).
Proof. exact spok_carries_opening_of_v. Qed.
Check (C17_spok_carries_opening_of_v :
  forall CS sg ck pk bases msgs U ds p ds',
  nisp5_gen CS sg ck pk bases msgs U ds = Ok (p, ds') ->
  exists g0 gw, nthZ (ck_g ck) 0 = Ok g0 /\ pow_mod g0 (c_rand (sp_Cv p)) (ck_N ck) = Ok gw /\
    c_value (sp_Cv p) = Z.rem (s_v sg * gw) (ck_N ck)).
Print Assumptions C17_spok_carries_opening_of_v.

Theorem C17_commit_v_opens :
  forall CS v ck ds c ds', commit_v CS v ck ds = Ok (c, ds') ->
  exists g0 gw, nthZ (ck_g ck) 0 = Ok g0 /\ pow_mod g0 (c_rand c) (ck_N ck) = Ok gw /\
    c_value c = Z.rem (v * gw) (ck_N ck).
Proof. exact commit_v_opens. Qed.
Check (C17_commit_v_opens :
  forall CS v ck ds c ds', commit_v CS v ck ds = Ok (c, ds') ->
  exists g0 gw, nthZ (ck_g ck) 0 = Ok g0 /\ pow_mod g0 (c_rand c) (ck_N ck) = Ok gw /\
    c_value c = Z.rem (v * gw) (ck_N ck)).
Print Assumptions C17_commit_v_opens.

(* the first response of every same-secret sub-proof of a range proof, divided by the public challenge, pins its secret up to
   (2^(l + ss_t) b - 1) / challenge.  Before fix ba36c2c (blinding for a t-bit challenge, b = rmax) this was the secret itself (F16);
   with ss_t = max(t, 256) and b >= the secret the window is 2^l times wider than the secret *)
Theorem C17_same_secret_response_pins_x :
  forall BP x r1 r2 g1 h1 g2 h2 b n s2x ds p ds',
  Forall int_ok ds ->
  proof_same_secret BP x r1 r2 g1 h1 g2 h2 b n s2x ds = Ok (p, ds') ->
  (0 < ss_chal p)%Z ->
  (x <= ss_d p / ss_chal p <= x + (two (b_l BP + ss_t BP) * b - 1) / ss_chal p)%Z.
Proof. exact same_secret_response_pins_x. Qed.
Check (C17_same_secret_response_pins_x :
  forall BP x r1 r2 g1 h1 g2 h2 b n s2x ds p ds',
  Forall int_ok ds ->
  proof_same_secret BP x r1 r2 g1 h1 g2 h2 b n s2x ds = Ok (p, ds') ->
  (0 < ss_chal p)%Z ->
  (x <= ss_d p / ss_chal p <= x + (two (b_l BP + ss_t BP) * b - 1) / ss_chal p)%Z).
Print Assumptions C17_same_secret_response_pins_x.
