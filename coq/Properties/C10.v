(* C10 -- the input-limit clauses (the rest of C10 is decided by the correspondence check). *)
From ZK Require Import Laws SignProofs.

Theorem C10_keygen_rejects : forall (E : env) ikm ki kd,
  ((len ikm < c_ikm_len (cs E))%N -> key_gen E ikm ki kd = Err) /\
  ((65535 < len (option_default [] ki))%N -> key_gen E ikm ki kd = Err) /\
  ((c_ikm_len (cs E) <= len ikm)%N -> (len (option_default [] ki) <= 65535)%N ->
   (255 < length (option_default (c_api_id (cs E) ++ c_keygen_dst (cs E)) kd))%nat ->
   key_gen E ikm ki kd = Err).
Proof. exact keygen_rejects. Qed.
Check (C10_keygen_rejects : forall (E : env) ikm ki kd,
  ((len ikm < c_ikm_len (cs E))%N -> key_gen E ikm ki kd = Err) /\
  ((65535 < len (option_default [] ki))%N -> key_gen E ikm ki kd = Err) /\
  ((c_ikm_len (cs E) <= len ikm)%N -> (len (option_default [] ki) <= 65535)%N ->
   (255 < length (option_default (c_api_id (cs E) ++ c_keygen_dst (cs E)) kd))%nat ->
   key_gen E ikm ki kd = Err)).
Print Assumptions C10_keygen_rejects.

Theorem C10_h2s_rejects_long_dst : forall (E : env) msg dst,
  (255 < length dst)%nat -> hash_to_scalar E msg dst = Err.
Proof. exact h2s_rejects_long_dst. Qed.
Check (C10_h2s_rejects_long_dst : forall (E : env) msg dst,
  (255 < length dst)%nat -> hash_to_scalar E msg dst = Err).
Print Assumptions C10_h2s_rejects_long_dst.
