(* C13 -- CL03 signatures.  rug::Integer = Z, modular exponentiation proved equal to b^e mod n (ClArith).  good_key: 1 < N,
   1 < phi, Euler's theorem for N as an explicit premise (true for N = p q; primality of generated p, q is GMP's), b, c
   coprime to N. *)
From ZK Require Import Cl ClArith ClSig.
From ZK Require Import ClCodec.
From ZK Require Import ClGroup ClSpok ClDisclose.

(* every signature sign_multiattr returns -- any number of attributes in [0, 2^lm), any bases coprime to N, any draws --
   verifies *)
Theorem C13_cl_sign_verify_complete :
  forall (CS : clsuite) pk sk bases msgs ds sg ds',
  good_key pk sk ->
  Forall (fun a => Z.gcd a (pk_N pk) = 1%Z) bases ->
  forallb (msg_in_range CS) msgs = true ->
  sign_multiattr CS pk sk bases msgs ds = Ok (sg, ds') ->
  verify_multiattr CS sg pk bases msgs = Ok true.
Proof. exact cl_sign_verify_complete. Qed.
Check (C13_cl_sign_verify_complete :
  forall (CS : clsuite) pk sk bases msgs ds sg ds',
  good_key pk sk ->
  Forall (fun a => Z.gcd a (pk_N pk) = 1%Z) bases ->
  forallb (msg_in_range CS) msgs = true ->
  sign_multiattr CS pk sk bases msgs ds = Ok (sg, ds') ->
  verify_multiattr CS sg pk bases msgs = Ok true).
Print Assumptions C13_cl_sign_verify_complete.

(* the exponent leaving the rejection loop has exactly le bits and is coprime to phi *)
Theorem C13_e_loop_exit :
  forall (CS : clsuite) ph ds e ds', e_loop CS ph ds = Ok (e, ds') ->
  (two (le CS - 1) < e)%Z /\ (e < two (le CS))%Z /\ Z.gcd e ph = 1%Z.
Proof. exact e_loop_exit. Qed.
Check (C13_e_loop_exit :
  forall (CS : clsuite) ph ds e ds', e_loop CS ph ds = Ok (e, ds') ->
  (two (le CS - 1) < e)%Z /\ (e < two (le CS))%Z /\ Z.gcd e ph = 1%Z).
Print Assumptions C13_e_loop_exit.

(* F7: an attribute shifted by a non-zero multiple of e is refused, whatever v accompanies it (le >= lm + 2) *)
Theorem C13_shift_forgery_rejected :
  forall (CS : clsuite) sg pk bases msgs i k,
  (two (le CS - 1) < s_e sg)%Z -> (lm CS + 1 <= le CS - 1)%Z -> (0 <= lm CS)%Z ->
  (i < length msgs)%nat -> msg_in_range CS (nth i msgs 0%Z) = true -> k <> 0%Z ->
  forall msgs', length msgs' = length msgs -> nth i msgs' 0%Z = (nth i msgs 0 + k * s_e sg)%Z ->
  (length msgs' <= length bases)%nat ->
  verify_multiattr CS sg pk bases msgs' = Ok false.
Proof. exact shift_forgery_rejected. Qed.
Check (C13_shift_forgery_rejected :
  forall (CS : clsuite) sg pk bases msgs i k,
  (two (le CS - 1) < s_e sg)%Z -> (lm CS + 1 <= le CS - 1)%Z -> (0 <= lm CS)%Z ->
  (i < length msgs)%nat -> msg_in_range CS (nth i msgs 0%Z) = true -> k <> 0%Z ->
  forall msgs', length msgs' = length msgs -> nth i msgs' 0%Z = (nth i msgs 0 + k * s_e sg)%Z ->
  (length msgs' <= length bases)%nat ->
  verify_multiattr CS sg pk bases msgs' = Ok false).
Print Assumptions C13_shift_forgery_rejected.

(* F14: v outside (0, N) is refused *)
Theorem C13_noncanonical_v_rejected :
  forall (CS : clsuite) sg pk bases msgs,
  ((s_v sg <= 0)%Z \/ (pk_N pk <= s_v sg)%Z) -> (length msgs <= length bases)%nat ->
  verify_multiattr CS sg pk bases msgs = Ok false.
Proof. exact noncanonical_v_rejected. Qed.
Check (C13_noncanonical_v_rejected :
  forall (CS : clsuite) sg pk bases msgs,
  ((s_v sg <= 0)%Z \/ (pk_N pk <= s_v sg)%Z) -> (length msgs <= length bases)%nat ->
  verify_multiattr CS sg pk bases msgs = Ok false).
Print Assumptions C13_noncanonical_v_rejected.

Theorem C13_verify_multiattr_accepts :
  forall (CS : clsuite) sg pk bases msgs,
  verify_multiattr CS sg pk bases msgs = Ok true ->
  (two (le CS - 1) < s_e sg < two (le CS))%Z /\ (0 < s_v sg < pk_N pk)%Z /\ forallb (msg_in_range CS) msgs = true /\
  exists lhs r0 bs, pow_mod (s_v sg) (s_e sg) (pk_N pk) = Ok lhs /\ prod_pows bases msgs (pk_N pk) 1 = Ok r0 /\
    pow_mod (pk_b pk) (s_s sg) (pk_N pk) = Ok bs /\ lhs = Z.rem (r0 * bs * pk_c pk) (pk_N pk).
Proof. exact verify_multiattr_accepts. Qed.
Check (C13_verify_multiattr_accepts :
  forall (CS : clsuite) sg pk bases msgs,
  verify_multiattr CS sg pk bases msgs = Ok true ->
  (two (le CS - 1) < s_e sg < two (le CS))%Z /\ (0 < s_v sg < pk_N pk)%Z /\ forallb (msg_in_range CS) msgs = true /\
  exists lhs r0 bs, pow_mod (s_v sg) (s_e sg) (pk_N pk) = Ok lhs /\ prod_pows bases msgs (pk_N pk) 1 = Ok r0 /\
    pow_mod (pk_b pk) (s_s sg) (pk_N pk) = Ok bs /\ lhs = Z.rem (r0 * bs * pk_c pk) (pk_N pk)).
Print Assumptions C13_verify_multiattr_accepts.

(* the finding itself, machine-checked on the verifier of the pinned tree: (e, s, v*a) verified for m + e *)
Theorem C13_shift_forgery_accepted_old :
  exists pk bases m sg,
  verify_multiattr_old f7_suite sg pk bases [m] = Ok true /\
  verify_multiattr_old f7_suite {| s_e := s_e sg; s_s := s_s sg; s_v := ((s_v sg * nth 0 bases 0) mod pk_N pk)%Z |} pk bases [(m + s_e sg)%Z] = Ok true /\
  verify_multiattr f7_suite {| s_e := s_e sg; s_s := s_s sg; s_v := ((s_v sg * nth 0 bases 0) mod pk_N pk)%Z |} pk bases [(m + s_e sg)%Z] = Ok false.
Proof. exact shift_forgery_accepted_old. Qed.
Check (C13_shift_forgery_accepted_old :
  exists pk bases m sg,
  verify_multiattr_old f7_suite sg pk bases [m] = Ok true /\
  verify_multiattr_old f7_suite {| s_e := s_e sg; s_s := s_s sg; s_v := ((s_v sg * nth 0 bases 0) mod pk_N pk)%Z |} pk bases [(m + s_e sg)%Z] = Ok true /\
  verify_multiattr f7_suite {| s_e := s_e sg; s_s := s_s sg; s_v := ((s_v sg * nth 0 bases 0) mod pk_N pk)%Z |} pk bases [(m + s_e sg)%Z] = Ok false).
Print Assumptions C13_shift_forgery_accepted_old.

(* selective disclosure: for every list of hidden positions the signature verifies on the disclosed (bases', msgs') *)
Theorem C13_disclose_verify_complete :
  forall CS n, (0 < n)%Z -> forall sg pk bases msgs U,
  pk_N pk = n -> (1 <= lm CS)%Z -> (0 <= pk_c pk)%Z ->
  length msgs = length bases ->
  Forall (fun j => (N.to_nat j < length msgs)%nat) U ->
  verify_multiattr CS sg pk bases msgs = Ok true ->
  exists msgs' bases', disclose_selectively msgs bases pk U = Ok (msgs', bases') /\
    length msgs' = length msgs /\
    (forall j, In j U -> nth (N.to_nat j) msgs' 0%Z = 1%Z) /\
    verify_multiattr CS sg pk bases' msgs' = Ok true.
Proof. exact disclose_verify_complete. Qed.
Check (C13_disclose_verify_complete :
  forall CS n, (0 < n)%Z -> forall sg pk bases msgs U,
  pk_N pk = n -> (1 <= lm CS)%Z -> (0 <= pk_c pk)%Z ->
  length msgs = length bases ->
  Forall (fun j => (N.to_nat j < length msgs)%nat) U ->
  verify_multiattr CS sg pk bases msgs = Ok true ->
  exists msgs' bases', disclose_selectively msgs bases pk U = Ok (msgs', bases') /\
    length msgs' = length msgs /\
    (forall j, In j U -> nth (N.to_nat j) msgs' 0%Z = 1%Z) /\
    verify_multiattr CS sg pk bases' msgs' = Ok true).
Print Assumptions C13_disclose_verify_complete.

(* the byte encoding of a signature decodes to the same signature *)
Theorem C13_sig_codec_roundtrip :
  forall CS sg b, (0 <= s_e sg)%Z -> (0 <= s_s sg)%Z -> (0 <= s_v sg)%Z ->
  sig_to_bytes CS sg = Ok b -> sig_from_bytes CS b = Ok sg.
Proof. exact sig_codec_roundtrip. Qed.
Check (C13_sig_codec_roundtrip :
  forall CS sg b, (0 <= s_e sg)%Z -> (0 <= s_s sg)%Z -> (0 <= s_v sg)%Z ->
  sig_to_bytes CS sg = Ok b -> sig_from_bytes CS b = Ok sg).
Print Assumptions C13_sig_codec_roundtrip.
