(* C13 -- theorems are being added *)
From ZK Require Import Cl.
