(* C08 -- untrusted input never crashes a BBS verifier, signer or holder: for ALL byte strings, index lists
   and counts the model's entry points return Ok / Err (never Panic), and the number of generators
   they request is bounded by the size of the input.  [P1_ok] = the suite's P1 constant decodes (checked for the
   generated constants in Properties/C11.v); [fits n] = an in-memory list has fewer than 2^62 elements. *)
From ZK Require Import Laws NoPanic.

Theorem C08_no_panic_sk_from_bytes :
  forall (E : env) b, sk_from_bytes E b <> Panic.
Proof. exact no_panic_sk_from_bytes. Qed.
Check (C08_no_panic_sk_from_bytes :
  forall (E : env) b, sk_from_bytes E b <> Panic).
Print Assumptions C08_no_panic_sk_from_bytes.

Theorem C08_no_panic_pk_from_bytes :
  forall (E : env) b, pk_from_bytes E b <> Panic.
Proof. exact no_panic_pk_from_bytes. Qed.
Check (C08_no_panic_pk_from_bytes :
  forall (E : env) b, pk_from_bytes E b <> Panic).
Print Assumptions C08_no_panic_pk_from_bytes.

Theorem C08_no_panic_pk_from_xy :
  forall (E : env) x y, pk_from_xy E x y <> Panic.
Proof. exact no_panic_pk_from_xy. Qed.
Check (C08_no_panic_pk_from_xy :
  forall (E : env) x y, pk_from_xy E x y <> Panic).
Print Assumptions C08_no_panic_pk_from_xy.

Theorem C08_no_panic_sig_from_bytes :
  forall (E : env) b, sig_from_bytes E b <> Panic.
Proof. exact no_panic_sig_from_bytes. Qed.
Check (C08_no_panic_sig_from_bytes :
  forall (E : env) b, sig_from_bytes E b <> Panic).
Print Assumptions C08_no_panic_sig_from_bytes.

Theorem C08_no_panic_blind_from_bytes :
  forall (E : env) b, blind_from_bytes E b <> Panic.
Proof. exact no_panic_blind_from_bytes. Qed.
Check (C08_no_panic_blind_from_bytes :
  forall (E : env) b, blind_from_bytes E b <> Panic).
Print Assumptions C08_no_panic_blind_from_bytes.

Theorem C08_no_panic_pok_from_bytes :
  forall (E : env) b, pok_from_bytes E b <> Panic.
Proof. exact no_panic_pok_from_bytes. Qed.
Check (C08_no_panic_pok_from_bytes :
  forall (E : env) b, pok_from_bytes E b <> Panic).
Print Assumptions C08_no_panic_pok_from_bytes.

Theorem C08_no_panic_zkpok_from_bytes :
  forall (E : env) b, zkpok_from_bytes E b <> Panic.
Proof. exact no_panic_zkpok_from_bytes. Qed.
Check (C08_no_panic_zkpok_from_bytes :
  forall (E : env) b, zkpok_from_bytes E b <> Panic).
Print Assumptions C08_no_panic_zkpok_from_bytes.

Theorem C08_no_panic_commitment_from_bytes :
  forall (E : env) b, commitment_from_bytes E b <> Panic.
Proof. exact no_panic_commitment_from_bytes. Qed.
Check (C08_no_panic_commitment_from_bytes :
  forall (E : env) b, commitment_from_bytes E b <> Panic).
Print Assumptions C08_no_panic_commitment_from_bytes.

Theorem C08_no_panic_verify :
  forall (E : env), (exists p, g1_dec (PR E) (c_p1 (cs E)) = Some p) ->
  forall s pk msgs header, verify E s pk msgs header <> Panic.
Proof. exact no_panic_verify. Qed.
Check (C08_no_panic_verify :
  forall (E : env), (exists p, g1_dec (PR E) (c_p1 (cs E)) = Some p) ->
  forall s pk msgs header, verify E s pk msgs header <> Panic).
Print Assumptions C08_no_panic_verify.

Theorem C08_no_panic_proof_verify :
  forall (E : env), (exists p, g1_dec (PR E) (c_p1 (cs E)) = Some p) ->
  forall p pk dmsgs idx header ph, proof_verify E p pk dmsgs idx header ph <> Panic.
Proof. exact no_panic_proof_verify. Qed.
Check (C08_no_panic_proof_verify :
  forall (E : env), (exists p, g1_dec (PR E) (c_p1 (cs E)) = Some p) ->
  forall p pk dmsgs idx header ph, proof_verify E p pk dmsgs idx header ph <> Panic).
Print Assumptions C08_no_panic_proof_verify.

Theorem C08_no_panic_blind_proof_verify :
  forall (E : env), (exists p, g1_dec (PR E) (c_p1 (cs E)) = Some p) ->
  forall p pk header ph L dmsgs dcmsgs idx cidx,
  fits (length (option_default [] idx)) -> fits (length (option_default [] cidx)) ->
  fits (length (p_m_cap E p)) ->
  blind_proof_verify E p pk header ph L dmsgs dcmsgs idx cidx <> Panic.
Proof. exact no_panic_blind_proof_verify. Qed.
Check (C08_no_panic_blind_proof_verify :
  forall (E : env), (exists p, g1_dec (PR E) (c_p1 (cs E)) = Some p) ->
  forall p pk header ph L dmsgs dcmsgs idx cidx,
  fits (length (option_default [] idx)) -> fits (length (option_default [] cidx)) ->
  fits (length (p_m_cap E p)) ->
  blind_proof_verify E p pk header ph L dmsgs dcmsgs idx cidx <> Panic).
Print Assumptions C08_no_panic_blind_proof_verify.

Theorem C08_no_panic_blind_sign :
  forall (E : env), (exists p, g1_dec (PR E) (c_p1 (cs E)) = Some p) ->
  forall sk pk cwp header msgs, blind_sign E sk pk cwp header msgs <> Panic.
Proof. exact no_panic_blind_sign. Qed.
Check (C08_no_panic_blind_sign :
  forall (E : env), (exists p, g1_dec (PR E) (c_p1 (cs E)) = Some p) ->
  forall sk pk cwp header msgs, blind_sign E sk pk cwp header msgs <> Panic).
Print Assumptions C08_no_panic_blind_sign.

Theorem C08_no_panic_verify_blind_sign :
  forall (E : env), (exists p, g1_dec (PR E) (c_p1 (cs E)) = Some p) ->
  forall s pk header msgs cmsgs spb, verify_blind_sign E s pk header msgs cmsgs spb <> Panic.
Proof. exact no_panic_verify_blind_sign. Qed.
Check (C08_no_panic_verify_blind_sign :
  forall (E : env), (exists p, g1_dec (PR E) (c_p1 (cs E)) = Some p) ->
  forall s pk header msgs cmsgs spb, verify_blind_sign E s pk header msgs cmsgs spb <> Panic).
Print Assumptions C08_no_panic_verify_blind_sign.

Theorem C08_no_panic_deserialize_and_validate_commit :
  forall (E : env) cwp bg api, deserialize_and_validate_commit E cwp bg api <> Panic.
Proof. exact no_panic_deserialize_and_validate_commit. Qed.
Check (C08_no_panic_deserialize_and_validate_commit :
  forall (E : env) cwp bg api, deserialize_and_validate_commit E cwp bg api <> Panic).
Print Assumptions C08_no_panic_deserialize_and_validate_commit.

Theorem C08_no_panic_proof_gen :
  forall (E : env), (exists p, g1_dec (PR E) (c_p1 (cs E)) = Some p) ->
  forall pk sigb header ph msgs idx rho, proof_gen E pk sigb header ph msgs idx rho <> Panic.
Proof. exact no_panic_proof_gen. Qed.
Check (C08_no_panic_proof_gen :
  forall (E : env), (exists p, g1_dec (PR E) (c_p1 (cs E)) = Some p) ->
  forall pk sigb header ph msgs idx rho, proof_gen E pk sigb header ph msgs idx rho <> Panic).
Print Assumptions C08_no_panic_proof_gen.

Theorem C08_no_panic_blind_proof_gen :
  forall (E : env), (exists p, g1_dec (PR E) (c_p1 (cs E)) = Some p) ->
  forall pk sigb header ph msgs cmsgs idx cidx spb rho,
  blind_proof_gen E pk sigb header ph msgs cmsgs idx cidx spb rho <> Panic.
Proof. exact no_panic_blind_proof_gen. Qed.
Check (C08_no_panic_blind_proof_gen :
  forall (E : env), (exists p, g1_dec (PR E) (c_p1 (cs E)) = Some p) ->
  forall pk sigb header ph msgs cmsgs idx cidx spb rho,
  blind_proof_gen E pk sigb header ph msgs cmsgs idx cidx spb rho <> Panic).
Print Assumptions C08_no_panic_blind_proof_gen.

Theorem C08_no_panic_update_signature :
  forall (E : env), (exists p, g1_dec (PR E) (c_p1 (cs E)) = Some p) ->
  forall s sk old_m new_m ui n, update_signature E s sk old_m new_m ui n <> Panic.
Proof. exact no_panic_update_signature. Qed.
Check (C08_no_panic_update_signature :
  forall (E : env), (exists p, g1_dec (PR E) (c_p1 (cs E)) = Some p) ->
  forall s sk old_m new_m ui n, update_signature E s sk old_m new_m ui n <> Panic).
Print Assumptions C08_no_panic_update_signature.

Theorem C08_work_bound_proof_verify :
  forall (E : env) p idx,
  (gens_proof_verify E p idx <= length (p_m_cap E p) + length (option_default [] idx) + 1)%nat.
Proof. exact work_bound_proof_verify. Qed.
Check (C08_work_bound_proof_verify :
  forall (E : env) p idx,
  (gens_proof_verify E p idx <= length (p_m_cap E p) + length (option_default [] idx) + 1)%nat).
Print Assumptions C08_work_bound_proof_verify.

(* blind_proof_verify creates (L + 1) + (M + 1) generators only after both checked subtractions succeeded,
   and then L + M + 2 <= |idx| + |cidx| + U + 1 *)
Theorem C08_work_bound_blind_proof_verify :
  forall (E : env) (p : pok E) (L : option N) idx cidx m1 M,
  checked_sub (len (sort_dedup (option_default [] idx)) + len (sort_dedup (option_default [] cidx)) +
               len (p_m_cap E p)) 1 = Some m1 ->
  checked_sub m1 (option_default 0%N L) = Some M ->
  (option_default 0 L + 1 + (M + 1) <=
    len (option_default [] idx) + len (option_default [] cidx) + len (p_m_cap E p) + 1)%N.
Proof. exact work_bound_blind_proof_verify. Qed.
Check (C08_work_bound_blind_proof_verify :
  forall (E : env) (p : pok E) (L : option N) idx cidx m1 M,
  checked_sub (len (sort_dedup (option_default [] idx)) + len (sort_dedup (option_default [] cidx)) +
               len (p_m_cap E p)) 1 = Some m1 ->
  checked_sub m1 (option_default 0%N L) = Some M ->
  (option_default 0 L + 1 + (M + 1) <=
    len (option_default [] idx) + len (option_default [] cidx) + len (p_m_cap E p) + 1)%N).
Print Assumptions C08_work_bound_blind_proof_verify.

Theorem C08_work_bound_blind_sign :
  forall (cwp : bytes) m1 m2,
  checked_sub (len cwp) 48 = Some m1 -> checked_sub m1 32 = Some m2 -> (m2 / 32 <= len cwp / 32)%N.
Proof. exact work_bound_blind_sign. Qed.
Check (C08_work_bound_blind_sign :
  forall (cwp : bytes) m1 m2,
  checked_sub (len cwp) 48 = Some m1 -> checked_sub m1 32 = Some m2 -> (m2 / 32 <= len cwp / 32)%N).
Print Assumptions C08_work_bound_blind_sign.
