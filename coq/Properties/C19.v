(* C19 -- CL03 responses mask their secrets.  Pure arithmetic on s = r + c*x, instantiated with the blinding lengths of
   the model, which are tied to src/cl03/sigma_protocols.rs by the constants regenerated on every run (requests_tied) and
   by the draw-request correspondence (every logged draw's bit length must equal the model's request). *)
From ZK Require Import Cl ClArith ClConsts ClMask.
From ZK Require Import ClTies ClSpok ClMasked.
From Coq Require Import List. Import ListNotations.

Theorem C19_response_quotient :
  forall r c x, (0 < c)%Z -> ((r + c * x) / c = x + r / c)%Z.
Proof. exact response_quotient. Qed.
Check (C19_response_quotient :
  forall r c x, (0 < c)%Z -> ((r + c * x) / c = x + r / c)%Z).
Print Assumptions C19_response_quotient.

Theorem C19_mask_ok :
  forall r c x k, (2 ^ (k - 1) <= r)%Z -> (0 < c < 2 ^ 256)%Z -> (321 <= k)%Z -> (2 ^ 64 <= (r + c * x) / c - x)%Z.
Proof. exact mask_ok. Qed.
Check (C19_mask_ok :
  forall r c x k, (2 ^ (k - 1) <= r)%Z -> (0 < c < 2 ^ 256)%Z -> (321 <= k)%Z -> (2 ^ 64 <= (r + c * x) / c - x)%Z).
Print Assumptions C19_mask_ok.

(* what the pinned tree did (F10): a blinding of the secret's own length leaks it *)
Theorem C19_leak_old :
  forall r c x k, (0 <= r < 2 ^ k)%Z -> (2 ^ (k - 64) <= c)%Z -> (64 <= k)%Z -> (0 <= (r + c * x) / c - x <= 2 ^ 64)%Z.
Proof. exact leak_old. Qed.
Check (C19_leak_old :
  forall r c x k, (0 <= r < 2 ^ k)%Z -> (2 ^ (k - 64) <= c)%Z -> (64 <= k)%Z -> (0 <= (r + c * x) / c - x <= 2 ^ 64)%Z).
Print Assumptions C19_leak_old.

Theorem C19_requests_tied :
  forall CS, sigma_random_bits_requests CS = model_random_bits_requests CS.
Proof. exact requests_tied. Qed.
Check (C19_requests_tied :
  forall CS, sigma_random_bits_requests CS = model_random_bits_requests CS).
Print Assumptions C19_requests_tied.

Theorem C19_mask_tied :
  sigma_mask = MASK.
Proof. exact mask_tied. Qed.
Check (C19_mask_tied :
  sigma_mask = MASK).
Print Assumptions C19_mask_tied.

Theorem C19_suites_masked :
  masks_enough cl1024_suite && masks_enough cl2048_suite && masks_enough cl3072_suite && masks_enough toy_suite = true.
Proof. exact suites_masked. Qed.
Check (C19_suites_masked :
  masks_enough cl1024_suite && masks_enough cl2048_suite && masks_enough cl3072_suite && masks_enough toy_suite = true).
Print Assumptions C19_suites_masked.

Theorem C19_nisp2sec_responses_masked :
  forall CS r c x, (321 <= ln CS + MASK)%Z ->
  (2 ^ (ln CS + MASK - 1) <= r)%Z -> (0 < c < 2 ^ 256)%Z -> (2 ^ 64 <= (r + c * x) / c - x)%Z.
Proof. exact nisp2sec_responses_masked. Qed.
Check (C19_nisp2sec_responses_masked :
  forall CS r c x, (321 <= ln CS + MASK)%Z ->
  (2 ^ (ln CS + MASK - 1) <= r)%Z -> (0 < c < 2 ^ 256)%Z -> (2 ^ 64 <= (r + c * x) / c - x)%Z).
Print Assumptions C19_nisp2sec_responses_masked.

(* the first response of every same-secret sub-proof of a range proof, divided by the public challenge, pins its secret up to
   (2^(l + ss_t) b - 1) / challenge.  Before fix ba36c2c (blinding for a t-bit challenge, b = rmax) this was the secret itself (F16);
   with ss_t = max(t, 256) and b >= the secret the window is 2^l times wider than the secret *)
Theorem C19_same_secret_response_pins_x :
  forall BP x r1 r2 g1 h1 g2 h2 b n s2x ds p ds',
  Forall int_ok ds ->
  proof_same_secret BP x r1 r2 g1 h1 g2 h2 b n s2x ds = Ok (p, ds') ->
  (0 < ss_chal p)%Z ->
  (x <= ss_d p / ss_chal p <= x + (two (b_l BP + ss_t BP) * b - 1) / ss_chal p)%Z.
Proof. exact same_secret_response_pins_x. Qed.
Check (C19_same_secret_response_pins_x :
  forall BP x r1 r2 g1 h1 g2 h2 b n s2x ds p ds',
  Forall int_ok ds ->
  proof_same_secret BP x r1 r2 g1 h1 g2 h2 b n s2x ds = Ok (p, ds') ->
  (0 < ss_chal p)%Z ->
  (x <= ss_d p / ss_chal p <= x + (two (b_l BP + ss_t BP) * b - 1) / ss_chal p)%Z).
Print Assumptions C19_same_secret_response_pins_x.

(* END TO END for the signature proof: every response about a hidden attribute is masked, for every list of hidden positions (any order,
   repeated positions, positions beyond a machine word), given random_bits' contract (bit k - 1 of random_bits(k) is set) *)
Theorem C19_nisp5_hidden_responses_masked :
  forall CS sg ck pk bases msgs U ds p ds',
  Forall bits_top ds ->
  nisp5_gen CS sg ck pk bases msgs U ds = Ok (p, ds') ->
  (321 <= lm CS + MASK)%Z -> (0 < sp_chal p < 2 ^ 256)%Z ->
  length (sp_s5 p) = length U /\
  forall k, (k < length U)%nat ->
    (N.to_nat (nth k U 0%N) < length msgs)%nat /\
    (2 ^ 64 <= nth k (sp_s5 p) 0 / sp_chal p - at_ msgs (nth k U 0%N))%Z.
Proof. exact nisp5_hidden_responses_masked. Qed.
Check (C19_nisp5_hidden_responses_masked :
  forall CS sg ck pk bases msgs U ds p ds',
  Forall bits_top ds ->
  nisp5_gen CS sg ck pk bases msgs U ds = Ok (p, ds') ->
  (321 <= lm CS + MASK)%Z -> (0 < sp_chal p < 2 ^ 256)%Z ->
  length (sp_s5 p) = length U /\
  forall k, (k < length U)%nat ->
    (N.to_nat (nth k U 0%N) < length msgs)%nat /\
    (2 ^ 64 <= nth k (sp_s5 p) 0 / sp_chal p - at_ msgs (nth k U 0%N))%Z).
Print Assumptions C19_nisp5_hidden_responses_masked.

(* END TO END for the issuance proof: every response about a hidden attribute is masked, whatever the attribute (0 included) and the hidden positions *)
Theorem C19_nispm_hidden_responses_masked :
  forall CS msgs C pk bases U ds p ds',
  Forall bits_top ds ->
  nispm_gen CS msgs C pk bases U ds = Ok (p, ds') ->
  (321 <= lm CS + MASK)%Z ->
  let U' := (if Nat.eqb (length msgs) 1 then [0%N] else option_default [0%N] U) in
  exists sel, mapM (nthZ bases) U' = Ok sel /\
    let c := hash_int (str_cat (sel ++ [pk_b pk; c_value C; nm_t p])) in
    length (nm_s1 p) = length U' /\
    ((0 < c < 2 ^ 256)%Z ->
     forall k, (k < length U')%nat ->
       (2 ^ 64 <= nth k (nm_s1 p) 0 / c - nth (N.to_nat (nth k U' 0%N)) msgs 1)%Z).
Proof. exact nispm_hidden_responses_masked. Qed.
Check (C19_nispm_hidden_responses_masked :
  forall CS msgs C pk bases U ds p ds',
  Forall bits_top ds ->
  nispm_gen CS msgs C pk bases U ds = Ok (p, ds') ->
  (321 <= lm CS + MASK)%Z ->
  let U' := (if Nat.eqb (length msgs) 1 then [0%N] else option_default [0%N] U) in
  exists sel, mapM (nthZ bases) U' = Ok sel /\
    let c := hash_int (str_cat (sel ++ [pk_b pk; c_value C; nm_t p])) in
    length (nm_s1 p) = length U' /\
    ((0 < c < 2 ^ 256)%Z ->
     forall k, (k < length U')%nat ->
       (2 ^ 64 <= nth k (nm_s1 p) 0 / c - nth (N.to_nat (nth k U' 0%N)) msgs 1)%Z)).
Print Assumptions C19_nispm_hidden_responses_masked.

(* ... and for the trusted-party proof, with the hidden positions listed in ANY order *)
Theorem C19_nisp2_hidden_responses_masked :
  forall CS msgs c1 c2 pk bases ck U ds p ds',
  Forall bits_top ds ->
  nisp2_gen CS msgs c1 c2 pk bases ck U ds = Ok (p, ds') ->
  (321 <= lm CS + MASK)%Z -> (0 < n2_chal p < 2 ^ 256)%Z ->
  length (n2_d p) = length U /\
  forall k, (k < length U)%nat ->
    (2 ^ 64 <= nth k (n2_d p) 0 / n2_chal p - nth (N.to_nat (nth k U 0%N)) msgs 1)%Z.
Proof. exact nisp2_hidden_responses_masked. Qed.
Check (C19_nisp2_hidden_responses_masked :
  forall CS msgs c1 c2 pk bases ck U ds p ds',
  Forall bits_top ds ->
  nisp2_gen CS msgs c1 c2 pk bases ck U ds = Ok (p, ds') ->
  (321 <= lm CS + MASK)%Z -> (0 < n2_chal p < 2 ^ 256)%Z ->
  length (n2_d p) = length U /\
  forall k, (k < length U)%nat ->
    (2 ^ 64 <= nth k (n2_d p) 0 / n2_chal p - nth (N.to_nat (nth k U 0%N)) msgs 1)%Z).
Print Assumptions C19_nisp2_hidden_responses_masked.
