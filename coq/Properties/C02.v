(* C02 -- BBS signature binding.  Unconditional part: for an accepted (A, e), no other A' with the
   same e and no other e' with the same A is accepted on the same inputs. *)
From ZK Require Import Laws SignProofs.

Theorem C02_verify_rejects_other_A : forall (E : env) (LW : Laws E) pk A A' e ms g header api,
  core_verify E pk {| sig_A := A; sig_e := e |} ms g header api = Ok tt ->
  A' <> A -> fadd (SO E) (dl2 E LW pk) e <> f0 (SO E) ->
  core_verify E pk {| sig_A := A'; sig_e := e |} ms g header api = Err.
Proof. exact verify_rejects_other_A. Qed.
Check (C02_verify_rejects_other_A : forall (E : env) (LW : Laws E) pk A A' e ms g header api,
  core_verify E pk {| sig_A := A; sig_e := e |} ms g header api = Ok tt ->
  A' <> A -> fadd (SO E) (dl2 E LW pk) e <> f0 (SO E) ->
  core_verify E pk {| sig_A := A'; sig_e := e |} ms g header api = Err).
Print Assumptions C02_verify_rejects_other_A.

Theorem C02_verify_rejects_other_e : forall (E : env) (LW : Laws E) pk A e e' ms g header api,
  core_verify E pk {| sig_A := A; sig_e := e |} ms g header api = Ok tt ->
  e' <> e -> A <> g1_zero (PR E) ->
  core_verify E pk {| sig_A := A; sig_e := e' |} ms g header api = Err.
Proof. exact verify_rejects_other_e. Qed.
Check (C02_verify_rejects_other_e : forall (E : env) (LW : Laws E) pk A e e' ms g header api,
  core_verify E pk {| sig_A := A; sig_e := e |} ms g header api = Ok tt ->
  e' <> e -> A <> g1_zero (PR E) ->
  core_verify E pk {| sig_A := A; sig_e := e' |} ms g header api = Err).
Print Assumptions C02_verify_rejects_other_e.
