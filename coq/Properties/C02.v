(* C02 -- BBS signature binding.  Unconditional part: for an accepted (A, e), no other A' with the same e and no other e'
   with the same A is accepted on the same inputs (hence every edit confined to one field of the 80-byte encoding, in
   particular each of the 640 single-bit flips, is rejected: with codec canonicity, C09).
   Reduction part: acceptance of one signature for two different (messages, header) of the same length CONSTRUCTS a
   collision of the message hash, a collision of the domain hash, or a non-trivial discrete-log relation among Q1, H_i;
   for two message lists of DIFFERENT lengths (insert / delete / truncate / extend) a non-trivial relation among the longer
   statement's generators or a collision of the domain hash on two explicit inputs that carry different counts. *)
From ZK Require Import Laws SignProofs UpdateProofs Separation Binding.

Theorem C02_verify_rejects_other_A :
  forall (E : env) (LW : Laws E) pk A A' e ms g header api,
  core_verify E pk {| sig_A := A; sig_e := e |} ms g header api = Ok tt ->
  A' <> A -> fadd (SO E) (dl2 E LW pk) e <> f0 (SO E) ->
  core_verify E pk {| sig_A := A'; sig_e := e |} ms g header api = Err.
Proof. exact verify_rejects_other_A. Qed.
Check (C02_verify_rejects_other_A :
  forall (E : env) (LW : Laws E) pk A A' e ms g header api,
  core_verify E pk {| sig_A := A; sig_e := e |} ms g header api = Ok tt ->
  A' <> A -> fadd (SO E) (dl2 E LW pk) e <> f0 (SO E) ->
  core_verify E pk {| sig_A := A'; sig_e := e |} ms g header api = Err).
Print Assumptions C02_verify_rejects_other_A.

Theorem C02_verify_rejects_other_e :
  forall (E : env) (LW : Laws E) pk A e e' ms g header api,
  core_verify E pk {| sig_A := A; sig_e := e |} ms g header api = Ok tt ->
  e' <> e -> A <> g1_zero (PR E) ->
  core_verify E pk {| sig_A := A; sig_e := e' |} ms g header api = Err.
Proof. exact verify_rejects_other_e. Qed.
Check (C02_verify_rejects_other_e :
  forall (E : env) (LW : Laws E) pk A e e' ms g header api,
  core_verify E pk {| sig_A := A; sig_e := e |} ms g header api = Ok tt ->
  e' <> e -> A <> g1_zero (PR E) ->
  core_verify E pk {| sig_A := A; sig_e := e' |} ms g header api = Err).
Print Assumptions C02_verify_rejects_other_e.

(* message byte change / swap / replacement, header change (None = empty): same length *)
Theorem C02_verify_binding :
  forall (E : env) (LW : Laws E) s pk msgs msgs' header header',
  suite_ok E ->
  verify E s pk (Some msgs) header = Ok tt ->
  verify E s pk (Some msgs') header' = Ok tt ->
  length msgs = length msgs' ->
  (len (option_default [] header) <= usize_max)%N -> (len (option_default [] header') <= usize_max)%N ->
  (msgs <> msgs' \/ option_default [] header <> option_default [] header') ->
  (exists i, (i < length msgs)%nat /\ nth i msgs [] <> nth i msgs' [] /\ hm E (nth i msgs []) = hm E (nth i msgs' [])) \/
  (exists Q1 H dm dm',
     DLRelation E LW (Q1 :: H) (fsub (SO E) dm dm' :: zip_sub E (map (hm E) msgs) (map (hm E) msgs')) \/
     Collision (fun x => f_of_okm (SO E) (expand E x (c_api_id (cs E) ++ c_h2s (cs E)) 48))
               (dom_input E pk Q1 H header (c_api_id (cs E))) (dom_input E pk Q1 H header' (c_api_id (cs E)))).
Proof. exact verify_binding. Qed.
Check (C02_verify_binding :
  forall (E : env) (LW : Laws E) s pk msgs msgs' header header',
  suite_ok E ->
  verify E s pk (Some msgs) header = Ok tt ->
  verify E s pk (Some msgs') header' = Ok tt ->
  length msgs = length msgs' ->
  (len (option_default [] header) <= usize_max)%N -> (len (option_default [] header') <= usize_max)%N ->
  (msgs <> msgs' \/ option_default [] header <> option_default [] header') ->
  (exists i, (i < length msgs)%nat /\ nth i msgs [] <> nth i msgs' [] /\ hm E (nth i msgs []) = hm E (nth i msgs' [])) \/
  (exists Q1 H dm dm',
     DLRelation E LW (Q1 :: H) (fsub (SO E) dm dm' :: zip_sub E (map (hm E) msgs) (map (hm E) msgs')) \/
     Collision (fun x => f_of_okm (SO E) (expand E x (c_api_id (cs E) ++ c_h2s (cs E)) 48))
               (dom_input E pk Q1 H header (c_api_id (cs E))) (dom_input E pk Q1 H header' (c_api_id (cs E))))).
Print Assumptions C02_verify_binding.

Theorem C02_verify_binding_core :
  forall (E : env) (LW : Laws E) pk s ms ms' g header header' api,
  core_verify E pk s ms g header api = Ok tt ->
  core_verify E pk s ms' g header' api = Ok tt ->
  (len (option_default [] header) <= usize_max)%N -> (len (option_default [] header') <= usize_max)%N ->
  (ms <> ms' \/ option_default [] header <> option_default [] header') ->
  exists Q1 H, g_values E g = Q1 :: H /\
    (DLRelation E LW (Q1 :: H) ((fsub (SO E) (f_of_okm (SO E) (expand E (dom_input E pk Q1 H header api) (api ++ c_h2s (cs E)) 48))
                                   (f_of_okm (SO E) (expand E (dom_input E pk Q1 H header' api) (api ++ c_h2s (cs E)) 48)))
                            :: zip_sub E ms ms')
     \/ Collision (fun x => f_of_okm (SO E) (expand E x (api ++ c_h2s (cs E)) 48))
                  (dom_input E pk Q1 H header api) (dom_input E pk Q1 H header' api)).
Proof. exact verify_binding_core. Qed.
Check (C02_verify_binding_core :
  forall (E : env) (LW : Laws E) pk s ms ms' g header header' api,
  core_verify E pk s ms g header api = Ok tt ->
  core_verify E pk s ms' g header' api = Ok tt ->
  (len (option_default [] header) <= usize_max)%N -> (len (option_default [] header') <= usize_max)%N ->
  (ms <> ms' \/ option_default [] header <> option_default [] header') ->
  exists Q1 H, g_values E g = Q1 :: H /\
    (DLRelation E LW (Q1 :: H) ((fsub (SO E) (f_of_okm (SO E) (expand E (dom_input E pk Q1 H header api) (api ++ c_h2s (cs E)) 48))
                                   (f_of_okm (SO E) (expand E (dom_input E pk Q1 H header' api) (api ++ c_h2s (cs E)) 48)))
                            :: zip_sub E ms ms')
     \/ Collision (fun x => f_of_okm (SO E) (expand E x (api ++ c_h2s (cs E)) 48))
                  (dom_input E pk Q1 H header api) (dom_input E pk Q1 H header' api))).
Print Assumptions C02_verify_binding_core.

(* insertion / deletion / truncation / extension: the two statements have different lengths *)
Theorem C02_verify_binding_lengths :
  forall (E : env) (LW : Laws E) s pk msgs msgs' header header',
  suite_ok E ->
  verify E s pk (Some msgs) header = Ok tt ->
  verify E s pk (Some msgs') header' = Ok tt ->
  (length msgs < length msgs')%nat -> (len msgs' <= usize_max)%N ->
  exists Q1 H' dm dm',
    DLRelation E LW (Q1 :: H') (fsub (SO E) dm dm' :: zip_sub E (map (hm E) msgs ++ repeat (f0 (SO E)) (length msgs' - length msgs)) (map (hm E) msgs')) \/
    Collision (fun x => f_of_okm (SO E) (expand E x (c_api_id (cs E) ++ c_h2s (cs E)) 48))
              (dom_input E pk Q1 (firstn (length msgs) H') header (c_api_id (cs E))) (dom_input E pk Q1 H' header' (c_api_id (cs E))).
Proof. exact verify_binding_lengths. Qed.
Check (C02_verify_binding_lengths :
  forall (E : env) (LW : Laws E) s pk msgs msgs' header header',
  suite_ok E ->
  verify E s pk (Some msgs) header = Ok tt ->
  verify E s pk (Some msgs') header' = Ok tt ->
  (length msgs < length msgs')%nat -> (len msgs' <= usize_max)%N ->
  exists Q1 H' dm dm',
    DLRelation E LW (Q1 :: H') (fsub (SO E) dm dm' :: zip_sub E (map (hm E) msgs ++ repeat (f0 (SO E)) (length msgs' - length msgs)) (map (hm E) msgs')) \/
    Collision (fun x => f_of_okm (SO E) (expand E x (c_api_id (cs E) ++ c_h2s (cs E)) 48))
              (dom_input E pk Q1 (firstn (length msgs) H') header (c_api_id (cs E))) (dom_input E pk Q1 H' header' (c_api_id (cs E)))).
Print Assumptions C02_verify_binding_lengths.
