(* The "real" environment: scalars are N modulo the BLS12-381 group order, group elements are
   their canonical compressed encodings and every group / pairing / hash-to-curve operation is
   an argument (answered at run time by the primitive server, harness/prims).  Hashing to
   scalars (expand_message over SHA-256 / SHAKE-256) is Gallina. *)
From ZK Require Export Ops.
From ZK Require Import Sha256 Shake256 Expand.
Open Scope N_scope.

Definition r_order : N := 0x73eda753299d7d483339d80809a1d80553bda402fffe5bfeffffffff00000001.

Fixpoint pow_mod_pos (b : N) (e : positive) (m : N) : N :=
  match e with
  | xH => b mod m
  | xO e' => let x := pow_mod_pos b e' m in (x * x) mod m
  | xI e' => let x := pow_mod_pos b e' m in ((x * x) mod m * b) mod m
  end.
Definition pow_mod (b e m : N) : N := match e with N0 => 1 mod m | Npos p => pow_mod_pos b p m end.

Definition fr_add (a b : N) := (a + b) mod r_order.
Definition fr_mul (a b : N) := (a * b) mod r_order.
Definition fr_opp (a : N) := (r_order - a mod r_order) mod r_order.
Definition fr_sub (a b : N) := fr_add a (fr_opp b).
Definition fr_inv (a : N) := pow_mod a (r_order - 2) r_order.
Definition fr_div (a b : N) := fr_mul a (fr_inv b).
Definition fr_of_be (b : bytes) : option N :=
  if (Nat.eqb (length b) 32 && wf_bytesb b)%bool
  then let v := os2ip b in if v <? r_order then Some v else None else None.

Definition real_scalars : scalar_ops := {|
  F := N; f0 := 0; f1 := 1;
  fadd := fr_add; fmul := fr_mul; fsub := fr_sub; fopp := fr_opp; finv := fr_inv; fdiv := fr_div;
  feqb := N.eqb;
  f_of_okm := fun b => os2ip b mod r_order;
  f_to_be := be_bytes_nat 32;
  f_of_be := fr_of_be |}.

Definition g1_identity_enc : bytes := 192 :: repeat 0 47%nat.
Definition g2_identity_enc : bytes := 192 :: repeat 0 95%nat.

Section Real.
  (* primitive server calls; points travel as canonical compressed encodings *)
  Variable p_g1add : bytes -> bytes -> bytes.
  Variable p_g1neg : bytes -> bytes.
  Variable p_g1mul : bytes -> bytes -> bytes.      (* scalar (32 bytes BE), point *)
  Variable p_g1dec : bytes -> bool.                (* is a canonical encoding of a G1 point *)
  Variable p_h2c : bytes -> bytes -> bytes.        (* suite-specific hash_to_curve *)
  Variable p_g2mulgen : bytes -> bytes.
  Variable p_g2add : bytes -> bytes -> bytes.
  Variable p_g2dec : bytes -> bool.
  Variable p_g2unc : bytes -> bytes.               (* compressed -> uncompressed *)
  Variable p_g2cmp : bytes -> option bytes.        (* uncompressed -> compressed *)
  Variable p_pair : bytes -> bytes -> bytes -> bytes -> bool.

  Definition real_prims : prims real_scalars := {|
    G1 := bytes; g1_zero := g1_identity_enc;
    g1_add := p_g1add; g1_neg := p_g1neg;
    g1_mul := fun (s : F real_scalars) p => p_g1mul (be_bytes_nat 32 s) p;
    g1_eqb := bytes_eqb;
    g1_enc := fun p => p;
    g1_dec := fun b => if p_g1dec b then Some b else None;
    G2 := bytes; g2_zero := g2_identity_enc; g2_eqb := bytes_eqb;
    g2_mul_gen := fun (s : F real_scalars) => p_g2mulgen (be_bytes_nat 32 s);
    g2_add := p_g2add;
    g2_enc := fun p => p;
    g2_dec := fun b => if p_g2dec b then Some b else None;
    g2_enc_unc := p_g2unc;
    g2_dec_unc := p_g2cmp;
    pairing_eq := p_pair |}.

  Definition real_env (kind : N) (s : suite) : env := {|
    SO := real_scalars; PR := real_prims;
    expand := if kind =? 0 then expand_xmd else expand_xof;
    h2c := p_h2c; cs := s |}.
End Real.
