(* Executable model of zkryptium's BBS core (src/bbsplus/{generators,keys,signature,proof}.rs,
   src/utils/{util,message}.rs), transcribed statement by statement, parametric in [env].
   Randomised operations take their draws as an explicit list.  Definitions only. *)
From ZK Require Export Env.

Section Bbs.
  Context (E : env).
  Notation S := (SO E).
  Notation P := (PR E).
  Notation Fd := (F S).
  Notation G1t := (@G1 S P).
  Notation G2t := (@G2 S P).
  Notation c := (cs E).

  Local Infix "+f" := (fadd S) (at level 50, left associativity).
  Local Infix "*f" := (fmul S) (at level 40, left associativity).
  Local Infix "-f" := (fsub S) (at level 50, left associativity).
  Local Infix "+g" := (g1_add P) (at level 50, left associativity).
  Local Notation "p '*g' s" := (g1_mul P s p) (at level 40, left associativity).

  (* Scalar::invert() : CtOption *)
  Definition finv_opt (x : Fd) : option Fd := if feqb S x (f0 S) then None else Some (finv S x).

  (* ---------------------------------------------------------------- util.rs *)
  Definition hash_to_scalar (msg dst : bytes) : outcome Fd :=
    if Nat.ltb 255 (length dst) then Err
    else Ok (f_of_okm S (expand E msg dst 48)).

  Definition serialize_scalars (l : list Fd) : bytes := flat_map (f_to_be S) l.
  Definition serialize_g1 (l : list G1t) : bytes := flat_map (g1_enc P) l.

  (* ---------------------------------------------------------------- generators.rs *)
  Fixpoint gen_loop (n : nat) (i : N) (v seed_dst gen_dst : bytes) : list G1t :=
    match n with
    | O => []
    | Datatypes.S n' =>
      let v' := expand E (v ++ i2osp8 i) seed_dst 48 in
      h2c E v' gen_dst :: gen_loop n' (i + 1) v' seed_dst gen_dst
    end.

  Definition create_generators (count : nat) (api_id : bytes) : list G1t :=
    let seed_dst := api_id ++ c_generator_seed_dst c in
    let gen_dst := api_id ++ c_generator_dst c in
    let gen_seed := api_id ++ c_generator_seed c in
    let v := expand E gen_seed seed_dst 48 in
    gen_loop count 1 v seed_dst gen_dst.

  Record generators := { g_p1 : G1t; g_values : list G1t }.

  (* Generators::create: from_compressed_hex(P1).unwrap() *)
  Definition gens_create (count : nat) (api_id : bytes) : outcome generators :=
    let values := create_generators count api_id in
    let* p1 := unwrap (g1_dec P (c_p1 c)) in
    Ok {| g_p1 := p1; g_values := values |}.

  (* ---------------------------------------------------------------- message.rs *)
  Definition map_message_to_scalar (m api_id : bytes) : outcome Fd :=
    hash_to_scalar m (api_id ++ c_map_msg_scalar c).
  Definition messages_to_scalars (msgs : list bytes) (api_id : bytes) : outcome (list Fd) :=
    mapM (fun m => hash_to_scalar m (api_id ++ c_map_msg_scalar c)) msgs.

  (* ---------------------------------------------------------------- keys.rs *)
  Definition key_gen (ikm : bytes) (key_info key_dst : option bytes) : outcome Fd :=
    if len ikm <? c_ikm_len c then Err else
    let key_info := option_default [] key_info in
    if 65535 <? len key_info then Err else
    let key_dst := option_default (c_api_id c ++ c_keygen_dst c) key_dst in
    let* l2 := i2osp2 (len key_info) in
    hash_to_scalar (ikm ++ l2 ++ key_info) key_dst.

  Definition sk_to_pk (sk : Fd) : G2t := g2_mul_gen P sk.

  Definition sk_from_bytes (b : bytes) : outcome Fd :=
    if negb (Nat.eqb (length b) 32) then Err else try_opt (f_of_be S b).
  Definition sk_to_bytes (sk : Fd) : bytes := f_to_be S sk.

  (* BBSplusPublicKey::from_bytes : <[u8; 96]>::try_from(bytes), from_compressed, identity rejected *)
  Definition pk_from_bytes (b : bytes) : outcome G2t :=
    if negb (Nat.eqb (length b) 96) then Err else
    let* pk := try_opt (g2_dec P b) in
    if g2_eqb P pk (g2_zero P) then Err else Ok pk.
  Definition pk_to_bytes (pk : G2t) : bytes := g2_enc P pk.
  (* to_coordinates / from_coordinates ([u8;96] each) *)
  Definition pk_to_xy (pk : G2t) : bytes * bytes :=
    let u := g2_enc_unc P pk in (firstn 96 u, skipn 96 u).
  Definition pk_from_xy (x y : bytes) : outcome G2t :=
    if negb (Nat.eqb (length x) 96 && Nat.eqb (length y) 96) then Err else
    let* pk := try_opt (g2_dec_unc P (x ++ y)) in
    if g2_eqb P pk (g2_zero P) then Err else Ok pk.

  (* ---------------------------------------------------------------- calculate_domain *)
  Definition calculate_domain (pk : G2t) (Q1 : G1t) (H : list G1t) (header : option bytes)
             (api_id : bytes) : outcome Fd :=
    let header := option_default [] header in
    let dom_octs := i2osp8 (len H) ++ g1_enc P Q1 ++ serialize_g1 H ++ api_id in
    let dom_input := pk_to_bytes pk ++ dom_octs ++ i2osp8 (len header) ++ header in
    hash_to_scalar dom_input (api_id ++ c_h2s c).

  (* acc + sum_i g_i * m_i, zipping the two lists (the `for i in 0..L` loops) *)
  Fixpoint msm_acc (acc : G1t) (gs : list G1t) (ms : list Fd) : G1t :=
    match gs, ms with
    | g :: gs', m :: ms' => msm_acc (acc +g g *g m) gs' ms'
    | _, _ => acc
    end.

  (* ---------------------------------------------------------------- signature.rs *)
  Record signature := { sig_A : G1t; sig_e : Fd }.

  Definition sig_to_bytes (s : signature) : bytes := g1_enc P (sig_A s) ++ f_to_be S (sig_e s).
  (* from_bytes(&[u8; 80]); the length test is the caller's try_into *)
  Definition sig_from_bytes (b : bytes) : outcome signature :=
    if negb (Nat.eqb (length b) 80) then Err else
    let* A := try_opt (g1_dec P (sub b 0 48)) in
    let* e := try_opt (f_of_be S (sub b 48 80)) in
    if (g1_eqb P A (g1_zero P) || feqb S e (f0 S))%bool then Err else
    Ok {| sig_A := A; sig_e := e |}.

  Definition compute_B (g : generators) (Q1 : G1t) (H : list G1t) (domain : Fd) (ms : list Fd) : G1t :=
    msm_acc (g_p1 g +g Q1 *g domain) H ms.

  (* the deterministic part of core_sign: the exponent e and the point B *)
  Definition core_sign_eB (sk : Fd) (pk : G2t) (g : generators) (header : option bytes)
             (ms : list Fd) (api_id : bytes) : outcome (Fd * G1t) :=
    if negb (Nat.eqb (length (g_values g)) (length ms + 1)) then Err else
    let* Q1 := index (g_values g) 0 in
    let H := skipn 1 (g_values g) in
    let* domain := calculate_domain pk Q1 H header api_id in
    let* e := hash_to_scalar (serialize_scalars (sk :: ms ++ [domain])) (api_id ++ c_h2s c) in
    Ok (e, compute_B g Q1 H domain ms).

  Definition core_sign (sk : Fd) (pk : G2t) (g : generators) (header : option bytes)
             (ms : list Fd) (api_id : bytes) : outcome signature :=
    let* (e, B) := core_sign_eB sk pk g header ms api_id in
    let* inv := unwrap (finv_opt (sk +f e)) in
    let A := B *g inv in
    if g1_eqb P A (g1_zero P) then Err else Ok {| sig_A := A; sig_e := e |}.

  Definition core_verify (pk : G2t) (s : signature) (ms : list Fd) (g : generators)
             (header : option bytes) (api_id : bytes) : outcome unit :=
    if negb (Nat.eqb (length (g_values g)) (length ms + 1)) then Err else
    let* Q1 := index (g_values g) 0 in
    let H := skipn 1 (g_values g) in
    let* domain := calculate_domain pk Q1 H header api_id in
    let B := compute_B g Q1 H domain ms in
    let A2 := g2_add P pk (g2_mul_gen P (sig_e s)) in
    if pairing_eq P (sig_A s) A2 B (g2_mul_gen P (f1 S)) then Ok tt else Err.

  Definition sign_eB (msgs : option (list bytes)) (sk : Fd) (pk : G2t) (header : option bytes)
    : outcome (Fd * G1t) :=
    let msgs := option_default [] msgs in
    let* ms := messages_to_scalars msgs (c_api_id c) in
    let* g := gens_create (length msgs + 1) (c_api_id c) in
    core_sign_eB sk pk g header ms (c_api_id c).

  Definition sign (msgs : option (list bytes)) (sk : Fd) (pk : G2t) (header : option bytes)
    : outcome signature :=
    let msgs := option_default [] msgs in
    let* ms := messages_to_scalars msgs (c_api_id c) in
    let* g := gens_create (length msgs + 1) (c_api_id c) in
    core_sign sk pk g header ms (c_api_id c).

  Definition verify (s : signature) (pk : G2t) (msgs : option (list bytes)) (header : option bytes)
    : outcome unit :=
    let msgs := option_default [] msgs in
    let* ms := messages_to_scalars msgs (c_api_id c) in
    let* g := gens_create (length msgs + 1) (c_api_id c) in
    core_verify pk s ms g header (c_api_id c).

  (* update_signature(&self, sk, old, new, update_index, n); counts are caller-supplied usize *)
  Definition update_signature (s : signature) (sk : Fd) (old_m new_m : bytes) (update_index n : N)
    : outcome signature :=
    let* n1 := try_opt (checked_add n 1) in
    if n <=? update_index then Err else
    let* g := gens_create (N.to_nat n1) (c_api_id c) in
    let* ui1 := uadd update_index 1 in
    if len (g_values g) <=? ui1 then Err else
    let* old_s := map_message_to_scalar old_m (c_api_id c) in
    let* new_s := map_message_to_scalar new_m (c_api_id c) in
    let* H := slice_from (g_values g) 1 in
    let* H_i := try_opt (nth_error H (N.to_nat update_index)) in
    let sk_e := sk +f sig_e s in
    let B := sig_A s *g sk_e in
    let B := B +g (g1_neg P H_i) *g old_s in
    let B := B +g H_i *g new_s in
    let* inv := try_opt (finv_opt sk_e) in
    let A := B *g inv in
    if g1_eqb P A (g1_zero P) then Err else Ok {| sig_A := A; sig_e := sig_e s |}.

  (* ---------------------------------------------------------------- proof.rs *)
  Record pok := {
    p_Abar : G1t; p_Bbar : G1t; p_D : G1t;
    p_e_cap : Fd; p_r1_cap : Fd; p_r3_cap : Fd;
    p_m_cap : list Fd; p_chal : Fd }.

  Definition pok_to_bytes (p : pok) : bytes :=
    g1_enc P (p_Abar p) ++ g1_enc P (p_Bbar p) ++ g1_enc P (p_D p) ++
    f_to_be S (p_e_cap p) ++ f_to_be S (p_r1_cap p) ++ f_to_be S (p_r3_cap p) ++
    serialize_scalars (p_m_cap p) ++ f_to_be S (p_chal p).

  (* Vec::pop: last element and the rest *)
  Definition pop_last {A} (l : list A) : option (list A * A) :=
    match rev l with [] => None | x :: r => Some (rev r, x) end.

  (* Scalar::from_bytes_be(chunk) on a chunk of exactly 32 bytes *)
  Definition scalars_of_chunks (b : bytes) : outcome (list Fd) :=
    mapM (fun ch => try_opt (f_of_be S ch)) (chunks_exact 32 b).

  Definition pok_from_bytes (b : bytes) : outcome pok :=
    if (Nat.ltb (length b) 272 || negb (Nat.eqb (Nat.modulo (length b - 272) 32) 0))%bool then Err else
    let* s0 := slice b 0 48 in let* Abar := try_opt (g1_dec P s0) in
    let* s1 := slice b 48 96 in let* Bbar := try_opt (g1_dec P s1) in
    let* s2 := slice b 96 144 in let* D := try_opt (g1_dec P s2) in
    let* s3 := slice b 144 176 in let* e_cap := try_opt (f_of_be S s3) in
    let* s4 := slice b 176 208 in let* r1_cap := try_opt (f_of_be S s4) in
    let* s5 := slice b 208 240 in let* r3_cap := try_opt (f_of_be S s5) in
    let* rest := slice_from b 240 in
    let* ms := scalars_of_chunks rest in
    let* (m_cap, chal) := try_opt (pop_last ms) in
    if (g1_eqb P Abar (g1_zero P) || g1_eqb P Bbar (g1_zero P) || g1_eqb P D (g1_zero P))%bool then Err else
    Ok {| p_Abar := Abar; p_Bbar := Bbar; p_D := D; p_e_cap := e_cap; p_r1_cap := r1_cap;
          p_r3_cap := r3_cap; p_m_cap := m_cap; p_chal := chal |}.

  Record init_res := {
    i_Abar : G1t; i_Bbar : G1t; i_D : G1t; i_T1 : G1t; i_T2 : G1t; i_domain : Fd }.

  (* messages[i] for i in indexes: panics when out of range *)
  Definition get_at {A} (l : list A) (idx : list N) : outcome (list A) :=
    mapM (fun i => index l (N.to_nat i)) idx.

  Definition proof_init (pk : G2t) (s : signature) (g : generators) (rho : list Fd)
             (header : option bytes) (ms : list Fd) (undisclosed : list N) (api_id : bytes)
    : outcome init_res :=
    let L := length ms in
    let U := length undisclosed in
    if negb (Nat.eqb (length rho) (5 + U)) then Err else
    if negb (Nat.eqb (length (g_values g)) (L + 1)) then Err else
    let* Q1 := index (g_values g) 0 in
    let H := skipn 1 (g_values g) in
    let* domain := calculate_domain pk Q1 H header api_id in
    let B := compute_B g Q1 H domain ms in
    let* r1 := index rho 0 in
    let* r2 := index rho 1 in
    let* e_t := index rho 2 in
    let* r1_t := index rho 3 in
    let* r3_t := index rho 4 in
    let* m_t := slice rho 5 (5 + U) in
    let D := B *g r2 in
    let Abar := sig_A s *g (r1 *f r2) in
    let Bbar := D *g r1 +g g1_neg P (Abar *g sig_e s) in
    let T1 := Abar *g e_t +g D *g r1_t in
    let* Hu := get_at H undisclosed in
    let T2 := msm_acc (D *g r3_t) Hu m_t in
    Ok {| i_Abar := Abar; i_Bbar := Bbar; i_D := D; i_T1 := T1; i_T2 := T2; i_domain := domain |}.

  Definition challenge_octets (ir : init_res) (di : list N) (dm : list Fd) (ph : option bytes) : bytes :=
    let ph := option_default [] ph in
    i2osp8 (len di) ++
    flat_map (fun p => i2osp8 (fst p) ++ f_to_be S (snd p)) (combine di dm) ++
    g1_enc P (i_Abar ir) ++ g1_enc P (i_Bbar ir) ++ g1_enc P (i_D ir) ++
    g1_enc P (i_T1 ir) ++ g1_enc P (i_T2 ir) ++ f_to_be S (i_domain ir) ++
    i2osp8 (len ph) ++ ph.

  Definition proof_challenge_calculate (ir : init_res) (di : list N) (dm : list Fd)
             (ph : option bytes) (api_id : bytes) : outcome Fd :=
    if negb (Nat.eqb (length dm) (length di)) then Err else
    hash_to_scalar (challenge_octets ir di dm ph) (api_id ++ c_h2s c).

  Definition proof_finalize (ir : init_res) (ch e : Fd) (rho : list Fd) (um : list Fd) : outcome pok :=
    let U := length um in
    let* r1 := index rho 0 in
    let* r2 := index rho 1 in
    let* e_t := index rho 2 in
    let* r1_t := index rho 3 in
    let* r3_t := index rho 4 in
    let* m_t := slice rho 5 (5 + U) in
    let* r3 := try_opt (finv_opt r2) in
    let e_cap := e_t +f e *f ch in
    let r1_cap := r1_t -f r1 *f ch in
    let r3_cap := r3_t -f r3 *f ch in
    let m_cap := map (fun p => fst p +f snd p *f ch) (combine m_t um) in
    Ok {| p_Abar := i_Abar ir; p_Bbar := i_Bbar ir; p_D := i_D ir; p_e_cap := e_cap;
          p_r1_cap := r1_cap; p_r3_cap := r3_cap; p_m_cap := m_cap; p_chal := ch |}.

  Definition core_proof_gen (pk : G2t) (s : signature) (g : generators) (ms : list Fd)
             (idx : list N) (header ph : option bytes) (api_id : bytes) (rho : list Fd)
    : outcome pok :=
    let L := length ms in
    let* glen1 := usub (len (g_values g)) 1 in
    if glen1 <? N.of_nat L then Err else
    let di := sort_dedup idx in
    let R := length di in
    if Nat.ltb L R then Err else
    let U := (L - R)%nat in
    if existsb (fun i => N.of_nat L <=? i) di then Err else
    let undisclosed := remaining L di in
    let* dm := get_at ms di in
    let* um := get_at ms undisclosed in
    if negb (Nat.eqb (length rho) (5 + U)) then NoDraw else
    let* ir := proof_init pk s g rho header ms undisclosed api_id in
    let* ch := proof_challenge_calculate ir di dm ph api_id in
    proof_finalize ir ch (sig_e s) rho um.

  Definition proof_verify_init (pk : G2t) (p : pok) (g : generators) (header : option bytes)
             (dm : list Fd) (di : list N) (api_id : bytes) : outcome init_res :=
    let U := length (p_m_cap p) in
    let R := length di in
    let L := (U + R)%nat in
    if (g1_eqb P (p_Abar p) (g1_zero P) || g1_eqb P (p_Bbar p) (g1_zero P) ||
        g1_eqb P (p_D p) (g1_zero P))%bool then Err else
    if existsb (fun i => N.of_nat L <=? i) di then Err else
    if negb (Nat.eqb (length dm) R) then Err else
    if negb (Nat.eqb (length (g_values g)) (L + 1)) then Err else
    let* Q1 := index (g_values g) 0 in
    let H := skipn 1 (g_values g) in
    let undisclosed := remaining L di in
    let* domain := calculate_domain pk Q1 H header api_id in
    let T1 := p_Bbar p *g p_chal p +g p_Abar p *g p_e_cap p +g p_D p *g p_r1_cap p in
    let* Hd := get_at H di in
    let Bv := msm_acc (g_p1 g +g Q1 *g domain) Hd dm in
    (* for j in 0..U { H_points[undisclosed_indexes[j]] * m_cap[j] } *)
    let* ui := slice undisclosed 0 U in
    let* Hu := get_at H ui in
    let T2 := msm_acc (Bv *g p_chal p +g p_D p *g p_r3_cap p) Hu (p_m_cap p) in
    Ok {| i_Abar := p_Abar p; i_Bbar := p_Bbar p; i_D := p_D p; i_T1 := T1; i_T2 := T2;
          i_domain := domain |}.

  Definition core_proof_verify (pk : G2t) (p : pok) (g : generators) (header ph : option bytes)
             (dm : list Fd) (di : list N) (api_id : bytes) : outcome unit :=
    let* ir := proof_verify_init pk p g header dm di api_id in
    let* ch := proof_challenge_calculate ir di dm ph api_id in
    if negb (feqb S (p_chal p) ch) then Err else
    if pairing_eq P (p_Abar p) pk (p_Bbar p) (g2_mul_gen P (f1 S)) then Ok tt else Err.

  Definition proof_gen (pk : G2t) (sigb : bytes) (header ph : option bytes)
             (msgs : option (list bytes)) (idx : option (list N)) (rho : list Fd) : outcome pok :=
    let* s := sig_from_bytes sigb in
    let msgs := option_default [] msgs in
    let idx := option_default [] idx in
    let* ms := messages_to_scalars msgs (c_api_id c) in
    let* g := gens_create (length msgs + 1) (c_api_id c) in
    core_proof_gen pk s g ms idx header ph (c_api_id c) rho.

  Definition proof_verify (p : pok) (pk : G2t) (dmsgs : option (list bytes)) (idx : option (list N))
             (header ph : option bytes) : outcome unit :=
    let dmsgs := option_default [] dmsgs in
    let di := sort_dedup (option_default [] idx) in
    let U := length (p_m_cap p) in
    let R := length di in
    let* dm := messages_to_scalars dmsgs (c_api_id c) in
    let* g := gens_create (U + R + 1) (c_api_id c) in
    core_proof_verify pk p g header ph dm di (c_api_id c).

End Bbs.
