(* Entry points of the CL03 model as the harness drives them: flat integer encodings of the proof structures
   (declaration order of the Rust structs = document order of their JSON; a list is preceded by its length, the
   optional trusted-commitment proof by 0 / 1), and one op per harness operation. *)
From ZK Require Export Cl.
Open Scope Z_scope.

Inductive tokv := TI (z : Z) | TL (l : list Z) | TB (b : bytes).

(* ---------------------------------------------------------------- writers *)
Definition w_list {A} (f : A -> list Z) (l : list A) : list Z := Z.of_nat (length l) :: flat_map f l.
Definition w_com (c : commitment) : list Z := [c_value c; c_rand c].
Definition w_nisps (p : nisps) : list Z := [ns_t p; ns_s1 p; ns_s2 p].
Definition w_pov (p : pov) : list Z := w_nisps (pv_value p) ++ w_com (pv_com p).
Definition w_nispm (p : nispm) : list Z := [nm_t p] ++ w_list (fun x => [x]) (nm_s1 p) ++ [nm_s2 p].
Definition w_nisp2 (p : nisp2) : list Z := [n2_chal p] ++ w_list (fun x => [x]) (n2_d p) ++ [n2_d1 p; n2_d2 p].
Definition w_ss (p : proof_ss) : list Z := [ss_chal p; ss_d p; ss_d1 p; ss_d2 p].
Definition w_sq (p : proof_sq) : list Z := [sq_E p; sq_F p] ++ w_ss (sq_ss p).
Definition w_li (p : proof_li) : list Z := [li_C p; li_D1 p; li_D2 p].
Definition w_wt (p : proof_wt) : list Z :=
  [wt_Ea1 p; wt_Ea2 p; wt_Eb1 p; wt_Eb2 p] ++ w_sq (wt_sqa p) ++ w_sq (wt_sqb p) ++ w_li (wt_lia p) ++ w_li (wt_lib p).
Definition w_boudot (p : boudot) : list Z := w_wt (bd_wt p) ++ [bd_Eprime p; bd_E p].
Definition w_spok (p : spok) : list Z :=
  [sp_chal p; sp_s1 p; sp_s2 p; sp_s3 p; sp_s4 p] ++ w_list (fun x => [x]) (sp_s5 p) ++
  [sp_s6 p; sp_s7 p; sp_s8 p; sp_s9 p] ++ w_com (sp_Cx p) ++ w_com (sp_Cv p) ++ w_com (sp_Cw p) ++ w_com (sp_Ce p).
Definition w_clpok (p : clpok) : list Z :=
  w_spok (pk_spok p) ++ w_boudot (pk_rpe p) ++ w_list w_pov (pk_pmi p) ++ w_list w_boudot (pk_rpmi p).
Definition w_zkpok (p : zkpok) : list Z :=
  (match zk_trusted p with None => [0] | Some t => 1 :: w_nisp2 t end) ++
  w_nispm (zk_msgs p) ++ w_list w_pov (zk_pmi p) ++ w_list w_boudot (zk_rpmi p) ++ w_pov (zk_pr p) ++ w_boudot (zk_rpr p).

(* ---------------------------------------------------------------- readers *)
Definition R (A : Type) : Type := list Z -> option (A * list Z).
Definition rret {A} (a : A) : R A := fun l => Some (a, l).
Definition rbind {A B} (x : R A) (f : A -> R B) : R B :=
  fun l => match x l with Some (a, l') => f a l' | None => None end.
Notation "'let^' x ':=' e 'in' k" := (rbind e (fun x => k))
  (at level 200, x pattern, e at level 100, k at level 200, right associativity).
Definition rz : R Z := fun l => match l with x :: r => Some (x, r) | [] => None end.
Fixpoint rrep {A} (n : nat) (f : R A) : R (list A) :=
  match n with O => rret [] | S n' => let^ a := f in let^ t := rrep n' f in rret (a :: t) end.
Definition rlist {A} (f : R A) : R (list A) :=
  let^ n := rz in if (n <? 0) || (100000 <? n) then (fun _ => None) else rrep (Z.to_nat n) f.
Definition r_com : R commitment := let^ v := rz in let^ r := rz in rret {| c_value := v; c_rand := r |}.
Definition r_nisps : R nisps := let^ a := rz in let^ b := rz in let^ c := rz in rret {| ns_t := a; ns_s1 := b; ns_s2 := c |}.
Definition r_pov : R pov := let^ a := r_nisps in let^ c := r_com in rret {| pv_value := a; pv_com := c |}.
Definition r_nispm : R nispm := let^ a := rz in let^ b := rlist rz in let^ c := rz in rret {| nm_t := a; nm_s1 := b; nm_s2 := c |}.
Definition r_nisp2 : R nisp2 :=
  let^ a := rz in let^ b := rlist rz in let^ c := rz in let^ d := rz in rret {| n2_chal := a; n2_d := b; n2_d1 := c; n2_d2 := d |}.
Definition r_ss : R proof_ss :=
  let^ a := rz in let^ b := rz in let^ c := rz in let^ d := rz in rret {| ss_chal := a; ss_d := b; ss_d1 := c; ss_d2 := d |}.
Definition r_sq : R proof_sq := let^ a := rz in let^ b := rz in let^ c := r_ss in rret {| sq_E := a; sq_F := b; sq_ss := c |}.
Definition r_li : R proof_li := let^ a := rz in let^ b := rz in let^ c := rz in rret {| li_C := a; li_D1 := b; li_D2 := c |}.
Definition r_wt : R proof_wt :=
  let^ a := rz in let^ b := rz in let^ c := rz in let^ d := rz in
  let^ e := r_sq in let^ f := r_sq in let^ g := r_li in let^ h := r_li in
  rret {| wt_Ea1 := a; wt_Ea2 := b; wt_Eb1 := c; wt_Eb2 := d; wt_sqa := e; wt_sqb := f; wt_lia := g; wt_lib := h |}.
Definition r_boudot : R boudot := let^ a := r_wt in let^ b := rz in let^ c := rz in rret {| bd_wt := a; bd_Eprime := b; bd_E := c |}.
Definition r_spok : R spok :=
  let^ ch := rz in let^ a1 := rz in let^ a2 := rz in let^ a3 := rz in let^ a4 := rz in let^ a5 := rlist rz in
  let^ a6 := rz in let^ a7 := rz in let^ a8 := rz in let^ a9 := rz in
  let^ cx := r_com in let^ cv := r_com in let^ cw := r_com in let^ ce := r_com in
  rret {| sp_chal := ch; sp_s1 := a1; sp_s2 := a2; sp_s3 := a3; sp_s4 := a4; sp_s5 := a5; sp_s6 := a6; sp_s7 := a7;
          sp_s8 := a8; sp_s9 := a9; sp_Cx := cx; sp_Cv := cv; sp_Cw := cw; sp_Ce := ce |}.
Definition r_clpok : R clpok :=
  let^ a := r_spok in let^ b := r_boudot in let^ c := rlist r_pov in let^ d := rlist r_boudot in
  rret {| pk_spok := a; pk_rpe := b; pk_pmi := c; pk_rpmi := d |}.
Definition r_zkpok : R zkpok :=
  let^ fl := rz in
  let^ tr := (if fl =? 0 then rret None else let^ t := r_nisp2 in rret (Some t)) in
  let^ a := r_nispm in let^ b := rlist r_pov in let^ c := rlist r_boudot in let^ d := r_pov in let^ e := r_boudot in
  rret {| zk_trusted := tr; zk_msgs := a; zk_pmi := b; zk_rpmi := c; zk_pr := d; zk_rpr := e |}.
(* a document must be consumed entirely *)
Definition parse {A} (r : R A) (l : list Z) : outcome A :=
  match r l with Some (a, []) => Ok a | _ => Err end.

(* ---------------------------------------------------------------- argument helpers *)
Definition mk_pk (l : list Z) : outcome pubkey :=
  match l with [n; b; c] => Ok {| pk_N := n; pk_b := b; pk_c := c |} | _ => Err end.
Definition mk_sk (l : list Z) : outcome seckey :=
  match l with [p; q] => Ok {| sk_p := p; sk_q := q |} | _ => Err end.
Definition mk_com (l : list Z) : outcome commitment :=
  match l with [v; r] => Ok {| c_value := v; c_rand := r |} | _ => Err end.
Definition mk_ocom (l : option (list Z)) : outcome (option commitment) :=
  match l with None => Ok None | Some x => let* c := mk_com x in Ok (Some c) end.
Definition mk_cpk (l : list Z) : outcome cpubkey :=
  match l with n :: h :: g => Ok {| ck_N := n; ck_h := h; ck_g := g |} | _ => Err end.
Definition mk_ocpk (l : option (list Z)) : outcome (option cpubkey) :=
  match l with None => Ok None | Some x => let* c := mk_cpk x in Ok (Some c) end.
Definition mk_sig (l : list Z) : outcome clsig :=
  match l with [e; s; v] => Ok {| s_e := e; s_s := s; s_v := v |} | _ => Err end.
Definition mk_bsig (l : list Z) : outcome blindsig :=
  match l with [e; r; v] => Ok {| bs_e := e; bs_rprime := r; bs_v := v |} | _ => Err end.

(* run a randomised operation on the logged draws: all draws must be consumed *)
Definition runM {A} (m : M A) (ds : list draw) : outcome A :=
  match m ds with Ok (a, []) => Ok a | Ok (_, _ :: _) => NoDraw | Err => Err | Panic => Panic | NoDraw => NoDraw end.
Definition b2z (b : bool) : Z := if b then 1 else 0.

Section Ops.
  Context (CS : clsuite) (BP : bparams).

  Definition o_params : outcome (list tokv) :=
    Ok [TI (SECPARAM CS); TI (ln CS); TI (lm CS); TI (lin CS); TI (le CS); TI (ls CS)].
  Definition o_map (m : bytes) : outcome (list tokv) := Ok [TI (hash_int m)].
  Definition o_keygen ds : outcome (list tokv) :=
    let* (pk, sk) := runM (keygen CS) ds in
    Ok [TI (pk_N pk); TI (pk_b pk); TI (pk_c pk); TI (sk_p sk); TI (sk_q sk)].
  Definition o_bases (N : Z) (n : nat) ds : outcome (list tokv) :=
    let* b := runM (bases_generate N n) ds in Ok [TL b].
  Definition o_cpk (N : option Z) (n : option nat) ds : outcome (list tokv) :=
    let* c := runM (cpk_generate CS N n) ds in Ok [TL (ck_N c :: ck_h c :: ck_g c)].
  Definition o_sign pkl skl bases msgs ds : outcome (list tokv) :=
    let* pk := mk_pk pkl in let* sk := mk_sk skl in
    let* s := runM (sign_multiattr CS pk sk bases msgs) ds in Ok [TI (s_e s); TI (s_s s); TI (s_v s)].
  Definition o_sign1 pkl skl bases msg ds : outcome (list tokv) :=
    let* pk := mk_pk pkl in let* sk := mk_sk skl in
    let* s := runM (sign CS pk sk bases msg) ds in Ok [TI (s_e s); TI (s_s s); TI (s_v s)].
  Definition o_verify pkl bases msgs sgl : outcome (list tokv) :=
    let* pk := mk_pk pkl in let* sg := mk_sig sgl in
    let* b := verify_multiattr CS sg pk bases msgs in Ok [TI (b2z b)].
  Definition o_verify1 pkl bases msg sgl : outcome (list tokv) :=
    let* pk := mk_pk pkl in let* sg := mk_sig sgl in
    let* b := verify CS sg pk bases msg in Ok [TI (b2z b)].
  Definition o_disclose pkl bases msgs (U : list N) : outcome (list tokv) :=
    let* pk := mk_pk pkl in
    let* (ms, bs) := disclose_selectively msgs bases pk U in Ok [TL ms; TL bs].
  Definition o_sigcodec sgl : outcome (list tokv) :=
    let* sg := mk_sig sgl in
    let* b := sig_to_bytes CS sg in
    let* s2 := sig_from_bytes CS b in
    Ok [TB b; TI (s_e s2); TI (s_s s2); TI (s_v s2); TI 1].
  Definition o_sigfrombytes (b : bytes) : outcome (list tokv) :=
    let* s2 := sig_from_bytes CS b in Ok [TI (s_e s2); TI (s_s s2); TI (s_v s2)].
  Definition o_pkcodec pkl : outcome (list tokv) :=
    let* pk := mk_pk pkl in
    let* b := pk_to_bytes CS pk in
    let* p2 := pk_from_bytes CS b in
    Ok [TB b; TI (pk_N p2); TI (pk_b p2); TI (pk_c p2); TI 1].
  Definition o_pkfrombytes (b : bytes) : outcome (list tokv) :=
    let* p2 := pk_from_bytes CS b in Ok [TI (pk_N p2); TI (pk_b p2); TI (pk_c p2)].
  Definition o_skcodec skl : outcome (list tokv) :=
    let* sk := mk_sk skl in
    let* b := sk_to_bytes CS sk in
    let* s2 := sk_from_bytes CS b in
    Ok [TB b; TI (sk_p s2); TI (sk_q s2); TI 1].
  Definition o_commit pkl bases msgs (U : option (list N)) ds : outcome (list tokv) :=
    let* pk := mk_pk pkl in
    let* c := runM (commit_with_pk CS msgs pk bases U) ds in Ok [TI (c_value c); TI (c_rand c)].
  Definition o_commitcpk ckl msgs (U : option (list N)) ds : outcome (list tokv) :=
    let* ck := mk_cpk ckl in
    let* c := runM (commit_with_cpk CS msgs ck U) ds in Ok [TI (c_value c); TI (c_rand c)].
  Definition o_extend cl rmsgs pkl bases (ridx : option (list N)) : outcome (list tokv) :=
    let* c := mk_com cl in let* pk := mk_pk pkl in
    let* c' := extend_commitment_with_pk c rmsgs pk bases ridx in Ok [TI (c_value c'); TI (c_rand c')].
  Definition o_zkgen msgs cl ctl pkl bases ckl (U : list N) ds : outcome (list tokv) :=
    let* C := mk_com cl in let* Ct := mk_ocom ctl in let* pk := mk_pk pkl in let* ck := mk_ocpk ckl in
    let* p := runM (zkpok_gen CS BP msgs C Ct pk bases ck U) ds in Ok [TL (w_zkpok p)].
  Definition o_zkver (doc : list Z) cl ctl pkl bases ckl (U : list N) : outcome (list tokv) :=
    let* p := parse r_zkpok doc in
    let* C := mk_com cl in let* Ct := mk_ocom ctl in let* pk := mk_pk pkl in let* ck := mk_ocpk ckl in
    let* b := zkpok_verify CS BP p C Ct pk bases ck U in Ok [TI (b2z b)].
  Definition o_blindsign pkl skl bases (doc : list Z) (revealed : option (list Z)) cl ctl ckl (U : list N)
             (ridx : option (list N)) ds : outcome (list tokv) :=
    let* zk := parse r_zkpok doc in
    let* pk := mk_pk pkl in let* sk := mk_sk skl in
    let* C := mk_com cl in let* Ct := mk_ocom ctl in let* ck := mk_ocpk ckl in
    let* b := runM (blind_sign CS BP pk sk bases zk revealed C Ct ck U ridx) ds in
    Ok [TI (bs_e b); TI (bs_rprime b); TI (bs_v b)].
  Definition o_unblind bl cl : outcome (list tokv) :=
    let* b := mk_bsig bl in let* C := mk_com cl in
    let s := unblind_sign b C in Ok [TI (s_e s); TI (s_s s); TI (s_v s)].
  Definition o_update bl (revealed : option (list Z)) cl skl pkl bases (ridx : option (list N)) : outcome (list tokv) :=
    let* b := mk_bsig bl in let* C := mk_com cl in let* sk := mk_sk skl in let* pk := mk_pk pkl in
    let* u := update_signature b revealed C sk pk bases ridx in Ok [TI (bs_e u); TI (bs_rprime u); TI (bs_v u)].
  Definition o_spokgen sgl ckl pkl bases msgs (U : list N) ds : outcome (list tokv) :=
    let* sg := mk_sig sgl in let* ck := mk_cpk ckl in let* pk := mk_pk pkl in
    let* p := runM (spok_gen CS BP sg ck pk bases msgs U) ds in Ok [TL (w_clpok p)].
  Definition o_spokver (doc : list Z) ckl pkl bases rmsgs (U : list N) (n : nat) : outcome (list tokv) :=
    let* p := parse r_clpok doc in
    let* ck := mk_cpk ckl in let* pk := mk_pk pkl in
    let* b := spok_verify CS BP p ck pk bases rmsgs U n in Ok [TI (b2z b)].
  Definition o_rpprove value cl g h n rmin rmax ds : outcome (list tokv) :=
    let* c := mk_com cl in
    let* p := runM (boudot_prove BP value c g h n rmin rmax) ds in Ok [TL (w_boudot p)].
  Definition o_rpverify (doc : list Z) g h n rmin rmax : outcome (list tokv) :=
    let* p := parse r_boudot doc in
    let* b := boudot_verify BP p g h n rmin rmax in Ok [TI (b2z b)].
End Ops.

Definition o_randbits n ds : outcome (list tokv) := let* v := runM (random_bits n) ds in Ok [TI v].
Definition o_randint a b ds : outcome (list tokv) := let* v := runM (rand_int a b) ds in Ok [TI v].
Definition o_randnumber n ds : outcome (list tokv) := let* v := runM (random_number n) ds in Ok [TI v].
Definition o_randprime n ds : outcome (list tokv) := let* v := runM (random_prime n) ds in Ok [TI v].
Definition o_randqr n ds : outcome (list tokv) := let* v := runM (random_qr n) ds in Ok [TI v].

(* arithmetic primitives of the model, one by one (compared with rug/GMP and re-evaluated inside Coq) *)
Definition o_prim (k : N) (a : list Z) : outcome (list tokv) :=
  match k, a with
  | 0%N, [b; e; n] => let* r := pow_mod b e n in Ok [TI r]
  | 1%N, [x; m] => let* r := try_opt (invert x m) in Ok [TI r]
  | 2%N, [x; y; m] => let* r := divm x y m in Ok [TI r]
  | 3%N, [x; n] => if n =? 0 then Panic else Ok [TI (Z.rem x n)]
  | 4%N, [x] => Ok [TI (hash_int (to_string x))]
  | 5%N, [x] => Ok [TI (sig_bits x)]
  | 6%N, [x] => let* r := zsqrt x in Ok [TI r]
  | 7%N, [x; y] => Ok [TI (Z.gcd x y)]
  | 8%N, [x] => Ok [TI (b2z (probably_prime x))]
  | 9%N, [x; y] => if y =? 0 then Panic else Ok [TI (x / y)]
  | _, _ => Err
  end.
