(* Byte-level entry points: exactly the composite operations the Rust harness (implrun) runs
   against zkryptium, so that model and implementation can be compared token for token. *)
From ZK Require Export Blind.

Section Ops.
  Context (E : env).
  Notation S := (SO E).
  Notation P := (PR E).
  Notation c := (cs E).

  Definition op_keygen (ikm : bytes) (ki kd : option bytes) : outcome (list bytes) :=
    let* sk := key_gen E ikm ki kd in
    Ok [sk_to_bytes E sk; pk_to_bytes E (sk_to_pk E sk)].

  (* KeyPair::random(): generate_random_secret(64) is the logged draw *)
  Definition op_keyrandom (secret : bytes) : outcome (list bytes) :=
    let* sk := key_gen E secret None None in
    Ok [sk_to_bytes E sk; pk_to_bytes E (sk_to_pk E sk)].

  Definition op_sk2pk (skb : bytes) : outcome (list bytes) :=
    let* sk := sk_from_bytes E skb in Ok [pk_to_bytes E (sk_to_pk E sk)].

  Definition op_gens (count : nat) (api_id : option bytes) : outcome (list bytes) :=
    let* g := gens_create E count (option_default [] api_id) in
    Ok [g1_enc P (g_p1 E g); serialize_g1 E (g_values E g)].

  Definition op_h2s (msg dst : bytes) : outcome (list bytes) :=
    let* s := hash_to_scalar E msg dst in Ok [f_to_be S s].

  Definition op_m2s (msg api_id : bytes) : outcome (list bytes) :=
    let* s := map_message_to_scalar E msg api_id in Ok [f_to_be S s].

  Definition op_ms2s (msgs : list bytes) (api_id : bytes) : outcome (list bytes) :=
    let* l := messages_to_scalars E msgs api_id in Ok [serialize_scalars E l].

  Definition op_sign (skb pkb : bytes) (header : option bytes) (msgs : option (list bytes))
    : outcome (list bytes) :=
    let* sk := sk_from_bytes E skb in
    let* pk := pk_from_bytes E pkb in
    let* s := sign E msgs sk pk header in
    Ok [sig_to_bytes E s].

  Definition op_verify (pkb sigb : bytes) (header : option bytes) (msgs : option (list bytes))
    : outcome (list bytes) :=
    let* pk := pk_from_bytes E pkb in
    let* s := sig_from_bytes E sigb in
    let* _ := verify E s pk msgs header in
    Ok [].

  Definition op_update (skb sigb old_m new_m : bytes) (ui n : N) : outcome (list bytes) :=
    let* sk := sk_from_bytes E skb in
    let* s := sig_from_bytes E sigb in
    let* s' := update_signature E s sk old_m new_m ui n in
    Ok [sig_to_bytes E s'].

  Definition op_proofgen (pkb sigb : bytes) (header ph : option bytes) (msgs : option (list bytes))
             (idx : option (list N)) (rho : list (F S)) : outcome (list bytes) :=
    let* pk := pk_from_bytes E pkb in
    let* p := proof_gen E pk sigb header ph msgs idx rho in
    Ok [pok_to_bytes E p].

  Definition op_proofverify (pkb pb : bytes) (dmsgs : option (list bytes)) (idx : option (list N))
             (header ph : option bytes) : outcome (list bytes) :=
    let* pk := pk_from_bytes E pkb in
    let* p := pok_from_bytes E pb in
    let* _ := proof_verify E p pk dmsgs idx header ph in
    Ok [].

  (* the same with a public key taken as a raw G2 point (identity not excluded): the verifier's own checks decide *)
  Definition op_proofverify_raw (pkb pb : bytes) (dmsgs : option (list bytes)) (idx : option (list N))
             (header ph : option bytes) : outcome (list bytes) :=
    if negb (Nat.eqb (length pkb) 96) then Err else
    let* pk := try_opt (g2_dec P pkb) in
    let* p := pok_from_bytes E pb in
    let* _ := proof_verify E p pk dmsgs idx header ph in
    Ok [].

  Definition op_commit (cmsgs : option (list bytes)) (rho : list (F S)) : outcome (list bytes) :=
    let* (x, b) := commit E cmsgs rho in
    Ok [commitment_to_bytes E x; f_to_be S b].

  Definition op_dvc (cwp : option bytes) (count : nat) : outcome (list bytes) :=
    let* g := gens_create E count (blind_prefix ++ c_api_id_blind c) in
    let* C := deserialize_and_validate_commit E cwp g (Some (c_api_id_blind c)) in
    Ok [g1_enc P C].

  Definition op_blindsign (skb pkb : bytes) (cwp header : option bytes) (msgs : option (list bytes))
    : outcome (list bytes) :=
    let* sk := sk_from_bytes E skb in
    let* pk := pk_from_bytes E pkb in
    let* s := blind_sign E sk pk cwp header msgs in
    Ok [sig_to_bytes E s].

  Definition opt_blind (b : option bytes) : outcome (option (F S)) :=
    match b with
    | None => Ok None
    | Some x => let* s := blind_from_bytes E x in Ok (Some s)
    end.

  Definition op_blindverify (pkb sigb : bytes) (header : option bytes)
             (msgs cmsgs : option (list bytes)) (spb : option bytes) : outcome (list bytes) :=
    let* pk := pk_from_bytes E pkb in
    let* s := sig_from_bytes E sigb in
    let* bf := opt_blind spb in
    let* _ := verify_blind_sign E s pk header msgs cmsgs bf in
    Ok [].

  (* blind::prepare_parameters, a public function of its own: message scalars and the combined generator set *)
  Definition op_prep (msgs cmsgs : option (list bytes)) (gen_n blind_gen_n : nat) (spb api_id : option bytes)
    : outcome (list bytes) :=
    let* bf := opt_blind spb in
    let* (ms, g) := prepare_parameters E msgs cmsgs gen_n blind_gen_n bf api_id in
    Ok [serialize_scalars E ms; g1_enc P (g_p1 E g); serialize_g1 E (g_values E g)].

  Definition op_blindproofgen (pkb sigb : bytes) (header ph : option bytes)
             (msgs cmsgs : option (list bytes)) (idx cidx : option (list N)) (spb : option bytes)
             (rho : list (F S)) : outcome (list bytes) :=
    let* pk := pk_from_bytes E pkb in
    let* bf := opt_blind spb in
    let* p := blind_proof_gen E pk sigb header ph msgs cmsgs idx cidx bf rho in
    Ok [pok_to_bytes E p].

  Definition op_blindproofverify (pkb pb : bytes) (header ph : option bytes) (L : option N)
             (dmsgs dcmsgs : option (list bytes)) (idx cidx : option (list N))
    : outcome (list bytes) :=
    let* pk := pk_from_bytes E pkb in
    let* p := pok_from_bytes E pb in
    let* _ := blind_proof_verify E p pk header ph L dmsgs dcmsgs idx cidx in
    Ok [].

  (* decoders: decode then re-encode *)
  Definition op_dec_pk (b : bytes) := let* x := pk_from_bytes E b in Ok [pk_to_bytes E x].
  Definition op_dec_sk (b : bytes) := let* x := sk_from_bytes E b in Ok [sk_to_bytes E x].
  Definition op_dec_sig (b : bytes) := let* x := sig_from_bytes E b in Ok [sig_to_bytes E x].
  Definition op_dec_proof (b : bytes) := let* x := pok_from_bytes E b in Ok [pok_to_bytes E x].
  Definition op_dec_zkpok (b : bytes) := let* x := zkpok_from_bytes E b in Ok [zkpok_to_bytes E x].
  Definition op_dec_commit (b : bytes) :=
    let* x := commitment_from_bytes E b in Ok [commitment_to_bytes E x].
  Definition op_dec_blind (b : bytes) := let* x := blind_from_bytes E b in Ok [f_to_be S x].
  Definition op_dec_pkxy (b : bytes) :=
    if negb (Nat.eqb (length b) 192) then Err else
    let* x := pk_from_xy E (firstn 96 b) (skipn 96 b) in Ok [pk_to_bytes E x].
  Definition op_dec_pk2xy (b : bytes) :=
    let* x := pk_from_bytes E b in let '(x, y) := pk_to_xy E x in Ok [x ++ y].
End Ops.
