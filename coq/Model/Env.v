(* Environment of the BBS model: scalar field, group / pairing primitives, hash functions and
   ciphersuite constants.  Everything in Model/Bbs*.v is parametric in an [env]. *)
From ZK Require Export Base.

Record scalar_ops := {
  F : Type;
  f0 : F; f1 : F;
  fadd : F -> F -> F; fmul : F -> F -> F; fsub : F -> F -> F;
  fopp : F -> F; finv : F -> F; fdiv : F -> F -> F;
  feqb : F -> F -> bool;
  f_of_okm : bytes -> F;            (* Scalar::from_okm : OS2IP(48 bytes) mod r *)
  f_to_be : F -> bytes;             (* 32 bytes, big endian *)
  f_of_be : bytes -> option F       (* strict: length 32 and value < r *)
}.

Record prims (S : scalar_ops) := {
  G1 : Type;
  g1_zero : G1;
  g1_add : G1 -> G1 -> G1;
  g1_neg : G1 -> G1;
  g1_mul : F S -> G1 -> G1;
  g1_eqb : G1 -> G1 -> bool;
  g1_enc : G1 -> bytes;             (* 48 bytes compressed *)
  g1_dec : bytes -> option G1;      (* G1Affine::from_compressed: curve + subgroup checked *)
  G2 : Type;
  g2_zero : G2;
  g2_eqb : G2 -> G2 -> bool;
  g2_mul_gen : F S -> G2;           (* BP2 * s *)
  g2_add : G2 -> G2 -> G2;
  g2_enc : G2 -> bytes;             (* 96 bytes compressed *)
  g2_dec : bytes -> option G2;
  g2_enc_unc : G2 -> bytes;         (* 192 bytes uncompressed *)
  g2_dec_unc : bytes -> option G2;
  pairing_eq : G1 -> G2 -> G1 -> G2 -> bool   (* e(a,x) * e(b,-y) == 1 *)
}.
Arguments G1 {S}. Arguments g1_zero {S}. Arguments g1_add {S}. Arguments g1_neg {S}.
Arguments g1_mul {S}. Arguments g1_eqb {S}. Arguments g1_enc {S}. Arguments g1_dec {S}.
Arguments G2 {S}. Arguments g2_zero {S}. Arguments g2_eqb {S}. Arguments g2_mul_gen {S}. Arguments g2_add {S}. Arguments g2_enc {S}.
Arguments g2_dec {S}. Arguments g2_enc_unc {S}. Arguments g2_dec_unc {S}. Arguments pairing_eq {S}.

(* Ciphersuite constants (regenerated from src/bbsplus/ciphersuites.rs into Generated/Consts.v) *)
Record suite := {
  c_id : bytes;
  c_api_id : bytes;
  c_api_id_blind : bytes;
  c_keygen_dst : bytes;
  c_generator_seed : bytes;
  c_generator_seed_dst : bytes;
  c_generator_dst : bytes;
  c_map_msg_scalar : bytes;
  c_h2s : bytes;
  c_p1 : bytes;                      (* hex-decoded P1 *)
  c_expand_len : N;
  c_ikm_len : N
}.

Record env := {
  SO : scalar_ops;
  PR : prims SO;
  expand : bytes -> bytes -> nat -> bytes;     (* expand_message(msg, dst, len) *)
  h2c : bytes -> bytes -> G1 PR;               (* hash_to_curve_g1(msg, dst) *)
  cs : suite
}.
