(* Executable model of zkryptium's CL03 half (src/cl03/*.rs, src/utils/random.rs, divm in src/utils/util.rs)
   over Coq's Z.  rug::Integer = Z; `%` is the truncated remainder (Z.rem); pow_mod with a negative
   exponent inverts the base (and the `.unwrap()` panics when there is no inverse).  Randomised operations
   consume an explicit list of draws: each draw carries the kind and parameters of the request that produced it
   in the implementation (logged by the hook), and the model refuses (NoDraw) a draw whose request differs from
   its own -- so the order, kind and bit length of every draw are part of the correspondence.
   Definitions only. *)
From ZK Require Export Base.
From ZK Require Import Sha256.
From Coq Require Import ZArith Znumtheory.
Open Scope Z_scope.

(* ---------------------------------------------------------------------------------- numbers *)
Fixpoint pow_pos_mod (b : Z) (e : positive) (n : Z) : Z :=
  match e with
  | xH => b mod n
  | xO e' => let x := pow_pos_mod b e' n in (x * x) mod n
  | xI e' => let x := pow_pos_mod b e' n in ((x * x) mod n * b) mod n
  end.
Definition pow_nonneg_mod (b e n : Z) : Z :=
  match e with Zpos p => pow_pos_mod b p n | _ => 1 mod n end.

(* extended Euclid with explicit fuel: egcd a b = (g, x) with a*x = g (mod b) *)
Fixpoint egcd_fuel (fuel : nat) (r0 r1 s0 s1 : Z) : Z * Z :=
  match fuel with
  | O => (r0, s0)
  | S f => if r1 =? 0 then (r0, s0) else
           let q := r0 / r1 in egcd_fuel f r1 (r0 - q * r1) s1 (s0 - q * s1)
  end.
Definition invert (a m : Z) : option Z :=
  if m <=? 0 then None else
  let a' := a mod m in
  let '(g, x) := egcd_fuel (2 * Z.to_nat (Z.log2 m) + 4) a' m 1 0 in
  if g =? 1 then Some (x mod m) else if (m =? 1) then Some 0 else None.

(* Integer::pow_mod(exp, modulus).unwrap() *)
Definition pow_mod (b e n : Z) : outcome Z :=
  if n <=? 0 then Panic else
  if 0 <=? e then Ok (pow_nonneg_mod b e n)
  else match invert b n with
       | Some bi => Ok (pow_nonneg_mod bi (- e) n)
       | None => Panic
       end.

Definition two (k : Z) : Z := 2 ^ k.
Definition sig_bits (x : Z) : Z := if x =? 0 then 0 else Z.log2 (Z.abs x) + 1.
Definition zsqrt (x : Z) : outcome Z := if x <? 0 then Panic else Ok (Z.sqrt x).

(* decimal string of an integer (Integer::to_string), as bytes *)
Fixpoint dec_digits (fuel : nat) (x : Z) (acc : bytes) : bytes :=
  match fuel with
  | O => acc
  | S f => let d := Z.to_N (x mod 10) in
           let acc' := (48 + d)%N :: acc in
           if x <? 10 then acc' else dec_digits f (x / 10) acc'
  end.
Definition to_string (x : Z) : bytes :=
  let a := Z.abs x in
  let ds := dec_digits (S (Z.to_nat (Z.log2 a + 1))) a [] in
  if x <? 0 then 45%N :: ds else ds.

(* Integer::from_digits(sha256(str), MsfBe) *)
Definition hash_int (s : bytes) : Z := Z.of_N (os2ip (sha256 s)).

(* cl03_utils::divm(a, b, m): a / b modulo m, with the gcd fallback and its panic *)
Definition divm (a b m : Z) : outcome Z :=
  if m =? 0 then Panic else
  match invert b (Z.abs m) with
  | Some r => Ok (Z.rem (r * a) m)
  | None =>
    let g := Z.gcd (Z.gcd a b) m in
    if g =? 0 then Panic else
    let num := a / g in let den := b / g in let module := m / g in
    if module =? 0 then Panic else
    match invert den (Z.abs module) with
    | Some r => Ok (Z.rem (r * num) module)
    | None => Panic
    end
  end.

(* Miller-Rabin with fixed bases (stand-in for GMP's is_probably_prime: they differ only on composites that fool
   twelve fixed bases but not BPSW, which random candidates never are in practice; a test, not a proof) *)
Fixpoint mr_split (fuel : nat) (d s : Z) : Z * Z :=
  match fuel with
  | O => (d, s)
  | S f => if Z.even d then mr_split f (d / 2) (s + 1) else (d, s)
  end.
Fixpoint mr_loop (fuel : nat) (x n : Z) : bool :=
  match fuel with
  | O => false
  | S f => let x' := (x * x) mod n in
           if x' =? n - 1 then true else if x' =? 1 then false else mr_loop f x' n
  end.
Definition mr_witness_ok (n d s a : Z) : bool :=
  let a := a mod n in
  if a =? 0 then true else
  let x := pow_nonneg_mod a d n in
  if (x =? 1) || (x =? n - 1) then true else mr_loop (Z.to_nat (s - 1)) x n.
Definition small_primes : list Z := [2; 3; 5; 7; 11; 13; 17; 19; 23; 29; 31; 37].
Definition probably_prime (n : Z) : bool :=
  if n <? 2 then false else
  if existsb (Z.eqb n) small_primes then true else
  if existsb (fun p => n mod p =? 0) small_primes then false else
  let '(d, s) := mr_split (Z.to_nat (Z.log2 n + 1)) (n - 1) 0 in
  forallb (mr_witness_ok n d s) small_primes.

(* ---------------------------------------------------------------------------------- draws *)
Record draw := { d_kind : N; d_params : list Z; d_val : Z }.   (* kind: 0 bits, 1 number, 2 prime, 3 int *)
Definition M (A : Type) : Type := list draw -> outcome (A * list draw).
Definition mret {A} (a : A) : M A := fun ds => Ok (a, ds).
Definition mbind {A B} (x : M A) (f : A -> M B) : M B :=
  fun ds => match x ds with Ok (a, ds') => f a ds' | Err => Err | Panic => Panic | NoDraw => NoDraw end.
Notation "'let+' x ':=' e 'in' k" := (mbind e (fun x => k))
  (at level 200, x pattern, e at level 100, k at level 200, right associativity).
Definition mpanic {A} : M A := fun _ => Panic.
Definition lift {A} (x : outcome A) : M A :=
  fun ds => match x with Ok a => Ok (a, ds) | Err => Err | Panic => Panic | NoDraw => NoDraw end.
Fixpoint zlist_eqb (a b : list Z) : bool :=
  match a, b with
  | [], [] => true
  | x :: a', y :: b' => (x =? y) && zlist_eqb a' b'
  | _, _ => false
  end.
Definition draw_req (kind : N) (params : list Z) : M Z :=
  fun ds => match ds with
            | [] => NoDraw
            | d :: r => if (N.eqb (d_kind d) kind && zlist_eqb (d_params d) params)%bool
                        then Ok (d_val d, r) else NoDraw
            end.
(* random_bits(0) underflows n - 1; random_below panics on a non-positive bound *)
Definition random_bits (n : Z) : M Z := if n <=? 0 then mpanic else draw_req 0 [n].
Definition random_number (n : Z) : M Z := if n <=? 0 then mpanic else draw_req 1 [n].
(* random_prime(n) = random_bits(n).next_prime(): both the inner draw and the result are logged *)
Definition random_prime (n : Z) : M Z := let+ _ := random_bits n in draw_req 2 [n].
Definition rand_int (a b : Z) : M Z := if b <? a then mpanic else draw_req 3 [a; b].

(* rejection loops: every iteration consumes at least one draw, so the number of draws left is enough fuel *)
Fixpoint loop_fuel {A} (fuel : nat) (body : M (option A)) : M A :=
  match fuel with
  | O => fun _ => NoDraw
  | S f => let+ r := body in match r with Some a => mret a | None => loop_fuel f body end
  end.
Definition loop_until {A} (body : M (option A)) : M A := fun ds => loop_fuel (S (length ds)) body ds.

Fixpoint mmapM {A B} (f : A -> M B) (l : list A) : M (list B) :=
  match l with
  | [] => mret []
  | a :: r => let+ b := f a in let+ bs := mmapM f r in mret (b :: bs)
  end.

(* random_qr(n): r^2 mod n until > 1 and coprime to n  (secure_pow_mod needs an odd modulus) *)
Definition random_qr (n : Z) : M Z :=
  loop_until (let+ r := random_number n in
              if (n <=? 0) || Z.even n then mpanic else
              let qr := (r * r) mod n in
              mret (if (1 <? qr) && (Z.gcd qr n =? 1) then Some qr else None)).

(* ---------------------------------------------------------------------------------- suites *)
Record clsuite := { SECPARAM : Z; QSEC : Z; ln : Z; lm : Z; lin : Z; le : Z; ls : Z }.
(* the harness's own small suite (harness/implrun/src/cl.rs, struct Toy) *)
Definition toy_suite : clsuite :=
  {| SECPARAM := 192; QSEC := 19; ln := 384; lm := 256; lin := 256; le := 258; ls := 896 |}.
(* a second harness suite whose ln is not 2 * SECPARAM (struct Toy2) *)
Definition toy2_suite : clsuite :=
  {| SECPARAM := 192; QSEC := 19; ln := 448; lm := 256; lin := 256; le := 258; ls := 960 |}.
(* a third harness suite whose le is a multiple of 8 (struct Toy3) *)
Definition toy3_suite : clsuite :=
  {| SECPARAM := 192; QSEC := 19; ln := 384; lm := 256; lin := 256; le := 264; ls := 896 |}.
(* a very small harness suite (struct Micro): whole flows are re-evaluated inside Coq on the logged draws *)
Definition micro_suite : clsuite :=
  {| SECPARAM := 16; QSEC := 4; ln := 40; lm := 8; lin := 8; le := 10; ls := 56 |}.
(* constants of Boudot2000RangeProof (src/cl03/range_proof.rs): the proof uses its own copies *)
Record bparams := { b_t : Z; b_l : Z; b_s : Z; b_s1 : Z; b_s2 : Z }.
(* blinding margin added by the sigma protocols (src/cl03/sigma_protocols.rs, const MASK) *)
Definition MASK : Z := 336.

(* ---------------------------------------------------------------------------------- data *)
Record pubkey := { pk_N : Z; pk_b : Z; pk_c : Z }.
Record seckey := { sk_p : Z; sk_q : Z }.
Record cpubkey := { ck_N : Z; ck_h : Z; ck_g : list Z }.
Record commitment := { c_value : Z; c_rand : Z }.
Record clsig := { s_e : Z; s_s : Z; s_v : Z }.
Record blindsig := { bs_e : Z; bs_rprime : Z; bs_v : Z }.

Definition nthZ (l : list Z) (i : N) : outcome Z := unwrap (nth_error l (N.to_nat i)).
Definition seqN (n : nat) : list N := map N.of_nat (seq 0 n).

Section Suite.
  Context (CS : clsuite) (BP : bparams).

  (* ---------------------------------------------------------------- keys.rs / bases.rs *)
  Definition safe_prime_loop (reps_accept : Z -> bool) : M Z :=
    loop_until (let+ pprime := random_prime (SECPARAM CS) in
                let p := 2 * pprime + 1 in
                mret (if reps_accept p then Some p else None)).

  Definition gen_modulus : M (Z * Z) :=
    let+ p := safe_prime_loop probably_prime in
    let+ q := safe_prime_loop (fun q => negb (p =? q) && probably_prime q) in
    mret (p, q).

  Definition keygen : M (pubkey * seckey) :=
    let+ (p, q) := gen_modulus in
    let N := p * q in
    let+ b := random_qr N in
    let+ c := random_qr N in
    mret ({| pk_N := N; pk_b := b; pk_c := c |}, {| sk_p := p; sk_q := q |}).

  Definition bases_generate (N : Z) (n : nat) : M (list Z) :=
    mmapM (fun _ => random_qr N) (seq 0 n).

  Definition cpk_gbase (h N : Z) : M Z :=
    loop_until (let+ f := random_number N in
                let+ g := lift (pow_mod h f N) in
                mret (if (1 <? g) && (Z.gcd g N =? 1) then Some g else None)).

  Definition cpk_generate (N : option Z) (n_attr : option nat) : M cpubkey :=
    let n_attr := option_default 1%nat n_attr in
    let+ N := match N with Some N => mret N | None => let+ (p, q) := gen_modulus in mret (p * q) end in
    let+ h := random_qr N in
    let+ gs := mmapM (fun _ => cpk_gbase h N) (seq 0 n_attr) in
    mret {| ck_N := N; ck_h := h; ck_g := gs |}.

  (* fixed-width big-endian codecs (widths are ln BYTES for N, b, c; SECPARAM/8+1 for p, q) *)
  Definition be_fixed (w : nat) (x : Z) : outcome bytes :=
    if (x <? 0) || (256 ^ Z.of_nat w <=? x) then Panic else Ok (be_bytes_nat w (Z.to_N x)).
  Definition of_be (b : bytes) : Z := Z.of_N (os2ip b).

  Definition pk_to_bytes (pk : pubkey) : outcome bytes :=
    let w := Z.to_nat (ln CS) in
    let* a := be_fixed w (pk_N pk) in let* b := be_fixed w (pk_b pk) in let* c := be_fixed w (pk_c pk) in
    Ok (a ++ b ++ c).
  Definition pk_from_bytes (bs : bytes) : outcome pubkey :=
    let w := Z.to_nat (ln CS) in
    let l := length bs in
    if (Nat.ltb l (3 * w) || negb (Nat.eqb (Nat.modulo (l - 3 * w) w) 0))%bool then Panic else
    let* a := slice bs 0 w in let* b := slice bs w (2 * w) in let* c := slice bs (2 * w) (3 * w) in
    Ok {| pk_N := of_be a; pk_b := of_be b; pk_c := of_be c |}.
  Definition sk_to_bytes (sk : seckey) : outcome bytes :=
    let w := (Z.to_nat (SECPARAM CS) / 8 + 1)%nat in
    let* a := be_fixed w (sk_p sk) in let* b := be_fixed w (sk_q sk) in Ok (a ++ b).
  Definition sk_from_bytes (bs : bytes) : outcome seckey :=
    let w := (Z.to_nat (SECPARAM CS) / 8 + 1)%nat in
    let* a := slice bs 0 w in let* b := slice bs w (2 * w) in
    Ok {| sk_p := of_be a; sk_q := of_be b |}.

  (* ---------------------------------------------------------------- signature.rs *)
  Definition phi (sk : seckey) : Z := (sk_p sk - 1) * (sk_q sk - 1).

  Definition e_loop (ph : Z) : M Z :=
    loop_until (let+ e := random_prime (le CS) in
                mret (if (two (le CS - 1) <? e) && (e <? two (le CS)) && (Z.gcd e ph =? 1) then Some e else None)).

  (* prod_i bases[i] ^ exps[i] mod n, un-reduced product, indices 0..len exps (panics when bases is shorter) *)
  Fixpoint prod_pows (bases exps : list Z) (n : Z) (acc : Z) {struct exps} : outcome Z :=
    match exps with
    | [] => Ok acc
    | m :: ms => match bases with
                 | [] => Panic
                 | a :: bs => let* x := pow_mod a m n in prod_pows bs ms n (acc * x)
                 end
    end.

  Definition msg_in_range (m : Z) : bool := (0 <=? m) && (sig_bits m <=? lm CS).

  Definition sign_multiattr (pk : pubkey) (sk : seckey) (bases msgs : list Z) : M clsig :=
    let ph := phi sk in
    let+ e := e_loop ph in
    let+ s := random_bits (ls CS) in
    let+ e2n := lift (unwrap (invert e ph)) in
    let+ v0 := lift (prod_pows bases msgs (pk_N pk) 1) in
    let+ bs := lift (pow_mod (pk_b pk) s (pk_N pk)) in
    let+ v := lift (pow_mod (v0 * bs * pk_c pk) e2n (pk_N pk)) in
    mret {| s_e := e; s_s := s; s_v := v |}.

  Definition sign (pk : pubkey) (sk : seckey) (bases : list Z) (msg : Z) : M clsig :=
    let ph := phi sk in
    let+ e := e_loop ph in
    let+ s := random_bits (ls CS) in
    let+ e2n := lift (unwrap (invert e ph)) in
    let+ a0 := lift (nthZ bases 0) in
    let+ am := lift (pow_mod a0 msg (pk_N pk)) in
    let+ bs := lift (pow_mod (pk_b pk) s (pk_N pk)) in
    let+ v := lift (pow_mod (am * bs * pk_c pk) e2n (pk_N pk)) in
    mret {| s_e := e; s_s := s; s_v := v |}.

  Definition verify (sg : clsig) (pk : pubkey) (bases : list Z) (msg : Z) : outcome bool :=
    if negb (msg_in_range msg) then Ok false else
    if (s_v sg <=? 0) || (pk_N pk <=? s_v sg) then Ok false else
    let* lhs := pow_mod (s_v sg) (s_e sg) (pk_N pk) in
    let* a0 := nthZ bases 0 in
    let* am := pow_mod a0 msg (pk_N pk) in
    let* bs := pow_mod (pk_b pk) (s_s sg) (pk_N pk) in
    let rhs := Z.rem (am * bs * pk_c pk) (pk_N pk) in
    if (s_e sg <=? two (le CS - 1)) || (two (le CS) <=? s_e sg) then Ok false else
    Ok (lhs =? rhs).

  Definition verify_multiattr (sg : clsig) (pk : pubkey) (bases msgs : list Z) : outcome bool :=
    if Nat.ltb (length bases) (length msgs) then Panic else
    if negb (forallb msg_in_range msgs) then Ok false else
    if (s_v sg <=? 0) || (pk_N pk <=? s_v sg) then Ok false else
    let* lhs := pow_mod (s_v sg) (s_e sg) (pk_N pk) in
    let* r0 := prod_pows bases msgs (pk_N pk) 1 in
    let* bs := pow_mod (pk_b pk) (s_s sg) (pk_N pk) in
    let rhs := Z.rem (r0 * bs * pk_c pk) (pk_N pk) in
    (* e has exactly le bits: the upper bound was missing here, present in verify (fix F18) *)
    if (s_e sg <=? two (le CS - 1)) || (two (le CS) <=? s_e sg) then Ok false else
    Ok (lhs =? rhs).

  (* list update: l[i] := v (panics when out of range) *)
  Fixpoint set_nth (l : list Z) (i : nat) (v : Z) : outcome (list Z) :=
    match l, i with
    | [], _ => Panic
    | _ :: r, O => Ok (v :: r)
    | x :: r, S i' => let* r' := set_nth r i' v in Ok (x :: r')
    end.

  Definition disclose_selectively (msgs bases : list Z) (pk : pubkey) (U : list N)
    : outcome (list Z * list Z) :=
    if negb (Nat.eqb (length msgs) (length bases)) then Panic else
    fold_left (fun acc i =>
                 let* (ms, bs) := acc in
                 let* ai := nthZ bases i in
                 let* mi := nthZ msgs i in
                 let* x := pow_mod ai mi (pk_N pk) in
                 let* bs' := set_nth bs (N.to_nat i) x in
                 let* ms' := set_nth ms (N.to_nat i) 1 in
                 Ok (ms', bs')) U (Ok (msgs, bases)).

  (* to_bytes: e in le BYTES, s in ls BYTES, v minimal big-endian *)
  Definition min_be (x : Z) : bytes :=
    if x =? 0 then [] else be_bytes_nat (Z.to_nat ((Z.log2 (Z.abs x)) / 8 + 1)) (Z.to_N (Z.abs x)).
  Definition sig_to_bytes (sg : clsig) : outcome bytes :=
    let* a := be_fixed (Z.to_nat (le CS)) (Z.abs (s_e sg)) in
    let* b := be_fixed (Z.to_nat (ls CS)) (Z.abs (s_s sg)) in
    Ok (a ++ b ++ min_be (s_v sg)).
  Definition sig_from_bytes (bs : bytes) : outcome clsig :=
    let we := Z.to_nat (le CS) in let ws := Z.to_nat (ls CS) in
    let* a := slice bs 0 we in let* b := slice bs we (we + ws) in let* c := slice_from bs (we + ws) in
    Ok {| s_e := of_be a; s_s := of_be b; s_v := of_be c |}.

  (* ---------------------------------------------------------------- commitment.rs *)
  Definition all_idx (n : nat) (U : option (list N)) : list N := match U with Some u => u | None => seqN n end.

  (* prod over an index list of bases[i] ^ msgs[i] *)
  Fixpoint prod_idx (bases msgs : list Z) (n : Z) (U : list N) (acc : Z) : outcome Z :=
    match U with
    | [] => Ok acc
    | i :: r => let* ai := nthZ bases i in let* mi := nthZ msgs i in
                let* x := pow_mod ai mi n in prod_idx bases msgs n r (acc * x)
    end.

  Definition commit_with_pk (msgs : list Z) (pk : pubkey) (bases : list Z) (U : option (list N)) : M commitment :=
    let+ r := random_bits (ln CS) in
    let+ cx := lift (prod_idx bases msgs (pk_N pk) (all_idx (length msgs) U) 1) in
    let+ br := lift (pow_mod (pk_b pk) r (pk_N pk)) in
    mret {| c_value := Z.rem (cx * br) (pk_N pk); c_rand := r |}.

  Definition commit_with_cpk (msgs : list Z) (ck : cpubkey) (U : option (list N)) : M commitment :=
    let+ r := random_bits (ln CS) in
    let+ cx := lift (prod_idx (ck_g ck) msgs (ck_N ck) (all_idx (length msgs) U) 1) in
    let+ hr := lift (pow_mod (ck_h ck) r (ck_N ck)) in
    mret {| c_value := Z.rem (cx * hr) (ck_N ck); c_rand := r |}.

  Definition commit_v (v : Z) (ck : cpubkey) : M commitment :=
    let+ w := random_bits (ln CS) in
    let+ g0 := lift (nthZ (ck_g ck) 0) in
    let+ gw := lift (pow_mod g0 w (ck_N ck)) in
    mret {| c_value := Z.rem (v * gw) (ck_N ck); c_rand := w |}.

  (* extend_commitment_with_pk: value := value * prod a_i^(revealed[k]) mod N (reduced at every step) *)
  Fixpoint extend_loop (v : Z) (bases : list Z) (n : Z) (ridx : list N) (rmsgs : list Z) : outcome Z :=
    match ridx with
    | [] => Ok v
    | i :: r => let* ai := nthZ bases i in
                match rmsgs with
                | [] => Panic
                | m :: ms => let* x := pow_mod ai m n in extend_loop (Z.rem (v * x) n) bases n r ms
                end
    end.
  Definition extend_commitment_with_pk (c : commitment) (rmsgs : list Z) (pk : pubkey) (bases : list Z)
             (ridx : option (list N)) : outcome commitment :=
    let ridx := all_idx (length rmsgs) ridx in
    if negb (Nat.eqb (length ridx) (length rmsgs)) then Panic else
    let* v := extend_loop (c_value c) bases (pk_N pk) ridx rmsgs in
    Ok {| c_value := v; c_rand := c_rand c |}.

  (* ---------------------------------------------------------------- sigma_protocols.rs *)
  Record nisp2 := { n2_chal : Z; n2_d : list Z; n2_d1 : Z; n2_d2 : Z }.
  Record nisps := { ns_t : Z; ns_s1 : Z; ns_s2 : Z }.
  Record nispm := { nm_t : Z; nm_s1 : list Z; nm_s2 : Z }.
  Record pov := { pv_value : nisps; pv_com : commitment }.

  Definition str_cat (l : list Z) : bytes := flat_map to_string l.

  (* s_k = r_k + c * x_k over an index list *)
  Fixpoint resp_idx (rs msgs : list Z) (ch : Z) (U : list N) {struct U} : outcome (list Z) :=
    match U, rs with
    | [], _ => Ok []
    | i :: u, r :: rs' => let* mi := nthZ msgs i in let* t := resp_idx rs' msgs ch u in Ok ((r + ch * mi) :: t)
    | _ :: _, [] => Panic
    end.
  (* prod_k bases[U_k] ^ exps[k] *)
  Fixpoint prod_sel (bases exps : list Z) (n : Z) (U : list N) (acc : Z) {struct U} : outcome Z :=
    match U, exps with
    | [], _ => Ok acc
    | i :: u, x :: xs => let* ai := nthZ bases i in let* y := pow_mod ai x n in prod_sel bases xs n u (acc * y)
    | _ :: _, [] => Panic
    end.

  Definition nisp2_gen (msgs : list Z) (c1 c2 : commitment) (pk : pubkey) (bases : list Z) (ck : cpubkey)
             (U : list N) : M nisp2 :=
    if (Nat.ltb (length bases) (length msgs) && Nat.ltb (length msgs) (length (ck_g ck)))%bool then mpanic else
    let+ omega := mmapM (fun _ => random_bits (lm CS + MASK)) U in
    let+ mu1 := random_bits (ln CS + MASK) in
    let+ mu2 := random_bits (ln CS + MASK) in
    let+ w1 := lift (prod_sel bases omega (pk_N pk) U 1) in
    let+ w2 := lift (prod_sel (ck_g ck) omega (ck_N ck) U 1) in
    let+ h1 := lift (pow_mod (pk_b pk) mu1 (pk_N pk)) in
    let+ h2 := lift (pow_mod (ck_h ck) mu2 (ck_N ck)) in
    let w1 := Z.rem (w1 * h1) (pk_N pk) in
    let w2 := Z.rem (w2 * h2) (ck_N ck) in
    let ch := hash_int (str_cat [w1; w2]) in
    let+ d := lift (resp_idx omega msgs ch U) in
    mret {| n2_chal := ch; n2_d := d; n2_d1 := mu1 + ch * c_rand c1; n2_d2 := mu2 + ch * c_rand c2 |}.

  Definition nisp2_verify (p : nisp2) (c1 c2 : commitment) (pk : pubkey) (bases : list Z) (ck : cpubkey)
             (U : list N) : outcome bool :=
    let ch := n2_chal p in
    if negb (Nat.eqb (length (n2_d p)) (length U)) then Ok false else
    let* i1 := pow_mod (c_value c1) (- 1 * ch) (pk_N pk) in
    let* i2 := pow_mod (c_value c2) (- 1 * ch) (ck_N ck) in
    let* l := prod_sel bases (n2_d p) (pk_N pk) U 1 in
    let* r := prod_sel (ck_g ck) (n2_d p) (ck_N ck) U 1 in
    let* h1 := pow_mod (pk_b pk) (n2_d1 p) (pk_N pk) in
    let* h2 := pow_mod (ck_h ck) (n2_d2 p) (ck_N ck) in
    let lhs := Z.rem (l * h1 * i1) (pk_N pk) in
    let rhs := Z.rem (r * h2 * i2) (ck_N ck) in
    Ok (ch =? hash_int (str_cat [lhs; rhs])).

  Definition nisp2sec_gen (msg : Z) (c : commitment) (g1 h1 n1 : Z) : M nisps :=
    let+ r1 := random_bits (ln CS + MASK) in
    let+ r2 := random_bits (ln CS + MASK) in
    let+ a := lift (pow_mod g1 r1 n1) in
    let+ b := lift (pow_mod h1 r2 n1) in
    let t := Z.rem (a * b) n1 in
    let ch := hash_int (str_cat [g1; h1; c_value c; t]) in
    mret {| ns_t := t; ns_s1 := r1 + ch * msg; ns_s2 := r2 + ch * c_rand c |}.

  Definition nisp2sec_verify (p : nisps) (c : commitment) (g1 h1 n1 : Z) : outcome bool :=
    let* a := pow_mod g1 (ns_s1 p) n1 in
    let* b := pow_mod h1 (ns_s2 p) n1 in
    let lhs := Z.rem (a * b) n1 in
    let ch := hash_int (str_cat [g1; h1; c_value c; ns_t p]) in
    let* cc := pow_mod (c_value c) ch n1 in
    Ok (lhs =? Z.rem (ns_t p * cc) n1).

  (* str_input accumulates a_bases[i].to_string() with a plain index (panic when out of range) *)
  Definition nispm_gen (msgs : list Z) (c : commitment) (pk : pubkey) (bases : list Z) (U : option (list N)) : M nispm :=
    let U := option_default [0%N] U in
    let U := if Nat.eqb (length msgs) 1 then [0%N] else U in
    let+ r1 := mmapM (fun _ => random_bits (lm CS + MASK)) U in
    let+ r2 := random_bits (ln CS + MASK) in
    let+ t0 := lift (prod_sel bases r1 (pk_N pk) U 1) in
    let+ sel := lift (mapM (nthZ bases) U) in
    let+ hb := lift (pow_mod (pk_b pk) r2 (pk_N pk)) in
    let t := Z.rem (t0 * hb) (pk_N pk) in
    let ch := hash_int (str_cat (sel ++ [pk_b pk; c_value c; t])) in
    let+ s1 := lift (resp_idx r1 msgs ch U) in
    mret {| nm_t := t; nm_s1 := s1; nm_s2 := r2 + ch * c_rand c |}.

  Definition nispm_verify (p : nispm) (c : commitment) (pk : pubkey) (bases : list Z) (U : option (list N)) : outcome bool :=
    let U := option_default [0%N] U in
    if negb (Nat.eqb (length U) (length (nm_s1 p))) then Panic else
    let* l0 := prod_sel bases (nm_s1 p) (pk_N pk) U 1 in
    let* sel := mapM (nthZ bases) U in
    let* hb := pow_mod (pk_b pk) (nm_s2 p) (pk_N pk) in
    let lhs := Z.rem (l0 * hb) (pk_N pk) in
    let ch := hash_int (str_cat (sel ++ [pk_b pk; c_value c; nm_t p])) in
    let* cc := pow_mod (c_value c) ch (pk_N pk) in
    Ok (lhs =? Z.rem (nm_t p * cc) (pk_N pk)).

  Record spok := { sp_chal : Z; sp_s1 : Z; sp_s2 : Z; sp_s3 : Z; sp_s4 : Z; sp_s5 : list Z; sp_s6 : Z; sp_s7 : Z;
                   sp_s8 : Z; sp_s9 : Z; sp_Cx : commitment; sp_Cv : commitment; sp_Cw : commitment; sp_Ce : commitment }.

  Definition memb (i : N) (U : list N) : bool := existsb (N.eqb i) U.

  (* r_5: a fresh blinding for hidden positions, the attribute itself for revealed ones *)
  Fixpoint r5_loop (msgs : list Z) (i : N) (U : list N) : M (list Z) :=
    match msgs with
    | [] => mret []
    | m :: ms => let+ r := (if memb i U then random_bits (lm CS + MASK) else mret m) in
                 let+ t := r5_loop ms (i + 1)%N U in mret (r :: t)
    end.

  Definition inv_of (x n : Z) : outcome Z := divm 1 x n.

  Definition nisp5_gen (sg : clsig) (ck : cpubkey) (pk : pubkey) (bases msgs : list Z) (U : list N) : M spok :=
    let n_attr := length msgs in
    if (Nat.ltb (length bases) n_attr && Nat.ltb (length (ck_g ck)) n_attr)%bool then mpanic else
    let+ CCx := commit_with_cpk msgs ck None in
    let+ CCv := commit_v (s_v sg) ck in
    let w := c_rand CCv in
    let+ CCw := commit_with_cpk [w] ck None in
    let rw := c_rand CCw in
    let+ CCe := commit_with_cpk [s_e sg] ck None in
    let re := c_rand CCe in
    let rx := c_rand CCx in
    let+ r1 := random_bits (ln CS + MASK) in
    let+ r2 := random_bits (ln CS + le CS + MASK) in
    let+ r3 := random_bits (ln CS + MASK) in
    let+ r4 := random_bits (le CS + MASK) in
    let+ r6 := random_bits (ls CS + 1 + MASK) in
    let+ r7 := random_bits (ln CS + MASK) in
    let+ r8 := random_bits (ln CS + le CS + MASK) in
    let+ r9 := random_bits (ln CS + MASK) in
    let+ r5 := r5_loop msgs 0%N U in
    let N := pk_N pk in
    let+ tcx := lift (prod_pows bases r5 N 1) in
    let tcx := Z.rem tcx N in
    let+ g0 := lift (nthZ (ck_g ck) 0) in
    let+ cv4 := lift (pow_mod (c_value CCv) r4 N) in
    let+ itcx := lift (inv_of tcx N) in
    let+ ib := lift (inv_of (pk_b pk) N) in
    let+ ib6 := lift (pow_mod ib r6 N) in
    let+ ig0 := lift (inv_of g0 N) in
    let+ ig8 := lift (pow_mod ig0 r8 N) in
    let t1 := Z.rem (cv4 * itcx * ib6 * ig8) N in
    let+ g7 := lift (pow_mod g0 r7 N) in
    let+ h1 := lift (pow_mod (ck_h ck) r1 N) in
    let t2 := Z.rem (g7 * h1) N in
    let+ cw4 := lift (pow_mod (c_value CCw) r4 N) in
    let+ ih := lift (inv_of (ck_h ck) N) in
    let+ ih2 := lift (pow_mod ih r2 N) in
    let t3 := Z.rem (cw4 * ig8 * ih2) N in
    let+ t40 := lift (prod_pows (ck_g ck) r5 N 1) in
    let+ h3 := lift (pow_mod (ck_h ck) r3 N) in
    let t4 := Z.rem (t40 * h3) N in
    let+ g4 := lift (pow_mod g0 r4 N) in
    let+ h9 := lift (pow_mod (ck_h ck) r9 N) in
    let t5 := Z.rem (g4 * h9) N in
    let ch := hash_int (str_cat [t1; t2; t3; t4; t5]) in
    let+ s5 := lift (mapM (fun i => let* r := nthZ r5 i in let* m := nthZ msgs i in Ok (r + m * ch)) U) in
    mret {| sp_chal := ch; sp_s1 := r1 + rw * ch; sp_s2 := r2 + rw * s_e sg * ch; sp_s3 := r3 + rx * ch;
            sp_s4 := r4 + s_e sg * ch; sp_s5 := s5; sp_s6 := r6 + s_s sg * ch; sp_s7 := r7 + w * ch;
            sp_s8 := r8 + w * s_e sg * ch; sp_s9 := r9 + re * ch;
            sp_Cx := CCx; sp_Cv := CCv; sp_Cw := CCw; sp_Ce := CCe |}.

  (* the verifier's walk over 0..n: hidden positions take the next s_5, revealed ones the next revealed message
     with exponent m + m*c;  `self.s_5[idx]` and `bases[i]` panic when out of range *)
  Fixpoint walk (bases : list Z) (n : Z) (s5 rmsgs : list Z) (ch : Z) (U : list N) (cnt : nat) (i : N) (acc : Z)
    : outcome Z :=
    match cnt with
    | O => Ok acc
    | S c' =>
      let* ai := nthZ bases i in
      if memb i U then
        match s5 with
        | [] => Panic
        | s :: s5' => let* x := pow_mod ai s n in walk bases n s5' rmsgs ch U c' (i + 1)%N (acc * x)
        end
      else
        match rmsgs with
        | [] => Panic
        | m :: rm' => let* x := pow_mod ai (m + m * ch) n in walk bases n s5 rm' ch U c' (i + 1)%N (acc * x)
        end
    end.

  Definition nisp5_verify (p : spok) (ck : cpubkey) (pk : pubkey) (bases rmsgs : list Z) (U : list N) (nsm : nat)
    : outcome bool :=
    if (Nat.ltb (length bases) nsm && Nat.ltb (length (ck_g ck)) nsm)%bool then Panic else
    (* one response per hidden attribute, no more and no less (fix F17) *)
    if negb (Nat.eqb (length (sp_s5 p)) (length U)) then Ok false else
    let N := pk_N pk in let ch := sp_chal p in
    (* the four commitments are canonical residues modulo N (fix F19) *)
    if existsb (fun c => (c_value c <? 0) || (N <=? c_value c)) [sp_Cx p; sp_Cv p; sp_Cw p; sp_Ce p] then Ok false else
    let* tcx := walk bases N (sp_s5 p) rmsgs ch U nsm 0%N 1 in
    let tcx := Z.rem tcx N in
    let* cv4 := pow_mod (c_value (sp_Cv p)) (sp_s4 p) N in
    let* itcx := inv_of tcx N in
    let* ib := inv_of (pk_b pk) N in
    let* ib6 := pow_mod ib (sp_s6 p) N in
    let* g0 := nthZ (ck_g ck) 0 in
    let* ig0 := inv_of g0 N in
    let* ig8 := pow_mod ig0 (sp_s8 p) N in
    let* cc := pow_mod (pk_c pk) (- 1 * ch) N in
    let in1 := Z.rem (cv4 * itcx * ib6 * ig8 * cc) N in
    let* g7 := pow_mod g0 (sp_s7 p) N in
    let* h1 := pow_mod (ck_h ck) (sp_s1 p) N in
    let* cwc := pow_mod (c_value (sp_Cw p)) (- 1 * ch) N in
    let in2 := Z.rem (g7 * h1 * cwc) N in
    let* cw4 := pow_mod (c_value (sp_Cw p)) (sp_s4 p) N in
    let* ig0' := inv_of g0 N in
    let* ig8' := pow_mod ig0' (sp_s8 p) N in
    let* ih := inv_of (ck_h ck) N in
    let* ih2 := pow_mod ih (sp_s2 p) N in
    let in3 := Z.rem (cw4 * ig8' * ih2) N in
    let* i40 := walk (ck_g ck) N (sp_s5 p) rmsgs ch U nsm 0%N 1 in
    let* h3 := pow_mod (ck_h ck) (sp_s3 p) N in
    let* cxc := pow_mod (c_value (sp_Cx p)) (- 1 * ch) N in
    let in4 := Z.rem (i40 * h3 * cxc) N in
    let* g4 := pow_mod g0 (sp_s4 p) N in
    let* h9 := pow_mod (ck_h ck) (sp_s9 p) N in
    let* cec := pow_mod (c_value (sp_Ce p)) (- 1 * ch) N in
    let in5 := Z.rem (g4 * h9 * cec) N in
    Ok (hash_int (str_cat [in1; in2; in3; in4; in5]) =? ch).

  (* ---------------------------------------------------------------- range_proof.rs (Boudot 2000) *)
  Record proof_ss := { ss_chal : Z; ss_d : Z; ss_d1 : Z; ss_d2 : Z }.
  Record proof_sq := { sq_E : Z; sq_F : Z; sq_ss : proof_ss }.
  Record proof_li := { li_C : Z; li_D1 : Z; li_D2 : Z }.
  Record proof_wt := { wt_Ea1 : Z; wt_Ea2 : Z; wt_Eb1 : Z; wt_Eb2 : Z; wt_sqa : proof_sq; wt_sqb : proof_sq;
                       wt_lia : proof_li; wt_lib : proof_li }.
  Record boudot := { bd_wt : proof_wt; bd_Eprime : Z; bd_E : Z }.

  Notation t := (b_t BP). Notation l := (b_l BP). Notation s := (b_s BP).
  Notation s1 := (b_s1 BP). Notation s2 := (b_s2 BP).

  (* g^x * h^r mod n *)
  Definition com2 (g x h r n : Z) : outcome Z :=
    let* a := pow_mod g x n in let* b := pow_mod h r n in Ok (Z.rem (a * b) n).

  (* the challenge is the whole 256-bit digest: the blindings cover challenge * secret (fix F16); s2x: blinding length of the
     second randomness, chosen by the caller *)
  Definition ss_t : Z := Z.max t 256.
  Definition proof_same_secret (x r1 r2 g1 h1 g2 h2 b n s2x : Z) : M proof_ss :=
    let+ omega := rand_int 1 (two (l + ss_t) * b - 1) in
    let+ mu1 := rand_int 1 (two (l + ss_t + s1) * n - 1) in
    let+ mu2 := rand_int 1 (two (l + ss_t + s2x) * n - 1) in
    let+ w1 := lift (com2 g1 omega h1 mu1 n) in
    let+ w2 := lift (com2 g2 omega h2 mu2 n) in
    let ch := hash_int (str_cat [w1; w2]) in
    mret {| ss_chal := ch; ss_d := omega + ch * x; ss_d1 := mu1 + ch * r1; ss_d2 := mu2 + ch * r2 |}.

  Definition verify_same_secret (E F g1 h1 g2 h2 n : Z) (p : proof_ss) : outcome bool :=
    let ch := ss_chal p in
    let* iE := pow_mod E (- 1 * ch) n in
    let* iF := pow_mod F (- 1 * ch) n in
    let* a := pow_mod g1 (ss_d p) n in let* b := pow_mod h1 (ss_d1 p) n in
    let lhs := Z.rem (a * b * iE) n in
    let* a' := pow_mod g2 (ss_d p) n in let* b' := pow_mod h2 (ss_d2 p) n in
    let rhs := Z.rem (a' * b' * iF) n in
    Ok (ch =? hash_int (str_cat [lhs; rhs])).

  Definition proof_of_square (x r1 g h E b n s2x : Z) : M proof_sq :=
    let+ r2 := rand_int (- two s * n + 1) (two s * n - 1) in
    let+ F := lift (com2 g x h r2 n) in
    let r3 := r1 - r2 * x in
    let+ ss := proof_same_secret x r2 r3 g h F h b n s2x in
    mret {| sq_E := E; sq_F := F; sq_ss := ss |}.

  Definition verify_of_square (p : proof_sq) (g h n : Z) : outcome bool :=
    (* F is a canonical residue (fix F19) *)
    if (sq_F p <? 0) || (n <=? sq_F p) then Ok false else
    verify_same_secret (sq_F p) (sq_E p) g h (sq_F p) h n (sq_ss p).

  Definition li_upper (T b : Z) : Z := two T * (two (t + l) * b - 1).

  Definition proof_large_interval (x r g h b n T : Z) : M proof_li :=
    loop_until (let+ w := rand_int 0 (two T * two (t + l) * b - 1) in
                let+ nu := rand_int (- (two T * two (t + l + s)) * n + 1) (two T * two (t + l + s) * n - 1) in
                let+ omega := lift (com2 g w h nu n) in
                let C := hash_int (to_string omega) in
                let c := Z.rem C (two t) in
                let D1 := w + x * c in let D2 := nu + r * c in
                mret (if (c * b <=? D1) && (D1 <=? li_upper T b)
                      then Some {| li_C := C; li_D1 := D1; li_D2 := D2 |} else None)).

  Definition verify_large_interval (p : proof_li) (E g h n b T : Z) : outcome bool :=
    let c := Z.rem (li_C p) (two t) in
    let* iE := pow_mod E (- 1 * c) n in
    let* a := pow_mod g (li_D1 p) n in let* b' := pow_mod h (li_D2 p) n in
    let commit := Z.rem (a * b' * iE) n in
    let out := hash_int (to_string commit) in
    Ok ((c * b <=? li_D1 p) && (li_D1 p <=? li_upper T b) && (li_C p =? out)).

  Definition tol_aa (a b T : Z) : outcome Z :=
    let* q := zsqrt (b - a) in Ok (two T * a - two (l + t + T / 2 + 1) * q).
  Definition tol_bb (a b T : Z) : outcome Z :=
    let* q := zsqrt (b - a) in Ok (two T * b + two (l + t + T / 2 + 1) * q).

  Definition split_r (r n T : Z) (target : Z) : M (Z * Z) :=
    let lo := - two s * two T * n + 1 in let hi := two s * two T * n - 1 in
    loop_until (let+ ra1 := rand_int lo hi in
                let ra2 := target - ra1 in
                mret (if (lo <=? ra2) && (ra2 <=? hi) && (target =? ra1 + ra2) then Some (ra1, ra2) else None)).

  Definition proof_of_tolerance (x r g h n a b T : Z) : M proof_wt :=
    let+ aa := lift (tol_aa a b T) in
    let+ bb := lift (tol_bb a b T) in
    let xa := x - aa in let xb := bb - x in
    let+ xa1 := lift (zsqrt xa) in let xa2 := xa - xa1 ^ 2 in
    let+ xb1 := lift (zsqrt xb) in let xb2 := xb - xb1 ^ 2 in
    let+ (ra1, ra2) := split_r r n T r in
    let+ (rb1, rb2) := split_r r n T (- 1 * r) in
    let+ Ea1 := lift (com2 g (xa1 ^ 2) h ra1 n) in
    let+ Ea2 := lift (com2 g xa2 h ra2 n) in
    let+ Eb1 := lift (com2 g (xb1 ^ 2) h rb1 n) in
    let+ Eb2 := lift (com2 g xb2 h rb2 n) in
    (* the square proofs are about x_?_1 < 2^(T/2+1) (sqrt(b - a) + 1) and a second randomness below 2^(s+T+1) n (fix F16) *)
    let b_sq := two (T / 2 + 1) * (Z.sqrt (b - a) + 1) in
    let s2_sq := Z.max s2 (s + T + 1) in
    let+ sqa := proof_of_square xa1 ra1 g h Ea1 b_sq n s2_sq in
    let+ sqb := proof_of_square xb1 rb1 g h Eb1 b_sq n s2_sq in
    let+ lia := proof_large_interval xa2 ra2 g h b n T in
    let+ lib := proof_large_interval xb2 rb2 g h b n T in
    mret {| wt_Ea1 := Ea1; wt_Ea2 := Ea2; wt_Eb1 := Eb1; wt_Eb2 := Eb2; wt_sqa := sqa; wt_sqb := sqb;
            wt_lia := lia; wt_lib := lib |}.

  Definition verify_of_tolerance (p : proof_wt) (g h E n a b T : Z) : outcome bool :=
    let* aa := tol_aa a b T in
    let* bb := tol_bb a b T in
    let* gaa := pow_mod g aa n in
    let* Ea := divm E gaa n in
    let* gbb := pow_mod g bb n in
    let* Eb := divm gbb E n in
    let* diva := divm Ea (wt_Ea1 p) n in
    let* divb := divm Eb (wt_Eb1 p) n in
    if (wt_Ea2 p =? diva) && (wt_Eb2 p =? divb) && (sq_E (wt_sqa p) =? wt_Ea1 p) && (sq_E (wt_sqb p) =? wt_Eb1 p) then
      (* b_s = a && b: the second operand is evaluated only when the first is true *)
      let* sa := verify_of_square (wt_sqa p) g h n in
      let* bs := if sa then verify_of_square (wt_sqb p) g h n else Ok false in
      let* la := verify_large_interval (wt_lia p) (wt_Ea2 p) g h n b T in
      let* bl := if la then verify_large_interval (wt_lib p) (wt_Eb2 p) g h n b T else Ok false in
      Ok (bs && bl)
    else Ok false.

  Definition range_T (rmin rmax : Z) : Z := 2 * (t + l + 1) + sig_bits (rmax - rmin).

  Definition boudot_prove (value : Z) (c : commitment) (g h n rmin rmax : Z) : M boudot :=
    if rmax <=? rmin then mpanic else
    let T := range_T rmin rmax in
    let xp := two T * value in let rp := two T * c_rand c in
    let+ Ep := lift (pow_mod (c_value c) (two T) n) in
    let+ wt := proof_of_tolerance xp rp g h n rmin rmax T in
    mret {| bd_wt := wt; bd_Eprime := Ep; bd_E := c_value c |}.

  Definition boudot_verify (p : boudot) (g h n rmin rmax : Z) : outcome bool :=
    if rmax <=? rmin then Panic else
    let T := range_T rmin rmax in
    (* the commitment the proof is about is a canonical residue (fix F19) *)
    if (bd_E p <? 0) || (n <=? bd_E p) then Ok false else
    let* Ep := pow_mod (bd_E p) (two T) n in
    if bd_Eprime p =? Ep then verify_of_tolerance (bd_wt p) g h (bd_Eprime p) n rmin rmax T else Ok false.

  (* ---------------------------------------------------------------- proof.rs *)
  Record clpok := { pk_spok : spok; pk_rpe : boudot; pk_pmi : list pov; pk_rpmi : list boudot }.
  Record zkpok := { zk_trusted : option nisp2; zk_msgs : nispm; zk_pmi : list pov; zk_rpmi : list boudot;
                    zk_pr : pov; zk_rpr : boudot }.

  Definition min_e := two (le CS - 1) + 1.
  Definition max_e := two (le CS) - 1.
  Definition max_x := two (lm CS) - 1.
  Definition max_r := two (ln CS) - 1.

  Definition spok_gen (sg : clsig) (ck : cpubkey) (pk : pubkey) (bases msgs : list Z) (U : list N) : M clpok :=
    let+ sp := nisp5_gen sg ck pk bases msgs U in
    let+ g0 := lift (nthZ (ck_g ck) 0) in
    let+ rpe := boudot_prove (s_e sg) (sp_Ce sp) g0 (ck_h ck) (ck_N ck) min_e max_e in
    let+ per := mmapM (fun i =>
                         let+ mi := lift (nthZ msgs i) in
                         let+ gi := lift (nthZ (ck_g ck) i) in
                         let+ cmi := commit_with_cpk msgs ck (Some [i]) in
                         let+ pmi := nisp2sec_gen mi cmi gi (ck_h ck) (ck_N ck) in
                         let+ rp := boudot_prove mi cmi gi (ck_h ck) (ck_N ck) 0 max_x in
                         mret ({| pv_value := pmi; pv_com := cmi |}, rp)) U in
    mret {| pk_spok := sp; pk_rpe := rpe; pk_pmi := map fst per; pk_rpmi := map snd per |}.

  Fixpoint spok_verify_loop (ck : cpubkey) (U : list N) (pmi : list pov) (rpmi : list boudot) : outcome bool :=
    match U with
    | [] => Ok true
    | i :: u =>
      let* gi := nthZ (ck_g ck) i in
      match pmi with
      | [] => Panic
      | pv :: pmi' =>
        let* b1 := nisp2sec_verify (pv_value pv) (pv_com pv) gi (ck_h ck) (ck_N ck) in
        if negb b1 then Ok false else
        match rpmi with
        | [] => Panic
        | rp :: rpmi' =>
          (* the range proof must be about the commitment of the opening proof (fix F15) *)
          if negb (c_value (pv_com pv) =? bd_E rp) then Ok false else
          let* b2 := boudot_verify rp gi (ck_h ck) (ck_N ck) 0 max_x in
          if negb b2 then Ok false else spok_verify_loop ck u pmi' rpmi'
        end
      end
    end.

  Definition spok_verify (p : clpok) (ck : cpubkey) (pk : pubkey) (bases rmsgs : list Z) (U : list N) (nsm : nat)
    : outcome bool :=
    let* b0 := nisp5_verify (pk_spok p) ck pk bases rmsgs U nsm in
    if negb b0 then Ok false else
    if negb (Nat.eqb (length (pk_pmi p)) (length U) && Nat.eqb (length (pk_rpmi p)) (length U)) then Ok false else
    if c_value (sp_Ce (pk_spok p)) =? bd_E (pk_rpe p) then
      let* g0 := nthZ (ck_g ck) 0 in
      let* b1 := boudot_verify (pk_rpe p) g0 (ck_h ck) (ck_N ck) min_e max_e in
      if b1 then spok_verify_loop ck U (pk_pmi p) (pk_rpmi p) else Ok false
    else Ok false.

  Definition zkpok_gen (msgs : list Z) (C : commitment) (Ct : option commitment) (pk : pubkey) (bases : list Z)
             (ck : option cpubkey) (U : list N) : M zkpok :=
    let+ tr := match Ct, ck with
               | Some ct, Some k => let+ p := nisp2_gen msgs C ct pk bases k U in mret (Some p)
               | _, _ => mret None
               end in
    let+ pm := nispm_gen msgs C pk bases (Some U) in
    let+ per := mmapM (fun i =>
                         let+ mi := lift (nthZ msgs i) in
                         let+ ai := lift (nthZ bases i) in
                         let+ cmi := commit_with_pk msgs pk bases (Some [i]) in
                         let+ pmi := nisp2sec_gen mi cmi ai (pk_b pk) (pk_N pk) in
                         let+ rp := boudot_prove mi cmi ai (pk_b pk) (pk_N pk) 0 max_x in
                         mret ({| pv_value := pmi; pv_com := cmi |}, rp)) U in
    let r := c_rand C in
    let+ cr := commit_with_pk [r] pk bases None in
    let+ a0 := lift (nthZ bases 0) in
    let+ pr := nisp2sec_gen r cr a0 (pk_b pk) (pk_N pk) in
    let+ rpr := boudot_prove r cr a0 (pk_b pk) (pk_N pk) 0 max_r in
    mret {| zk_trusted := tr; zk_msgs := pm; zk_pmi := map fst per; zk_rpmi := map snd per;
            zk_pr := {| pv_value := pr; pv_com := cr |}; zk_rpr := rpr |}.

  Fixpoint zkpok_verify_loop (pk : pubkey) (bases : list Z) (U : list N) (pmi : list pov) (rpmi : list boudot)
    : outcome bool :=
    match U with
    | [] => Ok true
    | i :: u =>
      let* ai := nthZ bases i in
      match pmi with
      | [] => Panic
      | pv :: pmi' =>
        let* b1 := nisp2sec_verify (pv_value pv) (pv_com pv) ai (pk_b pk) (pk_N pk) in
        if negb b1 then Ok false else
        match rpmi with
        | [] => Panic
        | rp :: rpmi' =>
          if negb (c_value (pv_com pv) =? bd_E rp) then Ok false else
          let* b2 := boudot_verify rp ai (pk_b pk) (pk_N pk) 0 max_x in
          if negb b2 then Ok false else zkpok_verify_loop pk bases u pmi' rpmi'
        end
      end
    end.

  Definition zkpok_verify (p : zkpok) (C : commitment) (Ct : option commitment) (pk : pubkey) (bases : list Z)
             (ck : option cpubkey) (U : list N) : outcome bool :=
    let* bt := match Ct, ck with
               | Some ct, Some k => let* tp := unwrap (zk_trusted p) in nisp2_verify tp C ct pk bases k U
               | _, _ => Ok true
               end in
    if negb bt then Ok false else
    let* bm := nispm_verify (zk_msgs p) C pk bases (Some U) in
    if negb bm then Ok false else
    if negb (Nat.eqb (length (zk_pmi p)) (length U) && Nat.eqb (length (zk_rpmi p)) (length U)) then Ok false else
    let* bl := zkpok_verify_loop pk bases U (zk_pmi p) (zk_rpmi p) in
    if negb bl then Ok false else
    let* a0 := nthZ bases 0 in
    let* br := nisp2sec_verify (pv_value (zk_pr p)) (pv_com (zk_pr p)) a0 (pk_b pk) (pk_N pk) in
    if negb br then Ok false else
    if negb (c_value (pv_com (zk_pr p)) =? bd_E (zk_rpr p)) then Ok false else
    boudot_verify (zk_rpr p) a0 (pk_b pk) (pk_N pk) 0 max_r.

  (* ---------------------------------------------------------------- blind.rs *)
  (* blind_sign panics (refuses) when the proof does not verify *)
  Definition blind_sign (pk : pubkey) (sk : seckey) (bases : list Z) (zk : zkpok) (revealed : option (list Z))
             (C : commitment) (Ct : option commitment) (ck : option cpubkey) (U : list N) (ridx : option (list N))
    : M blindsig :=
    let+ ok := lift (zkpok_verify zk C Ct pk bases ck U) in
    if negb ok then mpanic else
    let+ ext := lift (match revealed, ridx with
                      | Some rm, Some _ => extend_commitment_with_pk C rm pk bases ridx
                      | _, _ => Ok C
                      end) in
    let ph := phi sk in
    let+ e := e_loop ph in
    let+ rprime := random_bits (ls CS) in
    let+ e2n := lift (unwrap (invert e ph)) in
    let+ br := lift (pow_mod (pk_b pk) rprime (pk_N pk)) in
    let+ v := lift (pow_mod (c_value ext * br * pk_c pk) e2n (pk_N pk)) in
    mret {| bs_e := e; bs_rprime := rprime; bs_v := v |}.

  Definition unblind_sign (b : blindsig) (C : commitment) : clsig :=
    {| s_e := bs_e b; s_s := c_rand C + bs_rprime b; s_v := bs_v b |}.

  Definition update_signature (b : blindsig) (revealed : option (list Z)) (C : commitment) (sk : seckey)
             (pk : pubkey) (bases : list Z) (ridx : option (list N)) : outcome blindsig :=
    let* ext := match revealed, ridx with
                | Some rm, Some _ => extend_commitment_with_pk C rm pk bases ridx
                | _, _ => Ok C
                end in
    let* e2n := unwrap (invert (bs_e b) (phi sk)) in
    let* br := pow_mod (pk_b pk) (bs_rprime b) (pk_N pk) in
    let* v := pow_mod (c_value ext * br * pk_c pk) e2n (pk_N pk) in
    Ok {| bs_e := bs_e b; bs_rprime := bs_rprime b; bs_v := v |}.

End Suite.
