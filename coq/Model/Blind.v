(* Executable model of zkryptium's Blind BBS extension (src/bbsplus/{commitment,blind}.rs and the
   blind entry points of proof.rs).  Definitions only. *)
From ZK Require Export Bbs.

Section Blind.
  Context (E : env).
  Notation S := (SO E).
  Notation P := (PR E).
  Notation Fd := (F S).
  Notation G1t := (@G1 S P).
  Notation G2t := (@G2 S P).
  Notation c := (cs E).

  Local Infix "+f" := (fadd S) (at level 50, left associativity).
  Local Infix "*f" := (fmul S) (at level 40, left associativity).
  Local Infix "+g" := (g1_add P) (at level 50, left associativity).
  Local Notation "p '*g' s" := (g1_mul P s p) (at level 40, left associativity).

  Definition blind_prefix : bytes := [66;76;73;78;68;95].   (* "BLIND_" *)

  (* ---------------------------------------------------------------- BBSplusZKPoK *)
  Record zkpok := { z_s_cap : Fd; z_m_cap : list Fd; z_chal : Fd }.

  Definition zkpok_to_bytes (z : zkpok) : bytes :=
    f_to_be S (z_s_cap z) ++ serialize_scalars E (z_m_cap z) ++ f_to_be S (z_chal z).

  Definition zkpok_from_bytes (b : bytes) : outcome zkpok :=
    if (Nat.ltb (length b) 64 || negb (Nat.eqb (Nat.modulo (length b) 32) 0))%bool then Err else
    let* s0 := slice b 0 32 in
    let* s_cap := try_opt (f_of_be S s0) in
    let* rest := slice_from b 32 in
    let* ms := scalars_of_chunks E rest in
    let* (m_cap, chal) := try_opt (pop_last ms) in
    Ok {| z_s_cap := s_cap; z_m_cap := m_cap; z_chal := chal |}.

  Record commitment := { cm_C : G1t; cm_proof : zkpok }.

  Definition commitment_to_bytes (x : commitment) : bytes :=
    g1_enc P (cm_C x) ++ zkpok_to_bytes (cm_proof x).

  Definition commitment_from_bytes (b : bytes) : outcome commitment :=
    if Nat.ltb (length b) 48 then Err else
    let* s0 := slice b 0 48 in
    let* C := try_opt (g1_dec P s0) in
    let* rest := slice_from b 48 in
    let* z := zkpok_from_bytes rest in
    Ok {| cm_C := C; cm_proof := z |}.

  Definition blind_from_bytes (b : bytes) : outcome Fd :=
    if negb (Nat.eqb (length b) 32) then Err else try_opt (f_of_be S b).

  (* ---------------------------------------------------------------- util.rs *)
  Definition calculate_blind_challenge (C Cbar : G1t) (gens : list G1t) (api_id : bytes)
    : outcome Fd :=
    if Nat.eqb (length gens) 0 then Err else
    let M := (length gens - 1)%nat in
    let c_arr := i2osp8 (N.of_nat M) ++ serialize_g1 E gens ++ g1_enc P C ++ g1_enc P Cbar in
    hash_to_scalar E c_arr (api_id ++ c_h2s c).

  (* ---------------------------------------------------------------- commitment.rs *)
  Definition core_commit (blind_gens : list G1t) (cms : list Fd) (api_id : bytes) (rho : list Fd)
    : outcome (commitment * Fd) :=
    let M := length cms in
    if negb (Nat.eqb (length blind_gens) (M + 1)) then Err else
    let* Q2 := index blind_gens 0 in
    let* Js := slice blind_gens 1 (M + 1) in
    if negb (Nat.eqb (length rho) (M + 2)) then NoDraw else
    let* spb := index rho 0 in
    let* s_t := index rho 1 in
    let* m_t := slice rho 2 (M + 2) in
    let C := msm_acc E (Q2 *g spb) Js cms in
    let Cbar := msm_acc E (Q2 *g s_t) Js m_t in
    let* ch := calculate_blind_challenge C Cbar blind_gens api_id in
    let s_cap := s_t +f spb *f ch in
    let m_cap := map (fun p => fst p +f snd p *f ch) (combine m_t cms) in
    Ok ({| cm_C := C; cm_proof := {| z_s_cap := s_cap; z_m_cap := m_cap; z_chal := ch |} |}, spb).

  Definition commit (cmsgs : option (list bytes)) (rho : list Fd) : outcome (commitment * Fd) :=
    let cmsgs := option_default [] cmsgs in
    let api_id := c_api_id_blind c in
    let* cms := messages_to_scalars E cmsgs api_id in
    let* g := gens_create E (length cms + 1) (blind_prefix ++ api_id) in
    core_commit (g_values E g) cms api_id rho.

  Definition core_commit_verify (C : G1t) (z : zkpok) (blind_gens : list G1t) (api_id : bytes)
    : outcome unit :=
    let M := length (z_m_cap z) in
    let* bg := try_opt (get_range blind_gens 0 (M + 1)) in
    let* G2_ := index bg 0 in
    let* Js := slice_from bg 1 in
    let Cbar := msm_acc E (G2_ *g z_s_cap z) Js (z_m_cap z) in
    let Cbar := Cbar +g C *g (fopp S (z_chal z)) in
    let* cv := calculate_blind_challenge C Cbar bg api_id in
    if negb (feqb S cv (z_chal z)) then Err else Ok tt.

  (* deserialize_and_validate_commit: `core_commit_verify(..).is_ok()` turns an Err into Err
     and lets a panic through *)
  Definition deserialize_and_validate_commit (cwp : option bytes) (bg : generators E)
             (api_id : option bytes) : outcome G1t :=
    let cwp := option_default [] cwp in
    if Nat.eqb (length cwp) 0 then Ok (g1_zero P) else
    let api_id := option_default [] api_id in
    let* x := commitment_from_bytes cwp in
    let M := (length (z_m_cap (cm_proof x)) + 1)%nat in
    if Nat.ltb (length (g_values E bg)) M then Err else
    let* _ := core_commit_verify (cm_C x) (cm_proof x) (g_values E bg) api_id in
    Ok (cm_C x).

  (* ---------------------------------------------------------------- blind.rs *)
  Definition calculate_b (g : generators E) (commitment : G1t) (ms : list Fd) : outcome G1t :=
    if negb (Nat.eqb (length (g_values E g)) (length ms + 1)) then Err else
    let* _Q1 := index (g_values E g) 0 in
    let H := skipn 1 (g_values E g) in
    let B := msm_acc E (g_p1 E g) H ms in
    let B := B +g commitment in
    if g1_eqb P B (g1_zero P) then Err else Ok B.

  Definition finalize_blind_sign (sk : Fd) (pk : G2t) (B : G1t) (g bg : generators E)
             (header : option bytes) (api_id : bytes) : outcome (signature E) :=
    let* Q1 := index (g_values E g) 0 in
    let* Q2 := index (g_values E bg) 0 in
    let* H := slice_from (g_values E g) 1 in
    let* bl1 := usub (len (g_values E bg)) 1 in
    let Js := option_default [] (get_range (g_values E bg) 1 (N.to_nat bl1)) in
    let tmp := H ++ [Q2] ++ Js in
    let* domain := calculate_domain E pk Q1 tmp header api_id in
    let B := B +g Q1 *g domain in
    let e_octs := sk_to_bytes E sk ++ g1_enc P B in
    let* e := hash_to_scalar E e_octs (api_id ++ c_h2s c) in
    let sk_e := sk +f e in
    let* inv := try_opt (finv_opt E sk_e) in
    Ok {| sig_A := B *g inv; sig_e := e |}.

  Definition blind_sign (sk : Fd) (pk : G2t) (cwp : option bytes) (header : option bytes)
             (msgs : option (list bytes)) : outcome (signature E) :=
    let msgs := option_default [] msgs in
    let L := length msgs in
    let cwp := option_default [] cwp in
    let M0 := len cwp in
    let* M :=
      if M0 =? 0 then Ok 0 else
      let* m1 := try_opt (checked_sub M0 48) in
      let* m2 := try_opt (checked_sub m1 32) in
      Ok (m2 / 32) in
    let api_id := c_api_id_blind c in
    let* g := gens_create E (L + 1) api_id in
    let* bg := gens_create E (N.to_nat M + 1) (blind_prefix ++ api_id) in
    let* commit := deserialize_and_validate_commit (Some cwp) bg (Some api_id) in
    let* ms := messages_to_scalars E msgs api_id in
    let* B := calculate_b g commit ms in
    finalize_blind_sign sk pk B g bg header api_id.

  (* prepare_parameters *)
  Definition prepare_parameters (msgs cmsgs : option (list bytes)) (gen_n blind_gen_n : nat)
             (spb : option Fd) (api_id : option bytes) : outcome (list Fd * generators E) :=
    let msgs := option_default [] msgs in
    let cmsgs := option_default [] cmsgs in
    let api_id := option_default [] api_id in
    let* ms := messages_to_scalars E msgs api_id in
    let pre := match spb with Some b => [b] | None => [] end in
    let* cms := messages_to_scalars E cmsgs api_id in
    let* g := gens_create E gen_n api_id in
    let* bg := gens_create E blind_gen_n (blind_prefix ++ api_id) in
    (* Generators::append asserts equal base points: same constant, never fails *)
    Ok (ms ++ pre ++ cms, {| g_p1 := g_p1 E g; g_values := g_values E g ++ g_values E bg |}).

  Definition verify_blind_sign (s : signature E) (pk : G2t) (header : option bytes)
             (msgs cmsgs : option (list bytes)) (spb : option Fd) : outcome unit :=
    let api_id := c_api_id_blind c in
    let msgs := option_default [] msgs in
    let cmsgs := option_default [] cmsgs in
    let spb := option_default (f0 S) spb in
    let* (ms, g) := prepare_parameters (Some msgs) (Some cmsgs) (length msgs + 1)
                                         (length cmsgs + 1) (Some spb) (Some api_id) in
    core_verify E pk s ms g header api_id.

  (* blind_proof_gen *)
  Definition blind_proof_gen (pk : G2t) (sigb : bytes) (header ph : option bytes)
             (msgs cmsgs : option (list bytes)) (idx cidx : option (list N)) (spb : option Fd)
             (rho : list Fd) : outcome (pok E) :=
    let* s := sig_from_bytes E sigb in
    let api_id := c_api_id_blind c in
    let msgs := option_default [] msgs in
    let cmsgs := option_default [] cmsgs in
    let spb := option_default (f0 S) spb in
    let L := length msgs in
    let M := length cmsgs in
    let idx := option_default [] idx in
    let cidx := option_default [] cidx in
    if Nat.ltb L (length idx) then Err else
    if existsb (fun i => N.of_nat L <=? i) idx then Err else
    if Nat.ltb M (length cidx) then Err else
    if existsb (fun i => N.of_nat M <=? i) cidx then Err else
    let* (ms, g) := prepare_parameters (Some msgs) (Some cmsgs) (L + 1) (M + 1) (Some spb)
                                         (Some api_id) in
    (* j + L + 1 with j < M: no overflow possible for in-memory lists *)
    let indexes := idx ++ map (fun j => j + N.of_nat L + 1) cidx in
    core_proof_gen E pk s g ms indexes header ph api_id rho.

  (* blind_proof_verify; L is caller supplied *)
  Definition blind_proof_verify (p : pok E) (pk : G2t) (header ph : option bytes) (L : option N)
             (dmsgs dcmsgs : option (list bytes)) (idx cidx : option (list N)) : outcome unit :=
    let L := option_default 0 L in
    let dmsgs := option_default [] dmsgs in
    let dcmsgs := option_default [] dcmsgs in
    let di := sort_dedup (option_default [] idx) in
    let dci := sort_dedup (option_default [] cidx) in
    let api_id := c_api_id_blind c in
    let U := len (p_m_cap E p) in
    (* let M = disclosed_indexes.len() + disclosed_commitment_indexes.len() + U - 1 - L; *)
    let* m1 := try_opt (checked_sub (len di + len dci + U) 1) in
    let* M := try_opt (checked_sub m1 L) in
    if existsb (fun j => M <=? j) dci then Err else
    let* L1 := uadd L 1 in
    let* M1 := uadd M 1 in
    let* (ms, g) := prepare_parameters (Some dmsgs) (Some dcmsgs) (N.to_nat L1) (N.to_nat M1)
                                         None (Some api_id) in
    let* shifted := mapM (fun j => let* a := uadd j L in uadd a 1) dci in
    let indexes := di ++ shifted in
    core_proof_verify E pk p g header ph ms indexes api_id.

End Blind.
