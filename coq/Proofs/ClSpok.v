(* C15: completeness of the nine-response proof of knowledge of a CL03 signature (nisp5): for every number of
   attributes, every strictly increasing list U of hidden positions, all non-negative draws, a commitment key over the
   issuer modulus with invertible bases, the generated proof passes the five-equation check. *)
From ZK Require Import Cl ClArith ClSig ClMore ClGroup ClBoudot ModelLemmas.
From Coq Require Import ZArith Lia Znumtheory Zpow_facts Zdiv Sorting.Sorted.
Open Scope Z_scope.

(* product of powers, position by position: prod_i bases[i]^exps[i] *)
Fixpoint PP (bases exps : list Z) {struct exps} : Z :=
  match exps, bases with
  | x :: xs, a :: bs => a ^ x * PP bs xs
  | _, _ => 1
  end.

Section S.
  Variable N : Z.
  Hypothesis HN : 0 < N.
  Local Infix "==" := (eqm N) (at level 70).

  Lemma prod_pows_PP bases : forall exps acc r, Forall (fun x => 0 <= x) exps -> 0 <= acc ->
    prod_pows bases exps N acc = Ok r -> 0 <= r /\ r == acc * PP bases exps.
  Proof.
    revert bases. intros bases exps. revert bases. induction exps as [|x xs IH]; intros bases acc r Hx Ha H; cbn in H.
    - inversion H; subst. split; [assumption|]. cbn. apply eqm_eq. ring.
    - destruct bases as [|a bs]; [discriminate|]. inversion Hx; subst.
      rewrite pow_mod_nonneg in H by lia. cbn [bind] in H.
      apply IH in H as [Hr He]; [|assumption|apply Z.mul_nonneg_nonneg; [assumption|apply Z.mod_pos_bound; lia]].
      split; [assumption|]. eapply eqm_trans; [exact He|]. cbn [PP].
      apply eqm_trans with (b := acc * (a ^ x mod N) * PP bs xs); [apply eqm_refl|].
      apply eqm_trans with (b := (acc * a ^ x) * PP bs xs); [|apply eqm_eq; ring].
      apply eqm_mul; [exact HN| |apply eqm_refl]. apply eqm_mul; [exact HN|apply eqm_refl|apply Zmod_eqm].
  Qed.

  Lemma prod_pows_total bases : forall exps acc, Forall (fun x => 0 <= x) exps -> (length exps <= length bases)%nat ->
    exists r, prod_pows bases exps N acc = Ok r.
  Proof.
    intros exps. revert bases. induction exps as [|x xs IH]; intros bases acc Hx Hl; cbn.
    - eauto.
    - destruct bases as [|a bs]; [cbn in Hl; lia|]. inversion Hx; subst. rewrite pow_mod_nonneg by lia. cbn [bind].
      apply IH; [assumption|cbn in Hl; lia].
  Qed.

  (* PP is multiplicative in the exponent vectors: prod a^(r + m c) = prod a^r * (prod a^m)^c *)
  Lemma PP_lin bases : forall rs ms c, 0 <= c -> length rs = length ms ->
    Forall (fun x => 0 <= x) rs -> Forall (fun x => 0 <= x) ms ->
    PP bases (map (fun p => fst p + snd p * c) (combine rs ms)) = PP bases rs * PP bases ms ^ c.
  Proof.
    induction bases as [|a bs IH]; intros rs ms c Hc Hl Hr Hm.
    - destruct rs, ms; cbn; rewrite ?Z.pow_1_l by assumption; ring.
    - destruct rs as [|r rs], ms as [|m ms]; cbn in Hl; try discriminate.
      + cbn. rewrite Z.pow_1_l by assumption. ring.
      + inversion Hr; inversion Hm; subst. cbn [combine map PP fst snd].
        rewrite IH by (assumption || lia).
        rewrite Z.pow_add_r by nia. rewrite Z.pow_mul_l. rewrite Z.pow_mul_r by assumption. ring.
  Qed.
End S.

Lemma nth_error_skipn {A} (l : list A) p v : nth_error l p = Some v -> skipn p l = v :: skipn (Datatypes.S p) l.
Proof.
  revert l. induction p as [|p IH]; intros [|b bs] E; cbn in *; try discriminate; [inversion E; reflexivity|]. apply IH. exact E.
Qed.

(* ---------------------------------------------------------------- the verifier's walk over the positions *)
Section W.
  Variable Nm : Z.
  Hypothesis HN : 0 < Nm.
  Local Infix "==" := (eqm Nm) (at level 70).
  Variable U : list N.

  Definition posN (p cnt : nat) : list N := map N.of_nat (seq p cnt).
  Definition hidden_of (p cnt : nat) : list N := filter (fun j => memb j U) (posN p cnt).
  Definition revealed_of (p cnt : nat) : list N := filter (fun j => negb (memb j U)) (posN p cnt).
  Definition at_ (l : list Z) (j : N) : Z := nth (N.to_nat j) l 0.

  Lemma posN_S p cnt : posN p (Datatypes.S cnt) = N.of_nat p :: posN (Datatypes.S p) cnt.
  Proof. reflexivity. Qed.

  (* xs = the exponent the verifier uses at every position: r5_j + m_j * ch; at revealed positions r5_j = m_j *)
  Lemma walk_spec bases ms r5 ch : 0 <= ch ->
    Forall (fun x => 0 <= x) ms -> Forall (fun x => 0 <= x) r5 -> length r5 = length ms ->
    (forall j, (N.to_nat j < length ms)%nat -> memb j U = false -> at_ r5 j = at_ ms j) ->
    forall cnt p acc t1 t2, (p + cnt <= length ms)%nat -> (p + cnt <= length bases)%nat -> 0 <= acc ->
    exists r, walk bases Nm (map (fun j => at_ r5 j + at_ ms j * ch) (hidden_of p cnt) ++ t1)
                   (map (at_ ms) (revealed_of p cnt) ++ t2) ch U cnt (N.of_nat p) acc = Ok r /\ 0 <= r /\
      r == acc * PP (skipn p bases) (firstn cnt (skipn p (map (fun q => fst q + snd q * ch) (combine r5 ms)))).
  Proof.
    intros Hch Hms Hr5 Hl Hrev. induction cnt as [|cnt IH]; intros p acc t1 t2 Hp Hb Ha.
    - cbn [walk firstn]. exists acc. split; [reflexivity|]. split; [assumption|]. cbn. apply eqm_eq. ring.
    - cbn [walk]. unfold nthZ. rewrite Nat2N.id.
      destruct (nth_error bases p) as [a|] eqn:Ea; [|apply nth_error_None in Ea; lia]. cbn [unwrap bind].
      assert (Hsk : skipn p bases = a :: skipn (Datatypes.S p) bases) by (apply nth_error_skipn; exact Ea).
      set (xs := map (fun q => fst q + snd q * ch) (combine r5 ms)) in *.
      assert (Hxl : length xs = length ms) by (unfold xs; rewrite map_length, combine_length; lia).
      assert (Hxp : nth_error xs p = Some (at_ r5 (N.of_nat p) + at_ ms (N.of_nat p) * ch)).
      { unfold xs, at_. rewrite Nat2N.id. rewrite nth_error_map.
        assert (Hc : nth_error (combine r5 ms) p = Some (nth p r5 0, nth p ms 0)).
        { clear -Hl Hp. revert r5 ms Hl Hp. induction p as [|p IHp]; intros [|r rs] [|m mm] Hl Hp; cbn in *; try lia; [reflexivity|]. apply IHp; lia. }
        rewrite Hc. reflexivity. }
      assert (Hskx : skipn p xs = (at_ r5 (N.of_nat p) + at_ ms (N.of_nat p) * ch) :: skipn (Datatypes.S p) xs) by (apply nth_error_skipn; exact Hxp).
      assert (Hmp : 0 <= at_ ms (N.of_nat p)).
      { unfold at_. rewrite Nat2N.id. rewrite Forall_forall in Hms. apply Hms. apply nth_In. lia. }
      assert (Hrp : 0 <= at_ r5 (N.of_nat p)).
      { unfold at_. rewrite Nat2N.id. rewrite Forall_forall in Hr5. apply Hr5. apply nth_In. lia. }
      rewrite Hsk, Hskx. cbn [firstn PP].
      unfold hidden_of, revealed_of. rewrite posN_S. cbn [filter].
      destruct (memb (N.of_nat p) U) eqn:Em; cbn [negb map app].
      + rewrite pow_mod_nonneg by nia. cbn [bind].
        replace (N.of_nat p + 1)%N with (N.of_nat (Datatypes.S p)) by lia.
        destruct (IH (Datatypes.S p) (acc * ((a ^ (at_ r5 (N.of_nat p) + at_ ms (N.of_nat p) * ch)) mod Nm)) t1 t2) as [r [Hw [Hr0 He]]];
          [lia|lia|apply Z.mul_nonneg_nonneg; [assumption|apply Z.mod_pos_bound; lia]|].
        exists r. split; [exact Hw|]. split; [exact Hr0|]. eapply eqm_trans; [exact He|].
        fold xs. apply eqm_trans with (b := (acc * a ^ (at_ r5 (N.of_nat p) + at_ ms (N.of_nat p) * ch)) * PP (skipn (Datatypes.S p) bases) (firstn cnt (skipn (Datatypes.S p) xs)));
          [|apply eqm_eq; ring].
        apply eqm_mul; [exact HN| |apply eqm_refl]. apply eqm_mul; [exact HN|apply eqm_refl|apply Zmod_eqm].
      + rewrite pow_mod_nonneg by nia. cbn [bind].
        replace (N.of_nat p + 1)%N with (N.of_nat (Datatypes.S p)) by lia.
        destruct (IH (Datatypes.S p) (acc * ((a ^ (at_ ms (N.of_nat p) + at_ ms (N.of_nat p) * ch)) mod Nm)) t1 t2) as [r [Hw [Hr0 He]]];
          [lia|lia|apply Z.mul_nonneg_nonneg; [assumption|apply Z.mod_pos_bound; lia]|].
        exists r. split; [exact Hw|]. split; [exact Hr0|]. eapply eqm_trans; [exact He|].
        fold xs. assert (Hrp' : at_ r5 (N.of_nat p) = at_ ms (N.of_nat p)) by (apply Hrev; [rewrite Nat2N.id; lia|exact Em]). rewrite Hrp'.
        apply eqm_trans with (b := (acc * a ^ (at_ ms (N.of_nat p) + at_ ms (N.of_nat p) * ch)) * PP (skipn (Datatypes.S p) bases) (firstn cnt (skipn (Datatypes.S p) xs)));
          [|apply eqm_eq; ring].
        apply eqm_mul; [exact HN| |apply eqm_refl]. apply eqm_mul; [exact HN|apply eqm_refl|apply Zmod_eqm].
  Qed.
End W.

(* ---------------------------------------------------------------- units modulo Nm *)
Section Units.
  Variable Nm : Z.
  Hypothesis HN : 0 < Nm.
  Local Infix "==" := (eqm Nm) (at level 70).

  Definition unit (x : Z) : Prop := exists y, x * y == 1.

  Lemma unit_invert x : unit x -> exists xi, invert x Nm = Some xi /\ x * xi == 1 /\ 0 <= xi < Nm.
  Proof.
    intros [y Hy]. destruct (invert_complete x Nm y HN Hy) as [xi Hxi]. exists xi. split; [exact Hxi|].
    pose proof (invert_spec _ _ _ Hxi) as [_ [Hr Hm]]. split; [exact Hm|exact Hr].
  Qed.

  Lemma invert_unit x xi : invert x Nm = Some xi -> unit x.
  Proof. intros H. exists xi. apply invert_eqm. exact H. Qed.

  Lemma unit_mul x y : unit x -> unit y -> unit (x * y).
  Proof.
    intros [x' Hx] [y' Hy]. exists (x' * y'). apply eqm_trans with (b := (x * x') * (y * y')); [apply eqm_eq; ring|].
    apply eqm_trans with (b := 1 * 1); [apply eqm_mul; assumption|apply eqm_refl].
  Qed.

  Lemma unit_pow' x k : 0 <= k -> unit x -> unit (x ^ k).
  Proof.
    intros Hk [x' Hx]. exists (x' ^ k). rewrite <- Z.pow_mul_l.
    apply eqm_trans with (b := 1 ^ k); [apply eqm_pow; assumption|]. rewrite Z.pow_1_l by assumption. apply eqm_refl.
  Qed.

  Lemma unit_eqm x y : x == y -> unit x -> unit y.
  Proof.
    intros H [x' Hx]. exists x'. apply eqm_trans with (b := x * x'); [apply eqm_mul; [exact HN|apply eqm_sym; exact H|apply eqm_refl]|exact Hx].
  Qed.

  Lemma unit_1 : unit 1.
  Proof. exists 1. apply eqm_refl. Qed.

  Lemma PP_unit bases : forall exps, Forall unit bases -> Forall (fun x => 0 <= x) exps -> unit (PP bases exps).
  Proof.
    induction bases as [|a bs IH]; intros exps Hb Hx.
    - destruct exps; cbn; apply unit_1.
    - destruct exps as [|x xs]; cbn; [apply unit_1|]. inversion Hb; inversion Hx; subst.
      apply unit_mul; [apply unit_pow'; assumption|apply IH; assumption].
  Qed.

  (* inv_of = divm 1 x: it succeeds exactly on units and returns the inverse *)
  Lemma inv_of_ok x ix : inv_of x Nm = Ok ix -> invert x Nm = Some ix /\ x * ix == 1 /\ 0 <= ix < Nm.
  Proof.
    unfold inv_of, divm. destruct (Z.eqb_spec Nm 0); [lia|]. rewrite Z.abs_eq by lia.
    destruct (invert x Nm) as [r|] eqn:Ei.
    - pose proof (invert_spec _ _ _ Ei) as [_ [Hr Hm]]. rewrite Z.mul_1_r. rewrite Z.rem_small by lia.
      intros H; inversion H; subst. split; [reflexivity|]. split; [exact Hm|exact Hr].
    - rewrite Z.gcd_1_l. rewrite Z.gcd_1_l. cbn [Z.eqb]. rewrite !Z.div_1_r. destruct (Z.eqb_spec Nm 0); [lia|].
      rewrite Z.abs_eq by lia. rewrite Ei. discriminate.
  Qed.

  Lemma inv_of_unit x : unit x -> exists ix, inv_of x Nm = Ok ix /\ x * ix == 1 /\ 0 <= ix < Nm.
  Proof.
    intros Hu. destruct (unit_invert x Hu) as [xi [Hi [Hm Hr]]]. exists xi. split; [|split; assumption].
    unfold inv_of, divm. destruct (Z.eqb_spec Nm 0); [lia|]. rewrite Z.abs_eq by lia. rewrite Hi.
    rewrite Z.mul_1_r, Z.rem_small by lia. reflexivity.
  Qed.

  (* C^(-ch) for a unit C *)
  Lemma pow_mod_neg_of_unit x c : 0 <= c -> unit x -> exists i, pow_mod x (- 1 * c) Nm = Ok i /\ 0 <= i < Nm /\ i * x ^ c == 1.
  Proof.
    intros Hc Hu. destruct (unit_invert x Hu) as [xi [Hi _]]. apply (pow_mod_neg_unit Nm HN x xi c Hc Hi).
  Qed.
End Units.

