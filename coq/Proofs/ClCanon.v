(* C14 / C15 / C16 (fix F19): accepted proofs carry CANONICAL residues -- the four commitments of the signature proof, the
   commitment a range proof is about and the auxiliary commitment F of each square proof lie in [0, n).  Before the fix
   X + n, X - n (and - X for the values that are only raised to even powers) were further encodings of the same proof.
   What remains (finding F19b): n - X for a value X that the verifier raises to an even power or to the challenge only. *)
From ZK Require Import Cl ClArith ClSig ClMore.
From Coq Require Import ZArith Lia List Bool.
Import ListNotations.
Open Scope Z_scope.

Lemma canon_false v n : ((v <? 0) || (n <=? v))%bool = false -> 0 <= v < n.
Proof. intros H. apply orb_false_iff in H as [H1 H2]. apply Z.ltb_ge in H1. apply Z.leb_gt in H2. lia. Qed.

Theorem nisp5_accepts_canonical p ck pk bases rmsgs U nsm :
  nisp5_verify p ck pk bases rmsgs U nsm = Ok true ->
  Forall (fun c => 0 <= c_value c < pk_N pk) [sp_Cx p; sp_Cv p; sp_Cw p; sp_Ce p].
Proof.
  unfold nisp5_verify. intros H.
  destruct (Nat.ltb (length bases) nsm && Nat.ltb (length (ck_g ck)) nsm)%bool; [discriminate|].
  destruct (negb (Nat.eqb (length (sp_s5 p)) (length U))); [discriminate|].
  destruct (existsb _ _) eqn:Ex; [discriminate|]. clear H.
  cbn [existsb] in Ex. repeat (apply orb_false_iff in Ex as [?E Ex]).
  repeat (apply Forall_cons; [apply canon_false; assumption|]). constructor.
Qed.

Theorem square_accepts_canonical p g h n : verify_of_square p g h n = Ok true -> 0 <= sq_F p < n.
Proof. unfold verify_of_square. destruct ((sq_F p <? 0) || (n <=? sq_F p))%bool eqn:E; [discriminate|]. intros _. apply canon_false. exact E. Qed.

Theorem boudot_accepts_canonical BP p g h n rmin rmax : boudot_verify BP p g h n rmin rmax = Ok true -> 0 <= bd_E p < n.
Proof.
  unfold boudot_verify. destruct (rmax <=? rmin); [discriminate|].
  destruct ((bd_E p <? 0) || (n <=? bd_E p))%bool eqn:E; [discriminate|]. intros _. apply canon_false. exact E.
Qed.
