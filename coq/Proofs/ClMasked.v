(* C19 / C17: the responses about the hidden attributes of a signature proof are masked END TO END -- for every attribute vector, every
   list U of hidden positions (in any order, with REPEATED positions, at positions beyond any machine word) and every log of draws in which
   random_bits(k) returned a value with bit k - 1 set (its contract; the C18 check observes it on every run):
       the k-th response is  r + m_(U_k) * c  with  r >= 2^(lm + MASK - 1),  so  floor(s / c) - m >= 2^64
   once 321 <= lm + MASK and 0 < c < 2^256.  The prover cannot return at all when a position of U lies outside the vector. *)
From ZK Require Import Cl ClArith ClSig ClMore ClConsts ClMask ClSpok ClSpok2 ClDraws ClTies.
From Coq Require Import ZArith Lia List Bool NArith.
Import ListNotations.
Open Scope Z_scope.

Definition bits_top (d : draw) : Prop := d_kind d = 0%N -> forall k, d_params d = [k] -> 2 ^ (k - 1) <= d_val d.

Lemma random_bits_top k ds r ds' : Forall bits_top ds -> random_bits k ds = Ok (r, ds') -> 2 ^ (k - 1) <= r /\ Forall bits_top ds'.
Proof.
  intros Hd H. unfold random_bits in H. destruct (Z.leb_spec k 0); [discriminate|]. unfold draw_req in H.
  destruct ds as [|d rest]; [discriminate|]. destruct (N.eqb_spec (d_kind d) 0) as [Hk|]; [|discriminate].
  destruct (zlist_eqb (d_params d) [k]) eqn:Ep; [|discriminate]. cbn [andb] in H. inversion H; subst.
  inversion Hd as [|? ? Hd0 Hdr]; subst. split; [|exact Hdr]. apply Hd0; [exact Hk|apply zlist_eqb_eq; exact Ep].
Qed.

Section MK.
  Variable CS : clsuite.

  Lemma r5_loop_top U : forall msgs i ds r5 ds',
    Forall bits_top ds -> r5_loop CS msgs i U ds = Ok (r5, ds') ->
    length r5 = length msgs /\ Forall bits_top ds' /\
    (forall k, (k < length msgs)%nat -> memb (i + N.of_nat k)%N U = true -> 2 ^ (lm CS + MASK - 1) <= nth k r5 0).
  Proof.
    induction msgs as [|m ms IH]; intros i ds r5 ds' Hd H; cbn [r5_loop] in H.
    - apply mret_ok in H as [-> ->]. repeat split; auto. intros k Hk. cbn in Hk. lia.
    - mstep H r d1 Hr. mstep H t d2 Ht. apply mret_ok in H as [-> ->].
      assert (Hr' : Forall bits_top d1 /\ (memb i U = true -> 2 ^ (lm CS + MASK - 1) <= r)).
      { destruct (memb i U).
        - apply random_bits_top in Hr as [Hr1 Hr2]; [|assumption]. auto.
        - apply mret_ok in Hr as [-> ->]. split; [assumption|discriminate]. }
      destruct Hr' as [Hd1 Hri].
      destruct (IH (i + 1)%N d1 t d2 Hd1 Ht) as [Hl [Hd2 Hrest]].
      split; [cbn; lia|]. split; [exact Hd2|].
      intros k Hk Hm. destruct k as [|k]; cbn [nth].
      + replace (i + N.of_nat 0)%N with i in Hm by lia. apply Hri. exact Hm.
      + apply Hrest; [cbn in Hk; lia|]. replace (i + 1 + N.of_nat k)%N with (i + N.of_nat (Datatypes.S k))%N by lia. exact Hm.
  Qed.

  Lemma mapM_resp_bounds r5 msgs ch : forall U s5,
    mapM (fun i => let* r := nthZ r5 i in let* m := nthZ msgs i in Ok (r + m * ch)) U = Ok s5 ->
    Forall (fun i => (N.to_nat i < length msgs)%nat) U.
  Proof.
    induction U as [|u us IH]; intros s5 H; [constructor|]. cbn [mapM] in H. unfold nthZ at 1 2 in H.
    destruct (nth_error r5 (N.to_nat u)) as [r|] eqn:Er; [|discriminate].
    destruct (nth_error msgs (N.to_nat u)) as [m|] eqn:Em; [|discriminate]. cbn [unwrap bind] in H.
    destruct (mapM _ us) as [t| | |] eqn:Et; try discriminate. constructor.
    - apply nth_error_Some. rewrite Em. discriminate.
    - eapply IH. reflexivity.
  Qed.

  Theorem nisp5_hidden_responses_masked sg ck pk bases msgs U ds p ds' :
    Forall bits_top ds ->
    nisp5_gen CS sg ck pk bases msgs U ds = Ok (p, ds') ->
    321 <= lm CS + MASK -> 0 < sp_chal p < 2 ^ 256 ->
    length (sp_s5 p) = length U /\
    forall k, (k < length U)%nat ->
      (N.to_nat (nth k U 0%N) < length msgs)%nat /\
      2 ^ 64 <= nth k (sp_s5 p) 0 / sp_chal p - at_ msgs (nth k U 0%N).
  Proof.
    intros Hd H Hk Hc. unfold nisp5_gen in H.
    destruct (Nat.ltb (length bases) (length msgs) && Nat.ltb (length (ck_g ck)) (length msgs))%bool; [discriminate|].
    mstep H CCx d1 HCx. mstep H CCv d2 HCv. mstep H CCw d3 HCw. mstep H CCe d4 HCe.
    mstep H r1 d5 Hr1. mstep H r2 d6 Hr2. mstep H r3 d7 Hr3. mstep H r4 d8 Hr4. mstep H r6 d9 Hr6.
    mstep H r7 d10 Hr7. mstep H r8 d11 Hr8. mstep H r9 d12 Hr9. mstep H r5 d13 Hr5.
    (* the draws that reach r5_loop still satisfy the contract *)
    assert (Hd12 : Forall bits_top d12).
    { pose proof (consumes_Forall (commit_with_cpk CS msgs ck None) bits_top ds CCx d1 (consumes_commit_with_cpk CS msgs ck None) HCx Hd) as A1.
      assert (A2 : Forall bits_top d2).
      { unfold commit_v in HCv. mstep HCv w e1 Hw. apply random_bits_top in Hw as [_ Hw]; [|exact A1].
        mstep HCv g0 e2 Hg0. apply lift_ok in Hg0 as [_ ->]. mstep HCv gw e3 Hgw. apply lift_ok in Hgw as [_ ->].
        apply mret_ok in HCv as [_ ->]. exact Hw. }
      pose proof (consumes_Forall (commit_with_cpk CS [c_rand CCv] ck None) bits_top d2 CCw d3 (consumes_commit_with_cpk CS [c_rand CCv] ck None) HCw A2) as A3.
      pose proof (consumes_Forall (commit_with_cpk CS [s_e sg] ck None) bits_top d3 CCe d4 (consumes_commit_with_cpk CS [s_e sg] ck None) HCe A3) as A4.
      apply random_bits_top in Hr1 as [_ B1]; [|exact A4]. apply random_bits_top in Hr2 as [_ B2]; [|exact B1].
      apply random_bits_top in Hr3 as [_ B3]; [|exact B2]. apply random_bits_top in Hr4 as [_ B4]; [|exact B3].
      apply random_bits_top in Hr6 as [_ B6]; [|exact B4]. apply random_bits_top in Hr7 as [_ B7]; [|exact B6].
      apply random_bits_top in Hr8 as [_ B8]; [|exact B7]. apply random_bits_top in Hr9 as [_ B9]; [|exact B8]. exact B9. }
    destruct (r5_loop_top U msgs 0%N d12 r5 d13 Hd12 Hr5) as [Hr5l [_ Hr5top]].
    repeat (let x := fresh "x" in let d := fresh "d" in let Hx := fresh "Hx" in
            match type of H with mbind (lift (mapM _ _)) _ _ = _ => fail 1 | mbind _ _ _ = _ => mstep H x d Hx end).
    mstep H s5 dz Hs5. apply mret_ok in H as [-> _]. apply lift_ok in Hs5 as [Hs5 _].
    cbn [sp_s5 sp_chal] in *.
    pose proof (mapM_resp_bounds _ _ _ _ _ Hs5) as HU. apply s5_map in Hs5. subst s5.
    split; [apply map_length|]. intros k Hk'.
    rewrite Forall_forall in HU. assert (Hin : In (nth k U 0%N) U) by (apply nth_In; exact Hk').
    specialize (HU _ Hin). split; [exact HU|].
    match goal with |- context [hash_int ?s] => set (c := hash_int s) in * end.
    rewrite (nth_indep _ 0 ((fun j => at_ r5 j + at_ msgs j * c) 0%N)) by (rewrite map_length; exact Hk').
    rewrite (map_nth (fun j => at_ r5 j + at_ msgs j * c)).
    set (j := nth k U 0%N) in *.
    assert (Hrj : 2 ^ (lm CS + MASK - 1) <= at_ r5 j).
    { unfold at_. specialize (Hr5top (N.to_nat j) HU). rewrite N.add_0_l, N2Nat.id in Hr5top.
      apply Hr5top. apply memb_in. exact Hin. }
    replace (at_ r5 j + at_ msgs j * c) with (at_ r5 j + c * at_ msgs j) by ring.
    eapply mask_ok; eassumption.
  Qed.

  (* ---------------------------------------------------------------- the issuance proof (multi-secret opening of the commitment) *)
  Lemma mmapM_bits_top k : forall (l : list N) ds r ds',
    Forall bits_top ds -> mmapM (fun _ => random_bits k) l ds = Ok (r, ds') ->
    Forall (fun b => 2 ^ (k - 1) <= b) r /\ length r = length l /\ Forall bits_top ds'.
  Proof.
    induction l as [|a l IH]; intros ds r ds' Hd H; cbn [mmapM] in H.
    - apply mret_ok in H as [-> ->]. repeat split; [constructor|assumption].
    - mstep H b d1 Hb. mstep H bs d2 Hbs. apply mret_ok in H as [-> ->].
      apply random_bits_top in Hb as [Hb1 Hd1]; [|assumption].
      destruct (IH d1 bs d2 Hd1 Hbs) as [Hf [Hl Hd2]].
      split; [constructor; assumption|]. split; [cbn; lia|assumption].
  Qed.

  (* every response about a hidden attribute of the issuance proof is masked -- whatever the attribute is (0 included), for every list of
     hidden positions; c is the challenge the prover hashed *)
  Theorem nispm_hidden_responses_masked msgs C pk bases U ds p ds' :
    Forall bits_top ds ->
    nispm_gen CS msgs C pk bases U ds = Ok (p, ds') ->
    321 <= lm CS + MASK ->
    let U' := (if Nat.eqb (length msgs) 1 then [0%N] else option_default [0%N] U) in
    exists sel, mapM (nthZ bases) U' = Ok sel /\
      let c := hash_int (str_cat (sel ++ [pk_b pk; c_value C; nm_t p])) in
      length (nm_s1 p) = length U' /\
      (0 < c < 2 ^ 256 ->
       forall k, (k < length U')%nat ->
         2 ^ 64 <= nth k (nm_s1 p) 0 / c - nth (N.to_nat (nth k U' 0%N)) msgs 1).
  Proof.
    intros Hd H Hk. cbv zeta. unfold nispm_gen in H.
    set (U' := if Nat.eqb (length msgs) 1 then [0%N] else option_default [0%N] U) in *.
    mstep H r1 d1 Hr1. mstep H r2 d2 Hr2. mstep H t0 d3 Ht0. mstep H sel d4 Hsel. mstep H hb d5 Hhb. mstep H s1 d6 Hs1.
    apply mret_ok in H as [-> _]. apply lift_ok in Hsel as [Hsel _]. apply lift_ok in Hs1 as [Hs1 _].
    destruct (mmapM_bits_top _ _ _ _ _ Hd Hr1) as [Hr1top [Hr1l _]].
    exists sel. split; [exact Hsel|]. cbn [nm_s1 nm_t].
    destruct (resp_idx_spec msgs _ U' r1 s1 Hr1l Hs1) as [Hls Hns].
    split; [exact Hls|]. intros Hc k Hk'.
    rewrite (Hns k Hk').
    assert (Hrk : 2 ^ (lm CS + MASK - 1) <= nth k r1 0).
    { rewrite Forall_forall in Hr1top. apply Hr1top. apply nth_In. lia. }
    eapply mask_ok; eassumption.
  Qed.

  (* ---------------------------------------------------------------- the trusted-party proof (nisp2): the hidden positions in ANY order *)
  Theorem nisp2_hidden_responses_masked msgs c1 c2 pk bases ck U ds p ds' :
    Forall bits_top ds ->
    nisp2_gen CS msgs c1 c2 pk bases ck U ds = Ok (p, ds') ->
    321 <= lm CS + MASK -> 0 < n2_chal p < 2 ^ 256 ->
    length (n2_d p) = length U /\
    forall k, (k < length U)%nat ->
      2 ^ 64 <= nth k (n2_d p) 0 / n2_chal p - nth (N.to_nat (nth k U 0%N)) msgs 1.
  Proof.
    intros Hd H Hk Hc. unfold nisp2_gen in H.
    destruct (Nat.ltb (length bases) (length msgs) && Nat.ltb (length msgs) (length (ck_g ck)))%bool; [discriminate|].
    mstep H omega d1 Ho. mstep H mu1 d2 Hm1. mstep H mu2 d3 Hm2. mstep H w1 d4 Hw1. mstep H w2 d5 Hw2.
    mstep H h1 d6 Hh1. mstep H h2 d7 Hh2. mstep H d d8 Hdd. apply mret_ok in H as [-> _].
    apply lift_ok in Hdd as [Hdd _]. cbn [n2_d n2_chal] in *.
    destruct (mmapM_bits_top _ _ _ _ _ Hd Ho) as [Hotop [Hol _]].
    destruct (resp_idx_spec msgs _ U omega d Hol Hdd) as [Hld Hnd].
    split; [exact Hld|]. intros k Hk'. rewrite (Hnd k Hk').
    assert (Hrk : 2 ^ (lm CS + MASK - 1) <= nth k omega 0).
    { rewrite Forall_forall in Hotop. apply Hotop. apply nth_In. lia. }
    eapply mask_ok; eassumption.
  Qed.
End MK.
