(* C16: completeness of the Boudot range proof -- every proof the honest prover returns verifies, for every modulus,
   every invertible pair of bases, every interval and every sequence of draws (randomness may be negative). *)
From ZK Require Import Cl ClArith ClSig ClMore ClGroup.
From Coq Require Import ZArith Lia Znumtheory Zpow_facts Zdiv.
Open Scope Z_scope.

Section B.
  Variable n : Z.
  Hypothesis Hn : 0 < n.
  Local Infix "==" := (eqm n) (at level 70).
  Local Notation gpn := (gp n).

  (* two integers in [0, n) that are congruent are equal *)
  Lemma eqm_small a b : 0 <= a < n -> 0 <= b < n -> a == b -> a = b.
  Proof. unfold eqm. intros Ha Hb H. rewrite (Z.mod_small a), (Z.mod_small b) in H by lia. exact H. Qed.

  Lemma rem_nonneg_mod a : 0 <= a -> Z.rem a n = a mod n.
  Proof. intros. apply rem_mod_nonneg; lia. Qed.

  Lemma eqm_mod' a : a mod n == a. Proof. apply Zmod_eqm. Qed.
  Lemma eqm_mul' a a' b b' : a == a' -> b == b' -> a * b == a' * b'. Proof. apply eqm_mul; exact Hn. Qed.
  Lemma eqm_pow' a b k : a == b -> a ^ k == b ^ k. Proof. apply eqm_pow; exact Hn. Qed.

  (* ---------------------------------------------------------------- commitments with invertible bases *)
  Section Bases.
    Variables g gi h hi : Z.
    Hypothesis Hg : invert g n = Some gi.
    Hypothesis Hh : invert h n = Some hi.
    Let G := gpn g gi.
    Let H := gpn h hi.
    Let Hgu : g * gi == 1 := invert_eqm n g gi Hg.
    Let Hhu : h * hi == 1 := invert_eqm n h hi Hh.

    Definition Cm (x r : Z) : Z := (G x * H r) mod n.

    Lemma com2_Cm x r : com2 g x h r n = Ok (Cm x r).
    Proof.
      unfold com2. rewrite (pow_mod_gp n Hn g gi x Hg), (pow_mod_gp n Hn h hi r Hh). cbn [bind].
      rewrite rem_nonneg_mod; [reflexivity|].
      apply Z.mul_nonneg_nonneg; apply gp_range; exact Hn.
    Qed.

    Lemma Cm_range x r : 0 <= Cm x r < n.
    Proof. unfold Cm. apply Z.mod_pos_bound; lia. Qed.

    Lemma Cm_eqm x r : Cm x r == G x * H r.
    Proof. apply eqm_mod'. Qed.

    (* a commitment is a unit: its inverse is the commitment to the opposite opening *)
    Lemma Cm_unit x r : Cm x r * Cm (- x) (- r) == 1.
    Proof.
      eapply eqm_trans; [apply eqm_mul'; apply Cm_eqm|].
      apply eqm_trans with (b := (G x * G (- x)) * (H r * H (- r))); [apply eqm_eq; ring|].
      apply eqm_trans with (b := 1 * 1); [|apply eqm_refl].
      apply eqm_mul'; [apply (gp_opp n Hn g gi Hgu)|apply (gp_opp n Hn h hi Hhu)].
    Qed.

    Lemma Cm_invertible x r : exists i, invert (Cm x r) n = Some i.
    Proof. apply invert_complete with (y := Cm (- x) (- r)); [exact Hn|]. apply Cm_unit. Qed.

    Lemma Cm_add x1 r1 x2 r2 : Cm x1 r1 * Cm x2 r2 == Cm (x1 + x2) (r1 + r2).
    Proof.
      eapply eqm_trans; [apply eqm_mul'; apply Cm_eqm|]. apply eqm_sym. eapply eqm_trans; [apply Cm_eqm|].
      apply eqm_trans with (b := (G x1 * G x2) * (H r1 * H r2)); [|apply eqm_eq; ring].
      apply eqm_mul'; [apply (gp_add n Hn g gi Hgu)|apply (gp_add n Hn h hi Hhu)].
    Qed.

    Lemma Cm_pow x r c : 0 <= c -> Cm x r ^ c == Cm (x * c) (r * c).
    Proof.
      intros Hc. apply eqm_trans with (b := (G x * H r) ^ c); [apply eqm_pow'; apply Cm_eqm|].
      rewrite Z.pow_mul_l. apply eqm_sym. eapply eqm_trans; [apply Cm_eqm|].
      apply eqm_mul'; [apply (gp_mul n Hn g gi); exact Hc|apply (gp_mul n Hn h hi); exact Hc].
    Qed.
  End Bases.

  (* E^(-c) for a unit E: the model's pow_mod returns an inverse of E^c *)
  Lemma pow_mod_neg_unit E Ei c : 0 <= c -> invert E n = Some Ei ->
    exists i, pow_mod E (- 1 * c) n = Ok i /\ 0 <= i < n /\ i * E ^ c == 1.
  Proof.
    intros Hc Hi. replace (- 1 * c) with (- c) by ring.
    assert (Hex : exists i, pow_mod E (- c) n = Ok i).
    { unfold pow_mod. destruct (Z.leb_spec n 0); [lia|]. destruct (Z.leb_spec 0 (- c)); [eauto|]. rewrite Hi. eauto. }
    destruct Hex as [i Hpi]. exists i. split; [exact Hpi|]. apply pow_mod_negz_spec in Hpi; [|exact Hc]. exact Hpi.
  Qed.

  (* w * E^c * i == w when i inverts E^c *)
  Lemma cancel_unit w Ec i : i * Ec == 1 -> w * Ec * i == w.
  Proof.
    intros H. apply eqm_trans with (b := w * (i * Ec)); [apply eqm_eq; ring|].
    apply eqm_trans with (b := w * 1); [apply eqm_mul'; [apply eqm_refl|exact H]|apply eqm_eq; ring].
  Qed.

  (* ---------------------------------------------------------------- Algorithms 1 / 2: same secret *)
  Section SameSecret.
    Variables g1 g1i h1 h1i g2 g2i h2 h2i : Z.
    Hypothesis Hg1 : invert g1 n = Some g1i. Hypothesis Hh1 : invert h1 n = Some h1i.
    Hypothesis Hg2 : invert g2 n = Some g2i. Hypothesis Hh2 : invert h2 n = Some h2i.

    Lemma same_secret_side g gi h hi (Hg : invert g n = Some gi) (Hh : invert h n = Some hi) E Ei x r omega mu c i :
      0 <= c -> E == Cm g gi h hi x r -> invert E n = Some Ei ->
      pow_mod E (- 1 * c) n = Ok i ->
      Z.rem (gpn g gi (omega + c * x) * gpn h hi (mu + c * r) * i) n = Cm g gi h hi omega mu.
    Proof.
      intros Hc HE HEi Hi.
      destruct (pow_mod_neg_unit E Ei c Hc HEi) as [i' [Hi' [Hir Hinv]]]. rewrite Hi in Hi'. inversion Hi'; subst i'; clear Hi'.
      rewrite rem_nonneg_mod.
      2:{ apply Z.mul_nonneg_nonneg; [apply Z.mul_nonneg_nonneg; apply gp_range; exact Hn|lia]. }
      apply eqm_small; [apply Z.mod_pos_bound; lia|apply Cm_range|].
      eapply eqm_trans; [apply eqm_mod'|].
      pose proof (invert_eqm n g gi Hg) as Hgu. pose proof (invert_eqm n h hi Hh) as Hhu.
      (* g^(omega + c x) h^(mu + c r) == Cm omega mu * E^c *)
      assert (Hmain : gpn g gi (omega + c * x) * gpn h hi (mu + c * r) == Cm g gi h hi omega mu * E ^ c).
      { apply eqm_trans with (b := Cm g gi h hi omega mu * Cm g gi h hi (x * c) (r * c)).
        - apply eqm_sym. eapply eqm_trans; [apply (Cm_add g gi h hi Hg Hh)|].
          eapply eqm_trans; [apply Cm_eqm|]. replace (omega + x * c) with (omega + c * x) by ring.
          replace (mu + r * c) with (mu + c * r) by ring. apply eqm_refl.
        - apply eqm_mul'; [apply eqm_refl|]. apply eqm_sym.
          apply eqm_trans with (b := Cm g gi h hi x r ^ c); [apply eqm_pow'; exact HE|].
          apply Cm_pow. exact Hc. }
      apply eqm_trans with (b := Cm g gi h hi omega mu * E ^ c * i); [apply eqm_mul'; [exact Hmain|apply eqm_refl]|].
      apply cancel_unit. exact Hinv.
    Qed.

    Theorem same_secret_complete BP x r1 r2 b s2x E Ei F Fi ds p ds' :
      E == Cm g1 g1i h1 h1i x r1 -> F == Cm g2 g2i h2 h2i x r2 ->
      invert E n = Some Ei -> invert F n = Some Fi ->
      proof_same_secret BP x r1 r2 g1 h1 g2 h2 b n s2x ds = Ok (p, ds') ->
      verify_same_secret E F g1 h1 g2 h2 n p = Ok true.
    Proof.
      intros HE HF HEi HFi H. unfold proof_same_secret in H.
      mstep H omega d1 Ho. mstep H mu1 d2 H1. mstep H mu2 d3 H2. mstep H w1 d4 Hw1. mstep H w2 d5 Hw2.
      apply mret_ok in H as [-> _].
      apply lift_ok in Hw1 as [Hw1 _]. apply lift_ok in Hw2 as [Hw2 _].
      rewrite (com2_Cm g1 g1i h1 h1i Hg1 Hh1) in Hw1. rewrite (com2_Cm g2 g2i h2 h2i Hg2 Hh2) in Hw2.
      inversion Hw1; subst w1. inversion Hw2; subst w2. clear Hw1 Hw2.
      set (ch := hash_int (str_cat [Cm g1 g1i h1 h1i omega mu1; Cm g2 g2i h2 h2i omega mu2])) in *.
      assert (Hch : 0 <= ch) by (unfold ch, hash_int; lia).
      unfold verify_same_secret. cbn [ss_chal ss_d ss_d1 ss_d2].
      destruct (pow_mod_neg_unit E Ei ch Hch HEi) as [iE [HiE _]].
      destruct (pow_mod_neg_unit F Fi ch Hch HFi) as [iF [HiF _]].
      rewrite HiE, HiF. cbn [bind].
      rewrite (pow_mod_gp n Hn g1 g1i _ Hg1), (pow_mod_gp n Hn h1 h1i _ Hh1). cbn [bind].
      rewrite (pow_mod_gp n Hn g2 g2i _ Hg2), (pow_mod_gp n Hn h2 h2i _ Hh2). cbn [bind].
      rewrite (same_secret_side g1 g1i h1 h1i Hg1 Hh1 E Ei x r1 omega mu1 ch iE Hch HE HEi HiE).
      rewrite (same_secret_side g2 g2i h2 h2i Hg2 Hh2 F Fi x r2 omega mu2 ch iF Hch HF HFi HiF).
      fold ch. rewrite Z.eqb_refl. reflexivity.
    Qed.
  End SameSecret.
End B.

Section B2.
  Variable n : Z.
  Hypothesis Hn : 0 < n.
  Local Infix "==" := (eqm n) (at level 70).
  Variables g gi h hi : Z.
  Hypothesis Hg : invert g n = Some gi.
  Hypothesis Hh : invert h n = Some hi.
  Local Notation C := (Cm n g gi h hi).
  Local Notation G := (gp n g gi).
  Local Notation Hp := (gp n h hi).

  (* ---------------------------------------------------------------- Algorithms 3 / 4: proof of square *)
  Theorem square_complete BP x r1 b s2x ds p ds' :
    0 <= x ->
    proof_of_square BP x r1 g h (C (x ^ 2) r1) b n s2x ds = Ok (p, ds') ->
    sq_E p = C (x ^ 2) r1 /\ verify_of_square p g h n = Ok true.
  Proof.
    intros Hx H. unfold proof_of_square in H.
    mstep H r2 d1 Hr2. mstep H F d2 HF. mstep H ss d3 Hss. apply mret_ok in H as [-> _].
    apply lift_ok in HF as [HF _]. rewrite (com2_Cm n Hn g gi h hi Hg Hh) in HF. inversion HF; subst F; clear HF.
    cbn [sq_E sq_F sq_ss]. split; [reflexivity|].
    unfold verify_of_square. cbn [sq_E sq_F sq_ss].
    pose proof (Cm_range n Hn g gi h hi x r2) as HFr.
    destruct (Z.ltb_spec (C x r2) 0) as [|_]; [lia|]. destruct (Z.leb_spec n (C x r2)) as [|_]; [lia|]. cbn [orb].
    destruct (Cm_invertible n Hn g gi h hi Hg Hh x r2) as [Fi HFi].
    destruct (Cm_invertible n Hn g gi h hi Hg Hh (x ^ 2) r1) as [Ei HEi].
    eapply (same_secret_complete n Hn g gi h hi (C x r2) Fi h hi Hg Hh HFi Hh BP x r2 (r1 - r2 * x) b s2x (C x r2) Fi (C (x ^ 2) r1) Ei);
      [apply eqm_refl| |exact HFi|exact HEi|exact Hss].
    (* E = F^x * h^(r1 - r2 x) *)
    pose proof (invert_eqm n (C x r2) Fi HFi) as HFu. pose proof (invert_eqm n h hi Hh) as Hhu. pose proof (invert_eqm n g gi Hg) as Hgu.
    apply eqm_sym. eapply eqm_trans; [apply Cm_eqm|].
    (* gp (C x r2) Fi x = (C x r2)^x mod n for x >= 0 *)
    assert (HFx : gp n (C x r2) Fi x == C x r2 ^ x).
    { unfold gp. destruct (Z.leb_spec 0 x); [apply Zmod_eqm|lia]. }
    apply eqm_trans with (b := C (x * x) (r2 * x) * Hp (r1 - r2 * x)).
    - apply eqm_mul; [exact Hn| |apply eqm_refl].
      eapply eqm_trans; [exact HFx|]. apply (Cm_pow n Hn g gi h hi). exact Hx.
    - eapply eqm_trans; [apply eqm_mul; [exact Hn|apply Cm_eqm|apply eqm_refl]|].
      apply eqm_trans with (b := G (x * x) * (Hp (r2 * x) * Hp (r1 - r2 * x))); [apply eqm_eq; ring|].
      apply eqm_sym. eapply eqm_trans; [apply Cm_eqm|].
      replace (x ^ 2) with (x * x) by ring.
      apply eqm_mul; [exact Hn|apply eqm_refl|].
      replace r1 with (r2 * x + (r1 - r2 * x)) at 1 by ring. apply (gp_add n Hn h hi Hhu).
  Qed.

  (* ---------------------------------------------------------------- Algorithms 5 / 6: larger interval *)
  Theorem large_interval_complete BP x r b T ds p ds' :
    0 <= b_t BP ->
    proof_large_interval BP x r g h b n T ds = Ok (p, ds') ->
    verify_large_interval BP p (C x r) g h n b T = Ok true.
  Proof.
    intros Ht H. unfold proof_large_interval in H. apply loop_until_exit in H as [ds1 H].
    mstep H w d1 Hw. mstep H nu d2 Hnu. mstep H omega d3 Ho. apply mret_ok in H as [H _].
    apply lift_ok in Ho as [Ho _]. rewrite (com2_Cm n Hn g gi h hi Hg Hh) in Ho. inversion Ho; subst omega; clear Ho.
    set (Cc := hash_int (to_string (C w nu))) in *.
    set (c := Z.rem Cc (two (b_t BP))) in *.
    destruct ((c * b <=? w + x * c) && (w + x * c <=? li_upper BP T b)) eqn:Ec; [|discriminate].
    inversion H; subst p; clear H.
    assert (Hc : 0 <= c).
    { unfold c. apply Z.rem_nonneg; [|unfold Cc, hash_int; lia]. unfold two. apply Z.pow_nonzero; lia. }
    unfold verify_large_interval. cbn [li_C li_D1 li_D2]. fold Cc. fold c.
    destruct (Cm_invertible n Hn g gi h hi Hg Hh x r) as [Ei HEi].
    destruct (pow_mod_neg_unit n Hn (C x r) Ei c Hc HEi) as [iE [HiE _]]. rewrite HiE. cbn [bind].
    rewrite (pow_mod_gp n Hn g gi _ Hg), (pow_mod_gp n Hn h hi _ Hh). cbn [bind].
    replace (w + x * c) with (w + c * x) by ring. replace (nu + r * c) with (nu + c * r) by ring.
    rewrite (same_secret_side n Hn g gi h hi Hg Hh (C x r) Ei x r w nu c iE Hc (eqm_refl n _) HEi HiE).
    fold Cc. replace (w + c * x) with (w + x * c) by ring. rewrite Ec. rewrite Z.eqb_refl. reflexivity.
  Qed.
End B2.

Section B3.
  Variable n : Z.
  Hypothesis Hn : 0 < n.
  Local Infix "==" := (eqm n) (at level 70).
  Variables g gi h hi : Z.
  Hypothesis Hg : invert g n = Some gi.
  Hypothesis Hh : invert h n = Some hi.
  Local Notation C := (Cm n g gi h hi).

  (* cancellation by a unit *)
  Lemma unit_cancel u v b bi : b * bi == 1 -> u * b == v * b -> u == v.
  Proof.
    intros Hb H.
    apply eqm_trans with (b := u * b * bi).
    - apply eqm_sym. apply eqm_trans with (b := u * (b * bi)); [apply eqm_eq; ring|].
      apply eqm_trans with (b := u * 1); [apply eqm_mul; [exact Hn|apply eqm_refl|exact Hb]|apply eqm_eq; ring].
    - apply eqm_trans with (b := v * b * bi); [apply eqm_mul; [exact Hn|exact H|apply eqm_refl]|].
      apply eqm_trans with (b := v * (b * bi)); [apply eqm_eq; ring|].
      apply eqm_trans with (b := v * 1); [apply eqm_mul; [exact Hn|apply eqm_refl|exact Hb]|apply eqm_eq; ring].
  Qed.

  (* the quotient of two commitments (divm) is the commitment to the difference of the openings *)
  Lemma divm_Cm x1 r1 x2 r2 : divm (C x1 r1) (C x2 r2) n = Ok (C (x1 - x2) (r1 - r2)).
  Proof.
    unfold divm. destruct (Z.eqb_spec n 0); [lia|]. rewrite Z.abs_eq by lia.
    destruct (Cm_invertible n Hn g gi h hi Hg Hh x2 r2) as [bi Hbi]. rewrite Hbi.
    pose proof (invert_spec _ _ _ Hbi) as [_ [Hbr _]].
    pose proof (invert_eqm n _ _ Hbi) as Hbu.
    f_equal. rewrite rem_mod_nonneg; [| |lia].
    2:{ apply Z.mul_nonneg_nonneg; [lia|apply Cm_range; exact Hn]. }
    apply (eqm_small n); [apply Z.mod_pos_bound; lia|apply Cm_range; exact Hn|].
    eapply eqm_trans; [apply Zmod_eqm|].
    apply (unit_cancel _ _ (C x2 r2) bi Hbu).
    apply eqm_trans with (b := C x1 r1 * (C x2 r2 * bi)); [apply eqm_eq; ring|].
    apply eqm_trans with (b := C x1 r1 * 1); [apply eqm_mul; [exact Hn|apply eqm_refl|exact Hbu]|].
    apply eqm_trans with (b := C x1 r1); [apply eqm_eq; ring|].
    apply eqm_sym. eapply eqm_trans; [apply (Cm_add n Hn g gi h hi Hg Hh)|].
    replace (x1 - x2 + x2) with x1 by ring. replace (r1 - r2 + r2) with r1 by ring. apply eqm_refl.
  Qed.

  (* g^e as a commitment with randomness 0 *)
  Lemma gp_as_Cm e : gp n g gi e = C e 0.
  Proof.
    apply (eqm_small n); [apply gp_range; exact Hn|apply Cm_range; exact Hn|].
    apply eqm_sym. eapply eqm_trans; [apply Cm_eqm|].
    apply eqm_trans with (b := gp n g gi e * 1); [apply eqm_mul; [exact Hn|apply eqm_refl|apply gp_0]|apply eqm_eq; ring].
  Qed.

  Lemma split_r_exit BP r T target ds ra1 ra2 ds' : split_r BP r n T target ds = Ok ((ra1, ra2), ds') -> ra2 = target - ra1.
  Proof.
    intros H. unfold split_r in H. apply loop_until_exit in H as [ds1 H].
    mstep H v0 d Hv0. apply mret_ok in H as [H _].
    destruct (_ && _ && _)%bool; [|discriminate]. inversion H; subst. reflexivity.
  Qed.

  (* ---------------------------------------------------------------- Algorithms 7 / 8: proof with tolerance *)
  Theorem tolerance_complete BP x r a b T ds p ds' :
    0 <= b_t BP ->
    proof_of_tolerance BP x r g h n a b T ds = Ok (p, ds') ->
    verify_of_tolerance BP p g h (C x r) n a b T = Ok true.
  Proof.
    intros Ht H. unfold proof_of_tolerance in H.
    mstep H aa d1 Haa. mstep H bb d2 Hbb. mstep H xa1 d3 Hxa1. mstep H xb1 d4 Hxb1.
    mstep H ra d5 Hra. destruct ra as [ra1 ra2]. mstep H rb d6 Hrb. destruct rb as [rb1 rb2].
    mstep H Ea1 d7 HEa1. mstep H Ea2 d8 HEa2. mstep H Eb1 d9 HEb1. mstep H Eb2 d10 HEb2.
    mstep H sqa d11 Hsqa. mstep H sqb d12 Hsqb. mstep H pla d13 Hlia. mstep H plb d14 Hlib.
    apply mret_ok in H as [-> _].
    apply lift_ok in Haa as [Haa _]. apply lift_ok in Hbb as [Hbb _].
    apply lift_ok in Hxa1 as [Hxa1 _]. apply lift_ok in Hxb1 as [Hxb1 _].
    apply lift_ok in HEa1 as [HEa1 _]. apply lift_ok in HEa2 as [HEa2 _].
    apply lift_ok in HEb1 as [HEb1 _]. apply lift_ok in HEb2 as [HEb2 _].
    rewrite (com2_Cm n Hn g gi h hi Hg Hh) in HEa1, HEa2, HEb1, HEb2.
    inversion HEa1; subst Ea1. inversion HEa2; subst Ea2. inversion HEb1; subst Eb1. inversion HEb2; subst Eb2.
    clear HEa1 HEa2 HEb1 HEb2.
    apply split_r_exit in Hra. apply split_r_exit in Hrb. subst ra2 rb2.
    assert (Hxa1n : 0 <= xa1).
    { unfold zsqrt in Hxa1. destruct (x - aa <? 0); [discriminate|]. inversion Hxa1. apply Z.sqrt_nonneg. }
    assert (Hxb1n : 0 <= xb1).
    { unfold zsqrt in Hxb1. destruct (bb - x <? 0); [discriminate|]. inversion Hxb1. apply Z.sqrt_nonneg. }
    destruct (square_complete n Hn g gi h hi Hg Hh BP xa1 ra1 _ _ _ _ _ Hxa1n Hsqa) as [HsqaE Hsqav].
    destruct (square_complete n Hn g gi h hi Hg Hh BP xb1 rb1 _ _ _ _ _ Hxb1n Hsqb) as [HsqbE Hsqbv].
    pose proof (large_interval_complete n Hn g gi h hi Hg Hh BP _ _ b T _ _ _ Ht Hlia) as Hliav.
    pose proof (large_interval_complete n Hn g gi h hi Hg Hh BP _ _ b T _ _ _ Ht Hlib) as Hlibv.
    unfold verify_of_tolerance.
    rewrite Haa, Hbb. cbn [bind].
    rewrite !(pow_mod_gp n Hn g gi _ Hg). cbn [bind]. rewrite !gp_as_Cm.
    rewrite !divm_Cm. cbn [bind].
    cbn [wt_Ea1 wt_Ea2 wt_Eb1 wt_Eb2 wt_sqa wt_sqb wt_lia wt_lib]. rewrite !divm_Cm. cbn [bind].
    rewrite HsqaE, HsqbE.
    change (Z.pow_pos xa1 2) with (xa1 ^ 2) in *. change (Z.pow_pos xb1 2) with (xb1 ^ 2) in *.
    replace (r - 0 - ra1) with (r - ra1) by ring.
    replace (0 - r - rb1) with (-1 * r - rb1) by ring.
    rewrite !Z.eqb_refl. cbn [andb].
    rewrite Hsqav, Hsqbv. cbn [bind]. rewrite Hliav, Hlibv. cbn [bind]. reflexivity.
  Qed.

  (* ---------------------------------------------------------------- Algorithms 9 / 10 and prove / verify *)
  Theorem boudot_complete BP value c rmin rmax ds p ds' :
    0 <= b_t BP ->
    c_value c = C value (c_rand c) ->
    boudot_prove BP value c g h n rmin rmax ds = Ok (p, ds') ->
    boudot_verify BP p g h n rmin rmax = Ok true.
  Proof.
    intros Ht HC H. unfold boudot_prove in H.
    destruct (Z.leb_spec rmax rmin) as [|Hr]; [discriminate|].
    set (T := range_T BP rmin rmax) in *.
    mstep H Ep d1 HEp. mstep H wt d2 Hwt. apply mret_ok in H as [-> _]. apply lift_ok in HEp as [HEp _].
    assert (H2T : 0 <= two T) by (unfold two; apply Z.pow_nonneg; lia).
    assert (HEpv : Ep = C (two T * value) (two T * c_rand c)).
    { rewrite pow_mod_nonneg in HEp by lia. inversion HEp; subst Ep.
      apply (eqm_small n); [apply Z.mod_pos_bound; lia|apply Cm_range; exact Hn|].
      eapply eqm_trans; [apply Zmod_eqm|]. rewrite HC.
      eapply eqm_trans; [apply (Cm_pow n Hn g gi h hi); exact H2T|].
      replace (value * two T) with (two T * value) by ring. replace (c_rand c * two T) with (two T * c_rand c) by ring. apply eqm_refl. }
    unfold boudot_verify. destruct (Z.leb_spec rmax rmin); [lia|]. fold T.
    cbn [bd_E bd_Eprime bd_wt].
    pose proof (Cm_range n Hn g gi h hi value (c_rand c)) as HEr. rewrite <- HC in HEr.
    destruct (Z.ltb_spec (c_value c) 0) as [|_]; [lia|]. destruct (Z.leb_spec n (c_value c)) as [|_]; [lia|]. cbn [orb].
    rewrite HEp. cbn [bind]. rewrite Z.eqb_refl.
    rewrite HEpv. eapply tolerance_complete; [exact Ht|exact Hwt].
  Qed.
End B3.
