(* C02 (reduction part): if one signature is accepted for two different (message vector, header) pairs of the same
   length under the same key, then the acceptance CONSTRUCTS either a non-trivial discrete-log relation among the
   generators Q1, H_1..H_L, or a collision of the hash that maps the domain octets (resp. a message) to a scalar.
   No injectivity hypothesis on any hash function is made: the colliding inputs are exhibited. *)
From ZK Require Import Laws BaseLemmas ModelLemmas SignProofs UpdateProofs Separation.
Open Scope N_scope.

Lemma app_eq_len_split {A} (a1 a2 b1 b2 : list A) : length a1 = length a2 -> a1 ++ b1 = a2 ++ b2 -> a1 = a2 /\ b1 = b2.
Proof.
  revert a2. induction a1 as [|x a1 IH]; intros [|y a2] Hl H; cbn in *; try discriminate; [auto|].
  inversion H; subst. destruct (IH a2) as [-> ->]; [lia|assumption|]. auto.
Qed.

Section Bind.
  Context (E : env) (LW : Laws E).
  Notation S := (SO E).
  Notation P := (PR E).
  Notation Fd := (F S).
  Notation G1t := (@G1 S P).
  Notation G2t := (@G2 S P).

  Local Notation "0" := (f0 S).
  Local Notation "1" := (f1 S).
  Local Infix "+" := (fadd S).
  Local Infix "*" := (fmul S).
  Local Infix "-" := (fsub S).
  Local Notation "- x" := (fopp S x).
  Local Notation d1 := (dl1 E LW).
  Local Notation d2 := (dl2 E LW).

  Add Field Ffbind : (Fth E LW).

  (* a non-trivial relation sum_i c_i * G_i = O among the points G *)
  Definition DLRelation (G : list G1t) (cs : list Fd) : Prop :=
    length cs = length G /\ existsb (fun x => negb (feqb S x 0)) cs = true /\ dot E LW G cs = 0.

  Fixpoint zip_sub (a b : list Fd) : list Fd :=
    match a, b with x :: a', y :: b' => (x - y) :: zip_sub a' b' | _, _ => [] end.

  Lemma zip_sub_length a b : length a = length b -> length (zip_sub a b) = length a.
  Proof. revert b; induction a as [|x a IH]; intros [|y b] H; cbn in *; try discriminate; auto. Qed.

  Lemma dot_zip_sub (G : list G1t) a b : length a = length b ->
    dot E LW G (zip_sub a b) = dot E LW G a - dot E LW G b.
  Proof.
    revert a b. induction G as [|g G IH]; intros a b H.
    - destruct a, b; cbn; try ring; destruct (zip_sub _ _); ring.
    - destruct a as [|x a], b as [|y b]; cbn in H; try discriminate; cbn; [ring|]. rewrite IH by lia. ring.
  Qed.

  Lemma zip_sub_all_zero a b : length a = length b ->
    existsb (fun x => negb (feqb S x 0)) (zip_sub a b) = false -> a = b.
  Proof.
    revert b. induction a as [|x a IH]; intros [|y b] H Hz; cbn in *; try discriminate; [reflexivity|].
    apply orb_false_iff in Hz as [H1 H2]. apply negb_false_iff in H1. apply (feqb_true E LW) in H1.
    f_equal; [|apply IH; [lia|exact H2]].
    transitivity (x - y + y); [ring|]. rewrite H1. ring.
  Qed.

  (* the octets hashed into the domain scalar *)
  Definition dom_input (pk : G2t) (Q1 : G1t) (H : list G1t) (header : option bytes) (api : bytes) : bytes :=
    let header := option_default [] header in
    pk_to_bytes E pk ++ (i2osp8 (len H) ++ g1_enc P Q1 ++ serialize_g1 E H ++ api) ++ i2osp8 (len header) ++ header.

  Lemma calculate_domain_eq pk Q1 H header api dom : calculate_domain E pk Q1 H header api = Ok dom ->
    dom = f_of_okm S (expand E (dom_input pk Q1 H header api) (api ++ c_h2s (cs E)) 48).
  Proof.
    unfold calculate_domain, hash_to_scalar. destruct (Nat.ltb _ _); [discriminate|]. intros Hd; inversion Hd. reflexivity.
  Qed.

  (* different headers (as octet strings, None = empty) give different domain octets *)
  Lemma dom_input_header_inj pk Q1 H h h' api :
    len (option_default [] h) <= usize_max -> len (option_default [] h') <= usize_max ->
    dom_input pk Q1 H h api = dom_input pk Q1 H h' api -> option_default [] h = option_default [] h'.
  Proof.
    unfold dom_input. intros B1 B2 Heq.
    apply app_inv_head in Heq. apply app_inv_head in Heq.
    set (a := option_default [] h) in *. set (b := option_default [] h') in *.
    apply app_eq_len_split in Heq as [_ Hab]; [exact Hab|rewrite !i2osp8_length; reflexivity].
  Qed.

  (* ---- the reduction, at the level of scalar vectors *)
  Theorem verify_binding_core pk s ms ms' g header header' api :
    core_verify E pk s ms g header api = Ok tt ->
    core_verify E pk s ms' g header' api = Ok tt ->
    len (option_default [] header) <= usize_max -> len (option_default [] header') <= usize_max ->
    (ms <> ms' \/ option_default [] header <> option_default [] header') ->
    exists Q1 H, g_values E g = Q1 :: H /\
      (DLRelation (Q1 :: H) ((fsub S (f_of_okm S (expand E (dom_input pk Q1 H header api) (api ++ c_h2s (cs E)) 48))
                                     (f_of_okm S (expand E (dom_input pk Q1 H header' api) (api ++ c_h2s (cs E)) 48)))
                              :: zip_sub ms ms')
       \/ Collision (fun x => f_of_okm S (expand E x (api ++ c_h2s (cs E)) 48))
                    (dom_input pk Q1 H header api) (dom_input pk Q1 H header' api)).
  Proof.
    intros V1 V2 B1 B2 Hne.
    apply (core_verify_iff E LW) in V1 as [B [HB1 E1]]. apply (core_verify_iff E LW) in V2 as [B' [HB2 E2]].
    unfold B_of in HB1, HB2.
    destruct (negb (Nat.eqb (length (g_values E g)) (length ms + 1))) eqn:L1; [discriminate|].
    destruct (negb (Nat.eqb (length (g_values E g)) (length ms' + 1))) eqn:L2; [discriminate|].
    apply negb_false_iff, Nat.eqb_eq in L1, L2.
    destruct (g_values E g) as [|Q1 H] eqn:Eg; [cbn in L1; lia|].
    cbn [index nth_error unwrap bind skipn] in HB1, HB2.
    destruct (calculate_domain E pk Q1 H header api) as [dom| | |] eqn:D1; cbn [bind] in HB1; try discriminate.
    destruct (calculate_domain E pk Q1 H header' api) as [dom'| | |] eqn:D2; cbn [bind] in HB2; try discriminate.
    inversion HB1; subst B; clear HB1. inversion HB2; subst B'; clear HB2.
    apply calculate_domain_eq in D1, D2.
    exists Q1, H. split; [reflexivity|].
    set (hd := fun x => f_of_okm S (expand E x (api ++ c_h2s (cs E)) 48)) in *.
    fold (hd (dom_input pk Q1 H header api)) in D1. fold (hd (dom_input pk Q1 H header' api)) in D2.
    fold (hd (dom_input pk Q1 H header api)). fold (hd (dom_input pk Q1 H header' api)).
    rewrite <- D1, <- D2.
    assert (Hlen : length ms = length ms') by (cbn in L1, L2; lia).
    assert (HlenH : length H = length ms) by (cbn in L1; lia).
    (* the two B points are equal: same A, same e, same key *)
    assert (HBB : d1 (compute_B E g Q1 H dom ms) = d1 (compute_B E g Q1 H dom' ms')) by (rewrite <- E1, <- E2; reflexivity).
    unfold compute_B in HBB. rewrite !(dl_msm E LW), !(L_dl1_add E LW), !(L_dl1_mul E LW) in HBB.
    assert (Hrel : dot E LW (Q1 :: H) ((dom - dom') :: zip_sub ms ms') = 0).
    { cbn [dot]. rewrite dot_zip_sub by exact Hlen.
      transitivity ((d1 (g_p1 E g) + dom * d1 Q1 + dot E LW H ms) - (d1 (g_p1 E g) + dom' * d1 Q1 + dot E LW H ms')); [ring|].
      rewrite HBB. ring. }
    destruct (existsb (fun x => negb (feqb S x 0)) ((dom - dom') :: zip_sub ms ms')) eqn:Enz.
    - left. split; [cbn [length]; rewrite zip_sub_length by exact Hlen; lia|]. split; [exact Enz|exact Hrel].
    - right. cbn [existsb] in Enz. apply orb_false_iff in Enz as [Z1 Z2].
      apply negb_false_iff in Z1. apply (feqb_true E LW) in Z1.
      apply (zip_sub_all_zero _ _ Hlen) in Z2.
      destruct Hne as [Hne|Hne]; [contradiction|].
      split.
      + intros C. apply Hne. eapply dom_input_header_inj; eassumption.
      + rewrite <- D1, <- D2. transitivity (dom - dom' + dom'); [ring|]. rewrite Z1. ring.
  Qed.

  (* ---- the reduction at the API level: messages and header as octet strings *)
  Lemma map_eq_neq (f : bytes -> Fd) (l l' : list bytes) : length l = length l' -> map f l = map f l' -> l <> l' ->
    exists i, (i < length l)%nat /\ nth i l [] <> nth i l' [] /\ f (nth i l []) = f (nth i l' []).
  Proof.
    revert l'. induction l as [|x l IH]; intros [|y l'] Hl Hm Hne; cbn in *; try discriminate; [contradiction|].
    inversion Hm as [[Hxy Hrest]].
    destruct (list_eq_dec N.eq_dec x y) as [->|Hd].
    - destruct (IH l') as [i [Hi [H1 H2]]]; [lia|exact Hrest|intros C; apply Hne; f_equal; exact C|].
      exists (Datatypes.S i). split; [lia|]. auto.
    - exists 0%nat. split; [lia|]. auto.
  Qed.

  Theorem verify_binding s pk msgs msgs' header header' :
    suite_ok E ->
    verify E s pk (Some msgs) header = Ok tt ->
    verify E s pk (Some msgs') header' = Ok tt ->
    length msgs = length msgs' ->
    len (option_default [] header) <= usize_max -> len (option_default [] header') <= usize_max ->
    (msgs <> msgs' \/ option_default [] header <> option_default [] header') ->
    (* a collision of the message-to-scalar hash, on two explicit different messages *)
    (exists i, (i < length msgs)%nat /\ nth i msgs [] <> nth i msgs' [] /\ hm E (nth i msgs []) = hm E (nth i msgs' [])) \/
    (* or a relation among the generators / a collision of the domain hash *)
    (exists Q1 H dm dm',
       DLRelation (Q1 :: H) (fsub S dm dm' :: zip_sub (map (hm E) msgs) (map (hm E) msgs')) \/
       Collision (fun x => f_of_okm S (expand E x (c_api_id (cs E) ++ c_h2s (cs E)) 48))
                 (dom_input pk Q1 H header (c_api_id (cs E))) (dom_input pk Q1 H header' (c_api_id (cs E)))).
  Proof.
    intros Hs V1 V2 Hl B1 B2 Hne. pose proof Hs as [[Hm _] _].
    unfold verify in V1, V2. cbn [option_default] in V1, V2.
    rewrite (messages_to_scalars_ok E) in V1, V2 by assumption. cbn [bind] in V1, V2. fold (hm E) in V1, V2.
    rewrite <- Hl in V2.
    destruct (gens_create E (length msgs + 1) (c_api_id (cs E))) as [g| | |]; cbn [bind] in V1, V2; try discriminate.
    destruct (list_eq_dec (fun a b : Fd => match feqb S a b as c return (feqb S a b = c -> {a = b} + {a <> b}) with
                                            | true => fun H => left (feqb_true E LW _ _ H)
                                            | false => fun H => right (feqb_false E LW _ _ H) end eq_refl)
                          (map (hm E) msgs) (map (hm E) msgs')) as [Heq|Hneq].
    - destruct (list_eq_dec (list_eq_dec N.eq_dec) msgs msgs') as [Hmm|Hmm].
      + right. subst msgs'. destruct Hne as [C|Hh]; [contradiction|].
        destruct (verify_binding_core pk s _ _ g header header' _ V1 V2 B1 B2 (or_intror Hh)) as [Q1 [H [_ [R|Cc]]]].
        * exists Q1, H. eexists. eexists. left. exact R.
        * exists Q1, H, 0, 0. right. exact Cc.
      + left. apply map_eq_neq; assumption.
    - right.
      destruct (verify_binding_core pk s _ _ g header header' _ V1 V2 B1 B2 (or_introl Hneq)) as [Q1 [H [_ [R|Cc]]]].
      + exists Q1, H. eexists. eexists. left. exact R.
      + exists Q1, H, 0, 0. right. exact Cc.
  Qed.

  (* ---- the same reduction when the two message lists have DIFFERENT lengths (insert / delete / truncate / extend):
          the generators of the shorter statement are a prefix of those of the longer one, the shorter scalar vector is
          padded with zeros; if that relation is trivial the two domain inputs -- which carry the counts -- collide *)
  Lemma dot_firstn_pad (G : list G1t) : forall a k, length G = (length a + k)%nat ->
    dot E LW (firstn (length a) G) a = dot E LW G (a ++ repeat 0 k).
  Proof.
    induction G as [|g G IH]; intros a k Hl.
    - destruct a; cbn in *; try lia. destruct k; reflexivity.
    - destruct a as [|x a]; cbn [length firstn app dot].
      + clear IH. cbn in Hl. destruct k as [|k]; [cbn in Hl; lia|]. cbn [repeat dot].
        assert (Hz : forall G' j, dot E LW G' (repeat 0 j) = 0).
        { induction G' as [|g' G' IHg]; intros [|j]; cbn; try ring. rewrite IHg. ring. }
        rewrite Hz. ring.
      + rewrite (IH a k) by (cbn in Hl; lia). reflexivity.
  Qed.

  Theorem verify_binding_core_len pk s ms ms' g g' header header' api :
    core_verify E pk s ms g header api = Ok tt ->
    core_verify E pk s ms' g' header' api = Ok tt ->
    g_p1 E g = g_p1 E g' -> g_values E g = firstn (length ms + 1) (g_values E g') ->
    (length ms < length ms')%nat -> len ms' <= usize_max ->
    exists Q1 H', g_values E g' = Q1 :: H' /\
      (DLRelation (Q1 :: H') ((fsub S (f_of_okm S (expand E (dom_input pk Q1 (firstn (length ms) H') header api) (api ++ c_h2s (cs E)) 48))
                                      (f_of_okm S (expand E (dom_input pk Q1 H' header' api) (api ++ c_h2s (cs E)) 48)))
                              :: zip_sub (ms ++ repeat 0 (length ms' - length ms)) ms')
       \/ Collision (fun x => f_of_okm S (expand E x (api ++ c_h2s (cs E)) 48))
                    (dom_input pk Q1 (firstn (length ms) H') header api) (dom_input pk Q1 H' header' api)).
  Proof.
    intros V1 V2 Hp1 Hpre Hlt Hmax.
    apply (core_verify_iff E LW) in V1 as [B [HB1 E1]]. apply (core_verify_iff E LW) in V2 as [B' [HB2 E2]].
    unfold B_of in HB1, HB2.
    destruct (negb (Nat.eqb (length (g_values E g)) (length ms + 1))) eqn:L1; [discriminate|].
    destruct (negb (Nat.eqb (length (g_values E g')) (length ms' + 1))) eqn:L2; [discriminate|].
    apply negb_false_iff, Nat.eqb_eq in L1, L2.
    destruct (g_values E g') as [|Q1 H'] eqn:Eg'; [cbn in L2; lia|].
    rewrite Hpre in HB1. replace (length ms + 1)%nat with (Datatypes.S (length ms)) in HB1 by lia. cbn [firstn] in HB1.
    cbn [index nth_error unwrap bind skipn] in HB1, HB2.
    set (H := firstn (length ms) H') in *.
    destruct (calculate_domain E pk Q1 H header api) as [dom| | |] eqn:D1; cbn [bind] in HB1; try discriminate.
    destruct (calculate_domain E pk Q1 H' header' api) as [dom'| | |] eqn:D2; cbn [bind] in HB2; try discriminate.
    inversion HB1; subst B; clear HB1. inversion HB2; subst B'; clear HB2.
    apply calculate_domain_eq in D1, D2.
    exists Q1, H'. split; [reflexivity|]. fold H.
    set (hd := fun x => f_of_okm S (expand E x (api ++ c_h2s (cs E)) 48)) in *.
    fold (hd (dom_input pk Q1 H header api)) in D1. fold (hd (dom_input pk Q1 H' header' api)) in D2.
    fold (hd (dom_input pk Q1 H header api)). fold (hd (dom_input pk Q1 H' header' api)).
    rewrite <- D1, <- D2.
    assert (HlenH' : length H' = length ms') by (cbn in L2; lia).
    set (k := (length ms' - length ms)%nat).
    assert (Hpad : length (ms ++ repeat 0 k) = length ms') by (rewrite app_length, repeat_length; unfold k; lia).
    assert (HBB : d1 (compute_B E g Q1 H dom ms) = d1 (compute_B E g' Q1 H' dom' ms')) by (rewrite <- E1, <- E2; reflexivity).
    unfold compute_B in HBB. rewrite !(dl_msm E LW), !(L_dl1_add E LW), !(L_dl1_mul E LW) in HBB. rewrite Hp1 in HBB.
    unfold H in HBB. rewrite (dot_firstn_pad H' ms k) in HBB by (unfold k; lia).
    assert (Hrel : dot E LW (Q1 :: H') ((dom - dom') :: zip_sub (ms ++ repeat 0 k) ms') = 0).
    { cbn [dot]. rewrite dot_zip_sub by exact Hpad.
      transitivity ((d1 (g_p1 E g') + dom * d1 Q1 + dot E LW H' (ms ++ repeat 0 k)) - (d1 (g_p1 E g') + dom' * d1 Q1 + dot E LW H' ms')); [ring|].
      rewrite HBB. ring. }
    destruct (existsb (fun x => negb (feqb S x 0)) ((dom - dom') :: zip_sub (ms ++ repeat 0 k) ms')) eqn:Enz.
    - left. split; [cbn [length]; rewrite zip_sub_length by exact Hpad; lia|]. split; [exact Enz|exact Hrel].
    - right. cbn [existsb] in Enz. apply orb_false_iff in Enz as [Z1 _].
      apply negb_false_iff in Z1. apply (feqb_true E LW) in Z1.
      split.
      + (* the two domain inputs carry different counts *)
        unfold dom_input. intros C. apply app_inv_head in C.
        rewrite <- !app_assoc in C.
        apply app_eq_len_split in C as [Hc _]; [|rewrite !i2osp8_length; reflexivity].
        apply i2osp8_inj in Hc.
        * unfold len in Hc. apply Nat2N.inj in Hc. unfold H in Hc. rewrite firstn_length in Hc. lia.
        * unfold len, H. rewrite firstn_length. unfold len in Hmax. lia.
        * unfold len. rewrite HlenH'. exact Hmax.
      + rewrite <- D1, <- D2. transitivity (dom - dom' + dom'); [ring|]. rewrite Z1. ring.
  Qed.

  Theorem verify_binding_lengths s pk msgs msgs' header header' :
    suite_ok E ->
    verify E s pk (Some msgs) header = Ok tt ->
    verify E s pk (Some msgs') header' = Ok tt ->
    (length msgs < length msgs')%nat -> len msgs' <= usize_max ->
    exists Q1 H' dm dm',
      DLRelation (Q1 :: H') (fsub S dm dm' :: zip_sub (map (hm E) msgs ++ repeat 0 (length msgs' - length msgs)) (map (hm E) msgs')) \/
      Collision (fun x => f_of_okm S (expand E x (c_api_id (cs E) ++ c_h2s (cs E)) 48))
                (dom_input pk Q1 (firstn (length msgs) H') header (c_api_id (cs E))) (dom_input pk Q1 H' header' (c_api_id (cs E))).
  Proof.
    intros Hs V1 V2 Hlt Hmax. pose proof Hs as [[Hm _] _].
    unfold verify in V1, V2. cbn [option_default] in V1, V2.
    rewrite (messages_to_scalars_ok E) in V1, V2 by assumption. cbn [bind] in V1, V2. fold (hm E) in V1, V2.
    unfold gens_create in V1, V2.
    destruct (g1_dec P (c_p1 (cs E))) as [p1|]; cbn [unwrap bind] in V1, V2; [|discriminate].
    destruct (verify_binding_core_len pk s (map (hm E) msgs) (map (hm E) msgs') _ _ header header' _ V1 V2) as [Q1 [H' [_ R]]].
    - reflexivity.
    - cbn [g_values]. rewrite map_length. symmetry. apply create_prefix. lia.
    - rewrite !map_length. exact Hlt.
    - unfold len in *. rewrite map_length. exact Hmax.
    - rewrite !map_length in R. exists Q1, H'. destruct R as [R|Cc].
      + eexists. eexists. left. exact R.
      + exists 0, 0. right. exact Cc.
  Qed.

  (* what acceptance establishes about the statement's shape *)
  Lemma core_proof_verify_accepts' pk p g header ph dm di api :
    N.of_nat (length (p_m_cap E p) + length di) <= usize_max ->
    core_proof_verify E pk p g header ph dm di api = Ok tt ->
    exists ir, proof_verify_init E pk p g header dm di api = Ok ir /\
      proof_challenge_calculate E ir di dm ph api = Ok (p_chal E p) /\
      length dm = length di /\ Forall (fun i => i <= usize_max) di /\ len di <= usize_max.
  Proof.
    intros Hfit. unfold core_proof_verify.
    destruct (proof_verify_init E pk p g header dm di api) as [ir| | |] eqn:Ei; cbn [bind]; try discriminate.
    destruct (proof_challenge_calculate E ir di dm ph api) as [ch| | |] eqn:Ec; cbn [bind]; try discriminate.
    destruct (feqb S (p_chal E p) ch) eqn:Eq; cbn [negb]; [|discriminate]. intros _.
    apply (feqb_true E LW) in Eq. subst ch. exists ir. split; [reflexivity|]. split; [exact Ec|].
    unfold proof_verify_init in Ei.
    destruct (g1_eqb P _ _ || g1_eqb P _ _ || g1_eqb P _ _)%bool; [discriminate|].
    destruct (existsb _ di) eqn:Eex; [discriminate|].
    destruct (negb (Nat.eqb (length dm) (length di))) eqn:El; [discriminate|].
    destruct (negb (Nat.eqb (length (g_values E g)) _)) eqn:Eg; [discriminate|].
    apply negb_false_iff, Nat.eqb_eq in El.
    split; [exact El|].
    rewrite existsb_ge_false in Eex.
    split.
    - apply Forall_forall. intros i Hi. specialize (Eex i Hi). lia.
    - unfold len. lia.
  Qed.

  (* ================================================================ C04: statement binding of proofs *)
  Lemma f_to_be_inj x y : f_to_be S x = f_to_be S y -> x = y.
  Proof. intros H. pose proof (L_f_dec_enc E LW x) as Hx. rewrite H, (L_f_dec_enc E LW y) in Hx. inversion Hx; reflexivity. Qed.
  Lemma g1_enc_inj x y : g1_enc P x = g1_enc P y -> x = y.
  Proof. intros H. pose proof (L_g1_dec_enc E LW x) as Hx. rewrite H, (L_g1_dec_enc E LW y) in Hx. inversion Hx; reflexivity. Qed.

  Definition pair_octets (p : N * Fd) : bytes := i2osp8 (fst p) ++ f_to_be S (snd p).
  Lemma pair_octets_length p : length (pair_octets p) = 40%nat.
  Proof. unfold pair_octets. rewrite app_length, i2osp8_length, (L_f_enc_len E LW). reflexivity. Qed.

  Lemma pairs_inj (l l' : list (N * Fd)) : length l = length l' ->
    Forall (fun p => fst p <= usize_max) l -> Forall (fun p => fst p <= usize_max) l' ->
    forall t t', flat_map pair_octets l ++ t = flat_map pair_octets l' ++ t' -> l = l' /\ t = t'.
  Proof.
    revert l'. induction l as [|p l IH]; intros [|q l'] Hl F1 F2 t t' H; cbn in Hl; try discriminate; [auto|].
    cbn [flat_map] in H. rewrite <- !app_assoc in H.
    apply app_eq_len_split in H as [Hpq H]; [|rewrite !pair_octets_length; reflexivity].
    inversion F1; inversion F2; subst.
    destruct (IH l' ltac:(lia) ltac:(assumption) ltac:(assumption) t t' H) as [-> ->].
    split; [|reflexivity]. f_equal.
    unfold pair_octets in Hpq. apply app_eq_len_split in Hpq as [Hi Hm]; [|rewrite !i2osp8_length; reflexivity].
    destruct p as [i m], q as [j m']. cbn in *. apply i2osp8_inj in Hi; [|assumption|assumption]. apply f_to_be_inj in Hm. subst. reflexivity.
  Qed.

  Lemma combine_eq_split (a a' : list N) (b b' : list Fd) : length a = length b -> length a' = length b' ->
    combine a b = combine a' b' -> a = a' /\ b = b'.
  Proof.
    revert a' b b'. induction a as [|x a IH]; intros [|x' a'] [|y b] [|y' b'] H1 H2 H; cbn in *; try discriminate; [auto|].
    inversion H; subst. destruct (IH a' b b') as [-> ->]; try lia; auto.
  Qed.

  (* the octets hashed into the challenge determine the statement *)
  Lemma challenge_octets_inj ir ir' di di' dm dm' ph ph' :
    length dm = length di -> length dm' = length di' ->
    Forall (fun i => i <= usize_max) di -> Forall (fun i => i <= usize_max) di' ->
    len di <= usize_max -> len di' <= usize_max ->
    len (option_default [] ph) <= usize_max -> len (option_default [] ph') <= usize_max ->
    challenge_octets E ir di dm ph = challenge_octets E ir' di' dm' ph' ->
    di = di' /\ dm = dm' /\ i_domain E ir = i_domain E ir' /\ option_default [] ph = option_default [] ph' /\
    i_T1 E ir = i_T1 E ir' /\ i_T2 E ir = i_T2 E ir'.
  Proof.
    intros L1 L2 F1 F2 B1 B2 P1 P2 H. unfold challenge_octets in H.
    apply app_eq_len_split in H as [HR H]; [|rewrite !i2osp8_length; reflexivity].
    apply i2osp8_inj in HR; [|assumption|assumption].
    assert (HR' : length di = length di') by (unfold len in HR; lia).
    fold pair_octets in H.
    change (fun p : N * Fd => i2osp8 (fst p) ++ f_to_be S (snd p)) with pair_octets in H.
    apply pairs_inj in H as [Hc H].
    2:{ rewrite !combine_length. lia. }
    2:{ apply Forall_forall. intros [i m] Hin. apply in_combine_l in Hin. rewrite Forall_forall in F1. apply F1; exact Hin. }
    2:{ apply Forall_forall. intros [i m] Hin. apply in_combine_l in Hin. rewrite Forall_forall in F2. apply F2; exact Hin. }
    apply combine_eq_split in Hc as [-> ->]; [|lia|lia].
    apply app_eq_len_split in H as [_ H]; [|rewrite !(L_g1_enc_len E LW); reflexivity].
    apply app_eq_len_split in H as [_ H]; [|rewrite !(L_g1_enc_len E LW); reflexivity].
    apply app_eq_len_split in H as [_ H]; [|rewrite !(L_g1_enc_len E LW); reflexivity].
    apply app_eq_len_split in H as [HT1 H]; [|rewrite !(L_g1_enc_len E LW); reflexivity].
    apply app_eq_len_split in H as [HT2 H]; [|rewrite !(L_g1_enc_len E LW); reflexivity].
    apply app_eq_len_split in H as [Hd H]; [|rewrite !(L_f_enc_len E LW); reflexivity].
    apply app_eq_len_split in H as [_ Hph]; [|rewrite !i2osp8_length; reflexivity].
    apply g1_enc_inj in HT1, HT2. apply f_to_be_inj in Hd. repeat split; assumption || reflexivity.
  Qed.

  (* one proof object accepted for two statements over the same generator set: either the statements agree on the
     disclosed positions, the disclosed message scalars, the presentation header and the domain, or the two
     challenge inputs are an explicit collision of the challenge hash *)
  Theorem proof_statement_binding pk p g header header' ph ph' dm dm' di di' api :
    core_proof_verify E pk p g header ph dm di api = Ok tt ->
    core_proof_verify E pk p g header' ph' dm' di' api = Ok tt ->
    len (option_default [] ph) <= usize_max -> len (option_default [] ph') <= usize_max ->
    N.of_nat (length (p_m_cap E p) + length di) <= usize_max -> N.of_nat (length (p_m_cap E p) + length di') <= usize_max ->
    exists ir ir',
      proof_verify_init E pk p g header dm di api = Ok ir /\ proof_verify_init E pk p g header' dm' di' api = Ok ir' /\
      ((di = di' /\ dm = dm' /\ option_default [] ph = option_default [] ph' /\ i_domain E ir = i_domain E ir') \/
       Collision (fun x => f_of_okm S (expand E x (api ++ c_h2s (cs E)) 48))
                 (challenge_octets E ir di dm ph) (challenge_octets E ir' di' dm' ph')).
  Proof.
    intros V1 V2 P1 P2 Hf1 Hf2.
    apply (core_proof_verify_accepts' pk p g header ph dm di api Hf1) in V1 as [ir [I1 [C1 [Ldm [Fdi Bdi]]]]].
    apply (core_proof_verify_accepts' pk p g header' ph' dm' di' api Hf2) in V2 as [ir' [I2 [C2 [Ldm' [Fdi' Bdi']]]]].
    exists ir, ir'. split; [exact I1|]. split; [exact I2|].
    unfold proof_challenge_calculate in C1, C2.
    destruct (negb (Nat.eqb (length dm) (length di))); [discriminate|].
    destruct (negb (Nat.eqb (length dm') (length di'))); [discriminate|].
    unfold hash_to_scalar in C1, C2. destruct (Nat.ltb _ _); [discriminate|].
    inversion C1 as [H1]. inversion C2 as [H2].
    destruct (list_eq_dec N.eq_dec (challenge_octets E ir di dm ph) (challenge_octets E ir' di' dm' ph')) as [Heq|Hneq].
    - left. apply challenge_octets_inj in Heq; try assumption. tauto.
    - right. split; [exact Hneq|]. rewrite H1, H2. reflexivity.
  Qed.

End Bind.

(* C12: a signature that verifies for the current vector does not verify for an earlier, different vector of the same
   length -- unless that acceptance constructs a hash collision or a discrete-log relation (instance of verify_binding) *)
Theorem update_old_vector_reduces (E : env) (LW : Laws E) s pk cur old header :
  suite_ok E ->
  verify E s pk (Some cur) header = Ok tt ->
  verify E s pk (Some old) header = Ok tt ->
  length cur = length old -> cur <> old ->
  (len (option_default [] header) <= usize_max)%N ->
  (exists i, (i < length cur)%nat /\ nth i cur [] <> nth i old [] /\ hm E (nth i cur []) = hm E (nth i old [])) \/
  (exists Q1 H dm dm',
     DLRelation E LW (Q1 :: H) (fsub (SO E) dm dm' :: zip_sub E (map (hm E) cur) (map (hm E) old)) \/
     Collision (fun x => f_of_okm (SO E) (expand E x (c_api_id (cs E) ++ c_h2s (cs E)) 48))
               (dom_input E pk Q1 H header (c_api_id (cs E))) (dom_input E pk Q1 H header (c_api_id (cs E)))).
Proof.
  intros Hs V1 V2 Hl Hne Hb.
  exact (verify_binding E LW s pk cur old header header Hs V1 V2 Hl Hb Hb (or_introl Hne)).
Qed.
