(* Every generator of the model only ever CONSUMES draws from the front of the log: what is left over is a suffix of
   what it was given.  Proved once for the combinators and then for each generator by a syntax-directed tactic; used to
   carry a property of the logged draws (bits_ok) through a composition of generators. *)
From ZK Require Import Cl ClArith ClSig ClMore.
From Coq Require Import ZArith Lia List.
Import ListNotations.
Open Scope Z_scope.

Definition consumes {A} (x : M A) : Prop := forall ds a ds', x ds = Ok (a, ds') -> exists pre, ds = pre ++ ds'.

Lemma consumes_ret {A} (a : A) : consumes (mret a).
Proof. intros ds b ds' H. apply mret_ok in H as [_ ->]. exists []. reflexivity. Qed.

Lemma consumes_lift {A} (x : outcome A) : consumes (lift x).
Proof. intros ds b ds' H. apply lift_ok in H as [_ ->]. exists []. reflexivity. Qed.

Lemma consumes_panic {A} : consumes (@mpanic A).
Proof. intros ds b ds' H. discriminate. Qed.

Lemma consumes_bind {A B} (x : M A) (f : A -> M B) : consumes x -> (forall a, consumes (f a)) -> consumes (mbind x f).
Proof.
  intros Hx Hf ds b ds' H. apply mbind_ok in H as [a [d1 [H1 H2]]].
  apply Hx in H1 as [p1 ->]. apply Hf in H2 as [p2 ->]. exists (p1 ++ p2). rewrite app_assoc. reflexivity.
Qed.

Lemma consumes_draw_req k ps : consumes (draw_req k ps).
Proof.
  intros ds a ds' H. unfold draw_req in H. destruct ds as [|d r]; [discriminate|].
  destruct (_ && _)%bool; [|discriminate]. inversion H; subst. exists [d]. reflexivity.
Qed.

Lemma consumes_random_bits k : consumes (random_bits k).
Proof. unfold random_bits. destruct (k <=? 0); [apply consumes_panic|apply consumes_draw_req]. Qed.

Lemma consumes_random_number k : consumes (random_number k).
Proof. unfold random_number. destruct (k <=? 0); [apply consumes_panic|apply consumes_draw_req]. Qed.

Lemma consumes_rand_int a b : consumes (rand_int a b).
Proof. unfold rand_int. destruct (b <? a); [apply consumes_panic|apply consumes_draw_req]. Qed.

Lemma consumes_random_prime k : consumes (random_prime k).
Proof. unfold random_prime. apply consumes_bind; [apply consumes_random_bits|intros; apply consumes_draw_req]. Qed.

Lemma consumes_mmapM {A B} (f : A -> M B) l : (forall a, consumes (f a)) -> consumes (mmapM f l).
Proof.
  intros Hf. induction l as [|a l IH]; cbn [mmapM]; [apply consumes_ret|].
  apply consumes_bind; [apply Hf|]. intros b. apply consumes_bind; [exact IH|]. intros bs. apply consumes_ret.
Qed.

Lemma consumes_loop_fuel {A} (body : M (option A)) fuel : consumes body -> consumes (loop_fuel fuel body).
Proof.
  intros Hb. induction fuel as [|f IH]; cbn [loop_fuel]; [intros ds a ds' H; discriminate|].
  apply consumes_bind; [exact Hb|]. intros [a|]; [apply consumes_ret|exact IH].
Qed.

Lemma consumes_loop_until {A} (body : M (option A)) : consumes body -> consumes (loop_until body).
Proof. intros Hb ds a ds' H. unfold loop_until in H. eapply consumes_loop_fuel; eassumption. Qed.

(* a property of every draw survives whatever a generator consumes *)
Lemma consumes_Forall {A} (x : M A) (P : draw -> Prop) ds a ds' : consumes x -> x ds = Ok (a, ds') -> Forall P ds -> Forall P ds'.
Proof. intros Hc H HF. apply Hc in H as [pre ->]. apply Forall_app in HF as [_ HF]. exact HF. Qed.

Ltac cons_step :=
  match goal with
  | |- consumes (mbind _ _) => apply consumes_bind; [|intros]
  | |- consumes (mret _) => apply consumes_ret
  | |- consumes (lift _) => apply consumes_lift
  | |- consumes mpanic => apply consumes_panic
  | |- consumes (random_bits _) => apply consumes_random_bits
  | |- consumes (random_number _) => apply consumes_random_number
  | |- consumes (random_prime _) => apply consumes_random_prime
  | |- consumes (rand_int _ _) => apply consumes_rand_int
  | |- consumes (mmapM _ _) => apply consumes_mmapM; intros
  | |- consumes (loop_until _) => apply consumes_loop_until
  | |- consumes (if ?b then _ else _) => destruct b
  | |- consumes (match ?x with _ => _ end) => destruct x
  | |- consumes (let '(_, _) := ?x in _) => destruct x
  end.
Ltac cons := repeat cons_step.

Section G.
  Variable CS : clsuite.
  Variable BP : bparams.

  Lemma consumes_commit_with_pk msgs pk bases U : consumes (commit_with_pk CS msgs pk bases U).
  Proof. unfold commit_with_pk. cons. Qed.
  Lemma consumes_commit_with_cpk msgs ck U : consumes (commit_with_cpk CS msgs ck U).
  Proof. unfold commit_with_cpk. cons. Qed.
  Lemma consumes_nisp2sec_gen m c g h n : consumes (nisp2sec_gen CS m c g h n).
  Proof. unfold nisp2sec_gen. cons. Qed.
  Lemma consumes_nispm_gen msgs c pk bases U : consumes (nispm_gen CS msgs c pk bases U).
  Proof. unfold nispm_gen. cons. Qed.
  Lemma consumes_nisp2_gen msgs c1 c2 pk bases ck U : consumes (nisp2_gen CS msgs c1 c2 pk bases ck U).
  Proof. unfold nisp2_gen. cons. Qed.
  Lemma consumes_same_secret x r1 r2 g1 h1 g2 h2 b n s2x : consumes (proof_same_secret BP x r1 r2 g1 h1 g2 h2 b n s2x).
  Proof. unfold proof_same_secret. cons. Qed.
  Lemma consumes_square x r1 g h E b n s2x : consumes (proof_of_square BP x r1 g h E b n s2x).
  Proof. unfold proof_of_square. cons. apply consumes_same_secret. Qed.
  Lemma consumes_large_interval x r g h b n T : consumes (proof_large_interval BP x r g h b n T).
  Proof. unfold proof_large_interval. cons. Qed.
  Lemma consumes_split_r r n T target : consumes (split_r BP r n T target).
  Proof. unfold split_r. cons. Qed.
  Lemma consumes_tolerance x r g h n a b T : consumes (proof_of_tolerance BP x r g h n a b T).
  Proof.
    unfold proof_of_tolerance. cons;
      first [apply consumes_split_r | apply consumes_square | apply consumes_large_interval].
  Qed.
  Lemma consumes_boudot_prove v c g h n a b : consumes (boudot_prove BP v c g h n a b).
  Proof. unfold boudot_prove. cons. apply consumes_tolerance. Qed.
End G.
