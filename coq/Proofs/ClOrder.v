(* C14: the issuer's extension of a commitment pairs the k-th revealed POSITION with the k-th revealed VALUE: listing the revealed
   positions in any other order (with their values in the same order) extends to the same residue -- for every modulus, bases,
   attribute vector and list of positions (repetitions included). *)
From ZK Require Import Cl ClArith ClSig ClMore ClSpok ClSpok2 ClZk.
From Coq Require Import ZArith Lia List Permutation Zdiv.
Import ListNotations.
Open Scope Z_scope.

Lemma SelZ_perm bases msgs l l' : Permutation l l' -> SelZ bases msgs l = SelZ bases msgs l'.
Proof.
  induction 1 as [|x l l' _ IH|x y l|l l' l'' _ IH1 _ IH2]; cbn [SelZ fold_right] in *.
  - reflexivity.
  - fold (SelZ bases msgs l). fold (SelZ bases msgs l'). rewrite IH. reflexivity.
  - ring.
  - congruence.
Qed.

Theorem extension_order_irrelevant n bases msgs l l' v :
  0 < n -> 0 <= v -> Permutation l l' ->
  Forall (fun j => (N.to_nat j < length bases)%nat /\ (N.to_nat j < length msgs)%nat /\ 0 <= at_ msgs j) l ->
  exists r r', extend_loop v bases n l (map (at_ msgs) l) = Ok r /\
               extend_loop v bases n l' (map (at_ msgs) l') = Ok r' /\ r mod n = r' mod n.
Proof.
  intros Hn Hv Hp Hl.
  assert (Hl' : Forall (fun j => (N.to_nat j < length bases)%nat /\ (N.to_nat j < length msgs)%nat /\ 0 <= at_ msgs j) l').
  { rewrite Forall_forall in *. intros j Hj. apply Hl. eapply Permutation_in; [apply Permutation_sym; exact Hp|exact Hj]. }
  destruct (extend_loop_sel n Hn bases msgs l v Hv Hl) as [r [Hr [_ He]]].
  destruct (extend_loop_sel n Hn bases msgs l' v Hv Hl') as [r' [Hr' [_ He']]].
  exists r, r'. split; [exact Hr|]. split; [exact Hr'|].
  unfold eqm in He, He'. rewrite He, He'. rewrite (SelZ_perm bases msgs l l' Hp). reflexivity.
Qed.
