(* Exponent arithmetic modulo n for invertible bases, with NEGATIVE exponents (rug's pow_mod inverts the base):
   gp h hi e = h^e for e >= 0 and hi^(-e) for e < 0, where hi is the inverse of h.  It is a homomorphism from (Z, +)
   to the units modulo n; pow_mod computes it.  Used by the Boudot proofs, whose randomness may be negative. *)
From ZK Require Import Cl ClArith ClSig.
From Coq Require Import ZArith Lia Znumtheory Zpow_facts Zdiv Setoid Morphisms.
Open Scope Z_scope.

Section G.
  Variable n : Z.
  Hypothesis Hn : 0 < n.
  Local Infix "==" := (eqm n) (at level 70).

  Lemma eqm_pow a b k : a == b -> a ^ k == b ^ k.
  Proof. unfold eqm. intros H. rewrite (Zpower_mod a k n), (Zpower_mod b k n) by lia. rewrite H. reflexivity. Qed.

  Lemma eqm_mod a : a mod n == a.
  Proof. apply Zmod_eqm. Qed.

  Lemma eqm_mul a a' b b' : a == a' -> b == b' -> a * b == a' * b'.
  Proof. unfold eqm. intros H1 H2. rewrite (Z.mul_mod a b), (Z.mul_mod a' b') by lia. rewrite H1, H2. reflexivity. Qed.
  Lemma eqm_eq a b : a = b -> a == b. Proof. intros ->. apply eqm_refl. Qed.

  Definition gp (h hi e : Z) : Z := if 0 <=? e then h ^ e mod n else hi ^ (- e) mod n.

  Section Base.
    Variables h hi : Z.
    Hypothesis Hinv : h * hi == 1.

    Lemma unit_pow k : 0 <= k -> h ^ k * hi ^ k == 1.
    Proof.
      intros Hk. rewrite <- Z.pow_mul_l. apply eqm_trans with (b := 1 ^ k); [apply eqm_pow; exact Hinv|].
      rewrite Z.pow_1_l by assumption. apply eqm_refl.
    Qed.

    (* gp e = h^(e+k) * hi^k for every k large enough *)
    Lemma gp_repr e k : 0 <= k -> 0 <= e + k -> gp h hi e == h ^ (e + k) * hi ^ k.
    Proof.
      intros Hk Hek. unfold gp. destruct (Z.leb_spec 0 e) as [He|He].
      - apply eqm_trans with (b := h ^ e); [apply eqm_mod|].
        apply eqm_trans with (b := h ^ e * (h ^ k * hi ^ k)).
        + apply eqm_trans with (b := h ^ e * 1); [apply eqm_eq; ring|]. apply eqm_mul; [apply eqm_refl|apply eqm_sym; apply unit_pow; exact Hk].
        + apply eqm_eq. rewrite Z.pow_add_r by assumption. ring.
      - apply eqm_trans with (b := hi ^ (- e)); [apply eqm_mod|].
        apply eqm_trans with (b := (h ^ (e + k) * hi ^ (e + k)) * hi ^ (- e)).
        + apply eqm_trans with (b := 1 * hi ^ (- e)); [apply eqm_eq; ring|]. apply eqm_mul; [apply eqm_sym; apply unit_pow; exact Hek|apply eqm_refl].
        + apply eqm_eq. assert (Hk' : hi ^ k = hi ^ (e + k) * hi ^ (- e)) by (rewrite <- Z.pow_add_r by lia; f_equal; ring).
          rewrite Hk'. ring.
    Qed.

    Theorem gp_add e1 e2 : gp h hi (e1 + e2) == gp h hi e1 * gp h hi e2.
    Proof.
      set (k1 := Z.abs e1). set (k2 := Z.abs e2).
      apply eqm_trans with (b := h ^ (e1 + e2 + (k1 + k2)) * hi ^ (k1 + k2)); [apply gp_repr; unfold k1, k2; lia|].
      apply eqm_trans with (b := (h ^ (e1 + k1) * hi ^ k1) * (h ^ (e2 + k2) * hi ^ k2)).
      - apply eqm_eq. replace (e1 + e2 + (k1 + k2)) with ((e1 + k1) + (e2 + k2)) by ring.
        rewrite (Z.pow_add_r h (e1 + k1) (e2 + k2)) by (unfold k1, k2; lia). rewrite (Z.pow_add_r hi k1 k2) by (unfold k1, k2; lia). ring.
      - apply eqm_mul; apply eqm_sym; apply gp_repr; unfold k1, k2; lia.
    Qed.

    Theorem gp_mul e c : 0 <= c -> gp h hi (e * c) == gp h hi e ^ c.
    Proof.
      intros Hc. unfold gp. destruct (Z.leb_spec 0 e) as [He|He].
      - destruct (Z.leb_spec 0 (e * c)); [|nia].
        apply eqm_trans with (b := h ^ (e * c)); [apply eqm_mod|].
        apply eqm_trans with (b := (h ^ e) ^ c); [apply eqm_eq; rewrite Z.pow_mul_r by assumption; reflexivity|].
        apply eqm_pow. apply eqm_sym. apply eqm_mod.
      - destruct (Z.eq_dec c 0) as [->|Hc0].
        + rewrite Z.mul_0_r. cbn [Z.leb Z.compare]. rewrite Z.pow_0_r, Z.pow_0_r. apply eqm_mod.
        + destruct (Z.leb_spec 0 (e * c)); [nia|].
          apply eqm_trans with (b := hi ^ (- (e * c))); [apply eqm_mod|].
          apply eqm_trans with (b := (hi ^ (- e)) ^ c); [apply eqm_eq; rewrite <- Z.pow_mul_r by lia; f_equal; ring|].
          apply eqm_pow. apply eqm_sym. apply eqm_mod.
    Qed.

    Lemma gp_0 : gp h hi 0 == 1.
    Proof. unfold gp. cbn. apply eqm_mod. Qed.

    Lemma gp_opp e : gp h hi e * gp h hi (- e) == 1.
    Proof.
      apply eqm_trans with (b := gp h hi (e + - e)); [apply eqm_sym; apply gp_add|].
      replace (e + - e) with 0 by ring. apply gp_0.
    Qed.
  End Base.

  Lemma eq_eqm a b : a = b -> a == b. Proof. intros ->. reflexivity. Qed.

  (* pow_mod computes gp *)
  Lemma invert_eqm h hi : invert h n = Some hi -> h * hi == 1.
  Proof. intros H. apply invert_spec in H as [_ [_ H]]. exact H. Qed.

  Lemma pow_mod_gp h hi e : invert h n = Some hi -> pow_mod h e n = Ok (gp h hi e).
  Proof.
    intros Hi. unfold pow_mod, gp. destruct (Z.leb_spec n 0); [lia|].
    destruct (Z.leb_spec 0 e).
    - rewrite pow_nonneg_mod_spec by lia. reflexivity.
    - rewrite Hi. rewrite pow_nonneg_mod_spec by lia. reflexivity.
  Qed.

  Lemma gp_range h hi e : 0 <= gp h hi e < n.
  Proof. unfold gp. destruct (0 <=? e); apply Z.mod_pos_bound; lia. Qed.
End G.

(* ---------------------------------------------------------------- completeness of the model's modular inverse *)
(* extended Euclid with the fuel the model gives it computes the gcd: the product r0 * r1 at least halves every step *)
Lemma egcd_fuel_gcd : forall f r0 r1 s0 s1, 0 <= r1 < r0 -> r0 * r1 < 2 ^ Z.of_nat f ->
  fst (egcd_fuel f r0 r1 s0 s1) = Z.gcd r0 r1.
Proof.
  induction f as [|f IH]; intros r0 r1 s0 s1 Hr Hp.
  - cbn in Hp. assert (r1 = 0) by nia. subst. cbn. rewrite Z.gcd_0_r, Z.abs_eq by lia. reflexivity.
  - cbn [egcd_fuel]. destruct (Z.eqb_spec r1 0) as [->|Hnz].
    + cbn. rewrite Z.gcd_0_r, Z.abs_eq by lia. reflexivity.
    + assert (Hq : r0 - r0 / r1 * r1 = r0 mod r1) by (rewrite Z.mod_eq by lia; ring).
      rewrite Hq. pose proof (Z.mod_pos_bound r0 r1 ltac:(lia)) as Hm.
      rewrite IH.
      * rewrite Z.gcd_comm, Z.gcd_mod by lia. apply Z.gcd_comm.
      * lia.
      * (* r0 mod r1 <= r0 - r1 and < r1, so 2 * (r0 mod r1) < r0 *)
        assert (H2 : 2 * (r0 mod r1) < r0).
        { pose proof (Z.div_mod r0 r1 ltac:(lia)) as Hd. assert (1 <= r0 / r1) by (apply Z.div_le_lower_bound; lia). nia. }
        rewrite Nat2Z.inj_succ, Z.pow_succ_r in Hp by lia. nia.
Qed.

Lemma invert_complete a m y : 0 < m -> (a * y) mod m = 1 mod m -> exists x, invert a m = Some x.
Proof.
  intros Hm Hy. unfold invert. destruct (Z.leb_spec m 0); [lia|].
  destruct (Z.eq_dec m 1) as [->|Hm1].
  { destruct (egcd_fuel _ _ _ _ _) as [g x]. destruct (g =? 1); [eauto|]. cbn. eauto. }
  (* gcd (a mod m) m = 1 *)
  assert (Hg : Z.gcd (a mod m) m = 1).
  { rewrite Z.gcd_mod by lia. rewrite Z.gcd_comm. apply Zgcd_1_rel_prime. apply bezout_rel_prime.
    rewrite (Z.mod_small 1) in Hy by lia.
    apply Bezout_intro with (u := y) (v := - ((a * y) / m)).
    pose proof (Z.div_mod (a * y) m ltac:(lia)). lia. }
  pose proof (Z.mod_pos_bound a m Hm) as Ha.
  (* first step: a mod m < m, quotient 0, the pair is swapped *)
  set (fuel := (2 * Z.to_nat (Z.log2 m) + 4)%nat).
  assert (Hfuel : exists f, fuel = Datatypes.S f /\ (2 * Z.to_nat (Z.log2 m) + 3 <= f)%nat) by (exists (2 * Z.to_nat (Z.log2 m) + 3)%nat; unfold fuel; lia).
  destruct Hfuel as [f [-> Hf]]. cbn [egcd_fuel].
  destruct (Z.eqb_spec m 0); [lia|].
  assert (Hq0 : a mod m / m = 0) by (apply Z.div_small; lia).
  rewrite Hq0. replace (a mod m - 0 * m) with (a mod m) by ring.
  destruct (egcd_fuel f m (a mod m) 0 (1 - 0 * 0)) as [g x] eqn:Eg.
  assert (Hgg : g = 1).
  { pose proof (egcd_fuel_gcd f m (a mod m) 0 (1 - 0 * 0) ltac:(lia)) as Hx. rewrite Eg in Hx. cbn in Hx.
    rewrite Hx; [rewrite Z.gcd_comm; exact Hg|].
    (* m * (a mod m) < m^2 <= 2^(2 log2 m + 2) *)
    pose proof (Z.log2_spec m Hm) as [_ Hl].
    assert (m * (a mod m) < 2 ^ (Z.succ (Z.log2 m)) * 2 ^ (Z.succ (Z.log2 m))) by nia.
    rewrite <- Z.pow_add_r in H0 by (pose proof (Z.log2_nonneg m); lia).
    eapply Z.lt_le_trans; [exact H0|]. apply Z.pow_le_mono_r; [lia|].
    pose proof (Z.log2_nonneg m). lia. }
  subst g. cbn. eauto.
Qed.
