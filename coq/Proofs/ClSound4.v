(* C16: an accepted tolerance proof TIES its sub-commitments to the commitment it is about and to the position of the bounds
   (for every modulus and all invertible values): with aa, bb the widened bounds the verifier computes from (a, b, T),
       E_a_2 * E_a_1 * g^aa == E        and        E_b_2 * E_b_1 * E == g^bb        (mod n).
   A verifier that only checked the product of the four sub-commitments against g^(bb - aa) would lose both. *)
From ZK Require Import Cl ClArith ClSig ClMore ClGroup ClBoudot ClSound ClSound2.
From Coq Require Import ZArith Lia Zdiv Setoid Morphisms List Bool.
Import ListNotations.
Open Scope Z_scope.

Section T.
  Variable n : Z.
  Hypothesis Hn : 0 < n.
  Local Infix "==" := (cgs n) (at level 70).
  Local Instance cgs_equiv5 : Equivalence (cgs n) := cgs_equiv n.
  Local Instance cgs_mul5 : Proper (cgs n ==> cgs n ==> cgs n) Z.mul := cgs_mul n Hn.

  (* division by a unit: the quotient times the divisor is the dividend *)
  Lemma divm_unit a b bi q : invert b n = Some bi -> divm a b n = Ok q -> q * b == a.
  Proof.
    intros Hb H. unfold divm in H. destruct (Z.eqb_spec n 0); [lia|]. rewrite Z.abs_eq in H by lia. rewrite Hb in H.
    inversion H; subst q. pose proof (invert_eqm n b bi Hb) as Hu. change (b * bi == 1) in Hu.
    rewrite (rem_eqm (bi * a) n Hn : cgs n _ _).
    transitivity (a * (b * bi)); [apply cgs_eq; ring|]. rewrite Hu. apply cgs_eq; ring.
  Qed.

  Theorem tolerance_accepts_ties_E BP p g gi h E Ei a b T Ea1i Eb1i :
    invert g n = Some gi -> invert E n = Some Ei ->
    invert (wt_Ea1 p) n = Some Ea1i -> invert (wt_Eb1 p) n = Some Eb1i ->
    verify_of_tolerance BP p g h E n a b T = Ok true ->
    exists aa bb, tol_aa BP a b T = Ok aa /\ tol_bb BP a b T = Ok bb /\
      wt_Ea2 p * wt_Ea1 p * gp n g gi aa == E /\
      wt_Eb2 p * wt_Eb1 p * E == gp n g gi bb.
  Proof.
    intros Hg HE Ha1 Hb1 Hv. unfold verify_of_tolerance in Hv.
    destruct (tol_aa BP a b T) as [aa| | |]; cbn [bind] in Hv; try discriminate.
    destruct (tol_bb BP a b T) as [bb| | |]; cbn [bind] in Hv; try discriminate.
    rewrite (pow_mod_gp n Hn g gi aa Hg) in Hv. cbn [bind] in Hv.
    destruct (divm E (gp n g gi aa) n) as [Ea| | |] eqn:EEa; cbn [bind] in Hv; try discriminate.
    rewrite (pow_mod_gp n Hn g gi bb Hg) in Hv. cbn [bind] in Hv.
    destruct (divm (gp n g gi bb) E n) as [Eb| | |] eqn:EEb; cbn [bind] in Hv; try discriminate.
    destruct (divm Ea (wt_Ea1 p) n) as [da| | |] eqn:Eda; cbn [bind] in Hv; try discriminate.
    destruct (divm Eb (wt_Eb1 p) n) as [db| | |] eqn:Edb; cbn [bind] in Hv; try discriminate.
    destruct ((wt_Ea2 p =? da) && (wt_Eb2 p =? db) && (sq_E (wt_sqa p) =? wt_Ea1 p) && (sq_E (wt_sqb p) =? wt_Eb1 p)) eqn:Ec; [|discriminate].
    apply andb_true_iff in Ec as [Ec _]. apply andb_true_iff in Ec as [Ec _]. apply andb_true_iff in Ec as [E1 E2].
    apply Z.eqb_eq in E1, E2. exists aa, bb. split; [reflexivity|]. split; [reflexivity|].
    (* g^aa is a unit *)
    assert (Hgu : exists gai, invert (gp n g gi aa) n = Some gai).
    { apply invert_complete with (y := gp n g gi (- aa)); [exact Hn|]. apply (gp_opp n Hn g gi (invert_eqm n g gi Hg) aa). }
    destruct Hgu as [gai Hgai].
    pose proof (divm_unit _ _ _ _ Hgai EEa) as H1.       (* Ea * g^aa == E *)
    pose proof (divm_unit _ _ _ _ HE EEb) as H2.         (* Eb * E == g^bb *)
    pose proof (divm_unit _ _ _ _ Ha1 Eda) as H3.        (* da * Ea1 == Ea *)
    pose proof (divm_unit _ _ _ _ Hb1 Edb) as H4.        (* db * Eb1 == Eb *)
    rewrite E1, E2. split.
    - rewrite H3. exact H1.
    - rewrite H4. exact H2.
  Qed.

  (* the whole range proof: E' = E^(2^T), and the sub-commitments are tied to E' and to the bounds *)
  Theorem boudot_accepts_ties_E BP p g gi h rmin rmax Epi Ea1i Eb1i :
    invert g n = Some gi -> invert (bd_Eprime p) n = Some Epi ->
    invert (wt_Ea1 (bd_wt p)) n = Some Ea1i -> invert (wt_Eb1 (bd_wt p)) n = Some Eb1i ->
    boudot_verify BP p g h n rmin rmax = Ok true ->
    let T := range_T BP rmin rmax in
    pow_mod (bd_E p) (two T) n = Ok (bd_Eprime p) /\
    exists aa bb, tol_aa BP rmin rmax T = Ok aa /\ tol_bb BP rmin rmax T = Ok bb /\
      wt_Ea2 (bd_wt p) * wt_Ea1 (bd_wt p) * gp n g gi aa == bd_Eprime p /\
      wt_Eb2 (bd_wt p) * wt_Eb1 (bd_wt p) * bd_Eprime p == gp n g gi bb.
  Proof.
    intros Hg HE Ha1 Hb1 Hv. cbv zeta. pose proof (boudot_accepts BP p g h n rmin rmax Hv) as [_ [Hp _]].
    split; [exact Hp|]. unfold boudot_verify in Hv. destruct (rmax <=? rmin); [discriminate|].
    destruct ((bd_E p <? 0) || (n <=? bd_E p))%bool; [discriminate|].
    rewrite Hp in Hv. cbn [bind] in Hv. rewrite Z.eqb_refl in Hv.
    apply (tolerance_accepts_ties_E BP (bd_wt p) g gi h (bd_Eprime p) Epi rmin rmax _ Ea1i Eb1i Hg HE Ha1 Hb1 Hv).
  Qed.
End T.
