(* Premises of the algebraic theorems (never axioms: every theorem is universally quantified
   over an environment E and a proof of [Laws E]).
   G1 and G2 are cyclic groups of the same prime order r with a non-degenerate bilinear pairing,
   written in discrete-logarithm form so that [ring] / [field] close group equations. *)
From ZK Require Export Blind.
From Coq Require Export Field Ring Setoid.

Record Laws (E : env) : Type := {
  L_field : field_theory (f0 (SO E)) (f1 (SO E)) (fadd (SO E)) (fmul (SO E)) (fsub (SO E))
                         (fopp (SO E)) (fdiv (SO E)) (finv (SO E)) (@eq (F (SO E)));
  L_feqb : forall x y, feqb (SO E) x y = true <-> x = y;
  (* scalar codec *)
  L_f_dec_enc : forall x, f_of_be (SO E) (f_to_be (SO E) x) = Some x;
  L_f_enc_dec : forall b x, f_of_be (SO E) b = Some x -> f_to_be (SO E) x = b;
  L_f_enc_len : forall x, length (f_to_be (SO E) x) = 32%nat;
  L_f_dec_len : forall b x, f_of_be (SO E) b = Some x -> length b = 32%nat;
  (* discrete logarithms *)
  dl1 : @G1 _ (PR E) -> F (SO E);
  dl2 : @G2 _ (PR E) -> F (SO E);
  L_dl1_inj : forall a b, dl1 a = dl1 b -> a = b;
  L_dl1_zero : dl1 (g1_zero (PR E)) = f0 (SO E);
  L_dl1_add : forall a b, dl1 (g1_add (PR E) a b) = fadd (SO E) (dl1 a) (dl1 b);
  L_dl1_neg : forall a, dl1 (g1_neg (PR E) a) = fopp (SO E) (dl1 a);
  L_dl1_mul : forall s a, dl1 (g1_mul (PR E) s a) = fmul (SO E) s (dl1 a);
  L_g1_eqb : forall a b, g1_eqb (PR E) a b = true <-> a = b;
  L_dl2_inj : forall a b, dl2 a = dl2 b -> a = b;
  L_dl2_zero : dl2 (g2_zero (PR E)) = f0 (SO E);
  L_g2_eqb : forall a b, g2_eqb (PR E) a b = true <-> a = b;
  L_dl2_gen : forall s, dl2 (g2_mul_gen (PR E) s) = s;
  L_dl2_add : forall a b, dl2 (g2_add (PR E) a b) = fadd (SO E) (dl2 a) (dl2 b);
  L_pair : forall a x b y, pairing_eq (PR E) a x b y = true <->
                           fmul (SO E) (dl1 a) (dl2 x) = fmul (SO E) (dl1 b) (dl2 y);
  (* point codecs *)
  L_g1_dec_enc : forall p, g1_dec (PR E) (g1_enc (PR E) p) = Some p;
  L_g1_enc_dec : forall b p, g1_dec (PR E) b = Some p -> g1_enc (PR E) p = b;
  L_g1_enc_len : forall p, length (g1_enc (PR E) p) = 48%nat;
  L_g2_dec_enc : forall p, g2_dec (PR E) (g2_enc (PR E) p) = Some p;
  L_g2_enc_dec : forall b p, g2_dec (PR E) b = Some p -> g2_enc (PR E) p = b;
  L_g2_enc_len : forall p, length (g2_enc (PR E) p) = 96%nat;
  L_g2u_dec_enc : forall p, g2_dec_unc (PR E) (g2_enc_unc (PR E) p) = Some p;
  L_g2u_enc_dec : forall b p, g2_dec_unc (PR E) b = Some p -> g2_enc_unc (PR E) p = b;
  L_g2u_enc_len : forall p, length (g2_enc_unc (PR E) p) = 192%nat
}.

(* The ciphersuite constants are usable: every derived DST fits in 255 bytes and P1 decodes.
   Checked by computation for the generated constants (Properties/Consts obligations). *)
Definition suite_dsts_ok (s : suite) : Prop :=
  (length (c_api_id s ++ c_map_msg_scalar s) <= 255)%nat /\
  (length (c_api_id s ++ c_h2s s) <= 255)%nat /\
  (length (c_api_id s ++ c_keygen_dst s) <= 255)%nat /\
  (length (c_api_id_blind s ++ c_map_msg_scalar s) <= 255)%nat /\
  (length (c_api_id_blind s ++ c_h2s s) <= 255)%nat /\
  c_ikm_len s = 32 /\ c_expand_len s = 48.

Definition suite_ok (E : env) : Prop :=
  suite_dsts_ok (cs E) /\ exists p, g1_dec (PR E) (c_p1 (cs E)) = Some p.
