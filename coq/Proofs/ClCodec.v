(* C13 / C18: byte codecs of CL03 signatures and secret keys round-trip (for every suite and every value the encoder
   accepts). *)
From ZK Require Import Cl ClArith ClSig ClMore BaseLemmas.
From Coq Require Import ZArith Lia Znumtheory Zpow_facts Zdiv List.
Import ListNotations.
Open Scope Z_scope.

Lemma sub_mid {A} (a b c : list A) : sub (a ++ b ++ c) (length a) (length a + length b) = b.
Proof.
  unfold sub. rewrite skipn_app, skipn_all, Nat.sub_diag. cbn [skipn app].
  replace (length a + length b - length a)%nat with (length b) by lia.
  rewrite firstn_app, firstn_all, Nat.sub_diag. cbn. apply app_nil_r.
Qed.

Lemma min_be_roundtrip v : 0 <= v -> of_be (min_be v) = v.
Proof.
  intros Hv. unfold min_be, of_be. destruct (Z.eqb_spec v 0) as [->|Hnz]; [reflexivity|].
  rewrite Z.abs_eq by lia. rewrite os2ip_be_bytes_nat; [apply Z2N.id; lia|].
  assert (Hp : 0 < v) by lia.
  pose proof (Z.log2_spec v Hp) as [_ Hl]. pose proof (Z.log2_nonneg v) as Hl0.
  set (k := Z.log2 v) in *.
  assert (Hk8 : 0 <= k / 8) by (apply Z.div_pos; lia).
  apply N2Z.inj_lt. rewrite Z2N.id by lia. rewrite N2Z.inj_pow, nat_N_Z, Z2Nat.id by lia.
  change (Z.of_N 256) with (2 ^ 8). rewrite <- Z.pow_mul_r by lia.
  eapply Z.lt_le_trans; [exact Hl|]. apply Z.pow_le_mono_r; [lia|].
  pose proof (Z.div_mod k 8 ltac:(lia)). pose proof (Z.mod_pos_bound k 8 ltac:(lia)). lia.
Qed.

Section C.
  Variable CS : clsuite.

  Theorem sig_codec_roundtrip sg b : 0 <= s_e sg -> 0 <= s_s sg -> 0 <= s_v sg ->
    sig_to_bytes CS sg = Ok b -> sig_from_bytes CS b = Ok sg.
  Proof.
    intros He Hs Hv. unfold sig_to_bytes. rewrite !Z.abs_eq by assumption.
    destruct (be_fixed (Z.to_nat (le CS)) (s_e sg)) as [a| | |] eqn:Ea; cbn [bind]; try discriminate.
    destruct (be_fixed (Z.to_nat (ls CS)) (s_s sg)) as [c| | |] eqn:Ec; cbn [bind]; try discriminate.
    intros H; inversion H; subst b; clear H.
    apply of_be_fixed in Ea as [Ea La], Ec as [Ec Lc].
    unfold sig_from_bytes. rewrite <- La, <- Lc.
    rewrite slice_ok by (rewrite ?app_length; lia). cbn [bind].
    rewrite slice_ok by (rewrite ?app_length; lia). cbn [bind].
    rewrite slice_from_ok by (rewrite ?app_length; lia). cbn [bind].
    rewrite sub_app_l by reflexivity. rewrite sub_mid.
    rewrite app_assoc, skipn_app, skipn_all2 by (rewrite app_length; lia).
    rewrite app_length, Nat.sub_diag. cbn [skipn app].
    rewrite Ea, Ec, min_be_roundtrip by assumption. destruct sg; reflexivity.
  Qed.

  Theorem sk_codec_roundtrip sk b : sk_to_bytes CS sk = Ok b -> sk_from_bytes CS b = Ok sk.
  Proof.
    unfold sk_to_bytes. set (w := (Z.to_nat (SECPARAM CS) / 8 + 1)%nat).
    destruct (be_fixed w (sk_p sk)) as [a| | |] eqn:Ea; cbn [bind]; try discriminate.
    destruct (be_fixed w (sk_q sk)) as [c| | |] eqn:Ec; cbn [bind]; try discriminate.
    intros H; inversion H; subst b; clear H.
    apply of_be_fixed in Ea as [Ea La], Ec as [Ec Lc].
    unfold sk_from_bytes. fold w.
    rewrite slice_ok by (rewrite ?app_length; lia). cbn [bind].
    rewrite slice_ok by (rewrite ?app_length; lia). cbn [bind].
    rewrite sub_app_l by (symmetry; exact La). rewrite sub_app_r by lia.
    rewrite Ea, Ec. destruct sk; reflexivity.
  Qed.
End C.
