(* C06: binding of blind signatures.  verify_blind_sign is core_verify over the combined generator list
   (Q1, H_1..H_L, Q2, J_1..J_M) and the scalar vector (msgs, blind, committed msgs): acceptance of one blind signature for two
   different (signer messages, committed messages, blinding factor, header) of the same shape constructs a collision of the
   message hash, a collision of the domain hash, or a non-trivial discrete-log relation among those generators. *)
From ZK Require Import Laws BaseLemmas ModelLemmas SignProofs UpdateProofs Separation Binding BlindComplete.
Open Scope N_scope.

Section BB.
  Context (E : env) (LW : Laws E).
  Notation S := (SO E).
  Notation P := (PR E).
  Notation Fd := (F S).
  Notation c := (cs E).

  Definition hmb' (m : bytes) : Fd := f_of_okm S (expand E m (c_api_id_blind c ++ c_map_msg_scalar c) 48).

  Theorem blind_verify_binding s pk header header' msgs msgs' cm cm' spb spb' :
    suite_ok E ->
    verify_blind_sign E s pk header (Some msgs) (Some cm) (Some spb) = Ok tt ->
    verify_blind_sign E s pk header' (Some msgs') (Some cm') (Some spb') = Ok tt ->
    length msgs = length msgs' -> length cm = length cm' ->
    len (option_default [] header) <= usize_max -> len (option_default [] header') <= usize_max ->
    (msgs <> msgs' \/ cm <> cm' \/ spb <> spb' \/ option_default [] header <> option_default [] header') ->
    (exists i, (i < length msgs)%nat /\ nth i msgs [] <> nth i msgs' [] /\ hmb' (nth i msgs []) = hmb' (nth i msgs' [])) \/
    (exists i, (i < length cm)%nat /\ nth i cm [] <> nth i cm' [] /\ hmb' (nth i cm []) = hmb' (nth i cm' [])) \/
    (exists Q1 H dm dm',
       DLRelation E LW (Q1 :: H) (fsub S dm dm' :: zip_sub E (map hmb' msgs ++ [spb] ++ map hmb' cm) (map hmb' msgs' ++ [spb'] ++ map hmb' cm')) \/
       Collision (fun x => f_of_okm S (expand E x (c_api_id_blind c ++ c_h2s c) 48))
                 (dom_input E pk Q1 H header (c_api_id_blind c)) (dom_input E pk Q1 H header' (c_api_id_blind c))).
  Proof.
    intros Hs V1 V2 Hl Hlc B1 B2 Hne. pose proof Hs as [[_ [_ [_ [Hmb _]]]] [p1 Hp1]].
    unfold verify_blind_sign, prepare_parameters in V1, V2. cbn [option_default] in V1, V2.
    rewrite !(messages_to_scalars_ok E) in V1, V2 by assumption. cbn [bind] in V1, V2. fold hmb' in V1, V2.
    unfold gens_create in V1, V2. rewrite Hp1 in V1, V2. cbn [unwrap bind] in V1, V2.
    rewrite <- Hl, <- Hlc in V2.
    match type of V1 with core_verify _ _ _ _ ?gg _ _ = _ => set (g := gg) in * end.
    (* do the scalar vectors differ? *)
    destruct (list_eq_dec (list_eq_dec N.eq_dec) msgs msgs') as [Hmm|Hmm].
    2:{ destruct (list_eq_dec (fun a b : Fd => match feqb S a b as cc return (feqb S a b = cc -> {a = b} + {a <> b}) with
                                            | true => fun H => left (feqb_true E LW _ _ H)
                                            | false => fun H => right (feqb_false E LW _ _ H) end eq_refl)
                          (map hmb' msgs) (map hmb' msgs')) as [Heq|Hneq].
        - left. apply (map_eq_neq E); assumption.
        - right. right.
          destruct (verify_binding_core E LW pk s _ _ g header header' _ V1 V2 B1 B2) as [Q1 [H [_ [R|Cc]]]].
          + left. intros C. apply app_eq_len_split in C as [C _]; [contradiction|rewrite !map_length; exact Hl].
          + exists Q1, H. eexists. eexists. left. exact R.
          + exists Q1, H, (f0 S), (f0 S). right. exact Cc. }
    subst msgs'.
    destruct (list_eq_dec (list_eq_dec N.eq_dec) cm cm') as [Hcc|Hcc].
    2:{ destruct (list_eq_dec (fun a b : Fd => match feqb S a b as cc return (feqb S a b = cc -> {a = b} + {a <> b}) with
                                            | true => fun H => left (feqb_true E LW _ _ H)
                                            | false => fun H => right (feqb_false E LW _ _ H) end eq_refl)
                          (map hmb' cm) (map hmb' cm')) as [Heq|Hneq].
        - right. left. apply (map_eq_neq E); assumption.
        - right. right.
          destruct (verify_binding_core E LW pk s _ _ g header header' _ V1 V2 B1 B2) as [Q1 [H [_ [R|Cc]]]].
          + left. intros C. apply app_inv_head in C. cbn [app] in C. injection C as _ C'. contradiction.
          + exists Q1, H. eexists. eexists. left. exact R.
          + exists Q1, H, (f0 S), (f0 S). right. exact Cc. }
    subst cm'. right. right.
    destruct (verify_binding_core E LW pk s _ _ g header header' _ V1 V2 B1 B2) as [Q1 [H [_ [R|Cc]]]].
    - destruct Hne as [C|[C|[Hsp|Hh]]]; try contradiction.
      + left. intros C. apply app_inv_head in C. cbn [app] in C. injection C as C1. contradiction.
      + right. exact Hh.
    - exists Q1, H. eexists. eexists. left. exact R.
    - exists Q1, H, (f0 S), (f0 S). right. exact Cc.
  Qed.
End BB.
