(* C03: completeness of the BBS proof of knowledge for every disclosure choice. *)
From ZK Require Import Laws BaseLemmas ModelLemmas SignProofs Codec NoPanic.
From Coq Require Import Sorting.Permutation.
Open Scope N_scope.

Section PC.
  Context (E : env) (LW : Laws E).
  Notation S := (SO E).
  Notation P := (PR E).
  Notation Fd := (F S).
  Notation G1t := (@G1 S P).
  Notation G2t := (@G2 S P).

  Local Notation "0" := (f0 S).
  Local Notation "1" := (f1 S).
  Local Infix "+" := (fadd S).
  Local Infix "*" := (fmul S).
  Local Infix "-" := (fsub S).
  Local Infix "/" := (fdiv S).
  Local Notation "- x" := (fopp S x).
  Local Notation d1 := (dl1 E LW).
  Local Notation d2 := (dl2 E LW).

  Add Field Ffpc : (Fth E LW).

  (* ---------------------------------------------------------------- sums over index lists *)
  Fixpoint sumN (f : N -> Fd) (l : list N) : Fd :=
    match l with [] => 0 | i :: r => f i + sumN f r end.

  Lemma sumN_app f a b : sumN f (a ++ b) = sumN f a + sumN f b.
  Proof. induction a as [|x a IH]; cbn; [ring|]. rewrite IH. ring. Qed.

  Lemma sumN_perm f a b : Permutation a b -> sumN f a = sumN f b.
  Proof. induction 1; cbn; [ring | rewrite IHPermutation; ring | ring | congruence]. Qed.

  Lemma sumN_filter f (p : N -> bool) l :
    sumN f l = sumN f (filter p l) + sumN f (filter (fun x => negb (p x)) l).
  Proof.
    induction l as [|x l IH]; cbn; [ring|]. destruct (p x); cbn; rewrite IH; ring.
  Qed.

  Lemma sumN_ext f g l : (forall i, In i l -> f i = g i) -> sumN f l = sumN g l.
  Proof.
    induction l as [|x l IH]; cbn; intros H; [reflexivity|].
    rewrite H by (left; reflexivity). rewrite IH by (intros; apply H; right; assumption). reflexivity.
  Qed.

  Definition nthF (ms : list Fd) (i : N) : Fd := nth (N.to_nat i) ms 0.
  Definition nthG (H : list G1t) (i : N) : G1t := nth (N.to_nat i) H (g1_zero P).
  Definition term (H : list G1t) (ms : list Fd) (i : N) : Fd := nthF ms i * d1 (nthG H i).

  Definition seqN (a n : nat) : list N := map N.of_nat (seq a n).

  Lemma term_cons h H m ms k : term (h :: H) (m :: ms) (N.of_nat (Datatypes.S k)) = term H ms (N.of_nat k).
  Proof. unfold term, nthF, nthG. rewrite !Nat2N.id. reflexivity. Qed.

  Lemma dot_seq H ms : length H = length ms ->
    dot E LW H ms = sumN (term H ms) (seqN 0 (length ms)).
  Proof.
    revert ms. induction H as [|h H IH]; intros [|m ms] Hl; cbn in Hl; try discriminate; [reflexivity|].
    cbn [dot length]. unfold seqN. cbn [seq map sumN].
    rewrite IH by lia. f_equal.
    rewrite <- seq_shift, map_map. unfold seqN.
    generalize (seq 0 (length ms)) as l. induction l as [|x l IHl]; cbn [map sumN]; [reflexivity|].
    rewrite IHl, term_cons. reflexivity.
  Qed.

  (* get_at as a map of nth when all indices are in range *)
  Lemma get_at_nth {A} (d : A) (l : list A) idx : (forall y, In y idx -> y < len l) ->
    get_at l idx = Ok (map (fun i => nth (N.to_nat i) l d) idx).
  Proof.
    intros H. unfold get_at. induction idx as [|i idx IH]; cbn; [reflexivity|].
    assert (Hi : (N.to_nat i < length l)%nat) by (specialize (H i (or_introl eq_refl)); unfold len in H; lia).
    unfold index at 1. destruct (nth_error l (N.to_nat i)) eqn:En; [|apply nth_error_None in En; lia].
    cbn. rewrite IH by (intros; apply H; right; assumption). cbn.
    rewrite (nth_error_nth _ _ d En). reflexivity.
  Qed.

  Lemma dot_get_at H ms idx :
    dot E LW (map (nthG H) idx) (map (nthF ms) idx) = sumN (term H ms) idx.
  Proof. induction idx as [|i idx IH]; cbn; [reflexivity|]. rewrite IH. reflexivity. Qed.

  Lemma remaining_filter n idx :
    remaining n idx = filter (fun i => negb (memN i idx)) (seqN 0 n).
  Proof. reflexivity. Qed.

  (* the partition: sum over all positions = sum over the disclosed ones + sum over the rest *)
  Lemma sum_partition f n D : NoDup D -> (forall y, In y D -> y < N.of_nat n) ->
    sumN f (seqN 0 n) = sumN f D + sumN f (remaining n D).
  Proof.
    intros Hnd Hlt. rewrite (sumN_filter f (fun i => memN i D)). rewrite <- remaining_filter. f_equal.
    apply sumN_perm. apply NoDup_Permutation.
    - apply NoDup_filter. apply seqN_NoDup.
    - assumption.
    - intros x. rewrite filter_In. unfold seqN. rewrite in_map_iff. split.
      + intros [_ Hm]. apply memN_In; assumption.
      + intros Hx. split; [|apply memN_In; assumption].
        exists (N.to_nat x). split; [lia|]. apply in_seq. specialize (Hlt x Hx). lia.
  Qed.

  Lemma dot_combine_add H (a b : list Fd) ch : length a = length b ->
    dot E LW H (map (fun p => fst p + snd p * ch) (combine a b)) = dot E LW H a + ch * dot E LW H b.
  Proof.
    revert a b. induction H as [|h H IH]; intros a b Hl.
    - destruct a, b; cbn; ring.
    - destruct a as [|x a], b as [|y b]; cbn in Hl; try discriminate; cbn; [ring|].
      rewrite IH by lia. ring.
  Qed.

  Lemma nth_rho (rho : list Fd) k : (k < length rho)%nat -> index rho k = Ok (nth k rho 0).
  Proof.
    intros H. unfold index. destruct (nth_error rho k) eqn:En; [|apply nth_error_None in En; lia].
    cbn. rewrite (nth_error_nth _ _ 0 En). reflexivity.
  Qed.

  (* ---------------------------------------------------------------- core completeness *)
  Theorem core_proof_complete pk s g ms idx header ph api rho :
    core_verify E pk s ms g header api = Ok tt ->
    (forall i, In i idx -> i < N.of_nat (length ms)) ->
    length rho = (5 + (length ms - length (sort_dedup idx)))%nat ->
    nth 0 rho 0 <> 0 -> nth 1 rho 0 <> 0 ->
    sig_A E s <> g1_zero P -> d2 pk <> 0 -> d2 pk + sig_e E s <> 0 ->
    (length (api ++ c_h2s (cs E)) <= 255)%nat ->
    exists p,
      core_proof_gen E pk s g ms idx header ph api rho = Ok p /\
      length (p_m_cap E p) = (length ms - length (sort_dedup idx))%nat /\
      pok_points_ok E p /\
      core_proof_verify E pk p g header ph
        (map (nthF ms) (sort_dedup idx)) (sort_dedup idx) api = Ok tt.
  Proof.
    intros Hv Hidx Hrho Hr1 Hr2 HA Hpk Hske Hdst.
    set (di := sort_dedup idx) in *.
    assert (Hdi : forall y, In y di -> y < N.of_nat (length ms)).
    { intros y Hy. apply Hidx. apply sort_dedup_In; exact Hy. }
    assert (Hnd : NoDup di) by (apply strictly_sorted_NoDup, sort_dedup_sorted).
    assert (HR : (length di <= length ms)%nat).
    { pose proof (remaining_length (length ms) di Hnd Hdi). lia. }
    assert (Hrem : (length (remaining (length ms) di) = length ms - length di)%nat).
    { pose proof (remaining_length (length ms) di Hnd Hdi). lia. }
    set (und := remaining (length ms) di) in *.
    assert (Hund : forall y, In y und -> y < N.of_nat (length ms)).
    { intros y Hy. apply in_remaining_lt in Hy; exact Hy. }
    (* unfold the verifier's view of the signature *)
    unfold core_verify in Hv.
    destruct (negb (Nat.eqb (length (g_values E g)) (length ms + 1))) eqn:Hgl; [discriminate|].
    apply negb_false_iff, Nat.eqb_eq in Hgl.
    destruct (index (g_values E g) 0) as [Q1| | |] eqn:EQ1; cbn [bind] in Hv; try discriminate.
    set (HH := skipn 1 (g_values E g)) in *.
    assert (HHl : length HH = length ms) by (unfold HH; rewrite skipn_length; lia).
    destruct (calculate_domain E pk Q1 HH header api) as [dom| | |] eqn:Edom; cbn [bind] in Hv; try discriminate.
    set (B := compute_B E g Q1 HH dom ms) in *.
    destruct (pairing_eq P (sig_A E s) _ B _) eqn:Epair; [|discriminate]. clear Hv.
    apply (L_pair E LW) in Epair. rewrite (L_dl2_add E LW), !(L_dl2_gen E LW) in Epair.
    (* run the prover *)
    unfold core_proof_gen.
    unfold usub, len. destruct (N.leb_spec 1 (N.of_nat (length (g_values E g)))); [|lia]. cbn [bind].
    destruct (N.ltb_spec (N.of_nat (length (g_values E g)) - 1) (N.of_nat (length ms))); [lia|].
    fold di. destruct (Nat.ltb_spec (length ms) (length di)); [lia|].
    assert (Hex : existsb (fun i => N.of_nat (length ms) <=? i) di = false) by (apply existsb_ge_false; exact Hdi).
    rewrite Hex. fold und.
    rewrite (get_at_nth 0 ms di) by (unfold len; exact Hdi). cbn [bind].
    rewrite (get_at_nth 0 ms und) by (unfold len; exact Hund). cbn [bind].
    fold (nthF ms).
    rewrite Hrho, Nat.eqb_refl. cbn [negb].
    unfold proof_init. rewrite Hrem, Hrho, Nat.eqb_refl. cbn [negb].
    rewrite Hgl, Nat.eqb_refl. cbn [negb]. rewrite EQ1. cbn [bind]. fold HH. rewrite Edom. cbn [bind]. fold B.
    rewrite !nth_rho by lia. cbn [bind].
    rewrite slice_ok by lia. cbn [bind].
    rewrite (get_at_nth (g1_zero P) HH und) by (unfold len; rewrite HHl; exact Hund). cbn [bind].
    fold (nthG HH).
    unfold proof_challenge_calculate at 1. rewrite !map_length, Nat.eqb_refl. cbn [negb].
    rewrite hash_to_scalar_ok by assumption. cbn [bind].
    unfold proof_finalize. rewrite !nth_rho by lia. cbn [bind].
    rewrite map_length, Hrem. rewrite slice_ok by lia. cbn [bind].
    rewrite (finv_opt_nz E LW) by assumption. cbn [try_opt bind].
    set (r1 := nth 0 rho 0) in *. set (r2 := nth 1 rho 0) in *. set (et := nth 2 rho 0).
    set (r1t := nth 3 rho 0). set (r3t := nth 4 rho 0).
    set (mt := sub rho 5 (5 + (length ms - length di))).
    assert (Hmt : length mt = (length ms - length di)%nat) by (unfold mt; rewrite sub_length; lia).
    match goal with |- context [f_of_okm S ?x] => set (ch := f_of_okm S x) end.
    eexists. split; [reflexivity|]. cbn [p_m_cap p_Abar p_Bbar p_D i_Abar i_Bbar i_D].
    assert (Hmcl : length (map (fun p => fst p + snd p * ch) (combine mt (map (nthF ms) und))) = (length ms - length di)%nat).
    { rewrite map_length, combine_length, map_length, Hmt, Hrem. lia. }
    split; [exact Hmcl|].
    (* discrete logs of the three points *)
    set (a := d1 (sig_A E s)) in *. set (b := d1 B) in *.
    assert (Ha : a <> 0).
    { intros C. apply HA. apply (L_dl1_inj E LW). rewrite (L_dl1_zero E LW). exact C. }
    assert (Hbe : b = a * (d2 pk + sig_e E s)).
    { transitivity (b * 1); [ring|]. symmetry. exact Epair. }
    assert (Hb : b <> 0).
    { rewrite Hbe. intros C. apply (fmul_integral E LW) in C as [C|C]; contradiction. }
    assert (HD : d1 (g1_mul P r2 B) = r2 * b) by (rewrite (L_dl1_mul E LW); reflexivity).
    assert (HAb : d1 (g1_mul P (r1 * r2) (sig_A E s)) = r1 * r2 * a) by (rewrite (L_dl1_mul E LW); reflexivity).
    assert (HBb : d1 (g1_add P (g1_mul P r1 (g1_mul P r2 B))
                        (g1_neg P (g1_mul P (sig_e E s) (g1_mul P (r1 * r2) (sig_A E s))))) = r1 * r2 * a * d2 pk).
    { rewrite (L_dl1_add E LW), (L_dl1_neg E LW), !(L_dl1_mul E LW). fold a b. rewrite Hbe. ring. }
    assert (nz : forall X : G1t, d1 X <> 0 -> g1_eqb P X (g1_zero P) = false).
    { intros X HX. apply (g1_eqb_neq E LW). intros C. apply HX. rewrite C. apply (L_dl1_zero E LW). }
    assert (mul_nz : forall x y, x <> 0 -> y <> 0 -> x * y <> 0).
    { intros x y Hx Hy C. apply (fmul_integral E LW) in C. tauto. }
    split.
    { unfold pok_points_ok. cbn [p_Abar p_Bbar p_D i_Abar i_Bbar i_D].
      repeat split; intros C; apply (f_equal d1) in C; rewrite (L_dl1_zero E LW) in C.
      - rewrite HAb in C. revert C. repeat apply mul_nz; assumption.
      - rewrite HBb in C. revert C. repeat apply mul_nz; assumption.
      - rewrite HD in C. revert C. repeat apply mul_nz; assumption. }
    (* run the verifier *)
    unfold core_proof_verify, proof_verify_init.
    cbn [p_m_cap p_Abar p_Bbar p_D p_chal p_e_cap p_r1_cap p_r3_cap i_Abar i_Bbar i_D].
    rewrite Hmcl.
    rewrite !nz by (rewrite ?HAb, ?HBb, ?HD; repeat apply mul_nz; assumption). cbn [orb].
    replace (length ms - length di + length di)%nat with (length ms) by lia.
    rewrite Hex. rewrite map_length, Nat.eqb_refl. cbn [negb].
    rewrite Hgl, Nat.eqb_refl. cbn [negb]. rewrite EQ1. cbn [bind]. fold HH. rewrite Edom. cbn [bind].
    rewrite (get_at_nth (g1_zero P) HH di) by (unfold len; rewrite HHl; exact Hdi). cbn [bind].
    fold und. rewrite slice_ok by lia. cbn [bind].
    replace (sub und 0 (length ms - length di)) with und by (symmetry; apply sub_full; lia).
    rewrite (get_at_nth (g1_zero P) HH und) by (unfold len; rewrite HHl; exact Hund). cbn [bind].
    fold (nthG HH).
    (* the recomputed commitments equal the prover's *)
    match goal with |- context [proof_challenge_calculate E ?ir di _ ph api] => set (irv := ir) end.
    let body := eval unfold ch in ch in
    match body with context [challenge_octets E ?ir di _ ph] => set (irp := ir) in ch end.
    assert (Heq : irv = irp).
    { unfold irv, irp. f_equal.
      - (* T1 *)
        apply (L_dl1_inj E LW).
        rewrite !(L_dl1_add E LW), !(L_dl1_mul E LW), HBb. fold a b. rewrite Hbe. ring.
      - (* T2 *)
        apply (L_dl1_inj E LW).
        rewrite !(dl_msm E LW), !(L_dl1_add E LW), !(L_dl1_mul E LW), !(dl_msm E LW), (L_dl1_add E LW), (L_dl1_mul E LW).
        fold b.
        rewrite dot_combine_add by (rewrite map_length; lia).
        rewrite !dot_get_at.
        assert (Hbv : b = d1 (g_p1 E g) + dom * d1 Q1 + sumN (term HH ms) (seqN 0 (length ms))).
        { unfold b, B, compute_B. rewrite (dl_msm E LW), (L_dl1_add E LW), (L_dl1_mul E LW).
          rewrite dot_seq by assumption. reflexivity. }
        rewrite (sum_partition (term HH ms) (length ms) di Hnd Hdi) in Hbv. fold und in Hbv.
        rewrite Hbv. field. assumption. }
    rewrite Heq. unfold proof_challenge_calculate. rewrite map_length, Nat.eqb_refl. cbn [negb].
    rewrite hash_to_scalar_ok by assumption. cbn [bind]. fold ch.
    rewrite (feqb_refl E LW). cbn [negb].
    match goal with |- (if ?c then _ else _) = _ => assert (Hc : c = true); [|rewrite Hc; reflexivity] end.
    apply (L_pair E LW). rewrite HAb, HBb, (L_dl2_gen E LW). ring.
  Qed.

  (* ---------------------------------------------------------------- API level *)
  (* the disclosed messages, with their original positions *)
  Definition pick (msgs : list bytes) (D : list N) : list bytes := map (fun i => nth (N.to_nat i) msgs []) D.

  Lemma map_nth_comm {A B} (f : A -> B) (l : list A) d i : (i < length l)%nat -> nth i (map f l) (f d) = f (nth i l d).
  Proof. intros _. apply map_nth. Qed.

  Lemma sig_from_bytes_nz b s : sig_from_bytes E b = Ok s -> sig_A E s <> g1_zero P /\ sig_e E s <> 0.
  Proof.
    unfold sig_from_bytes. destruct (negb _); [discriminate|].
    destruct (g1_dec P _) as [A|]; cbn [try_opt bind]; [|discriminate].
    destruct (f_of_be S _) as [e|]; cbn [try_opt bind]; [|discriminate].
    destruct (g1_eqb P A (g1_zero P)) eqn:EA; cbn [orb]; [discriminate|].
    destruct (feqb S e 0) eqn:Ee; [discriminate|].
    intros H; inversion H; subst; cbn. split; [apply (g1_eqb_false E LW)|apply (feqb_false E LW)]; assumption.
  Qed.

  Theorem proof_complete pk sigb s header ph msgs idx rho :
    suite_ok E ->
    sig_from_bytes E sigb = Ok s ->
    verify E s pk msgs header = Ok tt ->
    let ml := option_default [] msgs in
    let D := sort_dedup (option_default [] idx) in
    (forall i, In i (option_default [] idx) -> i < N.of_nat (length ml)) ->
    length rho = (5 + (length ml - length D))%nat ->
    nth 0 rho 0 <> 0 -> nth 1 rho 0 <> 0 -> d2 pk <> 0 -> d2 pk + sig_e E s <> 0 ->
    exists p,
      proof_gen E pk sigb header ph msgs idx rho = Ok p /\
      proof_verify E p pk (Some (pick ml D)) (Some D) header ph = Ok tt /\
      length (pok_to_bytes E p) = (272 + 32 * (length ml - length D))%nat /\
      pok_from_bytes E (pok_to_bytes E p) = Ok p.
  Proof.
    intros [[Hm [Hh _]] [p1 Hp1]] Hsig Hv ml D Hidx Hrho Hr1 Hr2 Hpk Hske.
    unfold verify in Hv. fold ml in Hv.
    rewrite (messages_to_scalars_ok E) in Hv by assumption. cbn [bind] in Hv.
    set (h := fun m => f_of_okm S (expand E m (c_api_id (cs E) ++ c_map_msg_scalar (cs E)) 48)) in *.
    destruct (gens_create E (length ml + 1) (c_api_id (cs E))) as [g| | |] eqn:Eg; cbn [bind] in Hv; try discriminate.
    assert (HA : sig_A E s <> g1_zero P) by (apply (sig_from_bytes_nz _ _ Hsig)).
    destruct (core_proof_complete pk s g (map h ml) (option_default [] idx) header ph (c_api_id (cs E)) rho)
      as [p [Hgen [Hlen [Hpts Hver]]]]; rewrite ?map_length; try assumption.
    exists p. split; [|split; [|split]].
    - unfold proof_gen. rewrite Hsig. cbn [bind]. fold ml.
      rewrite (messages_to_scalars_ok E) by assumption. cbn [bind]. rewrite Eg. cbn [bind]. exact Hgen.
    - unfold proof_verify. cbn [option_default]. fold D.
      assert (HDD : sort_dedup D = D) by (apply sort_dedup_idem). rewrite HDD.
      rewrite (messages_to_scalars_ok E) by assumption. cbn [bind].
      rewrite map_length in Hlen. fold D in Hlen. rewrite Hlen.
      assert (HR : (length D <= length ml)%nat).
      { pose proof (remaining_length (length ml) D) as Hx.
        assert (length (remaining (length ml) D) + length D = length ml)%nat; [|lia].
        apply Hx; [apply strictly_sorted_NoDup, sort_dedup_sorted|].
        intros y Hy. apply Hidx. apply sort_dedup_In; exact Hy. }
      replace (length ml - length D + length D + 1)%nat with (length ml + 1)%nat by lia.
      rewrite Eg. cbn [bind].
      fold D in Hver. fold h.
      replace (map h (pick ml D)) with (map (nthF (map h ml)) D); [exact Hver|].
      unfold pick. rewrite map_map. apply map_ext_in. intros i Hi.
      unfold nthF.
      assert (Hi' : (N.to_nat i < length ml)%nat).
      { assert (i < N.of_nat (length ml)); [|lia]. apply Hidx. apply sort_dedup_In; exact Hi. }
      rewrite (nth_indep _ 0 (h [])) by (rewrite map_length; exact Hi').
      apply map_nth.
    - rewrite (pok_to_bytes_length E LW). rewrite map_length in Hlen. fold D in Hlen. rewrite Hlen. reflexivity.
    - apply (pok_codec_roundtrip E LW). exact Hpts.
  Qed.

End PC.
