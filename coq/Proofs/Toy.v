(* Non-vacuity of the premises: a small environment that satisfies [Laws] -- scalars and both groups are the
   prime field Z_251 (a group element IS its discrete logarithm), the pairing check is a * x = b * y, hashes are fixed
   small functions -- and concrete runs of the model in it.  Every theorem of the BBS half that is stated for
   "every E with Laws E" therefore speaks about at least one environment, and its hypotheses are met by the runs below. *)
From ZK Require Import Laws BaseLemmas SignProofs RealScalars.
From Coq Require Import ZArith Lia Eqdep_dec Bool.
Open Scope Z_scope.

Definition tp : Z := 251.

Definition Fp : Type := { x : Z | ((0 <=? x) && (x <? tp))%bool = true }.
Definition val (a : Fp) : Z := proj1_sig a.

Lemma Fp_eq (a b : Fp) : val a = val b -> a = b.
Proof.
  destruct a as [x Hx], b as [y Hy]. cbn. intros ->. f_equal. apply UIP_dec. apply bool_dec.
Qed.

Lemma val_range (a : Fp) : 0 <= val a < tp.
Proof. destruct a as [x Hx]. cbn. apply andb_true_iff in Hx as [H1 H2]. apply Z.leb_le in H1. apply Z.ltb_lt in H2. lia. Qed.

Lemma mk_ok (x : Z) : ((0 <=? x mod tp) && (x mod tp <? tp))%bool = true.
Proof. pose proof (Z.mod_pos_bound x tp ltac:(unfold tp; lia)). apply andb_true_iff. split; [apply Z.leb_le|apply Z.ltb_lt]; lia. Qed.
Definition mk (x : Z) : Fp := exist _ (x mod tp) (mk_ok x).
Lemma val_mk x : val (mk x) = x mod tp. Proof. reflexivity. Qed.

Definition tadd (a b : Fp) := mk (val a + val b).
Definition tmul (a b : Fp) := mk (val a * val b).
Definition topp (a : Fp) := mk (- val a).
Definition tsub (a b : Fp) := mk (val a - val b).
Fixpoint zpow_nat (x : Z) (n : nat) : Z := match n with O => 1 | S n' => (x * zpow_nat x n') mod tp end.
Definition tinv (a : Fp) := mk (zpow_nat (val a) 249).
Definition tdiv (a b : Fp) := tmul a (tinv b).
Definition teqb (a b : Fp) : bool := val a =? val b.

Lemma all_inverses : forallb (fun x => (zpow_nat x 249 * x) mod tp =? 1) (map Z.of_nat (seq 1 250)) = true.
Proof. vm_compute. reflexivity. Qed.

Lemma tinv_l (a : Fp) : a <> mk 0 -> tmul (tinv a) a = mk 1.
Proof.
  intros Hne. apply Fp_eq. unfold tmul, tinv. rewrite !val_mk.
  pose proof (val_range a) as Hr.
  assert (Hnz : val a <> 0).
  { intros C. apply Hne. apply Fp_eq. rewrite val_mk, C. reflexivity. }
  pose proof all_inverses as H. rewrite forallb_forall in H.
  specialize (H (val a)). rewrite Z.mul_mod_idemp_l by (unfold tp; lia).
  assert (Hin : In (val a) (map Z.of_nat (seq 1 250))).
  { apply in_map_iff. exists (Z.to_nat (val a)). split; [lia|]. apply in_seq. unfold tp in Hr. lia. }
  apply H in Hin. apply Z.eqb_eq in Hin. rewrite Hin. reflexivity.
Qed.

Lemma tp_pos : 0 < tp. Proof. unfold tp; lia. Qed.
Ltac fp := intros; apply Fp_eq; unfold tadd, tmul, topp, tsub; rewrite ?val_mk.

Lemma tp_nz : tp <> 0. Proof. unfold tp; lia. Qed.

Lemma toy_field : field_theory (mk 0) (mk 1) tadd tmul tsub topp tdiv tinv (@eq Fp).
Proof.
  constructor; [constructor| | |].
  - fp. rewrite Z.mod_0_l by apply tp_nz. cbn [Z.add]. apply Z.mod_small. apply val_range.
  - fp. f_equal; ring.
  - fp. rewrite Z.add_mod_idemp_l, Z.add_mod_idemp_r by apply tp_nz. f_equal; ring.
  - fp. rewrite (Z.mod_small 1) by (unfold tp; lia). rewrite Z.mul_1_l. apply Z.mod_small. apply val_range.
  - fp. f_equal; ring.
  - fp. rewrite Z.mul_mod_idemp_l, Z.mul_mod_idemp_r by apply tp_nz. f_equal; ring.
  - fp. rewrite Z.mul_mod_idemp_l by apply tp_nz. rewrite <- Z.add_mod by apply tp_nz. f_equal; ring.
  - fp. rewrite Z.add_mod_idemp_r by apply tp_nz. f_equal; ring.
  - fp. rewrite Z.add_mod_idemp_r by apply tp_nz. f_equal; ring.
  - intros C. apply (f_equal val) in C. rewrite !val_mk in C. vm_compute in C. discriminate.
  - reflexivity.
  - intros p Hp. apply tinv_l. exact Hp.
Qed.

(* ---------------------------------------------------------------- codecs: big-endian of the value, fixed width *)
Definition enc_w (w : nat) (a : Fp) : bytes := be_bytes_nat w (Z.to_N (val a)).
Definition dec_w (w : nat) (b : bytes) : option Fp :=
  if (Nat.eqb (length b) w && wf_bytesb b && (os2ip b <? 251)%N)%bool then Some (mk (Z.of_N (os2ip b))) else None.

Lemma wf_bytesb_true b : wf_bytes b -> wf_bytesb b = true.
Proof. apply wf_bytesb_spec. Qed.
Lemma wf_bytesb_wf b : wf_bytesb b = true -> wf_bytes b.
Proof. apply wf_bytesb_spec. Qed.

Lemma val_N_small (a : Fp) : (Z.to_N (val a) < 251)%N.
Proof. pose proof (val_range a). unfold tp in *. lia. Qed.

Lemma dec_enc_w w a : (1 <= w)%nat -> dec_w w (enc_w w a) = Some a.
Proof.
  intros Hw. unfold dec_w, enc_w. rewrite be_bytes_nat_length, Nat.eqb_refl.
  rewrite wf_bytesb_true by apply be_bytes_nat_wf.
  assert (Hs : (Z.to_N (val a) < 256 ^ N.of_nat w)%N).
  { pose proof (val_N_small a). assert (256 ^ 1 <= 256 ^ N.of_nat w)%N by (apply N.pow_le_mono_r; lia). lia. }
  rewrite os2ip_be_bytes_nat by exact Hs.
  destruct (N.ltb_spec (Z.to_N (val a)) 251) as [_|C]; [|pose proof (val_N_small a); lia]. cbn [andb].
  f_equal. apply Fp_eq. rewrite val_mk. pose proof (val_range a). rewrite Z2N.id by lia. apply Z.mod_small. lia.
Qed.

Lemma enc_dec_w w b a : dec_w w b = Some a -> enc_w w a = b.
Proof.
  unfold dec_w, enc_w. destruct (Nat.eqb_spec (length b) w) as [Hl|]; [|discriminate]. cbn [andb].
  destruct (wf_bytesb b) eqn:Hwf; [|discriminate]. cbn [andb].
  destruct (N.ltb_spec (os2ip b) 251) as [Hlt|]; [|discriminate]. intros H; inversion H; subst; clear H.
  rewrite val_mk. rewrite Z.mod_small by (unfold tp; lia). rewrite N2Z.id.
  apply be_bytes_nat_os2ip. apply wf_bytesb_wf. exact Hwf.
Qed.

Lemma enc_len_w w a : length (enc_w w a) = w. Proof. apply be_bytes_nat_length. Qed.
Lemma dec_len_w w b a : dec_w w b = Some a -> length b = w.
Proof. unfold dec_w. destruct (Nat.eqb_spec (length b) w); [auto|discriminate]. Qed.

(* ---------------------------------------------------------------- the toy environment *)
Definition toy_scalars : scalar_ops := {|
  F := Fp; f0 := mk 0; f1 := mk 1; fadd := tadd; fmul := tmul; fsub := tsub; fopp := topp; finv := tinv; fdiv := tdiv;
  feqb := teqb;
  f_of_okm := fun b => mk (Z.of_N (os2ip b));
  f_to_be := enc_w 32; f_of_be := dec_w 32 |}.

Definition toy_prims : prims toy_scalars :=
  @Build_prims toy_scalars Fp (mk 0) tadd topp (fun (s : Fp) (p : Fp) => tmul s p) teqb (enc_w 48) (dec_w 48)
               Fp (mk 0) teqb (fun (s : Fp) => s) tadd (enc_w 96) (dec_w 96) (enc_w 192) (dec_w 192)
               (fun a x b y => teqb (tmul a x) (tmul b y)).

(* toy hashing: expand_message = first bytes of a running sum; hash_to_curve = 1 + sum mod 250 (never the identity) *)
Definition toy_sum (b : bytes) : N := fold_left N.add b 0%N.
Definition toy_expand (msg dst : bytes) (n : nat) : bytes :=
  be_bytes_nat n (toy_sum msg * 7 + toy_sum dst * 13 + N.of_nat (length msg) + 1)%N.
Definition toy_h2c (msg dst : bytes) : Fp := mk (1 + Z.of_N ((toy_sum msg * 5 + toy_sum dst * 3) mod 250)).

Definition toy_suite_c : suite := {|
  c_id := [1%N]; c_api_id := [2%N]; c_api_id_blind := [3%N]; c_keygen_dst := [4%N]; c_generator_seed := [5%N];
  c_generator_seed_dst := [6%N]; c_generator_dst := [7%N]; c_map_msg_scalar := [8%N]; c_h2s := [9%N];
  c_p1 := enc_w 48 (mk 17); c_expand_len := 48%N; c_ikm_len := 32%N |}.

Definition toyE : env := {| SO := toy_scalars; PR := toy_prims; expand := toy_expand; h2c := toy_h2c; cs := toy_suite_c |}.

Lemma teqb_iff (a b : Fp) : teqb a b = true <-> a = b.
Proof. unfold teqb. split; [intros H; apply Fp_eq; apply Z.eqb_eq; exact H|intros ->; apply Z.eqb_refl]. Qed.

Definition toy_laws : Laws toyE.
Proof.
  refine {| dl1 := fun (a : @G1 _ (PR toyE)) => (a : F (SO toyE)); dl2 := fun (a : @G2 _ (PR toyE)) => (a : F (SO toyE)) |}.
  - exact toy_field.
  - exact teqb_iff.
  - intros x. apply dec_enc_w. lia.
  - intros b x. apply enc_dec_w.
  - intros x. apply enc_len_w.
  - intros b x. apply dec_len_w.
  - auto.
  - reflexivity.
  - reflexivity.
  - reflexivity.
  - reflexivity.
  - exact teqb_iff.
  - auto.
  - reflexivity.
  - exact teqb_iff.
  - reflexivity.
  - reflexivity.
  - intros a x b y. apply teqb_iff.
  - intros p. apply dec_enc_w. lia.
  - intros b p. apply enc_dec_w.
  - intros p. apply enc_len_w.
  - intros p. apply dec_enc_w. lia.
  - intros b p. apply enc_dec_w.
  - intros p. apply enc_len_w.
  - intros p. apply dec_enc_w. lia.
  - intros b p. apply enc_dec_w.
  - intros p. apply enc_len_w.
Defined.

Theorem toy_suite_ok : suite_ok toyE.
Proof.
  split.
  - unfold suite_dsts_ok, toyE, toy_suite_c, cs, c_api_id, c_api_id_blind, c_map_msg_scalar, c_h2s, c_keygen_dst, c_ikm_len, c_expand_len.
    cbn [app length]. repeat split; lia.
  - exists (mk 17). unfold toyE, PR, cs, toy_suite_c, c_p1, toy_prims, g1_dec. apply dec_enc_w. lia.
Qed.

(* ---------------------------------------------------------------- concrete runs (hypotheses of the theorems are met) *)
Definition t_sk : Fp := mk 42.
Definition t_msgs : list bytes := [[1%N; 2%N]; []; [200%N]].
Definition t_hdr : option bytes := Some [9%N; 9%N].

(* C01: signing succeeds and verifies; the hypotheses of sign_verify_complete are inhabited *)
Definition t_sign := sign toyE (Some t_msgs) t_sk (sk_to_pk toyE t_sk) t_hdr.
Lemma t_sign_is_ok : is_ok t_sign = true.
Proof. vm_compute. reflexivity. Qed.

Example toy_sign_verifies :
  exists sg, sign toyE (Some t_msgs) t_sk (sk_to_pk toyE t_sk) t_hdr = Ok sg /\
             verify toyE sg (sk_to_pk toyE t_sk) (Some t_msgs) t_hdr = Ok tt.
Proof.
  pose proof t_sign_is_ok as H. fold t_sign.
  destruct t_sign as [sg| | |] eqn:Es; try discriminate H.
  exists sg. split; [reflexivity|]. apply (sign_verify_complete toyE toy_laws). exact Es.
Qed.

(* the value computed in the toy environment: A has discrete log 122, e = 227 *)
Example toy_sign_value :
  match t_sign with Ok sg => (val (sig_A toyE sg), val (sig_e toyE sg)) = (122, 227) | _ => False end.
Proof. vm_compute. reflexivity. Qed.

(* C03: the hypotheses of proof_complete are met by a concrete instance (3 messages, disclose {0, 2} given unsorted with a
   duplicate, 6 draws), so the theorem applies to it; and the run itself *)
From ZK Require Import ProofComplete Codec ModelLemmas.
Definition t_pk := sk_to_pk toyE t_sk.
Definition t_sigb : bytes := match t_sign with Ok sg => sig_to_bytes toyE sg | _ => [] end.
Definition t_idx : option (list N) := Some [2%N; 0%N; 2%N].
Definition t_rho : list Fp := [mk 3; mk 5; mk 7; mk 11; mk 13; mk 17].
Definition t_ph : option bytes := Some [4%N].

Example toy_proof_complete_applies :
  exists p, proof_gen toyE t_pk t_sigb t_hdr t_ph (Some t_msgs) t_idx t_rho = Ok p /\
    proof_verify toyE p t_pk (Some (pick t_msgs [0%N; 2%N])) (Some [0%N; 2%N]) t_hdr t_ph = Ok tt /\
    length (pok_to_bytes toyE p) = (272 + 32 * 1)%nat.
Proof.
  destruct toy_sign_verifies as [sg [Hs Hv]].
  assert (Hsb : sig_from_bytes toyE t_sigb = Ok sg).
  { unfold t_sigb. fold t_sign in Hs. rewrite Hs.
    apply (sig_codec_roundtrip toyE toy_laws).
    - intros C. apply (f_equal val) in C. revert C. fold t_sign in Hs. generalize Hs. clear.
      pose proof toy_sign_value as Hval. intros Hs. rewrite Hs in Hval. inversion Hval as [[HA He]]. rewrite HA. vm_compute. discriminate.
    - intros C. apply (f_equal val) in C. revert C. fold t_sign in Hs. generalize Hs. clear.
      pose proof toy_sign_value as Hval. intros Hs. rewrite Hs in Hval. inversion Hval as [[HA He]]. rewrite He. vm_compute. discriminate. }
  assert (He : val (sig_e toyE sg) = 227%Z).
  { pose proof toy_sign_value as Hval. fold t_sign in Hs. rewrite Hs in Hval. inversion Hval. reflexivity. }
  destruct (proof_complete toyE toy_laws t_pk t_sigb sg t_hdr t_ph (Some t_msgs) t_idx t_rho toy_suite_ok Hsb Hv)
    as [p [Hg [Hpv [Hlen _]]]].
  - intros i Hi. cbn in Hi. cbn. destruct Hi as [<-|[<-|[<-|[]]]]; lia.
  - reflexivity.
  - intros C. apply (f_equal val) in C. vm_compute in C. discriminate.
  - intros C. apply (f_equal val) in C. vm_compute in C. discriminate.
  - intros C. apply (f_equal val) in C. vm_compute in C. discriminate.
  - intros C. apply (f_equal val) in C. cbn [dl2 toy_laws] in C. unfold t_pk, sk_to_pk in C. cbn [g2_mul_gen PR toyE toy_prims] in C.
    cbn [fadd SO toyE toy_scalars] in C. unfold tadd in C. rewrite val_mk, He in C. vm_compute in C. discriminate.
  - exists p. split; [exact Hg|]. split; [exact Hpv|exact Hlen].
Qed.
