(* C13: selective disclosure.  disclose_selectively folds every hidden attribute into its base (a_i := a_i^m_i mod N,
   m_i := 1); for every list of hidden positions (any order, repetitions allowed) a signature that verifies on
   (bases, msgs) verifies on the disclosed (bases', msgs'). *)
From ZK Require Import Cl ClArith ClSig ClMore ClGroup ClSpok.
From Coq Require Import ZArith Lia Znumtheory Zpow_facts Zdiv List.
Import ListNotations.
Open Scope Z_scope.

Lemma set_nth_spec : forall (l : list Z) i v, (i < length l)%nat ->
  exists l', set_nth l i v = Ok l' /\ length l' = length l /\ nth i l' 0 = v /\ (forall j, j <> i -> nth j l' 0 = nth j l 0).
Proof.
  induction l as [|x l IH]; intros i v Hi; cbn in Hi; [lia|]. destruct i as [|i].
  - exists (v :: l). cbn. repeat split. intros [|j] Hj; [contradiction|reflexivity].
  - destruct (IH i v ltac:(lia)) as [l' [Hs [Hl [Hn Ho]]]]. exists (x :: l'). cbn [set_nth]. rewrite Hs. cbn [bind].
    split; [reflexivity|]. split; [cbn; lia|]. split; [exact Hn|]. intros [|j] Hj; [reflexivity|]. cbn. apply Ho. lia.
Qed.

Section D.
  Variable CS : clsuite.
  Variable n : Z.
  Hypothesis Hn : 0 < n.
  Local Infix "==" := (eqm n) (at level 70).

  (* position-wise congruent powers give congruent products *)
  Lemma PP_pointwise : forall (bs bs' ms ms' : list Z), length bs = length bs' -> length ms = length ms' ->
    (forall j, (j < length ms)%nat -> nth j bs 0 ^ nth j ms 0 == nth j bs' 0 ^ nth j ms' 0) ->
    PP bs ms == PP bs' ms'.
  Proof.
    induction bs as [|a bs IH]; intros bs' ms ms' Hb Hm Hp.
    - destruct bs'; [|discriminate]. destruct ms, ms'; try discriminate; apply eqm_refl.
    - destruct bs' as [|a' bs']; [discriminate|]. destruct ms as [|m ms], ms' as [|m' ms']; try discriminate; [apply eqm_refl|].
      cbn [PP]. apply (eqm_mul n Hn).
      + exact (Hp 0%nat ltac:(cbn; lia)).
      + apply IH; [cbn in Hb; lia|cbn in Hm; lia|]. intros j Hj. exact (Hp (Datatypes.S j) ltac:(cbn; lia)).
  Qed.

  Definition dInv (bases msgs : list Z) (done : list N) (st : list Z * list Z) : Prop :=
    let '(ms, bs) := st in
    length ms = length msgs /\ length bs = length bases /\
    Forall (fun m => 0 <= m) ms /\ forallb (msg_in_range CS) ms = true /\
    (forall j, (j < length msgs)%nat -> nth j bs 0 ^ nth j ms 0 == nth j bases 0 ^ nth j msgs 0) /\
    (forall j, In j done -> nth (N.to_nat j) ms 0 = 1).

  Lemma forallb_set (f : Z -> bool) : forall l i v l', set_nth l i v = Ok l' -> forallb f l = true -> f v = true -> forallb f l' = true.
  Proof.
    induction l as [|x l IH]; intros i v l' H Hf Hv; cbn in H; [discriminate|]. destruct i as [|i].
    - inversion H; subst. cbn in *. apply andb_true_iff in Hf as [_ Hf]. rewrite Hv, Hf. reflexivity.
    - destruct (set_nth l i v) as [r| | |] eqn:Er; cbn [bind] in H; try discriminate. inversion H; subst.
      cbn in *. apply andb_true_iff in Hf as [Hx Hf]. rewrite Hx. cbn. eapply IH; eassumption.
  Qed.

  Lemma Forall_set (Q : Z -> Prop) : forall l i v l', set_nth l i v = Ok l' -> Forall Q l -> Q v -> Forall Q l'.
  Proof.
    induction l as [|x l IH]; intros i v l' H Hf Hv; cbn in H; [discriminate|]. destruct i as [|i].
    - inversion H; subst. inversion Hf; subst. constructor; assumption.
    - destruct (set_nth l i v) as [r| | |] eqn:Er; cbn [bind] in H; try discriminate. inversion H; subst.
      inversion Hf; subst. constructor; [assumption|]. eapply IH; eassumption.
  Qed.

  Lemma disclose_fold bases msgs pk : pk_N pk = n -> length msgs = length bases -> Forall (fun m => 0 <= m) msgs ->
    1 <= lm CS ->
    forall U done st, Forall (fun j => (N.to_nat j < length msgs)%nat) U -> dInv bases msgs done st ->
    exists st', fold_left (fun acc i =>
                 let* (ms, bs) := acc in
                 let* ai := nthZ bases i in
                 let* mi := nthZ msgs i in
                 let* x := pow_mod ai mi (pk_N pk) in
                 let* bs' := set_nth bs (N.to_nat i) x in
                 let* ms' := set_nth ms (N.to_nat i) 1 in
                 Ok (ms', bs')) U (Ok st) = Ok st' /\ dInv bases msgs (rev U ++ done) st'.
  Proof.
    intros HN Hl Hm0 Hlm. induction U as [|i U IH]; intros done [ms bs] HU Hinv; cbn [fold_left].
    - eauto.
    - inversion HU as [|? ? Hi HU']; subst. destruct Hinv as [Hlm' [Hlb [Hms0 [Hmr [Hp Hone]]]]].
      cbn [bind].
      destruct (nth_error bases (N.to_nat i)) as [a|] eqn:Ea; [|apply nth_error_None in Ea; lia].
      destruct (nth_error msgs (N.to_nat i)) as [m|] eqn:Em; [|apply nth_error_None in Em; lia].
      assert (Ea' : nthZ bases i = Ok a) by (unfold nthZ; rewrite Ea; reflexivity).
      assert (Em' : nthZ msgs i = Ok m) by (unfold nthZ; rewrite Em; reflexivity).
      rewrite Ea'. cbn [bind]. rewrite Em'. cbn [bind].
      assert (Hm : 0 <= m) by (rewrite Forall_forall in Hm0; apply Hm0; eapply nth_error_In; exact Em).
      assert (HNp : 0 < pk_N pk) by lia.
      rewrite (pow_mod_nonneg a m (pk_N pk)) by assumption. cbn [bind].
      destruct (set_nth_spec bs (N.to_nat i) (a ^ m mod pk_N pk) ltac:(lia)) as [bs' [Hsb [Hlb' [Hnb Hob]]]].
      destruct (set_nth_spec ms (N.to_nat i) 1 ltac:(lia)) as [ms' [Hsm [Hlm'' [Hnm Hom]]]].
      rewrite Hsb. cbn [bind]. rewrite Hsm. cbn [bind].
      cbn [rev]. rewrite <- app_assoc. cbn [app].
      apply IH; [exact HU'|]. unfold dInv. split; [lia|]. split; [lia|].
      split; [eapply Forall_set; [exact Hsm|exact Hms0|lia]|].
      split.
      { eapply forallb_set; [exact Hsm|exact Hmr|]. unfold msg_in_range, sig_bits. cbn. apply Z.leb_le. exact Hlm. }
      split.
      { intros j Hj. destruct (Nat.eq_dec j (N.to_nat i)) as [->|Hne].
        + rewrite Hnb, Hnm. rewrite Z.pow_1_r. rewrite (nth_error_nth _ _ 0 Ea), (nth_error_nth _ _ 0 Em). rewrite HN. apply Zmod_eqm.
        + rewrite (Hob j Hne), (Hom j Hne). apply Hp. exact Hj. }
      intros j [<-|Hj]; [exact Hnm|].
      destruct (N.eq_dec j i) as [->|Hne]; [exact Hnm|]. rewrite Hom by lia. apply Hone. exact Hj.
  Qed.

  Theorem disclose_verify_complete sg pk bases msgs U :
    pk_N pk = n -> 1 <= lm CS -> 0 <= pk_c pk ->
    length msgs = length bases ->
    Forall (fun j => (N.to_nat j < length msgs)%nat) U ->
    verify_multiattr CS sg pk bases msgs = Ok true ->
    exists msgs' bases', disclose_selectively msgs bases pk U = Ok (msgs', bases') /\
      length msgs' = length msgs /\
      (forall j, In j U -> nth (N.to_nat j) msgs' 0 = 1) /\
      verify_multiattr CS sg pk bases' msgs' = Ok true.
  Proof.
    intros HN Hlm Hc0 Hl HU Hver.
    destruct (verify_multiattr_accepts CS sg pk bases msgs Hver) as [He [Hv [Hmr [lhs [r0 [bsv [Hlhs [Hr0 [Hbs Heq]]]]]]]]].
    assert (Hm0 : Forall (fun m => 0 <= m) msgs).
    { apply Forall_forall. intros m Hin. apply (msg_in_range_nonneg CS). rewrite forallb_forall in Hmr. apply Hmr; exact Hin. }
    assert (Hinv0 : dInv bases msgs [] (msgs, bases)).
    { unfold dInv. split; [reflexivity|]. split; [reflexivity|]. split; [assumption|]. split; [assumption|].
      split; [intros j _; apply eqm_refl|intros j []]. }
    destruct (disclose_fold bases msgs pk HN Hl Hm0 Hlm U [] (msgs, bases) HU Hinv0) as [[ms' bs'] [Hf [Hlm' [Hlb' [Hms0 [Hmr' [Hp Hone]]]]]]].
    exists ms', bs'. unfold disclose_selectively.
    replace (Nat.eqb (length msgs) (length bases)) with true by (symmetry; apply Nat.eqb_eq; exact Hl). cbn [negb].
    split; [exact Hf|]. split; [exact Hlm'|]. split.
    { intros j Hj. apply Hone. rewrite app_nil_r. apply in_rev in Hj. exact Hj. }
    (* verification on the disclosed pair *)
    rewrite HN in *.
    assert (Hlen' : (length ms' <= length bs')%nat) by lia.
    destruct (prod_pows_total n Hn bs' ms' 1 Hms0 Hlen') as [r0' Hr0'].
    pose proof (prod_pows_PP n Hn bs' ms' 1 r0' Hms0 ltac:(lia) Hr0') as [Hr0'0 Hr0'e].
    pose proof (prod_pows_PP n Hn bases msgs 1 r0 Hm0 ltac:(lia) Hr0) as [Hr00 Hr0e].
    assert (Hrr : r0' == r0).
    { eapply eqm_trans; [exact Hr0'e|]. apply eqm_sym. eapply eqm_trans; [exact Hr0e|].
      apply (eqm_mul n Hn); [apply eqm_refl|]. apply eqm_sym. apply PP_pointwise; [lia|lia|].
      intros j Hj. apply Hp. lia. }
    unfold verify_multiattr. rewrite HN.
    destruct (Nat.ltb_spec (length bs') (length ms')); [lia|]. rewrite Hmr'. cbn [negb].
    destruct (Z.leb_spec (s_v sg) 0); [lia|]. destruct (Z.leb_spec n (s_v sg)); [lia|]. cbn [orb].
    rewrite Hlhs. cbn [bind]. rewrite Hr0'. cbn [bind]. rewrite Hbs. cbn [bind].
    destruct (Z.leb_spec (s_e sg) (two (le CS - 1))); [lia|]. destruct (Z.leb_spec (two (le CS)) (s_e sg)); [lia|]. cbn [orb].
    f_equal. apply Z.eqb_eq. rewrite Heq.
    pose proof (pow_mod_range _ _ _ _ Hbs) as Hbsr.
    rewrite !rem_mod_nonneg by first [lia | repeat apply Z.mul_nonneg_nonneg; lia].
    change (r0 * bsv * pk_c pk == r0' * bsv * pk_c pk).
    apply (eqm_mul n Hn); [|apply eqm_refl]. apply (eqm_mul n Hn); [apply eqm_sym; exact Hrr|apply eqm_refl].
  Qed.
End D.
