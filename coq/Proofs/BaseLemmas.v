(* Lemmas about Base: outcomes, slices, I2OSP, sort_dedup, remaining. *)
From ZK Require Export Base.
From Coq Require Import Sorting.Sorted.
Open Scope N_scope.

Lemma bind_ok {A B} (x : outcome A) (f : A -> outcome B) b :
  bind x f = Ok b -> exists a, x = Ok a /\ f a = Ok b.
Proof. destruct x; cbn; intros H; try discriminate. eauto. Qed.

Lemma bind_ok_l {A B} (x : outcome A) (f : A -> outcome B) a : x = Ok a -> bind x f = f a.
Proof. intros ->. reflexivity. Qed.

Lemma bind_not_panic {A B} (x : outcome A) (f : A -> outcome B) :
  x <> Panic -> (forall a, x = Ok a -> f a <> Panic) -> bind x f <> Panic.
Proof. destruct x; cbn; intros H1 H2; auto; try discriminate. Qed.

Lemma try_opt_not_panic {A} (o : option A) : try_opt o <> Panic.
Proof. destruct o; cbn; discriminate. Qed.

Lemma mapM_ok_length {A B} (f : A -> outcome B) l r : mapM f l = Ok r -> length r = length l.
Proof.
  revert r; induction l as [|a l IH]; cbn; intros r H.
  - inversion H; reflexivity.
  - destruct (f a); cbn in H; try discriminate.
    destruct (mapM f l); cbn in H; try discriminate.
    inversion H; subst; cbn. f_equal. apply IH; reflexivity.
Qed.

Lemma mapM_total {A B} (f : A -> outcome B) l :
  (forall a, In a l -> exists b, f a = Ok b) -> exists r, mapM f l = Ok r.
Proof.
  induction l as [|a l IH]; cbn; intros H; [eauto|].
  destruct (H a (or_introl eq_refl)) as [b ->]; cbn.
  destruct IH as [r ->]; [intros; apply H; right; assumption|]. cbn. eauto.
Qed.

Lemma mapM_not_panic {A B} (f : A -> outcome B) l :
  (forall a, In a l -> f a <> Panic) -> mapM f l <> Panic.
Proof.
  induction l as [|a l IH]; cbn; intros H; [discriminate|].
  apply bind_not_panic; [apply H; left; reflexivity|].
  intros b _. apply bind_not_panic; [apply IH; intros; apply H; right; assumption|].
  intros; discriminate.
Qed.

Lemma mapM_ext {A B} (f g : A -> outcome B) l :
  (forall a, In a l -> f a = g a) -> mapM f l = mapM g l.
Proof.
  induction l as [|a l IH]; cbn; intros H; [reflexivity|].
  rewrite H by (left; reflexivity). rewrite IH by (intros; apply H; right; assumption). reflexivity.
Qed.

Lemma mapM_ok_map {A B} (f : A -> B) l : mapM (fun a => Ok (f a)) l = Ok (map f l).
Proof. induction l as [|a l IH]; cbn; [reflexivity|]. rewrite IH. reflexivity. Qed.

(* ---- be_bytes_nat / os2ip ---- *)
Lemma be_bytes_nat_length n x : length (be_bytes_nat n x) = n.
Proof. revert x; induction n as [|n IH]; cbn; intros; [reflexivity|]. rewrite app_length, IH. cbn. lia. Qed.

Lemma os2ip_fold acc b :
  fold_left (fun acc x => acc * 256 + x) b acc = acc * 256 ^ N.of_nat (length b) + os2ip b.
Proof.
  unfold os2ip. revert acc. induction b as [|x b IH]; intros acc.
  - cbn. lia.
  - cbn [fold_left length]. rewrite IH. rewrite (IH (0 * 256 + x)).
    rewrite Nat2N.inj_succ, N.pow_succ_r'. lia.
Qed.

Lemma os2ip_app a b : os2ip (a ++ b) = os2ip a * 256 ^ N.of_nat (length b) + os2ip b.
Proof. unfold os2ip at 1. rewrite fold_left_app. apply os2ip_fold. Qed.

Lemma os2ip_be_bytes_nat n x : x < 256 ^ N.of_nat n -> os2ip (be_bytes_nat n x) = x.
Proof.
  revert x; induction n as [|n IH]; intros x Hx.
  - cbn in *. lia.
  - cbn [be_bytes_nat]. rewrite os2ip_app. cbn [length]. rewrite IH.
    + unfold os2ip; cbn. pose proof (N.div_mod x 256). lia.
    + rewrite Nat2N.inj_succ, N.pow_succ_r' in Hx.
      apply N.div_lt_upper_bound; lia.
Qed.

Lemma be_bytes_nat_inj n x y :
  x < 256 ^ N.of_nat n -> y < 256 ^ N.of_nat n -> be_bytes_nat n x = be_bytes_nat n y -> x = y.
Proof. intros Hx Hy H. rewrite <- (os2ip_be_bytes_nat n x Hx), <- (os2ip_be_bytes_nat n y Hy), H. reflexivity. Qed.

Lemma be_bytes_nat_wf n x : wf_bytes (be_bytes_nat n x).
Proof.
  revert x; induction n as [|n IH]; intros x; cbn; [constructor|].
  apply Forall_app; split; [apply IH|]. constructor; [|constructor].
  apply N.mod_lt; lia.
Qed.

Lemma os2ip_bound b : wf_bytes b -> os2ip b < 256 ^ N.of_nat (length b).
Proof.
  induction b as [|x b IH] using rev_ind; intros H.
  - cbn. lia.
  - apply Forall_app in H as [Hb Hx]. inversion Hx; subst.
    rewrite os2ip_app, app_length. cbn [length]. unfold os2ip at 2; cbn [fold_left].
    replace (N.of_nat (length b + 1)) with (N.succ (N.of_nat (length b))) by lia.
    rewrite N.pow_succ_r'. specialize (IH Hb). change (256 ^ N.of_nat 1) with 256.
    set (p := 256 ^ N.of_nat (length b)) in *. lia.
Qed.

Lemma os2ip_snoc b x : os2ip (b ++ [x]) = os2ip b * 256 + x.
Proof. rewrite os2ip_app. cbn [length]. change (256 ^ N.of_nat 1) with 256. unfold os2ip at 2. cbn [fold_left]. lia. Qed.

Lemma be_bytes_nat_os2ip b : wf_bytes b -> be_bytes_nat (length b) (os2ip b) = b.
Proof.
  induction b as [|x b IH] using rev_ind; intros H; [reflexivity|].
  apply Forall_app in H as [Hb Hx]. inversion Hx; subst.
  rewrite app_length. cbn [length]. replace (length b + 1)%nat with (S (length b)) by lia.
  cbn [be_bytes_nat]. rewrite os2ip_snoc.
  assert (E1 : (os2ip b * 256 + x) / 256 = os2ip b).
  { rewrite N.add_comm, N.div_add by lia. rewrite N.div_small by lia. lia. }
  assert (E2 : (os2ip b * 256 + x) mod 256 = x).
  { rewrite N.add_comm, N.mod_add by lia. apply N.mod_small; assumption. }
  rewrite E1, E2, IH by assumption. reflexivity.
Qed.

Lemma i2osp8_length x : length (i2osp8 x) = 8%nat.
Proof. apply be_bytes_nat_length. Qed.

Lemma i2osp8_inj x y : x <= usize_max -> y <= usize_max -> i2osp8 x = i2osp8 y -> x = y.
Proof.
  unfold usize_max; intros Hx Hy. apply be_bytes_nat_inj; change (256 ^ N.of_nat 8) with 18446744073709551616; lia.
Qed.

(* ---- sub / slice ---- *)
Lemma sub_length {A} (l : list A) a b : (a <= b)%nat -> (b <= length l)%nat -> length (sub l a b) = (b - a)%nat.
Proof. intros. unfold sub. rewrite firstn_length, skipn_length. lia. Qed.

Lemma slice_ok {A} (l : list A) a b : (a <= b)%nat -> (b <= length l)%nat -> slice l a b = Ok (sub l a b).
Proof.
  intros H1 H2. unfold slice.
  destruct (Nat.leb_spec a b); [|lia]. destruct (Nat.leb_spec b (length l)); [|lia]. reflexivity.
Qed.

Lemma slice_inv {A} (l : list A) a b r : slice l a b = Ok r -> (a <= b)%nat /\ (b <= length l)%nat /\ r = sub l a b.
Proof.
  unfold slice. destruct (Nat.leb_spec a b); destruct (Nat.leb_spec b (length l)); cbn; intros HH; try discriminate.
  inversion HH; auto.
Qed.

Lemma slice_from_ok {A} (l : list A) a : (a <= length l)%nat -> slice_from l a = Ok (skipn a l).
Proof. intros H. unfold slice_from. destruct (Nat.leb_spec a (length l)); [reflexivity|lia]. Qed.

Lemma sub_app_l {A} (l1 l2 : list A) n : n = length l1 -> sub (l1 ++ l2) 0 n = l1.
Proof. intros ->. unfold sub. cbn [skipn]. rewrite Nat.sub_0_r. rewrite firstn_app, Nat.sub_diag, firstn_all. cbn. apply app_nil_r. Qed.

Lemma sub_app_r {A} (l1 l2 : list A) a b : a = length l1 -> b = (length l1 + length l2)%nat -> sub (l1 ++ l2) a b = l2.
Proof.
  intros -> ->. unfold sub. rewrite skipn_app, skipn_all, Nat.sub_diag. cbn [skipn app].
  replace (length l1 + length l2 - length l1)%nat with (length l2) by lia. apply firstn_all.
Qed.

Lemma sub_shift {A} (l1 l2 : list A) a b : (length l1 <= a)%nat ->
  sub (l1 ++ l2) a b = sub l2 (a - length l1) (b - length l1).
Proof.
  intros H. unfold sub. rewrite skipn_app. rewrite (skipn_all2 l1) by lia. cbn [app].
  f_equal. lia.
Qed.

Lemma sub_split {A} (b : list A) n m : length b = m -> (n <= m)%nat -> sub b 0 n ++ sub b n m = b.
Proof.
  intros Hl Hn. unfold sub. rewrite Nat.sub_0_r. cbn [skipn].
  rewrite (firstn_all2 (skipn n b)) by (rewrite skipn_length; lia).
  apply firstn_skipn.
Qed.

Lemma sub_full {A} (b : list A) n : (length b <= n)%nat -> sub b 0 n = b.
Proof. intros. unfold sub. rewrite Nat.sub_0_r. cbn [skipn]. apply firstn_all2; assumption. Qed.

Lemma skipn_skipn' {A} (l : list A) a b : skipn a (skipn b l) = skipn (a + b) l.
Proof.
  revert l; induction b as [|b IH]; intros l.
  - rewrite Nat.add_0_r. reflexivity.
  - destruct l as [|x l]; [rewrite !skipn_nil; reflexivity|].
    rewrite Nat.add_succ_r. cbn [skipn]. apply IH.
Qed.

Lemma sub_sub_split {A} (b : list A) a n m : (a <= n)%nat -> (n <= m)%nat -> sub b a n ++ sub b n m = sub b a m.
Proof.
  intros H1 H2. unfold sub.
  replace (m - a)%nat with ((n - a) + (m - n))%nat by lia.
  rewrite <- (firstn_skipn (n - a) (firstn (n - a + (m - n)) (skipn a b))).
  rewrite firstn_firstn, Nat.min_l by lia. f_equal.
  rewrite skipn_firstn_comm. replace (n - a + (m - n) - (n - a))%nat with (m - n)%nat by lia.
  rewrite skipn_skipn'. replace (n - a + a)%nat with n by lia. reflexivity.
Qed.

Lemma firstn_In' {A} n (l : list A) x : In x (firstn n l) -> In x l.
Proof.
  revert l; induction n as [|n IH]; intros l H; [cbn in H; contradiction|].
  destruct l as [|a l]; [cbn in H; contradiction|]. cbn in H. destruct H as [->|H]; [left; reflexivity|right; apply IH; assumption].
Qed.
