(* C14 / C15: what ties the sub-proofs of the two CL03 proofs of knowledge together, and what does not.
   (1) after fix 56a5ca8 an accepted proof has every per-attribute range proof made for the commitment of the accompanying
       opening proof (and the range proof on r for the commitment of proof_r);
   (2) finding F15, machine-checked on the faithful model: the (opening proof, range proof) pairs are tied to nothing else --
       replacing both lists by those of ANY other accepted proof under the same keys keeps the proof accepted. *)
From ZK Require Import Cl ClArith ClSig ClMore.
From Coq Require Import ZArith Lia List.
Import ListNotations.
Open Scope Z_scope.

Section T.
  Variable CS : clsuite.
  Variable BP : bparams.

  Theorem spok_loop_ties_range_proofs ck : forall U pmi rpmi,
    spok_verify_loop CS BP ck U pmi rpmi = Ok true ->
    Forall2 (fun pv rp => c_value (pv_com pv) = bd_E rp) (firstn (length U) pmi) (firstn (length U) rpmi).
  Proof.
    induction U as [|i U IH]; intros pmi rpmi H; [constructor|]. cbn [spok_verify_loop] in H.
    destruct (nthZ (ck_g ck) i) as [gi| | |]; cbn [bind] in H; try discriminate.
    destruct pmi as [|pv pmi]; [discriminate|].
    destruct (nisp2sec_verify (pv_value pv) (pv_com pv) gi (ck_h ck) (ck_N ck)) as [b1| | |]; cbn [bind] in H; try discriminate.
    destruct b1; cbn [negb] in H; [|discriminate].
    destruct rpmi as [|rp rpmi]; [discriminate|].
    destruct (Z.eqb_spec (c_value (pv_com pv)) (bd_E rp)) as [He|]; cbn [negb] in H; [|discriminate].
    destruct (boudot_verify BP rp gi (ck_h ck) (ck_N ck) 0 (max_x CS)) as [b2| | |]; cbn [bind] in H; try discriminate.
    destruct b2; cbn [negb] in H; [|discriminate].
    cbn [length firstn]. constructor; [exact He|apply IH; exact H].
  Qed.

  Theorem zkpok_loop_ties_range_proofs pk bases : forall U pmi rpmi,
    zkpok_verify_loop CS BP pk bases U pmi rpmi = Ok true ->
    Forall2 (fun pv rp => c_value (pv_com pv) = bd_E rp) (firstn (length U) pmi) (firstn (length U) rpmi).
  Proof.
    induction U as [|i U IH]; intros pmi rpmi H; [constructor|]. cbn [zkpok_verify_loop] in H.
    destruct (nthZ bases i) as [ai| | |]; cbn [bind] in H; try discriminate.
    destruct pmi as [|pv pmi]; [discriminate|].
    destruct (nisp2sec_verify (pv_value pv) (pv_com pv) ai (pk_b pk) (pk_N pk)) as [b1| | |]; cbn [bind] in H; try discriminate.
    destruct b1; cbn [negb] in H; [|discriminate].
    destruct rpmi as [|rp rpmi]; [discriminate|].
    destruct (Z.eqb_spec (c_value (pv_com pv)) (bd_E rp)) as [He|]; cbn [negb] in H; [|discriminate].
    destruct (boudot_verify BP rp ai (pk_b pk) (pk_N pk) 0 (max_x CS)) as [b2| | |]; cbn [bind] in H; try discriminate.
    destruct b2; cbn [negb] in H; [|discriminate].
    cbn [length firstn]. constructor; [exact He|apply IH; exact H].
  Qed.

  (* ---- F15: nothing else ties the pairs *)
  Definition with_subproofs (p : clpok) (pmi : list pov) (rpmi : list boudot) : clpok :=
    {| pk_spok := pk_spok p; pk_rpe := pk_rpe p; pk_pmi := pmi; pk_rpmi := rpmi |}.

  Theorem spok_subproofs_untied p ck pk bases rmsgs U nsm pmi' rpmi' :
    spok_verify CS BP p ck pk bases rmsgs U nsm = Ok true ->
    spok_verify_loop CS BP ck U pmi' rpmi' = Ok true ->
    spok_verify CS BP (with_subproofs p pmi' rpmi') ck pk bases rmsgs U nsm = Ok true.
  Proof.
    intros H Hl. unfold spok_verify in *. cbn [with_subproofs pk_spok pk_rpe pk_pmi pk_rpmi].
    destruct (nisp5_verify (pk_spok p) ck pk bases rmsgs U nsm) as [b0| | |]; cbn [bind] in *; try discriminate.
    destruct b0; cbn [negb] in *; [|discriminate].
    destruct (c_value (sp_Ce (pk_spok p)) =? bd_E (pk_rpe p)); [|discriminate].
    destruct (nthZ (ck_g ck) 0) as [g0| | |]; cbn [bind] in *; try discriminate.
    destruct (boudot_verify BP (pk_rpe p) g0 (ck_h ck) (ck_N ck) (min_e CS) (max_e CS)) as [b1| | |]; cbn [bind] in *; try discriminate.
    destruct b1; [exact Hl|discriminate].
  Qed.

  Definition zk_with_subproofs (p : zkpok) (pmi : list pov) (rpmi : list boudot) (pr : pov) (rpr : boudot) : zkpok :=
    {| zk_trusted := zk_trusted p; zk_msgs := zk_msgs p; zk_pmi := pmi; zk_rpmi := rpmi; zk_pr := pr; zk_rpr := rpr |}.

  Theorem zkpok_subproofs_untied p C Ct pk bases ck U q :
    zkpok_verify CS BP p C Ct pk bases ck U = Ok true ->
    (* q: ANY other accepted issuance proof under the same key, bases and hidden positions -- for any commitment *)
    forall C' Ct' ck', zkpok_verify CS BP q C' Ct' pk bases ck' U = Ok true ->
    zkpok_verify CS BP (zk_with_subproofs p (zk_pmi q) (zk_rpmi q) (zk_pr q) (zk_rpr q)) C Ct pk bases ck U = Ok true.
  Proof.
    intros H C' Ct' ck' Hq. unfold zkpok_verify in *. cbn [zk_with_subproofs zk_trusted zk_msgs zk_pmi zk_rpmi zk_pr zk_rpr].
    destruct (match Ct, ck with
              | Some ct, Some k => let* tp := unwrap (zk_trusted p) in nisp2_verify tp C ct pk bases k U
              | _, _ => Ok true end) as [bt| | |]; cbn [bind] in *; try discriminate.
    destruct bt; cbn [negb] in *; [|discriminate].
    destruct (nispm_verify (zk_msgs p) C pk bases (Some U)) as [bm| | |]; cbn [bind] in *; try discriminate.
    destruct bm; cbn [negb] in *; [|discriminate].
    clear H.
    destruct (match Ct', ck' with
              | Some ct, Some k => let* tp := unwrap (zk_trusted q) in nisp2_verify tp C' ct pk bases k U
              | _, _ => Ok true end) as [bt| | |]; cbn [bind] in Hq; try discriminate.
    destruct bt; cbn [negb] in Hq; [|discriminate].
    destruct (nispm_verify (zk_msgs q) C' pk bases (Some U)) as [bm| | |]; cbn [bind] in Hq; try discriminate.
    destruct bm; cbn [negb] in Hq; [|discriminate].
    exact Hq.
  Qed.
End T.
