(* C14 / C15: what ties the sub-proofs of the two CL03 proofs of knowledge together, and what does not.
   (1) after fix 56a5ca8 an accepted proof has every per-attribute range proof made for the commitment of the accompanying
       opening proof (and the range proof on r for the commitment of proof_r);
   (2) finding F15, machine-checked on the faithful model: the (opening proof, range proof) pairs are tied to nothing else --
       replacing both lists by those of ANY other accepted proof under the same keys keeps the proof accepted. *)
From ZK Require Import Cl ClArith ClSig ClMore.
From Coq Require Import ZArith Lia List.
Import ListNotations.
Open Scope Z_scope.

Section T.
  Variable CS : clsuite.
  Variable BP : bparams.

  Theorem spok_loop_ties_range_proofs ck : forall U pmi rpmi,
    spok_verify_loop CS BP ck U pmi rpmi = Ok true ->
    Forall2 (fun pv rp => c_value (pv_com pv) = bd_E rp) (firstn (length U) pmi) (firstn (length U) rpmi).
  Proof.
    induction U as [|i U IH]; intros pmi rpmi H; [constructor|]. cbn [spok_verify_loop] in H.
    destruct (nthZ (ck_g ck) i) as [gi| | |]; cbn [bind] in H; try discriminate.
    destruct pmi as [|pv pmi]; [discriminate|].
    destruct (nisp2sec_verify (pv_value pv) (pv_com pv) gi (ck_h ck) (ck_N ck)) as [b1| | |]; cbn [bind] in H; try discriminate.
    destruct b1; cbn [negb] in H; [|discriminate].
    destruct rpmi as [|rp rpmi]; [discriminate|].
    destruct (Z.eqb_spec (c_value (pv_com pv)) (bd_E rp)) as [He|]; cbn [negb] in H; [|discriminate].
    destruct (boudot_verify BP rp gi (ck_h ck) (ck_N ck) 0 (max_x CS)) as [b2| | |]; cbn [bind] in H; try discriminate.
    destruct b2; cbn [negb] in H; [|discriminate].
    cbn [length firstn]. constructor; [exact He|apply IH; exact H].
  Qed.

  Theorem zkpok_loop_ties_range_proofs pk bases : forall U pmi rpmi,
    zkpok_verify_loop CS BP pk bases U pmi rpmi = Ok true ->
    Forall2 (fun pv rp => c_value (pv_com pv) = bd_E rp) (firstn (length U) pmi) (firstn (length U) rpmi).
  Proof.
    induction U as [|i U IH]; intros pmi rpmi H; [constructor|]. cbn [zkpok_verify_loop] in H.
    destruct (nthZ bases i) as [ai| | |]; cbn [bind] in H; try discriminate.
    destruct pmi as [|pv pmi]; [discriminate|].
    destruct (nisp2sec_verify (pv_value pv) (pv_com pv) ai (pk_b pk) (pk_N pk)) as [b1| | |]; cbn [bind] in H; try discriminate.
    destruct b1; cbn [negb] in H; [|discriminate].
    destruct rpmi as [|rp rpmi]; [discriminate|].
    destruct (Z.eqb_spec (c_value (pv_com pv)) (bd_E rp)) as [He|]; cbn [negb] in H; [|discriminate].
    destruct (boudot_verify BP rp ai (pk_b pk) (pk_N pk) 0 (max_x CS)) as [b2| | |]; cbn [bind] in H; try discriminate.
    destruct b2; cbn [negb] in H; [|discriminate].
    cbn [length firstn]. constructor; [exact He|apply IH; exact H].
  Qed.

  (* ---- fix F17: list lengths *)
  Theorem spok_accepts_lengths p ck pk bases rmsgs U nsm :
    spok_verify CS BP p ck pk bases rmsgs U nsm = Ok true ->
    length (sp_s5 (pk_spok p)) = length U /\ length (pk_pmi p) = length U /\ length (pk_rpmi p) = length U.
  Proof.
    intros H. unfold spok_verify in H.
    destruct (nisp5_verify (pk_spok p) ck pk bases rmsgs U nsm) as [b0| | |] eqn:E5; cbn [bind] in H; try discriminate.
    destruct b0; cbn [negb] in H; [|discriminate].
    destruct (Nat.eqb_spec (length (pk_pmi p)) (length U)) as [L1|]; cbn [andb negb] in H; [|discriminate].
    destruct (Nat.eqb_spec (length (pk_rpmi p)) (length U)) as [L2|]; cbn [negb] in H; [|discriminate].
    split; [|split; assumption].
    unfold nisp5_verify in E5. destruct (Nat.ltb (length bases) nsm && Nat.ltb (length (ck_g ck)) nsm)%bool; [discriminate|].
    destruct (Nat.eqb_spec (length (sp_s5 (pk_spok p))) (length U)) as [L0|]; cbn [negb] in E5; [exact L0|discriminate].
  Qed.

  Theorem zkpok_accepts_lengths p C Ct pk bases ck U :
    zkpok_verify CS BP p C Ct pk bases ck U = Ok true ->
    length (zk_pmi p) = length U /\ length (zk_rpmi p) = length U.
  Proof.
    intros H. unfold zkpok_verify in H.
    destruct (match Ct, ck with
              | Some ct, Some k => let* tp := unwrap (zk_trusted p) in nisp2_verify tp C ct pk bases k U
              | _, _ => Ok true end) as [bt| | |]; cbn [bind] in H; try discriminate.
    destruct bt; cbn [negb] in H; [|discriminate].
    destruct (nispm_verify (zk_msgs p) C pk bases (Some U)) as [bm| | |]; cbn [bind] in H; try discriminate.
    destruct bm; cbn [negb] in H; [|discriminate].
    destruct (Nat.eqb_spec (length (zk_pmi p)) (length U)) as [L1|]; cbn [andb negb] in H; [|discriminate].
    destruct (Nat.eqb_spec (length (zk_rpmi p)) (length U)) as [L2|]; cbn [negb] in H; [|discriminate].
    split; assumption.
  Qed.

  (* ---- F15: nothing else ties the pairs *)
  Definition with_subproofs (p : clpok) (pmi : list pov) (rpmi : list boudot) : clpok :=
    {| pk_spok := pk_spok p; pk_rpe := pk_rpe p; pk_pmi := pmi; pk_rpmi := rpmi |}.

  Theorem spok_subproofs_untied p ck pk bases rmsgs U nsm pmi' rpmi' :
    spok_verify CS BP p ck pk bases rmsgs U nsm = Ok true ->
    length pmi' = length U -> length rpmi' = length U ->
    spok_verify_loop CS BP ck U pmi' rpmi' = Ok true ->
    spok_verify CS BP (with_subproofs p pmi' rpmi') ck pk bases rmsgs U nsm = Ok true.
  Proof.
    intros H Hl1 Hl2 Hl. unfold spok_verify in *. cbn [with_subproofs pk_spok pk_rpe pk_pmi pk_rpmi].
    destruct (nisp5_verify (pk_spok p) ck pk bases rmsgs U nsm) as [b0| | |]; cbn [bind] in *; try discriminate.
    destruct b0; cbn [negb] in *; [|discriminate].
    rewrite Hl1, Hl2, Nat.eqb_refl. cbn [andb negb].
    destruct (negb _); [discriminate|].
    destruct (c_value (sp_Ce (pk_spok p)) =? bd_E (pk_rpe p)); [|discriminate].
    destruct (nthZ (ck_g ck) 0) as [g0| | |]; cbn [bind] in *; try discriminate.
    destruct (boudot_verify BP (pk_rpe p) g0 (ck_h ck) (ck_N ck) (min_e CS) (max_e CS)) as [b1| | |]; cbn [bind] in *; try discriminate.
    destruct b1; [exact Hl|discriminate].
  Qed.

  Definition zk_with_subproofs (p : zkpok) (pmi : list pov) (rpmi : list boudot) (pr : pov) (rpr : boudot) : zkpok :=
    {| zk_trusted := zk_trusted p; zk_msgs := zk_msgs p; zk_pmi := pmi; zk_rpmi := rpmi; zk_pr := pr; zk_rpr := rpr |}.

  Theorem zkpok_subproofs_untied p C Ct pk bases ck U q :
    zkpok_verify CS BP p C Ct pk bases ck U = Ok true ->
    (* q: ANY other accepted issuance proof under the same key, bases and hidden positions -- for any commitment *)
    forall C' Ct' ck', zkpok_verify CS BP q C' Ct' pk bases ck' U = Ok true ->
    zkpok_verify CS BP (zk_with_subproofs p (zk_pmi q) (zk_rpmi q) (zk_pr q) (zk_rpr q)) C Ct pk bases ck U = Ok true.
  Proof.
    intros H C' Ct' ck' Hq. unfold zkpok_verify in *. cbn [zk_with_subproofs zk_trusted zk_msgs zk_pmi zk_rpmi zk_pr zk_rpr].
    destruct (match Ct, ck with
              | Some ct, Some k => let* tp := unwrap (zk_trusted p) in nisp2_verify tp C ct pk bases k U
              | _, _ => Ok true end) as [bt| | |]; cbn [bind] in *; try discriminate.
    destruct bt; cbn [negb] in *; [|discriminate].
    destruct (nispm_verify (zk_msgs p) C pk bases (Some U)) as [bm| | |]; cbn [bind] in *; try discriminate.
    destruct bm; cbn [negb] in *; [|discriminate].
    clear H.
    assert (Hlen : (Nat.eqb (length (zk_pmi q)) (length U) && Nat.eqb (length (zk_rpmi q)) (length U))%bool = true).
    { destruct (match Ct', ck' with
                | Some ct, Some k => let* tp := unwrap (zk_trusted q) in nisp2_verify tp C' ct pk bases k U
                | _, _ => Ok true end) as [bt| | |]; cbn [bind] in Hq; try discriminate.
      destruct bt; cbn [negb] in Hq; [|discriminate].
      destruct (nispm_verify (zk_msgs q) C' pk bases (Some U)) as [bm| | |]; cbn [bind] in Hq; try discriminate.
      destruct bm; cbn [negb] in Hq; [|discriminate].
      destruct (Nat.eqb (length (zk_pmi q)) (length U) && Nat.eqb (length (zk_rpmi q)) (length U))%bool; [reflexivity|discriminate]. }
    rewrite Hlen. cbn [negb].
    destruct (match Ct', ck' with
              | Some ct, Some k => let* tp := unwrap (zk_trusted q) in nisp2_verify tp C' ct pk bases k U
              | _, _ => Ok true end) as [bt| | |]; cbn [bind] in Hq; try discriminate.
    destruct bt; cbn [negb] in Hq; [|discriminate].
    destruct (nispm_verify (zk_msgs q) C' pk bases (Some U)) as [bm| | |]; cbn [bind] in Hq; try discriminate.
    destruct bm; cbn [negb] in Hq; [|discriminate].
    rewrite Hlen in Hq. cbn [negb] in Hq. exact Hq.
  Qed.
End T.

(* ---------------------------------------------------------------- F16: the same-secret response pins its secret *)
(* a logged rand_int draw lies in the requested interval *)
Definition int_ok (d : draw) : Prop := d_kind d = 3%N -> match d_params d with [a; b] => a <= d_val d <= b | _ => True end.

Lemma zlist_eqb_eq : forall a b, zlist_eqb a b = true -> a = b.
Proof.
  induction a as [|x a IH]; intros [|y b] H; cbn in H; try discriminate; [reflexivity|].
  apply andb_true_iff in H as [H1 H2]. apply Z.eqb_eq in H1. subst. f_equal. apply IH. exact H2.
Qed.

Lemma rand_int_ok a b ds v ds' : Forall int_ok ds -> rand_int a b ds = Ok (v, ds') -> a <= v <= b /\ Forall int_ok ds'.
Proof.
  intros Hd H. unfold rand_int in H. destruct (b <? a); [discriminate|]. unfold draw_req in H.
  destruct ds as [|d rest]; [discriminate|]. destruct (N.eqb_spec (d_kind d) 3) as [Hk|]; [|discriminate].
  destruct (zlist_eqb (d_params d) [a; b]) eqn:Ep; [|discriminate]. cbn [andb] in H. inversion H; subst.
  inversion Hd as [|? ? Hd0 Hdr]; subst. split; [|exact Hdr]. specialize (Hd0 Hk).
  apply zlist_eqb_eq in Ep. rewrite Ep in Hd0. exact Hd0.
Qed.

Section Leak.
  Variable BP : bparams.

  (* the first response of the same-secret proof is omega + c x with 1 <= omega < 2^(l+t) b: dividing by the (public) challenge
     returns x up to omega / c -- with the 256-bit challenge the code uses and a secret x_1 of ~ T/2 + |width|/2 bits this is x_1 itself
     (up to 2^(l+t) b / c), whatever the draws *)
  Theorem same_secret_response_pins_x x r1 r2 g1 h1 g2 h2 b n s2x ds p ds' :
    Forall int_ok ds ->
    proof_same_secret BP x r1 r2 g1 h1 g2 h2 b n s2x ds = Ok (p, ds') ->
    0 < ss_chal p ->
    x <= ss_d p / ss_chal p <= x + (two (b_l BP + ss_t BP) * b - 1) / ss_chal p.
  Proof.
    intros Hd H Hc. unfold proof_same_secret in H.
    mstep H omega d1 Ho. mstep H mu1 d2 Hm1. mstep H mu2 d3 Hm2. mstep H w1 d4 Hw1. mstep H w2 d5 Hw2.
    apply mret_ok in H as [-> _]. cbn [ss_d ss_chal] in *.
    apply (rand_int_ok _ _ _ _ _ Hd) in Ho as [Hor _].
    set (c := hash_int (str_cat [w1; w2])) in *.
    replace (omega + c * x) with (omega + x * c) by ring. rewrite Z.div_add by lia.
    split.
    - assert (0 <= omega / c) by (apply Z.div_pos; lia). lia.
    - assert (omega / c <= (two (b_l BP + ss_t BP) * b - 1) / c) by (apply Z.div_le_mono; lia). lia.
  Qed.
End Leak.
