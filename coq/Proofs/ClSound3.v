(* C15: the soundness core of the nine-response protocol nisp5 (proof of knowledge of a signature), for every modulus, every
   number of attributes, every list of hidden positions, invertible bases and responses of either sign.
   - nisp5_firsts: the five first messages the verifier recomputes (the body of nisp5_verify up to the hash);
     nisp5_verify_firsts: acceptance = they hash to the challenge (and one response per hidden position);
   - nisp5_firsts_spec: the five values as products of powers (gp / gprod), the verifier's walk over the attribute positions
     included (hidden positions take the next response, revealed ones m + m c);
   - nisp5_special_soundness: two (challenge, responses) tuples recomputing to the same five first messages satisfy
       Cv^ds4 == prod a_i^(dA_i) * b^ds6 * g0^ds8 * c^dc      (as a product equal to 1 over the bases [Cv; 1/b; 1/g0; c] ++ a)
       g0^ds7 h^ds1 == Cw^dc,     Cw^ds4 == g0^ds8 h^ds2,     prod g_i^(dA_i) h^ds3 == Cx^dc,     g0^ds4 h^ds9 == Ce^dc
     with the SAME exponent differences dA_i (hidden: ds5_k, revealed: m_i dc) under the issuer's bases and the commitment key,
     the same ds4 in three equations and the same ds8 in two: what the extractor divides by dc to obtain a signature
     (e = ds4/dc, v, s = ds6/dc) on the hidden attributes ds5_k/dc and the revealed ones.
   Not formalised: rewinding and the strong-RSA division. *)
From ZK Require Import Cl ClArith ClSig ClMore ClGroup ClBoudot ClSpok ClSound ClSound2.
From Coq Require Import ZArith Lia Zdiv Setoid Morphisms List Bool NArith.
Import ListNotations.
Open Scope Z_scope.

Fixpoint idxs (i : N) (cnt : nat) : list N :=
  match cnt with O => [] | S c => i :: idxs (i + 1)%N c end.

(* the exponents of the verifier's walk: hidden positions take the next response, revealed ones m + m c *)
Fixpoint wexp (s5 rmsgs : list Z) (ch : Z) (U : list N) (cnt : nat) (i : N) : option (list Z) :=
  match cnt with
  | O => Some []
  | S c' =>
    if memb i U then
      match s5 with [] => None | s :: s5' => option_map (cons s) (wexp s5' rmsgs ch U c' (i + 1)%N) end
    else
      match rmsgs with [] => None | m :: rm' => option_map (cons (m + m * ch)) (wexp s5 rm' ch U c' (i + 1)%N) end
  end.

Definition nisp5_firsts (p : spok) (ck : cpubkey) (pk : pubkey) (bases rmsgs : list Z) (U : list N) (nsm : nat)
  : outcome (list Z) :=
  let N := pk_N pk in let ch := sp_chal p in
  let* tcx := walk bases N (sp_s5 p) rmsgs ch U nsm 0%N 1 in
  let tcx := Z.rem tcx N in
  let* cv4 := pow_mod (c_value (sp_Cv p)) (sp_s4 p) N in
  let* itcx := inv_of tcx N in
  let* ib := inv_of (pk_b pk) N in
  let* ib6 := pow_mod ib (sp_s6 p) N in
  let* g0 := nthZ (ck_g ck) 0 in
  let* ig0 := inv_of g0 N in
  let* ig8 := pow_mod ig0 (sp_s8 p) N in
  let* cc := pow_mod (pk_c pk) (- 1 * ch) N in
  let in1 := Z.rem (cv4 * itcx * ib6 * ig8 * cc) N in
  let* g7 := pow_mod g0 (sp_s7 p) N in
  let* h1 := pow_mod (ck_h ck) (sp_s1 p) N in
  let* cwc := pow_mod (c_value (sp_Cw p)) (- 1 * ch) N in
  let in2 := Z.rem (g7 * h1 * cwc) N in
  let* cw4 := pow_mod (c_value (sp_Cw p)) (sp_s4 p) N in
  let* ig0' := inv_of g0 N in
  let* ig8' := pow_mod ig0' (sp_s8 p) N in
  let* ih := inv_of (ck_h ck) N in
  let* ih2 := pow_mod ih (sp_s2 p) N in
  let in3 := Z.rem (cw4 * ig8' * ih2) N in
  let* i40 := walk (ck_g ck) N (sp_s5 p) rmsgs ch U nsm 0%N 1 in
  let* h3 := pow_mod (ck_h ck) (sp_s3 p) N in
  let* cxc := pow_mod (c_value (sp_Cx p)) (- 1 * ch) N in
  let in4 := Z.rem (i40 * h3 * cxc) N in
  let* g4 := pow_mod g0 (sp_s4 p) N in
  let* h9 := pow_mod (ck_h ck) (sp_s9 p) N in
  let* cec := pow_mod (c_value (sp_Ce p)) (- 1 * ch) N in
  let in5 := Z.rem (g4 * h9 * cec) N in
  Ok [in1; in2; in3; in4; in5].

(* acceptance = the recomputed first messages hash to the challenge *)
Theorem nisp5_verify_firsts p ck pk bases rmsgs U nsm :
  nisp5_verify p ck pk bases rmsgs U nsm = Ok true ->
  exists l, nisp5_firsts p ck pk bases rmsgs U nsm = Ok l /\ hash_int (str_cat l) = sp_chal p /\
            length (sp_s5 p) = length U.
Proof.
  unfold nisp5_verify, nisp5_firsts. intros H.
  destruct (Nat.ltb (length bases) nsm && Nat.ltb (length (ck_g ck)) nsm)%bool; [discriminate|].
  destruct (Nat.eqb_spec (length (sp_s5 p)) (length U)) as [Hl|Hl]; cbn [negb] in H; [|discriminate].
  destruct (existsb _ _); [discriminate|].
  repeat match type of H with
         | context [bind ?e _] => let E := fresh "E" in destruct e eqn:E; cbn [bind] in H |- *; try discriminate
         end.
  inversion H as [Hb]. apply Z.eqb_eq in Hb. eexists. split; [reflexivity|]. split; [exact Hb|exact Hl].
Qed.

Section W.
  Variable n : Z.
  Hypothesis Hn : 0 < n.
  Local Infix "==" := (cgs n) (at level 70).
  Local Instance cgs_equiv4 : Equivalence (cgs n) := cgs_equiv n.
  Local Instance cgs_mul4 : Proper (cgs n ==> cgs n ==> cgs n) Z.mul := cgs_mul n Hn.

  Lemma walk_gp bases ch U : forall cnt i s5 rm acc sel,
    mapM (nthZ bases) (idxs i cnt) = Ok (map fst sel) -> units n sel ->
    walk bases n s5 rm ch U cnt i acc =
    match wexp s5 rm ch U cnt i with Some d => Ok (acc * gprod n sel d) | None => Panic end.
  Proof.
    induction cnt as [|cnt IH]; intros i s5 rm acc sel Hm Hu.
    - cbn in Hm. destruct sel; [|discriminate]. cbn. f_equal. ring.
    - cbn [idxs mapM] in Hm. destruct (nthZ bases i) as [a| | |] eqn:Ea; try discriminate. cbn [bind] in Hm.
      destruct (mapM (nthZ bases) (idxs (i + 1) cnt)) as [as_| | |] eqn:Em; try discriminate. cbn [bind] in Hm.
      destruct sel as [|[a' ai] sel]; [discriminate|]. cbn [map fst] in Hm. inversion Hm; subst a' as_.
      inversion Hu as [|? ? Hi Hu']; subst. cbn [fst snd] in Hi.
      cbn [walk wexp]. rewrite Ea. cbn [bind]. destruct (memb i U).
      + destruct s5 as [|s s5']; [reflexivity|]. rewrite (pow_mod_gp n Hn a ai s Hi). cbn [bind].
        rewrite (IH (i + 1)%N s5' rm (acc * gp n a ai s) sel Em Hu').
        destruct (wexp s5' rm ch U cnt (i + 1)); cbn [option_map gprod]; [f_equal; ring|reflexivity].
      + destruct rm as [|m rm']; [reflexivity|]. rewrite (pow_mod_gp n Hn a ai _ Hi). cbn [bind].
        rewrite (IH (i + 1)%N s5 rm' (acc * gp n a ai (m + m * ch)) sel Em Hu').
        destruct (wexp s5 rm' ch U cnt (i + 1)); cbn [option_map gprod]; [f_equal; ring|reflexivity].
  Qed.

  Lemma wexp_length s5 rm ch U : forall cnt i d, wexp s5 rm ch U cnt i = Some d -> length d = cnt.
  Proof.
    intros cnt; revert s5 rm. induction cnt as [|cnt IH]; intros s5 rm i d H.
    - cbn in H. inversion H. reflexivity.
    - cbn [wexp] in H. destruct (memb i U).
      + destruct s5 as [|s s5']; [discriminate|]. destruct (wexp s5' rm ch U cnt (i + 1)) eqn:E; [|discriminate].
        cbn in H. inversion H. cbn. f_equal. eapply IH; exact E.
      + destruct rm as [|m rm']; [discriminate|]. destruct (wexp s5 rm' ch U cnt (i + 1)) eqn:E; [|discriminate].
        cbn in H. inversion H. cbn. f_equal. eapply IH; exact E.
  Qed.

  Lemma mapM_idxs_length bases : forall cnt i (sel : list (Z * Z)), mapM (nthZ bases) (idxs i cnt) = Ok (map fst sel) -> length sel = cnt.
  Proof.
    induction cnt as [|cnt IH]; intros i sel Hm.
    - cbn in Hm. destruct sel; [reflexivity|discriminate].
    - cbn [idxs mapM] in Hm. destruct (nthZ bases i); try discriminate. cbn [bind] in Hm.
      destruct (mapM (nthZ bases) (idxs (i + 1) cnt)) eqn:Em; try discriminate. cbn [bind] in Hm.
      destruct sel as [|q sel]; [discriminate|]. cbn [map] in Hm. inversion Hm; subst. cbn. f_equal. eapply IH. exact Em.
  Qed.

  Lemma gprod_app s1 s2 : forall d1 d2, length d1 = length s1 -> gprod n (s1 ++ s2) (d1 ++ d2) = gprod n s1 d1 * gprod n s2 d2.
  Proof.
    induction s1 as [|[a ai] s1 IH]; intros d1 d2 Hl.
    - destruct d1; [|discriminate]. cbn [app]. change (gprod n [] []) with 1. ring.
    - destruct d1 as [|x d1]; [discriminate|]. cbn [app gprod]. rewrite IH by (cbn in Hl; lia). ring.
  Qed.

  Lemma units_app s1 s2 : units n s1 -> units n s2 -> units n (s1 ++ s2).
  Proof. unfold units. intros. apply Forall_app. split; assumption. Qed.

  Lemma vsub_app : forall d1 d1' d2 d2', length d1 = length d1' -> vsub (d1 ++ d2) (d1' ++ d2') = vsub d1 d1' ++ vsub d2 d2'.
  Proof.
    induction d1 as [|x d1 IH]; intros d1' d2 d2' Hl.
    - destruct d1'; [reflexivity|discriminate].
    - destruct d1' as [|y d1']; [discriminate|]. unfold vsub in *. cbn [app combine map]. f_equal. apply IH. cbn in Hl. lia.
  Qed.

  (* equal products: the product over the differences is 1 *)
  Lemma gprod_diff sel d d' : units n sel -> length d = length sel -> length d' = length sel ->
    gprod n sel d == gprod n sel d' -> gprod n sel (vsub d d') == 1.
  Proof.
    intros Hu Hl Hl' He. rewrite (gprod_split n Hn sel Hu d d' Hl Hl') in He.
    apply (cgs_cancel n Hn _ _ (gprod n sel d') (gprod n sel (map Z.opp d')) (gprod_unit n Hn sel Hu d')).
    rewrite He. apply cgs_eq. ring.
  Qed.

  Lemma mod_eq_cgs a b : a mod n = b mod n -> a == b.
  Proof. intros H. rewrite <- (cgs_mod n a), <- (cgs_mod n b). apply cgs_eq. exact H. Qed.

  (* ---------------------------------------------------------------- the five first messages as products of powers *)
  Section Stmt.
    Variables (ck : cpubkey) (pk : pubkey) (bases rmsgs : list Z) (U : list N) (nsm : nat).
    Variables (selA selG : list (Z * Z)).
    Variables (g0 ig0 ig0i ib ibi ih ihi ci : Z).
    Hypothesis HN : pk_N pk = n.
    Hypothesis HmA : mapM (nthZ bases) (idxs 0 nsm) = Ok (map fst selA).
    Hypothesis HmG : mapM (nthZ (ck_g ck)) (idxs 0 nsm) = Ok (map fst selG).
    Hypothesis HuA : units n selA.
    Hypothesis HuG : units n selG.
    Hypothesis Hg0 : nthZ (ck_g ck) 0 = Ok g0.
    Hypothesis Hig0 : inv_of g0 n = Ok ig0.
    Hypothesis Hig0i : invert ig0 n = Some ig0i.
    Hypothesis Hib : inv_of (pk_b pk) n = Ok ib.
    Hypothesis Hibi : invert ib n = Some ibi.
    Hypothesis Hih : inv_of (ck_h ck) n = Ok ih.
    Hypothesis Hihi : invert ih n = Some ihi.
    Hypothesis Hci : invert (pk_c pk) n = Some ci.

    Let Hg0inv : invert g0 n = Some ig0 := proj1 (inv_of_ok n Hn g0 ig0 Hig0).
    Let Hhinv : invert (ck_h ck) n = Some ih := proj1 (inv_of_ok n Hn (ck_h ck) ih Hih).

    Definition G0 := gp n g0 ig0.
    Definition HH := gp n (ck_h ck) ih.
    Definition IG0 := gp n ig0 ig0i.
    Definition IB := gp n ib ibi.
    Definition IH := gp n ih ihi.
    Definition CC := gp n (pk_c pk) ci.

    Theorem nisp5_firsts_spec p l Cvi Cwi Cxi Cei :
      invert (c_value (sp_Cv p)) n = Some Cvi -> invert (c_value (sp_Cw p)) n = Some Cwi ->
      invert (c_value (sp_Cx p)) n = Some Cxi -> invert (c_value (sp_Ce p)) n = Some Cei ->
      nisp5_firsts p ck pk bases rmsgs U nsm = Ok l ->
      exists dA itcx,
        wexp (sp_s5 p) rmsgs (sp_chal p) U nsm 0 = Some dA /\ gprod n selA dA * itcx == 1 /\
        l = [ (gp n (c_value (sp_Cv p)) Cvi (sp_s4 p) * itcx * IB (sp_s6 p) * IG0 (sp_s8 p) * CC (- sp_chal p)) mod n;
              (G0 (sp_s7 p) * HH (sp_s1 p) * gp n (c_value (sp_Cw p)) Cwi (- sp_chal p)) mod n;
              (gp n (c_value (sp_Cw p)) Cwi (sp_s4 p) * IG0 (sp_s8 p) * IH (sp_s2 p)) mod n;
              (gprod n selG dA * HH (sp_s3 p) * gp n (c_value (sp_Cx p)) Cxi (- sp_chal p)) mod n;
              (G0 (sp_s4 p) * HH (sp_s9 p) * gp n (c_value (sp_Ce p)) Cei (- sp_chal p)) mod n ].
    Proof.
      intros HCv HCw HCx HCe H. unfold nisp5_firsts in H. rewrite HN in H.
      rewrite (walk_gp bases (sp_chal p) U nsm 0%N (sp_s5 p) rmsgs 1 selA HmA HuA) in H.
      rewrite (walk_gp (ck_g ck) (sp_chal p) U nsm 0%N (sp_s5 p) rmsgs 1 selG HmG HuG) in H.
      destruct (wexp (sp_s5 p) rmsgs (sp_chal p) U nsm 0) as [dA|] eqn:Ew; [|discriminate]. cbn [bind] in H.
      rewrite !Z.mul_1_l in H.
      replace (- 1 * sp_chal p) with (- sp_chal p) in H by ring.
      rewrite (pow_mod_gp n Hn _ Cvi _ HCv) in H. cbn [bind] in H.
      destruct (inv_of (Z.rem (gprod n selA dA) n) n) as [itcx| | |] eqn:Eit; try discriminate. cbn [bind] in H.
      rewrite Hib in H. cbn [bind] in H. rewrite (pow_mod_gp n Hn ib ibi _ Hibi) in H. cbn [bind] in H.
      rewrite Hg0 in H. cbn [bind] in H. rewrite Hig0 in H. cbn [bind] in H.
      rewrite (pow_mod_gp n Hn ig0 ig0i _ Hig0i) in H. cbn [bind] in H.
      rewrite (pow_mod_gp n Hn _ ci _ Hci) in H. cbn [bind] in H.
      rewrite (pow_mod_gp n Hn g0 ig0 _ Hg0inv) in H. cbn [bind] in H.
      rewrite !(pow_mod_gp n Hn (ck_h ck) ih _ Hhinv) in H. cbn [bind] in H.
      rewrite !(pow_mod_gp n Hn _ Cwi _ HCw) in H. cbn [bind] in H.
      rewrite Hih in H. cbn [bind] in H. rewrite (pow_mod_gp n Hn ih ihi _ Hihi) in H. cbn [bind] in H.
      rewrite (pow_mod_gp n Hn _ Cxi _ HCx) in H. cbn [bind] in H.
      rewrite (pow_mod_gp n Hn g0 ig0 _ Hg0inv) in H. cbn [bind] in H.
      rewrite (pow_mod_gp n Hn _ Cei _ HCe) in H. cbn [bind] in H.
      exists dA, itcx. split; [reflexivity|].
      pose proof (inv_of_ok n Hn _ _ Eit) as [_ [Hinv Hir]].
      assert (HA0 : 0 <= gprod n selA dA) by apply (gprod_nonneg n Hn).
      split.
      { rewrite rem_mod_nonneg in Hinv by lia.
        change (cgs n (gprod n selA dA mod n * itcx) 1) in Hinv. rewrite (cgs_mod n) in Hinv. exact Hinv. }
      inversion H as [Hl]. clear H Hl.
      pose proof (gp_range n Hn) as R.
      pose proof (gprod_nonneg n Hn selG dA) as HG0.
      unfold G0, HH, IG0, IB, IH, CC.
      repeat (rewrite rem_mod_nonneg;
              [|repeat apply Z.mul_nonneg_nonneg; first [apply R | assumption | lia]|exact Hn]).
      reflexivity.
    Qed.

    (* special soundness of the nine-response protocol *)
    Theorem nisp5_special_soundness p p' l Cvi Cwi Cxi Cei :
      sp_Cv p = sp_Cv p' -> sp_Cw p = sp_Cw p' -> sp_Cx p = sp_Cx p' -> sp_Ce p = sp_Ce p' ->
      invert (c_value (sp_Cv p)) n = Some Cvi -> invert (c_value (sp_Cw p)) n = Some Cwi ->
      invert (c_value (sp_Cx p)) n = Some Cxi -> invert (c_value (sp_Ce p)) n = Some Cei ->
      nisp5_firsts p ck pk bases rmsgs U nsm = Ok l -> nisp5_firsts p' ck pk bases rmsgs U nsm = Ok l ->
      exists dA dA',
        wexp (sp_s5 p) rmsgs (sp_chal p) U nsm 0 = Some dA /\ wexp (sp_s5 p') rmsgs (sp_chal p') U nsm 0 = Some dA' /\
        let dc := sp_chal p - sp_chal p' in
        gprod n ([(c_value (sp_Cv p), Cvi); (ib, ibi); (ig0, ig0i); (pk_c pk, ci)] ++ selA)
                ([sp_s4 p - sp_s4 p'; sp_s6 p - sp_s6 p'; sp_s8 p - sp_s8 p'; - dc] ++ vsub dA' dA) == 1 /\
        G0 (sp_s7 p - sp_s7 p') * HH (sp_s1 p - sp_s1 p') == gp n (c_value (sp_Cw p)) Cwi dc /\
        gp n (c_value (sp_Cw p)) Cwi (sp_s4 p - sp_s4 p') * IG0 (sp_s8 p - sp_s8 p') * IH (sp_s2 p - sp_s2 p') == 1 /\
        gprod n selG (vsub dA dA') * HH (sp_s3 p - sp_s3 p') == gp n (c_value (sp_Cx p)) Cxi dc /\
        G0 (sp_s4 p - sp_s4 p') * HH (sp_s9 p - sp_s9 p') == gp n (c_value (sp_Ce p)) Cei dc.
    Proof.
      intros EV EW EX EE HCv HCw HCx HCe F F'.
      destruct (nisp5_firsts_spec p l Cvi Cwi Cxi Cei HCv HCw HCx HCe F) as [dA [it [Ew [Hit Hl]]]].
      assert (HCv' : invert (c_value (sp_Cv p')) n = Some Cvi) by (rewrite <- EV; exact HCv).
      assert (HCw' : invert (c_value (sp_Cw p')) n = Some Cwi) by (rewrite <- EW; exact HCw).
      assert (HCx' : invert (c_value (sp_Cx p')) n = Some Cxi) by (rewrite <- EX; exact HCx).
      assert (HCe' : invert (c_value (sp_Ce p')) n = Some Cei) by (rewrite <- EE; exact HCe).
      destruct (nisp5_firsts_spec p' l Cvi Cwi Cxi Cei HCv' HCw' HCx' HCe' F') as [dA' [it' [Ew' [Hit' Hl']]]].
      rewrite <- EV, <- EW, <- EX, <- EE in Hl'.
      exists dA, dA'. split; [exact Ew|]. split; [exact Ew'|]. cbv zeta.
      rewrite Hl in Hl'. inversion Hl' as [[R1 R2 R3 R4 R5]]. clear Hl Hl'.
      pose proof (wexp_length _ _ _ _ _ _ _ Ew) as LdA. pose proof (wexp_length _ _ _ _ _ _ _ Ew') as LdA'.
      pose proof (mapM_idxs_length bases nsm 0%N selA HmA) as LA. pose proof (mapM_idxs_length (ck_g ck) nsm 0%N selG HmG) as LG.
      assert (Ug0 : invert g0 n = Some ig0) by exact Hg0inv.
      assert (Uh : invert (ck_h ck) n = Some ih) by exact Hhinv.
      split; [|split; [|split; [|split]]].
      - (* equation 1: multiply by both walk products to remove their inverses *)
        apply mod_eq_cgs in R1.
        set (S4 := [(c_value (sp_Cv p), Cvi); (ib, ibi); (ig0, ig0i); (pk_c pk, ci)]).
        assert (HuS : units n (S4 ++ selA)).
        { apply units_app; [|exact HuA]. unfold S4, units. repeat constructor; cbn [fst snd]; assumption. }
        set (d := [sp_s4 p; sp_s6 p; sp_s8 p; - sp_chal p] ++ dA').
        set (d' := [sp_s4 p'; sp_s6 p'; sp_s8 p'; - sp_chal p'] ++ dA).
        assert (Hd : gprod n (S4 ++ selA) d == gprod n (S4 ++ selA) d').
        { unfold d, d'. rewrite !gprod_app by reflexivity. unfold S4. cbn [gprod].
          unfold IB, IG0, CC in R1.
          set (TA := gprod n selA dA) in *. set (TA' := gprod n selA dA') in *.
          set (a1 := gp n (c_value (sp_Cv p)) Cvi (sp_s4 p)) in *. set (a1' := gp n (c_value (sp_Cv p)) Cvi (sp_s4 p')) in *.
          set (a2 := gp n ib ibi (sp_s6 p)) in *. set (a2' := gp n ib ibi (sp_s6 p')) in *.
          set (a3 := gp n ig0 ig0i (sp_s8 p)) in *. set (a3' := gp n ig0 ig0i (sp_s8 p')) in *.
          set (a4 := gp n (pk_c pk) ci (- sp_chal p)) in *. set (a4' := gp n (pk_c pk) ci (- sp_chal p')) in *.
          transitivity ((a1 * it * a2 * a3 * a4) * (TA * TA')).
          - transitivity (a1 * a2 * a3 * a4 * TA' * (TA * it)); [rewrite Hit; apply cgs_eq; ring|apply cgs_eq; ring].
          - rewrite R1. transitivity (a1' * a2' * a3' * a4' * TA * (TA' * it')); [apply cgs_eq; ring|rewrite Hit'; apply cgs_eq; ring]. }
        pose proof (gprod_diff (S4 ++ selA) d d' HuS) as Hdiff.
        assert (Ld : length d = length (S4 ++ selA)) by (unfold d, S4; rewrite !app_length; cbn [length]; lia).
        assert (Ld' : length d' = length (S4 ++ selA)) by (unfold d', S4; rewrite !app_length; cbn [length]; lia).
        specialize (Hdiff Ld Ld' Hd). unfold d, d' in Hdiff. rewrite vsub_app in Hdiff by reflexivity.
        unfold vsub at 1 in Hdiff. cbn [combine map fst snd] in Hdiff.
        replace (- sp_chal p - - sp_chal p') with (- (sp_chal p - sp_chal p')) in Hdiff by ring. exact Hdiff.
      - apply (side_extract n Hn g0 ig0 (ck_h ck) ih (c_value (sp_Cw p)) Cwi Ug0 Uh HCw _ _ _ _ _ _ R2).
      - apply mod_eq_cgs in R3.
        set (S3 := [(c_value (sp_Cw p), Cwi); (ig0, ig0i); (ih, ihi)]).
        assert (HuS : units n S3) by (unfold S3, units; repeat constructor; cbn [fst snd]; assumption).
        pose proof (gprod_diff S3 [sp_s4 p; sp_s8 p; sp_s2 p] [sp_s4 p'; sp_s8 p'; sp_s2 p'] HuS eq_refl eq_refl) as Hdiff.
        unfold S3 in Hdiff. unfold vsub in Hdiff. cbn [gprod combine map fst snd] in Hdiff.
        unfold IG0, IH in *.
        transitivity (gp n (c_value (sp_Cw p)) Cwi (sp_s4 p - sp_s4 p') * (gp n ig0 ig0i (sp_s8 p - sp_s8 p') * (gp n ih ihi (sp_s2 p - sp_s2 p') * 1)));
          [apply cgs_eq; ring|].
        apply Hdiff. transitivity (gp n (c_value (sp_Cw p)) Cwi (sp_s4 p) * gp n ig0 ig0i (sp_s8 p) * gp n ih ihi (sp_s2 p)); [apply cgs_eq; ring|].
        rewrite R3. apply cgs_eq; ring.
      - assert (K : length dA = length selG) by lia. assert (K' : length dA' = length selG) by lia.
        apply (vside_extract n Hn selG (ck_h ck) ih (c_value (sp_Cx p)) Cxi HuG Uh HCx _ _ _ _ _ _ K K' R4).
      - apply (side_extract n Hn g0 ig0 (ck_h ck) ih (c_value (sp_Ce p)) Cei Ug0 Uh HCe _ _ _ _ _ _ R5).
    Qed.
  End Stmt.
End W.
