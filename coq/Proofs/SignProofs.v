(* C01: completeness of BBS signatures; codec round trip; None = empty; totality of key generation
   and signing.  C02 (unconditional part): another A or another e is rejected. *)
From ZK Require Import Laws BaseLemmas.
Open Scope N_scope.

Section Sign.
  Context (E : env) (LW : Laws E).
  Notation S := (SO E).
  Notation P := (PR E).
  Notation Fd := (F S).
  Notation G1t := (@G1 S P).
  Notation G2t := (@G2 S P).

  Local Notation "0" := (f0 S).
  Local Notation "1" := (f1 S).
  Local Infix "+" := (fadd S).
  Local Infix "*" := (fmul S).
  Local Infix "-" := (fsub S).
  Local Infix "/" := (fdiv S).
  Local Notation "- x" := (fopp S x).
  Local Notation d1 := (dl1 E LW).
  Local Notation d2 := (dl2 E LW).

  Lemma Fth : field_theory 0 1 (fadd S) (fmul S) (fsub S) (fopp S) (fdiv S) (finv S) (@eq Fd).
  Proof. exact (L_field E LW). Qed.
  Add Field Ff : Fth.

  Lemma feqb_true x y : feqb S x y = true -> x = y.
  Proof. apply (L_feqb E LW). Qed.
  Lemma feqb_refl x : feqb S x x = true.
  Proof. apply (L_feqb E LW). reflexivity. Qed.
  Lemma feqb_false x y : feqb S x y = false -> x <> y.
  Proof. intros H C. subst. rewrite feqb_refl in H. discriminate. Qed.
  Lemma feqb_neq x y : x <> y -> feqb S x y = false.
  Proof. intros H. destruct (feqb S x y) eqn:Eq; [|reflexivity]. apply feqb_true in Eq. contradiction. Qed.

  Lemma g1_eqb_false a b : g1_eqb P a b = false -> a <> b.
  Proof. intros H C. subst. assert (g1_eqb P b b = true) by (apply (L_g1_eqb E LW); reflexivity). congruence. Qed.

  Lemma finv_opt_some x i : finv_opt E x = Some i -> x <> 0 /\ i = finv S x.
  Proof.
    unfold finv_opt. destruct (feqb S x 0) eqn:Eq; [discriminate|].
    intros H; inversion H. split; [apply feqb_false; assumption|reflexivity].
  Qed.
  Lemma finv_opt_nz x : x <> 0 -> finv_opt E x = Some (finv S x).
  Proof. intros H. unfold finv_opt. rewrite feqb_neq by assumption. reflexivity. Qed.

  Lemma fmul_integral x y : x * y = 0 -> x = 0 \/ y = 0.
  Proof.
    intros H. destruct (feqb S x 0) eqn:Ex; [left; apply feqb_true; assumption|right].
    apply feqb_false in Ex.
    transitivity (finv S x * (x * y)); [field; assumption| rewrite H; ring].
  Qed.

  (* dot product of discrete logs *)
  Fixpoint dot (gs : list G1t) (ms : list Fd) : Fd :=
    match gs, ms with
    | g :: gs', m :: ms' => m * d1 g + dot gs' ms'
    | _, _ => 0
    end.

  Lemma dl_msm acc gs ms : d1 (msm_acc E acc gs ms) = d1 acc + dot gs ms.
  Proof.
    revert acc ms; induction gs as [|g gs IH]; intros acc ms; cbn.
    - ring.
    - destruct ms as [|m ms]; cbn; [ring|].
      rewrite IH. rewrite (L_dl1_add E LW), (L_dl1_mul E LW). ring.
  Qed.

  Lemma hash_to_scalar_ok msg dst : (length dst <= 255)%nat ->
    hash_to_scalar E msg dst = Ok (f_of_okm S (expand E msg dst 48)).
  Proof. intros H. unfold hash_to_scalar. destruct (Nat.ltb_spec 255 (length dst)); [lia|reflexivity]. Qed.

  Lemma messages_to_scalars_ok msgs api : (length (api ++ c_map_msg_scalar (cs E)) <= 255)%nat ->
    messages_to_scalars E msgs api =
    Ok (map (fun m => f_of_okm S (expand E m (api ++ c_map_msg_scalar (cs E)) 48)) msgs).
  Proof.
    intros H. unfold messages_to_scalars.
    rewrite (mapM_ext _ (fun m => Ok (f_of_okm S (expand E m (api ++ c_map_msg_scalar (cs E)) 48)))).
    - apply mapM_ok_map.
    - intros; apply hash_to_scalar_ok; assumption.
  Qed.

  (* ------------------------------------------------------------------ completeness *)
  Theorem core_sign_verify sk g header ms api sig :
    core_sign E sk (sk_to_pk E sk) g header ms api = Ok sig ->
    core_verify E (sk_to_pk E sk) sig ms g header api = Ok tt.
  Proof.
    unfold core_sign, core_sign_eB, core_verify.
    set (HH := skipn 1 (g_values E g)).
    destruct (negb (Nat.eqb (length (g_values E g)) (length ms + 1))); [discriminate|].
    destruct (index (g_values E g) 0) as [Q1| | |]; cbn [bind]; try discriminate.
    destruct (calculate_domain E (sk_to_pk E sk) Q1 HH header api) as [dom| | |];
      cbn [bind]; try discriminate.
    set (B := compute_B E g Q1 HH dom ms).
    destruct (hash_to_scalar E _ _) as [e| | |]; cbn [bind]; try discriminate.
    destruct (finv_opt E (sk + e)) as [inv|] eqn:Ei; cbn [bind unwrap]; try discriminate.
    destruct (g1_eqb P _ _) eqn:EA; [discriminate|].
    intros H; inversion H; subst; clear H. cbn [sig_A sig_e].
    apply finv_opt_some in Ei as [Hnz ->].
    match goal with |- (if ?c then _ else _) = _ => assert (Hc : c = true); [|rewrite Hc; reflexivity] end.
    apply (L_pair E LW).
    rewrite (L_dl1_mul E LW), (L_dl2_add E LW), !(L_dl2_gen E LW). unfold sk_to_pk. rewrite (L_dl2_gen E LW).
    field. assumption.
  Qed.

  Theorem sign_verify_complete sk header msgs sig :
    sign E msgs sk (sk_to_pk E sk) header = Ok sig ->
    verify E sig (sk_to_pk E sk) msgs header = Ok tt.
  Proof.
    unfold sign, verify.
    destruct (messages_to_scalars E _ _) as [ms| | |]; cbn [bind]; try discriminate.
    destruct (gens_create E _ _) as [g| | |]; cbn [bind]; try discriminate.
    apply core_sign_verify.
  Qed.

  (* ------------------------------------------------------------------ when signing succeeds *)
  Theorem core_sign_outcome sk pk g header ms api e B :
    core_sign_eB E sk pk g header ms api = Ok (e, B) ->
    (sk + e = 0 -> core_sign E sk pk g header ms api = Panic) /\
    (sk + e <> 0 -> B = g1_zero P -> core_sign E sk pk g header ms api = Err) /\
    (sk + e <> 0 -> B <> g1_zero P ->
       core_sign E sk pk g header ms api = Ok {| sig_A := g1_mul P (finv S (sk + e)) B; sig_e := e |}).
  Proof.
    intros HeB. unfold core_sign. rewrite HeB. cbn [bind]. repeat split.
    - intros Hz. unfold finv_opt. rewrite Hz, feqb_refl. reflexivity.
    - intros Hnz HB. rewrite finv_opt_nz by assumption. cbn [bind unwrap].
      subst B. replace (g1_mul P (finv S (sk + e)) (g1_zero P)) with (g1_zero P).
      + assert (Hq : g1_eqb P (g1_zero P) (g1_zero P) = true) by (apply (L_g1_eqb E LW); reflexivity).
        rewrite Hq. reflexivity.
      + apply (L_dl1_inj E LW). rewrite (L_dl1_mul E LW), (L_dl1_zero E LW). ring.
    - intros Hnz HB. rewrite finv_opt_nz by assumption. cbn [bind unwrap].
      destruct (g1_eqb P _ _) eqn:EA; [|reflexivity].
      exfalso. apply (L_g1_eqb E LW) in EA. apply HB. apply (L_dl1_inj E LW).
      apply (f_equal d1) in EA. rewrite (L_dl1_mul E LW), (L_dl1_zero E LW) in EA.
      rewrite (L_dl1_zero E LW).
      apply fmul_integral in EA as [EA|EA]; [|assumption].
      exfalso. assert (H1 : (sk + e) * finv S (sk + e) = 1) by (field; assumption).
      rewrite EA in H1. assert (H0 : (sk + e) * 0 = 0) by ring. rewrite H0 in H1.
      apply (F_1_neq_0 Fth). symmetry; assumption.
  Qed.

  (* the deterministic prefix never fails when the suite constants are usable *)
  Theorem sign_eB_total msgs sk pk header : suite_ok E -> exists e B, sign_eB E msgs sk pk header = Ok (e, B).
  Proof.
    intros [[Hm [Hh _]] [p1 Hp1]]. unfold sign_eB.
    rewrite messages_to_scalars_ok by assumption. cbn [bind].
    unfold gens_create. rewrite Hp1. cbn [bind unwrap].
    unfold core_sign_eB. cbn [g_values g_p1].
    set (msgs' := option_default [] msgs).
    assert (Hl : length (create_generators E (length msgs' + 1) (c_api_id (cs E))) = (length msgs' + 1)%nat).
    { unfold create_generators. generalize (length msgs' + 1)%nat as n.
      generalize 1%N as i. generalize (expand E (c_api_id (cs E) ++ c_generator_seed (cs E))
        (c_api_id (cs E) ++ c_generator_seed_dst (cs E)) 48) as v.
      intros v i n; revert v i; induction n as [|n IH]; intros; cbn; [reflexivity|]. rewrite IH. reflexivity. }
    rewrite map_length, Hl, Nat.eqb_refl. cbn [negb].
    destruct (create_generators E (length msgs' + 1) (c_api_id (cs E))) as [|Q1 H] eqn:Eg;
      [cbn in Hl; lia|].
    cbn [index nth_error unwrap bind skipn].
    unfold calculate_domain. rewrite hash_to_scalar_ok by assumption. cbn [bind].
    rewrite hash_to_scalar_ok by assumption. cbn [bind]. eauto.
  Qed.

  Theorem sign_outcome msgs sk pk header e B :
    sign_eB E msgs sk pk header = Ok (e, B) ->
    (sk + e = 0 -> sign E msgs sk pk header = Panic) /\
    (sk + e <> 0 -> B = g1_zero P -> sign E msgs sk pk header = Err) /\
    (sk + e <> 0 -> B <> g1_zero P ->
       sign E msgs sk pk header = Ok {| sig_A := g1_mul P (finv S (sk + e)) B; sig_e := e |}).
  Proof.
    unfold sign_eB, sign.
    destruct (messages_to_scalars E _ _) as [ms| | |]; cbn [bind]; try discriminate.
    destruct (gens_create E _ _) as [g| | |]; cbn [bind]; try discriminate.
    apply core_sign_outcome.
  Qed.

  (* ------------------------------------------------------------------ codec *)
  Lemma g1_eqb_neq a b : a <> b -> g1_eqb P a b = false.
  Proof. intros H. destruct (g1_eqb P a b) eqn:Eq; [|reflexivity]. apply (L_g1_eqb E LW) in Eq. contradiction. Qed.
  Lemma g1_eqb_refl a : g1_eqb P a a = true.
  Proof. apply (L_g1_eqb E LW). reflexivity. Qed.

  Theorem sig_codec_roundtrip s : sig_A E s <> g1_zero P -> sig_e E s <> 0 ->
    sig_from_bytes E (sig_to_bytes E s) = Ok s /\ length (sig_to_bytes E s) = 80%nat.
  Proof.
    destruct s as [A e]. unfold sig_to_bytes, sig_from_bytes. cbn [sig_A sig_e]. intros HA He.
    assert (Hl : length (g1_enc P A ++ f_to_be S e) = 80%nat)
      by (rewrite app_length, (L_g1_enc_len E LW), (L_f_enc_len E LW); reflexivity).
    rewrite Hl. cbn [Nat.eqb negb]. split; [|reflexivity].
    rewrite sub_app_l by (rewrite (L_g1_enc_len E LW); reflexivity).
    rewrite (L_g1_dec_enc E LW). cbn [try_opt bind].
    rewrite sub_app_r by (rewrite ?(L_g1_enc_len E LW), ?(L_f_enc_len E LW); reflexivity).
    rewrite (L_f_dec_enc E LW). cbn [try_opt bind].
    rewrite g1_eqb_neq, feqb_neq by assumption. reflexivity.
  Qed.

  Theorem sig_codec_canonical b s : sig_from_bytes E b = Ok s -> sig_to_bytes E s = b.
  Proof.
    unfold sig_from_bytes, sig_to_bytes.
    destruct (Nat.eqb (length b) 80) eqn:El; cbn [negb]; [|discriminate]. apply Nat.eqb_eq in El.
    destruct (g1_dec P (sub b 0 48)) as [A|] eqn:EA; cbn [try_opt bind]; [|discriminate].
    destruct (f_of_be S (sub b 48 80)) as [e|] eqn:Ee; cbn [try_opt bind]; [|discriminate].
    destruct (g1_eqb P A (g1_zero P) || feqb S e 0)%bool; [discriminate|].
    intros H; inversion H; subst; clear H. cbn [sig_A sig_e].
    rewrite (L_g1_enc_dec E LW _ _ EA), (L_f_enc_dec E LW _ _ Ee).
    apply sub_split; [assumption|lia].
  Qed.

  (* ------------------------------------------------------------------ None = empty *)
  Theorem none_is_empty sk pk s :
    (forall msgs, sign E None sk pk None = sign E (Some []) sk pk None /\
                  sign E msgs sk pk None = sign E msgs sk pk (Some [])) /\
    sign E None sk pk None = sign E (Some []) sk pk (Some []) /\
    (forall msgs, verify E s pk msgs None = verify E s pk msgs (Some [])) /\
    (forall header, verify E s pk None header = verify E s pk (Some []) header) /\
    (forall header, sign E None sk pk header = sign E (Some []) sk pk header).
  Proof. repeat split; reflexivity. Qed.

  (* ------------------------------------------------------------------ key generation *)
  Theorem keygen_total ikm ki kd :
    c_ikm_len (cs E) <= len ikm -> len (option_default [] ki) <= 65535 ->
    (length (option_default (c_api_id (cs E) ++ c_keygen_dst (cs E)) kd) <= 255)%nat ->
    exists sk, key_gen E ikm ki kd = Ok sk.
  Proof.
    intros H1 H2 H3. unfold key_gen.
    destruct (N.ltb_spec (len ikm) (c_ikm_len (cs E))); [lia|].
    destruct (N.ltb_spec 65535 (len (option_default [] ki))); [lia|].
    unfold i2osp2. destruct (N.ltb_spec (len (option_default [] ki)) 65536); [|lia]. cbn [bind].
    rewrite hash_to_scalar_ok by assumption. eauto.
  Qed.

  Theorem keygen_rejects ikm ki kd :
    (len ikm < c_ikm_len (cs E) -> key_gen E ikm ki kd = Err) /\
    (65535 < len (option_default [] ki) -> key_gen E ikm ki kd = Err) /\
    (c_ikm_len (cs E) <= len ikm -> len (option_default [] ki) <= 65535 ->
     (255 < length (option_default (c_api_id (cs E) ++ c_keygen_dst (cs E)) kd))%nat ->
     key_gen E ikm ki kd = Err).
  Proof.
    unfold key_gen. repeat split.
    - intros H. destruct (N.ltb_spec (len ikm) (c_ikm_len (cs E))); [reflexivity|lia].
    - intros H. destruct (len ikm <? c_ikm_len (cs E)); [reflexivity|].
      destruct (N.ltb_spec 65535 (len (option_default [] ki))); [reflexivity|lia].
    - intros H1 H2 H3.
      destruct (N.ltb_spec (len ikm) (c_ikm_len (cs E))); [lia|].
      destruct (N.ltb_spec 65535 (len (option_default [] ki))); [lia|].
      unfold i2osp2. destruct (N.ltb_spec (len (option_default [] ki)) 65536); [|lia]. cbn [bind].
      unfold hash_to_scalar. destruct (Nat.ltb_spec 255 (length (option_default (c_api_id (cs E) ++ c_keygen_dst (cs E)) kd))); [reflexivity|lia].
  Qed.

  Theorem h2s_rejects_long_dst msg dst : (255 < length dst)%nat -> hash_to_scalar E msg dst = Err.
  Proof. intros H. unfold hash_to_scalar. destruct (Nat.ltb_spec 255 (length dst)); [reflexivity|lia]. Qed.

  (* ------------------------------------------------------------------ C02, unconditional part *)
  (* for an accepted (A, e): no other A' with the same e and no other e' with the same A is accepted
     on the same inputs (A <> O is guaranteed for signatures produced by sign) *)
  Theorem verify_rejects_other_A pk A A' e ms g header api :
    core_verify E pk {| sig_A := A; sig_e := e |} ms g header api = Ok tt ->
    A' <> A -> fadd S (d2 pk) e <> 0 ->
    core_verify E pk {| sig_A := A'; sig_e := e |} ms g header api = Err.
  Proof.
    unfold core_verify. cbn [sig_A sig_e].
    destruct (negb (Nat.eqb (length (g_values E g)) (length ms + 1))); [discriminate|].
    destruct (index (g_values E g) 0) as [Q1| | |]; cbn [bind]; try discriminate.
    destruct (calculate_domain E pk Q1 (skipn 1 (g_values E g)) header api) as [dom| | |];
      cbn [bind]; try discriminate.
    destruct (pairing_eq P A _ _ _) eqn:E1; [|discriminate]. intros _ Hne Hnz.
    destruct (pairing_eq P A' _ _ _) eqn:E2; [|reflexivity]. exfalso.
    apply (L_pair E LW) in E1, E2.
    rewrite (L_dl2_add E LW), !(L_dl2_gen E LW) in E1, E2.
    apply Hne. apply (L_dl1_inj E LW).
    transitivity (finv S (d2 pk + e) * (d1 A' * (d2 pk + e))); [field; assumption|].
    rewrite E2, <- E1. field; assumption.
  Qed.

  Theorem verify_rejects_other_e pk A e e' ms g header api :
    core_verify E pk {| sig_A := A; sig_e := e |} ms g header api = Ok tt ->
    e' <> e -> A <> g1_zero P ->
    core_verify E pk {| sig_A := A; sig_e := e' |} ms g header api = Err.
  Proof.
    unfold core_verify. cbn [sig_A sig_e].
    destruct (negb (Nat.eqb (length (g_values E g)) (length ms + 1))); [discriminate|].
    destruct (index (g_values E g) 0) as [Q1| | |]; cbn [bind]; try discriminate.
    destruct (calculate_domain E pk Q1 (skipn 1 (g_values E g)) header api) as [dom| | |];
      cbn [bind]; try discriminate.
    destruct (pairing_eq P A _ _ _) eqn:E1; [|discriminate]. intros _ Hne Hnz.
    destruct (pairing_eq P A (g2_add P pk (g2_mul_gen P e')) _ _) eqn:E2; [|reflexivity]. exfalso.
    apply (L_pair E LW) in E1, E2.
    rewrite (L_dl2_add E LW), !(L_dl2_gen E LW) in E1, E2.
    assert (H0 : d1 A * (e' - e) = 0).
    { transitivity (d1 A * (d2 pk + e') - d1 A * (d2 pk + e)); [ring|]. rewrite E1, E2. ring. }
    apply fmul_integral in H0 as [H0|H0].
    - apply Hnz. apply (L_dl1_inj E LW). rewrite (L_dl1_zero E LW). assumption.
    - apply Hne. transitivity (e' - e + e); [ring|]. rewrite H0. ring.
  Qed.

End Sign.
