(* C14, re-issuing: update_signature recomputes v for the commitment extended with the NEW revealed attributes under the
   same e and r'.  The result unblinds to a signature valid on the updated vector; if it also verifies on another vector
   (the old one) then the two products of powers of the bases are congruent modulo N. *)
From ZK Require Import Cl ClArith ClSig ClMore ClGroup ClBoudot ModelLemmas ClSpok ClSpok2 ClSpok3 ClDraws ClZk.
From Coq Require Import ZArith Lia Znumtheory Zpow_facts Zdiv List.
Import ListNotations.
Open Scope Z_scope.

Section U.
  Variable CS : clsuite.

  Theorem cl_update_complete b revealed C sk pk bases ridx b' msgs ext :
    good_key pk sk ->
    Forall (fun a => Z.gcd a (pk_N pk) = 1) bases ->
    forallb (msg_in_range CS) msgs = true -> (length msgs <= length bases)%nat ->
    0 <= c_rand C -> 0 <= bs_rprime b -> two (le CS - 1) < bs_e b < two (le CS) ->
    (match revealed, ridx with
     | Some rm, Some _ => extend_commitment_with_pk C rm pk bases ridx
     | _, _ => Ok C
     end) = Ok ext ->
    0 <= c_value ext ->
    c_value ext mod pk_N pk = (PP bases msgs * pk_b pk ^ c_rand C) mod pk_N pk ->
    update_signature b revealed C sk pk bases ridx = Ok b' ->
    bs_e b' = bs_e b /\ bs_rprime b' = bs_rprime b /\
    verify_multiattr CS (unblind_sign b' C) pk bases msgs = Ok true.
  Proof.
    intros G Hb Hm Hlen Hr Hr' He Hext Hext0 HextC H. pose proof G as [HN Hphi _ Hgb [Hgc Hc0]].
    assert (HN0 : 0 < pk_N pk) by lia.
    unfold update_signature in H. rewrite Hext in H. cbn [bind] in H.
    destruct (invert (bs_e b) (phi sk)) as [e2n|] eqn:Einv; cbn [unwrap bind] in H; [|discriminate].
    rewrite pow_mod_nonneg in H by lia. cbn [bind] in H.
    destruct (pow_mod (c_value ext * (pk_b pk ^ bs_rprime b mod pk_N pk) * pk_c pk) e2n (pk_N pk)) as [v| | |] eqn:Hv; cbn [bind] in H; try discriminate.
    inversion H; subst b'; clear H. cbn [bs_e bs_rprime]. split; [reflexivity|]. split; [reflexivity|].
    assert (Hmn : Forall (fun m => 0 <= m) msgs).
    { apply Forall_forall. intros m Hin. apply (msg_in_range_nonneg CS). rewrite forallb_forall in Hm. apply Hm; exact Hin. }
    set (e := bs_e b) in *. set (r' := bs_rprime b) in *.
    set (X := c_value ext * (pk_b pk ^ r' mod pk_N pk) * pk_c pk) in *.
    assert (HX0 : 0 <= X) by (unfold X; repeat apply Z.mul_nonneg_nonneg; try lia; apply Z.mod_pos_bound; lia).
    assert (Hextg : Z.gcd (c_value ext) (pk_N pk) = 1).
    { rewrite Z.gcd_comm. rewrite <- Z.gcd_mod by lia. rewrite HextC. apply gcd1_mod; [lia|].
      apply gcd1_mul; [apply PP_gcd1; assumption|apply gcd1_pow; assumption]. }
    assert (HXg : Z.gcd X (pk_N pk) = 1).
    { unfold X. repeat apply gcd1_mul; try assumption. apply gcd1_mod; [lia|]. apply gcd1_pow; assumption. }
    assert (Hepos : 0 < e) by (unfold two in He; pose proof (Z.pow_nonneg 2 (le CS - 1)); lia).
    destruct (root_verifies pk sk X e e2n v G HX0 HXg Hepos Einv Hv) as [Hvr Hlhs].
    unfold verify_multiattr, unblind_sign. cbn [s_e s_s s_v bs_e bs_rprime bs_v].
    destruct (Nat.ltb_spec (length bases) (length msgs)); [lia|].
    rewrite Hm. cbn [negb].
    destruct (Z.leb_spec v 0); [lia|]. destruct (Z.leb_spec (pk_N pk) v); [lia|]. cbn [orb].
    rewrite Hlhs. cbn [bind].
    destruct (prod_pows_total (pk_N pk) HN0 bases msgs 1 Hmn Hlen) as [r0 Hr0]. rewrite Hr0. cbn [bind].
    rewrite pow_mod_nonneg by lia. cbn [bind].
    destruct (Z.leb_spec e (two (le CS - 1))); [lia|]. destruct (Z.leb_spec (two (le CS)) e); [lia|]. cbn [orb].
    apply (prod_pows_PP (pk_N pk) HN0) in Hr0 as [Hr00 Hr0e]; [|assumption|lia].
    f_equal. apply Z.eqb_eq.
    rewrite rem_mod_nonneg by first [lia | repeat apply Z.mul_nonneg_nonneg; try lia; apply Z.mod_pos_bound; lia].
    change (eqm (pk_N pk) X (r0 * (pk_b pk ^ (c_rand C + r') mod pk_N pk) * pk_c pk)).
    unfold X. apply (eqm_mul _ HN0); [|apply eqm_refl].
    eapply eqm_trans; [apply (eqm_mul _ HN0); [exact HextC|apply Zmod_eqm]|].
    apply eqm_sym. eapply eqm_trans; [apply (eqm_mul _ HN0); [exact Hr0e|apply Zmod_eqm]|].
    apply eqm_eq. rewrite Z.pow_add_r by assumption. ring.
  Qed.

  (* one signature accepted on two attribute vectors: the two products of powers are congruent (for vectors differing in
     one position j: a_j^(m_j) = a_j^(m'_j) mod N, a multiple of the order of a_j is known) *)
  Theorem verify_two_vectors_reduces sg pk bases msgs msgs' :
    0 < pk_N pk -> Z.gcd (pk_b pk) (pk_N pk) = 1 -> Z.gcd (pk_c pk) (pk_N pk) = 1 -> 0 <= pk_c pk -> 0 <= s_s sg ->
    verify_multiattr CS sg pk bases msgs = Ok true ->
    verify_multiattr CS sg pk bases msgs' = Ok true ->
    eqm (pk_N pk) (PP bases msgs) (PP bases msgs').
  Proof.
    intros HN Hgb Hgc Hc0 Hs V1 V2.
    destruct (verify_multiattr_accepts CS sg pk bases msgs V1) as [_ [_ [Hm1 [lhs [r0 [bs [Hl1 [Hr0 [Hbs Heq]]]]]]]]].
    destruct (verify_multiattr_accepts CS sg pk bases msgs' V2) as [_ [_ [Hm2 [lhs' [r0' [bs' [Hl2 [Hr0' [Hbs' Heq']]]]]]]]].
    rewrite Hl1 in Hl2. injection Hl2 as Hll. rewrite <- Hll in Heq'. rewrite Hbs in Hbs'. injection Hbs' as Hbb. rewrite <- Hbb in Heq'. clear Hll Hbb.
    assert (Hn1 : Forall (fun m => 0 <= m) msgs).
    { apply Forall_forall. intros m Hin. apply (msg_in_range_nonneg CS). rewrite forallb_forall in Hm1. apply Hm1; exact Hin. }
    assert (Hn2 : Forall (fun m => 0 <= m) msgs').
    { apply Forall_forall. intros m Hin. apply (msg_in_range_nonneg CS). rewrite forallb_forall in Hm2. apply Hm2; exact Hin. }
    apply (prod_pows_PP (pk_N pk) HN) in Hr0 as [Hr00 Hr0e]; [|assumption|lia].
    apply (prod_pows_PP (pk_N pk) HN) in Hr0' as [Hr00' Hr0e']; [|assumption|lia].
    pose proof (pow_mod_range _ _ _ _ Hbs) as Hbsr.
    rewrite Heq in Heq'. rewrite !rem_mod_nonneg in Heq' by first [lia | repeat apply Z.mul_nonneg_nonneg; lia].
    (* cancel the unit bs * c *)
    rewrite pow_mod_nonneg in Hbs by assumption. inversion Hbs; subst bs; clear Hbs.
    set (u := (pk_b pk ^ s_s sg mod pk_N pk) * pk_c pk).
    assert (Hug : Z.gcd u (pk_N pk) = 1).
    { unfold u. apply gcd1_mul; [apply gcd1_mod; [lia|apply gcd1_pow; assumption]|assumption]. }
    assert (Huu : unit (pk_N pk) u).
    { destruct (Z.eq_dec (pk_N pk) 1) as [E1|N1]; [exists 0; unfold eqm; rewrite E1, !Z.mod_1_r; reflexivity|].
      apply Zgcd_1_rel_prime in Hug. destruct (rel_prime_bezout _ _ Hug) as [x y Hxy]. exists x. unfold eqm.
      replace (u * x) with (1 + (- y) * pk_N pk) by lia. rewrite Z.mod_add by lia. reflexivity. }
    destruct Huu as [ui Hui].
    apply (unit_cancel (pk_N pk) HN _ _ u ui Hui).
    eapply eqm_trans; [apply (eqm_mul _ HN); [apply eqm_sym; eapply eqm_trans; [exact Hr0e|apply eqm_eq; ring]|apply eqm_refl]|].
    apply eqm_sym. eapply eqm_trans; [apply (eqm_mul _ HN); [apply eqm_sym; eapply eqm_trans; [exact Hr0e'|apply eqm_eq; ring]|apply eqm_refl]|].
    unfold u. unfold eqm. replace (r0' * (pk_b pk ^ s_s sg mod pk_N pk * pk_c pk)) with (r0' * (pk_b pk ^ s_s sg mod pk_N pk) * pk_c pk) by ring.
    replace (r0 * (pk_b pk ^ s_s sg mod pk_N pk * pk_c pk)) with (r0 * (pk_b pk ^ s_s sg mod pk_N pk) * pk_c pk) by ring.
    symmetry. exact Heq'.
  Qed.
End U.
