(* C13: CL03 signatures -- issued ones verify; the shifted-attribute forgery (F7) and the non-canonical v (F14)
   are rejected; what the pinned tree accepted is kept as a machine-checked finding. *)
From ZK Require Import Cl ClArith.
From Coq Require Import ZArith Lia Znumtheory Zpow_facts.
Open Scope Z_scope.

(* ---------------------------------------------------------------- monad plumbing *)
Lemma mbind_ok {A B} (x : M A) (f : A -> M B) ds b ds' :
  mbind x f ds = Ok (b, ds') -> exists a ds1, x ds = Ok (a, ds1) /\ f a ds1 = Ok (b, ds').
Proof. unfold mbind. destruct (x ds) as [[a ds1]| | |]; try discriminate. eauto. Qed.

Lemma lift_ok {A} (x : outcome A) ds a ds' : lift x ds = Ok (a, ds') -> x = Ok a /\ ds' = ds.
Proof. unfold lift. destruct x; try discriminate. intros H; inversion H; auto. Qed.

Lemma mret_ok {A} (a : A) ds b ds' : mret a ds = Ok (b, ds') -> b = a /\ ds' = ds.
Proof. unfold mret. intros H; inversion H; auto. Qed.

(* a rejection loop returns a value its body accepted *)
Lemma loop_fuel_exit {A} (body : M (option A)) fuel ds a ds' :
  loop_fuel fuel body ds = Ok (a, ds') -> exists ds1, body ds1 = Ok (Some a, ds').
Proof.
  revert ds. induction fuel as [|f IH]; intros ds H; cbn in H; [discriminate|].
  apply mbind_ok in H as [r [ds1 [Hb Hr]]]. destruct r as [a'|].
  - apply mret_ok in Hr as [-> ->]. eauto.
  - eapply IH. exact Hr.
Qed.
Lemma loop_until_exit {A} (body : M (option A)) ds a ds' :
  loop_until body ds = Ok (a, ds') -> exists ds1, body ds1 = Ok (Some a, ds').
Proof. unfold loop_until. apply loop_fuel_exit. Qed.

(* ---------------------------------------------------------------- modular inverse *)
Lemma egcd_fuel_inv m a fuel : forall r0 r1 s0 s1 g x,
  (m | r0 - s0 * a) -> (m | r1 - s1 * a) -> egcd_fuel fuel r0 r1 s0 s1 = (g, x) -> (m | g - x * a).
Proof.
  induction fuel as [|f IH]; intros r0 r1 s0 s1 g x H0 H1 He; cbn in He.
  - inversion He; subst; assumption.
  - destruct (r1 =? 0); [inversion He; subst; assumption|].
    eapply IH; [exact H1| |exact He].
    replace (r0 - r0 / r1 * r1 - (s0 - r0 / r1 * s1) * a) with ((r0 - s0 * a) - (r0 / r1) * (r1 - s1 * a)) by ring.
    apply Z.divide_sub_r; [assumption|]. apply Z.divide_mul_r. assumption.
Qed.

Lemma invert_spec a m x : invert a m = Some x -> 0 < m /\ 0 <= x < m /\ (a * x) mod m = 1 mod m.
Proof.
  unfold invert. destruct (Z.leb_spec m 0); [discriminate|].
  destruct (egcd_fuel _ (a mod m) m 1 0) as [g y] eqn:Eg.
  assert (Hd : (m | g - y * (a mod m))).
  { eapply egcd_fuel_inv; [| |exact Eg].
    - replace (a mod m - 1 * (a mod m)) with 0 by ring. apply Z.divide_0_r.
    - replace (m - 0 * (a mod m)) with m by ring. apply Z.divide_refl. }
  destruct (g =? 1) eqn:E1.
  - apply Z.eqb_eq in E1. subst g. intros Hs; inversion Hs; subst; clear Hs.
    split; [assumption|]. split; [apply Z.mod_pos_bound; lia|].
    rewrite Z.mul_mod_idemp_r by lia. rewrite <- Z.mul_mod_idemp_l by lia.
    destruct Hd as [k Hk].
    replace ((a mod m) * y) with (1 + (- k) * m) by lia.
    rewrite Z.mod_add by lia. reflexivity.
  - destruct (m =? 1) eqn:Em; [|discriminate]. apply Z.eqb_eq in Em. subst m.
    intros Hs; inversion Hs; subst. split; [lia|]. split; [lia|]. rewrite !Z.mod_1_r. reflexivity.
Qed.

(* ---------------------------------------------------------------- coprimality along products of powers *)
Lemma gcd1_mod x n : 0 < n -> Z.gcd x n = 1 -> Z.gcd (x mod n) n = 1.
Proof. intros Hn H. rewrite Z.gcd_mod by lia. rewrite Z.gcd_comm. exact H. Qed.

Lemma gcd1_mul x y n : Z.gcd x n = 1 -> Z.gcd y n = 1 -> Z.gcd (x * y) n = 1.
Proof.
  intros Hx Hy. apply Zgcd_1_rel_prime. apply rel_prime_sym. apply rel_prime_mult; apply rel_prime_sym; apply Zgcd_1_rel_prime; assumption.
Qed.

Lemma gcd1_pow x e n : 0 <= e -> Z.gcd x n = 1 -> Z.gcd (x ^ e) n = 1.
Proof.
  intros He Hx. apply Zgcd_1_rel_prime. apply rel_prime_sym. apply rel_prime_Zpower_r; [assumption|].
  apply rel_prime_sym. apply Zgcd_1_rel_prime. exact Hx.
Qed.

Lemma pow_mod_coprime b e n r : 0 <= e -> Z.gcd b n = 1 -> pow_mod b e n = Ok r -> Z.gcd r n = 1.
Proof.
  intros He Hb H. unfold pow_mod in H. destruct (Z.leb_spec n 0); [discriminate|].
  destruct (Z.leb_spec 0 e); [|lia]. inversion H; subst. rewrite pow_nonneg_mod_spec by lia.
  apply gcd1_mod; [lia|]. apply gcd1_pow; assumption.
Qed.

Lemma sig_bits_le_lt x k : 0 <= x -> 0 <= k -> sig_bits x <= k -> x < 2 ^ k.
Proof.
  unfold sig_bits. intros Hx Hk. destruct (Z.eqb_spec x 0) as [->|Hn]; intros H.
  - apply Z.pow_pos_nonneg; lia.
  - rewrite Z.abs_eq in H by lia. apply Z.log2_lt_pow2; lia.
Qed.

Section Sig.
  Context (CS : clsuite).

  (* well-formed key: Euler's theorem for the modulus is a PREMISE (true for N = p q with phi = (p-1)(q-1);
     primality of generated p, q is GMP's and is not proved) *)
  Record good_key (pk : pubkey) (sk : seckey) : Prop := {
    gk_N : 1 < pk_N pk;
    gk_phi : 1 < phi sk;
    gk_euler : forall x, Z.gcd x (pk_N pk) = 1 -> x ^ phi sk mod pk_N pk = 1;
    gk_b : Z.gcd (pk_b pk) (pk_N pk) = 1;
    gk_c : Z.gcd (pk_c pk) (pk_N pk) = 1 /\ 0 <= pk_c pk
  }.

  Lemma prod_pows_spec bases msgs n acc r :
    0 < n -> 0 <= acc -> Z.gcd acc n = 1 ->
    Forall (fun a => Z.gcd a n = 1) bases -> Forall (fun m => 0 <= m) msgs ->
    prod_pows bases msgs n acc = Ok r -> 0 <= r /\ Z.gcd r n = 1.
  Proof.
    intros Hn. revert bases acc. induction msgs as [|m ms IH]; intros bases acc Ha Hg Hb Hm H; cbn in H.
    - inversion H; subst; auto.
    - destruct bases as [|a bs]; [discriminate|].
      destruct (pow_mod a m n) as [x| | |] eqn:Ex; cbn [bind] in H; try discriminate.
      inversion Hb; inversion Hm; subst.
      pose proof (pow_mod_range _ _ _ _ Ex) as Hr.
      eapply IH; [| | | |exact H]; try assumption.
      + apply Z.mul_nonneg_nonneg; lia.
      + apply gcd1_mul; [assumption|]. eapply pow_mod_coprime; [|eassumption|exact Ex]. assumption.
  Qed.

  (* x^(1 + k*phi) = x (mod N) for x coprime to N *)
  Lemma euler_pow pk sk x k : good_key pk sk -> Z.gcd x (pk_N pk) = 1 -> 0 <= k ->
    x ^ (1 + k * phi sk) mod pk_N pk = x mod pk_N pk.
  Proof.
    intros G Hx Hk. destruct G as [HN Hphi He _ _].
    rewrite Z.pow_add_r by nia. rewrite Z.pow_1_r.
    rewrite Z.mul_comm with (n := k). rewrite Z.pow_mul_r by lia.
    rewrite Z.mul_mod by lia. rewrite (Zpower_mod (x ^ phi sk)) by lia. rewrite He by assumption.
    rewrite Z.pow_1_l by lia. rewrite (Z.mod_small 1) by lia. rewrite Z.mul_1_r. rewrite Z.mod_mod by lia. reflexivity.
  Qed.

  Lemma msg_in_range_nonneg m : msg_in_range CS m = true -> 0 <= m.
  Proof. unfold msg_in_range. intros H. apply andb_true_iff in H as [H _]. apply Z.leb_le; exact H. Qed.

  Lemma e_loop_exit ph ds e ds' : e_loop CS ph ds = Ok (e, ds') ->
    two (le CS - 1) < e /\ e < two (le CS) /\ Z.gcd e ph = 1.
  Proof.
    intros H. apply loop_until_exit in H as [ds1 H].
    apply mbind_ok in H as [e0 [ds2 [_ H]]]. apply mret_ok in H as [H _].
    destruct ((two (le CS - 1) <? e0) && (e0 <? two (le CS)) && (Z.gcd e0 ph =? 1)) eqn:Ec; [|discriminate].
    inversion H; subst. apply andb_true_iff in Ec as [Ec E3]. apply andb_true_iff in Ec as [E1 E2].
    repeat split; [apply Z.ltb_lt|apply Z.ltb_lt|apply Z.eqb_eq]; assumption.
  Qed.

  (* the core equation: whoever computes v = X^(1/e) for the X the verifier recomputes passes the check *)
  Lemma root_verifies pk sk X e e2n v :
    good_key pk sk -> 0 <= X -> Z.gcd X (pk_N pk) = 1 -> 0 < e ->
    invert e (phi sk) = Some e2n -> pow_mod X e2n (pk_N pk) = Ok v ->
    0 < v < pk_N pk /\ pow_mod v e (pk_N pk) = Ok (X mod pk_N pk).
  Proof.
    intros G HX Hg He Hi Hv. pose proof G as [HN Hphi _ _ _].
    apply invert_spec in Hi as [_ [Hr Hinv]].
    rewrite pow_mod_nonneg in Hv by lia. inversion Hv; subst v; clear Hv.
    assert (Hgv : Z.gcd (X ^ e2n mod pk_N pk) (pk_N pk) = 1) by (apply gcd1_mod; [lia|]; apply gcd1_pow; [lia|assumption]).
    split.
    - pose proof (Z.mod_pos_bound (X ^ e2n) (pk_N pk)) as Hb.
      assert (X ^ e2n mod pk_N pk <> 0); [|lia].
      intros C. rewrite C in Hgv. rewrite Z.gcd_0_l in Hgv. lia.
    - rewrite pow_mod_nonneg by lia. f_equal.
      rewrite pow_mod_pow by lia.
      (* e2n * e = 1 + k * phi *)
      rewrite (Z.mod_small 1) in Hinv by lia.
      assert (Hk : exists k, 0 <= k /\ e2n * e = 1 + k * phi sk).
      { exists ((e * e2n) / phi sk). split; [apply Z.div_pos; nia|].
        pose proof (Z.div_mod (e * e2n) (phi sk)) as Hd. rewrite Hinv in Hd. lia. }
      destruct Hk as [k [Hk0 Hk]]. rewrite Hk. apply euler_pow; assumption.
  Qed.

  (* ---- completeness: every signature sign_multiattr returns verifies (any number of attributes, any draws) *)
  Theorem cl_sign_verify_complete pk sk bases msgs ds sg ds' :
    good_key pk sk ->
    Forall (fun a => Z.gcd a (pk_N pk) = 1) bases ->
    forallb (msg_in_range CS) msgs = true ->
    sign_multiattr CS pk sk bases msgs ds = Ok (sg, ds') ->
    verify_multiattr CS sg pk bases msgs = Ok true.
  Proof.
    intros G Hb Hm Hs. pose proof G as [HN Hphi _ Hgb [Hgc Hc0]].
    unfold sign_multiattr in Hs.
    apply mbind_ok in Hs as [e [d1 [He Hs]]]. apply e_loop_exit in He as [He1 [He2 He3]].
    apply mbind_ok in Hs as [s [d2 [_ Hs]]].
    apply mbind_ok in Hs as [e2n [d3 [Hi Hs]]]. apply lift_ok in Hi as [Hi _].
    apply mbind_ok in Hs as [v0 [d4 [Hv0 Hs]]]. apply lift_ok in Hv0 as [Hv0 _].
    apply mbind_ok in Hs as [bs [d5 [Hbs Hs]]]. apply lift_ok in Hbs as [Hbs _].
    apply mbind_ok in Hs as [v [d6 [Hv Hs]]]. apply lift_ok in Hv as [Hv _].
    apply mret_ok in Hs as [-> _].
    destruct (invert e (phi sk)) as [x|] eqn:Einv; cbn [unwrap] in Hi; [|discriminate]. inversion Hi; subst x; clear Hi.
    assert (Hmn : Forall (fun m => 0 <= m) msgs).
    { apply Forall_forall. intros m Hin. apply msg_in_range_nonneg. rewrite forallb_forall in Hm. apply Hm; exact Hin. }
    assert (Hlen : (length msgs <= length bases)%nat).
    { clear -Hv0. revert bases v0 Hv0. generalize 1 as acc. induction msgs as [|m ms IH]; intros acc bases v0 H; cbn in *; [lia|].
      destruct bases as [|a bs]; [discriminate|]. destruct (pow_mod a m (pk_N pk)); cbn [bind] in H; try discriminate.
      apply IH in H. cbn. lia. }
    assert (H01 : 0 < pk_N pk) by lia. assert (H1n : 0 <= 1) by lia.
    destruct (prod_pows_spec bases msgs (pk_N pk) 1 v0 H01 H1n (Z.gcd_1_l _) Hb Hmn Hv0) as [Hv0n Hv0g].
    pose proof (pow_mod_range _ _ _ _ Hbs) as Hbsr.
    assert (Hbsg : Z.gcd bs (pk_N pk) = 1).
    { unfold pow_mod in Hbs. destruct (Z.leb_spec (pk_N pk) 0); [discriminate|].
      destruct (Z.leb_spec 0 s).
      - inversion Hbs; subst. rewrite pow_nonneg_mod_spec by lia. apply gcd1_mod; [lia|]. apply gcd1_pow; assumption.
      - destruct (invert (pk_b pk) (pk_N pk)) as [bi|] eqn:Ebi; [|discriminate]. inversion Hbs; subst.
        rewrite pow_nonneg_mod_spec by lia. apply gcd1_mod; [lia|]. apply gcd1_pow; [lia|].
        apply invert_spec in Ebi as [_ [_ Hbi]]. rewrite (Z.mod_small 1) in Hbi by lia.
        apply Zgcd_1_rel_prime. apply rel_prime_sym. apply bezout_rel_prime.
        apply Bezout_intro with (u := - ((pk_b pk * bi) / pk_N pk)) (v := pk_b pk).
        pose proof (Z.div_mod (pk_b pk * bi) (pk_N pk)). lia. }
    set (X := v0 * bs * pk_c pk) in *.
    assert (HX0 : 0 <= X) by (unfold X; repeat apply Z.mul_nonneg_nonneg; lia).
    assert (HXg : Z.gcd X (pk_N pk) = 1) by (unfold X; repeat apply gcd1_mul; assumption).
    assert (Hepos : 0 < e).
    { unfold two in He1. pose proof (Z.pow_nonneg 2 (le CS - 1)). lia. }
    destruct (root_verifies pk sk X e e2n v G HX0 HXg Hepos Einv Hv) as [Hvr Hlhs].
    unfold verify_multiattr. cbn [s_e s_s s_v].
    destruct (Nat.ltb_spec (length bases) (length msgs)); [lia|].
    rewrite Hm. cbn [negb].
    destruct (Z.leb_spec v 0); [lia|]. destruct (Z.leb_spec (pk_N pk) v); [lia|]. cbn [orb].
    rewrite Hlhs. cbn [bind]. rewrite Hv0. cbn [bind]. rewrite Hbs. cbn [bind].
    destruct (Z.leb_spec e (two (le CS - 1))); [lia|]. destruct (Z.leb_spec (two (le CS)) e); [lia|]. cbn [orb].
    fold X. rewrite rem_mod_nonneg by lia. rewrite Z.eqb_refl. reflexivity.
  Qed.

  (* ---- F7: an attribute shifted by a non-zero multiple of e is outside [0, 2^lm) and is refused, whatever v *)
  Theorem shift_forgery_rejected sg pk bases msgs i k :
    two (le CS - 1) < s_e sg -> lm CS + 1 <= le CS - 1 -> 0 <= lm CS ->
    (i < length msgs)%nat -> msg_in_range CS (nth i msgs 0) = true -> k <> 0 ->
    forall msgs', length msgs' = length msgs -> nth i msgs' 0 = nth i msgs 0 + k * s_e sg ->
    (length msgs' <= length bases)%nat ->
    verify_multiattr CS sg pk bases msgs' = Ok false.
  Proof.
    intros He Hl Hlm Hi Hr Hk msgs' Hlen Hnth Hb.
    unfold verify_multiattr. destruct (Nat.ltb_spec (length bases) (length msgs')); [lia|].
    assert (Hbad : forallb (msg_in_range CS) msgs' = false).
    { destruct (forallb (msg_in_range CS) msgs') eqn:Ef; [|reflexivity]. exfalso.
      rewrite forallb_forall in Ef. assert (Hi' : (i < length msgs')%nat) by lia. specialize (Ef (nth i msgs' 0) (nth_In msgs' 0 Hi')).
      rewrite Hnth in Ef. unfold msg_in_range in Ef, Hr.
      apply andb_true_iff in Ef as [E0 E1]. apply andb_true_iff in Hr as [R0 R1].
      apply Z.leb_le in E0, R0, E1, R1.
      set (m := nth i msgs 0) in *. set (e := s_e sg) in *.
      assert (Hm : m < 2 ^ lm CS) by (apply sig_bits_le_lt; assumption).
      assert (Hm' : m + k * e < 2 ^ lm CS) by (apply sig_bits_le_lt; assumption).
      assert (He' : 2 ^ (lm CS + 1) <= e).
      { unfold two in He. assert (2 ^ (lm CS + 1) <= 2 ^ (le CS - 1)) by (apply Z.pow_le_mono_r; lia). lia. }
      rewrite Z.pow_add_r, Z.pow_1_r in He' by lia.
      assert (0 < 2 ^ lm CS) by (apply Z.pow_pos_nonneg; lia).
      destruct (Z.lt_trichotomy k 0) as [Hk0|[Hk0|Hk0]]; [|contradiction|]; nia. }
    rewrite Hbad. reflexivity.
  Qed.

  (* ---- F14: v is accepted only as a canonical residue *)
  Theorem noncanonical_v_rejected sg pk bases msgs :
    (s_v sg <= 0 \/ pk_N pk <= s_v sg) -> (length msgs <= length bases)%nat ->
    verify_multiattr CS sg pk bases msgs = Ok false.
  Proof.
    intros Hv Hb. unfold verify_multiattr. destruct (Nat.ltb_spec (length bases) (length msgs)); [lia|].
    destruct (forallb (msg_in_range CS) msgs); [|reflexivity]. cbn [negb].
    destruct (Z.leb_spec (s_v sg) 0); [reflexivity|]. destruct (Z.leb_spec (pk_N pk) (s_v sg)); [reflexivity|]. lia.
  Qed.

  (* ---- an accepted signature has an exponent of the configured length and satisfies the verification equation *)
  Theorem verify_multiattr_accepts sg pk bases msgs :
    verify_multiattr CS sg pk bases msgs = Ok true ->
    two (le CS - 1) < s_e sg < two (le CS) /\ 0 < s_v sg < pk_N pk /\ forallb (msg_in_range CS) msgs = true /\
    exists lhs r0 bs, pow_mod (s_v sg) (s_e sg) (pk_N pk) = Ok lhs /\ prod_pows bases msgs (pk_N pk) 1 = Ok r0 /\
      pow_mod (pk_b pk) (s_s sg) (pk_N pk) = Ok bs /\ lhs = Z.rem (r0 * bs * pk_c pk) (pk_N pk).
  Proof.
    unfold verify_multiattr. destruct (Nat.ltb _ _); [discriminate|].
    destruct (forallb (msg_in_range CS) msgs) eqn:Em; cbn [negb]; [|discriminate].
    destruct (Z.leb_spec (s_v sg) 0); cbn [orb]; [discriminate|].
    destruct (Z.leb_spec (pk_N pk) (s_v sg)); [discriminate|].
    destruct (pow_mod (s_v sg) (s_e sg) (pk_N pk)) as [lhs| | |]; cbn [bind]; try discriminate.
    destruct (prod_pows bases msgs (pk_N pk) 1) as [r0| | |]; cbn [bind]; try discriminate.
    destruct (pow_mod (pk_b pk) (s_s sg) (pk_N pk)) as [bs| | |]; cbn [bind]; try discriminate.
    destruct (Z.leb_spec (s_e sg) (two (le CS - 1))); [discriminate|]. destruct (Z.leb_spec (two (le CS)) (s_e sg)); [discriminate|]. cbn [orb].
    intros Hacc. inversion Hacc as [Heq]. apply Z.eqb_eq in Heq.
    repeat split; try lia. exists lhs, r0, bs. auto.
  Qed.

End Sig.

(* ---------------------------------------------------------------- the pinned tree (finding F7, machine-checked) *)
(* verify_multiattr as it was before commits c3225ee / 222458b: no attribute range check, no range check on v *)
Definition verify_multiattr_old (CS : clsuite) (sg : clsig) (pk : pubkey) (bases msgs : list Z) : outcome bool :=
  if Nat.ltb (length bases) (length msgs) then Panic else
  let* lhs := pow_mod (s_v sg) (s_e sg) (pk_N pk) in
  let* r0 := prod_pows bases msgs (pk_N pk) 1 in
  let* bs := pow_mod (pk_b pk) (s_s sg) (pk_N pk) in
  let rhs := Z.rem (r0 * bs * pk_c pk) (pk_N pk) in
  if s_e sg <=? two (le CS - 1) then Ok false else
  Ok (lhs =? rhs).

(* a concrete instance: N = 77, one attribute; (e, s, v*a) verifies for m + e without the secret key *)
Definition f7_suite : clsuite := {| SECPARAM := 3; QSEC := 1; ln := 7; lm := 2; lin := 2; le := 4; ls := 4 |}.
Theorem shift_forgery_accepted_old : exists pk bases m sg,
  verify_multiattr_old f7_suite sg pk bases [m] = Ok true /\
  verify_multiattr_old f7_suite {| s_e := s_e sg; s_s := s_s sg; s_v := (s_v sg * nth 0 bases 0) mod pk_N pk |} pk bases [m + s_e sg] = Ok true /\
  verify_multiattr f7_suite {| s_e := s_e sg; s_s := s_s sg; s_v := (s_v sg * nth 0 bases 0) mod pk_N pk |} pk bases [m + s_e sg] = Ok false.
Proof.
  (* N = 7 * 11, phi = 60, e = 13 (4 bits, > 8, coprime to 60), 13^-1 mod 60 = 37; a = 4, b = 9, c = 16, m = 3, s = 5 *)
  exists {| pk_N := 77; pk_b := 9; pk_c := 16 |}, [4], 3.
  exists {| s_e := 13; s_s := 5; s_v := pow_nonneg_mod ((4 ^ 3 mod 77) * (9 ^ 5 mod 77) * 16) 37 77 |}.
  vm_compute. repeat split; reflexivity.
Qed.
