(* C14 / C15 (soundness core of the sigma protocols of sigma_protocols.rs, for every modulus, invertible bases and responses of
   either sign):
   - nisp2sec (opening of a one-attribute commitment: the per-attribute proofs of a presentation, the proof about r of an
     issuance request), nispm (opening of the issuance commitment over the hidden attributes) and nisp2 (the same hidden
     attributes under the issuer's bases and under the commitment key) -- what the verifier's equation says (.._accepts),
     SPECIAL SOUNDNESS (two challenge / response tuples for the same first message give  prod a_i^(ds_i) * h^(dr) == C^(dc);
     for nisp2 the SAME exponents ds_i under both families of bases), and RIGIDITY (two accepted proofs with the same first
     message: the responses differ by a relation between the bases).
   Not formalised: rewinding, and the strong-RSA step dividing by dc. *)
From ZK Require Import Cl ClArith ClSig ClMore ClGroup ClBoudot ClSound.
From Coq Require Import ZArith Lia Zdiv Setoid Morphisms List Bool.
Import ListNotations.
Open Scope Z_scope.

Lemma rem_eqm a n : 0 < n -> eqm n (Z.rem a n) a.
Proof.
  intros Hn. unfold eqm. pose proof (Z.quot_rem' a n) as H.
  replace a with (Z.rem a n + (a ÷ n) * n) at 2 by lia. rewrite Z_mod_plus_full. reflexivity.
Qed.

Section V.
  Variable n : Z.
  Hypothesis Hn : 0 < n.
  Local Infix "==" := (cgs n) (at level 70).
  Local Instance cgs_equiv' : Equivalence (cgs n) := cgs_equiv n.
  Local Instance cgs_mul' : Proper (cgs n ==> cgs n ==> cgs n) Z.mul := cgs_mul n Hn.

  (* ---------------------------------------------------------------- products of powers of invertible bases *)
  Definition units (sel : list (Z * Z)) : Prop := Forall (fun p => invert (fst p) n = Some (snd p)) sel.

  Fixpoint gprod (sel : list (Z * Z)) (xs : list Z) : Z :=
    match sel, xs with
    | (a, ai) :: s, x :: r => gp n a ai x * gprod s r
    | _, _ => 1
    end.

  Definition vsub (xs ys : list Z) : list Z := map (fun p => fst p - snd p) (combine xs ys).

  Lemma gprod_nonneg sel xs : 0 <= gprod sel xs.
  Proof.
    revert xs; induction sel as [|[a ai] s IH]; intros xs; cbn [gprod]; [lia|]. destruct xs as [|x r]; [lia|].
    pose proof (gp_range n Hn a ai x). specialize (IH r). nia.
  Qed.

  Lemma prod_sel_gp bases : forall U sel exps acc,
    mapM (nthZ bases) U = Ok (map fst sel) -> units sel -> length exps = length U ->
    prod_sel bases exps n U acc = Ok (acc * gprod sel exps).
  Proof.
    induction U as [|i U IH]; intros sel exps acc Hm Hu Hl.
    - destruct exps; [|discriminate]. cbn in Hm. destruct sel; [|discriminate]. cbn. f_equal. ring.
    - destruct exps as [|x xs]; [discriminate|]. cbn [mapM] in Hm.
      destruct (nthZ bases i) as [a| | |] eqn:Ea; try discriminate. cbn [bind] in Hm.
      destruct (mapM (nthZ bases) U) as [as_| | |] eqn:Em; try discriminate. cbn [bind] in Hm.
      destruct sel as [|[a' ai] sel]; [discriminate|]. cbn [map fst] in Hm. inversion Hm; subst a' as_.
      inversion Hu as [|? ? Hi Hu']; subst. cbn [fst snd] in Hi.
      cbn [prod_sel]. rewrite Ea. cbn [bind]. rewrite (pow_mod_gp n Hn a ai x Hi). cbn [bind].
      rewrite (IH sel xs (acc * gp n a ai x) eq_refl Hu' ltac:(cbn in Hl; lia)). cbn [gprod]. f_equal. ring.
  Qed.

  Lemma gprod_split sel : units sel -> forall xs ys, length xs = length sel -> length ys = length sel ->
    gprod sel xs == gprod sel (vsub xs ys) * gprod sel ys.
  Proof.
    induction 1 as [|[a ai] s Hi Hu IH]; intros xs ys Hx Hy.
    - cbn. reflexivity.
    - destruct xs as [|x xs]; [discriminate|]. destruct ys as [|y ys]; [discriminate|]. cbn [fst snd] in Hi.
      unfold vsub. cbn [combine map gprod fst snd]. fold (vsub xs ys).
      pose proof (invert_eqm n a ai Hi) as Hau.
      assert (E1 : gp n a ai x == gp n a ai (x - y) * gp n a ai y).
      { replace x with ((x - y) + y) at 1 by ring. apply (gp_add n Hn a ai Hau). }
      rewrite E1, (IH xs ys ltac:(cbn in Hx; lia) ltac:(cbn in Hy; lia)). apply cgs_eq; ring.
  Qed.

  Lemma gprod_unit sel : units sel -> forall ys, gprod sel ys * gprod sel (map Z.opp ys) == 1.
  Proof.
    induction 1 as [|[a ai] s Hi Hu IH]; intros ys.
    - cbn. reflexivity.
    - destruct ys as [|y ys]; [cbn; reflexivity|]. cbn [map gprod]. cbn [fst snd] in Hi.
      pose proof (gp_opp n Hn a ai (invert_eqm n a ai Hi) y) as H1. change (gp n a ai y * gp n a ai (- y) == 1) in H1.
      transitivity ((gp n a ai y * gp n a ai (- y)) * (gprod s ys * gprod s (map Z.opp ys))); [apply cgs_eq; ring|].
      rewrite H1, (IH ys). reflexivity.
  Qed.

  (* ---------------------------------------------------------------- one verification equation, vector form *)
  Section VSide.
    Variable sel : list (Z * Z).
    Variables h hi C Ci : Z.
    Hypothesis Hsel : units sel.
    Hypothesis Hh : invert h n = Some hi.
    Hypothesis HC : invert C n = Some Ci.
    Let H := gp n h hi.
    Let X := gp n C Ci.
    Let Hhu : h * hi == 1 := invert_eqm n h hi Hh.
    Let HCu : C * Ci == 1 := invert_eqm n C Ci HC.

    (* the first message recomputed from a challenge and the responses *)
    Definition vW (d : list Z) (d1 c : Z) : Z := (gprod sel d * H d1 * X (- c)) mod n.

    Lemma vside_unit d' d1' c : (gprod sel d' * H d1' * X (- c)) * (gprod sel (map Z.opp d') * H (- d1') * X c) == 1.
    Proof.
      pose proof (gprod_unit sel Hsel d') as H1. pose proof (gp_opp n Hn h hi Hhu d1') as H2.
      pose proof (gp_opp n Hn C Ci HCu c) as H3.
      change (H d1' * H (- d1') == 1) in H2. change (X c * X (- c) == 1) in H3.
      transitivity ((gprod sel d' * gprod sel (map Z.opp d')) * (H d1' * H (- d1')) * (X c * X (- c))); [apply cgs_eq; ring|].
      rewrite H1, H2, H3. reflexivity.
    Qed.

    Theorem vside_extract d d1 c d' d1' c' :
      length d = length sel -> length d' = length sel ->
      vW d d1 c = vW d' d1' c' -> gprod sel (vsub d d') * H (d1 - d1') == X (c - c').
    Proof.
      intros Hl Hl' Heq.
      assert (Hq : gprod sel d * H d1 * X (- c) == gprod sel d' * H d1' * X (- c')).
      { rewrite <- (cgs_mod n (gprod sel d * H d1 * X (- c))), <- (cgs_mod n (gprod sel d' * H d1' * X (- c'))).
        apply cgs_eq. exact Heq. }
      assert (E1 : H d1 == H (d1 - d1') * H d1').
      { replace d1 with ((d1 - d1') + d1') at 1 by ring. apply (gp_add n Hn h hi Hhu). }
      assert (E2 : X (- c') == X (c - c') * X (- c)).
      { replace (- c') with ((c - c') + - c) at 1 by ring. apply (gp_add n Hn C Ci HCu). }
      rewrite (gprod_split sel Hsel d d' Hl Hl'), E1, E2 in Hq.
      apply (cgs_cancel n Hn _ _ (gprod sel d' * H d1' * X (- c)) (gprod sel (map Z.opp d') * H (- d1') * X c) (vside_unit d' d1' c)).
      transitivity (gprod sel (vsub d d') * gprod sel d' * (H (d1 - d1') * H d1') * X (- c)); [apply cgs_eq; ring|].
      rewrite Hq. apply cgs_eq; ring.
    Qed.

    Corollary vside_same_challenge d d1 d' d1' c :
      length d = length sel -> length d' = length sel ->
      vW d d1 c = vW d' d1' c -> gprod sel (vsub d d') * H (d1 - d1') == 1.
    Proof.
      intros Hl Hl' Heq. rewrite (vside_extract _ _ _ _ _ _ Hl Hl' Heq). replace (c - c) with 0 by ring. apply (gp_0 n).
    Qed.

    (* the equation  lhs == t * C^c  of nisp2sec / nispm, in first-message form *)
    Lemma eq_to_vW d d1 c t : gprod sel d * H d1 == t * X c -> vW d d1 c = t mod n.
    Proof.
      intros He. unfold vW. change (gprod sel d * H d1 * X (- c) == t). rewrite He.
      pose proof (gp_opp n Hn C Ci HCu c) as H3. change (X c * X (- c) == 1) in H3.
      transitivity (t * (X c * X (- c))); [apply cgs_eq; ring|]. rewrite H3. apply cgs_eq; ring.
    Qed.
  End VSide.
End V.

(* ---------------------------------------------------------------- nisp2sec: C = g^m h^r *)
Section N2S.
  Variable n : Z.
  Hypothesis Hn : 0 < n.
  Variables g gi h hi : Z.
  Hypothesis Hg : invert g n = Some gi.
  Hypothesis Hh : invert h n = Some hi.
  Local Infix "==" := (cgs n) (at level 70).
  Local Instance cgs_equiv'' : Equivalence (cgs n) := cgs_equiv n.
  Local Instance cgs_mul'' : Proper (cgs n ==> cgs n ==> cgs n) Z.mul := cgs_mul n Hn.

  Definition ns_chal (p : nisps) (c : commitment) : Z := hash_int (str_cat [g; h; c_value c; ns_t p]).

  (* what acceptance says: the first message in the proof is the one recomputed from the responses *)
  Theorem nisp2sec_accepts p c Ci :
    invert (c_value c) n = Some Ci ->
    nisp2sec_verify p c g h n = Ok true ->
    ssW n g gi h hi (c_value c) Ci (ns_s1 p) (ns_s2 p) (ns_chal p c) = ns_t p mod n.
  Proof.
    intros HC Hv. unfold nisp2sec_verify in Hv.
    rewrite (pow_mod_gp n Hn g gi _ Hg), (pow_mod_gp n Hn h hi _ Hh) in Hv. cbn [bind] in Hv.
    fold (ns_chal p c) in Hv. rewrite (pow_mod_gp n Hn _ Ci _ HC) in Hv. cbn [bind] in Hv.
    inversion Hv as [Hb]. apply Z.eqb_eq in Hb.
    assert (He : gp n g gi (ns_s1 p) * gp n h hi (ns_s2 p) == ns_t p * gp n (c_value c) Ci (ns_chal p c)).
    { transitivity (Z.rem (gp n g gi (ns_s1 p) * gp n h hi (ns_s2 p)) n); [symmetry; apply (rem_eqm _ n Hn)|].
      rewrite Hb. apply (rem_eqm _ n Hn). }
    pose proof (eq_to_vW n Hn [(g, gi)] h hi (c_value c) Ci HC [ns_s1 p] (ns_s2 p) (ns_chal p c) (ns_t p)) as Hw.
    unfold vW in Hw. cbn [gprod] in Hw. unfold ssW. rewrite <- Hw.
    - f_equal. ring.
    - rewrite <- He. apply cgs_eq. ring.
  Qed.

  (* special soundness: the same first message answered for two challenges *)
  Theorem nisp2sec_special_soundness C Ci s1 s2 c s1' s2' c' :
    invert C n = Some Ci ->
    ssW n g gi h hi C Ci s1 s2 c = ssW n g gi h hi C Ci s1' s2' c' ->
    gp n g gi (s1 - s1') * gp n h hi (s2 - s2') == gp n C Ci (c - c').
  Proof. intros HC He. apply (side_extract n Hn g gi h hi C Ci Hg Hh HC _ _ _ _ _ _ He). Qed.

  (* rigidity: two accepted proofs for the same commitment with the same first message *)
  Theorem nisp2sec_rigid p p' c Ci :
    invert (c_value c) n = Some Ci ->
    nisp2sec_verify p c g h n = Ok true -> nisp2sec_verify p' c g h n = Ok true -> ns_t p = ns_t p' ->
    gp n g gi (ns_s1 p - ns_s1 p') * gp n h hi (ns_s2 p - ns_s2 p') == 1.
  Proof.
    intros HC Hv Hv' Ht.
    pose proof (nisp2sec_accepts p c Ci HC Hv) as H1. pose proof (nisp2sec_accepts p' c Ci HC Hv') as H2.
    assert (Hc : ns_chal p c = ns_chal p' c) by (unfold ns_chal; rewrite Ht; reflexivity).
    rewrite <- Hc, <- Ht, <- H1 in H2.
    apply (side_same_challenge n Hn g gi h hi (c_value c) Ci Hg Hh HC _ _ _ _ _ (eq_sym H2)).
  Qed.
End N2S.

(* ---------------------------------------------------------------- nispm: C = prod a_i^(m_i) b^r over the hidden positions *)
Section NM.
  Variable n : Z.
  Hypothesis Hn : 0 < n.
  Local Infix "==" := (cgs n) (at level 70).
  Local Instance cgs_equiv3 : Equivalence (cgs n) := cgs_equiv n.
  Local Instance cgs_mul3 : Proper (cgs n ==> cgs n ==> cgs n) Z.mul := cgs_mul n Hn.

  Definition nm_chal (sel : list (Z * Z)) (b : Z) (p : nispm) (c : commitment) : Z :=
    hash_int (str_cat (map fst sel ++ [b; c_value c; nm_t p])).

  Theorem nispm_accepts p c pk bases U sel bi Ci :
    pk_N pk = n ->
    mapM (nthZ bases) (option_default [0%N] U) = Ok (map fst sel) -> units n sel ->
    invert (pk_b pk) n = Some bi -> invert (c_value c) n = Some Ci ->
    nispm_verify p c pk bases U = Ok true ->
    length (nm_s1 p) = length sel /\
    vW n sel (pk_b pk) bi (c_value c) Ci (nm_s1 p) (nm_s2 p) (nm_chal sel (pk_b pk) p c) = nm_t p mod n.
  Proof.
    intros HN Hm Hu Hb HC Hv. unfold nispm_verify in Hv. rewrite HN in Hv.
    set (U' := option_default [0%N] U) in *.
    destruct (Nat.eqb_spec (length U') (length (nm_s1 p))) as [Hl|Hl]; cbn [negb] in Hv; [|discriminate].
    assert (Hls : length U' = length sel).
    { clear - Hm. revert sel Hm. generalize U' as V. induction V as [|i V IH]; intros sel Hm.
      - cbn in Hm. destruct sel; [reflexivity|discriminate].
      - cbn [mapM] in Hm. destruct (nthZ bases i); try discriminate. cbn [bind] in Hm.
        destruct (mapM (nthZ bases) V) eqn:E; try discriminate. cbn [bind] in Hm. destruct sel as [|q sel]; [discriminate|].
        cbn [map] in Hm. inversion Hm; subst. cbn. f_equal. apply IH. reflexivity. }
    rewrite (prod_sel_gp n Hn bases U' sel (nm_s1 p) 1 Hm Hu (eq_sym Hl)) in Hv. cbn [bind] in Hv.
    rewrite Z.mul_1_l in Hv. rewrite Hm in Hv. cbn [bind] in Hv.
    rewrite (pow_mod_gp n Hn _ bi _ Hb) in Hv. cbn [bind] in Hv.
    fold (nm_chal sel (pk_b pk) p c) in Hv. rewrite (pow_mod_gp n Hn _ Ci _ HC) in Hv. cbn [bind] in Hv.
    inversion Hv as [Hb']. apply Z.eqb_eq in Hb'.
    split; [lia|].
    apply (eq_to_vW n Hn sel (pk_b pk) bi (c_value c) Ci HC).
    transitivity (Z.rem (gprod n sel (nm_s1 p) * gp n (pk_b pk) bi (nm_s2 p)) n).
    - symmetry. apply (rem_eqm _ n Hn).
    - rewrite Hb'. apply (rem_eqm _ n Hn).
  Qed.

  (* special soundness: the same first message answered for two challenges *)
  Theorem nispm_special_soundness sel b bi C Ci s1 s2 c s1' s2' c' :
    units n sel -> invert b n = Some bi -> invert C n = Some Ci ->
    length s1 = length sel -> length s1' = length sel ->
    vW n sel b bi C Ci s1 s2 c = vW n sel b bi C Ci s1' s2' c' ->
    gprod n sel (vsub s1 s1') * gp n b bi (s2 - s2') == gp n C Ci (c - c').
  Proof. intros Hu Hb HC Hl Hl' He. apply (vside_extract n Hn sel b bi C Ci Hu Hb HC _ _ _ _ _ _ Hl Hl' He). Qed.

  (* rigidity: two accepted proofs for the same commitment with the same first message *)
  Theorem nispm_rigid p p' c pk bases U sel bi Ci :
    pk_N pk = n ->
    mapM (nthZ bases) (option_default [0%N] U) = Ok (map fst sel) -> units n sel ->
    invert (pk_b pk) n = Some bi -> invert (c_value c) n = Some Ci ->
    nispm_verify p c pk bases U = Ok true -> nispm_verify p' c pk bases U = Ok true -> nm_t p = nm_t p' ->
    gprod n sel (vsub (nm_s1 p) (nm_s1 p')) * gp n (pk_b pk) bi (nm_s2 p - nm_s2 p') == 1.
  Proof.
    intros HN Hm Hu Hb HC Hv Hv' Ht.
    destruct (nispm_accepts p c pk bases U sel bi Ci HN Hm Hu Hb HC Hv) as [Hl H1].
    destruct (nispm_accepts p' c pk bases U sel bi Ci HN Hm Hu Hb HC Hv') as [Hl' H2].
    assert (Hc : nm_chal sel (pk_b pk) p c = nm_chal sel (pk_b pk) p' c) by (unfold nm_chal; rewrite Ht; reflexivity).
    rewrite <- Hc, <- Ht, <- H1 in H2.
    apply (vside_same_challenge n Hn sel (pk_b pk) bi (c_value c) Ci Hu Hb HC _ _ _ _ _ Hl Hl' (eq_sym H2)).
  Qed.
End NM.

(* ---------------------------------------------------------------- nisp2: the same hidden attributes under two families of bases *)
Section N2.
  Variables n1 n2 : Z.
  Hypothesis Hn1 : 0 < n1.
  Hypothesis Hn2 : 0 < n2.

  Definition n2_W1 (sel1 : list (Z * Z)) b bi C1 C1i (p : nisp2) : Z := vW n1 sel1 b bi C1 C1i (n2_d p) (n2_d1 p) (n2_chal p).
  Definition n2_W2 (sel2 : list (Z * Z)) h hi C2 C2i (p : nisp2) : Z := vW n2 sel2 h hi C2 C2i (n2_d p) (n2_d2 p) (n2_chal p).

  Theorem nisp2_verify_spec p c1 c2 pk bases ck U sel1 sel2 bi hi C1i C2i :
    pk_N pk = n1 -> ck_N ck = n2 ->
    mapM (nthZ bases) U = Ok (map fst sel1) -> units n1 sel1 ->
    mapM (nthZ (ck_g ck)) U = Ok (map fst sel2) -> units n2 sel2 ->
    invert (pk_b pk) n1 = Some bi -> invert (ck_h ck) n2 = Some hi ->
    invert (c_value c1) n1 = Some C1i -> invert (c_value c2) n2 = Some C2i ->
    length (n2_d p) = length U ->
    nisp2_verify p c1 c2 pk bases ck U =
    Ok (n2_chal p =? hash_int (str_cat [n2_W1 sel1 (pk_b pk) bi (c_value c1) C1i p; n2_W2 sel2 (ck_h ck) hi (c_value c2) C2i p])).
  Proof.
    intros HN1 HN2 Hm1 Hu1 Hm2 Hu2 Hb Hh HC1 HC2 Hl. unfold nisp2_verify. rewrite HN1, HN2.
    rewrite Hl, Nat.eqb_refl. cbn [negb].
    replace (- 1 * n2_chal p) with (- n2_chal p) by ring.
    rewrite (pow_mod_gp n1 Hn1 _ C1i _ HC1), (pow_mod_gp n2 Hn2 _ C2i _ HC2). cbn [bind].
    rewrite (prod_sel_gp n1 Hn1 bases U sel1 (n2_d p) 1 Hm1 Hu1 Hl). cbn [bind].
    rewrite (prod_sel_gp n2 Hn2 (ck_g ck) U sel2 (n2_d p) 1 Hm2 Hu2 Hl). cbn [bind].
    rewrite (pow_mod_gp n1 Hn1 _ bi _ Hb), (pow_mod_gp n2 Hn2 _ hi _ Hh). cbn [bind].
    unfold n2_W1, n2_W2, vW. rewrite !Z.mul_1_l.
    assert (Hnn1 : 0 <= gprod n1 sel1 (n2_d p) * gp n1 (pk_b pk) bi (n2_d1 p) * gp n1 (c_value c1) C1i (- n2_chal p)).
    { pose proof (gprod_nonneg n1 Hn1 sel1 (n2_d p)). pose proof (gp_range n1 Hn1 (pk_b pk) bi (n2_d1 p)).
      pose proof (gp_range n1 Hn1 (c_value c1) C1i (- n2_chal p)). apply Z.mul_nonneg_nonneg; [apply Z.mul_nonneg_nonneg|]; lia. }
    assert (Hnn2 : 0 <= gprod n2 sel2 (n2_d p) * gp n2 (ck_h ck) hi (n2_d2 p) * gp n2 (c_value c2) C2i (- n2_chal p)).
    { pose proof (gprod_nonneg n2 Hn2 sel2 (n2_d p)). pose proof (gp_range n2 Hn2 (ck_h ck) hi (n2_d2 p)).
      pose proof (gp_range n2 Hn2 (c_value c2) C2i (- n2_chal p)). apply Z.mul_nonneg_nonneg; [apply Z.mul_nonneg_nonneg|]; lia. }
    rewrite (rem_mod_nonneg _ n1 Hnn1 Hn1), (rem_mod_nonneg _ n2 Hnn2 Hn2). reflexivity.
  Qed.

  (* two tuples recomputing to the same two first messages: the SAME exponents ds_i open both commitments' quotients *)
  Theorem nisp2_special_soundness sel1 sel2 b bi h hi C1 C1i C2 C2i p p' :
    units n1 sel1 -> units n2 sel2 -> invert b n1 = Some bi -> invert h n2 = Some hi ->
    invert C1 n1 = Some C1i -> invert C2 n2 = Some C2i ->
    length (n2_d p) = length sel1 -> length (n2_d p') = length sel1 -> length sel2 = length sel1 ->
    n2_W1 sel1 b bi C1 C1i p = n2_W1 sel1 b bi C1 C1i p' -> n2_W2 sel2 h hi C2 C2i p = n2_W2 sel2 h hi C2 C2i p' ->
    cgs n1 (gprod n1 sel1 (vsub (n2_d p) (n2_d p')) * gp n1 b bi (n2_d1 p - n2_d1 p')) (gp n1 C1 C1i (n2_chal p - n2_chal p')) /\
    cgs n2 (gprod n2 sel2 (vsub (n2_d p) (n2_d p')) * gp n2 h hi (n2_d2 p - n2_d2 p')) (gp n2 C2 C2i (n2_chal p - n2_chal p')).
  Proof.
    intros Hu1 Hu2 Hb Hh HC1 HC2 Hl Hl' Hs H1 H2. split.
    - apply (vside_extract n1 Hn1 sel1 b bi C1 C1i Hu1 Hb HC1 _ _ _ _ _ _ Hl Hl' H1).
    - assert (Hk : length (n2_d p) = length sel2) by lia. assert (Hk' : length (n2_d p') = length sel2) by lia.
      apply (vside_extract n2 Hn2 sel2 h hi C2 C2i Hu2 Hh HC2 _ _ _ _ _ _ Hk Hk' H2).
  Qed.

  (* two accepted proofs of the same statement with the same challenge: relations between the bases, or a collision *)
  Theorem nisp2_rigid p p' c1 c2 pk bases ck U sel1 sel2 bi hi C1i C2i :
    pk_N pk = n1 -> ck_N ck = n2 ->
    mapM (nthZ bases) U = Ok (map fst sel1) -> units n1 sel1 ->
    mapM (nthZ (ck_g ck)) U = Ok (map fst sel2) -> units n2 sel2 ->
    invert (pk_b pk) n1 = Some bi -> invert (ck_h ck) n2 = Some hi ->
    invert (c_value c1) n1 = Some C1i -> invert (c_value c2) n2 = Some C2i ->
    nisp2_verify p c1 c2 pk bases ck U = Ok true -> nisp2_verify p' c1 c2 pk bases ck U = Ok true ->
    n2_chal p = n2_chal p' ->
    (cgs n1 (gprod n1 sel1 (vsub (n2_d p) (n2_d p')) * gp n1 (pk_b pk) bi (n2_d1 p - n2_d1 p')) 1 /\
     cgs n2 (gprod n2 sel2 (vsub (n2_d p) (n2_d p')) * gp n2 (ck_h ck) hi (n2_d2 p - n2_d2 p')) 1) \/
    (exists a b : list Z, a <> b /\ hash_int (str_cat a) = hash_int (str_cat b)).
  Proof.
    intros HN1 HN2 Hm1 Hu1 Hm2 Hu2 Hb Hh HC1 HC2 Hv Hv' Hc.
    assert (HlU : forall q, nisp2_verify q c1 c2 pk bases ck U = Ok true -> length (n2_d q) = length U).
    { intros q Hq. unfold nisp2_verify in Hq. destruct (Nat.eqb_spec (length (n2_d q)) (length U)); [assumption|discriminate]. }
    pose proof (HlU p Hv) as Hl. pose proof (HlU p' Hv') as Hl'.
    assert (Hs1 : length U = length sel1).
    { clear - Hm1. revert sel1 Hm1. induction U as [|i V IH]; intros sel Hm.
      - cbn in Hm. destruct sel; [reflexivity|discriminate].
      - cbn [mapM] in Hm. destruct (nthZ bases i); try discriminate. cbn [bind] in Hm.
        destruct (mapM (nthZ bases) V) eqn:E; try discriminate. cbn [bind] in Hm. destruct sel as [|q sel]; [discriminate|].
        cbn [map] in Hm. inversion Hm; subst. cbn. f_equal. apply IH. reflexivity. }
    assert (Hs2 : length U = length sel2).
    { clear - Hm2. revert sel2 Hm2. induction U as [|i V IH]; intros sel Hm.
      - cbn in Hm. destruct sel; [reflexivity|discriminate].
      - cbn [mapM] in Hm. destruct (nthZ (ck_g ck) i); try discriminate. cbn [bind] in Hm.
        destruct (mapM (nthZ (ck_g ck)) V) eqn:E; try discriminate. cbn [bind] in Hm. destruct sel as [|q sel]; [discriminate|].
        cbn [map] in Hm. inversion Hm; subst. cbn. f_equal. apply IH. reflexivity. }
    rewrite (nisp2_verify_spec p c1 c2 pk bases ck U sel1 sel2 bi hi C1i C2i HN1 HN2 Hm1 Hu1 Hm2 Hu2 Hb Hh HC1 HC2 Hl) in Hv.
    rewrite (nisp2_verify_spec p' c1 c2 pk bases ck U sel1 sel2 bi hi C1i C2i HN1 HN2 Hm1 Hu1 Hm2 Hu2 Hb Hh HC1 HC2 Hl') in Hv'.
    set (W1 := n2_W1 sel1 (pk_b pk) bi (c_value c1) C1i) in *. set (W2 := n2_W2 sel2 (ck_h ck) hi (c_value c2) C2i) in *.
    assert (E : n2_chal p = hash_int (str_cat [W1 p; W2 p])) by (apply Z.eqb_eq; inversion Hv; reflexivity).
    assert (E' : n2_chal p' = hash_int (str_cat [W1 p'; W2 p'])) by (apply Z.eqb_eq; inversion Hv'; reflexivity).
    destruct (list_eq_dec Z.eq_dec [W1 p; W2 p] [W1 p'; W2 p']) as [Heq|Hne].
    - left. inversion Heq as [[H1 H2]]. unfold W1, n2_W1 in H1. unfold W2, n2_W2 in H2. rewrite <- Hc in H1, H2. split.
      + assert (K : length (n2_d p) = length sel1) by lia. assert (K' : length (n2_d p') = length sel1) by lia.
        apply (vside_same_challenge n1 Hn1 sel1 (pk_b pk) bi (c_value c1) C1i Hu1 Hb HC1 _ _ _ _ _ K K' H1).
      + assert (K : length (n2_d p) = length sel2) by lia. assert (K' : length (n2_d p') = length sel2) by lia.
        apply (vside_same_challenge n2 Hn2 sel2 (ck_h ck) hi (c_value c2) C2i Hu2 Hh HC2 _ _ _ _ _ K K' H2).
    - right. exists [W1 p; W2 p], [W1 p'; W2 p']. split; [exact Hne|]. rewrite <- E, <- E'. exact Hc.
  Qed.
End N2.
