(* C14 / C15 (soundness core of the sigma protocols of sigma_protocols.rs, for every modulus, invertible bases and responses of
   either sign):
   - nisp2sec (opening of a one-attribute commitment: the per-attribute proofs of a presentation, the proof about r of an
     issuance request), nispm (opening of the issuance commitment over the hidden attributes) and nisp2 (the same hidden
     attributes under the issuer's bases and under the commitment key) -- what the verifier's equation says (.._accepts),
     SPECIAL SOUNDNESS (two challenge / response tuples for the same first message give  prod a_i^(ds_i) * h^(dr) == C^(dc);
     for nisp2 the SAME exponents ds_i under both families of bases), and RIGIDITY (two accepted proofs with the same first
     message: the responses differ by a relation between the bases).
   Not formalised: rewinding, and the strong-RSA step dividing by dc. *)
From ZK Require Import Cl ClArith ClSig ClMore ClGroup ClBoudot ClSound.
From Coq Require Import ZArith Lia Zdiv Setoid Morphisms List Bool.
Import ListNotations.
Open Scope Z_scope.

Lemma rem_eqm a n : 0 < n -> eqm n (Z.rem a n) a.
Proof.
  intros Hn. unfold eqm. pose proof (Z.quot_rem' a n) as H.
  replace a with (Z.rem a n + (a ÷ n) * n) at 2 by lia. rewrite Z_mod_plus_full. reflexivity.
Qed.

Section V.
  Variable n : Z.
  Hypothesis Hn : 0 < n.
  Local Infix "==" := (cgs n) (at level 70).
  Local Instance cgs_equiv' : Equivalence (cgs n) := cgs_equiv n.
  Local Instance cgs_mul' : Proper (cgs n ==> cgs n ==> cgs n) Z.mul := cgs_mul n Hn.

  (* ---------------------------------------------------------------- products of powers of invertible bases *)
  Definition units (sel : list (Z * Z)) : Prop := Forall (fun p => invert (fst p) n = Some (snd p)) sel.

  Fixpoint gprod (sel : list (Z * Z)) (xs : list Z) : Z :=
    match sel, xs with
    | (a, ai) :: s, x :: r => gp n a ai x * gprod s r
    | _, _ => 1
    end.

  Definition vsub (xs ys : list Z) : list Z := map (fun p => fst p - snd p) (combine xs ys).

  Lemma gprod_nonneg sel xs : 0 <= gprod sel xs.
  Proof.
    revert xs; induction sel as [|[a ai] s IH]; intros xs; cbn [gprod]; [lia|]. destruct xs as [|x r]; [lia|].
    pose proof (gp_range n Hn a ai x). specialize (IH r). nia.
  Qed.

  Lemma prod_sel_gp bases : forall U sel exps acc,
    mapM (nthZ bases) U = Ok (map fst sel) -> units sel -> length exps = length U ->
    prod_sel bases exps n U acc = Ok (acc * gprod sel exps).
  Proof.
    induction U as [|i U IH]; intros sel exps acc Hm Hu Hl.
    - destruct exps; [|discriminate]. cbn in Hm. destruct sel; [|discriminate]. cbn. f_equal. ring.
    - destruct exps as [|x xs]; [discriminate|]. cbn [mapM] in Hm.
      destruct (nthZ bases i) as [a| | |] eqn:Ea; try discriminate. cbn [bind] in Hm.
      destruct (mapM (nthZ bases) U) as [as_| | |] eqn:Em; try discriminate. cbn [bind] in Hm.
      destruct sel as [|[a' ai] sel]; [discriminate|]. cbn [map fst] in Hm. inversion Hm; subst a' as_.
      inversion Hu as [|? ? Hi Hu']; subst. cbn [fst snd] in Hi.
      cbn [prod_sel]. rewrite Ea. cbn [bind]. rewrite (pow_mod_gp n Hn a ai x Hi). cbn [bind].
      rewrite (IH sel xs (acc * gp n a ai x) eq_refl Hu' ltac:(cbn in Hl; lia)). cbn [gprod]. f_equal. ring.
  Qed.

  Lemma gprod_split sel : units sel -> forall xs ys, length xs = length sel -> length ys = length sel ->
    gprod sel xs == gprod sel (vsub xs ys) * gprod sel ys.
  Proof.
    induction 1 as [|[a ai] s Hi Hu IH]; intros xs ys Hx Hy.
    - cbn. reflexivity.
    - destruct xs as [|x xs]; [discriminate|]. destruct ys as [|y ys]; [discriminate|]. cbn [fst snd] in Hi.
      unfold vsub. cbn [combine map gprod fst snd]. fold (vsub xs ys).
      pose proof (invert_eqm n a ai Hi) as Hau.
      assert (E1 : gp n a ai x == gp n a ai (x - y) * gp n a ai y).
      { replace x with ((x - y) + y) at 1 by ring. apply (gp_add n Hn a ai Hau). }
      rewrite E1, (IH xs ys ltac:(cbn in Hx; lia) ltac:(cbn in Hy; lia)). apply cgs_eq; ring.
  Qed.

  Lemma gprod_unit sel : units sel -> forall ys, gprod sel ys * gprod sel (map Z.opp ys) == 1.
  Proof.
    induction 1 as [|[a ai] s Hi Hu IH]; intros ys.
    - cbn. reflexivity.
    - destruct ys as [|y ys]; [cbn; reflexivity|]. cbn [map gprod]. cbn [fst snd] in Hi.
      pose proof (gp_opp n Hn a ai (invert_eqm n a ai Hi) y) as H1. change (gp n a ai y * gp n a ai (- y) == 1) in H1.
      transitivity ((gp n a ai y * gp n a ai (- y)) * (gprod s ys * gprod s (map Z.opp ys))); [apply cgs_eq; ring|].
      rewrite H1, (IH ys). reflexivity.
  Qed.

  (* ---------------------------------------------------------------- one verification equation, vector form *)
  Section VSide.
    Variable sel : list (Z * Z).
    Variables h hi C Ci : Z.
    Hypothesis Hsel : units sel.
    Hypothesis Hh : invert h n = Some hi.
    Hypothesis HC : invert C n = Some Ci.
    Let H := gp n h hi.
    Let X := gp n C Ci.
    Let Hhu : h * hi == 1 := invert_eqm n h hi Hh.
    Let HCu : C * Ci == 1 := invert_eqm n C Ci HC.

    (* the first message recomputed from a challenge and the responses *)
    Definition vW (d : list Z) (d1 c : Z) : Z := (gprod sel d * H d1 * X (- c)) mod n.

    Lemma vside_unit d' d1' c : (gprod sel d' * H d1' * X (- c)) * (gprod sel (map Z.opp d') * H (- d1') * X c) == 1.
    Proof.
      pose proof (gprod_unit sel Hsel d') as H1. pose proof (gp_opp n Hn h hi Hhu d1') as H2.
      pose proof (gp_opp n Hn C Ci HCu c) as H3.
      change (H d1' * H (- d1') == 1) in H2. change (X c * X (- c) == 1) in H3.
      transitivity ((gprod sel d' * gprod sel (map Z.opp d')) * (H d1' * H (- d1')) * (X c * X (- c))); [apply cgs_eq; ring|].
      rewrite H1, H2, H3. reflexivity.
    Qed.

    Theorem vside_extract d d1 c d' d1' c' :
      length d = length sel -> length d' = length sel ->
      vW d d1 c = vW d' d1' c' -> gprod sel (vsub d d') * H (d1 - d1') == X (c - c').
    Proof.
      intros Hl Hl' Heq.
      assert (Hq : gprod sel d * H d1 * X (- c) == gprod sel d' * H d1' * X (- c')).
      { rewrite <- (cgs_mod n (gprod sel d * H d1 * X (- c))), <- (cgs_mod n (gprod sel d' * H d1' * X (- c'))).
        apply cgs_eq. exact Heq. }
      assert (E1 : H d1 == H (d1 - d1') * H d1').
      { replace d1 with ((d1 - d1') + d1') at 1 by ring. apply (gp_add n Hn h hi Hhu). }
      assert (E2 : X (- c') == X (c - c') * X (- c)).
      { replace (- c') with ((c - c') + - c) at 1 by ring. apply (gp_add n Hn C Ci HCu). }
      rewrite (gprod_split sel Hsel d d' Hl Hl'), E1, E2 in Hq.
      apply (cgs_cancel n Hn _ _ (gprod sel d' * H d1' * X (- c)) (gprod sel (map Z.opp d') * H (- d1') * X c) (vside_unit d' d1' c)).
      transitivity (gprod sel (vsub d d') * gprod sel d' * (H (d1 - d1') * H d1') * X (- c)); [apply cgs_eq; ring|].
      rewrite Hq. apply cgs_eq; ring.
    Qed.

    Corollary vside_same_challenge d d1 d' d1' c :
      length d = length sel -> length d' = length sel ->
      vW d d1 c = vW d' d1' c -> gprod sel (vsub d d') * H (d1 - d1') == 1.
    Proof.
      intros Hl Hl' Heq. rewrite (vside_extract _ _ _ _ _ _ Hl Hl' Heq). replace (c - c) with 0 by ring. apply (gp_0 n).
    Qed.

    (* the equation  lhs == t * C^c  of nisp2sec / nispm, in first-message form *)
    Lemma eq_to_vW d d1 c t : gprod sel d * H d1 == t * X c -> vW d d1 c = t mod n.
    Proof.
      intros He. unfold vW. change (gprod sel d * H d1 * X (- c) == t). rewrite He.
      pose proof (gp_opp n Hn C Ci HCu c) as H3. change (X c * X (- c) == 1) in H3.
      transitivity (t * (X c * X (- c))); [apply cgs_eq; ring|]. rewrite H3. apply cgs_eq; ring.
    Qed.
  End VSide.
End V.

(* ---------------------------------------------------------------- nisp2sec: C = g^m h^r *)
Section N2S.
  Variable n : Z.
  Hypothesis Hn : 0 < n.
  Variables g gi h hi : Z.
  Hypothesis Hg : invert g n = Some gi.
  Hypothesis Hh : invert h n = Some hi.
  Local Infix "==" := (cgs n) (at level 70).
  Local Instance cgs_equiv'' : Equivalence (cgs n) := cgs_equiv n.
  Local Instance cgs_mul'' : Proper (cgs n ==> cgs n ==> cgs n) Z.mul := cgs_mul n Hn.

  Definition ns_chal (p : nisps) (c : commitment) : Z := hash_int (str_cat [g; h; c_value c; ns_t p]).

  (* what acceptance says: the first message in the proof is the one recomputed from the responses *)
  Theorem nisp2sec_accepts p c Ci :
    invert (c_value c) n = Some Ci ->
    nisp2sec_verify p c g h n = Ok true ->
    ssW n g gi h hi (c_value c) Ci (ns_s1 p) (ns_s2 p) (ns_chal p c) = ns_t p mod n.
  Proof.
    intros HC Hv. unfold nisp2sec_verify in Hv.
    rewrite (pow_mod_gp n Hn g gi _ Hg), (pow_mod_gp n Hn h hi _ Hh) in Hv. cbn [bind] in Hv.
    fold (ns_chal p c) in Hv. rewrite (pow_mod_gp n Hn _ Ci _ HC) in Hv. cbn [bind] in Hv.
    inversion Hv as [Hb]. apply Z.eqb_eq in Hb.
    assert (He : gp n g gi (ns_s1 p) * gp n h hi (ns_s2 p) == ns_t p * gp n (c_value c) Ci (ns_chal p c)).
    { transitivity (Z.rem (gp n g gi (ns_s1 p) * gp n h hi (ns_s2 p)) n); [symmetry; apply (rem_eqm _ n Hn)|].
      rewrite Hb. apply (rem_eqm _ n Hn). }
    pose proof (eq_to_vW n Hn [(g, gi)] h hi (c_value c) Ci HC [ns_s1 p] (ns_s2 p) (ns_chal p c) (ns_t p)) as Hw.
    unfold vW in Hw. cbn [gprod] in Hw. unfold ssW. rewrite <- Hw.
    - f_equal. ring.
    - rewrite <- He. apply cgs_eq. ring.
  Qed.

  (* special soundness: the same first message answered for two challenges *)
  Theorem nisp2sec_special_soundness C Ci s1 s2 c s1' s2' c' :
    invert C n = Some Ci ->
    ssW n g gi h hi C Ci s1 s2 c = ssW n g gi h hi C Ci s1' s2' c' ->
    gp n g gi (s1 - s1') * gp n h hi (s2 - s2') == gp n C Ci (c - c').
  Proof. intros HC He. apply (side_extract n Hn g gi h hi C Ci Hg Hh HC _ _ _ _ _ _ He). Qed.

  (* rigidity: two accepted proofs for the same commitment with the same first message *)
  Theorem nisp2sec_rigid p p' c Ci :
    invert (c_value c) n = Some Ci ->
    nisp2sec_verify p c g h n = Ok true -> nisp2sec_verify p' c g h n = Ok true -> ns_t p = ns_t p' ->
    gp n g gi (ns_s1 p - ns_s1 p') * gp n h hi (ns_s2 p - ns_s2 p') == 1.
  Proof.
    intros HC Hv Hv' Ht.
    pose proof (nisp2sec_accepts p c Ci HC Hv) as H1. pose proof (nisp2sec_accepts p' c Ci HC Hv') as H2.
    assert (Hc : ns_chal p c = ns_chal p' c) by (unfold ns_chal; rewrite Ht; reflexivity).
    rewrite <- Hc, <- Ht, <- H1 in H2.
    apply (side_same_challenge n Hn g gi h hi (c_value c) Ci Hg Hh HC _ _ _ _ _ (eq_sym H2)).
  Qed.
End N2S.
