(* C15, composition: the whole proof of knowledge of a CL03 signature (spok_gen: the nine-response protocol, the range
   proof on e, and for every hidden attribute a commitment with its opening proof and range proof) verifies. *)
From ZK Require Import Cl ClArith ClSig ClMore ClGroup ClBoudot ModelLemmas ClSpok ClSpok2.
From Coq Require Import ZArith Lia Znumtheory Zpow_facts Zdiv List.
Import ListNotations.
Open Scope Z_scope.

Section P.
  Variable n : Z.
  Hypothesis Hn : 0 < n.
  Local Infix "==" := (eqm n) (at level 70).

  (* the two-secret opening proof for invertible bases: no condition on the draws, on the secret or on the randomness *)
  Theorem nisp2sec_complete_u CS g gi h hi (Hg : invert g n = Some gi) (Hh : invert h n = Some hi) m c ds p ds' :
    c_value c = Cm n g gi h hi m (c_rand c) ->
    nisp2sec_gen CS m c g h n ds = Ok (p, ds') ->
    nisp2sec_verify p c g h n = Ok true.
  Proof.
    intros HC H. unfold nisp2sec_gen in H.
    mstep H r1 d1 H1. mstep H r2 d2 H2. mstep H a d3 Ha. mstep H b d4 Hb. apply mret_ok in H as [-> _].
    apply lift_ok in Ha as [Ha _]. apply lift_ok in Hb as [Hb _].
    rewrite (pow_mod_gp n Hn g gi _ Hg) in Ha. rewrite (pow_mod_gp n Hn h hi _ Hh) in Hb.
    inversion Ha; inversion Hb; subst a b; clear Ha Hb.
    assert (Ht : Z.rem (gp n g gi r1 * gp n h hi r2) n = Cm n g gi h hi r1 r2).
    { rewrite rem_mod_nonneg; [reflexivity| |exact Hn]. apply Z.mul_nonneg_nonneg; apply gp_range; exact Hn. }
    rewrite Ht in *.
    remember (hash_int (str_cat [g; h; c_value c; Cm n g gi h hi r1 r2])) as ch eqn:Ech.
    assert (Hch : 0 <= ch) by (rewrite Ech; unfold hash_int; lia).
    unfold nisp2sec_verify. cbn [ns_t ns_s1 ns_s2]. rewrite <- Ech.
    rewrite (pow_mod_gp n Hn g gi _ Hg), (pow_mod_gp n Hn h hi _ Hh). cbn [bind].
    rewrite pow_mod_nonneg by assumption. cbn [bind]. f_equal. apply Z.eqb_eq.
    assert (Hl : Z.rem (gp n g gi (r1 + ch * m) * gp n h hi (r2 + ch * c_rand c)) n = Cm n g gi h hi (r1 + ch * m) (r2 + ch * c_rand c)).
    { rewrite rem_mod_nonneg; [reflexivity| |exact Hn]. apply Z.mul_nonneg_nonneg; apply gp_range; exact Hn. }
    rewrite Hl. rewrite rem_mod_nonneg; [| |exact Hn].
    2:{ apply Z.mul_nonneg_nonneg; [apply Cm_range; exact Hn|apply Z.mod_pos_bound; exact Hn]. }
    apply (eqm_small n); [apply Cm_range; exact Hn|apply Z.mod_pos_bound; exact Hn|].
    apply eqm_sym. eapply eqm_trans; [apply Zmod_eqm|].
    eapply eqm_trans; [apply (eqm_mul n Hn); [apply eqm_refl|apply Zmod_eqm]|].
    rewrite HC.
    eapply eqm_trans; [apply (eqm_mul n Hn); [apply eqm_refl|apply (Cm_pow n Hn g gi h hi); exact Hch]|].
    eapply eqm_trans; [apply (Cm_add n Hn g gi h hi Hg Hh)|].
    replace (m * ch) with (ch * m) by ring. replace (c_rand c * ch) with (ch * c_rand c) by ring. apply eqm_refl.
  Qed.
End P.

(* the range proof the honest prover returns names the commitment it was made for *)
Lemma boudot_prove_E BP v c g h n a b ds p ds' : boudot_prove BP v c g h n a b ds = Ok (p, ds') -> bd_E p = c_value c.
Proof.
  intros H. unfold boudot_prove in H. destruct (b <=? a); [discriminate|].
  mstep H Ep e1 HEp. mstep H wt e2 Hwt. apply mret_ok in H as [-> _]. reflexivity.
Qed.

Section Q.
  Variable CS : clsuite.
  Variable BP : bparams.
  Variable n : Z.
  Hypothesis Hn : 0 < n.
  Hypothesis Ht : 0 <= b_t BP.

  (* the commitment to one attribute under the commitment key: g_i^m_i h^r, for any logged r *)
  Lemma commit_one msgs ck i ds c ds' hi gi' : ck_N ck = n -> invert (ck_h ck) n = Some hi ->
    Forall (fun x => 0 <= x) msgs ->
    commit_with_cpk CS msgs ck (Some [i]) ds = Ok (c, ds') ->
    forall g, nthZ (ck_g ck) i = Ok g -> invert g n = Some gi' ->
    exists m, nthZ msgs i = Ok m /\ c_value c = Cm n g gi' (ck_h ck) hi m (c_rand c).
  Proof.
    intros HN Hh Hm H g Hg Hgi. unfold commit_with_cpk in H. rewrite HN in H.
    mstep H r d1 Hr. mstep H cx d2 Hcx. mstep H hr d3 Hhr. apply mret_ok in H as [-> _].
    apply lift_ok in Hcx as [Hcx _]. apply lift_ok in Hhr as [Hhr _].
    cbn [all_idx prod_idx] in Hcx. rewrite Hg in Hcx. cbn [bind] in Hcx.
    destruct (nthZ msgs i) as [m| | |] eqn:Em; try discriminate. cbn [bind] in Hcx.
    assert (Hm0 : 0 <= m).
    { unfold nthZ in Em. destruct (nth_error msgs (N.to_nat i)) as [m'|] eqn:E; [|discriminate]. inversion Em; subst m'.
      rewrite Forall_forall in Hm. apply Hm. eapply nth_error_In. exact E. }
    rewrite (pow_mod_gp n Hn g gi' _ Hgi) in Hcx. cbn [bind] in Hcx. inversion Hcx; subst cx; clear Hcx.
    rewrite (pow_mod_gp n Hn _ hi _ Hh) in Hhr. inversion Hhr; subst hr; clear Hhr.
    exists m. split; [reflexivity|]. cbn [c_value c_rand].
    replace (match gp n g gi' m with 0 => 0 | Z.pos y' => Z.pos y' | Z.neg y' => Z.neg y' end) with (gp n g gi' m)
      by (destruct (gp n g gi' m); reflexivity).
    rewrite rem_mod_nonneg; [reflexivity| |exact Hn]. apply Z.mul_nonneg_nonneg; apply gp_range; exact Hn.
  Qed.

  (* the per-attribute part: for every list of hidden positions *)
  Lemma spok_loop_complete msgs ck hi : ck_N ck = n -> invert (ck_h ck) n = Some hi ->
    Forall (unit n) (ck_g ck) -> Forall (fun x => 0 <= x) msgs ->
    forall U ds per ds',
    mmapM (fun i =>
             let+ mi := lift (nthZ msgs i) in
             let+ gi := lift (nthZ (ck_g ck) i) in
             let+ cmi := commit_with_cpk CS msgs ck (Some [i]) in
             let+ pmi := nisp2sec_gen CS mi cmi gi (ck_h ck) (ck_N ck) in
             let+ rp := boudot_prove BP mi cmi gi (ck_h ck) (ck_N ck) 0 (max_x CS) in
             mret ({| pv_value := pmi; pv_com := cmi |}, rp)) U ds = Ok (per, ds') ->
    spok_verify_loop CS BP ck U (map fst per) (map snd per) = Ok true.
  Proof.
    intros HN Hh Hgu Hm. induction U as [|i U IH]; intros ds per ds' H; cbn [mmapM] in H.
    - apply mret_ok in H as [-> _]. reflexivity.
    - mstep H x d1 Hx. mstep H rest d2 Hrest. apply mret_ok in H as [-> _].
      mstep Hx mi e1 Hmi. mstep Hx g e2 Hg. mstep Hx cmi e3 Hcmi. mstep Hx pmi e4 Hpmi. mstep Hx rp e5 Hrp.
      apply mret_ok in Hx as [-> _]. apply lift_ok in Hmi as [Hmi ->]. apply lift_ok in Hg as [Hg ->].
      rewrite HN in *.
      assert (Hgunit : unit n g).
      { unfold nthZ in Hg. destruct (nth_error (ck_g ck) (N.to_nat i)) as [g'|] eqn:E; [|discriminate]. inversion Hg; subst g'.
        rewrite Forall_forall in Hgu. apply Hgu. eapply nth_error_In. exact E. }
      destruct (unit_invert n Hn g Hgunit) as [gi [Hgi _]].
      destruct (commit_one msgs ck i _ _ _ hi gi HN Hh Hm Hcmi g Hg Hgi) as [m [Hm' HC]].
      rewrite Hmi in Hm'. inversion Hm'; subst m; clear Hm'.
      cbn [map fst snd spok_verify_loop]. rewrite Hg. cbn [bind]. cbn [pv_value pv_com]. rewrite HN.
      rewrite (nisp2sec_complete_u n Hn CS g gi (ck_h ck) hi Hgi Hh mi cmi _ _ _ HC Hpmi). cbn [bind negb].
      rewrite (boudot_prove_E _ _ _ _ _ _ _ _ _ _ _ Hrp), Z.eqb_refl. cbn [negb].
      rewrite (boudot_complete n Hn g gi (ck_h ck) hi Hgi Hh BP mi cmi 0 (max_x CS) _ _ _ Ht HC Hrp). cbn [bind negb].
      eapply IH. exact Hrest.
  Qed.
End Q.

(* the commitment to e carried by the nine-response proof *)
Lemma nisp5_gen_Ce CS sg ck pk bases msgs U ds p ds' :
  0 < pk_N pk -> ck_N ck = pk_N pk -> (length msgs <= length (ck_g ck))%nat -> (1 <= length (ck_g ck))%nat ->
  Forall (fun x => 0 <= x) msgs -> 0 <= s_v sg -> 0 <= s_e sg -> Forall bits_ok ds ->
  nisp5_gen CS sg ck pk bases msgs U ds = Ok (p, ds') ->
  0 <= c_rand (sp_Ce p) /\ 0 <= c_value (sp_Ce p) < pk_N pk /\
  eqm (pk_N pk) (c_value (sp_Ce p)) (PP (ck_g ck) [s_e sg] * ck_h ck ^ c_rand (sp_Ce p)).
Proof.
  intros HN HNm Hlg Hg1 Hm0 Hv He Hd H. unfold nisp5_gen in H.
  destruct (Nat.ltb (length bases) (length msgs) && Nat.ltb (length (ck_g ck)) (length msgs))%bool; [discriminate|].
  mstep H CCx d1 HCx. mstep H CCv d2 HCv. mstep H CCw d3 HCw. mstep H CCe d4 HCe.
  apply (commit_with_cpk_all CS (pk_N pk) HN) in HCx as [_ [_ [_ Hd1]]]; [|assumption|assumption|assumption|assumption].
  destruct (commit_v_spec CS (pk_N pk) (s_v sg) ck d1 CCv d2 HN HNm Hv Hd1 HCv) as [g0 [_ [Hw0 [_ [_ Hd2]]]]].
  apply (commit_with_cpk_all CS (pk_N pk) HN) in HCw as [_ [_ [_ Hd3]]];
    [|assumption|constructor; [assumption|constructor]|cbn; lia|assumption].
  apply (commit_with_cpk_all CS (pk_N pk) HN) in HCe as [Hre0 [HCer [HCee _]]];
    [|assumption|constructor; [assumption|constructor]|cbn; lia|assumption].
  repeat (apply mbind_ok in H as [? [? [_ H]]]). apply mret_ok in H as [-> _]. cbn [sp_Ce]. auto.
Qed.

Section T.
  Variable CS : clsuite.
  Variable BP : bparams.

  Theorem spok_complete sg ck pk bases msgs U ds p ds' :
    0 <= b_t BP ->
    0 < pk_N pk -> ck_N ck = pk_N pk ->
    Forall (unit (pk_N pk)) bases -> Forall (unit (pk_N pk)) (ck_g ck) -> unit (pk_N pk) (ck_h ck) ->
    unit (pk_N pk) (pk_b pk) -> unit (pk_N pk) (pk_c pk) -> 0 <= pk_c pk ->
    (length msgs <= length bases)%nat -> (length msgs <= length (ck_g ck))%nat -> (1 <= length (ck_g ck))%nat ->
    0 <= s_s sg ->
    verify_multiattr CS sg pk bases msgs = Ok true ->
    strictly_sorted U -> Forall (fun j => (N.to_nat j < length msgs)%nat) U ->
    Forall bits_ok ds ->
    spok_gen CS BP sg ck pk bases msgs U ds = Ok (p, ds') ->
    spok_verify CS BP p ck pk bases (map (at_ msgs) (revealed_of U 0 (length msgs))) U (length msgs) = Ok true.
  Proof.
    intros Ht HN HNm Hbases Hcg Hh Hb Hc Hc0 Hlb Hlg Hg1 Hs Hver HS HU Hd H.
    unfold spok_gen in H. mstep H sp d1 Hsp. mstep H g0 d2 Hg0. mstep H rpe d3 Hrpe. mstep H per d4 Hper.
    apply mret_ok in H as [-> _]. apply lift_ok in Hg0 as [Hg0 ->].
    (* facts read off the issuer's check *)
    assert (Hfacts : Forall (fun x => 0 <= x) msgs /\ 0 < s_v sg /\ 0 < s_e sg).
    { unfold verify_multiattr in Hver. destruct (Nat.ltb (length bases) (length msgs)); [discriminate|].
      destruct (forallb (msg_in_range CS) msgs) eqn:Hrange; [|discriminate]. cbn [negb] in Hver.
      destruct (s_v sg <=? 0) eqn:Hv0; [discriminate|]. apply Z.leb_gt in Hv0. cbn [orb] in Hver.
      destruct (pk_N pk <=? s_v sg); [discriminate|].
      destruct (pow_mod (s_v sg) (s_e sg) (pk_N pk)); try discriminate. cbn [bind] in Hver.
      destruct (prod_pows bases msgs (pk_N pk) 1); try discriminate. cbn [bind] in Hver.
      destruct (pow_mod (pk_b pk) (s_s sg) (pk_N pk)); try discriminate. cbn [bind] in Hver.
      destruct (Z.leb_spec (s_e sg) (two (le CS - 1))) as [|He]; [discriminate|].
      split; [|split; [exact Hv0|]].
      - rewrite Forall_forall. intros x Hx. rewrite forallb_forall in Hrange. specialize (Hrange x Hx).
        unfold msg_in_range in Hrange. apply Bool.andb_true_iff in Hrange as [Hr _]. apply Z.leb_le in Hr. exact Hr.
      - pose proof (Z.pow_nonneg 2 (le CS - 1) ltac:(lia)). unfold two in He. lia. }
    destruct Hfacts as [Hm0 [Hv0 He0]].
    pose proof (nisp5_complete CS sg ck pk bases msgs U ds sp d1 HN HNm Hbases Hcg Hh Hb Hc Hc0 Hlb Hlg Hg1 Hs Hver HS HU Hd Hsp) as Hn5.
    destruct (nisp5_gen_Ce CS sg ck pk bases msgs U ds sp d1 HN HNm Hlg Hg1 Hm0 ltac:(lia) ltac:(lia) Hd Hsp) as [Hre0 [HCer HCee]].
    (* g0 and h are invertible *)
    assert (Hgl : exists rest, ck_g ck = g0 :: rest).
    { destruct (ck_g ck) as [|x rest]; [cbn in Hg0; discriminate|]. cbn in Hg0. inversion Hg0. eauto. }
    destruct Hgl as [grest Hgl].
    assert (Hg0u : unit (pk_N pk) g0) by (rewrite Hgl in Hcg; inversion Hcg; assumption).
    destruct (unit_invert _ HN g0 Hg0u) as [g0i [Hg0i _]].
    destruct (unit_invert _ HN _ Hh) as [hi [Hhi _]].
    assert (HCe : c_value (sp_Ce sp) = Cm (pk_N pk) g0 g0i (ck_h ck) hi (s_e sg) (c_rand (sp_Ce sp))).
    { apply (eqm_small (pk_N pk)); [exact HCer|apply Cm_range; exact HN|].
      eapply eqm_trans; [exact HCee|]. apply eqm_sym. eapply eqm_trans; [apply Cm_eqm|].
      rewrite Hgl. cbn [PP]. unfold gp. destruct (Z.leb_spec 0 (s_e sg)); [|lia]. destruct (Z.leb_spec 0 (c_rand (sp_Ce sp))); [|lia].
      apply (eqm_mul _ HN); [|apply Zmod_eqm]. eapply eqm_trans; [apply Zmod_eqm|]. apply eqm_eq. ring. }
    unfold spok_verify. cbn [pk_spok pk_rpe pk_pmi pk_rpmi]. rewrite Hn5. cbn [bind negb].
    assert (HE : bd_E rpe = c_value (sp_Ce sp)).
    { unfold boudot_prove in Hrpe. destruct (max_e CS <=? min_e CS); [discriminate|].
      mstep Hrpe Ep e1 HEp. mstep Hrpe wt e2 Hwt. apply mret_ok in Hrpe as [-> _]. reflexivity. }
    assert (Hlper : length per = length U).
    { apply (mmapM_forall _ (fun _ => True) U _ _ _ (fun _ _ _ _ _ => I) Hper). }
    rewrite !map_length, Hlper, Nat.eqb_refl. cbn [andb negb].
    rewrite HE, Z.eqb_refl. rewrite Hg0. cbn [bind]. rewrite HNm in *.
    rewrite (boudot_complete _ HN g0 g0i (ck_h ck) hi Hg0i Hhi BP (s_e sg) (sp_Ce sp) _ _ _ _ _ Ht HCe Hrpe).
    eapply (spok_loop_complete CS BP (pk_N pk) HN Ht msgs ck hi HNm Hhi Hcg Hm0). rewrite HNm. exact Hper.
  Qed.
End T.

(* ---------------------------------------------------------------- the static premises are satisfiable *)
(* N = 7 * 11, e = 13 (coprime to phi = 60, 13^-1 = 37), two attributes, bases 4 and 9, b = 16, c = 25:
   v = (4^3 * 9^5 * 16^6 * 25)^37 mod 77 *)
Definition ex_suite : clsuite := {| SECPARAM := 8; QSEC := 2; ln := 7; lm := 8; lin := 8; le := 4; ls := 8 |}.
Definition ex_pk : pubkey := {| pk_N := 77; pk_b := 16; pk_c := 25 |}.
Definition ex_ck : cpubkey := {| ck_N := 77; ck_h := 36; ck_g := [4; 9] |}.
Definition ex_v : Z := ((4 ^ 3 * 9 ^ 5 * 16 ^ 6 * 25) ^ 37) mod 77.
Definition ex_sg : clsig := {| s_e := 13; s_s := 6; s_v := ex_v |}.

Lemma unit77 x y : (x * y) mod 77 = 1 -> unit 77 x.
Proof. intros H. exists y. unfold eqm. rewrite H. reflexivity. Qed.

Example spok_premises_satisfiable :
  0 < pk_N ex_pk /\ ck_N ex_ck = pk_N ex_pk /\
  Forall (unit (pk_N ex_pk)) [4; 9] /\ Forall (unit (pk_N ex_pk)) (ck_g ex_ck) /\ unit (pk_N ex_pk) (ck_h ex_ck) /\
  unit (pk_N ex_pk) (pk_b ex_pk) /\ unit (pk_N ex_pk) (pk_c ex_pk) /\ 0 <= pk_c ex_pk /\ 0 <= s_s ex_sg /\
  verify_multiattr ex_suite ex_sg ex_pk [4; 9] [3; 5] = Ok true /\
  strictly_sorted [1%N] /\ Forall (fun j => (N.to_nat j < 2)%nat) [1%N].
Proof.
  cbn [pk_N ck_N ex_pk ex_ck ck_g ck_h pk_b pk_c].
  assert (U4 : unit 77 4) by (apply (unit77 4 58); reflexivity).
  assert (U9 : unit 77 9) by (apply (unit77 9 60); reflexivity).
  split; [lia|]. split; [reflexivity|]. split; [repeat constructor; assumption|]. split; [repeat constructor; assumption|].
  split; [apply (unit77 36 15); reflexivity|]. split; [apply (unit77 16 53); reflexivity|].
  split; [apply (unit77 25 37); reflexivity|]. split; [lia|]. split; [cbn; lia|].
  split; [vm_compute; reflexivity|]. split; repeat constructor.
Qed.
